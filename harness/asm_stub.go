package main

import (
	"bufio"
	"math/rand"
)

func runAsmDomain(domain string, out *bufio.Writer, rng *rand.Rand, thorough bool, n int, replay string) bool {
	return false
}
