package main

import (
	"bufio"
	"math/rand"
)

func runAsmDomain(domain string, out *bufio.Writer, rng *rand.Rand, thorough bool, n int, replay string) bool {
	cnt := func(q, t int) int {
		if n > 0 {
			return n
		}
		if thorough {
			return t
		}
		return q
	}
	switch domain {
	case "load":
		genLoad(out, rng, cnt(3000, 200000))
	case "loadbad":
		genLoadBad(out, rng, cnt(20000, 1000000))
	case "listing":
		genListing(out, rng, cnt(3000, 200000))
	default:
		return runHookDomain(domain, out, rng, cnt)
	}
	return true
}
