package main

import (
	"bufio"
	"math/rand"
)

func runAsmDomain(domain string, out *bufio.Writer, rng *rand.Rand, thorough bool, n int, replay string) bool {
	cnt := func(q, t int) int {
		if n > 0 {
			return n
		}
		if thorough {
			return t
		}
		return q
	}
	switch domain {
	case "load":
		genLoad(out, rng, cnt(3000, 200000))
	case "loadbad":
		genLoadBad(out, rng, cnt(20000, 1000000))
	case "listing":
		genListing(out, rng, cnt(3000, 200000))
	case "asm94":
		genAsm(out, rng, false, cnt(3000, 150000))
	case "asm88":
		genAsm(out, rng, true, cnt(2000, 100000))
	case "expr":
		genExpr(out, rng, cnt(4000, 200000))
	case "for":
		genFor(out, rng, cnt(3000, 150000))
	case "conc":
		genConc(out, rng, cnt(3, 200))
	case "cli":
		genCLI(out, rng, cnt(400, 20000))
	case "clilist":
		genCLIList(out, rng, cnt(400, 10000))
	case "soup":
		genSoup(out, rng, cnt(12000, 600000))
	default:
		return runHookDomain(domain, out, rng, cnt)
	}
	return true
}
