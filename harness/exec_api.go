package main

// Executor for the `api` family of cases: drives the real simulator through
// its public API only, and prints one protocol line per operation with the
// observation of the implementation (DESIGN.md 4.1).

import (
	"bufio"
	"fmt"
	"math/rand"
	"strings"
	"time"

	"github.com/bobertlo/gmars"
)

type logReporter struct{ reports []gmars.Report }

func (l *logReporter) Report(r gmars.Report) { l.reports = append(l.reports, r) }

type recEntry struct {
	state gmars.CoreState
	color int
}

type apiCase struct {
	out      *bufio.Writer
	sim      gmars.ReportingSimulator
	rec      *gmars.StateRecorder
	log      *logReporter
	m        uint64
	prevMem  []gmars.Instruction
	prevRec  []recEntry
	dead     bool
	skipped  bool
	deadline time.Duration
	// handles returned by AddWarrior; when useHandles is set the observation goes through them
	// instead of GetWarrior(i) (a handle must stay valid for the life of the simulator)
	handles    []gmars.Warrior
	useHandles bool
	names      [][2]string // name and author passed to AddWarrior, per warrior
	maxCycles  int
	// slices returned by Queue() at the previous observation and what they held then: an answer
	// already given must not change afterwards, and writing into it must not reach the simulator
	retained     [][]gmars.Address
	retainedCopy [][]gmars.Address
	runResults   [][]bool // slices returned by Run() and what they held
	runCopies    [][]bool
}

func cellStr(i gmars.Instruction) string {
	return fmt.Sprintf("%d,%d,%d,%d,%d,%d", i.Op, i.OpMode, i.AMode, i.A, i.BMode, i.B)
}

func cellsStr(code []gmars.Instruction) string {
	parts := make([]string, len(code))
	for i, c := range code {
		parts[i] = cellStr(c)
	}
	return strings.Join(parts, ";")
}

func panicKind(r interface{}) string {
	s := fmt.Sprint(r)
	switch {
	case strings.Contains(s, "index out of range"):
		return "index"
	case strings.Contains(s, "nil pointer"):
		return "nil"
	case strings.Contains(s, "divide by zero"):
		return "div"
	case strings.Contains(s, "slice bounds"):
		return "slice"
	case strings.Contains(s, "makeslice"):
		return "make"
	}
	return "other"
}

// guarded runs f with recover and a deadline; returns "", "panic:<k>" or "timeout"
func guarded(d time.Duration, f func()) string {
	done := make(chan string, 1)
	go func() {
		defer func() {
			if r := recover(); r != nil {
				done <- "panic:" + panicKind(r)
			}
		}()
		f()
		done <- ""
	}()
	select {
	case r := <-done:
		return r
	case <-time.After(d):
		return "timeout"
	}
}

// apiTimeouts counts operations that hit the deadline (a spinning Run leaves a goroutine burning
// a core); after a few of them the remaining cases of the domain are skipped
var apiTimeouts int

// every other case observes the warriors through the handles AddWarrior returned
var apiCaseNo int

func newAPICase(out *bufio.Writer, id, tag string, cfg gmars.SimulatorConfig, recordReads bool) *apiCase {
	apiCaseNo++
	c := &apiCase{out: out, deadline: 5 * time.Second, useHandles: apiCaseNo%2 == 1}
	// the rule set must not matter to the simulator: every case runs under one of the three modes,
	// chosen by the case id (the two placements of a rotation pair share it)
	{
		key := id
		if tag == "rot" && len(key) > 0 {
			key = key[:len(key)-1]
		}
		h := uint32(2166136261)
		for i := 0; i < len(key); i++ {
			h = (h ^ uint32(key[i])) * 16777619
		}
		if cfg.Mode <= gmars.ICWS94 { // a Mode outside the three named values is kept as given
			cfg.Mode = []gmars.SimulatorMode{gmars.ICWS94, gmars.ICWS88, gmars.NOP94}[h%3]
		}
	}
	if apiTimeouts >= 3 {
		c.dead, c.skipped = true, true
		return c
	}
	rr := 0
	if recordReads {
		rr = 1
	}
	fmt.Fprintf(out, "N %s %s %d %d %d %d %d %d %d %d %d | ", id, tag, cfg.Mode, cfg.CoreSize, cfg.Processes,
		cfg.Cycles, cfg.ReadLimit, cfg.WriteLimit, cfg.Length, cfg.Distance, rr)
	var err error
	res := guarded(c.deadline, func() {
		c.sim, err = gmars.NewReportingSimulator(cfg)
	})
	switch {
	case res != "":
		fmt.Fprintf(out, "%s\n", res)
		c.dead = true
	case err != nil:
		fmt.Fprintf(out, "err\n")
		c.dead = true
	default:
		fmt.Fprintf(out, "ok\n")
		c.m = uint64(cfg.CoreSize)
		c.maxCycles = int(cfg.Cycles)
		c.log = &logReporter{}
		c.sim.AddReporter(c.log)
		c.rec = gmars.NewStateRecorder(c.sim)
		c.rec.SetRecordRead(recordReads)
		c.sim.AddReporter(c.rec)
		c.prevMem = make([]gmars.Instruction, c.m)
		c.prevRec = make([]recEntry, c.m)
		for i := range c.prevRec {
			c.prevRec[i] = recEntry{gmars.CoreEmpty, -1}
		}
	}
	return c
}

func (c *apiCase) end() {
	if c.skipped {
		return
	}
	fmt.Fprintf(c.out, "E\n")
}

// observe prints the canonical observation of the current state
func (c *apiCase) observe() string {
	var sb strings.Builder
	res := guarded(c.deadline, func() {
		n := c.sim.WarriorCount()
		for i := range c.retained {
			for j := range c.retained[i] {
				if c.retained[i][j] != c.retainedCopy[i][j] {
					fmt.Fprintf(&sb, "queue-answer-%d-changed-afterwards ", i)
					break
				}
			}
		}
		c.retained, c.retainedCopy = c.retained[:0], c.retainedCopy[:0]
		fmt.Fprintf(&sb, "c=%d l=%d n=%d w=", c.sim.CycleCount(), c.sim.WarriorLivingCount(), n)
		for i := 0; i < n; i++ {
			if i > 0 {
				sb.WriteString("/")
			}
			w := c.sim.GetWarrior(i)
			if c.useHandles && i < len(c.handles) && c.handles[i] != nil {
				w = c.handles[i]
			}
			a := 0
			if w.Alive() {
				a = 1
			}
			fmt.Fprintf(&sb, "%d:", a)
			qv := w.Queue()
			for j, q := range qv {
				if j > 0 {
					sb.WriteString(",")
				}
				fmt.Fprintf(&sb, "%d", q)
			}
			if len(qv) <= 4096 {
				c.retained = append(c.retained, qv)
				c.retainedCopy = append(c.retainedCopy, append([]gmars.Address(nil), qv...))
				// a second answer is scribbled over: the caller owns what it was given
				for j, scratch := 0, w.Queue(); j < len(scratch); j++ {
					scratch[j] = gmars.Address(c.m) + 12345
				}
			}
		}
		sb.WriteString(" m=")
		first := true
		for a := uint64(0); a < c.m; a++ {
			cell := c.sim.GetMem(gmars.Address(a))
			if cell != c.prevMem[a] {
				if !first {
					sb.WriteString(";")
				}
				first = false
				fmt.Fprintf(&sb, "%d:%s", a, cellStr(cell))
				c.prevMem[a] = cell
			}
		}
		sb.WriteString(" r=")
		for i, r := range c.log.reports {
			if i > 0 {
				sb.WriteString(";")
			}
			fmt.Fprintf(&sb, "%d,%d,%d,%d", r.Type, r.Cycle, r.WarriorIndex, r.Address)
		}
		c.log.reports = c.log.reports[:0]
		sb.WriteString(" k=")
		first = true
		for a := uint64(0); a < c.m; a++ {
			st, col := c.rec.GetMemState(gmars.Address(a))
			if (recEntry{st, col}) != c.prevRec[a] {
				if !first {
					sb.WriteString(";")
				}
				first = false
				fmt.Fprintf(&sb, "%d:%d,%d", a, st, col)
				c.prevRec[a] = recEntry{st, col}
			}
		}
	})
	if res != "" {
		c.dead = true
		return "obs-" + res
	}
	return sb.String()
}

// finish prints "<req> | <resp> # <obs>" handling panics and timeouts of the op
func (c *apiCase) finish(req, failure, resp string, observed bool) {
	if failure != "" {
		fmt.Fprintf(c.out, "%s | %s\n", req, failure)
		c.dead = true
		if failure == "timeout" {
			apiTimeouts++
		}
		return
	}
	if observed {
		fmt.Fprintf(c.out, "%s | %s # %s\n", req, resp, c.observe())
	} else {
		fmt.Fprintf(c.out, "%s | %s\n", req, resp)
	}
}

func (c *apiCase) add(data *gmars.WarriorData) {
	if c.dead {
		return
	}
	var err error
	var h gmars.Warrior
	f := guarded(c.deadline, func() { h, err = c.sim.AddWarrior(data) })
	resp := "ok"
	if err != nil {
		resp = "err"
	} else {
		c.handles = append(c.handles, h)
		c.names = append(c.names, [2]string{data.Name, data.Author})
	}
	req := fmt.Sprintf("A %d %s", data.Start, cellsStr(data.Code))
	if len(data.Code) == 0 {
		req = fmt.Sprintf("A %d", data.Start)
	}
	c.finish(req, f, resp, true)
}

// addQuiet: AddWarrior without printing the observation (thousands of warriors)
func (c *apiCase) addQuiet(data *gmars.WarriorData) {
	if c.dead {
		return
	}
	var err error
	var h gmars.Warrior
	f := guarded(c.deadline, func() { h, err = c.sim.AddWarrior(data) })
	resp := "ok"
	if err != nil {
		resp = "err"
	} else {
		c.handles = append(c.handles, h)
		c.names = append(c.names, [2]string{data.Name, data.Author})
	}
	req := fmt.Sprintf("a %d %s", data.Start, cellsStr(data.Code))
	if len(data.Code) == 0 {
		req = fmt.Sprintf("a %d", data.Start)
	}
	c.finish(req, f, resp, false)
}

// resetQuiet: Reset without printing the observation (tens of thousands of resets)
func (c *apiCase) resetQuiet() {
	if c.dead {
		return
	}
	f := guarded(c.deadline, func() { c.sim.Reset() })
	c.finish("t", f, "ok", false)
}

// disturb: other simulators come and go in the same process (created, stepped once, dropped)
// while this one is alive; nothing about it may change. Not part of the protocol: the model is
// not told, because there is nothing to tell.
func (c *apiCase) disturb(rng *rand.Rand) {
	if c.dead {
		return
	}
	guarded(c.deadline, func() {
		for k := 0; k < 10; k++ {
			m := uint64(5 + rng.Intn(200))
			cfg := gmars.SimulatorConfig{Mode: gmars.SimulatorMode(rng.Intn(3)), CoreSize: gmars.Address(m), Processes: gmars.Address(1 + rng.Intn(9)),
				Cycles: 10, ReadLimit: gmars.Address(1 + rng.Intn(int(m))), WriteLimit: gmars.Address(1 + rng.Intn(int(m))), Length: 1, Distance: 1}
			s, err := gmars.NewReportingSimulator(cfg)
			if err != nil {
				continue
			}
			w := genWarrior(rng, m, 4)
			h, _ := s.AddWarrior(&w)
			s.SpawnWarrior(0, gmars.Address(rng.Intn(int(m))))
			s.RunCycle()
			_ = h.LoadCode()
		}
	})
}

func (c *apiCase) spawn(wi int, off uint64) {
	if c.dead {
		return
	}
	var err error
	f := guarded(c.deadline, func() { err = c.sim.SpawnWarrior(wi, gmars.Address(off)) })
	resp := "ok"
	if err != nil {
		resp = "err"
	}
	c.finish(fmt.Sprintf("S %d %d", wi, off), f, resp, true)
}

func (c *apiCase) runCycle(quiet bool) {
	if c.dead {
		return
	}
	ret := 0
	f := guarded(c.deadline, func() { ret = c.sim.RunCycle() })
	if quiet {
		c.finish("r", f, fmt.Sprint(ret), false)
	} else {
		c.finish("R", f, fmt.Sprint(ret), true)
	}
}

func (c *apiCase) run() {
	if c.dead {
		return
	}
	var res []bool
	f := guarded(c.deadline, func() { res = c.sim.Run() })
	// an answer given earlier stays what it was
	for i, old := range c.runResults {
		for j := range old {
			if old[j] != c.runCopies[i][j] {
				c.finish("U", "", "earlier-Run-result-changed-afterwards", false)
				c.dead = true
				return
			}
		}
	}
	if res != nil && len(c.runResults) < 8 {
		c.runResults = append(c.runResults, res)
		c.runCopies = append(c.runCopies, append([]bool(nil), res...))
	}
	resp := "nil"
	if res != nil {
		parts := make([]string, len(res))
		for i, b := range res {
			if b {
				parts[i] = "1"
			} else {
				parts[i] = "0"
			}
		}
		resp = strings.Join(parts, ",")
	}
	c.finish("U", f, resp, true)
}

func (c *apiCase) reset() {
	if c.dead {
		return
	}
	f := guarded(c.deadline, func() { c.sim.Reset() })
	c.finish("T", f, "ok", true)
}

func (c *apiCase) getMem(a uint64) {
	if c.dead {
		return
	}
	var cell gmars.Instruction
	f := guarded(c.deadline, func() { cell = c.sim.GetMem(gmars.Address(a)) })
	c.finish(fmt.Sprintf("G %d", a), f, cellStr(cell), false)
}

func (c *apiCase) getWarrior(i int) {
	if c.dead {
		return
	}
	resp := ""
	f := guarded(c.deadline, func() {
		w := c.sim.GetWarrior(i)
		if w == nil {
			resp = "nil"
			return
		}
		a := 0
		if w.Alive() {
			a = 1
		}
		qs := []string{}
		for _, q := range w.Queue() {
			qs = append(qs, fmt.Sprint(uint64(q)))
		}
		x := "err"
		pc, err := w.NextPC()
		if err == nil {
			x = fmt.Sprint(uint64(pc))
		}
		resp = fmt.Sprintf("a=%d q=%s x=%s len=%d", a, strings.Join(qs, ","), x, w.Length())
		// the handle returned by AddWarrior answers the same questions the same way
		if i >= 0 && i < len(c.handles) && c.handles[i] != nil {
			h := c.handles[i]
			if h.Alive() != w.Alive() || h.Length() != w.Length() ||
				h.Name() != w.Name() || h.Author() != w.Author() || len(h.Queue()) != len(w.Queue()) {
				resp += " handle-differs"
			}
		}
		if i >= 0 && i < len(c.names) && (w.Name() != c.names[i][0] || w.Author() != c.names[i][1]) {
			resp += " name-differs"
		}
		if c.sim.MaxCycles() != c.maxCycles {
			resp += " maxcycles-differs"
		}
	})
	c.finish(fmt.Sprintf("W %d", i), f, resp, false)
}

func (c *apiCase) dump() {
	if c.dead {
		return
	}
	var sb strings.Builder
	f := guarded(c.deadline, func() {
		fmt.Fprintf(&sb, "c=%d mem=", c.sim.CycleCount())
		for a := uint64(0); a < c.m; a++ {
			if a > 0 {
				sb.WriteString(";")
			}
			sb.WriteString(cellStr(c.sim.GetMem(gmars.Address(a))))
		}
		sb.WriteString(" w=")
		for i := 0; i < c.sim.WarriorCount(); i++ {
			if i > 0 {
				sb.WriteString("/")
			}
			w := c.sim.GetWarrior(i)
			a := 0
			if w.Alive() {
				a = 1
			}
			fmt.Fprintf(&sb, "%d:", a)
			for j, q := range w.Queue() {
				if j > 0 {
					sb.WriteString(",")
				}
				fmt.Fprintf(&sb, "%d", q)
			}
		}
	})
	c.finish("D", f, sb.String(), false)
}
