package main

// Abstract Redcode programs, their surface renderings and wire encoding
// (domains asm94, asm88, expr, for, soup) for C03, C05, C06, C07, C08.

import (
	"bufio"
	"bytes"
	"encoding/hex"
	"fmt"
	"go/constant"
	"go/token"
	"go/types"
	"math/rand"
	"os"
	"path/filepath"
	"runtime"
	"strconv"
	"strings"
	"time"

	"github.com/bobertlo/gmars"
)

type etok struct {
	k byte // n(um) t(name) o(p) L R
	s string
}

type operand struct {
	mode string // "" = omitted
	expr []etok
}

type item struct {
	kind   byte // I Q O E A M F
	labels []string
	op, md string
	a      operand
	b      *operand
	name   string // EQU name, FOR counter, meta kind
	expr   []etok
	noExpr bool
	text   string
	body   []item
}

func etoksWire(ts []etok) string {
	if len(ts) == 0 {
		return "-"
	}
	parts := make([]string, len(ts))
	for i, t := range ts {
		switch t.k {
		case 'o':
			parts[i] = "o" + hex.EncodeToString([]byte(t.s))
		case 'L', 'R':
			parts[i] = string(t.k)
		default:
			parts[i] = string(t.k) + t.s
		}
	}
	return strings.Join(parts, ",")
}

func labelsWire(ls []string) string {
	if len(ls) == 0 {
		return "-"
	}
	return strings.Join(ls, ",")
}

func dash(s string) string {
	if s == "" {
		return "-"
	}
	return s
}

func itemsWire(items []item) string {
	var parts []string
	for _, it := range items {
		switch it.kind {
		case 'I':
			bm, be := "-", "~"
			if it.b != nil {
				bm, be = dash(hex.EncodeToString([]byte(it.b.mode))), etoksWire(it.b.expr)
			}
			parts = append(parts, fmt.Sprintf("I|%s|%s|%s|%s|%s|%s|%s", labelsWire(it.labels), it.op, dash(it.md),
				dash(hex.EncodeToString([]byte(it.a.mode))), etoksWire(it.a.expr), bm, be))
		case 'Q':
			parts = append(parts, fmt.Sprintf("Q|%s|%s", it.name, etoksWire(it.expr)))
		case 'O':
			parts = append(parts, "O|"+etoksWire(it.expr))
		case 'E':
			if it.noExpr {
				parts = append(parts, "E|~")
			} else {
				parts = append(parts, "E|"+etoksWire(it.expr))
			}
			if len(it.labels) > 0 {
				parts = append(parts, "T|"+labelsWire(it.labels)) // always the last entry
			}
		case 'A':
			parts = append(parts, "A|"+etoksWire(it.expr))
		case 'M':
			parts = append(parts, fmt.Sprintf("M|%s|%s", it.name, dash(hex.EncodeToString([]byte(it.text)))))
		case 'F':
			parts = append(parts, fmt.Sprintf("F|%s|%s|%s", labelsWire(it.labels), it.name, etoksWire(it.expr)))
			parts = append(parts, itemsWire(it.body))
			parts = append(parts, "R")
		}
	}
	return strings.Join(parts, ";")
}

// ---------- rendering ----------

type renderer struct {
	rng       *rand.Rand
	plain     bool // canonical spacing, lower case, no decoration
	nl        string
	noFinalNL bool
}

func (r *renderer) sp(min int) string {
	if r.plain {
		return strings.Repeat(" ", min)
	}
	return blanks(r.rng, min)
}

func (r *renderer) cs(s string) string {
	if r.plain {
		return s
	}
	return randCase(r.rng, s)
}

func (r *renderer) expr(ts []etok) string {
	var sb strings.Builder
	for i, t := range ts {
		if i > 0 {
			sb.WriteString(r.sp(0))
		}
		switch t.k {
		case 'L':
			sb.WriteString("(")
		case 'R':
			sb.WriteString(")")
		case 'n':
			if !r.plain && r.rng.Intn(12) == 0 {
				sb.WriteString(strings.Repeat("0", 1+r.rng.Intn(3))) // leading zeros are not octal in Redcode
			}
			sb.WriteString(t.s)
		default:
			sb.WriteString(t.s)
		}
	}
	return sb.String()
}

// colon: a label may be followed by a colon wherever it stands (instruction, EQU, FOR, END line)
func (r *renderer) colon() string {
	if !r.plain && r.rng.Intn(4) == 0 {
		return ":"
	}
	return ""
}

func (r *renderer) operand(o operand) string {
	return o.mode + r.sp(0) + r.expr(o.expr)
}

func (r *renderer) labelPrefix(labels []string, lines *[]string) string {
	pre := ""
	for _, l := range labels {
		s := l
		if !r.plain && r.rng.Intn(3) == 0 {
			s += ":"
		}
		if !r.plain && r.rng.Intn(4) == 0 {
			*lines = append(*lines, pre+s) // label on its own line, the list continues
			pre = ""
			r.noise(lines, true)
		} else {
			pre += s + r.sp(1)
		}
	}
	return pre
}

func (r *renderer) noise(lines *[]string, light bool) {
	if r.plain {
		return
	}
	for r.rng.Intn(5) == 0 {
		switch r.rng.Intn(4) {
		case 0:
			*lines = append(*lines, "")
		case 1:
			*lines = append(*lines, r.sp(1))
		case 2:
			*lines = append(*lines, r.sp(0)+"; a comment: mov 0, 1 ; x")
		case 3:
			if !light {
				*lines = append(*lines, ";redcode-94")
			}
		}
	}
}

func (r *renderer) trailing() string {
	if !r.plain && r.rng.Intn(6) == 0 {
		if r.rng.Intn(3) == 0 {
			// a remark at the end of a line is never metadata, whatever it starts with
			return r.sp(1) + []string{";name of the pointer", ";author unknown", ";strategy: none", ";redcode", ";Name x", "; name y"}[r.rng.Intn(6)]
		}
		return r.sp(1) + "; " + []string{"note", "x equ 1", "jmp 0, <1"}[r.rng.Intn(3)]
	}
	return r.sp(0)
}

func (r *renderer) items(items []item, lines *[]string) {
	for _, it := range items {
		r.noise(lines, false)
		switch it.kind {
		case 'I':
			pre := r.sp(0) + r.labelPrefix(it.labels, lines)
			op := it.op
			if it.md != "" {
				op += "." + it.md
			}
			l := pre + r.cs(op) + r.sp(1) + r.operand(it.a)
			if it.b != nil {
				l += r.sp(0) + "," + r.sp(0) + r.operand(*it.b)
			}
			*lines = append(*lines, l+r.trailing())
		case 'Q':
			if !r.plain && r.rng.Intn(8) == 0 {
				// the name on a line of its own (with or without a remark), `equ` on the next one
				l := r.sp(0) + it.name + r.colon()
				if r.rng.Intn(2) == 0 {
					l += r.sp(1) + "; remark"
				}
				*lines = append(*lines, l, r.sp(0)+r.cs("equ")+r.sp(1)+r.expr(it.expr)+r.trailing())
			} else {
				*lines = append(*lines, r.sp(0)+it.name+r.colon()+r.sp(1)+r.cs("equ")+r.sp(1)+r.expr(it.expr)+r.trailing())
			}
		case 'O':
			*lines = append(*lines, r.sp(0)+r.cs("org")+r.sp(1)+r.expr(it.expr)+r.trailing())
		case 'E':
			pre := r.sp(0)
			for _, l := range it.labels {
				pre += l + r.colon() + r.sp(1)
			}
			if it.noExpr {
				*lines = append(*lines, pre+r.cs("end")+r.sp(0))
			} else {
				*lines = append(*lines, pre+r.cs("end")+r.sp(1)+r.expr(it.expr)+r.trailing())
			}
			if !r.plain && r.rng.Intn(3) == 0 {
				// whatever follows END is not part of the program: signatures, mail footers,
				// characters the lexer has no token for
				trailers := []string{"--------", "submitted by: me (score = 120, R&D hill)", "a | b & c = d", "mov 0, 1", "x equ x",
					"i for 3", "rof", "100% pure ~ \"quoted\" 'text' !", "end", ";assert 0", "\x01\x02 caf\xc3\xa9 \xff"}
				for k := 1 + r.rng.Intn(3); k > 0; k-- {
					*lines = append(*lines, trailers[r.rng.Intn(len(trailers))])
				}
			}
		case 'A':
			sep := " "
			if !r.plain && len(it.expr) > 0 && (it.expr[0].k == 'L' || (it.expr[0].k == 'o' && (it.expr[0].s == "-" || it.expr[0].s == "+"))) && r.rng.Intn(2) == 0 {
				sep = "" // ;assert(x) and ;assert-1+1: the keyword needs no blank before '(' or a sign
			} else if !r.plain && r.rng.Intn(4) == 0 {
				sep = blanks(r.rng, 1)
			}
			*lines = append(*lines, ";assert"+sep+r.expr(it.expr))
		case 'M':
			*lines = append(*lines, ";"+it.name+" "+it.text)
		case 'F':
			pre := r.sp(0)
			for _, l := range it.labels {
				pre += l + r.colon() + r.sp(1)
			}
			if !r.plain && r.rng.Intn(6) == 0 {
				// the counter on a line of its own, `for` on the next one
				*lines = append(*lines, pre+it.name)
				if r.rng.Intn(3) == 0 {
					*lines = append(*lines, "")
				}
				pre = r.sp(0)
				*lines = append(*lines, pre+r.cs("for")+r.sp(1)+r.expr(it.expr)+r.trailing())
			} else {
				*lines = append(*lines, pre+it.name+r.sp(1)+r.cs("for")+r.sp(1)+r.expr(it.expr)+r.trailing())
			}
			r.items(it.body, lines)
			*lines = append(*lines, r.sp(0)+r.cs("rof")+r.trailing())
		}
	}
}

func render(rng *rand.Rand, items []item, plain bool) []byte {
	r := &renderer{rng: rng, plain: plain, nl: "\n"}
	hasStrategy := false
	for _, it := range items {
		if it.kind == 'M' && it.name == "strategy" {
			hasStrategy = true // the strategy text is captured raw, CR included
		}
	}
	if !plain && !hasStrategy && rng.Intn(4) == 0 {
		r.nl = "\r\n"
	}
	var lines []string
	r.items(items, &lines)
	r.noise(&lines, false)
	text := strings.Join(lines, r.nl)
	if plain || rng.Intn(4) != 0 {
		text += r.nl
	}
	return []byte(text)
}

// ---------- generation ----------

var reserved = map[string]bool{"dat": true, "mov": true, "add": true, "sub": true, "mul": true, "div": true, "mod": true,
	"jmp": true, "jmz": true, "jmn": true, "djn": true, "cmp": true, "seq": true, "sne": true, "slt": true, "spl": true,
	"nop": true, "equ": true, "org": true, "end": true, "for": true, "rof": true,
	"coresize": true, "maxlength": true, "maxprocesses": true, "mindistance": true}

// names with letters outside ASCII: the lexer takes every Unicode letter; some of them fold to
// ASCII letters under simple case folding (U+017F ſ ~ s, U+212A K ~ k) and so come close to a
// mnemonic or a pseudo-op without being one
var exoticNames = []string{"ſne", "ſub", "ſpl", "ſeq", "ſlt", "ſ", "ſtart", "naïve", "λx", "éa", "ßeta", "Ωmega", "eKu",
	"orɡ", "ıf", "dаt", "K", "møv", "ſpl2", "x٠"}

func ident(rng *rand.Rand, used map[string]bool) string {
	if rng.Intn(15) == 0 {
		s := exoticNames[rng.Intn(len(exoticNames))]
		if !used[s] {
			used[s] = true
			return s
		}
	}
	for {
		n := 1 + rng.Intn(6)
		b := make([]byte, n)
		for i := range b {
			switch {
			case i > 0 && rng.Intn(5) == 0:
				b[i] = byte('0' + rng.Intn(10))
			case i > 0 && rng.Intn(8) == 0:
				b[i] = '_'
			case rng.Intn(5) == 0:
				b[i] = byte('A' + rng.Intn(26))
			default:
				b[i] = byte('a' + rng.Intn(26))
			}
		}
		s := string(b)
		if !reserved[strings.ToLower(s)] && !used[s] {
			used[s] = true
			return s
		}
	}
}

type exprEnv struct {
	rng    *rand.Rand
	names  []string // labels, EQU names, constants usable as leaves
	big    bool     // allow large literals
	cmpOps bool
}

func (e *exprEnv) leaf() []etok {
	if len(e.names) > 0 && e.rng.Intn(3) == 0 {
		return []etok{{'t', e.names[e.rng.Intn(len(e.names))]}}
	}
	lits := []string{"0", "1", "2", "3", "4", "5", "7", "10", "16", "100"}
	if e.big {
		lits = append(lits, "8000", "65535", "46340", "2147483647", "1000000", "2147483648", "2147483646", "4294967296")
	}
	return []etok{{'n', lits[e.rng.Intn(len(lits))]}}
}

func (e *exprEnv) prim(d int) []etok {
	var out []etok
	for e.rng.Intn(4) == 0 {
		out = append(out, etok{'o', []string{"-", "-", "+"}[e.rng.Intn(3)]})
	}
	if d > 0 && e.rng.Intn(3) == 0 {
		out = append(out, etok{'L', "("})
		out = append(out, e.expr(d-1)...)
		out = append(out, etok{'R', ")"})
		return out
	}
	return append(out, e.leaf()...)
}

func (e *exprEnv) expr(d int) []etok {
	if e.cmpOps {
		// an assert condition: arithmetic sides, comparisons only at the top level (nested
		// comparisons under signs or other comparisons are outside every property's quantifier:
		// Go types them as booleans, the reference as 0/1)
		ar := *e
		ar.cmpOps = false
		out := ar.expr(d)
		if e.rng.Intn(3) != 0 {
			op := []string{"==", "<", ">", "<=", ">=", "!="}[e.rng.Intn(6)]
			rhs := ar.expr(d)
			if op == "<" && rhs[0].k != 'n' && rhs[0].k != 'L' {
				// `<-` is one token for the Go evaluator: a right-hand side that starts with a sign,
				// or with a name whose EQU text starts with one, is parenthesised (comparisons are
				// outside C07's quantifier; this keeps the generator inside what both sides agree on)
				rhs = append(append([]etok{{'L', "("}}, rhs...), etok{'R', ")"})
			}
			out = append(append(out, etok{'o', op}), rhs...)
		}
		return out
	}
	out := e.prim(d)
	for e.rng.Intn(5) < 2 {
		ops := []string{"+", "-", "*", "/", "%", "+", "-"}
		op := ops[e.rng.Intn(len(ops))]
		out = append(out, etok{'o', op})
		out = append(out, e.prim(d)...)
	}
	return out
}

var ops94 = []string{"dat", "mov", "add", "sub", "mul", "div", "mod", "jmp", "jmz", "jmn", "djn", "cmp", "seq", "sne", "slt", "spl", "nop"}
var ops88s = []string{"dat", "mov", "add", "sub", "jmp", "jmz", "jmn", "djn", "cmp", "slt", "spl"}
var mods = []string{"a", "b", "ab", "ba", "f", "x", "i"}
var modes94 = []string{"#", "$", "*", "@", "{", "<", "}", ">"}
var modes88s = []string{"#", "$", "@", "<"}

type progOpts struct {
	legacy   bool
	bigExpr  bool
	withFor  bool
	maxInstr int
}

func asmConfig(rng *rand.Rand, legacy bool, bigM bool) gmars.SimulatorConfig {
	var c gmars.SimulatorConfig
	switch rng.Intn(7) {
	case 0:
		c = gmars.ConfigNopNano
	case 1:
		c = gmars.ConfigICWS88
	case 2:
		c = gmars.ConfigNop256
	case 3:
		m := uint64(10 + rng.Intn(200))
		c = gmars.NewQuickConfig(gmars.ICWS94, gmars.Address(m), gmars.Address(1+rng.Intn(50)), 100, gmars.Address(1+rng.Intn(int(m/3))))
		c.Distance = gmars.Address(rng.Intn(int(m / 3)))
	case 4:
		// tiny cores: Length anywhere in 0..M (also above M/2 and equal to M), Distance anywhere in
		// 0..M-Length (also 0 and different from Length)
		m := uint64(3 + rng.Intn(14))
		l := uint64(rng.Intn(int(m) + 1))
		if rng.Intn(4) == 0 {
			l = m
		}
		d := uint64(rng.Intn(int(m-l) + 1))
		c = gmars.SimulatorConfig{Mode: gmars.ICWS94, CoreSize: gmars.Address(m), Processes: gmars.Address(1 + rng.Intn(20)), Cycles: 100,
			ReadLimit: gmars.Address(m), WriteLimit: gmars.Address(m), Length: gmars.Address(l), Distance: gmars.Address(d)}
	default:
		c = gmars.ConfigNOP94
		if rng.Intn(6) == 0 {
			// the presets all have Distance == Length; NewQuickConfig(…, 0) has both 0
			c.Distance = gmars.Address([]uint64{0, 1, 300, 7900, 50}[rng.Intn(5)])
			if rng.Intn(3) == 0 {
				c.Length = gmars.Address([]uint64{0, 1, 4000, 4001, 100}[rng.Intn(5)])
				if uint64(c.Length)+uint64(c.Distance) > uint64(c.CoreSize) {
					c.Distance = 0
				}
			}
		}
	}
	if rng.Intn(40) == 0 {
		c.Processes = gmars.Address([]uint64{1 << 31, 1<<31 + 5, 1 << 40, 1<<31 - 1}[rng.Intn(4)]) // the assembler never allocates a queue
	}
	if bigM {
		c.CoreSize = 1<<33 + 9
		c.ReadLimit, c.WriteLimit = c.CoreSize, c.CoreSize
	}
	if legacy {
		c.Mode = gmars.ICWS88
	} else if c.Mode == gmars.ICWS88 {
		c.Mode = gmars.ICWS94
	}
	return c
}

func genOperand(rng *rand.Rand, env *exprEnv, modes []string, depth int) operand {
	o := operand{expr: env.expr(depth)}
	if rng.Intn(3) != 0 {
		o.mode = modes[rng.Intn(len(modes))]
	}
	return o
}

func genInstr(rng *rand.Rand, env *exprEnv, o progOpts) item {
	it := item{kind: 'I'}
	ops, modes := ops94, modes94
	if o.legacy {
		ops, modes = ops88s, modes88s
		if rng.Intn(25) == 0 {
			ops, modes = ops94, modes94 // sometimes illegal under '88
		}
	}
	it.op = ops[rng.Intn(len(ops))]
	if !o.legacy && rng.Intn(2) == 0 {
		it.md = mods[rng.Intn(len(mods))]
	}
	depth := 1
	if o.bigExpr {
		depth = 3
	}
	it.a = genOperand(rng, env, modes, depth)
	if rng.Intn(30) == 0 {
		// 32-bit boundary values, in several spellings
		it.a.expr = [][]etok{
			{{'o', "-"}, {'n', "2147483648"}},
			{{'o', "-"}, {'n', "2147483647"}, {'o', "-"}, {'n', "1"}},
			{{'n', "0"}, {'o', "-"}, {'n', "2147483648"}},
			{{'n', "2147483647"}},
			{{'o', "-"}, {'n', "2147483647"}},
			{{'n', "2147483647"}, {'o', "+"}, {'n', "1"}},
		}[rng.Intn(6)]
	}
	if rng.Intn(7) != 0 {
		b := genOperand(rng, env, modes, depth)
		it.b = &b
	}
	if o.legacy && rng.Intn(4) != 0 {
		// steer towards legal '88 combinations
		switch it.op {
		case "dat":
			it.a.mode = []string{"#", "<", ""}[rng.Intn(3)]
			if it.b != nil {
				it.b.mode = []string{"#", "<", ""}[rng.Intn(3)]
			}
		case "jmp", "jmz", "jmn", "djn", "spl":
			if it.a.mode == "#" {
				it.a.mode = "$"
			}
		default:
			if it.b != nil && it.b.mode == "#" && it.op != "slt" {
				it.b.mode = "@"
			}
		}
	}
	return it
}

// genProgram builds an abstract program (no FOR blocks)
func genProgram(rng *rand.Rand, cfg gmars.SimulatorConfig, o progOpts) []item {
	used := map[string]bool{}
	maxN := o.maxInstr
	if int(cfg.Length) < maxN {
		maxN = int(cfg.Length)
	}
	if rng.Intn(15) == 0 {
		maxN = int(cfg.Length) + 2 // sometimes over the length limit
	}
	if maxN < 1 {
		maxN = 1
	}
	n := 1 + rng.Intn(maxN)
	if rng.Intn(40) == 0 {
		n = 0
	}
	if (rng.Intn(8) == 0 || (cfg.CoreSize <= 16 && rng.Intn(3) == 0)) && cfg.Length <= 40 {
		n = int(cfg.Length) // exactly the maximum length (0 included)
	}
	// labels on the END line (they denote the address just after the code)
	var tailLabels []string
	if rng.Intn(4) == 0 {
		tailLabels = append(tailLabels, ident(rng, used))
		if rng.Intn(4) == 0 {
			tailLabels = append(tailLabels, ident(rng, used))
		}
	}
	// labels
	labels := make([][]string, n)
	var allLabels []string
	for i := 0; i < n; i++ {
		for rng.Intn(3) == 0 {
			l := ident(rng, used)
			labels[i] = append(labels[i], l)
			allLabels = append(allLabels, l)
		}
	}
	allLabels = append(allLabels, tailLabels...)
	// EQUs: each may use labels, constants and earlier EQUs (acyclic)
	consts := []string{"CORESIZE", "MAXLENGTH", "MAXPROCESSES", "MINDISTANCE"}
	var equs []item
	names := append(append([]string{}, allLabels...), consts...)
	for rng.Intn(5) < 2 && len(equs) < 60 && rng.Intn(8) != 0 {
		env := &exprEnv{rng: rng, names: names, big: o.bigExpr}
		nm := ident(rng, used)
		equs = append(equs, item{kind: 'Q', name: nm, expr: env.expr(1)})
		names = append(names, nm)
	}
	if rng.Intn(6) == 0 {
		// a deep chain of EQUs, each defined through the next (placed in any order later)
		depth := 9 + rng.Intn(37)
		prev := ""
		for d := 0; d < depth; d++ {
			nm := ident(rng, used)
			var e []etok
			if prev == "" {
				e = []etok{{'n', fmt.Sprint(1 + rng.Intn(5))}}
			} else {
				e = []etok{{'t', prev}, {'o', "+"}, {'n', "1"}}
				if rng.Intn(4) == 0 {
					e = []etok{{'t', prev}}
				}
			}
			equs = append(equs, item{kind: 'Q', name: nm, expr: e})
			prev = nm
		}
		names = append(names, prev, prev)
	}
	if rng.Intn(25) == 0 {
		// an EQU whose text begins with an addressing-mode symbol: not an expression
		nm := ident(rng, used)
		equs = append(equs, item{kind: 'Q', name: nm, expr: []etok{{'o', []string{"*", "<", "#", "@", "{"}[rng.Intn(5)]}, {'n', "2"}}})
		names = append(names, nm)
	}
	if rng.Intn(60) == 0 && len(equs) > 0 { // an EQU cycle: must be rejected
		equs[0].expr = append(equs[0].expr, etok{'o', "+"}, etok{'t', equs[len(equs)-1].name})
	}
	env := &exprEnv{rng: rng, names: names, big: o.bigExpr}
	if rng.Intn(30) == 0 {
		env.names = append(env.names, "undefined_sym")
	}
	var instrs []item
	for i := 0; i < n; i++ {
		it := genInstr(rng, env, o)
		it.labels = labels[i]
		instrs = append(instrs, it)
	}
	if len(tailLabels) > 0 && n > 0 && rng.Intn(2) == 0 {
		// the label of the END line as a bare operand: of the first instruction (the farthest
		// reference a program can make), of the last one, or of any
		k := []int{0, 0, n - 1, rng.Intn(n)}[rng.Intn(4)]
		bare := []etok{{'t', tailLabels[rng.Intn(len(tailLabels))]}}
		if rng.Intn(2) == 0 || instrs[k].b == nil {
			instrs[k].a.expr = bare
		} else {
			instrs[k].b.expr = bare
		}
	}
	// statements in order, EQU lines dropped at random positions
	var items []item
	if rng.Intn(3) == 0 {
		items = append(items, item{kind: 'M', name: "name", text: []string{"Imp 2", " padded  ", "x"}[rng.Intn(3)]})
	}
	if rng.Intn(4) == 0 {
		items = append(items, item{kind: 'M', name: "author", text: "A. N. Other"})
	}
	if rng.Intn(4) == 0 {
		items = append(items, item{kind: 'M', name: "strategy", text: "bomb everything, then run"})
		if rng.Intn(2) == 0 {
			items = append(items, item{kind: 'M', name: "strategy", text: "second line"})
		}
	}
	if rng.Intn(3) == 0 && n > 0 {
		e := &exprEnv{rng: rng, names: allLabels}
		var ex []etok
		if len(allLabels) > 0 && rng.Intn(2) == 0 {
			ex = []etok{{'t', allLabels[rng.Intn(len(allLabels))]}}
		} else {
			ex = []etok{{'n', fmt.Sprint(rng.Intn(n + 1))}} // sometimes one past the end
		}
		_ = e
		items = append(items, item{kind: 'O', expr: ex})
	}
	items = append(items, instrs...)
	for _, q := range equs {
		pos := rng.Intn(len(items) + 1)
		items = append(items[:pos], append([]item{q}, items[pos:]...)...)
	}
	if rng.Intn(4) == 0 {
		e := &exprEnv{rng: rng, names: append(consts, names...), cmpOps: true, big: o.bigExpr}
		pos := rng.Intn(len(items) + 1)
		items = append(items[:pos], append([]item{{kind: 'A', expr: e.expr(1)}}, items[pos:]...)...)
	}
	if rng.Intn(2) == 0 || len(tailLabels) > 0 {
		end := item{kind: 'E', noExpr: true, labels: tailLabels}
		if rng.Intn(2) == 0 && n > 0 {
			end.noExpr = false
			if len(allLabels) > 0 && rng.Intn(2) == 0 {
				end.expr = []etok{{'t', allLabels[rng.Intn(len(allLabels))]}}
			} else {
				end.expr = []etok{{'n', fmt.Sprint(rng.Intn(n))}}
			}
		}
		items = append(items, end)
	}
	return items
}

// ---------- FOR programs ----------

func substTok(ts []etok, name string, v int) []etok {
	out := make([]etok, len(ts))
	for i, t := range ts {
		if t.k == 't' && t.s == name {
			out[i] = etok{'n', fmt.Sprint(v)}
		} else {
			out[i] = t
		}
	}
	return out
}

func substItems(items []item, name string, v int) []item {
	out := make([]item, len(items))
	for i, it := range items {
		c := it
		c.expr = substTok(it.expr, name, v)
		c.a.expr = substTok(it.a.expr, name, v)
		if it.b != nil {
			b := *it.b
			b.expr = substTok(b.expr, name, v)
			c.b = &b
		}
		c.body = substItems(it.body, name, v)
		out[i] = c
	}
	return out
}

// unrollItems: manual unrolling; counts are literals or names of literal EQUs (vals)
func unrollItems(items []item, vals map[string]int) []item {
	var out []item
	for _, it := range items {
		if it.kind != 'F' {
			out = append(out, it)
			continue
		}
		cnt := 0
		mentionsSigned := false
		for _, t := range it.expr {
			if _, ok := signedDefs[t.s]; ok && t.k == 't' {
				mentionsSigned = true
			}
		}
		if mentionsSigned {
			cnt = evalText(it.expr) // an EQU whose text is a signed sum: textual substitution
		} else if len(it.expr) == 1 && it.expr[0].k == 'n' {
			fmt.Sscan(it.expr[0].s, &cnt)
		} else if len(it.expr) == 1 && it.expr[0].k == 't' {
			cnt = vals[it.expr[0].s]
		} else if len(it.expr) == 3 && (it.expr[0].k == 't' && forDefs[it.expr[0].s] != nil || it.expr[2].k == 't' && forDefs[it.expr[2].s] != nil) {
			cnt = evalText(it.expr) // EQU names: textual substitution
		} else if len(it.expr) == 3 { // name + number / number + number
			a, b := 0, 0
			get := func(t etok) int {
				if t.k == 'n' {
					v := 0
					fmt.Sscan(t.s, &v)
					return v
				}
				return vals[t.s]
			}
			a, b = get(it.expr[0]), get(it.expr[2])
			switch it.expr[1].s {
			case "+":
				cnt = a + b
			case "-":
				cnt = a - b
			case "*":
				cnt = a * b
			}
		}
		var emitted []item
		for i := 1; i <= cnt; i++ {
			emitted = append(emitted, unrollItems(substItems(it.body, it.name, i), vals)...)
		}
		// block labels go to the first instruction the block emits
		for j := range emitted {
			if emitted[j].kind == 'I' {
				emitted[j].labels = append(append([]string{}, it.labels...), emitted[j].labels...)
				break
			}
		}
		out = append(out, emitted...)
	}
	return out
}

// forDefs holds the token lists of the count EQUs of the FOR program being generated: EQU
// substitution is textual (`r equ w+1`, `r*w` = w+1*w), so counts are computed on the expanded text
var forDefs = map[string][]etok{}

func expandText(ts []etok, depth int) []etok {
	var out []etok
	for _, t := range ts {
		if d, ok := forDefs[t.s]; ok && t.k == 't' && depth < 40 {
			out = append(out, expandText(d, depth+1)...)
		} else {
			out = append(out, t)
		}
	}
	return out
}

// evalText evaluates numbers combined with + - * after textual substitution of the EQU names (no
// parentheses; runs of unary signs in front of a number count by parity, also behind `*`)
func evalText(ts []etok) int {
	ts = expandText(ts, 0)
	i := 0
	factor := func() int {
		sign := 1
		for i < len(ts) && ts[i].k == 'o' && (ts[i].s == "+" || ts[i].s == "-") {
			if ts[i].s == "-" {
				sign = -sign
			}
			i++
		}
		v := 0
		if i < len(ts) && ts[i].k == 'n' {
			v, _ = strconv.Atoi(ts[i].s)
			i++
		}
		return sign * v
	}
	term := func() int {
		v := factor()
		for i < len(ts) && ts[i].k == 'o' && ts[i].s == "*" {
			i++
			v *= factor()
		}
		return v
	}
	sum := term()
	for i < len(ts) {
		switch {
		case ts[i].k == 'o' && ts[i].s == "+":
			i++
			sum += term()
		case ts[i].k == 'o' && ts[i].s == "-":
			i++
			sum -= term()
		default:
			i++
		}
	}
	return sum
}

// EQUs with a signed multi-term value available to FOR counts (set by genForProgram)
var signedNames []string
var signedDefs map[string][2]int

func genForBlock(rng *rand.Rand, used map[string]bool, outer []string, countNames []string, vals map[string]int, depth int, budget *int, legacy bool) item {
	f := item{kind: 'F', name: ident(rng, used)}
	// count
	c := rng.Intn(7)
	if c**budget > 40 || *budget <= 0 {
		c = rng.Intn(2)
	}
	switch {
	case len(signedNames) > 0 && rng.Intn(2) == 0:
		// a count that mentions an EQU whose text starts with a sign and has a second term
		// (`s equ -a+b`): substitution is textual, so `k-s` is k+a+b, `k*s` is b-k*a, `s*k` is
		// b*k-a (the sign run and the precedence are those of the substituted text)
		nm := signedNames[rng.Intn(len(signedNames))]
		a, b := signedDefs[nm][0], signedDefs[nm][1]
		k := rng.Intn(4)
		ks := fmt.Sprint(k)
		type alt struct {
			e []etok
			v int
		}
		alts := []alt{
			{[]etok{{'n', ks}, {'o', "-"}, {'t', nm}}, k + a + b},
			{[]etok{{'n', ks}, {'o', "*"}, {'t', nm}}, b - k*a},
			{[]etok{{'t', nm}, {'o', "*"}, {'n', ks}}, b*k - a},
			{[]etok{{'n', ks}, {'o', "+"}, {'t', nm}}, k - a + b},
			{[]etok{{'t', nm}}, b - a},
			{[]etok{{'n', ks}, {'o', "-"}, {'t', nm}, {'o', "*"}, {'n', "2"}}, k + a + 2*b},
		}
		rng.Shuffle(len(alts), func(i, j int) { alts[i], alts[j] = alts[j], alts[i] })
		f.expr = []etok{{'n', fmt.Sprint(c)}}
		for _, al := range alts {
			if al.v >= 0 && al.v <= 6 && (al.v**budget <= 40 || al.v <= 1) {
				f.expr, c = al.e, al.v
				break
			}
		}
	case len(countNames) > 0 && rng.Intn(5) == 0:
		// the same EQU reached twice from one count (n*n, n+n), or two EQUs of which one is
		// defined through the other (a diamond in the reference graph)
		n1 := countNames[rng.Intn(len(countNames))]
		n2 := countNames[rng.Intn(len(countNames))]
		if rng.Intn(2) == 0 {
			n2 = n1
		}
		op := []string{"*", "+"}[rng.Intn(2)]
		f.expr = []etok{{'t', n1}, {'o', op}, {'t', n2}}
		if v := evalText(f.expr); v > 6 || v < 0 {
			f.expr = []etok{{'t', n1}, {'o', "-"}, {'t', n2}}
			if evalText(f.expr) < 0 {
				f.expr = []etok{{'t', n2}, {'o', "-"}, {'t', n1}}
			}
		}
		c = evalText(f.expr)
		if c < 0 || c > 6 {
			f.expr = []etok{{'t', n1}}
			c = vals[n1]
		}
	case len(countNames) > 0 && rng.Intn(3) == 0:
		nm := countNames[rng.Intn(len(countNames))]
		f.expr = []etok{{'t', nm}}
		c = vals[nm]
	case len(countNames) > 0 && rng.Intn(4) == 0:
		nm := countNames[rng.Intn(len(countNames))]
		f.expr = []etok{{'t', nm}, {'o', "+"}, {'n', "1"}}
		c = vals[nm] + 1
	default:
		f.expr = []etok{{'n', fmt.Sprint(c)}}
	}
	labelled := rng.Intn(4) == 0 && c >= 1 && depth == 1 // a block label needs a first emitted instruction; nested copies would define it twice
	if labelled {
		f.labels = append(f.labels, ident(rng, used))
	}
	counters := append(append([]string{}, outer...), f.name)
	env := &exprEnv{rng: rng, names: append(append([]string{}, counters...), f.labels...)}
	if tw, ok := vals["\x00twin"]; ok && tw >= 0 {
		// a symbol that differs from a counter only in letter case must NOT be substituted
		env.names = append(env.names, caseTwin(f.name))
	}
	nb := 1 + rng.Intn(3)
	o := progOpts{legacy: legacy}
	for i := 0; i < nb; i++ {
		if depth < 3 && rng.Intn(4) == 0 && *budget > 0 && !(labelled && i == 0) {
			saved := *budget
			*budget = saved / max(c, 1)
			f.body = append(f.body, genForBlock(rng, used, counters, countNames, vals, depth+1, budget, legacy))
			*budget = saved - 1
		} else {
			f.body = append(f.body, genInstr(rng, env, o))
		}
		if rng.Intn(10) == 0 {
			// an assertion between FOR and ROF (no counter in it: comments are copied verbatim); it is
			// evaluated like any other, once per copy — a false one rejects the program
			v := "1"
			if rng.Intn(4) == 0 && c >= 1 {
				v = "0"
			}
			f.body = append(f.body, item{kind: 'A', expr: []etok{{'n', v}}})
		}
	}
	*budget -= 1
	return f
}

func caseTwin(s string) string {
	b := []byte(s)
	for i := range b {
		switch {
		case b[i] >= 'a' && b[i] <= 'z':
			b[i] -= 32
		case b[i] >= 'A' && b[i] <= 'Z':
			b[i] += 32
		}
	}
	return string(b)
}

func genForProgram(rng *rand.Rand, legacy bool) ([]item, []item) {
	used := map[string]bool{}
	vals := map[string]int{}
	forDefs = map[string][]etok{}
	var items []item
	twins := rng.Intn(4) == 0
	if twins {
		vals["\x00twin"] = 1
	}
	defer delete(vals, "\x00twin")
	var countNames []string
	for rng.Intn(2) == 0 && len(countNames) < 2 {
		nm := ident(rng, used)
		v := rng.Intn(5)
		vals[nm] = v
		forDefs[nm] = []etok{{'n', fmt.Sprint(v)}}
		countNames = append(countNames, nm)
		items = append(items, item{kind: 'Q', name: nm, expr: []etok{{'n', fmt.Sprint(v)}}})
	}
	if len(countNames) > 0 && rng.Intn(3) == 0 {
		// an EQU defined through another count EQU (with the first one: a diamond when both are used)
		base := countNames[rng.Intn(len(countNames))]
		nm := ident(rng, used)
		vals[nm] = vals[base] + 1
		forDefs[nm] = []etok{{'t', base}, {'o', "+"}, {'n', "1"}}
		items = append(items, item{kind: 'Q', name: nm, expr: []etok{{'t', base}, {'o', "+"}, {'n', "1"}}})
		countNames = append(countNames, nm)
	}
	if rng.Intn(5) == 0 {
		// a count reached through a chain of EQUs
		depth := 3 + rng.Intn(14)
		prev, v := "", rng.Intn(4)
		for d := 0; d < depth; d++ {
			nm := ident(rng, used)
			if prev == "" {
				items = append(items, item{kind: 'Q', name: nm, expr: []etok{{'n', fmt.Sprint(v)}}})
			} else {
				items = append(items, item{kind: 'Q', name: nm, expr: []etok{{'t', prev}}})
			}
			prev = nm
		}
		vals[prev] = v
		forDefs[prev] = []etok{{'n', fmt.Sprint(v)}}
		countNames = append(countNames, prev)
	}
	signedNames, signedDefs = nil, map[string][2]int{}
	if rng.Intn(4) == 0 {
		// EQUs whose value is a signed sum (`-a+b`, `+a+b`): used by FOR counts behind `-`, `*`
		for k := 1 + rng.Intn(2); k > 0; k-- {
			nm := ident(rng, used)
			a, b := rng.Intn(3), rng.Intn(4)
			sign := "-"
			if rng.Intn(4) == 0 {
				sign, a = "+", -a
			}
			e := []etok{{'o', sign}, {'n', fmt.Sprint(abs(a))}, {'o', "+"}, {'n', fmt.Sprint(b)}}
			forDefs[nm] = e
			signedNames = append(signedNames, nm)
			signedDefs[nm] = [2]int{a, b}
			items = append(items, item{kind: 'Q', name: nm, expr: e})
		}
	}
	budget := 12
	if rng.Intn(4) == 0 {
		budget = 40
	}
	nblocks := 1 + rng.Intn(4)
	if rng.Intn(8) == 0 {
		nblocks = 13 + rng.Intn(4) // many sequential blocks: more passes than the pass limit
	}
	env := &exprEnv{rng: rng}
	o := progOpts{legacy: legacy}
	for b := 0; b < nblocks; b++ {
		if rng.Intn(3) == 0 {
			items = append(items, genInstr(rng, env, o))
		}
		if b > 0 && rng.Intn(3) == 0 && len(countNames) < 4 {
			// an EQU defined between blocks, used as a count by the blocks that follow
			nm := ident(rng, used)
			v := rng.Intn(4)
			vals[nm] = v
			forDefs[nm] = []etok{{'n', fmt.Sprint(v)}}
			countNames = append([]string{nm}, countNames...)
			items = append(items, item{kind: 'Q', name: nm, expr: []etok{{'n', fmt.Sprint(v)}}})
		}
		blk := genForBlock(rng, used, nil, countNames, vals, 1, &budget, legacy)
		items = append(items, blk)
		if len(blk.labels) > 0 && rng.Intn(3) == 0 {
			// reference to the block label from outside the block
			items = append(items, item{kind: 'I', op: "jmp", a: operand{expr: []etok{{'t', blk.labels[0]}}}})
		}
	}
	if rng.Intn(6) == 0 {
		// conditional assembly: a block that is emitted exactly once and DEFINES things — an EQU
		// used as the count of a later block, a label on one of its instructions referred to
		// from outside
		once := item{kind: 'F', name: ident(rng, used), expr: []etok{{'n', "1"}}}
		nm := ident(rng, used)
		v := 1 + rng.Intn(3)
		vals[nm] = v
		forDefs[nm] = []etok{{'n', fmt.Sprint(v)}}
		lbl := ident(rng, used)
		in1 := genInstr(rng, env, o)
		in1.labels = []string{lbl}
		once.body = append(once.body, item{kind: 'Q', name: nm, expr: []etok{{'n', fmt.Sprint(v)}}}, in1)
		items = append(items, once)
		items = append(items, item{kind: 'I', op: "jmp", a: operand{expr: []etok{{'t', lbl}}}})
		items = append(items, item{kind: 'F', name: ident(rng, used), expr: []etok{{'t', nm}}, body: []item{genInstr(rng, env, o)}})
	}
	if rng.Intn(10) == 0 {
		// a block that is emitted zero times and contains many blocks: more FOR keywords than the
		// pass limit, hardly any expansion
		z := item{kind: 'F', name: ident(rng, used), expr: []etok{{'n', "0"}}}
		for k := 6 + rng.Intn(10); k > 0; k-- {
			z.body = append(z.body, item{kind: 'F', name: ident(rng, used), expr: []etok{{'n', fmt.Sprint(1 + rng.Intn(3))}},
				body: []item{genInstr(rng, env, o)}})
		}
		items = append(items, z)
	}
	if rng.Intn(2) == 0 {
		items = append(items, genInstr(rng, env, o))
	}
	return items, unrollItems(items, vals)
}

// ---------- execution ----------

type asmOutcome struct {
	res string
	g   int
}

// asmTimeouts counts cases that hit the deadline; after a few of them the remaining cases of
// the domain are skipped (each one costs a full deadline and leaves a spinning goroutine behind)
var asmTimeouts int

// asmLeaks counts cases after which a goroutine was still alive
var asmLeaks int

const asmDeadline = 3 * time.Second

// noteCurrent records the input about to be assembled: a fatal runtime error (stack overflow,
// out of memory) kills the process without unwinding, and the check then reports this input
func noteCurrent(cfg gmars.SimulatorConfig, text []byte) {
	dir := os.Getenv("VERIF_TMP")
	if dir == "" {
		return
	}
	os.WriteFile(filepath.Join(dir, "current.case"), []byte(cfgFields(cfg)+" "+hexd(text)+"\n"), 0o644)
}

func runAsmFull(cfg gmars.SimulatorConfig, text []byte) asmOutcome {
	if asmTimeouts >= 3 {
		return asmOutcome{"skipped", 0}
	}
	before := runtime.NumGoroutine()
	var w gmars.WarriorData
	var err error
	noteCurrent(cfg, text)
	// every eighth input (by content) is assembled from a file on disk instead of memory, after
	// the same file has been assembled once under a roomier configuration of the same rule set:
	// the result must depend on the text and the configuration given, not on the reader or on
	// what the process assembled before
	viaFile := ""
	if dir := os.Getenv("VERIF_TMP"); dir != "" && len(text) > 0 && len(text) < 1<<16 {
		h := uint32(2166136261)
		for _, b := range text {
			h = (h ^ uint32(b)) * 16777619
		}
		if h%8 == 0 {
			viaFile = filepath.Join(dir, "asm-input.red")
			if os.WriteFile(viaFile, text, 0o644) != nil {
				viaFile = ""
			}
		}
	}
	f := guarded(asmDeadline, func() {
		if viaFile != "" {
			roomy := cfg
			roomy.CoreSize, roomy.ReadLimit, roomy.WriteLimit = cfg.CoreSize*2+3, cfg.CoreSize*2+3, cfg.CoreSize*2+3
			roomy.Length = cfg.Length*2 + 5
			if fh, e := os.Open(viaFile); e == nil {
				gmars.CompileWarrior(fh, roomy)
				fh.Close()
			}
			if fh, e := os.Open(viaFile); e == nil {
				w, err = gmars.CompileWarrior(fh, cfg)
				fh.Close()
				return
			}
		}
		w, err = gmars.CompileWarrior(readerFor(text), cfg)
		if err == nil && len(text)%4 == 1 {
			// the caller owns what it was given: scribble over the result and assemble the same
			// text again under the same configuration — the second answer is the one reported
			for i := range w.Code {
				w.Code[i] = gmars.Instruction{Op: gmars.NOP, OpMode: gmars.I, AMode: gmars.B_INCREMENT, A: ^gmars.Address(0), BMode: gmars.A_INCREMENT, B: ^gmars.Address(0)}
			}
			w.Start = -7
			w.Name = "scribbled"
			w, err = gmars.CompileWarrior(bytes.NewReader(text), cfg)
		}
	})
	res := wresult(w, err, f)
	if f == "timeout" {
		asmTimeouts++
	}
	if f == "" && err != nil {
		z := 0
		if w.Code == nil && w.Name == "" && w.Author == "" && w.Strategy == "" && w.Start == 0 {
			z = 1
		}
		res = fmt.Sprintf("err z=%d", z)
	}
	g := 0
	if f == "" {
		// producers finish right after the consumer got the last token; give them a moment
		// on correct code this loop ends at once; give a loaded machine up to a second before
		// calling a goroutine "left behind" (after a few confirmed leaks the wait is cut short)
		limit := 1000
		if asmLeaks >= 5 {
			limit = 20
		}
		for i := 0; i < limit; i++ {
			g = runtime.NumGoroutine() - before
			if g <= 0 {
				break
			}
			if i < 20 {
				runtime.Gosched()
				time.Sleep(50 * time.Microsecond)
			} else {
				time.Sleep(time.Millisecond)
			}
		}
		if g > 0 {
			asmLeaks++
		}
	}
	return asmOutcome{res, g}
}

func emitAsm(out *bufio.Writer, id, tag string, cfg gmars.SimulatorConfig, text []byte, prog string, second []byte) {
	// the properties quantify over valid configurations: a generator that overrides Length or
	// CoreSize afterwards may have left Length+Distance above the core size
	if cfg.Validate() != nil {
		if cfg.Length > cfg.CoreSize {
			cfg.Length = cfg.CoreSize
		}
		cfg.Distance = 0
	}
	o := runAsmFull(cfg, text)
	if o.res == "skipped" {
		return
	}
	if o.res == "timeout" {
		// the abandoned goroutine may allocate without bound: report this case and stop the run
		fmt.Fprintf(out, "X %s %s %s %s %s | %s g=%d\n", id, tag, cfgFields(cfg), hexd(text), prog, o.res, o.g)
		flushAndExit("CompileWarrior did not return within the deadline")
	}
	fmt.Fprintf(out, "X %s %s %s %s %s | %s g=%d", id, tag, cfgFields(cfg), hexd(text), prog, o.res, o.g)
	if second != nil {
		o2 := runAsmFull(cfg, second)
		fmt.Fprintf(out, " ## %s g=%d ## %s", o2.res, o2.g, hexd(second))
	}
	fmt.Fprintln(out)
}

// lookAlikes rewrites some operands of a longer program as `name+d` with one or two digits, so
// that different instructions carry operand texts that are prefixes / extensions of one another
// (`x+1` on line 10, `x+11` on line 0)
func lookAlikes(rng *rand.Rand, items []item) {
	var name string
	for _, it := range items {
		if it.kind == 'I' && len(it.labels) > 0 {
			name = it.labels[0]
			break
		}
	}
	if name == "" {
		return
	}
	ds := []string{"1", "11", "10", "2", "12", "0", "21", "111"}
	for i := range items {
		if items[i].kind == 'I' && rng.Intn(2) == 0 {
			e := []etok{{'t', name}, {'o', "+"}, {'n', ds[rng.Intn(len(ds))]}}
			if rng.Intn(2) == 0 || items[i].b == nil {
				items[i].a.expr = e
			} else {
				items[i].b.expr = e
			}
		}
	}
}

func genAsm(out *bufio.Writer, rng *rand.Rand, legacy bool, count int) int {
	tag := "asm94"
	if legacy {
		tag = "asm88"
	}
	for n := 0; n < count; n++ {
		cfg := asmConfig(rng, legacy, rng.Intn(10) == 0)
		mi := 10
		if rng.Intn(6) == 0 {
			mi = 40 // longer programs: two-digit line numbers, labels far apart
		}
		items := genProgram(rng, cfg, progOpts{legacy: legacy, maxInstr: mi})
		if mi == 40 {
			lookAlikes(rng, items)
		}
		wire := itemsWire(items)
		for v := 0; v < 3; v++ { // each program rendered three ways
			text := render(rng, items, v == 0)
			emitAsm(out, fmt.Sprintf("%s_%d_%d", tag, n, v), tag, cfg, text, dash(wire), nil)
		}
	}
	return count * 3
}

// evalTextual: value of an expression over numbers and EQU names with TEXTUAL substitution of
// the names, by Go's constant evaluator (tokens separated by blanks, so sign runs stay signs)
func evalTextual(ts []etok, defs map[string][]etok) (int64, bool) {
	var expand func(ts []etok, depth int) ([]string, bool)
	expand = func(ts []etok, depth int) ([]string, bool) {
		var out []string
		for _, t := range ts {
			if t.k == 't' {
				d, ok := defs[t.s]
				if !ok || depth > 40 {
					return nil, false
				}
				e, ok := expand(d, depth+1)
				if !ok {
					return nil, false
				}
				out = append(out, e...)
			} else if t.k == 'n' {
				out = append(out, strings.TrimLeft(t.s, "0")+"")
				if out[len(out)-1] == "" {
					out[len(out)-1] = "0"
				}
			} else {
				out = append(out, t.s)
			}
		}
		return out, true
	}
	ws, ok := expand(ts, 0)
	if !ok {
		return 0, false
	}
	tv, err := types.Eval(token.NewFileSet(), nil, token.NoPos, strings.Join(ws, " "))
	if err != nil || tv.Value == nil {
		return 0, false
	}
	v, exact := constant.Int64Val(constant.ToInt(tv.Value))
	return v, exact
}

func genExpr(out *bufio.Writer, rng *rand.Rand, count int) int {
	for n := 0; n < count; n++ {
		legacy := rng.Intn(4) == 0
		cfg := asmConfig(rng, legacy, rng.Intn(3) != 0)
		if cfg.CoreSize >= 200 {
			cfg.Length, cfg.Distance = 20, 20
		}
		// expression-heavy: dat <e>, <e> lines, EQUs with signs, asserts
		used := map[string]bool{}
		consts := []string{"CORESIZE", "MAXLENGTH", "MAXPROCESSES", "MINDISTANCE"}
		names := append([]string{}, consts...)
		var items []item
		for rng.Intn(2) == 0 && len(items) < 3 {
			env := &exprEnv{rng: rng, names: names, big: true}
			nm := ident(rng, used)
			e := env.expr(2)
			if rng.Intn(3) == 0 {
				e = []etok{{'o', "-"}, {'n', fmt.Sprint(1 + rng.Intn(9))}}
			}
			items = append(items, item{kind: 'Q', name: nm, expr: e})
			names = append(names, nm)
		}
		if rng.Intn(4) == 0 {
			depth := 5 + rng.Intn(40)
			prev := ""
			var chain []item
			for d := 0; d < depth; d++ {
				nm := ident(rng, used)
				if prev == "" {
					chain = append(chain, item{kind: 'Q', name: nm, expr: []etok{{'n', fmt.Sprint(1 + rng.Intn(9))}}})
				} else if rng.Intn(3) == 0 {
					chain = append(chain, item{kind: 'Q', name: nm, expr: []etok{{'t', prev}, {'o', "+"}, {'n', "1"}}})
				} else {
					chain = append(chain, item{kind: 'Q', name: nm, expr: []etok{{'t', prev}}})
				}
				prev = nm
			}
			if rng.Intn(2) == 0 { // defined in reverse order: every use is a forward use
				for l, r := 0, len(chain)-1; l < r; l, r = l+1, r-1 {
					chain[l], chain[r] = chain[r], chain[l]
				}
			}
			items = append(items, chain...)
			names = append(names, prev, prev, prev)
			items = append(items, item{kind: 'A', expr: []etok{{'t', prev}}})
		}
		if rng.Intn(60) == 0 {
			// a long source (8 … 40 KiB) full of many-digit literals, zeros included: whatever
			// buffer the reader uses, some literal lies across its boundary
			var litems []item
			nl := 200 + rng.Intn(800)
			mode := ""
			if legacy {
				mode = "#"
			}
			digits := func() string {
				k := 3 + rng.Intn(7)
				b := make([]byte, k)
				for i := range b {
					b[i] = "0012345678900"[rng.Intn(13)]
				}
				if b[0] == '0' {
					b[0] = '1'
				}
				return string(b)
			}
			for i := 0; i < nl; i++ {
				bo := operand{mode: mode, expr: []etok{{'n', digits()}}}
				litems = append(litems, item{kind: 'I', op: "dat", a: operand{mode: mode, expr: []etok{{'n', digits()}}}, b: &bo})
			}
			cfg.Length = gmars.Address(nl + 5)
			cfg.Distance = 0
			wire := itemsWire(litems)
			emitAsm(out, fmt.Sprintf("xl%d", n), "expr", cfg, render(rng, litems, rng.Intn(2) == 0), wire, nil)
			continue
		}
		if rng.Intn(5) == 0 {
			// the expression is a FOR count: the number of copies is its value. A first block
			// may come before the EQUs the count uses (they are then seen by a later pass only).
			var fitems []item
			if rng.Intn(2) == 0 {
				fitems = append(fitems, item{kind: 'F', name: ident(rng, used), expr: []etok{{'n', fmt.Sprint(rng.Intn(3))}},
					body: []item{{kind: 'I', op: "nop", a: operand{expr: []etok{{'n', "0"}}}}}})
			}
			var small []string
			for j := 1 + rng.Intn(3); j > 0; j-- {
				nm := ident(rng, used)
				e := []etok{{'n', fmt.Sprint(rng.Intn(4))}}
				if len(small) > 0 && rng.Intn(2) == 0 {
					e = []etok{{'t', small[rng.Intn(len(small))]}, {'o', []string{"+", "*", "-"}[rng.Intn(3)]}, {'n', fmt.Sprint(rng.Intn(3))}}
				}
				fitems = append(fitems, item{kind: 'Q', name: nm, expr: e})
				small = append(small, nm)
			}
			cenv := &exprEnv{rng: rng, names: append(small, small...)}
			defs := map[string][]etok{}
			for _, it := range fitems {
				if it.kind == 'Q' {
					defs[it.name] = it.expr
				}
			}
			var cnt []etok
			for try := 0; ; try++ {
				cnt = cenv.expr(1 + rng.Intn(2))
				for i := range cnt {
					if cnt[i].k == 'n' && len(cnt[i].s) > 1 {
						cnt[i].s = cnt[i].s[:1] // small literals only: the count is the number of copies
					}
					if cnt[i].k == 'o' && (cnt[i].s == "/" || cnt[i].s == "%") {
						cnt[i].s = "+"
					}
				}
				// the count must denote a number of copies: 0..12 (a negative count is outside the
				// property; gmars takes it as zero)
				if v, ok := evalTextual(cnt, defs); ok && v >= 0 && v <= 12 {
					break
				}
				if try > 30 {
					cnt = []etok{{'n', fmt.Sprint(rng.Intn(4))}}
					break
				}
			}
			ctr := ident(rng, used)
			mode := ""
			if legacy {
				mode = "#"
			}
			bo := operand{mode: mode, expr: []etok{{'n', "0"}}}
			body := []item{{kind: 'I', op: "dat", a: operand{mode: mode, expr: []etok{{'t', ctr}}}, b: &bo}}
			if rng.Intn(4) == 0 {
				// an assertion inside the block is an assertion: a false one rejects the program
				// (when the block is emitted at least once)
				ae := &exprEnv{rng: rng, names: small}
				body = append(body, item{kind: 'A', expr: ae.expr(1)})
				if rng.Intn(2) == 0 {
					body[len(body)-1].expr = []etok{{'n', []string{"0", "1", "2"}[rng.Intn(3)]}, {'o', "-"}, {'n', []string{"0", "1", "2"}[rng.Intn(3)]}}
				}
			}
			fitems = append(fitems, item{kind: 'F', name: ctr, expr: cnt, body: body})
			cfg.Length = 200
			if cfg.CoreSize < 1000 {
				cfg.CoreSize, cfg.ReadLimit, cfg.WriteLimit = 8000, 8000, 8000
			}
			wire := itemsWire(fitems)
			for v := 0; v < 2; v++ {
				text := render(rng, fitems, v == 0)
				emitAsm(out, fmt.Sprintf("xf%d_%d", n, v), "expr", cfg, text, wire, nil)
			}
			continue
		}
		env := &exprEnv{rng: rng, names: names, big: true}
		k := 1 + rng.Intn(3)
		for i := 0; i < k; i++ {
			d := 1 + rng.Intn(5)
			mode := ""
			if legacy {
				mode = "#"
			}
			b := operand{mode: mode, expr: env.expr(d)}
			items = append(items, item{kind: 'I', op: "dat", a: operand{mode: mode, expr: env.expr(d)}, b: &b})
		}
		if rng.Intn(2) == 0 {
			e := &exprEnv{rng: rng, names: names, big: true, cmpOps: rng.Intn(3) == 0}
			items = append(items, item{kind: 'A', expr: e.expr(2)})
		}
		wire := itemsWire(items)
		for v := 0; v < 2; v++ {
			text := render(rng, items, v == 0)
			emitAsm(out, fmt.Sprintf("x%d_%d", n, v), "expr", cfg, text, wire, nil)
		}
	}
	return count * 2
}

func genFor(out *bufio.Writer, rng *rand.Rand, count int) int {
	for n := 0; n < count; n++ {
		legacy := rng.Intn(5) == 0
		cfg := asmConfig(rng, legacy, false)
		cfg.Length = 300
		if cfg.CoreSize < 700 {
			cfg.CoreSize, cfg.ReadLimit, cfg.WriteLimit = 8000, 8000, 8000
		}
		items, unrolled := genForProgram(rng, legacy)
		text := render(rng, items, n%2 == 0)
		text2 := render(rng, unrolled, true)
		emitAsm(out, fmt.Sprintf("f%d", n), "for", cfg, text, itemsWire(items), text2)
	}
	return count
}

func abs(x int) int {
	if x < 0 {
		return -x
	}
	return x
}
