package main

// cli: the freshly built cmd/gmars binary on generated warrior files and flag vectors (C17).

import (
	"bufio"
	"bytes"
	"context"
	"encoding/hex"
	"fmt"
	"math/rand"
	"os"
	"os/exec"
	"path/filepath"
	"regexp"
	"strconv"
	"strings"
	"time"

	"github.com/bobertlo/gmars"
)

var resultLine = regexp.MustCompile(`^\d+ \d+$`)
var spawnLine = regexp.MustCompile(`^w01 (\d+): Warrior Spawn$`)

func cliWarrior(rng *rand.Rand, maxLen int, legacy bool) []byte {
	cfg := gmars.ConfigNOP94
	if legacy {
		cfg = gmars.ConfigKOTH88
	}
	cfg.Length = gmars.Address(maxLen)
	for {
		items := genProgram(rng, cfg, progOpts{legacy: legacy, maxInstr: maxLen})
		// keep it simple for the tool: no over-length programs
		n := 0
		for _, it := range items {
			if it.kind == 'I' {
				n++
			}
		}
		if n >= 1 && n <= maxLen {
			// half of the files in free layout: any spacing and case, leading zeros, comments, CR-LF,
			// no newline after the last line
			return render(rng, items, rng.Intn(2) == 0)
		}
	}
}

var knownWarriors = []string{
	"jmp -1\ndat 0\n",
	"mov -1, -2\njmp -1\n",
	"spl 0\nmov -1, <-3\njmp -2\n",
	"mov 0, 1\n",
	"spl 0\njmp -1\n",
	"add #4, 3\nmov 2, @2\njmp -2\ndat #0, #0\n",
	"dat 0\n",
	"jmp 0\n",
	"spl 1\nmov -1, 0\nmov -1, 0\nmov 0, 1\n",
	"mov 0, 1\nend 0\n",
	"nop 0\njmp -1\n", // survive only through backward references (operands in the upper half of the core)
	"nop 0\nnop 0\nnop 0\njmp -3\n",
	"mov 0, <-5\nnop 0\njmp -2\n",
	"add #1, -1\nnop 0\ndjn -1, #0\njmp -3\n",
	"jmp 0\ndat 0, 010", // a number with leading zeros as the very last thing in the file
	"spl 0\nmov 0, 1\ndat 008, 0009",
	"add #0010, 1\njmp -1, 0001\n",
	// survival hinges on the VALUE of an operand expression: a backward label difference through
	// / and % (signed: -1/2 = 0, -1%2 = -1), an EQU spliced textually into a FOR count (1+1*2 = 3)
	"a dat 0\nb jmp (a-b)/2\nend b\n",
	"a dat 0\nb jmp (a-b)%2+1\nend b\n",
	"a dat 0\ndat 0\nb jmp (a-b)/3*2\nend b\n",
	"n equ 1+1\njmp 4\ni for n*2\ndat 0\nrof\njmp 0\n",
	"n equ 2-1\njmp 2*n\ni for 2*n\ndat 0\nrof\njmp 0\n",
}

func genCLI(out *bufio.Writer, rng *rand.Rand, count int) int {
	bin := os.Getenv("VERIF_GMARS")
	if bin == "" {
		fmt.Fprintln(os.Stderr, "cli: VERIF_GMARS not set")
		return 0
	}
	dir, err := os.MkdirTemp(os.Getenv("VERIF_TMP"), "cli")
	if err != nil {
		fmt.Fprintln(os.Stderr, "cli:", err)
		return 0
	}
	defer os.RemoveAll(dir)
	presetLines(out)
	// invocations the tool refuses: exit status 1 and nothing on standard output
	{
		good := filepath.Join(dir, "good.red")
		os.WriteFile(good, []byte("mov 0, 1\n"), 0o644)
		refusals := [][]string{
			{good, good, good}, // only two warriors are supported
			{},                 // no warrior
			{filepath.Join(dir, "does-not-exist.red")},  // cannot be opened
			{good, filepath.Join(dir, "missing-2.red")}, // the second cannot be opened
			{"-preset", "bogus", good},
			{"-r", "3", good, good, good, good},
		}
		for i, a := range refusals {
			ctx, cancel := context.WithTimeout(context.Background(), 30*time.Second)
			cmd := exec.CommandContext(ctx, bin, a...)
			var so bytes.Buffer
			cmd.Stdout = &so
			err := cmd.Run()
			cancel()
			code := 0
			if ee, ok := err.(*exec.ExitError); ok {
				code = ee.ExitCode()
			} else if err != nil {
				code = -3
			}
			// an unopenable file is reported on standard output by the tool: only result lines count
			results := 0
			for _, l := range strings.Split(so.String(), "\n") {
				if resultLine.MatchString(strings.TrimSpace(l)) {
					results++
				}
			}
			fmt.Fprintf(out, "Y yr%d C17:refusal %d | exit=1 results=0 ## exit=%d results=%d\n", i, i, code, results)
		}
	}
	for n := 0; n < count; n++ {
		legacy := rng.Intn(4) == 0
		ln := 1 + rng.Intn(8)
		size := 3*ln + 1 + rng.Intn(300)
		if rng.Intn(6) == 0 {
			size = 3*ln + 1 // boundary of the precondition
		}
		if rng.Intn(4) == 0 {
			size = []int{4001, 5000, 8192, 8000, 12000, 20000, 8001, 9000, 16384, 55440}[rng.Intn(10)] // well above and around the preset sizes
		}
		procs := 1 + rng.Intn(12)
		if rng.Intn(5) == 0 {
			procs = size + rng.Intn(50)
		}
		cycles := 1 + rng.Intn(600)
		rounds := 1 + rng.Intn(4)
		fixed := 0
		if rng.Intn(3) != 0 {
			fixed = 2*ln + rng.Intn(size-3*ln)
			if fixed == 0 {
				fixed = ln
			}
		}
		if rng.Intn(25) == 0 {
			fixed = 1 // the smallest fixed placement (0 means random)
		}
		if rng.Intn(8) == 0 {
			// placements at and above the core size (SpawnWarrior reduces them modulo the core)
			fixed = (1+rng.Intn(3))*size + []int{0, 0, ln, 2 * ln, size - ln - 1}[rng.Intn(5)]
		}
		preset := ""
		wantConst := rng.Intn(5) == 0
		if rng.Intn(7) == 0 || (wantConst && rng.Intn(2) == 0) {
			preset = []string{"nop94", "88", "icws", "noptiny", "nop256", "nopnano", "bogus"}[rng.Intn(7)]
			if wantConst && preset == "bogus" {
				preset = "icws"
			}
			ln = 5
			legacy = preset == "88" || preset == "icws"
			cycles = 0 // unused
			if pc, err := gmars.PresetConfig(preset); err == nil && fixed != 0 && rng.Intn(3) == 0 {
				// a placement at or beyond the PRESET's core size (the -s flag, given or not, is ignored)
				fixed = (1+rng.Intn(3))*int(pc.CoreSize) + []int{0, 0, 10, 103, int(pc.CoreSize) - 11}[rng.Intn(5)]
			}
		}
		debug := fixed == 0 && preset == "" && cycles <= 200 && rng.Intn(2) == 0
		nfiles := 2
		if rng.Intn(6) == 0 {
			nfiles = 1
		}
		var files [][]byte
		census := preset == "" && !legacy && rng.Intn(8) == 0
		scripted := false
		if n < 12 {
			// a fixed opening: core sizes other than the presets' with warriors that live on
			// backward references, against an idle opponent, at a fixed placement
			scripted, census = true, false
			legacy, preset, wantConst, debug = false, "", false, false
			size = []int{5000, 8192, 9000, 12000, 55440, 4001}[n%6]
			procs, cycles, ln, rounds, nfiles = 8, 300, 10, 1, 2
			fixed = size / 2
			files = append(files, []byte([]string{"nop 0\njmp -1\n", "nop 0\nnop 0\nnop 0\njmp -3\n"}[n/6]), []byte("jmp 0\n"))
		}
		forceCI := -1
		if n >= 12 && n < 36 {
			// ... and every predefined constant under every preset
			scripted, census = false, false
			preset = []string{"nop94", "88", "icws", "noptiny", "nop256", "nopnano"}[(n-12)/4]
			legacy = preset == "88" || preset == "icws"
			wantConst, debug, forceCI = true, false, (n-12)%4
			ln, rounds, nfiles, cycles = 5, 1, 2, 0
			fixed = 0
			if pc, err := gmars.PresetConfig(preset); err == nil {
				fixed = int(pc.CoreSize) / 2
			}
		}
		if n >= 36 && n < 44 {
			// labels spelled like constants that OTHER assemblers predefine: here they are labels
			scripted, census = true, false
			legacy, preset, wantConst, debug = false, "", false, false
			size, procs, cycles, ln, rounds, nfiles = 8000, 8, 1001, 10, 1, 2
			fixed = 4000
			nm := []string{"MAXCYCLES", "READLIMIT", "WRITELIMIT", "CURLINE", "VERSION", "WARRIORS", "ROUNDS", "PSPACESIZE"}[n-36]
			files = append(files[:0], []byte(fmt.Sprintf("jmp %s+1\ndat 0\n%s nop 0\njmp 0\n", nm, nm)), []byte("jmp 0\n"))
		}
		if census {
			// a warrior that counts its own tasks: 2^k tasks each add 1 to a counter, the one that
			// sees the expected total survives — the outcome depends on every queued task
			k := 5 + rng.Intn(6)
			var sb strings.Builder
			nopAt := rng.Intn(k + 1)
			for i := 0; i < k; i++ {
				if i == nopAt {
					sb.WriteString("nop 0\n")
				}
				sb.WriteString("spl 1\n")
			}
			total := 1 << uint(k)
			if rng.Intn(4) == 0 {
				total++ // never reached: the census warrior must die
			}
			fmt.Fprintf(&sb, "add.ab #1, cnt\nsne.ab #%d, cnt\njmp 0\ncnt dat 0, 0\n", total)
			ln, nfiles = 20, 2
			size = []int{800, 2000, 8000}[rng.Intn(3)]
			procs = []int{8000, 1 << uint(k), 1<<uint(k) - 1, 300, 600, 257}[rng.Intn(6)]
			if rng.Intn(2) == 0 {
				// a core smaller than the number of tasks: the process limit, not the core size,
				// decides how many of them exist
				size = []int{61, 64, 100, 127, 200}[rng.Intn(5)]
				for 1<<uint(k) <= size {
					k++
				}
				sb.Reset()
				for i := 0; i < k; i++ {
					sb.WriteString("spl 1\n")
				}
				total = 1 << uint(k)
				fmt.Fprintf(&sb, "add.ab #1, cnt\nsne.ab #%d, cnt\njmp 0\ncnt dat 0, 0\n", total)
				procs = []int{total, total - 1, total + 50, size, size + 1, 8000}[rng.Intn(6)]
			}
			cycles = 40000
			rounds = 1
			fixed = size / 2
			debug = false
			files = append(files, []byte(sb.String()), []byte("jmp 0\n"))
			args := 0
			_ = args
		}
		constCheck := !census && !scripted && wantConst
		if constCheck {
			// a warrior that survives only if a predefined constant has the value the options
			// describe: CORESIZE, MAXLENGTH, MAXPROCESSES, MINDISTANCE
			var cfg gmars.SimulatorConfig
			if preset != "" {
				c, err := gmars.PresetConfig(preset)
				if err != nil {
					constCheck = false
				}
				cfg = c
			} else {
				mode := gmars.ICWS94
				if legacy {
					mode = gmars.ICWS88
				}
				cfg = gmars.NewQuickConfig(gmars.SimulatorMode(mode), gmars.Address(size), gmars.Address(procs), gmars.Address(cycles), gmars.Address(ln))
			}
			if constCheck && cfg.Length >= 4 {
				names := []string{"CORESIZE", "MAXLENGTH", "MAXPROCESSES", "MINDISTANCE"}
				vals := []uint64{uint64(cfg.CoreSize), uint64(cfg.Length), uint64(cfg.Processes), uint64(cfg.Distance)}
				ci := rng.Intn(4)
				if forceCI >= 0 {
					ci = forceCI
				}
				add := uint64(rng.Intn(9))
				want := (vals[ci] + add) % uint64(cfg.CoreSize)
				if rng.Intn(4) == 0 {
					want = (want + 1) % uint64(cfg.CoreSize) // must die
				}
				src := fmt.Sprintf("cmp #%d, val\ndat 0, 0\njmp 0\nval dat 0, %s+%d\n", want, names[ci], add)
				files = append(files, []byte(src), []byte("jmp 0\n"))
				nfiles = 2
			} else {
				constCheck = false
			}
		}
		for i := 0; i < nfiles && !census && !constCheck && !scripted; i++ {
			var src []byte
			if (rng.Intn(3) == 0 || (size > 4000 && rng.Intn(2) == 0)) && !legacy {
				src = []byte(knownWarriors[rng.Intn(len(knownWarriors))])
			} else {
				src = cliWarrior(rng, ln, legacy)
			}
			if rng.Intn(40) == 0 {
				src = []byte("mov 0, ,\n") // does not assemble
			}
			files = append(files, src)
		}
		args := []string{}
		if preset != "" {
			if rng.Intn(2) == 0 {
				// contradicting flags next to a preset: the preset wins
				args = append(args, "-s", fmt.Sprint(size), "-p", fmt.Sprint(procs), "-l", fmt.Sprint(1+rng.Intn(50)))
				if rng.Intn(2) == 0 {
					args = append(args, "-8")
				}
			}
			args = append(args, "-preset", preset)
		} else {
			if legacy {
				args = append(args, "-8")
			}
			args = append(args, "-s", fmt.Sprint(size), "-p", fmt.Sprint(procs), "-c", fmt.Sprint(cycles), "-l", fmt.Sprint(ln))
		}
		if fixed != 0 {
			args = append(args, "-F", fmt.Sprint(fixed))
		}
		args = append(args, "-r", fmt.Sprint(rounds))
		if debug {
			args = append(args, "-debug")
		}
		if rng.Intn(60) == 0 && len(files) == 2 {
			// a warrior file of more than a mebibyte: comment lines first, the program at the end
			files[1] = append([]byte(strings.Repeat("; padding padding padding padding padding padding padding padding\n", 17000)), files[1]...)
		}
		var hexes []string
		for i, f := range files {
			// the name of a file says nothing about its contents
			ext := []string{".red", ".red", ".rc", ".txt", "", ".RED", ".88", ".load"}[rng.Intn(8)]
			p := filepath.Join(dir, fmt.Sprintf("w%d_%d%s", n, i, ext))
			os.WriteFile(p, f, 0o644)
			args = append(args, p)
			hexes = append(hexes, hexd(f))
		}
		if nfiles == 1 {
			hexes = append(hexes, "-")
		}
		ctx, cancel := context.WithTimeout(context.Background(), 60*time.Second)
		cmd := exec.CommandContext(ctx, bin, args...)
		var so, se bytes.Buffer
		cmd.Stdout, cmd.Stderr = &so, &se
		err := cmd.Run()
		timedOut := ctx.Err() == context.DeadlineExceeded
		cancel()
		exit := 0
		if timedOut {
			exit = -2
		} else if ee, ok := err.(*exec.ExitError); ok {
			exit = ee.ExitCode()
		} else if err != nil {
			exit = -3
		}
		var results, places []string
		for _, l := range strings.Split(so.String(), "\n") {
			l = strings.TrimRight(l, "\r ")
			if m := spawnLine.FindStringSubmatch(l); m != nil {
				v, _ := strconv.Atoi(m[1]) // decimal, leading zeros
				places = append(places, fmt.Sprint(v))
			} else if resultLine.MatchString(l) && !debug {
				results = append(results, l)
			}
		}
		if debug {
			// with -debug the cycle counter lines are bare numbers too: the result lines are the last
			// len(files) lines of the output
			ls := strings.Split(strings.TrimRight(so.String(), "\n"), "\n")
			if len(ls) >= nfiles {
				for _, l := range ls[len(ls)-nfiles:] {
					if resultLine.MatchString(l) {
						results = append(results, l)
					}
				}
			}
		}
		pl := "-"
		if len(places) > 0 {
			pl = strings.Join(places, ",")
		}
		u88 := 0
		if legacy && preset == "" {
			u88 = 1
		}
		resp := fmt.Sprintf("exit=%d out=%s places=%s", exit, hexd([]byte(strings.Join(results, "\n"))), pl)
		if exit == -2 {
			resp = "timeout"
		}
		fmt.Fprintf(out, "Z z%d cli %d %d %d %d %d %d %d %s %s %s | %s\n", n, u88, size, procs, cycles, ln, fixed, rounds,
			dash(preset), hexes[0], hexes[1], resp)
	}
	_ = hex.EncodeToString
	return count
}

// sim0Listing: the listing the library prints for w under cfg (used only to know how long the
// first file's listing is when two files are given to -A)
func sim0Listing(cfg gmars.SimulatorConfig, w gmars.WarriorData) string {
	sim, err := gmars.NewSimulator(cfg)
	if err != nil {
		return ""
	}
	h, err := sim.AddWarrior(&w)
	if err != nil {
		return ""
	}
	return h.LoadCode()
}

// genCLIList (clilist, C16): the text behind the -A option of the built command, for flag
// vectors and presets; the configuration is the one the options describe (built here from
// NewQuickConfig / PresetConfig), the expected warrior is what CompileWarrior returns for the
// file under that configuration. Flags that -A ignores (-F, -r, -c) are thrown in.
func genCLIList(out *bufio.Writer, rng *rand.Rand, count int) int {
	bin := os.Getenv("VERIF_GMARS")
	if bin == "" {
		fmt.Fprintln(os.Stderr, "clilist: VERIF_GMARS not set")
		return 0
	}
	dir, err := os.MkdirTemp(os.Getenv("VERIF_TMP"), "clilist")
	if err != nil {
		fmt.Fprintln(os.Stderr, "clilist:", err)
		return 0
	}
	defer os.RemoveAll(dir)
	emitted := 0
	for n := 0; n < count; n++ {
		legacy := rng.Intn(3) == 0
		ln := 1 + rng.Intn(10)
		size := 3*ln + 1 + rng.Intn(400)
		if rng.Intn(4) == 0 {
			size = []int{4001, 5000, 8192, 8000, 12000, 256, 80, 800}[rng.Intn(8)]
			if size < 3*ln+1 {
				size = 3*ln + 1
			}
		}
		procs := 1 + rng.Intn(100)
		cycles := 1 + rng.Intn(1000)
		preset := ""
		var cfg gmars.SimulatorConfig
		if rng.Intn(3) == 0 {
			preset = []string{"nop94", "88", "icws", "noptiny", "nop256", "nopnano"}[rng.Intn(6)]
			cfg, err = gmars.PresetConfig(preset)
			if err != nil {
				continue
			}
			legacy = cfg.Mode == gmars.ICWS88
			if int(cfg.Length) < ln {
				ln = int(cfg.Length)
			}
		}
		args := []string{}
		// the other flags are given as well when a preset is named: the preset wins
		flagLegacy := legacy
		if preset != "" && rng.Intn(2) == 0 {
			flagLegacy = !legacy
		}
		if preset == "" || rng.Intn(2) == 0 {
			if flagLegacy {
				args = append(args, "-8")
			}
			args = append(args, "-s", fmt.Sprint(size), "-p", fmt.Sprint(procs), "-c", fmt.Sprint(cycles), "-l", fmt.Sprint(ln))
		}
		if preset != "" {
			args = append(args, "-preset", preset)
		} else {
			mode := gmars.ICWS94
			if legacy {
				mode = gmars.ICWS88
			}
			cfg = gmars.NewQuickConfig(gmars.SimulatorMode(mode), gmars.Address(size), gmars.Address(procs), gmars.Address(cycles), gmars.Address(ln))
		}
		if rng.Intn(3) == 0 {
			args = append(args, "-F", fmt.Sprint(1+rng.Intn(size)))
		}
		if rng.Intn(3) == 0 {
			args = append(args, "-r", fmt.Sprint(1+rng.Intn(5)))
		}
		args = append(args, "-A")
		twoFiles := 0
		var src []byte
		if rng.Intn(4) == 0 && !legacy {
			src = []byte(knownWarriors[rng.Intn(len(knownWarriors))])
		} else {
			src = cliWarrior(rng, ln, legacy)
		}
		want, werr := gmars.CompileWarrior(bytes.NewReader(src), cfg)
		if werr != nil || len(want.Code) == 0 {
			continue
		}
		p := filepath.Join(dir, fmt.Sprintf("a%d.red", n))
		os.WriteFile(p, src, 0o644)
		if rng.Intn(6) == 0 {
			// a first file with the same base name in another directory: what is listed for a file
			// is that file's warrior (only the second listing is compared)
			other := cliWarrior(rng, ln, legacy)
			if ow, oerr := gmars.CompileWarrior(bytes.NewReader(other), cfg); oerr == nil && len(ow.Code) > 0 {
				od := filepath.Join(dir, fmt.Sprintf("d%d", n))
				os.MkdirAll(od, 0o755)
				op := filepath.Join(od, fmt.Sprintf("a%d.red", n))
				os.WriteFile(op, other, 0o644)
				args = append(args, op)
				twoFiles = len(sim0Listing(cfg, ow)) + 1
			}
		}
		args = append(args, p)
		ctx, cancel := context.WithTimeout(context.Background(), 30*time.Second)
		cmd := exec.CommandContext(ctx, bin, args...)
		var so, se bytes.Buffer
		cmd.Stdout, cmd.Stderr = &so, &se
		rerr := cmd.Run()
		timedOut := ctx.Err() == context.DeadlineExceeded
		cancel()
		resp := ""
		switch {
		case timedOut:
			resp = "timeout"
		case rerr != nil:
			resp = "panic:exit " + strings.ReplaceAll(strings.TrimSpace(rerr.Error()), " ", "_")
		default:
			text := so.String()
			if twoFiles > 0 && len(text) >= twoFiles {
				text = text[twoFiles:] // skip the first file's listing (and its newline)
			}
			text = strings.TrimSuffix(text, "\n") // Println adds one newline after the listing
			resp = hexd([]byte(text))
		}
		fmt.Fprintf(out, "K ka%d listing %s %d %s | %s\n", n, cfgFields(cfg), want.Start, cellsd(want.Code), resp)
		emitted++
	}
	return emitted
}
