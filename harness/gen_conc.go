package main

// conc: isolation, repeatability and concurrent use (C14). Built with -race by ./check.

import (
	"bufio"
	"bytes"
	"crypto/sha1"
	"encoding/hex"
	"fmt"
	"math/rand"
	"os"
	"path/filepath"
	"strings"
	"sync"

	"github.com/bobertlo/gmars"
)

type concJob struct {
	desc string
	run  func() string
}

func coreDigest(sim gmars.Simulator) string {
	h := sha1.New()
	m := uint64(sim.CoreSize())
	for a := uint64(0); a < m; a++ {
		fmt.Fprint(h, cellStr(sim.GetMem(gmars.Address(a))), ";")
	}
	return hex.EncodeToString(h.Sum(nil))[:16]
}

func battleResult(cfg gmars.SimulatorConfig, ws []*gmars.WarriorData, offs []uint64) string {
	sim, err := gmars.NewSimulator(cfg)
	if err != nil {
		return "err"
	}
	for _, w := range ws {
		sim.AddWarrior(w)
	}
	for i := range ws {
		sim.SpawnWarrior(i, gmars.Address(offs[i]))
	}
	res := sim.Run()
	var sb strings.Builder
	fmt.Fprintf(&sb, "%v c=%d core=%s", res, sim.CycleCount(), coreDigest(sim))
	for i := range ws {
		fmt.Fprintf(&sb, " q%d=%v", i, sim.GetWarrior(i).Queue())
	}
	return sb.String()
}

func sha(s string) string {
	h := sha1.Sum([]byte(s))
	return hex.EncodeToString(h[:])[:16]
}

func genConc(out *bufio.Writer, rng *rand.Rand, rounds int) int {
	corpus := corpusFiles()
	var jobs []concJob
	manyRepeats := map[int]bool{} // text indices whose jobs are repeated 60 times instead of 15
	var constWant []string        // expected results known by construction, for jobs constIdx
	var constIdx []int
	// assemble jobs: shared configuration values, texts that exercise EQU maps and FOR expansion
	cfgs := []gmars.SimulatorConfig{gmars.ConfigNOP94, gmars.ConfigKOTH88, gmars.ConfigNopNano}
	var texts [][]byte
	for _, f := range corpus {
		texts = append(texts, f)
	}
	for i := 0; i < 20; i++ {
		cfg := asmConfig(rng, false, false)
		texts = append(texts, render(rng, genProgram(rng, cfg, progOpts{maxInstr: 10}), false))
		items, _ := genForProgram(rng, false)
		texts = append(texts, render(rng, items, true))
	}
	// EQU tables whose outcome could depend on map order
	texts = append(texts, []byte("a equ b+1\nb equ c+1\nc equ d+1\nd equ 2\nn equ a*a+d\ni for n\ndat a, i\nrof\n"),
		[]byte("x equ y\ny equ x\ndat x\n"), []byte("p equ q\ndat p, r\n"),
		[]byte("step equ 2\ngap equ 1\nn equ step*step+gap\ni for n\ndat i\nrof\n"),
		[]byte("u equ 3\nv equ 4\nw equ 5\nk equ u+u*v-w+v\nm equ k+u-k+w\ni for m-7\nmov i, k\nrof\ndat m, k\n"),
		[]byte("z9 equ z1+z1+z2+z2+z3\nz1 equ 1\nz2 equ 2\nz3 equ 3\ni for z9-7\ndat i, z9\nrof\n"))
	// deep EQU chains (recursion depth of the resolver depends on the map order)
	for _, depth := range []int{20, 34, 40, 60, 63, 64, 65, 70, 100, 130, 200, 255, 256, 257, 300, 400} {
		var sb strings.Builder
		for d := depth; d >= 1; d-- {
			if d == 1 {
				sb.WriteString("c1 equ 1\n")
			} else {
				fmt.Fprintf(&sb, "c%d equ c%d+1\n", d, d-1)
			}
		}
		// the FOR count itself depends on the whole chain: c<depth> - (depth-2) = 2
		fmt.Fprintf(&sb, "dat #0, #c%d\ni for c%d-%d\nmov i, c%d\nrof\n", depth, depth, depth-2, depth)
		texts = append(texts, []byte(sb.String()))
	}
	// independent EQUs referenced after a repeated one, in FOR counts and operands, random shapes
	for i := 0; i < 12; i++ {
		names := []string{"qa", "qb", "qc", "qd"}
		var sb strings.Builder
		for k, nm := range names {
			fmt.Fprintf(&sb, "%s equ %d\n", nm, k+1)
		}
		a, b, c := names[rng.Intn(4)], names[rng.Intn(4)], names[rng.Intn(4)]
		fmt.Fprintf(&sb, "cnt equ %s+%s-%s+%s\ni for cnt\ndat i, cnt\nrof\nmov cnt, %s*%s+%s\n", a, a, a, b, c, c, b)
		texts = append(texts, []byte(sb.String()))
	}
	// several EQUs whose text BEGINS with a reference to one shared EQU of three to seven tokens
	// (a resolver that appends to a shared slice decides by map order which of them wins)
	for i := 0; i < 16; i++ {
		var sb strings.Builder
		base := []string{"2*3+4", "1+2", "7-2*3+1", "2*2*2+1-3", "9", "1+1+1+1", "1+2+3+4+5+6+7+8+9", "2*2*2*2-1-1-1-1+3*3", "zz*zz+zz", "zz+zz*2+zz"}[rng.Intn(10)]
		// (the last two make `base` a non-leaf: its own expansion is built by appending)
		fmt.Fprintf(&sb, "zz equ 1+2+3+4\nbase equ %s\n", base)
		k := 2 + rng.Intn(4)
		var uses []string
		for j := 0; j < k; j++ {
			nm := fmt.Sprintf("u%c", 'a'+j)
			fmt.Fprintf(&sb, "%s equ base%s\n", nm, []string{"+1", "+2", "*3", "-4+5", "+6*7", ""}[rng.Intn(6)])
			uses = append(uses, nm)
		}
		for j := 0; j+1 < len(uses); j += 2 {
			fmt.Fprintf(&sb, "dat #%s, #%s\n", uses[j], uses[j+1])
		}
		fmt.Fprintf(&sb, "dat #%s, #base\n", uses[len(uses)-1])
		if rng.Intn(2) == 0 {
			fmt.Fprintf(&sb, "i for %s-%s+1\nmov i, %s\nrof\n", uses[0], uses[0], uses[1])
		}
		texts = append(texts, []byte(sb.String()))
	}
	// the same family, spelled out: a NON-leaf base of many tokens and several EQUs that begin with it
	for _, base := range []string{"zz*zz+zz", "zz+zz+zz+zz", "zz*2+zz*3+zz"} {
		for _, k := range []int{2, 3, 4} {
			var sb strings.Builder
			fmt.Fprintf(&sb, "zz equ 1+2+3+4\nbase equ %s\n", base)
			for j := 0; j < k; j++ {
				fmt.Fprintf(&sb, "v%d equ base+%d\n", j, j+1)
			}
			for j := 0; j+1 < k; j++ {
				fmt.Fprintf(&sb, "dat #v%d, #v%d\n", j, j+1)
			}
			fmt.Fprintf(&sb, "dat #v%d, #v0\n", k-1)
			texts = append(texts, []byte(sb.String()))
			manyRepeats[len(texts)-1] = true
		}
	}
	for i, t := range texts {
		t, cfg := t, cfgs[i%len(cfgs)]
		jobs = append(jobs, concJob{fmt.Sprintf("asm%d", i), func() string {
			w, err := gmars.CompileWarrior(bytes.NewReader(t), cfg)
			if err != nil {
				return "err" // error texts may legitimately depend on map order: category only
			}
			return wresult(w, nil, "")
		}})
	}
	// predefined constants under configurations that differ in exactly one field, assembled one
	// after the other in one process: the expected warrior is known by construction
	{
		base := gmars.NewQuickConfig(gmars.ICWS94, 8000, 8000, 80000, 100)
		variants := []gmars.SimulatorConfig{base}
		for _, d := range []uint64{0, 1, 300, 101} {
			v := base
			v.Distance = gmars.Address(d)
			variants = append(variants, v)
		}
		for _, l := range []uint64{0, 1, 99, 200} {
			v := base
			v.Length = gmars.Address(l)
			variants = append(variants, v)
		}
		for _, pr := range []uint64{1, 7999, 8001} {
			v := base
			v.Processes = gmars.Address(pr)
			variants = append(variants, v)
		}
		for _, cs := range []uint64{8001, 7999, 400} {
			v := base
			v.CoreSize, v.ReadLimit, v.WriteLimit = gmars.Address(cs), gmars.Address(cs), gmars.Address(cs)
			variants = append(variants, v)
		}
		v88 := base
		v88.Mode = gmars.ICWS88
		variants = append(variants, v88, base)
		src := []byte("dat #CORESIZE-1, #MAXLENGTH\ndat #MAXPROCESSES, #MINDISTANCE\n")
		for i, cfg := range variants {
			cfg := cfg
			if cfg.Length < 2 {
				continue
			}
			m := uint64(cfg.CoreSize)
			want := gmars.WarriorData{Code: []gmars.Instruction{
				{Op: gmars.DAT, OpMode: gmars.F, AMode: gmars.IMMEDIATE, A: gmars.Address(m - 1), BMode: gmars.IMMEDIATE, B: gmars.Address(uint64(cfg.Length) % m)},
				{Op: gmars.DAT, OpMode: gmars.F, AMode: gmars.IMMEDIATE, A: gmars.Address(uint64(cfg.Processes) % m), BMode: gmars.IMMEDIATE, B: gmars.Address(uint64(cfg.Distance) % m)},
			}}
			wantS := wresult(want, nil, "")
			jobs = append(jobs, concJob{fmt.Sprintf("const%d", i), func() string {
				w, err := gmars.CompileWarrior(bytes.NewReader(src), cfg)
				if err != nil {
					return "err"
				}
				return wresult(w, nil, "")
			}})
			constWant = append(constWant, wantS)
			constIdx = append(constIdx, len(jobs)-1)
		}
	}
	// battle jobs sharing WarriorData and configuration values
	var shared []*gmars.WarriorData
	for _, t := range corpus {
		if w, err := gmars.CompileWarrior(bytes.NewReader(t), gmars.ConfigNOP94); err == nil && len(w.Code) > 0 {
			wc := w
			shared = append(shared, &wc)
		}
	}
	for len(shared) < 4 {
		w := genWarrior(rng, 8000, 10)
		shared = append(shared, &w)
	}
	bcfg := gmars.ConfigNOP94
	bcfg.Cycles = 3000
	for i := 0; i < 12; i++ {
		a, b := shared[rng.Intn(len(shared))], shared[rng.Intn(len(shared))]
		off := uint64(200 + rng.Intn(7000))
		jobs = append(jobs, concJob{fmt.Sprintf("battle%d", i), func() string {
			return battleResult(bcfg, []*gmars.WarriorData{a, b}, []uint64{0, off})
		}})
	}
	// load-file jobs
	for i := 0; i < 6; i++ {
		cfg := textConfig(rng, i%2 == 0)
		forms := allForms(i%2 == 0)
		nx := rng.Intn(len(forms))
		w := genLoadWarrior(rng, cfg, forms, &nx)
		text := printLoad(rng, cfg, w, true)
		jobs = append(jobs, concJob{fmt.Sprintf("load%d", i), func() string { return runLoad(cfg, text) }})
	}

	n := 0
	seq := make([]string, len(jobs))
	for i, j := range jobs {
		seq[i] = j.run()
	}
	// results known by construction (an earlier job in the same process must not change them)
	for k, ji := range constIdx {
		fmt.Fprintf(out, "Y y%d history %s | %s ## %s\n", n, jobs[ji].desc, sha(constWant[k]), sha(seq[ji]))
		n++
	}
	// repeatability (Go map iteration order differs from run to run)
	for i, j := range jobs {
		same := seq[i]
		reps := 14
		if strings.HasPrefix(j.desc, "asm") {
			var ti int
			fmt.Sscanf(j.desc, "asm%d", &ti)
			if manyRepeats[ti] {
				reps = 60
			}
		}
		for k := 0; k < reps; k++ {
			if r := j.run(); r != seq[i] {
				same = r
				break
			}
		}
		fmt.Fprintf(out, "Y y%d repeat %s | %s ## %s\n", n, j.desc, sha(seq[i]), sha(same))
		n++
	}
	// concurrent use
	for r := 0; r < rounds; r++ {
		for _, g := range []int{1, 2, 4, 8, 16, 32} {
			res := make([]string, len(jobs))
			var wg sync.WaitGroup
			ch := make(chan int)
			for w := 0; w < g; w++ {
				wg.Add(1)
				go func() {
					defer wg.Done()
					for i := range ch {
						res[i] = jobs[i].run()
					}
				}()
			}
			order := rng.Perm(len(jobs))
			for _, i := range order {
				ch <- i
			}
			close(ch)
			wg.Wait()
			for i := range jobs {
				fmt.Fprintf(out, "Y y%d conc%d %s | %s ## %s\n", n, g, jobs[i].desc, sha(seq[i]), sha(res[i]))
				n++
			}
		}
	}
	// copy isolation: later changes to the caller's data never show in the simulator, and the
	// battle never writes into the caller's data
	for i := 0; i < 40; i++ {
		m := uint64(40 + rng.Intn(60))
		cfg := gmars.NewQuickConfig(gmars.ICWS94, gmars.Address(m), 8, 200, 10)
		w := genWarrior(rng, m, 8)
		orig := w.Copy()
		ref := battleResult(cfg, []*gmars.WarriorData{orig.Copy()}, []uint64{3})
		sim, _ := gmars.NewSimulator(cfg)
		sim.AddWarrior(&w)
		// mutate the caller's data after AddWarrior
		for k := range w.Code {
			w.Code[k] = gmars.Instruction{Op: gmars.DAT}
		}
		w.Start = 0
		w.Name = "changed"
		sim.SpawnWarrior(0, 3)
		res := sim.Run()
		got := fmt.Sprintf("%v c=%d core=%s q0=%v", res, sim.CycleCount(), coreDigest(sim), sim.GetWarrior(0).Queue())
		fmt.Fprintf(out, "Y y%d alias mutate-after-add | %s ## %s\n", n, sha(ref), sha(got))
		n++
		// ... and not after a Reset either: the battle is replayed from the warrior as it was added
		sim.Reset()
		sim.SpawnWarrior(0, 3)
		res = sim.Run()
		got = fmt.Sprintf("%v c=%d core=%s q0=%v", res, sim.CycleCount(), coreDigest(sim), sim.GetWarrior(0).Queue())
		fmt.Fprintf(out, "Y y%d alias mutate-after-add-then-reset | %s ## %s\n", n, sha(ref), sha(got))
		n++
		// one variable reused for two AddWarrior calls on one simulator, changed in between
		{
			wa, wb := genWarrior(rng, m, 6), genWarrior(rng, m, 6)
			for len(wb.Code) < len(wa.Code) {
				wb.Code = append(wb.Code, wb.Code[0])
			}
			wb.Code = wb.Code[:len(wa.Code)]
			wb.Start, wb.Name, wb.Author = wa.Start, wa.Name, wa.Author
			refAB := battleResult(cfg, []*gmars.WarriorData{wa.Copy(), wb.Copy()}, []uint64{3, uint64(m / 2)})
			sim2, _ := gmars.NewSimulator(cfg)
			sharedW := *wa.Copy()
			sim2.AddWarrior(&sharedW)
			if i%2 == 0 {
				copy(sharedW.Code, wb.Code)
			} else {
				sharedW = *wb.Copy()
			}
			sim2.AddWarrior(&sharedW)
			sim2.SpawnWarrior(0, 3)
			sim2.SpawnWarrior(1, gmars.Address(m/2))
			res2 := sim2.Run()
			got2 := fmt.Sprintf("%v c=%d core=%s q0=%v q1=%v", res2, sim2.CycleCount(), coreDigest(sim2), sim2.GetWarrior(0).Queue(), sim2.GetWarrior(1).Queue())
			fmt.Fprintf(out, "Y y%d alias one-variable-two-adds | %s ## %s\n", n, sha(refAB), sha(got2))
			n++
		}
		// one variable, two adds, only the name and author changed in between
		{
			sim3, _ := gmars.NewSimulator(cfg)
			v := *orig.Copy()
			v.Name, v.Author = "first", "A"
			h1, _ := sim3.AddWarrior(&v)
			v.Name, v.Author = "second", "B"
			h2, _ := sim3.AddWarrior(&v)
			v.Name, v.Author = "third", "C"
			got3 := fmt.Sprintf("%s/%s %s/%s %s/%s", h1.Name(), h1.Author(), h2.Name(), h2.Author(), sim3.GetWarrior(1).Name(), sim3.GetWarrior(0).Name())
			fmt.Fprintf(out, "Y y%d alias names-of-two-adds | %s ## %s\n", n, sha("first/A second/B second/first"), sha(got3))
			n++
		}
		// the other direction
		w2 := orig.Copy()
		before := cellsStr(w2.Code)
		battleResult(cfg, []*gmars.WarriorData{w2, w2}, []uint64{0, uint64(m / 2)})
		fmt.Fprintf(out, "Y y%d alias battle-writes-caller | %s ## %s\n", n, sha(before), sha(cellsStr(w2.Code)))
		n++
	}
	out.Flush()
	// race detector reports (GORACE log_path=… exitcode=0)
	if lp := os.Getenv("VERIF_RACELOG"); lp != "" {
		ms, _ := filepath.Glob(lp + "*")
		for _, mfile := range ms {
			b, _ := os.ReadFile(mfile)
			if len(b) > 600 {
				b = b[:600]
			}
			fmt.Fprintf(out, "Y y%d race detector | ok ## %s\n", n, hex.EncodeToString(b))
			n++
		}
	}
	return n
}
