package main

// genDebug: the debug reporter (reporter.go). A report of every type, for any warrior index and
// any address inside the core, is handed to NewDebugReporter(sim).Report while os.Stdout is a
// pipe; the model prints the same line from the report, CycleCount(), CoreSize() and the cell at
// that address (C15: what a listener is told is what happened).

import (
	"bufio"
	"fmt"
	"io"
	"math/rand"
	"os"
	"time"

	"github.com/bobertlo/gmars"
)

func captureStdout(f func()) string {
	old := os.Stdout
	r, w, err := os.Pipe()
	if err != nil {
		return ""
	}
	os.Stdout = w
	done := make(chan []byte, 1)
	go func() { b, _ := io.ReadAll(r); done <- b }()
	func() {
		defer func() { os.Stdout = old; w.Close() }()
		f()
	}()
	b := <-done
	r.Close()
	return string(b)
}

func genDebug(out *bufio.Writer, rng *rand.Rand, count int) int {
	n := 0
	forms := allForms(false)
	for k := 0; k < count; k++ {
		m := uint64(8 + rng.Intn(60))
		switch rng.Intn(8) {
		case 0:
			m = 8000
		case 1:
			m = 20000 + uint64(rng.Intn(100000))
		}
		cfg := gmars.NewQuickConfig(gmars.ICWS94, gmars.Address(m), 8, 1000, 1)
		code := []gmars.Instruction{{Op: gmars.JMP, OpMode: gmars.B, AMode: gmars.DIRECT, BMode: gmars.DIRECT}}
		for len(code) < 8 {
			f := forms[rng.Intn(len(forms))]
			f.A, f.B = listingField(rng, m), listingField(rng, m)
			code = append(code, f)
		}
		w := gmars.WarriorData{Name: "d", Author: "d", Code: code}
		cycles := rng.Intn(4)
		if rng.Intn(3) == 0 {
			cycles = rng.Intn(1000)
		}
		offset := gmars.Address(rng.Uint64() % m)
		typ := rng.Intn(12)
		wi := rng.Intn(3)
		switch rng.Intn(10) {
		case 0:
			wi = 9 + rng.Intn(200)
		case 1:
			wi = -rng.Intn(120)
		}
		addr := (uint64(offset) + uint64(rng.Intn(10))) % m
		if rng.Intn(3) == 0 {
			addr = rng.Uint64() % m
		}
		resp, cell, cc := "", "-", 0
		f := guarded(10*time.Second, func() {
			sim, err := gmars.NewReportingSimulator(cfg)
			if err != nil {
				resp = "err"
				return
			}
			sim.AddWarrior(&w)
			sim.SpawnWarrior(0, offset)
			for i := 0; i < cycles; i++ {
				sim.RunCycle()
			}
			cc = sim.CycleCount()
			cell = cellsd([]gmars.Instruction{sim.GetMem(gmars.Address(addr))})
			rep := gmars.NewDebugReporter(sim)
			resp = hexd([]byte(captureStdout(func() {
				rep.Report(gmars.Report{Type: gmars.ReportType(typ), Cycle: cycles, WarriorIndex: wi, Address: gmars.Address(addr)})
			})))
		})
		if f != "" {
			resp = f
		}
		fmt.Fprintf(out, "KD d%d debug %d %d %d %d %d %s | %s\n", n, m, cc, typ, wi, addr, cell, resp)
		n++
	}
	// a whole short battle with the debug reporter attached: the text is the concatenation of the
	// lines of the reports in order (cells read at the time of the report are not replayed here;
	// only the line count and the first line are compared)
	return n
}
