package main

// soup: arbitrary inputs for C05 / C06 (valid programs, mutations, token soup,
// invalid UTF-8, NUL and ^Z bytes, CR/LF variants, unterminated last lines).

import (
	"bufio"
	"fmt"
	"math/rand"
	"os"
	"path/filepath"
	"strings"

	"github.com/bobertlo/gmars"
)

func corpusFiles() [][]byte {
	root := os.Getenv("VERIF_REPO")
	if root == "" {
		root = "/repo"
	}
	var out [][]byte
	for _, pat := range []string{"warriors/*/*", "warriors/*", "test_files/*"} {
		ms, _ := filepath.Glob(filepath.Join(root, pat))
		for _, m := range ms {
			if st, err := os.Stat(m); err == nil && !st.IsDir() {
				if b, err := os.ReadFile(m); err == nil {
					out = append(out, b)
				}
			}
		}
	}
	return out
}

var soupWords = []string{"mov", "add", "dat", "jmp", "spl", "djn", "equ", "org", "end", "for", "rof", "x", "y", "i", "loop",
	"CORESIZE", "mov.i", "add.ab", "seq.x", "nop", "a1", "_b", "start", "imp", "1", "2", "0", "10", "007", "99999999999",
	"+", "-", "*", "/", "%", "(", ")", ",", ":", "$", "#", "@", "{", "}", "<", ">", "<=", ">=", "==", "&&", "||", "=", "&", "|", "!",
	";c", ";assert", ";assert 1", ";assert x", ";name n", ";strategy s", "\n", "\n", "\n", "\r\n", " ", "\t", ".", "\x00", "\x1a", "\xff", "\xc3\x28", "é", "İ",
	"٣", "٤٥", "１２", "߃", "०", "x٣", "٣x", "\u00a0", "\u2003", "\u0085", "\u3000", "ǅ", "λ", "K", "ſ", "mov.İ", "dat ٣", "１ equ ２"}

func soupText(rng *rand.Rand) []byte {
	var sb strings.Builder
	n := rng.Intn(40)
	for i := 0; i < n; i++ {
		sb.WriteString(soupWords[rng.Intn(len(soupWords))])
		if rng.Intn(3) != 0 {
			sb.WriteString(" ")
		}
	}
	return []byte(sb.String())
}

// structured nuisance programs: EQU cycles with asserts, failing FOR blocks, empty values
func nastyProgram(rng *rand.Rand) []byte {
	parts := [][]string{
		{"x equ x+1\n", "x equ y\ny equ x\n", "x equ ;c\n", "x equ 1\n", "a equ b+b\nb equ c+c\nc equ 3\n", ""},
		{";assert x\n", ";assert x == 1\n", ";assert 1\n", ";assert\n", ";assert 1/0\n", ""},
		{"i for x\ndat i\nrof\n", "i for 2\ndat i\nrof", "i for 2\ndat i\n", "rof\n", "i for 1/0\nrof\n", "lbl i for 3\nmov i, lbl\nrof\n", "i for 2\nj for i\ndat i, j\nrof\nrof\n", ""},
		{"dat x\n", "mov 0, 1\n", "jmp x, <y\n", "dat 1 2\n", "dat (1\n", "mov.İ 0, 1\n", "mov 0, 1 extra\n", ""},
		{"end\n", "end x\n", "org 5\n", "end\nnonsense ! ! !\n", ""},
	}
	var sb strings.Builder
	for _, p := range parts {
		sb.WriteString(p[rng.Intn(len(p))])
	}
	s := sb.String()
	if rng.Intn(3) == 0 && len(s) > 0 {
		s = s[:rng.Intn(len(s)+1)]
	}
	return []byte(s)
}

// poolProgram: programs assembled from whole lines drawn by category — EQU lines (empty values,
// references to them, cycles of length one to three, chains), then a FOR line with or without a
// counter, body lines, ROF, closing lines; any category may be missing or come twice
var equPool = []string{"e equ", "e2 equ", "b equ e", "c equ e+e2", "d equ b", "a equ a+1", "p equ q", "q equ p", "r equ s", "s equ t", "t equ r+1",
	"k equ 2", "m equ k*k", "e equ 1", "z equ"}
var forPool = []string{"for 1", "i for 2", "j for k", "n for e", "lbl i for 1", "i for a", "i for b", "for", "i for 0-1", "pad for k-3", "i for 0-k", "for -2", "a: i for 2"}
var bodyPool = []string{"dat 0", "dat a", "dat b", "dat e", "dat i", "mov m, k", "jmp lbl", "x", "x:", "dat d, z"}
var closePool = []string{"rof", "rof", "rof", "", "end", "end a", ";assert a", ";assert b", ";assert k == 2", "org b", "rof rof",
	";assert k == 2 ; note", ";assert 1 ; x", ";strategy", ";strategy ", ";name", ";author", ";redcode", ";assert", ";assert 1,2", ";assert !"}

func poolProgram(rng *rand.Rand) []byte {
	var ls []string
	pick := func(pool []string, lo, hi int) {
		for k := lo + rng.Intn(hi-lo+1); k > 0; k-- {
			ls = append(ls, pool[rng.Intn(len(pool))])
		}
	}
	pick(equPool, 0, 5)
	if rng.Intn(4) == 0 {
		pick(bodyPool, 0, 2)
	}
	for blocks := rng.Intn(3); blocks > 0; blocks-- {
		pick(forPool, 1, 1)
		pick(bodyPool, 0, 2)
		if rng.Intn(4) == 0 {
			pick(equPool, 1, 1)
		}
		pick(closePool, 1, 1)
	}
	pick(bodyPool, 0, 2)
	pick(closePool, 0, 2)
	s := strings.Join(ls, "\n") + "\n"
	if rng.Intn(6) == 0 {
		s = strings.TrimSuffix(s, "\n")
	}
	return []byte(s)
}

// spoiled: a well-formed program with FOR blocks into which ONE token the lexer or a state
// machine does not expect at that place is inserted, at the end of a line, at its start, or
// between two of its words (`rof = 1`, `i for 2 !`, `= dat 0`, a stray `rof`, `for`, `,`)
func spoiled(rng *rand.Rand, legacy bool) []byte {
	items, _ := genForProgram(rng, legacy)
	text := string(render(rng, items, rng.Intn(2) == 0))
	ls := strings.Split(text, "\n")
	// no digits: a number glued to a count (`equ 1 1 2` is 112) makes the expansion itself huge
	junk := []string{"=", "= x", "|", "&", "!", "~", "\"", "\x00", "\x1a", ",", ":", ";", "rof", "for", "for k", "equ", "end", "(", ")", "==", "x y", "é", "\xff"}
	k := 1
	if rng.Intn(5) == 0 {
		k = 2
	}
	for ; k > 0; k-- {
		i := rng.Intn(len(ls))
		j := junk[rng.Intn(len(junk))]
		switch rng.Intn(4) {
		case 0, 1:
			ls[i] = ls[i] + " " + j
		case 2:
			ls[i] = j + " " + ls[i]
		default:
			ws := strings.Fields(ls[i])
			if len(ws) > 1 {
				p := 1 + rng.Intn(len(ws)-1)
				ls[i] = strings.Join(ws[:p], " ") + " " + j + " " + strings.Join(ws[p:], " ")
			} else {
				ls[i] = ls[i] + j
			}
		}
	}
	return []byte(strings.Join(ls, "\n"))
}

func mutate(rng *rand.Rand, b []byte) []byte {
	b = append([]byte{}, b...)
	k := 1 + rng.Intn(4)
	for j := 0; j < k && len(b) > 0; j++ {
		i := rng.Intn(len(b))
		switch rng.Intn(7) {
		case 0:
			b[i] = byte(rng.Intn(256))
		case 1:
			b = append(b[:i], b[i+1:]...)
		case 2:
			w := soupWords[rng.Intn(len(soupWords))]
			b = append(b[:i], append([]byte(w), b[i:]...)...)
		case 3:
			b = b[:i]
		case 4: // swap two lines
			ls := strings.Split(string(b), "\n")
			if len(ls) > 2 {
				x, y := rng.Intn(len(ls)), rng.Intn(len(ls))
				ls[x], ls[y] = ls[y], ls[x]
				b = []byte(strings.Join(ls, "\n"))
			}
		case 5: // duplicate a line
			ls := strings.Split(string(b), "\n")
			x := rng.Intn(len(ls))
			ls = append(ls[:x+1], ls[x:]...)
			b = []byte(strings.Join(ls, "\n"))
		case 6:
			b = []byte(strings.ReplaceAll(string(b), "\n", "\r\n"))
		}
	}
	return b
}

func genSoup(out *bufio.Writer, rng *rand.Rand, count int) int {
	corpus := corpusFiles()
	n := 0
	emit := func(cfg gmars.SimulatorConfig, text []byte) {
		emitAsm(out, fmt.Sprintf("u%d", n), "soup", cfg, text, "-", nil)
		n++
	}
	// the smallest inputs: nothing, every single byte, byte order marks, lone keywords
	{
		tiny := [][]byte{{}, {0xef, 0xbb, 0xbf}, {0xef, 0xbb, 0xbf, '\n'}, {0xef, 0xbb}, {0xff, 0xfe}, []byte(";"), []byte(";name"), []byte(";strategy"), []byte(";assert"),
			[]byte("\r"), []byte("\r\n"), []byte(","), []byte("end"), []byte("org"), []byte("for"), []byte("rof"), []byte("equ"), []byte("x"), []byte("x:"), []byte("\xef\xbb\xbfmov 0, 1\n")}
		for b := 0; b < 256; b++ {
			tiny = append(tiny, []byte{byte(b)})
		}
		for _, t := range tiny {
			emit(gmars.ConfigNOP94, t)
			emit(gmars.ConfigKOTH88, t)
		}
	}
	// the corpus itself under every preset of its dialect family
	for _, f := range corpus {
		for _, cfg := range []gmars.SimulatorConfig{gmars.ConfigNOP94, gmars.ConfigKOTH88, gmars.ConfigICWS88, gmars.ConfigNopNano} {
			emit(cfg, f)
		}
	}
	// big inputs: many lines after a FOR block, long comment blocks (tie skipped by the driver above
	// its size limit, the C05 / C06 predicates are still decided)
	for i := 0; i < 2+count/6000; i++ {
		var sb strings.Builder
		lines := 60000 + rng.Intn(40000)
		sb.WriteString("i for 2\n")
		switch i % 3 {
		case 0:
			for k := 0; k < lines; k++ {
				sb.WriteString("; c\n")
			}
			sb.WriteString("rof\nmov 0, 1\n")
		case 1:
			sb.WriteString("dat i\nrof\n")
			for k := 0; k < lines; k++ {
				sb.WriteString("; c\n")
			}
			sb.WriteString("mov 0, 1\n")
		default:
			sb.WriteString("dat i\nrof\n")
			for k := 0; k < lines/4; k++ {
				sb.WriteString("x" + fmt.Sprint(k) + " equ 1 + 2 * 3 ; c\n")
			}
			sb.WriteString("mov 0, 1\n")
		}
		cfg := gmars.ConfigNOP94
		emit(cfg, []byte(sb.String()))
	}
	for n < count {
		cfg := asmConfig(rng, rng.Intn(3) == 0, false)
		switch r := rng.Intn(14); {
		case r >= 12:
			emit(cfg, poolProgram(rng))
		case r >= 10:
			emit(cfg, spoiled(rng, cfg.Mode == gmars.ICWS88))
		case r < 3 && len(corpus) > 0:
			emit(cfg, mutate(rng, corpus[rng.Intn(len(corpus))]))
		case r < 5:
			emit(cfg, soupText(rng))
		case r < 8:
			emit(cfg, nastyProgram(rng))
		case r < 9:
			b := make([]byte, rng.Intn(30))
			rng.Read(b)
			emit(cfg, b)
		default:
			items := genProgram(rng, cfg, progOpts{legacy: cfg.Mode == gmars.ICWS88, maxInstr: 8})
			emit(cfg, mutate(rng, render(rng, items, false)))
		}
	}
	return n
}
