package main

// Generators and executors for the text domains: load (C09), loadbad (C10),
// listing (C16).

import (
	"bufio"
	"bytes"
	"encoding/hex"
	"fmt"
	"io"
	"math/rand"
	"strings"
	"sync"
	"time"

	"github.com/bobertlo/gmars"
)

// hexd encodes bytes as hex, "-" for the empty string (keeps the line tokenisable)
func hexd(b []byte) string {
	if len(b) == 0 {
		return "-"
	}
	return hex.EncodeToString(b)
}

func cellsd(code []gmars.Instruction) string {
	if len(code) == 0 {
		return "-"
	}
	return cellsStr(code)
}

func cfgFields(c gmars.SimulatorConfig) string {
	return fmt.Sprintf("%d %d %d %d %d %d %d %d", c.Mode, c.CoreSize, c.Processes, c.Cycles, c.ReadLimit, c.WriteLimit, c.Length, c.Distance)
}

func wresult(w gmars.WarriorData, err error, failure string) string {
	if failure != "" {
		return failure
	}
	if err != nil {
		return "err"
	}
	nilc := 0
	if w.Code == nil {
		nilc = 1
	}
	return fmt.Sprintf("ok start=%d name=%s author=%s strat=%s code=%s nil=%d", w.Start, hex.EncodeToString([]byte(w.Name)),
		hex.EncodeToString([]byte(w.Author)), hex.EncodeToString([]byte(w.Strategy)), cellsStr(w.Code), nilc)
}

// chunkReader returns at most n bytes per Read (a pipe, a network body, a MultiReader)
type chunkReader struct {
	r io.Reader
	n int
}

func (c *chunkReader) Read(p []byte) (int, error) {
	if len(p) > c.n {
		p = p[:c.n]
	}
	return c.r.Read(p)
}

// readerFor chooses, by the content of the text, how the text reaches the code: a plain
// in-memory reader, a reader that delivers a few bytes at a time, or a seekable reader of which a
// header line has already been consumed (the text starts at the reader's CURRENT position)
func readerFor(text []byte) io.Reader {
	h := uint32(2166136261)
	for _, b := range text {
		h = (h ^ uint32(b)) * 16777619
	}
	switch h % 7 {
	case 1:
		return &chunkReader{bytes.NewReader(text), 1 + int(h>>8)%13}
	case 2:
		return &chunkReader{bytes.NewReader(text), 4095}
	case 3:
		hdr := []byte("X-header: consumed by the caller\n")
		r := bytes.NewReader(append(append([]byte{}, hdr...), text...))
		io.CopyN(io.Discard, r, int64(len(hdr)))
		return r
	}
	return bytes.NewReader(text)
}

// keptLoads: results of earlier ParseLoadFile calls and what they looked like when they were
// returned — a result belongs to the caller and must not change when other files are read
var keptLoads []gmars.WarriorData
var keptLoadStrs []string
var keptLoadChanged string
var keptLoadMu sync.Mutex // runLoad is also called from the concurrent jobs of the conc domain

func runLoad(cfg gmars.SimulatorConfig, text []byte) string {
	var w gmars.WarriorData
	var err error
	f := guarded(10*time.Second, func() { w, err = gmars.ParseLoadFile(readerFor(text), cfg) })
	res := wresult(w, err, f)
	keptLoadMu.Lock()
	defer keptLoadMu.Unlock()
	if keptLoadChanged == "" {
		for i := range keptLoads {
			if now := wresult(keptLoads[i], nil, ""); now != keptLoadStrs[i] {
				keptLoadChanged = "was " + keptLoadStrs[i] + " now " + now
			}
		}
	}
	if err == nil && f == "" && len(w.Code) > 0 && len(w.Code) <= 100 {
		if len(keptLoads) < 4 {
			keptLoads, keptLoadStrs = append(keptLoads, w), append(keptLoadStrs, res)
		} else if len(text)%9 == 0 {
			k := len(text) % 4
			keptLoads[k], keptLoadStrs[k] = w, res
		}
	}
	return res
}

func runAsm(cfg gmars.SimulatorConfig, text []byte) string {
	var w gmars.WarriorData
	var err error
	f := guarded(10*time.Second, func() { w, err = gmars.CompileWarrior(bytes.NewReader(text), cfg) })
	return wresult(w, err, f)
}

var presetsText = []gmars.SimulatorConfig{gmars.ConfigNOP94, gmars.ConfigKOTH88, gmars.ConfigICWS88, gmars.ConfigNopNano, gmars.ConfigNop256, gmars.ConfigNopTiny}

// hugeLines: how many lines of more than a mebibyte the load generators may still emit in this run
var hugeLines = 3

// bigCores is set by the listing generator
var bigCores bool

func textConfig(rng *rand.Rand, legacy bool) gmars.SimulatorConfig {
	var c gmars.SimulatorConfig
	for {
		c = presetsText[rng.Intn(len(presetsText))]
		if bigCores && rng.Intn(12) == 0 {
			// listings only: a simulator of that size is allocated (40 bytes per cell)
			m := []uint64{200001, 400000, 1000003, 1 << 20}[rng.Intn(4)]
			c = gmars.NewQuickConfig(gmars.ICWS94, gmars.Address(m), 8, 100, 50)
		}
		if rng.Intn(3) == 0 {
			m := uint64(20 + rng.Intn(300))
			c = gmars.NewQuickConfig(gmars.ICWS94, gmars.Address(m), 8, 100, gmars.Address(1+rng.Intn(int(m/3))))
		}
		if legacy {
			c.Mode = gmars.ICWS88
		} else if c.Mode == gmars.ICWS88 {
			c.Mode = gmars.ICWS94
		}
		if rng.Intn(50) == 0 && !bigCores {
			// readers and assembler allocate no process queue: any process limit is a valid one
			c.Processes = gmars.Address([]uint64{1 << 31, 1<<31 + 5, 1 << 40, 1<<31 - 1}[rng.Intn(4)])
		}
		return c
	}
}

var modes88 = []gmars.AddressMode{gmars.IMMEDIATE, gmars.DIRECT, gmars.B_INDIRECT, gmars.B_DECREMENT}
var ops88 = []gmars.OpCode{gmars.DAT, gmars.MOV, gmars.ADD, gmars.SUB, gmars.JMP, gmars.JMZ, gmars.JMN, gmars.DJN, gmars.CMP, gmars.SLT, gmars.SPL}

// legal88 is the harness's own copy of the '88 table (implied modifier, ok)
func legal88(op gmars.OpCode, am, bm gmars.AddressMode) (gmars.OpMode, bool) {
	imm := gmars.IMMEDIATE
	switch op {
	case gmars.DAT:
		if (am == imm || am == gmars.B_DECREMENT) && (bm == imm || bm == gmars.B_DECREMENT) {
			return gmars.F, true
		}
	case gmars.MOV, gmars.CMP:
		if bm != imm {
			if am == imm {
				return gmars.AB, true
			}
			return gmars.I, true
		}
	case gmars.ADD, gmars.SUB:
		if bm != imm {
			if am == imm {
				return gmars.AB, true
			}
			return gmars.F, true
		}
	case gmars.JMP, gmars.JMZ, gmars.JMN, gmars.DJN, gmars.SPL:
		if am != imm {
			return gmars.B, true
		}
	case gmars.SLT:
		if am == imm {
			return gmars.AB, true
		}
		return gmars.B, true
	}
	return 0, false
}

// all legal forms of a dialect (fields filled later)
func allForms(legacy bool) []gmars.Instruction {
	var out []gmars.Instruction
	if legacy {
		for _, op := range ops88 {
			for _, am := range modes88 {
				for _, bm := range modes88 {
					if md, ok := legal88(op, am, bm); ok {
						out = append(out, gmars.Instruction{Op: op, OpMode: md, AMode: am, BMode: bm})
					}
				}
			}
		}
		return out
	}
	for op := 0; op < 17; op++ {
		for md := 0; md < 7; md++ {
			for am := 0; am < 8; am++ {
				for bm := 0; bm < 8; bm++ {
					out = append(out, gmars.Instruction{Op: gmars.OpCode(op), OpMode: gmars.OpMode(md), AMode: gmars.AddressMode(am), BMode: gmars.AddressMode(bm)})
				}
			}
		}
	}
	return out
}

func listingField(rng *rand.Rand, m uint64) gmars.Address {
	c := []uint64{0, 1, m / 2, m/2 + 1, m - 1, m/2 - 1}
	if rng.Intn(2) == 0 {
		return gmars.Address(c[rng.Intn(len(c))] % m)
	}
	return gmars.Address(uint64(rng.Int63n(int64(m))))
}

func randCase(rng *rand.Rand, s string) string {
	switch rng.Intn(3) {
	case 0:
		return strings.ToUpper(s)
	case 1:
		return strings.ToLower(s)
	}
	b := []byte(strings.ToLower(s))
	for i := range b {
		if rng.Intn(2) == 0 && b[i] >= 'a' && b[i] <= 'z' {
			b[i] -= 32
		}
	}
	return string(b)
}

func blanks(rng *rand.Rand, min int) string {
	n := min + rng.Intn(3)
	if rng.Intn(4) != 0 {
		n = min
	}
	b := make([]byte, n)
	for i := range b {
		if rng.Intn(4) == 0 {
			b[i] = '\t'
		} else {
			b[i] = ' '
		}
	}
	return string(b)
}

// fieldStr writes a field as any number congruent to it modulo the core size: v itself, v-M
// (also for v = 0: "-8000"), further multiples below and above, kept inside the 32-bit range the
// assembler accepts
func fieldStr(rng *rand.Rand, v, m uint64, signed bool) string {
	if signed && rng.Intn(2) == 0 {
		j := int64([]int{-1, -1, -1, -2, -3, 1, 2}[rng.Intn(7)])
		x := int64(v) + j*int64(m)
		if m < 1<<30 && x > -(1<<31) && x < 1<<31 {
			return fmt.Sprintf("%d", x)
		}
		if v != 0 {
			return fmt.Sprintf("-%d", m-v)
		}
	}
	return fmt.Sprintf("%d", v)
}

// printLoad renders w in the canonical load-file layout with layout-only perturbations
func printLoad(rng *rand.Rand, cfg gmars.SimulatorConfig, w gmars.WarriorData, perturb bool) []byte {
	legacy := cfg.Mode == gmars.ICWS88
	m := uint64(cfg.CoreSize)
	nl := "\n"
	if perturb && rng.Intn(3) == 0 {
		nl = "\r\n"
	}
	p := func(min int) string {
		if perturb {
			return blanks(rng, min)
		}
		return strings.Repeat(" ", min)
	}
	cs := func(s string) string {
		if perturb {
			return randCase(rng, s)
		}
		return s
	}
	var lines []string
	noise := func() {
		if !perturb {
			return
		}
		for rng.Intn(4) == 0 {
			switch rng.Intn(5) {
			case 0:
				lines = append(lines, "")
			case 1:
				lines = append(lines, p(1))
			case 2:
				lines = append(lines, "; a comment, with a comma; and more")
			case 3:
				lines = append(lines, p(1)+[]string{";indented comment", ";; banner ;;", "; a, b ; c, d ; e"}[rng.Intn(3)])
			case 4:
				lines = append(lines, ";redcode")
			}
			if hugeLines > 0 && rng.Intn(150) == 0 {
				// a physical line longer than a mebibyte (any fixed reader buffer): a comment, or
				// blanks in front of a comment
				hugeLines--
				n := 1<<20 + 1 + rng.Intn(1<<20)
				if rng.Intn(2) == 0 {
					lines = append(lines, "; "+strings.Repeat("x", n))
				} else {
					lines = append(lines, strings.Repeat(" ", n)+"; c")
				}
			}
			if rng.Intn(40) == 0 {
				// a physical line longer than bufio's 4096-byte buffer
				lines = append(lines, p(rng.Intn(2))+"; "+strings.Repeat("long comment, with commas; ", 150+rng.Intn(150)))
			}
		}
	}
	if perturb && rng.Intn(2) == 0 {
		lines = append(lines, ";name "+[]string{"Imp", "two words", "x"}[rng.Intn(3)])
		if rng.Intn(2) == 0 {
			lines = append(lines, ";author A. Nonymous")
		}
		if rng.Intn(2) == 0 {
			lines = append(lines, []string{";strategy bomb, then run", ";strategy", ";strategyX", ";strategy x", ";strategy  indented", ";STRATEGY shout", ";strategy\tx"}[rng.Intn(7)])
			if rng.Intn(3) == 0 {
				lines = append(lines, ";strategy second line")
			}
		}
	}
	noise()
	// the entry-point directive may be left out when the entry point is the first instruction
	// (the default of both readers and of the assembler)
	omit := perturb && w.Start == 0 && rng.Intn(3) == 0
	if !legacy && !omit {
		lines = append(lines, p(0)+cs("ORG")+p(1)+fmt.Sprint(w.Start)+p(0))
	}
	for _, in := range w.Code {
		noise()
		op := in.Op.String()
		if !legacy {
			op += "." + in.OpMode.String()
		}
		l := p(0) + cs(op) + p(1) + in.AMode.String() + p(1) + fieldStr(rng, uint64(in.A), m, perturb) + p(0) + "," + p(1) +
			in.BMode.String() + p(1) + fieldStr(rng, uint64(in.B), m, perturb) + p(0)
		if perturb && rng.Intn(6) == 0 {
			l += p(1) + []string{"; trailing", ";a;b", "; x, y ; z"}[rng.Intn(3)]
		}
		if perturb && rng.Intn(150) == 0 {
			l += p(1) + ";" + strings.Repeat(" padding", 600+rng.Intn(200))
		}
		lines = append(lines, l)
	}
	noise()
	if legacy && !omit {
		lines = append(lines, p(0)+cs("END")+p(1)+fmt.Sprint(w.Start)+p(0))
	} else if omit && rng.Intn(2) == 0 {
		lines = append(lines, p(0)+cs("END")+p(0)) // a bare END closes the file in both dialects
	}
	text := strings.Join(lines, nl)
	if !(perturb && rng.Intn(3) == 0) {
		text += nl // otherwise: missing final newline
	}
	return []byte(text)
}

func genLoadWarrior(rng *rand.Rand, cfg gmars.SimulatorConfig, forms []gmars.Instruction, next *int) gmars.WarriorData {
	m := uint64(cfg.CoreSize)
	maxLen := int(cfg.Length)
	if maxLen > 12 && rng.Intn(8) != 0 {
		maxLen = 12
	}
	if maxLen < 1 {
		maxLen = 1
	}
	n := 1 + rng.Intn(maxLen)
	code := make([]gmars.Instruction, n)
	for i := range code {
		f := forms[*next%len(forms)]
		*next++
		f.A, f.B = listingField(rng, m), listingField(rng, m)
		code[i] = f
	}
	w := gmars.WarriorData{Name: "Unknown", Author: "Anonymous", Code: code, Start: rng.Intn(n)}
	// runs of one instruction (DAT fields, SPL chains, imp rings), in particular around the entry
	switch rng.Intn(6) {
	case 0:
		if w.Start > 0 {
			code[w.Start] = code[w.Start-1]
		}
	case 1:
		if w.Start+1 < n {
			code[w.Start+1] = code[w.Start]
		}
	case 2:
		for i := 1; i < n; i++ {
			if rng.Intn(2) == 0 {
				code[i] = code[i-1]
			}
		}
	case 3:
		if rng.Intn(3) == 0 {
			for i := 1; i < n; i++ {
				code[i] = code[0]
			}
		}
	}
	return w
}

// genLoad: C09 round trips; every legal form of the dialect appears
// longLineTexts: the canonical text of w with one very long line put in the middle (a comment, or
// an instruction line padded with blanks) and with the LAST line, left without a newline, padded
// to exactly k*4096 bytes — sizes at which a fixed reader buffer fills up
func longLineTexts(rng *rand.Rand, cfg gmars.SimulatorConfig, w gmars.WarriorData) [][]byte {
	base := strings.Split(strings.TrimRight(string(printLoad(rng, cfg, w, false)), "\n"), "\n")
	var out [][]byte
	for _, size := range []int{4096, 65536, 65537, 70000, 1<<20 + 1} {
		mid := len(base) / 2
		var ls []string
		ls = append(ls, base[:mid]...)
		if rng.Intn(2) == 0 {
			ls = append(ls, ";"+strings.Repeat("c", size))
		} else {
			ls = append(ls, strings.Repeat(" ", size)+"; padded")
		}
		ls = append(ls, base[mid:]...)
		out = append(out, []byte(strings.Join(ls, "\n")+"\n"))
	}
	for _, k := range []int{1, 2, 3} {
		ls := append([]string(nil), base...)
		last := ls[len(ls)-1]
		head := len(strings.Join(ls[:len(ls)-1], "\n")) + 1
		_ = head
		if pad := k*4096 - len(last); pad > 0 {
			ls[len(ls)-1] = last + strings.Repeat(" ", pad)
		}
		out = append(out, []byte(strings.Join(ls, "\n"))) // no final newline
	}
	return out
}

func genLoad(out *bufio.Writer, rng *rand.Rand, count int) int {
	n := 0
	for _, legacy := range []bool{false, true} {
		forms := allForms(legacy)
		next := 0
		per := count / 2
		{
			cfg := textConfig(rng, legacy)
			w := genLoadWarrior(rng, cfg, forms, &next)
			for len(w.Code) < 3 {
				w.Code = append(w.Code, w.Code[0])
			}
			w.Start = len(w.Code) - 1
			for _, text := range longLineTexts(rng, cfg, w) {
				fmt.Fprintf(out, "L l%d load %s %s %d:%s | %s ## %s\n", n, cfgFields(cfg), hexd(text), w.Start,
					cellsStr(w.Code), runLoad(cfg, text), runAsm(cfg, text))
				n++
			}
		}
		for next < len(forms) || per > 0 {
			cfg := textConfig(rng, legacy)
			w := genLoadWarrior(rng, cfg, forms, &next)
			text := printLoad(rng, cfg, w, n%4 != 0)
			fmt.Fprintf(out, "L l%d load %s %s %d:%s | %s ## %s\n", n, cfgFields(cfg), hexd(text), w.Start,
				cellsStr(w.Code), runLoad(cfg, text), runAsm(cfg, text))
			n++
			per--
		}
	}
	fmt.Fprintf(out, "Y yk%d C09:alias results of earlier ParseLoadFile calls after later calls | unchanged ## %s\n", n, map[bool]string{true: "unchanged", false: "changed: " + strings.ReplaceAll(keptLoadChanged, " | ", " / ")}[keptLoadChanged == ""])
	return n
}

func corrupt(rng *rand.Rand, text []byte) []byte {
	lines := strings.Split(string(text), "\n")
	mutLine := func(l string) string {
		fs := strings.Fields(l)
		if len(fs) == 0 {
			return l
		}
		switch rng.Intn(12) {
		case 0: // delete a field
			i := rng.Intn(len(fs))
			fs = append(fs[:i], fs[i+1:]...)
		case 1: // duplicate a field
			i := rng.Intn(len(fs))
			fs = append(fs[:i+1], fs[i:]...)
		case 2: // transpose
			if len(fs) > 1 {
				i := rng.Intn(len(fs) - 1)
				fs[i], fs[i+1] = fs[i+1], fs[i]
			}
		case 3: // out of range / negative / huge numbers
			i := rng.Intn(len(fs))
			fs[i] = []string{"-1", "99999999999", "-99999999999999999999", "9223372036854775807", "-9223372036854775808", "2147483648", "-2147483649", "+5", "0x10", "1_0", "--1"}[rng.Intn(11)]
		case 4: // unknown mnemonic
			fs[0] = []string{"MOVE.I", "XYZ", "MOV.", ".I", "MOV.Q", "MOV.I.I", "NOP", "MUL.F", "SEQ.I"}[rng.Intn(9)]
		case 5: // odd mode
			if len(fs) > 1 {
				fs[1] = []string{"*", "{", "}", ">", "%", "$$", "#"}[rng.Intn(7)]
			}
		case 6:
			return ","
		case 7:
			return "ORG"
		case 8:
			return "END"
		case 9:
			return []string{"ORG -1", "END -1", "ORG 1 2", "END 1 2", "ORG x", "END 99", "ORG 99", "org 0", "end"}[rng.Intn(9)]
		case 10: // drop the comma
			return strings.ReplaceAll(l, ",", " ")
		case 11:
			return l + " ; c"
		}
		if len(fs) == 5 && rng.Intn(6) == 0 {
			// an extreme spelling in a NUMBER field of an otherwise valid line: the line stays
			// readable, the field must still come out below the core size
			fs[2+2*rng.Intn(2)] = []string{"-9223372036854775808", "9223372036854775807", "-9223372036854775807", "-4611686018427387904",
				"4611686018427387904", "-2147483648", "2147483648", "-0", "+0", "0000000000000000000007"}[rng.Intn(10)]
			return fs[0] + " " + fs[1] + " " + fs[2] + ", " + fs[3] + " " + fs[4]
		}
		return strings.Join(fs, " ")
	}
	k := 1 + rng.Intn(2)
	for j := 0; j < k; j++ {
		i := rng.Intn(len(lines))
		switch rng.Intn(6) {
		case 0: // insert a directive / junk line somewhere
			ins := []string{"ORG 0", "END", "END 0", "ORG", ",", ", ,", "DAT", "JMP $ 0", ";name x", "  ",
				";redcode", ";redcode-94", ";REDCODE", ";strategyX", ";strategy x", ";strategy\t", ";strategy  two", ";STRATEGY y", ";strateg", ";namex", ";name", ";authorx y", "\u212a\u212a;", "\u0130;x", "\u212a ; \u212a", ";strategy", ";strategy\u212a"}[rng.Intn(27)]
			lines = append(lines[:i], append([]string{ins}, lines[i:]...)...)
		case 1: // duplicate a line
			lines = append(lines[:i+1], lines[i:]...)
		default:
			lines[i] = mutLine(lines[i])
		}
	}
	res := []byte(strings.Join(lines, "\n"))
	if rng.Intn(6) == 0 && len(res) > 0 {
		// non-ASCII: Unicode white space as a separator (strings.Fields splits on it), letters
		// whose lower case is ASCII (U+0130, U+212A), other letters and digits, invalid UTF-8,
		// NUL — inside fields, between fields, in comments and metadata lines
		uni := []string{"\u0085", "\u00a0", "\u1680", "\u2000", "\u2003", "\u2028", "\u2029", "\u202f", "\u205f", "\u3000",
			"\u0130", "\u212a", "\u017f", "é", "λ", "٣", "１", "\x80", "\xc3", "\xe2\x80", "\xed\xa0\x80", "\xf4\x90\x80\x80", "\xc0\xaf", "\xff", "\x00"}
		for k := 1 + rng.Intn(2); k > 0; k-- {
			u := uni[rng.Intn(len(uni))]
			i := rng.Intn(len(res) + 1)
			switch rng.Intn(3) {
			case 0: // replace a blank by it
				for j := 0; j < len(res); j++ {
					if res[(i+j)%len(res)] == ' ' {
						p := (i + j) % len(res)
						res = append(res[:p], append([]byte(u), res[p+1:]...)...)
						break
					}
				}
			default: // insert it anywhere
				res = append(res[:i], append([]byte(u), res[i:]...)...)
			}
		}
		if rng.Intn(3) == 0 {
			meta := []string{";name caf\xc3\xa9 \u00a0", ";author \xff\xfe", ";strategy\xc3\xa9 cut", ";strategy \u2003x", ";name\u0085", ";NAME \u0130"}[rng.Intn(6)]
			res = append([]byte(meta+"\n"), res...)
		}
	}
	if rng.Intn(5) == 0 && len(res) > 0 { // truncation at any byte
		res = res[:rng.Intn(len(res)+1)]
	}
	if rng.Intn(20) == 0 && len(res) > 0 { // one stray byte
		res[rng.Intn(len(res))] = byte(rng.Intn(256))
	}
	return res
}

// genLoadBad: C10 corruptions of canonical load files, both dialects
func genLoadBad(out *bufio.Writer, rng *rand.Rand, count int) int {
	forms94, forms88 := allForms(false), allForms(true)
	n94, n88 := 0, 0
	for n := 0; n < count; n++ {
		legacy := n%2 == 1
		cfg := textConfig(rng, legacy)
		var w gmars.WarriorData
		if legacy {
			w = genLoadWarrior(rng, cfg, forms88, &n88)
		} else {
			w = genLoadWarrior(rng, cfg, forms94, &n94)
		}
		text := printLoad(rng, cfg, w, rng.Intn(2) == 0)
		if rng.Intn(10) == 0 { // the other dialect's text
			cfg2 := cfg
			if legacy {
				cfg2.Mode = gmars.ICWS94
			} else {
				cfg2.Mode = gmars.ICWS88
			}
			text = printLoad(rng, cfg2, w, false)
		}
		text = corrupt(rng, text)
		fmt.Fprintf(out, "L q%d loadbad %s %s - | %s\n", n, cfgFields(cfg), hexd(text), runLoad(cfg, text))
		if n == 0 {
			// the smallest texts: nothing, every single byte, a byte order mark with and without
			// a newline, lone metadata keywords
			tiny := [][]byte{{}, {0xef, 0xbb, 0xbf}, {0xef, 0xbb, 0xbf, '\n'}, {0xef, 0xbb}, {0xff, 0xfe}, []byte(";"), []byte(";name"), []byte(";strategy"),
				[]byte("\r"), []byte("\r\n"), []byte(","), []byte("END"), []byte("ORG"), []byte("\xef\xbb\xbfMOV.I $ 0, $ 1\n")}
			for b := 0; b < 256; b++ {
				tiny = append(tiny, []byte{byte(b)})
			}
			for j, t := range tiny {
				for _, c2 := range []gmars.SimulatorConfig{gmars.ConfigNOP94, gmars.ConfigKOTH88} {
					fmt.Fprintf(out, "L qt%d_%d loadbad %s %s - | %s\n", j, c2.Mode, cfgFields(c2), dash(hexd(t)), runLoad(c2, t))
				}
			}
		}
		if n < 2 {
			// very long lines with good and bad lines after them: whatever follows a long line is
			// still read (a bad line still makes the read fail, a good one still counts)
			for len(w.Code) < 3 {
				w.Code = append(w.Code, w.Code[0])
			}
			w.Start = 0
			for j, t := range longLineTexts(rng, cfg, w) {
				for v, tail := range []string{"", "XYZ 1, 2\n", ",\n"} {
					t2 := append(append([]byte(nil), t...), []byte(tail)...)
					if !legacy && tail == "" {
						t2 = append(t2, []byte("\n")...)
					}
					fmt.Fprintf(out, "L q%d_%d_%d loadbad %s %s - | %s\n", n, j, v, cfgFields(cfg), hexd(t2), runLoad(cfg, t2))
				}
			}
		}
	}
	return count
}

// genListing: C16, LoadCode() of warriors legal in the dialect
func genListing(out *bufio.Writer, rng *rand.Rand, count int) int {
	n := 0
	bigCores = true
	defer func() { bigCores = false }()
	for _, legacy := range []bool{false, true} {
		forms := allForms(legacy)
		next := 0
		per := count / 2
		for next < len(forms) || per > 0 {
			cfg := textConfig(rng, legacy)
			w := genLoadWarrior(rng, cfg, forms, &next)
			if rng.Intn(40) == 0 {
				w.Code = nil
				w.Start = 0
			}
			if rng.Intn(15) == 0 {
				// AddWarrior sets no length limit: a warrior longer than a small core, entry point on
				// any line (also at and beyond the core size)
				m := uint64(8 + rng.Intn(13))
				mode := gmars.ICWS94
				if legacy {
					mode = gmars.ICWS88
				}
				cfg = gmars.NewQuickConfig(gmars.SimulatorMode(mode), gmars.Address(m), 8, 100, gmars.Address(m/3))
				n := int(m) + 1 + rng.Intn(2*int(m))
				code := make([]gmars.Instruction, n)
				for i := range code {
					f := forms[next%len(forms)]
					next++
					f.A, f.B = listingField(rng, m), listingField(rng, m)
					code[i] = f
				}
				w = gmars.WarriorData{Name: "Unknown", Author: "Anonymous", Code: code, Start: rng.Intn(n)}
				if rng.Intn(2) == 0 {
					w.Start = int(m) + rng.Intn(n-int(m))
				}
			}
			resp := ""
			pmResp := ""
			var normM gmars.Address
			if rng.Intn(3) == 0 {
				// names as the assembler can deliver them: quotes, blanks, non-ASCII bytes, empty
				w.Name = []string{"", "a \"b\" c", "Imp \xc3\xa9\xff", "x\ty", "%d %s"}[rng.Intn(5)]
				w.Author = []string{"", "\"", "A. N. Other", "\xe2\x82\xac", "by \"me\""}[rng.Intn(5)]
			}
			// now and then the caller reuses one variable for two AddWarrior calls on the same
			// simulator (same name, author, entry and length; other code): both listings must
			// denote what was passed at the time of the call
			var decoy *gmars.WarriorData
			decoyResp := ""
			if len(w.Code) > 0 && rng.Intn(5) == 0 {
				d := genLoadWarrior(rng, cfg, forms, &next)
				for len(d.Code) < len(w.Code) {
					d.Code = append(d.Code, d.Code[rng.Intn(len(d.Code))])
				}
				d.Code = d.Code[:len(w.Code)]
				d.Start = w.Start
				if rng.Intn(3) == 0 {
					// ... or the very same code with another entry point
					d.Code = append([]gmars.Instruction(nil), w.Code...)
					d.Start = (w.Start + 1 + rng.Intn(len(w.Code))) % len(w.Code)
				}
				decoy = &d
			}
			f := guarded(10*time.Second, func() {
				sim, err := gmars.NewSimulator(cfg)
				if err != nil {
					resp = "err"
					return
				}
				if decoy != nil {
					shared := gmars.WarriorData{Name: decoy.Name, Author: decoy.Author, Start: decoy.Start, Code: append([]gmars.Instruction(nil), decoy.Code...)}
					first, _ := sim.AddWarrior(&shared)
					if rng.Intn(2) == 0 {
						copy(shared.Code, w.Code)
						shared.Start = w.Start
					} else {
						shared = gmars.WarriorData{Name: w.Name, Author: w.Author, Start: w.Start, Code: append([]gmars.Instruction(nil), w.Code...)}
					}
					wr, _ := sim.AddWarrior(&shared)
					resp = hexd([]byte(wr.LoadCode()))
					decoyResp = hexd([]byte(first.LoadCode()))
					return
				}
				wr, _ := sim.AddWarrior(&w)
				switch rng.Intn(5) {
				case 0:
					// the listing is asked for after a battle and a Reset
					sim.SpawnWarrior(0, 0)
					sim.RunCycle()
					sim.Reset()
				case 1:
					// ... or after other simulators (other core sizes, both dialects) were created
					for k := 0; k < 3; k++ {
						c2 := cfg
						c2.CoreSize = gmars.Address(uint64(cfg.CoreSize)/2 + 7 + uint64(rng.Intn(50)))
						c2.ReadLimit, c2.WriteLimit = c2.CoreSize, c2.CoreSize
						c2.Length, c2.Distance = 1, 1
						if k == 2 {
							if c2.Mode == gmars.ICWS88 {
								c2.Mode = gmars.ICWS94
							} else {
								c2.Mode = gmars.ICWS88
							}
						}
						if s2, err := gmars.NewSimulator(c2); err == nil {
							d := gmars.WarriorData{Code: []gmars.Instruction{{Op: gmars.DAT, AMode: gmars.IMMEDIATE, BMode: gmars.IMMEDIATE, B: c2.CoreSize - 1}}}
							if h2, err := s2.AddWarrior(&d); err == nil {
								_ = h2.LoadCode()
							}
						}
					}
				}
				resp = hexd([]byte(wr.LoadCode()))
				// the other printers: LoadCodePMARS() (not in the Warrior interface, but exported on
				// the handle), Instruction.String() and NormString(core size) of every cell
				if pw, ok := wr.(interface{ LoadCodePMARS() string }); ok {
					normM = cfg.CoreSize
					switch rng.Intn(6) {
					case 0:
						normM = []gmars.Address{0, 1, 2, 3, cfg.CoreSize / 2, cfg.CoreSize + 1, 1 << 63, 1<<63 + 5, 1<<64 - 1}[rng.Intn(9)]
					case 1:
						normM = gmars.Address(rng.Uint64())
					}
					var sb, nb strings.Builder
					for _, c := range w.Code {
						sb.WriteString(c.String() + "\n")
						nb.WriteString(c.NormString(normM) + "\n")
					}
					pmResp = hexd([]byte(pw.LoadCodePMARS())) + " " + hexd([]byte(sb.String())) + " " + hexd([]byte(nb.String()))
				}
			})
			if f != "" {
				resp = f
			}
			fmt.Fprintf(out, "K k%d listing %s %d %s | %s\n", n, cfgFields(cfg), w.Start, cellsd(w.Code), resp)
			n++
			if f == "" && pmResp != "" {
				fmt.Fprintf(out, "KP k%d listing %s %d %s %s %s %d | %s\n", n, cfgFields(cfg), w.Start, cellsd(w.Code), hexd([]byte(w.Name)), hexd([]byte(w.Author)), uint64(normM), pmResp)
				n++
			}
			if decoy != nil && f == "" && decoyResp != "" {
				fmt.Fprintf(out, "K k%d listing %s %d %s | %s\n", n, cfgFields(cfg), decoy.Start, cellsd(decoy.Code), decoyResp)
				n++
			}
			per--
		}
	}
	return n
}
