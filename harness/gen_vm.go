package main

// Generators for the virtual-machine domains: step, battle, rot, api.
// Every random choice derives from one PRNG (rng) seeded from VERIF_SEED.

import (
	"bufio"
	"fmt"
	"math/rand"

	"github.com/bobertlo/gmars"
)

var stepSizes = []uint64{3, 4, 5, 7, 8, 13, 16, 80}

func pick(rng *rand.Rand, xs []uint64) uint64 { return xs[rng.Intn(len(xs))] }

// boundary-biased field value in [0, m)
func fieldVal(rng *rand.Rand, m, lim uint64) uint64 {
	cands := []uint64{0, 1, 2, m - 1, m - 2, m / 2, m/2 + 1, lim / 2, lim/2 + 1, lim, lim - 1, m - lim/2, m - lim/2 - 1}
	if rng.Intn(3) == 0 {
		return uint64(rng.Int63n(int64(m)))
	}
	return cands[rng.Intn(len(cands))] % m
}

func limitVal(rng *rand.Rand, m uint64) uint64 {
	cands := []uint64{1, 2, 3, m / 2, m/2 + 1, m - 1, m, m}
	v := cands[rng.Intn(len(cands))]
	if v < 1 {
		v = 1
	}
	if v > m {
		v = m
	}
	return v
}

func randInstr(rng *rand.Rand, m, lim uint64) gmars.Instruction {
	return gmars.Instruction{
		Op:     gmars.OpCode(rng.Intn(17)),
		OpMode: gmars.OpMode(rng.Intn(7)),
		AMode:  gmars.AddressMode(rng.Intn(8)),
		A:      gmars.Address(fieldVal(rng, m, lim)),
		BMode:  gmars.AddressMode(rng.Intn(8)),
		B:      gmars.Address(fieldVal(rng, m, lim)),
	}
}

func foldRef(p, lim, m uint64) uint64 {
	r := p % lim
	if r > lim/2 {
		r += m - lim
	}
	return r
}

// genStep: every one of the 17x7x8x8 forms, k contexts each (C01, C11, C04, C15)
func genStep(out *bufio.Writer, rng *rand.Rand, k int, big bool) int {
	n := 0
	for op := 0; op < 17; op++ {
		for md := 0; md < 7; md++ {
			for am := 0; am < 8; am++ {
				for bm := 0; bm < 8; bm++ {
					for j := 0; j < k; j++ {
						m := pick(rng, stepSizes)
						if big && rng.Intn(4) == 0 {
							m = pick(rng, []uint64{80, 256, 800, 8000})
						}
						r, w := limitVal(rng, m), limitVal(rng, m)
						if j == 0 {
							r, w = m, m
						}
						p := uint64(1 + rng.Intn(3))
						cfg := gmars.SimulatorConfig{Mode: gmars.ICWS94, CoreSize: gmars.Address(m), Processes: gmars.Address(p),
							Cycles: 10, ReadLimit: gmars.Address(r), WriteLimit: gmars.Address(w), Length: 1, Distance: 1}
						lim := r
						if rng.Intn(2) == 0 {
							lim = w
						}
						code := make([]gmars.Instruction, m)
						for i := range code {
							code[i] = randInstr(rng, m, lim)
						}
						var pc uint64
						switch rng.Intn(4) {
						case 0:
							pc = 0
						case 1:
							pc = m - 1
						case 2:
							pc = m - 2
						default:
							pc = uint64(rng.Int63n(int64(m)))
						}
						ir := gmars.Instruction{Op: gmars.OpCode(op), OpMode: gmars.OpMode(md), AMode: gmars.AddressMode(am),
							A: gmars.Address(fieldVal(rng, m, lim)), BMode: gmars.AddressMode(bm), B: gmars.Address(fieldVal(rng, m, lim))}
						code[pc] = ir
						// adversarial filling of the cells the primary pointers reach
						for _, t := range []uint64{(pc + foldRef(uint64(ir.A), r, m)) % m, (pc + foldRef(uint64(ir.B), r, m)) % m,
							(pc + foldRef(uint64(ir.A), w, m)) % m, (pc + foldRef(uint64(ir.B), w, m)) % m} {
							if t == pc {
								continue
							}
							c := &code[t]
							switch rng.Intn(6) {
							case 0:
								c.A, c.B = 0, 0
							case 1:
								c.A = 0
							case 2:
								c.B = 0
							case 3:
								c.A, c.B = 1, 1
							case 4:
								c.A = c.B
							}
						}
						// make equal / unequal pairs for the comparison opcodes
						if (op >= 7 && op <= 10) && rng.Intn(2) == 0 {
							ta := (pc + foldRef(uint64(ir.A), r, m)) % m
							tb := (pc + foldRef(uint64(ir.B), r, m)) % m
							if ta != pc && tb != pc {
								code[tb] = code[ta]
								if rng.Intn(3) == 0 {
									code[tb].B = (code[tb].B + 1) % gmars.Address(m)
								}
							}
						}
						c := newAPICase(out, fmt.Sprintf("s%d", n), "step", cfg, rng.Intn(2) == 0)
						c.add(&gmars.WarriorData{Code: code, Start: int(pc)})
						c.spawn(0, 0)
						c.runCycle(false)
						if rng.Intn(8) == 0 {
							c.runCycle(false)
						}
						c.end()
						n++
					}
				}
			}
		}
	}
	return n
}

// exhaustive single steps on the smallest core: every form at pc 0 with every
// pair of field values and one fixed background (thorough tier)
func genStepExhaustive(out *bufio.Writer, rng *rand.Rand, m uint64) int {
	n := 0
	for op := 0; op < 17; op++ {
		for md := 0; md < 7; md++ {
			for am := 0; am < 8; am++ {
				for bm := 0; bm < 8; bm++ {
					for a := uint64(0); a < m; a++ {
						for b := uint64(0); b < m; b++ {
							r, w := limitVal(rng, m), limitVal(rng, m)
							cfg := gmars.SimulatorConfig{Mode: gmars.ICWS94, CoreSize: gmars.Address(m), Processes: 2,
								Cycles: 10, ReadLimit: gmars.Address(r), WriteLimit: gmars.Address(w), Length: 1, Distance: 1}
							code := make([]gmars.Instruction, m)
							for i := range code {
								code[i] = randInstr(rng, m, m)
							}
							code[0] = gmars.Instruction{Op: gmars.OpCode(op), OpMode: gmars.OpMode(md), AMode: gmars.AddressMode(am),
								A: gmars.Address(a), BMode: gmars.AddressMode(bm), B: gmars.Address(b)}
							c := newAPICase(out, fmt.Sprintf("x%d", n), "step", cfg, false)
							c.add(&gmars.WarriorData{Code: code, Start: 0})
							c.spawn(0, 0)
							c.runCycle(false)
							c.end()
							n++
						}
					}
				}
			}
		}
	}
	return n
}

// warrior grammar biased to loops, splits, bombs, self-modification
func genWarrior(rng *rand.Rand, m uint64, maxLen int) gmars.WarriorData {
	n := 1 + rng.Intn(maxLen)
	code := make([]gmars.Instruction, n)
	small := func() gmars.Address {
		switch rng.Intn(5) {
		case 0:
			return 0
		case 1:
			return gmars.Address(uint64(rng.Intn(n+2)) % m)
		case 2:
			return gmars.Address((m - uint64(rng.Intn(n+2))%m) % m)
		case 3:
			return gmars.Address(uint64(rng.Int63n(int64(m))))
		default:
			return gmars.Address(uint64(1+rng.Intn(3)) % m)
		}
	}
	for i := range code {
		var op gmars.OpCode
		switch r := rng.Intn(20); {
		case r < 4:
			op = gmars.MOV
		case r < 6:
			op = gmars.SPL
		case r < 8:
			op = gmars.JMP
		case r < 9:
			op = gmars.DAT
		case r < 11:
			op = gmars.DJN
		case r < 13:
			op = gmars.ADD
		default:
			op = gmars.OpCode(rng.Intn(17))
		}
		code[i] = gmars.Instruction{Op: op, OpMode: gmars.OpMode(rng.Intn(7)), AMode: gmars.AddressMode(rng.Intn(8)),
			A: small(), BMode: gmars.AddressMode(rng.Intn(8)), B: small()}
	}
	return gmars.WarriorData{Name: "w", Author: "g", Code: code, Start: rng.Intn(n)}
}

type battle struct {
	cfg      gmars.SimulatorConfig
	warriors []gmars.WarriorData
	offsets  []uint64
}

func genBattleSpec(rng *rand.Rand, maxW int) battle {
	m := uint64(8 + rng.Intn(57))
	if rng.Intn(6) == 0 {
		m = uint64(3 + rng.Intn(6))
	}
	r, w := m, m
	if rng.Intn(3) == 0 {
		r, w = limitVal(rng, m), limitVal(rng, m)
	}
	cfg := gmars.SimulatorConfig{Mode: gmars.ICWS94, CoreSize: gmars.Address(m), Processes: gmars.Address(1 + rng.Intn(8)),
		Cycles: gmars.Address(1 + rng.Intn(120)), ReadLimit: gmars.Address(r), WriteLimit: gmars.Address(w), Length: 1, Distance: 1}
	nw := 1 + rng.Intn(maxW)
	b := battle{cfg: cfg}
	for i := 0; i < nw; i++ {
		ml := 12
		if uint64(ml) > m {
			ml = int(m)
		}
		b.warriors = append(b.warriors, genWarrior(rng, m, ml))
		b.offsets = append(b.offsets, uint64(rng.Int63n(int64(m))))
	}
	return b
}

// genBattle: cycle-by-cycle traces and Run() (C02, C04, C15)
func genBattle(out *bufio.Writer, rng *rand.Rand, count int) int {
	for n := 0; n < count; n++ {
		b := genBattleSpec(rng, 4)
		c := newAPICase(out, fmt.Sprintf("b%d", n), "battle", b.cfg, rng.Intn(2) == 0)
		for i := range b.warriors {
			c.add(&b.warriors[i])
		}
		for i := range b.warriors {
			if rng.Intn(12) != 0 { // sometimes leave one unspawned
				c.spawn(i, b.offsets[i])
			}
		}
		mode := rng.Intn(3)
		switch mode {
		case 0: // step to the end and beyond, then Run (must be a no-op)
			for k := 0; k < int(b.cfg.Cycles)+2; k++ {
				c.runCycle(false)
			}
			c.run()
		case 1: // Run only
			c.run()
		default: // a few cycles, then Run
			for k := 0; k < rng.Intn(10); k++ {
				c.runCycle(false)
			}
			c.run()
			c.runCycle(false)
		}
		c.end()
	}
	return count
}

// genRot: the same battle at shift 0 and shift k (C12)
func genRot(out *bufio.Writer, rng *rand.Rand, count int) int {
	for n := 0; n < count; n++ {
		b := genBattleSpec(rng, 3)
		m := uint64(b.cfg.CoreSize)
		if n%6 == 5 {
			// limits above the core size (Validate accepts them; preset nop256), pointers near M
			if n%12 == 5 {
				b.cfg = gmars.ConfigNop256
				b.cfg.Cycles = gmars.Address(20 + rng.Intn(100))
				m = 256
				for i := range b.warriors {
					b.warriors[i] = genWarrior(rng, m, 10)
					b.offsets[i] = uint64(rng.Int63n(int64(m)))
				}
			} else {
				b.cfg.ReadLimit = gmars.Address([]uint64{m + 1, 2 * m, 3*m + 1, 800}[rng.Intn(4)])
				b.cfg.WriteLimit = gmars.Address([]uint64{m + 1, 2 * m, 3*m + 1, 800}[rng.Intn(4)])
			}
			for i := range b.warriors {
				for j := range b.warriors[i].Code {
					if rng.Intn(2) == 0 {
						b.warriors[i].Code[j].A = gmars.Address((2*m - 1 - uint64(rng.Intn(4))) % m)
						b.warriors[i].Code[j].B = gmars.Address((2*m - 1 - uint64(rng.Intn(8))) % m)
					}
				}
			}
		}
		k := uint64(rng.Int63n(int64(m)))
		if n%6 == 5 && rng.Intn(2) == 0 {
			k = m - 1 - uint64(rng.Intn(int(m/4)+1)) // a placement high in the core
		}
		if rng.Intn(4) == 0 {
			// make the first warrior wrap past the end of the core
			k = (m - b.offsets[0]%m + m - 1) % m
		}
		for variant := 0; variant < 2; variant++ {
			c := newAPICase(out, fmt.Sprintf("r%d%c", n, 'a'+variant), "rot", b.cfg, false)
			for i := range b.warriors {
				c.add(&b.warriors[i])
			}
			for i := range b.warriors {
				off := b.offsets[i]
				if variant == 1 {
					off = (off+k)%m + uint64(rng.Intn(3))*m
				}
				c.spawn(i, off)
			}
			if n%2 == 0 {
				c.run()
			} else {
				for j := 0; j < int(b.cfg.Cycles)+1; j++ {
					c.runCycle(true)
				}
			}
			c.dump()
			c.end()
		}
		fmt.Fprintf(out, "P r%da r%db %d\n", n, n, k)
	}
	return count
}

// --- api: call sequences on a tiny core (C13) ---

type apiOp struct {
	kind byte
	a, b int
}

var apiWarriors = []gmars.WarriorData{
	{Name: "imp", Code: []gmars.Instruction{{Op: gmars.MOV, OpMode: gmars.I, A: 0, B: 1}}, Start: 0},
	{Name: "bomb", Code: []gmars.Instruction{
		{Op: gmars.SPL, OpMode: gmars.B, A: 2, B: 0},
		{Op: gmars.DAT, OpMode: gmars.F, AMode: gmars.IMMEDIATE, BMode: gmars.IMMEDIATE},
		{Op: gmars.MOV, OpMode: gmars.I, A: 4, BMode: gmars.B_INCREMENT, B: 4},
	}, Start: 1},
	{Name: "dat", Code: []gmars.Instruction{{Op: gmars.DAT}}, Start: 0},
}

func apiAlphabet(m uint64) []apiOp {
	ops := []apiOp{{'A', 0, 0}, {'A', 1, 0}, {'A', 2, 0}, {'R', 0, 0}, {'U', 0, 0}, {'T', 0, 0}, {'G', 1, 0}, {'G', int(2*m + 1), 0}}
	for wi := -1; wi <= 3; wi++ {
		ops = append(ops, apiOp{'W', wi, 0})
		for _, off := range []uint64{0, m - 1, m, 2*m + 3} {
			ops = append(ops, apiOp{'S', wi, int(off)})
		}
	}
	return ops
}

func runAPISeq(out *bufio.Writer, id string, cfg gmars.SimulatorConfig, seq []apiOp) {
	c := newAPICase(out, id, "api", cfg, false)
	for _, op := range seq {
		switch op.kind {
		case 'A':
			w := apiWarriors[op.a]
			c.add(&w)
		case 'S':
			c.spawn(op.a, uint64(op.b))
		case 'R':
			c.runCycle(false)
		case 'U':
			c.run()
		case 'T':
			c.reset()
		case 'G':
			c.getMem(uint64(op.a))
		case 'W':
			c.getWarrior(op.a)
		}
	}
	c.end()
}

func genAPI(out *bufio.Writer, rng *rand.Rand, depth int, random int) int {
	m := uint64(5)
	cfg := gmars.SimulatorConfig{Mode: gmars.ICWS94, CoreSize: gmars.Address(m), Processes: 2, Cycles: 3,
		ReadLimit: gmars.Address(m), WriteLimit: gmars.Address(m), Length: 1, Distance: 1}
	alpha := apiAlphabet(m)
	n := 0
	// exhaustive to the given depth
	idx := make([]int, depth)
	for {
		seq := make([]apiOp, depth)
		for i, k := range idx {
			seq[i] = alpha[k]
		}
		runAPISeq(out, fmt.Sprintf("a%d", n), cfg, seq)
		n++
		i := depth - 1
		for i >= 0 {
			idx[i]++
			if idx[i] < len(alpha) {
				break
			}
			idx[i] = 0
			i--
		}
		if i < 0 {
			break
		}
	}
	// random long sequences, biased towards meaningful prefixes
	for j := 0; j < random; j++ {
		cfg2 := cfg
		cfg2.Cycles = gmars.Address(1 + rng.Intn(12))
		cfg2.Processes = gmars.Address(1 + rng.Intn(4))
		ln := 5 + rng.Intn(56)
		seq := []apiOp{{'A', rng.Intn(3), 0}, {'A', rng.Intn(3), 0}}
		for len(seq) < ln {
			op := alpha[rng.Intn(len(alpha))]
			if op.kind == 'S' && rng.Intn(2) == 0 {
				op.a = rng.Intn(2)
			}
			if rng.Intn(3) == 0 {
				op = apiOp{'R', 0, 0}
			}
			seq = append(seq, op)
		}
		runAPISeq(out, fmt.Sprintf("ar%d", j), cfg2, seq)
		n++
	}
	return n
}

// config grid for NewSimulator (C04: refused with an error or sound)
// presetLines: the named presets as the library returns them (Q lines): the options of the
// command-line tool and every generator that starts from a preset depend on these tables
func presetLines(out *bufio.Writer) int {
	names := []string{"nop94", "88", "icws", "noptiny", "nop256", "nopnano", "bogus", "", "NOP94", "koth"}
	for i, nm := range names {
		c, err := gmars.PresetConfig(nm)
		resp := "err"
		if err == nil {
			resp = fmt.Sprintf("%d %d %d %d %d %d %d %d", c.Mode, c.CoreSize, c.Processes, c.Cycles, c.ReadLimit, c.WriteLimit, c.Length, c.Distance)
		}
		fmt.Fprintf(out, "Q q%d preset %s | %s\n", i, dash(nm), resp)
	}
	vars := map[string]gmars.SimulatorConfig{"nop94": gmars.ConfigNOP94, "88": gmars.ConfigKOTH88, "icws": gmars.ConfigICWS88,
		"noptiny": gmars.ConfigNopTiny, "nop256": gmars.ConfigNop256, "nopnano": gmars.ConfigNopNano}
	k := len(names)
	for _, nm := range []string{"nop94", "88", "icws", "noptiny", "nop256", "nopnano"} {
		c := vars[nm]
		fmt.Fprintf(out, "Q q%d preset %s | %d %d %d %d %d %d %d %d\n", k, nm, c.Mode, c.CoreSize, c.Processes, c.Cycles, c.ReadLimit, c.WriteLimit, c.Length, c.Distance)
		k++
	}
	return k
}

func genConfig(out *bufio.Writer, rng *rand.Rand, random int) int {
	presetLines(out)
	vals := []uint64{0, 1, 2, 3, 1<<20 - 1, 1 << 20}
	n := 0
	emit := func(cfg gmars.SimulatorConfig) {
		c := newAPICase(out, fmt.Sprintf("k%d", n), "config", cfg, false)
		if !c.dead {
			w := gmars.WarriorData{Code: []gmars.Instruction{{Op: gmars.SPL, OpMode: gmars.B}, {Op: gmars.JMP, OpMode: gmars.B, A: gmars.Address(uint64(cfg.CoreSize) - 1)}}}
			c.add(&w)
			c.spawn(0, uint64(rng.Int63n(int64(cfg.CoreSize))))
			c.runCycle(false)
			c.runCycle(false)
			c.runCycle(false)
		}
		c.end()
		n++
	}
	// boundary grid on small values for all fields, large values one at a time
	small := []uint64{0, 1, 2, 3}
	for _, cs := range small {
		for _, pr := range small[:3] {
			for _, cy := range small[:3] {
				for _, rl := range small[:3] {
					for _, wl := range small[:3] {
						for _, ln := range small {
							for _, ds := range small[:3] {
								emit(gmars.SimulatorConfig{Mode: gmars.SimulatorMode(rng.Intn(3)), CoreSize: gmars.Address(cs), Processes: gmars.Address(pr),
									Cycles: gmars.Address(cy), ReadLimit: gmars.Address(rl), WriteLimit: gmars.Address(wl), Length: gmars.Address(ln), Distance: gmars.Address(ds)})
							}
						}
					}
				}
			}
		}
	}
	for j := 0; j < random; j++ {
		f := func() gmars.Address { return gmars.Address(vals[rng.Intn(len(vals))]) }
		cfg := gmars.SimulatorConfig{Mode: gmars.SimulatorMode(rng.Intn(3)), CoreSize: f(), Processes: f(), Cycles: f(),
			ReadLimit: f(), WriteLimit: f(), Length: f(), Distance: f()}
		if cfg.CoreSize > 3 && rng.Intn(2) == 0 {
			cfg.CoreSize = gmars.Address(3 + rng.Intn(200))
		}
		if rng.Intn(6) == 0 {
			// Mode is an exported uint8-like field that Validate does not look at: any value other
			// than ICWS88 / NOP94 behaves as ICWS94
			cfg.Mode = gmars.SimulatorMode(3 + rng.Intn(253))
		}
		emit(cfg)
	}
	// valid configurations whose Mode is none of the three named values (also the presets with it)
	for _, mo := range []int{3, 4, 17, 127, 128, 255} {
		emit(gmars.NewQuickConfig(gmars.SimulatorMode(mo), gmars.Address(8+rng.Intn(50)), 8, 100, 4))
		pc := []gmars.SimulatorConfig{gmars.ConfigNOP94, gmars.ConfigICWS88, gmars.ConfigNopTiny}[rng.Intn(3)]
		pc.Mode = gmars.SimulatorMode(mo)
		emit(pc)
	}
	return n
}
