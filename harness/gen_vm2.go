package main

// Second generation of VM generators: the input classes generic random generation does not
// reach — long process queues, large cores, limits above the core size, many warriors,
// reset / respawn life cycles, huge congruent offsets.

import (
	"bufio"
	"fmt"
	"math/rand"

	"github.com/bobertlo/gmars"
)

func ins(op gmars.OpCode, md gmars.OpMode, am gmars.AddressMode, a uint64, bm gmars.AddressMode, b uint64) gmars.Instruction {
	return gmars.Instruction{Op: op, OpMode: md, AMode: am, A: gmars.Address(a), BMode: bm, B: gmars.Address(b)}
}

// task factories: warriors that fill their process queue
func splWarriors(m uint64) []gmars.WarriorData {
	return []gmars.WarriorData{
		{Code: []gmars.Instruction{ins(gmars.SPL, gmars.B, gmars.DIRECT, 0, gmars.DIRECT, 0), ins(gmars.JMP, gmars.B, gmars.DIRECT, m-1, gmars.DIRECT, 0)}},
		{Code: []gmars.Instruction{ins(gmars.SPL, gmars.B, gmars.DIRECT, 1, gmars.DIRECT, 0), ins(gmars.NOP, gmars.B, gmars.DIRECT, 0, gmars.DIRECT, 0),
			ins(gmars.NOP, gmars.B, gmars.DIRECT, 0, gmars.DIRECT, 0), ins(gmars.NOP, gmars.B, gmars.DIRECT, 0, gmars.DIRECT, 0), ins(gmars.JMP, gmars.B, gmars.DIRECT, m-4, gmars.DIRECT, 0)}},
		{Code: []gmars.Instruction{ins(gmars.SPL, gmars.B, gmars.DIRECT, 2, gmars.DIRECT, 0), ins(gmars.JMP, gmars.B, gmars.DIRECT, m-1, gmars.DIRECT, 0),
			ins(gmars.SPL, gmars.B, gmars.DIRECT, m-2, gmars.DIRECT, 0), ins(gmars.MOV, gmars.I, gmars.DIRECT, 0, gmars.DIRECT, 1)}, Start: 0},
	}
}

// genBigQueue: process limits far above 256 with warriors that reach them; the queue wraps
func genBigQueue(out *bufio.Writer, rng *rand.Rand, count int) int {
	limits := []uint64{257, 300, 513, 600, 1000, 1025, 4097, 8000}
	for n := 0; n < count; n++ {
		m := uint64(12 + rng.Intn(20))
		p := limits[n%len(limits)]
		if n >= len(limits) {
			p = uint64(257 + rng.Intn(3000))
		}
		cycles := 3*p + 300
		cfg := gmars.SimulatorConfig{Mode: gmars.ICWS94, CoreSize: gmars.Address(m), Processes: gmars.Address(p), Cycles: gmars.Address(cycles),
			ReadLimit: gmars.Address(m), WriteLimit: gmars.Address(m), Length: 1, Distance: 1}
		ws := splWarriors(m)
		c := newAPICase(out, fmt.Sprintf("q%d", n), "battle", cfg, false)
		nw := 1 + rng.Intn(2)
		for i := 0; i < nw; i++ {
			w := ws[rng.Intn(len(ws))]
			c.add(&w)
		}
		for i := 0; i < nw; i++ {
			c.spawn(i, uint64(i)*(m/2))
		}
		step := int(p/3) + 1 + rng.Intn(50)
		for k := 0; k < int(cycles); k++ {
			if c.dead {
				break
			}
			if k%step == step-1 {
				c.runCycle(false)
			} else {
				c.runCycle(true)
			}
		}
		c.run()
		c.end()
	}
	return count
}

// genBigStep: single steps on cores above 65536 cells, limits below the core, large fields
func genBigStep(out *bufio.Writer, rng *rand.Rand, count int) int {
	sizes := []uint64{65537, 70000, 100003, 200001, 400000}
	for n := 0; n < count; n++ {
		m := sizes[n%len(sizes)]
		r, w := m, m
		switch rng.Intn(3) {
		case 0:
			r, w = uint64(2000+rng.Intn(int(m/2))), uint64(2000+rng.Intn(int(m/2)))
		case 1:
			r, w = 8000, 8000
		}
		cfg := gmars.SimulatorConfig{Mode: gmars.ICWS94, CoreSize: gmars.Address(m), Processes: 4, Cycles: 10,
			ReadLimit: gmars.Address(r), WriteLimit: gmars.Address(w), Length: 1, Distance: 1}
		code := make([]gmars.Instruction, m)
		big := func() gmars.Address {
			switch rng.Intn(5) {
			case 0:
				return gmars.Address(65536)
			case 1:
				return gmars.Address(m - 1 - uint64(rng.Intn(20)))
			case 2:
				return gmars.Address(m - uint64(rng.Intn(int(r/2)+1)))
			case 3:
				return gmars.Address(uint64(rng.Int63n(int64(m))))
			default:
				return gmars.Address(uint64(rng.Intn(20)))
			}
		}
		pc := uint64(rng.Int63n(int64(m)))
		ops := []gmars.OpCode{gmars.MUL, gmars.MOV, gmars.ADD, gmars.SUB, gmars.DJN, gmars.JMP, gmars.SPL, gmars.DIV, gmars.MOD, gmars.SEQ, gmars.JMZ}
		ir := gmars.Instruction{Op: ops[rng.Intn(len(ops))], OpMode: gmars.OpMode(rng.Intn(7)), AMode: gmars.AddressMode(rng.Intn(8)), A: big(),
			BMode: gmars.AddressMode(rng.Intn(8)), B: big()}
		code[pc] = ir
		// fill the cells the pointers may reach with large fields
		for _, f := range []uint64{uint64(ir.A), uint64(ir.B)} {
			for _, lim := range []uint64{r, w} {
				t := (pc + foldRef(f, lim, m)) % m
				if t != pc {
					code[t] = gmars.Instruction{Op: gmars.OpCode(rng.Intn(17)), OpMode: gmars.OpMode(rng.Intn(7)), AMode: gmars.AddressMode(rng.Intn(8)), A: big(),
						BMode: gmars.AddressMode(rng.Intn(8)), B: big()}
					t2 := (pc + foldRef(foldRef(f, lim, m)+uint64(code[t].B), lim, m)) % m
					if t2 != pc && t2 != t {
						code[t2] = gmars.Instruction{Op: gmars.DAT, A: big(), B: big()}
					}
				}
			}
		}
		c := newAPICase(out, fmt.Sprintf("g%d", n), "bigstep", cfg, false)
		c.add(&gmars.WarriorData{Code: code, Start: int(pc)})
		c.spawn(0, 0)
		c.runCycle(false)
		c.end()
	}
	return count
}

// genBigMul: arithmetic on cores above 65536 cells with both factors above 65536, so that
// products pass 2^32 (and sums pass 2^17): every arithmetic opcode and modifier, operands
// immediate or direct
func genBigMul(out *bufio.Writer, rng *rand.Rand, count int) int {
	ops := []gmars.OpCode{gmars.MUL, gmars.MUL, gmars.MUL, gmars.ADD, gmars.SUB, gmars.DIV, gmars.MOD}
	for n := 0; n < count; n++ {
		m := []uint64{65537, 70000, 100003}[rng.Intn(3)]
		cfg := gmars.SimulatorConfig{Mode: gmars.ICWS94, CoreSize: gmars.Address(m), Processes: 2, Cycles: 10,
			ReadLimit: gmars.Address(m), WriteLimit: gmars.Address(m), Length: 1, Distance: 1}
		code := make([]gmars.Instruction, 40)
		big := func() gmars.Address {
			switch rng.Intn(3) {
			case 0:
				return gmars.Address(m - 1 - uint64(rng.Intn(50)))
			case 1:
				return gmars.Address(65536 + uint64(rng.Intn(int(m-65536))))
			default:
				return gmars.Address(uint64(rng.Int63n(int64(m))))
			}
		}
		for i := range code {
			code[i] = gmars.Instruction{Op: gmars.DAT, OpMode: gmars.F, AMode: gmars.IMMEDIATE, A: big(), BMode: gmars.IMMEDIATE, B: big()}
		}
		am := []gmars.AddressMode{gmars.IMMEDIATE, gmars.DIRECT}[rng.Intn(2)]
		a := big()
		if am == gmars.DIRECT {
			a = gmars.Address(1 + rng.Intn(30))
		}
		code[0] = gmars.Instruction{Op: ops[rng.Intn(len(ops))], OpMode: gmars.OpMode(rng.Intn(7)), AMode: am, A: a,
			BMode: gmars.DIRECT, B: gmars.Address(1 + rng.Intn(30))}
		c := newAPICase(out, fmt.Sprintf("gm%d", n), "bigstep", cfg, false)
		c.add(&gmars.WarriorData{Code: code, Start: 0})
		c.spawn(0, uint64(rng.Int63n(int64(m))))
		c.runCycle(false)
		c.end()
	}
	return count
}

// genOverLimit: read / write limits above the core size (Validate accepts them; preset nop256)
func genOverLimit(out *bufio.Writer, rng *rand.Rand, count int) int {
	for n := 0; n < count; n++ {
		b := genBattleSpec(rng, 3)
		m := uint64(b.cfg.CoreSize)
		over := func() gmars.Address {
			return gmars.Address([]uint64{m + 1, 2 * m, 3*m + 1, 800, m + m/2}[rng.Intn(5)])
		}
		if n%5 == 0 {
			b.cfg = gmars.ConfigNop256
			b.cfg.Cycles = gmars.Address(30 + rng.Intn(100))
			m = 256
			for i := range b.warriors {
				b.warriors[i] = genWarrior(rng, m, 10)
				b.offsets[i] = uint64(rng.Int63n(int64(m)))
			}
		} else {
			b.cfg.ReadLimit, b.cfg.WriteLimit = over(), over()
			if rng.Intn(3) == 0 {
				b.cfg.ReadLimit = gmars.Address(m)
			}
		}
		// pointers whose sums exceed the core size
		for i := range b.warriors {
			for j := range b.warriors[i].Code {
				if rng.Intn(3) == 0 {
					b.warriors[i].Code[j].A = gmars.Address((m + m - 1 - uint64(rng.Intn(3))) % m)
					b.warriors[i].Code[j].B = gmars.Address((m + m + m - 1 - uint64(rng.Intn(6))) % m)
				}
			}
		}
		c := newAPICase(out, fmt.Sprintf("o%d", n), "battle", b.cfg, true)
		for i := range b.warriors {
			c.add(&b.warriors[i])
		}
		for i := range b.warriors {
			c.spawn(i, b.offsets[i])
		}
		for k := 0; k < 12; k++ {
			c.runCycle(false)
		}
		c.run()
		c.end()
	}
	return count
}

// genCrowd: many warriors (indices above 127 and 255)
func genCrowd(out *bufio.Writer, rng *rand.Rand, count int) int {
	for n := 0; n < count; n++ {
		nw := 130 + rng.Intn(140)
		m := uint64(nw*4 + rng.Intn(50))
		cfg := gmars.SimulatorConfig{Mode: gmars.ICWS94, CoreSize: gmars.Address(m), Processes: 4, Cycles: gmars.Address(5 + rng.Intn(10)),
			ReadLimit: gmars.Address(m), WriteLimit: gmars.Address(m), Length: 1, Distance: 1}
		c := newAPICase(out, fmt.Sprintf("w%d", n), "battle", cfg, rng.Intn(2) == 0)
		ws := make([]gmars.WarriorData, nw)
		for i := range ws {
			ws[i] = genWarrior(rng, m, 3)
			c.add(&ws[i])
		}
		for i := range ws {
			c.spawn(i, uint64(i*4))
		}
		for k := 0; k < 3; k++ {
			c.runCycle(false)
		}
		c.run()
		c.end()
	}
	return count
}

// genLifeCycle: battle decided by a death or by the cycle limit, then Reset (once or twice),
// respawn at the same places, run again; spawning a late warrior after the battle ended; every
// step compared with the reference state machine
func genLifeCycle(out *bufio.Writer, rng *rand.Rand, count int) int {
	for n := 0; n < count; n++ {
		b := genBattleSpec(rng, 3)
		m := uint64(b.cfg.CoreSize)
		if rng.Intn(2) == 0 {
			b.cfg.ReadLimit, b.cfg.WriteLimit = gmars.Address(limitVal(rng, m)), gmars.Address(limitVal(rng, m))
		}
		if rng.Intn(2) == 0 && len(b.warriors) >= 2 {
			// make a later warrior die quickly
			k := 1 + rng.Intn(len(b.warriors)-1)
			b.warriors[k] = gmars.WarriorData{Code: []gmars.Instruction{{Op: gmars.NOP, OpMode: gmars.B}, {Op: gmars.NOP, OpMode: gmars.B}, {Op: gmars.DAT}}}
		}
		c := newAPICase(out, fmt.Sprintf("lc%d", n), "api", b.cfg, rng.Intn(2) == 0)
		for i := range b.warriors {
			c.add(&b.warriors[i])
		}
		for i := range b.warriors {
			c.spawn(i, b.offsets[i])
		}
		c.run()
		switch n % 3 {
		case 0, 1: // reset and replay
			c.reset()
			if n%3 == 1 {
				c.reset()
			}
			for i := range b.warriors {
				c.spawn(i, b.offsets[i])
			}
			for k := 0; k < 4; k++ {
				c.runCycle(false)
			}
			c.run()
		default: // late arrival after the end
			w := genWarrior(rng, m, 4)
			c.add(&w)
			c.spawn(len(b.warriors), uint64(rng.Int63n(int64(m))))
			c.runCycle(false)
			c.runCycle(false)
			c.run()
			for i := range b.warriors { // respawn the dead
				c.spawn(i, b.offsets[i])
			}
			c.runCycle(false)
			c.run()
		}
		for i := 0; i <= len(b.warriors); i++ {
			c.getWarrior(i)
		}
		c.end()
	}
	return count
}

// genRotHuge: congruent offsets near the top of the uint64 range (C12: "any non-negative number
// congruent modulo the core size")
func genRotHuge(out *bufio.Writer, rng *rand.Rand, count int) int {
	for n := 0; n < count; n++ {
		b := genBattleSpec(rng, 2)
		m := uint64(b.cfg.CoreSize)
		k := uint64(rng.Int63n(int64(m)))
		for variant := 0; variant < 2; variant++ {
			c := newAPICase(out, fmt.Sprintf("rh%d%c", n, 'a'+variant), "rot", b.cfg, false)
			for i := range b.warriors {
				c.add(&b.warriors[i])
			}
			for i := range b.warriors {
				off := b.offsets[i]
				if variant == 1 {
					off = (off + k) % m
					// a multiple of m near the top of the range: the largest number congruent to off (the
					// code then "passes" 2^64), one that keeps off + len + start below 2^64, or just above 2^63
					j := (^uint64(0) - off) / m
					switch rng.Intn(3) {
					case 0:
						j = (^uint64(0) - off - 64) / m
					case 1:
						j = (uint64(1)<<63)/m + 1
					}
					off += j * m
				}
				c.spawn(i, off)
			}
			c.run()
			c.dump()
			c.end()
		}
		fmt.Fprintf(out, "P rh%da rh%db %d\n", n, n, k)
	}
	return count
}
