package main

// Third-generation generators for the simulator domains: conjunctions of individually
// unremarkable conditions (a particular pair of cells AND a particular position; a particular
// process limit AND a particular ring position; a particular history of calls AND a particular
// state).

import (
	"bufio"
	"fmt"
	"math/rand"

	"github.com/bobertlo/gmars"
)

// genCmpPairs (step): comparison, arithmetic and jump-on-value opcodes on two cells that are
// equal in all six components, or differ in exactly one of them, executed at every interesting
// position of the core (0, 1, M-3, M-2, M-1) with the referenced cells before, at and after
// the wrap.
func genCmpPairs(out *bufio.Writer, rng *rand.Rand, rounds int) int {
	n := 0
	ops := []gmars.OpCode{gmars.CMP, gmars.SEQ, gmars.SNE, gmars.SLT, gmars.MOV, gmars.ADD, gmars.SUB, gmars.JMZ, gmars.JMN, gmars.DJN}
	for r := 0; r < rounds; r++ {
		for _, op := range ops {
			for md := 0; md < 7; md++ {
				for diff := 0; diff < 8; diff++ { // 0: equal; 1..6: one component differs; 7: random
					m := uint64(5 + rng.Intn(40))
					cfg := gmars.SimulatorConfig{Mode: gmars.ICWS94, CoreSize: gmars.Address(m), Processes: gmars.Address(1 + rng.Intn(3)),
						Cycles: 10, ReadLimit: gmars.Address(m), WriteLimit: gmars.Address(m), Length: 1, Distance: 1}
					if rng.Intn(3) == 0 {
						cfg.ReadLimit, cfg.WriteLimit = gmars.Address(limitVal(rng, m)), gmars.Address(limitVal(rng, m))
					}
					code := make([]gmars.Instruction, m)
					for i := range code {
						code[i] = randInstr(rng, m, m)
					}
					pc := []uint64{0, 1, m - 3, m - 2, m - 1, uint64(rng.Int63n(int64(m)))}[rng.Intn(6)]
					am := gmars.AddressMode(rng.Intn(8))
					bm := gmars.AddressMode(rng.Intn(8))
					if rng.Intn(3) != 0 {
						am, bm = gmars.DIRECT, gmars.DIRECT
					}
					// targets: anywhere, with a bias to cells that make pc+a or pc+b wrap exactly to 0 / M-1
					tgt := func() uint64 {
						switch rng.Intn(5) {
						case 0:
							return (m - pc) % m // absolute address 0
						case 1:
							return (m - pc + m - 1) % m // absolute address M-1
						case 2:
							return 1
						default:
							return uint64(rng.Int63n(int64(m)))
						}
					}
					a, b := tgt(), tgt()
					for try := 0; try < 6 && (a == 0 || b == 0 || a == b); try++ {
						a, b = tgt(), tgt()
					}
					code[pc] = gmars.Instruction{Op: op, OpMode: gmars.OpMode(md), AMode: am, A: gmars.Address(a), BMode: bm, B: gmars.Address(b)}
					ta, tb := (pc+a)%m, (pc+b)%m
					if ta != pc && tb != pc && ta != tb {
						base := randInstr(rng, m, m)
						if rng.Intn(2) == 0 {
							base.A, base.B = gmars.Address(rng.Intn(3)), gmars.Address(rng.Intn(3))
						}
						code[ta], code[tb] = base, base
						c := &code[tb]
						switch diff {
						case 1:
							c.Op = gmars.OpCode((int(c.Op) + 1 + rng.Intn(16)) % 17)
						case 2:
							c.OpMode = gmars.OpMode((int(c.OpMode) + 1 + rng.Intn(6)) % 7)
						case 3:
							c.AMode = gmars.AddressMode((int(c.AMode) + 1 + rng.Intn(7)) % 8)
						case 4:
							c.A = (c.A + 1 + gmars.Address(rng.Intn(int(m-1)))) % gmars.Address(m)
						case 5:
							c.BMode = gmars.AddressMode((int(c.BMode) + 1 + rng.Intn(7)) % 8)
						case 6:
							c.B = (c.B + 1 + gmars.Address(rng.Intn(int(m-1)))) % gmars.Address(m)
						case 7:
							*c = randInstr(rng, m, m)
						}
					}
					c := newAPICase(out, fmt.Sprintf("cp%d", n), "step", cfg, rng.Intn(2) == 0)
					c.add(&gmars.WarriorData{Code: code, Start: int(pc)})
					c.spawn(0, 0)
					c.runCycle(false)
					c.runCycle(false)
					c.end()
					n++
				}
			}
		}
	}
	return n
}

// genQueueRing: process limits of every size class (below, at and above powers of two and
// multiples of 64, up to a few thousand), a queue whose ring head has been moved away from slot
// 0 by a run of single-task cycles before the queue starts to grow, growth up to the limit and
// beyond (pushes dropped), then drain. The full queue is observed every few cycles.
func genQueueRing(out *bufio.Writer, rng *rand.Rand, tag string, count int) int {
	for n := 0; n < count; n++ {
		var p uint64
		switch rng.Intn(6) {
		case 0:
			p = uint64(2 + rng.Intn(70))
		case 1:
			p = uint64(60 + rng.Intn(80))
		case 2:
			base := uint64(64) << uint(rng.Intn(5))
			p = base + uint64(rng.Intn(int(base/2)+8)) - 4 // around and above 64·2^k, below 1.5×
		case 3:
			base := uint64(64) << uint(rng.Intn(5))
			p = base + base/2 + uint64(rng.Intn(int(base/2)))
		case 4:
			p = uint64(250 + rng.Intn(300))
		default:
			p = uint64(2 + rng.Intn(2500))
		}
		nops := 0
		switch rng.Intn(4) {
		case 0:
			nops = 0
		case 1:
			nops = rng.Intn(int(p) + 1)
		case 2:
			nops = int(p)/2 + rng.Intn(int(p)/2+1)
		default:
			nops = rng.Intn(2*int(p) + 2)
		}
		if nops > 3000 {
			nops = 3000
		}
		kind := rng.Intn(4)
		m := uint64(nops + 40 + rng.Intn(30))
		var code []gmars.Instruction
		nop := ins(gmars.NOP, gmars.B, gmars.DIRECT, 0, gmars.DIRECT, 0)
		for i := 0; i < nops; i++ {
			code = append(code, nop)
		}
		switch kind {
		case 0: // spl 0 / jmp -1
			code = append(code, ins(gmars.SPL, gmars.B, gmars.DIRECT, 0, gmars.DIRECT, 0), ins(gmars.JMP, gmars.B, gmars.DIRECT, m-1, gmars.DIRECT, 0))
		case 1: // a run of spl 1 (doubling), then a loop that keeps every task alive
			k := 2 + rng.Intn(11)
			for i := 0; i < k; i++ {
				code = append(code, ins(gmars.SPL, gmars.B, gmars.DIRECT, 1, gmars.DIRECT, 0))
			}
			code = append(code, ins(gmars.JMP, gmars.B, gmars.DIRECT, 0, gmars.DIRECT, 0))
		case 2: // spl 2 / jmp -1 / spl -2 / mov 0,1: growth with tasks that also die
			code = append(code, ins(gmars.SPL, gmars.B, gmars.DIRECT, 2, gmars.DIRECT, 0), ins(gmars.JMP, gmars.B, gmars.DIRECT, m-1, gmars.DIRECT, 0),
				ins(gmars.SPL, gmars.B, gmars.DIRECT, m-2, gmars.DIRECT, 0), ins(gmars.DAT, gmars.F, gmars.DIRECT, 0, gmars.DIRECT, 0))
		default: // spl 0 / nop / jmp -2: queue entries alternate between three addresses
			code = append(code, ins(gmars.SPL, gmars.B, gmars.DIRECT, 0, gmars.DIRECT, 0), nop, ins(gmars.JMP, gmars.B, gmars.DIRECT, m-2, gmars.DIRECT, 0))
		}
		cycles := uint64(nops) + 3*p + 40
		if cycles > 9000 {
			cycles = 9000
		}
		cfg := gmars.SimulatorConfig{Mode: gmars.ICWS94, CoreSize: gmars.Address(m), Processes: gmars.Address(p), Cycles: gmars.Address(cycles),
			ReadLimit: gmars.Address(m), WriteLimit: gmars.Address(m), Length: 1, Distance: 1}
		c := newAPICase(out, fmt.Sprintf("qr%d", n), tag, cfg, false)
		w := gmars.WarriorData{Code: code}
		c.add(&w)
		c.spawn(0, uint64(rng.Intn(int(m))))
		step := 1 + rng.Intn(int(p)/3+2)
		if p < 150 {
			step = 1 + rng.Intn(3)
		}
		for k := 0; k < int(cycles); k++ {
			if c.dead {
				break
			}
			c.runCycle(k%step != step-1)
		}
		c.runCycle(false)
		c.end()
	}
	return count
}

// genRotAdversarial (rot): the shift is chosen so that a cell the warrior refers to (its own
// instructions, its pointer targets, the targets of those targets) lands exactly on address 0,
// 1, M-2 or M-1; the warriors are biased to direct-mode MOV / compare / jump instructions with
// backward references, warriors as long as the core, entry points in the wrapped part.
func genRotAdversarial(out *bufio.Writer, rng *rand.Rand, count int) int {
	for n := 0; n < count; n++ {
		m := uint64(6 + rng.Intn(40))
		cfg := gmars.SimulatorConfig{Mode: gmars.ICWS94, CoreSize: gmars.Address(m), Processes: gmars.Address(1 + rng.Intn(6)),
			Cycles: gmars.Address(4 + rng.Intn(60)), ReadLimit: gmars.Address(m), WriteLimit: gmars.Address(m), Length: 1, Distance: 1}
		if rng.Intn(3) == 0 {
			cfg.ReadLimit, cfg.WriteLimit = gmars.Address(limitVal(rng, m)), gmars.Address(limitVal(rng, m))
		}
		prelude := rng.Intn(5) == 0 // an earlier battle and a Reset on the same simulator
		if prelude {
			m = []uint64{65, 100, 129, 200, 257, 800}[rng.Intn(6)]
			cfg.CoreSize, cfg.ReadLimit, cfg.WriteLimit = gmars.Address(m), gmars.Address(m), gmars.Address(m)
		}
		ln := 1 + rng.Intn(8)
		if rng.Intn(6) == 0 {
			ln = int(m) // as long as the core
		} else if rng.Intn(6) == 0 {
			ln = int(m) - 1 - rng.Intn(2)
		} else if !prelude && rng.Intn(8) == 0 {
			ln = 2*int(m) + rng.Intn(int(m)+2) - 1 // twice the core and more
		}
		if ln < 1 {
			ln = 1
		}
		w := genWarrior(rng, m, ln)
		for len(w.Code) < ln {
			w.Code = append(w.Code, randInstr(rng, m, m))
		}
		ops := []gmars.OpCode{gmars.MOV, gmars.MOV, gmars.CMP, gmars.SEQ, gmars.SNE, gmars.SLT, gmars.JMP, gmars.JMZ, gmars.DJN, gmars.ADD, gmars.SPL}
		for j := range w.Code {
			if rng.Intn(2) == 0 {
				w.Code[j].Op = ops[rng.Intn(len(ops))]
				if rng.Intn(2) == 0 {
					w.Code[j].AMode, w.Code[j].BMode = gmars.DIRECT, gmars.DIRECT
				}
				if rng.Intn(2) == 0 {
					w.Code[j].OpMode = gmars.I
				}
				if rng.Intn(2) == 0 {
					w.Code[j].A = gmars.Address((m - uint64(1+rng.Intn(ln+2))%m) % m) // backward reference
				}
			}
		}
		w.Start = rng.Intn(len(w.Code))
		if rng.Intn(12) == 0 {
			// fields outside [0,M) (only the API can make them): placement must still not matter
			vals := []uint64{m, 2*m - 1, 1 << 32, 1<<63 + 3, ^uint64(0), ^uint64(0) - m}
			for j := range w.Code {
				if rng.Intn(2) == 0 {
					w.Code[j].A = gmars.Address(vals[rng.Intn(len(vals))])
				} else {
					w.Code[j].B = gmars.Address(vals[rng.Intn(len(vals))])
				}
			}
		}
		base := uint64(rng.Int63n(int64(m)))
		// pick a cell of interest (relative to the load address) and a landing address
		j := rng.Intn(len(w.Code))
		rel := uint64(j)
		switch rng.Intn(4) {
		case 0:
			rel = uint64(j) + uint64(w.Code[j].A)
		case 1:
			rel = uint64(j) + uint64(w.Code[j].B)
		case 2:
			rel = uint64(w.Start)
		}
		land := []uint64{0, 1, m - 1, m - 2, 0, m - 1}[rng.Intn(6)]
		// base + k + rel ≡ land (mod m)
		k := (land + 3*m - (base+rel)%m) % m
		var second *gmars.WarriorData
		var off2 uint64
		if rng.Intn(2) == 0 {
			x := genWarrior(rng, m, 4)
			second, off2 = &x, uint64(rng.Int63n(int64(m)))
		}
		for variant := 0; variant < 2; variant++ {
			c := newAPICase(out, fmt.Sprintf("ra%d%c", n, 'a'+variant), "rot", cfg, false)
			c.add(&w)
			if second != nil {
				c.add(second)
			}
			if !prelude && n%7 == 3 {
				// spawned at the largest 64-bit number congruent to its placement and Reset at once,
				// before anything has executed: the core must be empty again
				top := ^uint64(0)
				c.spawn(0, top-(top-base)%m)
				c.reset()
			}
			if prelude {
				// the same earlier battle in both variants: a quiet warrior loaded across the end of
				// the core, a few cycles, Reset — the compared battle then starts from an empty core
				c.spawn(0, m-1-uint64(n%5))
				c.runCycle(true)
				c.runCycle(true)
				c.reset()
			}
			sh := uint64(0)
			if variant == 1 {
				sh = k
			}
			off0 := (base+sh)%m + uint64(variant)*uint64(rng.Intn(3))*m
			if variant == 1 && rng.Intn(3) == 0 {
				top := ^uint64(0)
				off0 = top - (top-(base+sh)%m)%m // the largest 64-bit number congruent to the placement
			}
			c.spawn(0, off0)
			if second != nil {
				c.spawn(1, (off2+sh)%m)
			}
			if n%2 == 0 {
				c.run()
			} else {
				for j := 0; j < int(cfg.Cycles)+1; j++ {
					c.runCycle(true)
				}
			}
			c.dump()
			c.end()
		}
		fmt.Fprintf(out, "P ra%da ra%db %d\n", n, n, k)
	}
	return count
}

// genAlias (api): the caller reuses ONE WarriorData variable for several AddWarrior calls,
// changing its contents in between (same name, start and length, or not), and mutates it after
// the last call; three or more warriors observed through handles obtained before later
// AddWarrior calls; respawn of a dead warrior without Reset after the battle was decided.
func genAlias(out *bufio.Writer, rng *rand.Rand, count int) int {
	for n := 0; n < count; n++ {
		b := genBattleSpec(rng, 2)
		m := uint64(b.cfg.CoreSize)
		b.cfg.Cycles = gmars.Address(5 + rng.Intn(60))
		c := newAPICase(out, fmt.Sprintf("al%d", n), "api", b.cfg, rng.Intn(2) == 0)
		nw := 2 + rng.Intn(4)
		ln := 1 + rng.Intn(5)
		shared := &gmars.WarriorData{}
		var ws []gmars.WarriorData
		for i := 0; i < nw; i++ {
			w := genWarrior(rng, m, ln)
			for len(w.Code) < ln {
				w.Code = append(w.Code, randInstr(rng, m, m))
			}
			w.Code = w.Code[:ln]
			w.Name, w.Author = "same", "same"
			if rng.Intn(2) == 0 {
				w.Start = 0
			} else {
				w.Start = w.Start % ln
			}
			ws = append(ws, w)
		}
		for i := range ws {
			if rng.Intn(4) == 0 {
				c.add(&ws[i]) // a fresh variable now and then
				continue
			}
			// reuse the shared variable: overwrite the struct, or edit the code slice in place
			if rng.Intn(2) == 0 || len(shared.Code) != ln {
				*shared = gmars.WarriorData{Name: ws[i].Name, Author: ws[i].Author, Start: ws[i].Start, Code: append([]gmars.Instruction(nil), ws[i].Code...)}
			} else {
				copy(shared.Code, ws[i].Code)
				shared.Start = ws[i].Start
			}
			c.add(shared)
		}
		// scribble over the caller's copy after the last add
		for j := range shared.Code {
			shared.Code[j] = gmars.Instruction{Op: gmars.DAT}
		}
		shared.Start = 0
		offs := make([]uint64, nw)
		for i := range ws {
			offs[i] = uint64(rng.Int63n(int64(m)))
			c.spawn(i, offs[i])
		}
		for k := 0; k < 3; k++ {
			c.runCycle(false)
		}
		c.run()
		// respawn the dead without Reset and go on
		if rng.Intn(2) == 0 {
			for i := range ws {
				if rng.Intn(2) == 0 {
					c.spawn(i, offs[i])
				}
			}
			for k := 0; k < 4; k++ {
				c.runCycle(false)
			}
			c.run()
		}
		for i := 0; i < nw; i++ {
			c.getWarrior(i)
		}
		c.end()
	}
	return count
}

// genLongWarrior (api): warriors longer than the core (AddWarrior does not limit the length),
// spawned at offsets whose sum with the length passes the end of the core once or twice, with
// the state recorder attached; resets and respawns at other places.
func genLongWarrior(out *bufio.Writer, rng *rand.Rand, count int) int {
	for n := 0; n < count; n++ {
		m := uint64(4 + rng.Intn(12))
		cfg := gmars.SimulatorConfig{Mode: gmars.ICWS94, CoreSize: gmars.Address(m), Processes: gmars.Address(1 + rng.Intn(4)),
			Cycles: gmars.Address(3 + rng.Intn(20)), ReadLimit: gmars.Address(m), WriteLimit: gmars.Address(m), Length: 1, Distance: 1}
		ln := int(m) + rng.Intn(2*int(m)+2)
		if rng.Intn(3) == 0 {
			ln = int(m) - rng.Intn(3)
		}
		if ln < 1 {
			ln = 1
		}
		w := gmars.WarriorData{Name: "long"}
		for i := 0; i < ln; i++ {
			w.Code = append(w.Code, randInstr(rng, m, m))
		}
		w.Start = rng.Intn(ln)
		c := newAPICase(out, fmt.Sprintf("lw%d", n), "api", cfg, rng.Intn(2) == 0)
		c.add(&w)
		for round := 0; round < 3; round++ {
			off := uint64(rng.Int63n(int64(m)))
			switch rng.Intn(4) {
			case 0:
				off = m - 1
			case 1:
				off = m - 2
			case 2:
				off += m * uint64(rng.Intn(3))
			}
			c.spawn(0, off)
			c.runCycle(false)
			c.runCycle(false)
			c.run()
			c.reset()
		}
		c.end()
	}
	return count
}

// genManyResets (api): one simulator and one recorder living through several hundred
// Reset calls (counters of any width wrap), with a few cycles of battle between some of them;
// cells written before a reset must read as empty afterwards, however many resets went by.
func genManyResets(out *bufio.Writer, rng *rand.Rand, count int) int {
	for n := 0; n < count; n++ {
		m := uint64(6 + rng.Intn(8))
		cfg := gmars.SimulatorConfig{Mode: gmars.ICWS94, CoreSize: gmars.Address(m), Processes: 2,
			Cycles: 6, ReadLimit: gmars.Address(m), WriteLimit: gmars.Address(m), Length: 1, Distance: 1}
		c := newAPICase(out, fmt.Sprintf("mr%d", n), "api", cfg, rng.Intn(2) == 0)
		w := genWarrior(rng, m, 3)
		c.add(&w)
		total := []int{255, 256, 257, 300, 511, 512, 513, 520, 770}[rng.Intn(9)]
		for k := 0; k < total; k++ {
			if c.dead {
				break
			}
			if k == 0 || rng.Intn(40) == 0 || k == total-1 {
				c.spawn(0, uint64(rng.Int63n(int64(m))))
				c.runCycle(false)
				c.runCycle(false)
			}
			c.reset()
		}
		c.spawn(0, uint64(rng.Int63n(int64(m))))
		c.runCycle(false)
		c.end()
	}
	return count
}

// attach adds one more (silent) reporter in the middle of a battle: reporters attached earlier must
// see exactly what they would have seen without it
func (c *apiCase) attach() {
	if c.dead {
		return
	}
	f := guarded(c.deadline, func() { c.sim.AddReporter(&logReporter{}) })
	c.finish("M", f, "ok", false)
}

// genExtremes (api): values at the top of the 64-bit range where nothing else in a battle is
// unusual — spawn offsets of 2^63 and above up to 2^64-1 (any number congruent to a placement
// denotes that placement), cycle limits of 2^63 and above (an "unlimited" battle that is decided
// by a death), a further reporter attached while warriors are alive.
func genExtremes(out *bufio.Writer, rng *rand.Rand, count int) int {
	top := ^uint64(0)
	for n := 0; n < count; n++ {
		b := genBattleSpec(rng, 3)
		m := uint64(b.cfg.CoreSize)
		hugeCycles := rng.Intn(3) == 0
		if hugeCycles {
			b.cfg.Cycles = gmars.Address([]uint64{1 << 63, 1<<63 + 1, top, top - 1, 1<<63 - 1, 1 << 62}[rng.Intn(6)])
			// the battle must be decided by deaths: every warrior is a single DAT (whatever is
			// loaded over it is a DAT too), so all of them die in the first cycle
			for i := range b.warriors {
				b.warriors[i] = gmars.WarriorData{Code: []gmars.Instruction{{Op: gmars.DAT}}}
			}
		}
		c := newAPICase(out, fmt.Sprintf("ex%d", n), "api", b.cfg, rng.Intn(2) == 0)
		if !hugeCycles && rng.Intn(6) == 0 {
			// WarriorData.Start is an int: a negative one is accepted by AddWarrior (tie only)
			k := rng.Intn(len(b.warriors))
			b.warriors[k].Start = -[]int{1, 2, int(m), int(m) + 1, 3}[rng.Intn(5)]
			for i := range b.offsets {
				b.offsets[i] = uint64(rng.Intn(4))
			}
		}
		for i := range b.warriors {
			c.add(&b.warriors[i])
		}
		for i := range b.warriors {
			off := b.offsets[i]
			ln := uint64(len(b.warriors[i].Code))
			if b.warriors[i].Start < 0 {
				c.spawn(i, off)
				continue
			}
			switch rng.Intn(7) {
			case 0:
				off = top
			case 1:
				off = top - ln + 1
			case 2:
				off = top - ln
			case 3:
				off = 1<<63 + off
			case 4:
				off = 1 << 63
			case 5:
				off = top - uint64(rng.Intn(int(2*m)))
			}
			c.spawn(i, off)
		}
		if rng.Intn(3) != 0 {
			c.runCycle(false)
			if rng.Intn(2) == 0 {
				c.attach()
			}
			c.runCycle(false)
		}
		c.run()
		if rng.Intn(2) == 0 {
			c.reset()
			c.spawn(0, top-uint64(rng.Intn(4)))
			c.attach()
			c.runCycle(false)
			c.run()
		}
		for i := range b.warriors {
			c.getWarrior(i)
		}
		c.end()
	}
	return count
}

// genWild (tag wild, tie only): warriors whose fields lie outside [0,M) — no property covers them,
// but the simulator accepts them and the model says what it does with them
func genWild(out *bufio.Writer, rng *rand.Rand, count int) int {
	for n := 0; n < count; n++ {
		b := genBattleSpec(rng, 2)
		m := uint64(b.cfg.CoreSize)
		b.cfg.Cycles = gmars.Address(3 + rng.Intn(20))
		vals := []uint64{m, m + 1, 2*m - 1, 2 * m, 1 << 32, 1<<32 + 1, 1 << 63, 1<<63 + 3, ^uint64(0), ^uint64(0) - 1, ^uint64(0) - m}
		for i := range b.warriors {
			for j := range b.warriors[i].Code {
				if rng.Intn(3) == 0 {
					b.warriors[i].Code[j].A = gmars.Address(vals[rng.Intn(len(vals))])
				}
				if rng.Intn(3) == 0 {
					b.warriors[i].Code[j].B = gmars.Address(vals[rng.Intn(len(vals))])
				}
			}
		}
		c := newAPICase(out, fmt.Sprintf("wf%d", n), "wild", b.cfg, false)
		for i := range b.warriors {
			c.add(&b.warriors[i])
		}
		for i := range b.warriors {
			c.spawn(i, b.offsets[i])
		}
		for k := 0; k < 6; k++ {
			c.runCycle(false)
		}
		c.run()
		c.end()
	}
	return count
}

// genSoak (thorough tier only): one battle with a process limit above 2^20 that is not a power
// of two, followed cycle by cycle until the queue has been full, has wrapped and has drained
func genSoak(out *bufio.Writer, rng *rand.Rand) int {
	p := uint64(1<<20 + 400000 + rng.Intn(100000))
	m := uint64(40)
	cycles := 2*p + 700000
	cfg := gmars.SimulatorConfig{Mode: gmars.ICWS94, CoreSize: gmars.Address(m), Processes: gmars.Address(p), Cycles: gmars.Address(cycles + 10),
		ReadLimit: gmars.Address(m), WriteLimit: gmars.Address(m), Length: 1, Distance: 1}
	c := newAPICase(out, "soak0", "battle", cfg, false)
	nops := 3 + rng.Intn(20)
	var code []gmars.Instruction
	for i := 0; i < nops; i++ {
		code = append(code, ins(gmars.NOP, gmars.B, gmars.DIRECT, 0, gmars.DIRECT, 0))
	}
	code = append(code, ins(gmars.SPL, gmars.B, gmars.DIRECT, 0, gmars.DIRECT, 0), ins(gmars.JMP, gmars.B, gmars.DIRECT, m-1, gmars.DIRECT, 0))
	w := gmars.WarriorData{Code: code}
	c.add(&w)
	c.spawn(0, 0)
	for k := uint64(0); k < cycles; k++ {
		if c.dead {
			break
		}
		c.runCycle(k%500000 != 499999)
	}
	c.runCycle(false)
	c.end()
	return 1
}

// genRespawnStorm (api): a tiny cycle limit and a process limit far above it; the battle is
// decided again and again by the single-survivor rule in the middle of a cycle, the dead warrior
// is respawned without Reset (the same cycle is then run again), the survivor splits on every
// turn — its queue grows faster than one task per counted cycle
func genRespawnStorm(out *bufio.Writer, rng *rand.Rand, tag string, count int) int {
	for n := 0; n < count; n++ {
		m := uint64(20 + rng.Intn(60))
		cfg := gmars.SimulatorConfig{Mode: gmars.ICWS94, CoreSize: gmars.Address(m), Processes: gmars.Address(20 + rng.Intn(200)),
			Cycles: gmars.Address(2 + rng.Intn(6)), ReadLimit: gmars.Address(m), WriteLimit: gmars.Address(m), Length: 1, Distance: 1}
		c := newAPICase(out, fmt.Sprintf("rs%d", n), tag, cfg, false)
		var spl []gmars.Instruction
		for i := 0; i < 8+rng.Intn(8); i++ {
			spl = append(spl, ins(gmars.SPL, gmars.B, gmars.DIRECT, uint64(1+rng.Intn(2)), gmars.DIRECT, 0))
		}
		spl = append(spl, ins(gmars.JMP, gmars.B, gmars.DIRECT, m-uint64(len(spl)), gmars.DIRECT, 0))
		survivor := gmars.WarriorData{Code: spl}
		victim := gmars.WarriorData{Code: []gmars.Instruction{{Op: gmars.DAT}}}
		if rng.Intn(3) == 0 {
			victim = gmars.WarriorData{Code: []gmars.Instruction{ins(gmars.NOP, gmars.B, gmars.DIRECT, 0, gmars.DIRECT, 0), {Op: gmars.DAT}}}
		}
		first := rng.Intn(2) // who is loaded first matters for what "the middle of a cycle" is
		if first == 0 {
			c.add(&survivor)
			c.add(&victim)
		} else {
			c.add(&victim)
			c.add(&survivor)
		}
		c.spawn(first, 0)
		c.spawn(1-first, m/2)
		for k := 0; k < 12+rng.Intn(12); k++ {
			c.runCycle(false)
			if rng.Intn(2) == 0 {
				c.spawn(1-first, m/2) // respawn the victim (refused while it is alive)
			}
			if rng.Intn(9) == 0 {
				c.disturb(rng)
			}
		}
		c.run()
		c.getWarrior(first)
		c.end()
	}
	return count
}

// genRingEdge (battle / api): process limits just above a power of two (64 … 8192, one above
// 65536 in the thorough tier) and a ring head placed exactly at limit − 2^k, one before and one
// after, when the queue passes 2^k entries: the boundary case of every grow-in-steps ring buffer
func genRingEdge(out *bufio.Writer, rng *rand.Rand, tag string, count int, thorough bool) int {
	for n := 0; n < count; n++ {
		k := []uint{6, 6, 6, 7, 7, 7, 8, 8, 9, 9, 10, 11, 12, 13}[rng.Intn(14)] // 64 … 8192, small ones more often (they are cheap)
		if !thorough && k > 11 {
			k = uint(6 + rng.Intn(3)) // quick tier: limits up to 4096 (the larger ones are in the thorough tier)
		}
		if thorough && n == 0 && tag == "battle" {
			k = 16 // one case with a limit above 65536 (16 minutes in the driver): battle domain only
		}
		base := uint64(1) << k
		p := base + 1 + uint64(rng.Intn(int(base)-1))
		if rng.Intn(3) == 0 {
			p = base + base/4 + uint64(rng.Intn(int(base/4)))
		}
		// after `nops` single-task cycles a block of SPL 1 grows the queue by one task per cycle:
		// when it holds 2^k tasks the ring head is at (nops + 2^k − 1) mod 2^k
		target := (p - base + []uint64{0, 0, 0, 1, 2, base - 1}[rng.Intn(6)]) % base // head position wanted: limit − 2^k (mostly), one before, one or two after
		nops := int((target + 1) % base)
		if rng.Intn(4) == 0 {
			nops = int(target)
		}
		m := uint64(nops + 60)
		var code []gmars.Instruction
		nop := ins(gmars.NOP, gmars.B, gmars.DIRECT, 0, gmars.DIRECT, 0)
		for i := 0; i < nops; i++ {
			code = append(code, nop)
		}
		if rng.Intn(2) == 0 {
			for i := 0; i < 20; i++ {
				code = append(code, ins(gmars.SPL, gmars.B, gmars.DIRECT, 1, gmars.DIRECT, 0))
			}
			code = append(code, ins(gmars.JMP, gmars.B, gmars.DIRECT, 0, gmars.DIRECT, 0))
		} else {
			code = append(code, ins(gmars.SPL, gmars.B, gmars.DIRECT, 0, gmars.DIRECT, 0), ins(gmars.JMP, gmars.B, gmars.DIRECT, m-1, gmars.DIRECT, 0))
		}
		cycles := uint64(nops) + 2*p + base + 50
		cfg := gmars.SimulatorConfig{Mode: gmars.ICWS94, CoreSize: gmars.Address(m), Processes: gmars.Address(p), Cycles: gmars.Address(cycles),
			ReadLimit: gmars.Address(m), WriteLimit: gmars.Address(m), Length: 1, Distance: 1}
		c := newAPICase(out, fmt.Sprintf("re%d", n), tag, cfg, false)
		w := gmars.WarriorData{Code: code}
		c.add(&w)
		c.spawn(0, 0)
		step := int(p/2) + 1
		for i := 0; i < int(cycles); i++ {
			if c.dead {
				break
			}
			c.runCycle(i%step != step-1)
		}
		c.runCycle(false)
		c.end()
	}
	return count
}

// genCounts (api): things that are counted — 65 536 and more resets of one simulator and
// recorder, 32 769 and more warriors in one simulator (indices past int16), an empty warrior at
// a non-zero offset, other simulators created while this one is alive
func genCounts(out *bufio.Writer, rng *rand.Rand, thorough bool) int {
	n := 0
	// resets
	for _, total := range []int{65536, 65537, 131072} {
		if total > 70000 && !thorough {
			continue
		}
		m := uint64(6 + rng.Intn(6))
		cfg := gmars.SimulatorConfig{Mode: gmars.ICWS94, CoreSize: gmars.Address(m), Processes: 2, Cycles: 6,
			ReadLimit: gmars.Address(m), WriteLimit: gmars.Address(m), Length: 1, Distance: 1}
		c := newAPICase(out, fmt.Sprintf("cn%d", n), "api", cfg, true)
		w := gmars.WarriorData{Code: []gmars.Instruction{ins(gmars.MOV, gmars.I, gmars.DIRECT, 0, gmars.DIRECT, 1)}}
		c.add(&w)
		c.spawn(0, 2)
		c.runCycle(false)
		for k := 0; k < total-1; k++ {
			c.resetQuiet()
		}
		c.reset() // every address must read as empty, the warrior is not alive, a spawn is accepted
		c.getWarrior(0)
		c.spawn(0, 1)
		c.runCycle(false)
		c.end()
		n++
	}
	// warriors (on a core above 300 cells: the driver follows the model only, not the list-based reference)
	{
		m := uint64(320)
		cfg := gmars.SimulatorConfig{Mode: gmars.ICWS94, CoreSize: gmars.Address(m), Processes: 2, Cycles: 4,
			ReadLimit: gmars.Address(m), WriteLimit: gmars.Address(m), Length: 1, Distance: 1}
		c := newAPICase(out, fmt.Sprintf("cn%d", n), "api", cfg, false)
		w := gmars.WarriorData{Code: []gmars.Instruction{ins(gmars.MOV, gmars.I, gmars.DIRECT, 0, gmars.DIRECT, 1)}}
		total := 32770
		if thorough {
			total = 65540
		}
		for k := 0; k < total; k++ {
			c.addQuiet(&w)
		}
		c.spawn(total-1, 3)
		c.spawn(32768, 9)
		c.runCycle(false)
		c.runCycle(false)
		c.getWarrior(total - 1)
		c.end()
		n++
	}
	// empty warriors at every kind of offset
	for k := 0; k < 6; k++ {
		b := genBattleSpec(rng, 2)
		m := uint64(b.cfg.CoreSize)
		c := newAPICase(out, fmt.Sprintf("cn%d", n), "api", b.cfg, false)
		empty := gmars.WarriorData{}
		c.add(&b.warriors[0])
		c.add(&empty)
		c.spawn(0, b.offsets[0])
		c.spawn(1, []uint64{1, m - 1, m, m + 3, uint64(rng.Intn(int(m))), ^uint64(0)}[k])
		c.runCycle(false)
		c.run()
		c.getWarrior(1)
		c.end()
		n++
	}
	return n
}

// genLifeCycleBig (api): the life cycles of genLifeCycle on cores of 65 … 1000 cells with
// placements across the end of the core; after Reset the whole core must read as empty (the
// observation lists every cell that differs from before)
func genLifeCycleBig(out *bufio.Writer, rng *rand.Rand, count int) int {
	for n := 0; n < count; n++ {
		m := []uint64{65, 100, 127, 128, 129, 200, 256, 257, 300, 800, 1000}[rng.Intn(11)]
		cfg := gmars.SimulatorConfig{Mode: gmars.ICWS94, CoreSize: gmars.Address(m), Processes: gmars.Address(1 + rng.Intn(6)),
			Cycles: gmars.Address(5 + rng.Intn(40)), ReadLimit: gmars.Address(m), WriteLimit: gmars.Address(m), Length: 1, Distance: 1}
		if rng.Intn(2) == 0 {
			cfg.ReadLimit, cfg.WriteLimit = gmars.Address(limitVal(rng, m)), gmars.Address(limitVal(rng, m))
		}
		c := newAPICase(out, fmt.Sprintf("lb%d", n), "api", cfg, rng.Intn(2) == 0)
		nw := 1 + rng.Intn(3)
		var ws []gmars.WarriorData
		for i := 0; i < nw; i++ {
			ws = append(ws, genWarrior(rng, m, 8))
		}
		for i := range ws {
			c.add(&ws[i])
		}
		for round := 0; round < 3; round++ {
			for i := range ws {
				off := uint64(rng.Int63n(int64(m)))
				if rng.Intn(2) == 0 {
					off = m - 1 - uint64(rng.Intn(5)) // across the end of the core
				}
				c.spawn(i, off)
			}
			for k := 0; k < 3; k++ {
				c.runCycle(false)
			}
			if rng.Intn(3) == 0 {
				c.disturb(rng)
			}
			c.run()
			c.reset()
		}
		c.end()
	}
	return count
}
