package main

// genRotReuse (C12, round 8): the rotated battle is played in a simulator that already hosted the
// same warriors at another placement and was Reset, on cores of more than 65 536 cells (sizes
// that are and are not multiples of 65 536). The warriors store, add and decrement tens of
// thousands of cells away from their code, and the first battle is placed so that a warrior wraps
// past the end of the core. The fresh battle at shift 0 and the reused simulator's battle at
// shift k must be rotations of one another.

import (
	"bufio"
	"fmt"
	"math/rand"

	"github.com/bobertlo/gmars"
)

func genRotReuse(out *bufio.Writer, rng *rand.Rand, count int) int {
	for n := 0; n < count; n++ {
		m := uint64(65537 + rng.Intn(240000))
		switch n % 8 {
		case 0, 1:
			m = 100000
		case 7:
			m = 131072
		}
		cfg := gmars.NewQuickConfig(gmars.ICWS94, gmars.Address(m), 8, gmars.Address(24+rng.Intn(40)), 100)
		family := n % 8 // 0, 5: a warrior that stores nothing, alone; 1-4: ONE far-reaching instruction, alone; 6, 7: mixtures
		nw := 1 + rng.Intn(2)
		if family < 6 {
			nw = 1
		}
		var ws []gmars.WarriorData
		var offs []uint64
		for i := 0; i < nw; i++ {
			far := func() gmars.Address { return gmars.Address(m/4 + uint64(rng.Int63n(int64(m/2)))) }
			code := []gmars.Instruction{
				{Op: gmars.ADD, OpMode: gmars.AB, AMode: gmars.IMMEDIATE, A: 1, BMode: gmars.DIRECT, B: far()},
				{Op: gmars.DJN, OpMode: gmars.B, AMode: gmars.DIRECT, A: 1, BMode: gmars.DIRECT, B: far()},
				{Op: gmars.MOV, OpMode: gmars.I, AMode: gmars.DIRECT, A: gmars.Address(m - 2), BMode: gmars.DIRECT, B: far()},
				{Op: gmars.SUB, OpMode: gmars.F, AMode: gmars.DIRECT, A: 0, BMode: gmars.B_INDIRECT, B: 1},
				{Op: gmars.DJN, OpMode: gmars.F, AMode: gmars.DIRECT, A: gmars.Address(m - 4), BMode: gmars.B_DECREMENT, B: far()},
				{Op: gmars.JMP, OpMode: gmars.B, AMode: gmars.DIRECT, A: gmars.Address(m - 5)},
			}
			rng.Shuffle(4, func(a, b int) { code[a], code[b] = code[b], code[a] })
			kind := rng.Intn(3)
			if family == 0 || family == 5 {
				kind = 0
			} else if family < 5 {
				kind = 1
			}
			switch kind {
			case 0:
				// a warrior that stores nothing: it spins on its first cell, the rest of its
				// code is never executed (only LOADING touches those cells)
				code[0] = gmars.Instruction{Op: gmars.JMP, OpMode: gmars.B, AMode: gmars.DIRECT, A: 0}
				code = code[:2+rng.Intn(5)]
			case 1:
				// exactly ONE far-reaching instruction (its kind varies), then a jump back
				far1 := code[rng.Intn(5)]
				if family < 5 {
					for _, c := range code {
						if c.Op == []gmars.OpCode{gmars.DJN, gmars.DJN, gmars.ADD, gmars.MOV}[family-1] && (c.OpMode == gmars.F) == (family == 2) {
							far1 = c
						}
					}
				}
				if far1.Op == gmars.SUB {
					far1 = code[4]
				}
				code = []gmars.Instruction{far1, {Op: gmars.JMP, OpMode: gmars.B, AMode: gmars.DIRECT, A: gmars.Address(m - 1)}}
			}
			ws = append(ws, gmars.WarriorData{Name: "far", Author: "h", Code: code})
			offs = append(offs, uint64(i)*(m/2)+uint64(rng.Intn(1000)))
		}
		// first placement: the first warrior wraps past the end of the core (or anywhere)
		j := (m - offs[0]%m + m - 1 - uint64(rng.Intn(len(ws[0].Code)-1))) % m // at least one cell wraps
		if family >= 1 && family <= 4 || family >= 6 && rng.Intn(3) == 0 {
			j = uint64(rng.Int63n(int64(m - 2000))) // anywhere, not wrapping
		}
		k := uint64(rng.Int63n(int64(m)))
		if rng.Intn(3) == 0 {
			k = (j + 65536) % m // the same position one block further
		}
		for variant := 0; variant < 2; variant++ {
			c := newAPICase(out, fmt.Sprintf("ru%d%c", n, 'a'+variant), "rot", cfg, false)
			for i := range ws {
				c.add(&ws[i])
			}
			if variant == 1 {
				for i := range ws {
					c.spawn(i, (offs[i]+j)%m)
				}
				c.run()
				c.reset()
			}
			for i := range ws {
				off := offs[i]
				if variant == 1 {
					off = (off + k) % m
				}
				c.spawn(i, off)
			}
			c.run()
			c.dump()
			c.end()
		}
		fmt.Fprintf(out, "P ru%da ru%db %d\n", n, n, k)
	}
	return count
}
