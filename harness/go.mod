module verifharness

go 1.23

require github.com/bobertlo/gmars v0.0.0

replace github.com/bobertlo/gmars => /repo
