//go:build !verif

package main

import (
	"bufio"
	"math/rand"
)

const hooksAvailable = false

func runHookDomain(domain string, out *bufio.Writer, rng *rand.Rand, cnt func(q, t int) int) bool {
	return false
}

func replayHook(out *bufio.Writer, line string, f []string) bool { return false }
