//go:build !verif

package main

import (
	"bufio"
	"fmt"
	"math/rand"
	"os"
)

const hooksAvailable = false

// without the hooks (the guarded file did not compile against the current source, or the tag is
// off) the hook domains produce no cases: they validate a model of external code (go/types.Eval
// through evaluateExpression), no property's observation point depends on them
func runHookDomain(domain string, out *bufio.Writer, rng *rand.Rand, cnt func(q, t int) int) bool {
	if domain == "evalraw" {
		fmt.Fprintln(os.Stderr, "harness: hooks not available, domain evalraw skipped")
		return true
	}
	return false
}

func replayHook(out *bufio.Writer, line string, f []string) bool { return false }
