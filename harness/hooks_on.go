//go:build verif

package main

// Stage-level domains that need the diagnostic hooks of /repo/verif_hooks.go.

import (
	"bufio"
	"encoding/hex"
	"fmt"
	"math/rand"
	"strings"
	"time"

	"github.com/bobertlo/gmars"
)

const hooksAvailable = true

func tokStr(ts []gmars.VerifToken) string {
	if len(ts) == 0 {
		return "-"
	}
	parts := make([]string, len(ts))
	for i, t := range ts {
		parts[i] = fmt.Sprintf("%d:%s", t.Typ, hex.EncodeToString([]byte(t.Val)))
	}
	return strings.Join(parts, ",")
}

var exprNums = []string{"0", "1", "2", "3", "5", "7", "8", "9", "10", "17", "100", "8000", "12345", "2147483647", "2147483648", "4294967296", "99999999999"}
var exprSyms = []string{"+", "-", "*", "/", "%", "+", "-", "*", "<", ">", "<=", ">=", "==", "&&", "||", "$", "#", "@", "{", "}"}

func randExprTokens(rng *rand.Rand) []gmars.VerifToken {
	var ts []gmars.VerifToken
	n := 1 + rng.Intn(9)
	for i := 0; i < n; i++ {
		switch r := rng.Intn(20); {
		case r < 7:
			ts = append(ts, gmars.VerifToken{Typ: 2, Val: exprNums[rng.Intn(len(exprNums))]})
		case r < 15:
			ts = append(ts, gmars.VerifToken{Typ: 3, Val: exprSyms[rng.Intn(len(exprSyms))]})
		case r < 17:
			ts = append(ts, gmars.VerifToken{Typ: 6, Val: "("})
		case r < 19:
			ts = append(ts, gmars.VerifToken{Typ: 7, Val: ")"})
		default:
			ts = append(ts, gmars.VerifToken{Typ: []int{1, 8, 4, 5, 9, 10, 11, 0}[rng.Intn(8)], Val: "x"})
		}
	}
	return ts
}

// well-formed expression with sign runs and parentheses
func wfExprTokens(rng *rand.Rand, depth int) []gmars.VerifToken {
	num := func() []gmars.VerifToken {
		return []gmars.VerifToken{{Typ: 2, Val: exprNums[rng.Intn(12)]}}
	}
	var prim func(d int) []gmars.VerifToken
	var expr func(d int) []gmars.VerifToken
	prim = func(d int) []gmars.VerifToken {
		var out []gmars.VerifToken
		for rng.Intn(3) == 0 {
			out = append(out, gmars.VerifToken{Typ: 3, Val: []string{"-", "+"}[rng.Intn(2)]})
		}
		if d > 0 && rng.Intn(3) == 0 {
			out = append(out, gmars.VerifToken{Typ: 6, Val: "("})
			out = append(out, expr(d-1)...)
			out = append(out, gmars.VerifToken{Typ: 7, Val: ")"})
			return out
		}
		return append(out, num()...)
	}
	expr = func(d int) []gmars.VerifToken {
		out := prim(d)
		for rng.Intn(2) == 0 {
			ops := []string{"+", "-", "*", "/", "%"}
			if rng.Intn(8) == 0 {
				ops = []string{"<", ">", "==", "<=", ">=", "&&", "||"}
			}
			out = append(out, gmars.VerifToken{Typ: 3, Val: ops[rng.Intn(len(ops))]})
			out = append(out, prim(d)...)
		}
		return out
	}
	return expr(depth)
}

func genEvalRaw(out *bufio.Writer, rng *rand.Rand, count int) int {
	for n := 0; n < count; n++ {
		var ts []gmars.VerifToken
		if n%2 == 0 {
			ts = randExprTokens(rng)
		} else {
			ts = wfExprTokens(rng, 3)
		}
		val, res := 0, ""
		var err error
		f := guarded(5*time.Second, func() { val, err = gmars.VerifEval(ts) })
		switch {
		case f != "":
			res = f
		case err != nil:
			res = "err"
		default:
			res = fmt.Sprintf("ok %d", val)
		}
		fmt.Fprintf(out, "H e%d evalraw %s | %s\n", n, tokStr(ts), res)
	}
	return count
}

func runHookDomain(domain string, out *bufio.Writer, rng *rand.Rand, cnt func(q, t int) int) bool {
	switch domain {
	case "evalraw":
		genEvalRaw(out, rng, cnt(100000, 3000000))
	default:
		return false
	}
	return true
}

func replayHook(out *bufio.Writer, line string, f []string) bool {
	if f[0] != "H" || len(f) < 4 || f[2] != "evalraw" {
		return false
	}
	var ts []gmars.VerifToken
	if f[3] != "-" {
		for _, t := range strings.Split(f[3], ",") {
			p := strings.SplitN(t, ":", 2)
			typ := 0
			fmt.Sscan(p[0], &typ)
			b, _ := hex.DecodeString(p[1])
			ts = append(ts, gmars.VerifToken{Typ: typ, Val: string(b)})
		}
	}
	val, res := 0, ""
	var err error
	fl := guarded(5*time.Second, func() { val, err = gmars.VerifEval(ts) })
	switch {
	case fl != "":
		res = fl
	case err != nil:
		res = "err"
	default:
		res = fmt.Sprintf("ok %d", val)
	}
	fmt.Fprintf(out, "%s | %s\n", strings.SplitN(line, " | ", 2)[0], res)
	return true
}
