package main

// verifharness: generates correspondence cases, runs them against the real
// gmars code (in-process, public API; hooks only where tagged) and prints the
// line protocol consumed by the Lean driver.
//
//   verifharness <domain> [-seed N] [-tier quick|thorough] [-n N]

import (
	"bufio"
	"flag"
	"fmt"
	"math/rand"
	"os"
	"runtime"
	"sync"
	"time"
)

// a case that never returns (a seeded hang) may keep allocating in its abandoned goroutine:
// stop the run, keeping what was written so far, before the machine runs out of memory
var flushAndExit func(why string)
var outMu sync.Mutex

func memoryWatchdog() {
	for {
		time.Sleep(200 * time.Millisecond)
		var ms runtime.MemStats
		runtime.ReadMemStats(&ms)
		if ms.Sys > 6<<30 {
			flushAndExit(fmt.Sprintf("memory %d MiB", ms.Sys>>20))
		}
	}
}

func main() {
	if len(os.Args) < 2 {
		fmt.Fprintln(os.Stderr, "usage: verifharness <domain> [flags]")
		os.Exit(2)
	}
	domain := os.Args[1]
	fs := flag.NewFlagSet(domain, flag.ExitOnError)
	seed := fs.Int64("seed", 1, "PRNG seed")
	tier := fs.String("tier", "quick", "quick|thorough")
	nflag := fs.Int("n", 0, "override case count")
	replay := fs.String("replay", "", "replay file (domain specific)")
	fs.Parse(os.Args[2:])

	out := bufio.NewWriterSize(os.Stdout, 1<<20)
	defer out.Flush()
	flushAndExit = func(why string) {
		outMu.Lock()
		out.Flush()
		fmt.Fprintf(os.Stderr, "harness: stopping early: %s\n", why)
		os.Exit(0)
	}
	go memoryWatchdog()
	rng := rand.New(rand.NewSource(*seed*7919 + int64(len(domain))))
	thorough := *tier == "thorough"
	cnt := func(q, t int) int {
		if *nflag > 0 {
			return *nflag
		}
		if thorough {
			return t
		}
		return q
	}

	total := 0
	if *replay != "" && domain != "facts" {
		total = runReplay(out, *replay)
		fmt.Fprintf(os.Stderr, "harness: replay=%s cases=%d\n", *replay, total)
		return
	}
	switch domain {
	case "facts":
		if err := genFacts(out); err != nil {
			fmt.Fprintln(os.Stderr, "facts:", err)
			os.Exit(1)
		}
	case "step":
		total += genStep(out, rng, cnt(3, 40), thorough)
		total += genCmpPairs(out, rng, cnt(12, 200))
		if thorough {
			total += genStepExhaustive(out, rng, 3)
			total += genStepExhaustive(out, rng, 4)
		}
	case "battle":
		total += genBattle(out, rng, cnt(1500, 40000))
		total += genOverLimit(out, rng, cnt(150, 4000))
		total += genCrowd(out, rng, cnt(3, 40))
		total += genBigQueue(out, rng, cnt(8, 60))
		total += genQueueRing(out, rng, "battle", cnt(60, 1500))
		total += genRingEdge(out, rng, "battle", cnt(45, 600), thorough) // thorough: one case with a limit above 65536 (16 minutes in the driver)
		total += genRespawnStorm(out, rng, "battle", cnt(300, 10000))
	case "ringbig": // the one thorough-tier case of genRingEdge with a limit above 65536, alone
		total += genRingEdge(out, rng, "api", 1, true)
	case "soak": // not part of any tier: 2.6 million cycles with a 1.5-million-entry queue (see DESIGN.md section 9)
		total += genSoak(out, rng)
	case "bigstep":
		total += genBigStep(out, rng, cnt(15, 300))
		total += genBigMul(out, rng, cnt(120, 6000))
	case "rot":
		total += genRot(out, rng, cnt(800, 20000))
		total += genRotHuge(out, rng, cnt(60, 2000))
		total += genRotAdversarial(out, rng, cnt(1500, 40000))
		total += genRotReuse(out, rng, cnt(8, 80))
	case "api":
		if thorough {
			total += genAPI(out, rng, 4, 20000)
			total += genLifeCycle(out, rng, 20000)
			total += genBigQueue(out, rng, 20)
			total += genQueueRing(out, rng, "api", 1500)
			total += genAlias(out, rng, 20000)
			total += genLongWarrior(out, rng, 5000)
			total += genManyResets(out, rng, 200)
			total += genExtremes(out, rng, 20000)
			total += genRespawnStorm(out, rng, "api", 20000)
			total += genRingEdge(out, rng, "api", 400, true)
			total += genCounts(out, rng, true)
			total += genLifeCycleBig(out, rng, 10000)
			total += genWild(out, rng, 5000)
		} else {
			total += genAPI(out, rng, 3, 2000)
			total += genLifeCycle(out, rng, 600)
			total += genBigQueue(out, rng, 4)
			total += genQueueRing(out, rng, "api", 60)
			total += genAlias(out, rng, 800)
			total += genLongWarrior(out, rng, 300)
			total += genManyResets(out, rng, 12)
			total += genExtremes(out, rng, 700)
			total += genRespawnStorm(out, rng, "api", 600)
			total += genRingEdge(out, rng, "api", 45, false)
			total += genCounts(out, rng, false)
			total += genLifeCycleBig(out, rng, 300)
			total += genWild(out, rng, 300)
		}
	case "config":
		total += genConfig(out, rng, cnt(300, 5000))
	case "debug":
		total += genDebug(out, rng, cnt(1500, 40000))
	default:
		if !runAsmDomain(domain, out, rng, thorough, *nflag, *replay) {
			fmt.Fprintf(os.Stderr, "unknown domain %q\n", domain)
			os.Exit(2)
		}
	}
	fmt.Fprintf(os.Stderr, "harness: domain=%s cases=%d\n", domain, total)
}
