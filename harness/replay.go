package main

// replay: re-executes the protocol cases stored in a replay file (written by ./check) against
// the current /repo tree and prints fresh protocol lines for the driver to judge.

import (
	"bufio"
	"encoding/hex"
	"encoding/json"
	"fmt"
	"os"
	"strconv"
	"strings"
	"time"

	"github.com/bobertlo/gmars"
)

func parseCellsWire(s string) []gmars.Instruction {
	if s == "" || s == "-" {
		return nil
	}
	var out []gmars.Instruction
	for _, c := range strings.Split(s, ";") {
		f := strings.Split(c, ",")
		if len(f) != 6 {
			continue
		}
		n := make([]uint64, 6)
		for i := range f {
			n[i], _ = strconv.ParseUint(f[i], 10, 64)
		}
		out = append(out, gmars.Instruction{Op: gmars.OpCode(n[0]), OpMode: gmars.OpMode(n[1]), AMode: gmars.AddressMode(n[2]),
			A: gmars.Address(n[3]), BMode: gmars.AddressMode(n[4]), B: gmars.Address(n[5])})
	}
	return out
}

func parseCfgWire(f []string) gmars.SimulatorConfig {
	n := make([]uint64, 8)
	for i := 0; i < 8 && i < len(f); i++ {
		n[i], _ = strconv.ParseUint(f[i], 10, 64)
	}
	return gmars.SimulatorConfig{Mode: gmars.SimulatorMode(n[0]), CoreSize: gmars.Address(n[1]), Processes: gmars.Address(n[2]),
		Cycles: gmars.Address(n[3]), ReadLimit: gmars.Address(n[4]), WriteLimit: gmars.Address(n[5]), Length: gmars.Address(n[6]),
		Distance: gmars.Address(n[7])}
}

func unhexd(s string) []byte {
	if s == "-" {
		return nil
	}
	b, _ := hex.DecodeString(s)
	return b
}

func runReplay(out *bufio.Writer, path string) int {
	raw, err := os.ReadFile(path)
	if err != nil {
		fmt.Fprintln(os.Stderr, "replay:", err)
		return 0
	}
	var rf struct {
		Protocol []string `json:"protocol"`
	}
	if err := json.Unmarshal(raw, &rf); err != nil {
		fmt.Fprintln(os.Stderr, "replay:", err)
		return 0
	}
	var c *apiCase
	n := 0
	for _, line := range rf.Protocol {
		req := strings.SplitN(line, " | ", 2)[0]
		f := strings.Fields(req)
		if len(f) == 0 {
			continue
		}
		switch f[0] {
		case "N":
			if len(f) >= 12 {
				c = newAPICase(out, f[1], f[2], parseCfgWire(f[3:11]), f[11] == "1")
				n++
			}
		case "A":
			if c != nil && len(f) >= 2 {
				st, _ := strconv.Atoi(f[1])
				cells := ""
				if len(f) >= 3 {
					cells = f[2]
				}
				c.add(&gmars.WarriorData{Code: parseCellsWire(cells), Start: st})
			}
		case "a":
			if c != nil && len(f) >= 2 {
				st, _ := strconv.Atoi(f[1])
				cells := ""
				if len(f) >= 3 {
					cells = f[2]
				}
				c.addQuiet(&gmars.WarriorData{Code: parseCellsWire(cells), Start: st})
			}
		case "t":
			if c != nil {
				c.resetQuiet()
			}
		case "M":
			if c != nil {
				c.attach()
			}
		case "S":
			if c != nil && len(f) >= 3 {
				wi, _ := strconv.Atoi(f[1])
				off, _ := strconv.ParseUint(f[2], 10, 64)
				c.spawn(wi, off)
			}
		case "R":
			if c != nil {
				c.runCycle(false)
			}
		case "r":
			if c != nil {
				c.runCycle(true)
			}
		case "U":
			if c != nil {
				c.run()
			}
		case "T":
			if c != nil {
				c.reset()
			}
		case "G":
			if c != nil && len(f) >= 2 {
				a, _ := strconv.ParseUint(f[1], 10, 64)
				c.getMem(a)
			}
		case "W":
			if c != nil && len(f) >= 2 {
				i, _ := strconv.Atoi(f[1])
				c.getWarrior(i)
			}
		case "D":
			if c != nil {
				c.dump()
			}
		case "E":
			if c != nil {
				c.end()
				c = nil
			}
		case "P":
			fmt.Fprintln(out, line)
		case "L":
			if len(f) >= 13 {
				cfg := parseCfgWire(f[3:11])
				text := unhexd(f[11])
				if f[12] == "-" {
					fmt.Fprintf(out, "%s | %s\n", req, runLoad(cfg, text))
				} else {
					fmt.Fprintf(out, "%s | %s ## %s\n", req, runLoad(cfg, text), runAsm(cfg, text))
				}
				n++
			}
		case "K":
			if len(f) >= 13 {
				cfg := parseCfgWire(f[3:11])
				st, _ := strconv.Atoi(f[11])
				w := gmars.WarriorData{Code: parseCellsWire(f[12]), Start: st}
				resp := ""
				fl := guarded(10*time.Second, func() {
					sim, err := gmars.NewSimulator(cfg)
					if err != nil {
						resp = "err"
						return
					}
					wr, _ := sim.AddWarrior(&w)
					resp = hexd([]byte(wr.LoadCode()))
				})
				if fl != "" {
					resp = fl
				}
				fmt.Fprintf(out, "%s | %s\n", req, resp)
				n++
			}
		case "KP":
			// KP id tag cfg×8 start cells name author normM
			if len(f) >= 16 {
				cfg := parseCfgWire(f[3:11])
				st, _ := strconv.Atoi(f[11])
				w := gmars.WarriorData{Code: parseCellsWire(f[12]), Start: st, Name: string(unhexd(f[13])), Author: string(unhexd(f[14]))}
				normM, _ := strconv.ParseUint(f[15], 10, 64)
				resp := ""
				fl := guarded(10*time.Second, func() {
					sim, err := gmars.NewSimulator(cfg)
					if err != nil {
						resp = "err"
						return
					}
					wr, _ := sim.AddWarrior(&w)
					pw, ok := wr.(interface{ LoadCodePMARS() string })
					if !ok {
						resp = "err"
						return
					}
					var sb, nb strings.Builder
					for _, c := range w.Code {
						sb.WriteString(c.String() + "\n")
						nb.WriteString(c.NormString(gmars.Address(normM)) + "\n")
					}
					resp = hexd([]byte(pw.LoadCodePMARS())) + " " + hexd([]byte(sb.String())) + " " + hexd([]byte(nb.String()))
				})
				if fl != "" {
					resp = fl
				}
				fmt.Fprintf(out, "%s | %s\n", req, resp)
				n++
			}
		case "KD":
			// KD id tag m cycles type wi addr cell : the report is replayed on a simulator whose
			// cell at addr is the recorded one and whose cycle counter is the recorded one
			if len(f) >= 9 {
				m, _ := strconv.ParseUint(f[3], 10, 64)
				cc, _ := strconv.Atoi(f[4])
				typ, _ := strconv.Atoi(f[5])
				wi, _ := strconv.Atoi(f[6])
				addr, _ := strconv.ParseUint(f[7], 10, 64)
				cells := parseCellsWire(f[8])
				resp := ""
				fl := guarded(10*time.Second, func() {
					cfg := gmars.NewQuickConfig(gmars.ICWS94, gmars.Address(m), 8, 1000, 1)
					sim, err := gmars.NewReportingSimulator(cfg)
					if err != nil || len(cells) != 1 {
						resp = "err"
						return
					}
					// the recorded cell is loaded at the report's address and never executed: the
					// warrior spins on the cell behind it, which brings the cycle counter up
					w := gmars.WarriorData{Code: []gmars.Instruction{cells[0], {Op: gmars.JMP, OpMode: gmars.B}}, Start: 1}
					sim.AddWarrior(&w)
					sim.SpawnWarrior(0, gmars.Address(addr))
					for i := 0; i < cc; i++ {
						sim.RunCycle()
					}
					rep := gmars.NewDebugReporter(sim)
					resp = hexd([]byte(captureStdout(func() {
						rep.Report(gmars.Report{Type: gmars.ReportType(typ), Cycle: cc, WarriorIndex: wi, Address: gmars.Address(addr)})
					})))
				})
				if fl != "" {
					resp = fl
				}
				fmt.Fprintf(out, "%s | %s\n", req, resp)
				n++
			}
		case "X":
			if len(f) >= 13 {
				cfg := parseCfgWire(f[3:11])
				var second []byte
				if parts := strings.Split(line, " ## "); len(parts) == 3 {
					second = unhexd(strings.TrimSpace(parts[2]))
				}
				emitAsm(out, f[1], f[2], cfg, unhexd(f[11]), f[12], second)
				n++
			}
		default:
			if !replayHook(out, line, f) {
				fmt.Fprintf(os.Stderr, "replay: cannot re-execute line kind %q\n", f[0])
			}
		}
	}
	return n
}
