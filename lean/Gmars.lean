import Gmars.Instr
import Gmars.Model.Sim
import Gmars.Spec.ICWS94
import Gmars.Spec.Api
