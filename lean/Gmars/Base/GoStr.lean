/-
  Models of the few Go standard-library string functions gmars uses, on ASCII
  text represented as `List Char` (DESIGN.md §3 "Strings and runes", §7):
  strings.ToLower / Fields / TrimSpace / Contains / Split(first part) /
  ReplaceAll(",", " ") / HasPrefix and strconv.ParseInt(s, 10, bits).
  The correspondence run validates them; inputs with bytes ≥ 0x80 are outside
  the modelled subset (the driver answers SKIP for the tie there).
-/
namespace Gmars.GoStr

abbrev Str := List Char

def isAsciiSpace (c : Char) : Bool :=
  c == ' ' || c == '\t' || c == '\n' || c == '\x0b' || c == '\x0c' || c == '\r'

/-- `unicode.ToLower` as far as it matters here: exact on ASCII, and exact on the only two
    non-ASCII runes whose lower case is an ASCII letter (U+0130 → i, U+212A → k); every other rune
    is left alone, which is indistinguishable wherever the result is compared with ASCII keywords -/
def lowerChar (c : Char) : Char :=
  if 'A' ≤ c ∧ c ≤ 'Z' then Char.ofNat (c.toNat + 32)
  else if c.toNat == 0x130 then 'i'
  else if c.toNat == 0x212A then 'k'
  else c

def toLower (s : Str) : Str := s.map lowerChar

/-- strings.Fields on ASCII text -/
def fields (s : Str) : List Str :=
  let rec go (s : Str) (cur : Str) (acc : List Str) : List Str :=
    match s with
    | [] => (if cur.isEmpty then acc else cur.reverse :: acc).reverse
    | c :: rest =>
      if isAsciiSpace c then go rest [] (if cur.isEmpty then acc else cur.reverse :: acc)
      else go rest (c :: cur) acc
  go s [] []

def trimLeft (s : Str) : Str := s.dropWhile isAsciiSpace
def trimSpace (s : Str) : Str := (trimLeft (trimLeft s).reverse).reverse

def hasPrefix (s p : Str) : Bool := p.isPrefixOf s

def containsChar (s : Str) (c : Char) : Bool := s.contains c

/-- strings.Split(s, ";")[0] -/
def beforeChar (s : Str) (c : Char) : Str := s.takeWhile (· != c)

def replaceComma (s : Str) : Str := s.map (fun c => if c == ',' then ' ' else c)

/-- strings.Split(s, ".") -/
def splitOnChar (s : Str) (c : Char) : List Str :=
  let rec go (s : Str) (cur : Str) (acc : List Str) : List Str :=
    match s with
    | [] => (cur.reverse :: acc).reverse
    | x :: rest => if x == c then go rest [] (cur.reverse :: acc) else go rest (x :: cur) acc
  go s [] []

def isDigit (c : Char) : Bool := '0' ≤ c ∧ c ≤ '9'

def digitsVal (s : Str) : Nat := s.foldl (fun n c => n * 10 + (c.toNat - '0'.toNat)) 0

/-- strconv.ParseInt(s, 10, bits): optional sign, at least one digit, digits only,
    value within the signed range of `bits` bits; `none` = error -/
def parseInt (s : Str) (bits : Nat) : Option Int :=
  let (neg, ds) := match s with
    | '+' :: r => (false, r)
    | '-' :: r => (true, r)
    | r => (false, r)
  if ds.isEmpty || !ds.all isDigit then none
  else
    let n := digitsVal ds
    let lim : Nat := 2 ^ (bits - 1)
    if neg then (if n ≤ lim then some (-(n : Int)) else none)
    else (if n < lim then some (n : Int) else none)

/-- split into lines as `bufio.Reader.ReadString('\n')` delivers them: each line keeps its
    newline; a last line without newline is delivered too -/
def readLines (s : Str) : List Str :=
  let rec go (s : Str) (cur : Str) (acc : List Str) : List Str :=
    match s with
    | [] => (if cur.isEmpty then acc else cur.reverse :: acc).reverse
    | c :: rest =>
      if c == '\n' then go rest [] ((c :: cur).reverse :: acc) else go rest (c :: cur) acc
  go s [] []

end Gmars.GoStr
