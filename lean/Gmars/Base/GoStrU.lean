/-
  Rune-level models of the Go string functions load.go uses, on ARBITRARY byte strings
  (`Bytes = List UInt8`, possibly invalid UTF-8).  Companion of Gmars/Base/GoStr.lean, which is
  exact on ASCII text only.

  Go strings are byte strings.  The functions below fall in two groups:

  * functions applied to the RAW line (which may be invalid UTF-8): `bufio.Reader.ReadString('\n')`
    (`readLinesB`), byte indexing / slicing `raw_line[0]`, `raw_line[5:]` (`List.head?`,
    `List.drop`), `len` (`List.length`), `strings.TrimSpace` (`trimSpaceU`) and
    `strings.ToLower` (`toLowerRunes` / `toLowerB`).  They are modelled on bytes, decoding exactly
    as `for … range s` / `utf8.DecodeRuneInString` do: `runesW` cuts a byte string into its runes,
    each with the bytes it was decoded from; a byte that does not start a valid sequence is
    U+FFFD, one byte wide (`Utf8.decodeRune` of Gmars/Model/Lex.lean).

  * functions applied to `lower`, the RESULT of `strings.ToLower`.  `strings.ToLower` returns
    valid UTF-8 whatever its input (on non-ASCII input it is `strings.Map(unicode.ToLower, s)`,
    which re-encodes every rune and WRITES U+FFFD = EF BF BD for every invalid byte), so `lower`
    is modelled as the rune list `toLowerRunes raw : Str` and the Go string is its encoding
    `toLowerB raw`.  On valid UTF-8 the byte-level functions `strings.Contains(s, ";")`,
    `strings.Split(s, ";")[0]`, `strings.ReplaceAll(s, ",", " ")`, `strings.HasPrefix(s, ascii)`,
    `strings.Split(s, ".")`, `==` with an ASCII literal and `strconv.ParseInt` (every byte ≥ 0x80
    is a syntax error, as is every rune ≥ 0x80) commute with decoding, hence the rune-level
    `GoStr.containsChar`, `beforeChar`, `replaceComma`, `hasPrefix`, `splitOnChar`, `parseInt`
    are exact on them (they never look at the width of a rune).  `strings.Fields` is
    `FieldsFunc(s, unicode.IsSpace)` as soon as one byte is ≥ 0x80: `fieldsU`.

  Case mapping.  `GoStr.lowerChar` is `unicode.ToLower` on ASCII and on U+0130 (→ 'i') and
  U+212A (→ 'k'), the only non-ASCII runes with an ASCII lower case; every other non-ASCII rune is
  left alone although Go may map it to another NON-ASCII, NON-SPACE rune.  For the load-file
  reader this is unobservable: `lower` is only (a) compared with ASCII literals / parsed as a
  decimal number / searched for ';' ',' '.', (b) split at white space, and no part of `lower`
  reaches the result.  (Checked exhaustively over all code points by scratch/loadu: for r ≥ 0x80,
  ToLower(r) < 0x80 ↔ r ∈ {U+0130, U+212A}; IsSpace(ToLower(r)) = IsSpace(r); the same holds for
  ToLower∘ToLower, which `getOpCode` applies.)  It WOULD break if a piece of `lower` were copied
  into the result, or if byte offsets computed on `lower` were used to slice `raw_line` (U+0130
  is 2 bytes, its lower case 1 byte; other case pairs differ in width too) — load.go slices
  `raw_line` at constant offsets only, and the keywords `;name` `;author` `;strategy` contain
  neither 'i' nor 'k', so a line accepted by `HasPrefix(lower, ";name")` has 5 ASCII bytes in
  front in `raw_line` as well.
-/
import Gmars.Base.GoStr
import Gmars.Base.UnicodeTables
import Gmars.Model.Lex

namespace Gmars.GoStrU
open Gmars.GoStr Gmars.Unicode

abbrev Bytes := List UInt8

/-- the bytes of an ASCII literal -/
def lit (s : String) : Bytes := s.toList.map (fun c => UInt8.ofNat c.toNat)

/-! ### decoding -/

/-- `for i, r := range s` / iterated `utf8.DecodeRuneInString`: every rune with the bytes it was
    decoded from (an invalid byte: U+FFFD with that single byte) -/
def runesW : Bytes → List (Char × Bytes)
  | [] => []
  | b0 :: rest =>
    let d := Utf8.decodeRune b0 rest
    (d.1, b0 :: rest.take (d.2 - 1)) :: runesW (rest.drop (d.2 - 1))
termination_by bs => bs.length
decreasing_by simp; omega

/-- the runes of a byte string (equal to `decodeRunes`, see `runesW_fst`) -/
def runes (s : Bytes) : Str := decodeRunes s

/-- `utf8.AppendRune` for a `Char` (always a valid scalar value) -/
def encodeRune (c : Char) : Bytes :=
  let n := c.toNat
  if n < 0x80 then [UInt8.ofNat n]
  else if n < 0x800 then [UInt8.ofNat (0xC0 + n / 64), UInt8.ofNat (0x80 + n % 64)]
  else if n < 0x10000 then
    [UInt8.ofNat (0xE0 + n / 4096), UInt8.ofNat (0x80 + n / 64 % 64), UInt8.ofNat (0x80 + n % 64)]
  else
    [UInt8.ofNat (0xF0 + n / 262144), UInt8.ofNat (0x80 + n / 4096 % 64),
     UInt8.ofNat (0x80 + n / 64 % 64), UInt8.ofNat (0x80 + n % 64)]

def encode (s : Str) : Bytes := s.flatMap encodeRune

/-! ### strings.ToLower -/

/-- the runes of `strings.ToLower(s)` (up to the case mapping of non-ASCII runes other than
    U+0130 / U+212A, see the header) -/
def toLowerRunes (s : Bytes) : Str := toLower (runes s)

/-- `strings.ToLower(s)` as a byte string: valid UTF-8, invalid bytes rewritten as EF BF BD -/
def toLowerB (s : Bytes) : Bytes := encode (toLowerRunes s)

/-! ### strings.Fields on the runes of a valid UTF-8 string -/

/-- `strings.Fields` = `FieldsFunc(s, unicode.IsSpace)` -/
def fieldsU (s : Str) : List Str :=
  let rec go (s : Str) (cur : Str) (acc : List Str) : List Str :=
    match s with
    | [] => (if cur.isEmpty then acc else cur.reverse :: acc).reverse
    | c :: rest =>
      if isSpaceU c then go rest [] (if cur.isEmpty then acc else cur.reverse :: acc)
      else go rest (c :: cur) acc
  go s [] []

/-! ### strings.TrimSpace on arbitrary bytes -/

def spW (p : Char × Bytes) : Bool := isSpaceU p.1

/-- `strings.TrimSpace`: after its ASCII fast paths it is `TrimRightFunc(TrimLeftFunc(s, IsSpace),
    IsSpace)`.  `TrimLeftFunc` decodes forwards; `TrimRightFunc` decodes BACKWARDS with
    `utf8.DecodeLastRuneInString`, which yields a rune of width n > 1 exactly when the last n
    bytes are a valid encoding (it looks for the nearest non-continuation byte within 4 bytes
    and requires the rune decoded there to end at the end), else U+FFFD of width 1.  A valid
    sequence always starts at a rune boundary of the forward decoding (a forward rune of width
    > 1 covers continuation bytes only), so stripping space runes backwards is stripping them
    from the end of the forward decoding. -/
def trimSpaceU (s : Bytes) : Bytes :=
  ((((runesW s).dropWhile spW).reverse.dropWhile spW).reverse.map (·.2)).flatten

/-! ### bufio.Reader.ReadString('\n') -/

/-- the lines as `ReadString('\n')` delivers them: each keeps its newline byte; a last line
    without newline is delivered (together with io.EOF) when it is non-empty -/
def readLinesB (s : Bytes) : List Bytes :=
  let rec go (s : Bytes) (cur : Bytes) (acc : List Bytes) : List Bytes :=
    match s with
    | [] => (if cur.isEmpty then acc else cur.reverse :: acc).reverse
    | c :: rest =>
      if c == 0x0A then go rest [] ((c :: cur).reverse :: acc) else go rest (c :: cur) acc
  go s [] []

end Gmars.GoStrU
