/-
  Driver for the `api` family of correspondence cases (step / battle / api /
  rot generators): replays every operation on the model (`Model.Sim`) and on
  the reference (`Spec.Api`), compares both with the implementation's
  observation, and evaluates the decidable predicates of C01, C02, C04, C11,
  C12, C13, C15 on what the implementation did.
-/
import Gmars.Driver.Wire
import Gmars.Spec.Api
import Gmars.Proofs.Abs

namespace Gmars.Driver
open Gmars Gmars.Wire

/-- canonical observation of the simulator state after an operation -/
structure Obs where
  c : Nat := 0                              -- CycleCount
  l : Int := 0                              -- WarriorLivingCount
  n : Int := 0                              -- WarriorCount
  ws : List (Bool × List Nat) := []         -- Alive, Queue per warrior
  mem : List (Nat × Instr) := []            -- cells changed since the previous observation
  reps : List Report := []                  -- reports since the previous observation
  rec_ : List (Nat × Nat × Int) := []       -- recorder entries changed since the previous observation
  deriving Repr, Inhabited

def parseObs (s : String) : Option Obs := do
  let kv := sections s
  let c ← (← lookup kv "c").toNat?
  let l ← (← lookup kv "l").toInt?
  let n ← (← lookup kv "n").toInt?
  let ws ← (parseList "/" (← lookup kv "w")).mapM (fun t =>
    match t.splitOn ":" with
    | [a, q] => do
      let q ← (parseList "," q).mapM (·.toNat?)
      pure (a == "1", q)
    | _ => none)
  let mem ← (parseList ";" (← lookup kv "m")).mapM (fun t =>
    match t.splitOn ":" with
    | [a, cell] => do pure (← a.toNat?, ← parseCell cell)
    | _ => none)
  let reps ← (parseList ";" (← lookup kv "r")).mapM (fun t =>
    match t.splitOn "," with
    | [ty, cy, wi, ad] => do
      pure { typ := ← RType.ofNat? (← ty.toNat?), cycle := ← cy.toInt?, wi := ← wi.toInt?,
             addr := UInt64.ofNat (← ad.toNat?) : Report }
    | _ => none)
  let rec_ ← (parseList ";" (← lookup kv "k")).mapM (fun t =>
    match t.splitOn ":" with
    | [a, sc] =>
      match sc.splitOn "," with
      | [st, co] => do pure (← a.toNat?, ← st.toNat?, ← co.toInt?)
      | _ => none
    | _ => none)
  pure { c, l, n, ws, mem, reps, rec_ }

def showReport (r : Report) : String := s!"{r.typ.toNat},{r.cycle},{r.wi},{r.addr.toNat}"

def showObs (o : Obs) : String :=
  let ws := "/".intercalate (o.ws.map (fun (a, q) =>
    (if a then "1" else "0") ++ ":" ++ ",".intercalate (q.map toString)))
  let mem := ";".intercalate (o.mem.map (fun (a, c) => s!"{a}:{showCell c}"))
  let reps := ";".intercalate (o.reps.map showReport)
  let rec_ := ";".intercalate (o.rec_.map (fun (a, s, c) => s!"{a}:{s},{c}"))
  s!"c={o.c} l={o.l} n={o.n} w={ws} m={mem} r={reps} k={rec_}"

/-- state carried through one case -/
structure CaseState where
  id : String := ""
  tag : String := ""
  cfg : Config := {}
  sim : Option Sim := none                  -- model
  spec : Spec.Api := default                -- reference
  rec_ : Recorder := Recorder.new 0         -- model of the attached StateRecorder
  prevMem : Array Instr := #[]
  prevColor : Array Int := #[]
  prevState : Array CoreState := #[]
  logPos : Nat := 0
  specPrev : Spec.Core := []
  opIdx : Nat := 0
  dead : Bool := false                      -- case ended (panic / timeout / parse problem)
  verdicts : Array String := #[]            -- CORR / PROP lines
  nontrivial : Bool := false
  evs : List Spec.Ev := []                  -- spec events since the previous observation
  lastDump : Option String := none
  -- statistics
  nOps : Nat := 0
  deriving Inhabited

def CaseState.fail (st : CaseState) (kind : String) (msg : String) : CaseState :=
  { st with verdicts := st.verdicts.push s!"{kind} op={st.opIdx} {msg}" }

def memDiff (prev now : Array Instr) : List (Nat × Instr) :=
  (List.range now.size).filterMap (fun i =>
    if prev.getD i default != now.getD i default then some (i, now.getD i default) else none)

/-- observation computed from the model -/
def modelObs (st : CaseState) (s : Sim) : Except Panic Obs := do
  let ws ← s.warriors.toList.mapM (fun w => do
    let q ← w.queue
    pure (w.state == .alive, q.map (·.toNat)))
  let reps := (s.log.toList.drop st.logPos)
  -- feed the recorder
  let r ← reps.foldlM (fun r rp =>
    r.report (fun wi => if wi < 0 then none else (s.warriors[wi.toNat]?).map (·.data.code.size)) rp) st.rec_
  let recDiff := (List.range r.color.size).filterMap (fun i =>
    let c := r.color.getD i (-1); let t := r.state.getD i .empty
    if st.prevColor.getD i (-1) != c || st.prevState.getD i .empty != t
    then some (i, t.toNat, c) else none)
  pure { c := s.cycleCount.toNat, l := s.living, n := s.warriorCount, ws,
         mem := memDiff st.prevMem s.mem, reps, rec_ := recDiff }

def CaseState.advance (st : CaseState) (s : Sim) : CaseState :=
  -- recompute the recorder (cheap: same fold as in modelObs)
  let reps := (s.log.toList.drop st.logPos)
  let r := match reps.foldlM (fun r rp =>
      r.report (fun wi => if wi < 0 then none else (s.warriors[wi.toNat]?).map (·.data.code.size)) rp) st.rec_ with
    | .ok r => r
    | .error _ => st.rec_
  { st with sim := some s, prevMem := s.mem, logPos := s.log.size, rec_ := r,
            prevColor := r.color, prevState := r.state }

/-! ### predicates on the implementation's observations -/

def circDist (M a b : Nat) : Nat :=
  let d := (a + M - b % M) % M
  min d (M - d)

/-- C04: the invariants of a battle state, on an observation -/
def c04Check (cfg : Config) (o : Obs) (stale : List Bool) : Option String :=
  let M := cfg.coreSize.toNat
  let P := cfg.processes.toNat
  if o.mem.any (fun (a, c) => a ≥ M || c.a.toNat ≥ M || c.b.toNat ≥ M) then some "field or address >= coresize"
  else if o.ws.any (fun (_, q) => q.any (· ≥ M)) then some "queued pc >= coresize"
  else if (o.ws.zip stale).any (fun ((_, q), st) => !st && q.length > P) then some "queue longer than process limit"
  else if o.c > cfg.cycles.toNat then some "cycle count above limit"
  else if o.l != Int.ofNat (o.ws.filter (·.1)).length then some "living count != number of alive warriors"
  else if (o.ws.zip stale).any (fun ((a, q), st) => !st && (a != !q.isEmpty)) then some "alive <-> has tasks violated"
  else none

def specObsWs (s : Spec.Api) : List (Bool × List Nat × Bool) :=
  s.ws.map (fun w => (w.st == .alive, w.q, w.stale))

def specMemDiff (prev now : Spec.Core) : List (Nat × SInstr) :=
  (List.range now.length).filterMap (fun i =>
    if prev.getD i default != now.getD i default then some (i, now.getD i default) else none)

/-- compare an implementation observation with the reference state -/
def specCompare (st : CaseState) (s : Spec.Api) (o : Obs) : Option String :=
  if o.c != s.cycles then some s!"cycle count {o.c} != reference {s.cycles}"
  else if o.l != Int.ofNat s.living then some s!"living {o.l} != reference {s.living}"
  else if o.n != Int.ofNat s.ws.length then some s!"count {o.n} != reference {s.ws.length}"
  else if o.ws.length != s.ws.length then some "warrior list length"
  else
    let bad := (o.ws.zip (specObsWs s)).zipIdx.find? (fun (((a, q), (a', q', stale)), _) =>
      a != a' || (!stale && q != q'))
    match bad with
    | some ((((a, q), (a', q', _))), i) =>
      some s!"warrior {i}: alive={a} queue={q} reference alive={a'} queue={q'}"
    | none =>
      let d := specMemDiff st.specPrev s.core
      let got := o.mem.map (fun (a, c) => (a, c.abs))
      if got != d then
        some s!"core diff {got.map (fun (a, c) => s!"{a}:{showSCell c}")} != reference {d.map (fun (a, c) => s!"{a}:{showSCell c}")}"
      else none

/-- last-writer fold of a report stream: the specification of the state recorder
    (an array of (kind, owner) per address; `(0, -1)` = empty) -/
def recFold (M : Nat) (lenOf : Int → Nat) (recordReads : Bool)
    (acc : Array (Nat × Int)) (r : Report) : Array (Nat × Int) :=
  let put (acc : Array (Nat × Int)) (a : Nat) (s : Nat) : Array (Nat × Int) := acc.setIfInBounds a (s, r.wi)
  match r.typ with
  | .simReset => Array.replicate M (0, -1)
  | .warriorSpawn => (List.range (lenOf r.wi)).foldl (fun acc i => put acc ((r.addr.toNat + i) % M) 2) acc
  | .taskTerminate => put acc r.addr.toNat 6
  | .taskPop => put acc r.addr.toNat 1
  | .write => put acc r.addr.toNat 2
  | .read => if recordReads then put acc r.addr.toNat 5 else acc
  | .increment => put acc r.addr.toNat 3
  | .decrement => put acc r.addr.toNat 4
  | _ => acc

/-- split a report stream into per-task segments, each starting at a TaskPop -/
def taskSegments (rs : List Report) : List (List Report) :=
  let rec go (rs : List Report) (cur : List Report) (acc : List (List Report)) : List (List Report) :=
    match rs with
    | [] => (if cur.isEmpty then acc else cur.reverse :: acc).reverse
    | r :: rest =>
      if r.typ == .taskPop then go rest [r] (if cur.isEmpty then acc else cur.reverse :: acc)
      else if r.typ == .cycleStart || r.typ == .cycleEnd || r.typ == .simReset || r.typ == .warriorSpawn then
        go rest [] (if cur.isEmpty then acc else cur.reverse :: acc)
      else if cur.isEmpty then go rest [] acc
      else go rest (r :: cur) acc
  go rs [] []

end Gmars.Driver
