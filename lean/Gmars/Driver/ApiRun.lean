import Gmars.Driver.ApiCase

namespace Gmars.Driver
open Gmars Gmars.Wire

structure ApiExtra where
  specOn : Bool := true
  prevWs : List (Bool × List Nat) := []
  implRec : Array (Nat × Int) := #[]        -- the implementation's recorder view (state, color)
  specRec : Array (Nat × Int) := #[]        -- last-writer fold of the implementation's reports
  recordReads : Bool := false
  deriving Inhabited

def sortByAddr (l : List (Nat × Nat × Int)) : List (Nat × Nat × Int) :=
  (l.toArray.qsort (fun a b => a.1 < b.1)).toList

def isWarriorReport (t : RType) : Bool :=
  match t with
  | .simReset | .cycleStart | .cycleEnd => false
  | _ => true

/-- C15 on the reports gathered since the previous observation -/
def c15Check (M : Nat) (n : Int) (reps : List Report) (evs : List Spec.Ev) (specOn : Bool) : Option String :=
  match reps.find? (fun r => r.addr.toNat ≥ M) with
  | some r => some s!"report {showReport r}: address >= coresize"
  | none =>
  match reps.find? (fun r => isWarriorReport r.typ && (r.wi < 0 || r.wi ≥ n)) with
  | some r => some s!"report {showReport r}: no such warrior"
  | none =>
  if !specOn then none else
  let pops := reps.filter (·.typ == .taskPop) |>.map (fun r => (r.wi, r.addr.toNat))
  let execs := evs.filterMap (fun | .exec wi pc _ _ => some (Int.ofNat wi, pc) | _ => none)
  if pops != execs then some s!"TaskPop sequence {pops} != executed tasks {execs}" else
  let tts := reps.filter (·.typ == .taskTerminate) |>.map (fun r => (r.wi, r.addr.toNat))
  let tds := evs.filterMap (fun | .taskDied wi pc => some (Int.ofNat wi, pc) | _ => none)
  if tts != tds then some s!"TaskTerminate reports {tts} != task deaths {tds}" else
  let wts := reps.filter (·.typ == .warriorTerminate) |>.map (fun r => (r.wi, r.addr.toNat))
  let wds := evs.filterMap (fun | .warriorDied wi pc => some (Int.ofNat wi, pc) | _ => none)
  if wts != wds then some s!"WarriorTerminate reports {wts} != warrior deaths {wds}" else
  let segs := taskSegments reps
  let exs := evs.filterMap (fun | .exec wi pc ch to => some (wi, pc, ch, to) | _ => none)
  if segs.length != exs.length then some "task segments do not match executed tasks" else
  let bad := (segs.zip exs).find? (fun (seg, (wi, _, ch, to)) =>
    let named := seg.filter (fun r => (r.typ == .write || r.typ == .increment || r.typ == .decrement))
    let mine := named.filter (fun r => r.wi == Int.ofNat wi) |>.map (·.addr.toNat)
    !(ch.all (fun a => mine.contains a)) || !(named.all (fun r => to.contains r.addr.toNat && r.wi == Int.ofNat wi)))
  match bad with
  | some (seg, (wi, pc, ch, to)) =>
    some s!"task w{wi}@{pc}: changed {ch}, may touch {to}, reports {seg.map showReport}"
  | none => none

/-- C11 for a cycle in which exactly one task ran -/
def c11Check (cfg : Config) (pc : Nat) (mem : List (Nat × Instr)) (oldQ newQ : List Nat) : Option String :=
  let M := cfg.coreSize.toNat
  let R := min cfg.readLimit.toNat M
  let W := min cfg.writeLimit.toNat M
  match mem.find? (fun (a, _) => circDist M a pc > W / 2) with
  | some (a, _) => some s!"cell {a} changed by the task at {pc}: distance {circDist M a pc} > {W / 2}"
  | none =>
    let succ := newQ.drop (oldQ.length - 1)
    match succ.find? (fun q => q != (pc + 1) % M && q != (pc + 2) % M && circDist M q pc > R / 2) with
    | some q => some s!"successor {q} of the task at {pc}: distance {circDist M q pc} > {R / 2}"
    | none => none

/-- one reference step on a large core (tag `bigstep`): the whole-API reference is too slow
    there, so the step is compared directly: core cell for cell (linear time), queue element for
    element -/
def bigStepCheck (s : Sim) (o : Obs) : Option String :=
  match s.warriors[0]? with
  | none => none
  | some w =>
    match w.absQueue with
    | [] => none
    | pc :: rest =>
      let M := s.m.toNat
      let R := s.readLimit.toNat
      let W := s.writeLimit.toNat
      if R > M || W > M then none else
      let before := s.absCore
      let r := Spec.step M R W before pc
      let actual := o.mem.foldl (fun (c : Spec.Core) (a, cell) => c.set a cell.abs) before
      if actual != r.core then
        let bad := ((List.range M).zip (actual.zip r.core)).find? (fun (_, (x, y)) => x != y)
        some s!"core after the step differs from the reference step at {bad.map (·.1)}: got {bad.map (fun b => showSCell b.2.1)} reference {bad.map (fun b => showSCell b.2.2)}"
      else
        let wantQ := Spec.enqueue s.maxProcs.toNat rest r.succ
        match o.ws[0]? with
        | some (_, q) => if q != wantQ then some s!"queue {q} != reference {wantQ}" else none
        | none => some "no warrior in the observation"

def parseRet (s : String) : String := s.trimAscii.toString

structure Ctx where
  st : CaseState := {}
  ex : ApiExtra := {}
  deriving Inhabited

def Ctx.fail (c : Ctx) (kind msg : String) : Ctx := { c with st := c.st.fail kind msg }

/-- after an observed operation: tie, reference comparison, predicates -/
def Ctx.observe (c : Ctx) (s : Sim) (obsStr : String) (evs : List Spec.Ev) : Ctx :=
  match parseObs obsStr with
  | none =>
    let c := if obsStr.startsWith "obs-panic" || obsStr.startsWith "obs-timeout" then
        c.fail "PROP" s!"C04+C13+SPEC observing the state (WarriorCount/GetWarrior/Queue/GetMem/GetMemState): {obsStr}"
      else if obsStr.startsWith "queue-answer" then
        c.fail "PROP" s!"C13+C02+SPEC a slice returned earlier by Queue() changed after later calls (the answer aliases the simulator's ring): {obsStr.take 80}"
      else c.fail "PARSE" s!"bad observation '{obsStr}'"
    { c with st := { c.st with dead := true } }
  | some o =>
    let st := c.st
    -- tie: model observation
    let c := match modelObs st s with
      | .error _ => c.fail "CORR" s!"model panics while observing, impl: {showObs o}"
      | .ok mo =>
        if showObs mo != showObs o then c.fail "CORR" s!"model: {showObs mo} impl: {showObs o}" else c
    let cfg := st.cfg
    let stale := c.st.spec.ws.map (·.stale)
    -- what a queue holds between Reset and the next spawn is unspecified (it keeps its old
    -- contents): the reference tracks which queues are stale; without the reference (cores above
    -- 300 cells, negative entry points, tag wild) every warrior that is not alive may be
    let stale := if c.ex.specOn then stale else o.ws.map (fun (a, _) => !a)
    -- C04
    let c := match (if c.st.tag == "wild" then none else c04Check cfg o stale) with
      | some m => c.fail "PROP" s!"C04 {m} :: {showObs o}"
      | none => c
    -- reference
    let c := if c.ex.specOn then
        match specCompare c.st c.st.spec o with
        | some m => c.fail "PROP" s!"SPEC {m}"
        | none => c
      else c
    -- C15
    let c := match c15Check cfg.coreSize.toNat o.n o.reps evs c.ex.specOn with
      | some m => c.fail "PROP" s!"C15 {m}"
      | none => c
    -- recorder = last-writer fold
    let M := cfg.coreSize.toNat
    let lenOf := fun (wi : Int) => ((s.warriors[wi.toNat]?).map (·.data.code.size)).getD 0
    let specRec := o.reps.foldl (recFold M lenOf c.ex.recordReads) c.ex.specRec
    let hadReset := o.reps.any (·.typ == .simReset)
    let implRec := o.rec_.foldl (fun (a : Array (Nat × Int)) (ad, s, co) => a.setIfInBounds ad (s, co)) c.ex.implRec
    let badRec := (List.range M).find? (fun a => implRec.getD a (0, -1) != specRec.getD a (0, -1))
    let c := match badRec with
      | some a => c.fail "PROP" s!"C15 recorder at {a}: {repr (implRec.getD a (0, -1))} != last-writer fold (reset seen: {hadReset})"
      | none => c
    -- C11 (single task cycles)
    let execs : List (Nat × Nat) := evs.filterMap (fun | .exec wi pc _ _ => some (wi, pc) | _ => none)
    let c := match execs with
      | [(wi, pc)] =>
        let oldQ : List Nat := match c.ex.prevWs[wi]? with | some (_, q) => q | none => []
        let newQ : List Nat := match o.ws[wi]? with | some (_, q) => q | none => []
        match c11Check cfg pc o.mem oldQ newQ with
        | some m => c.fail "PROP" s!"C11 {m}"
        | none => c
      | _ =>
        -- cycle level: every changed cell is near some executed pc
        let W := min cfg.writeLimit.toNat M
        if execs.isEmpty then c else
        match o.mem.find? (fun (x : Nat × Instr) => execs.all (fun (e : Nat × Nat) => circDist M x.1 e.2 > W / 2)) with
        | some (a, _) => c.fail "PROP" s!"C11 cell {a} changed, farther than {W / 2} from every executed task {execs}"
        | none => c
    let nt := c.st.nontrivial || !o.mem.isEmpty && o.ws.any (fun (_, q) => q.length > 1) ||
              (evs.any (fun | .warriorDied .. => true | _ => false))
    { c with st := { (c.st.advance s) with specPrev := c.st.spec.core, evs := [], nontrivial := nt },
             ex := { c.ex with prevWs := o.ws, implRec, specRec } }

def splitResp (line : String) : String × String × String :=
  -- request | response # observation
  match line.splitOn " | " with
  | [req, rest] =>
    match rest.splitOn " # " with
    | [resp, obs] => (req, resp, obs)
    | _ => (req, rest, "")
  | _ => (line, "", "")

def showPanic : Panic → String
  | .index => "index" | .nilDeref => "nil" | .divZero => "div" | .slice => "slice" | .makeLen => "make"

/-- handle one protocol line of an api-family case; returns the new context -/
def Ctx.step (c : Ctx) (line : String) : Ctx :=
  if c.st.dead then c else
  let (req, resp, obs) := splitResp line
  let resp := parseRet resp
  let toks := (req.splitOn " ").filter (· != "")
  let c := { c with st := { c.st with opIdx := c.st.opIdx + 1, nOps := c.st.nOps + 1 } }
  let endCase (c : Ctx) : Ctx := { c with st := { c.st with dead := true } }
  -- a response that ends the case on the implementation side
  let implEnded := resp.startsWith "panic" || resp == "timeout"
  match toks with
  | ["N", id, tag, mo, m, p, cy, r, w, l, d, rr] =>
    let md : SimMode := (SimMode.ofNat? (natD mo)).getD SimMode.icws94
    let cfg : Config := {
      mode := md, coreSize := u64 m,
      processes := u64 p, cycles := u64 cy, readLimit := u64 r, writeLimit := u64 w,
      length := u64 l, distance := u64 d }
    let sim := Sim.new cfg
    let M := cfg.coreSize.toNat
    -- tag `wild`: warriors with fields outside [0,M) (no property covers them: tie only)
    let specOn := M ≤ 300 && tag != "wild"
    -- limits above the core size are clamped to it when the simulator is created
    let spec0 := Spec.Api.new M (min cfg.readLimit.toNat M) (min cfg.writeLimit.toNat M) cfg.processes.toNat cfg.cycles.toNat
    let st : CaseState := {
        id, tag, cfg, sim, spec := spec0,
        rec_ := { Recorder.new cfg.coreSize with recordReads := rr == "1" },
        prevMem := Array.replicate M default, prevColor := Array.replicate M (-1),
        prevState := Array.replicate M .empty,
        specPrev := if specOn then List.replicate M default else [] }
    let c : Ctx := { st, ex := { specOn, implRec := Array.replicate M (0, -1), specRec := Array.replicate M (0, -1), recordReads := rr == "1" } }
    let want := if sim.isSome then "ok" else "err"
    let c := if resp != want then c.fail "CORR" s!"NewSimulator: model {want} impl {resp}" else c
    -- C04: creation either fails with an error or succeeds; never panics
    let c := if resp != "ok" && resp != "err" then c.fail "PROP" s!"C04 NewSimulator {resp}" else c
    if sim.isNone || resp != "ok" then endCase c else c
  | _ =>
  match c.st.sim with
  | none => endCase c
  | some s =>
  match toks with
  | ["A", start, cells] | ["A", start, cells, _] =>
    match parseCells cells with
    | none => endCase (c.fail "PARSE" "cells")
    | some code =>
      let startI := intD start
      let s' := s.addWarrior { code := code.toArray, start := startI }
      let specOn := c.ex.specOn && startI ≥ 0
      let c := { c with st := { c.st with spec := c.st.spec.add (code.map Instr.abs) startI.toNat },
                        ex := { c.ex with specOn } }
      if implEnded then endCase (c.fail "PROP" s!"C04+C13+SPEC AddWarrior {resp}") else
      c.observe s' obs []
  | ["A", start] =>
      let startI := intD start
      let s' := s.addWarrior { code := #[], start := startI }
      let c := { c with st := { c.st with spec := c.st.spec.add [] startI.toNat },
                        ex := { c.ex with specOn := c.ex.specOn && startI ≥ 0 } }
      if implEnded then endCase (c.fail "PROP" s!"C04+C13+SPEC AddWarrior {resp}") else
      c.observe s' obs []
  | "a" :: start :: cellsL =>
    -- AddWarrior without observation
    match (match cellsL with | [cells] => parseCells cells | _ => some []) with
    | none => endCase (c.fail "PARSE" "cells")
    | some code =>
      let startI := intD start
      let s' := s.addWarrior { code := code.toArray, start := startI }
      -- (the reference keeps its warriors in a list: with tens of thousands of them it is only
      -- followed when it is switched on, i.e. on cores of at most 300 cells)
      let spec' := if c.ex.specOn then c.st.spec.add (code.map Instr.abs) startI.toNat else c.st.spec
      let c := { c with st := { c.st with spec := spec', sim := some s' },
                        ex := { c.ex with specOn := c.ex.specOn && startI ≥ 0 } }
      if implEnded then endCase (c.fail "PROP" s!"C04+C13+SPEC AddWarrior {resp}") else
      if resp != "ok" then c.fail "CORR" s!"AddWarrior: model ok impl {resp}" else c
  | ["t"] =>
    -- Reset without observation
    let c := { c with st := { c.st with spec := c.st.spec.reset, sim := some s.reset } }
    if implEnded then endCase (c.fail "PROP" s!"C04+C13+SPEC+C12+C15 Reset {resp}") else c
  | ["S", wi, off] =>
    let wiI := intD wi
    match s.spawn wiI (u64 off) with
    | .error p =>
      let c := if resp != "panic:" ++ showPanic p then c.fail "CORR" s!"spawn: model panic {showPanic p} impl {resp}" else c
      endCase (c.fail "PROP" s!"C04+C13+SPEC+C12+C15 SpawnWarrior({wi},{off}) {resp}")
    | .ok (s', okb) =>
      let want := if okb then "ok" else "err"
      let c := if resp != want then c.fail "CORR" s!"spawn: model {want} impl {resp}" else c
      if implEnded then endCase (c.fail "PROP" s!"C04+C13+SPEC+C12+C15 SpawnWarrior({wi},{off}) {resp}") else
      let c := if c.ex.specOn then
          match c.st.spec.spawn wiI (natD off) with
          | some sp =>
            let c := if resp != "ok" then c.fail "PROP" s!"SPEC spawn accepted by the reference, impl {resp}" else c
            { c with st := { c.st with spec := sp } }
          | none => if resp != "err" then c.fail "PROP" s!"SPEC spawn rejected by the reference, impl {resp}" else c
        else c
      c.observe s' obs []
  | ["R"] | ["r"] =>
    let quiet := toks == ["r"]
    let c := if c.st.tag == "bigstep" && !quiet then
        match parseObs obs with
        | some o => match bigStepCheck s o with
          | some m => c.fail "PROP" s!"SPEC {m}"
          | none => c
        | none => c
      else c
    match s.runCycle with
    | .error p =>
      let c := if resp != "panic:" ++ showPanic p then c.fail "CORR" s!"RunCycle: model panic {showPanic p} impl {resp}" else c
      endCase (c.fail "PROP" s!"C04+C13+SPEC+C12+C15 RunCycle {resp}")
    | .ok (s', ret) =>
      let c := if resp != toString ret then c.fail "CORR" s!"RunCycle: model {ret} impl {resp}" else c
      if implEnded then endCase (c.fail "PROP" s!"C04+C13+SPEC+C12+C15 RunCycle {resp}") else
      let (c, evs) := if c.ex.specOn then
          let (sp, evs, sret) := c.st.spec.cycle
          let c := if resp != toString sret then c.fail "PROP" s!"SPEC RunCycle returned {resp}, reference {sret}" else c
          ({ c with st := { c.st with spec := sp, evs := c.st.evs ++ evs } }, c.st.evs ++ evs)
        else (c, [])
      if quiet then { c with st := { c.st with sim := some s' } } else c.observe s' obs evs
  | ["U"] =>
    -- the driver follows a battle for at most three million cycles: a longer one (a cycle limit
    -- near 2^63 that no death decides) is beyond its horizon and the case is skipped
    let horizon := 3000000
    if s.maxCycles.toNat + 2 > horizon && (match s.runLoop horizon with | .ok (_, false) => true | _ => false) then
      endCase (c.fail "SKIP" "battle longer than the driver's horizon of 3e6 cycles")
    else
    match s.runLoop (min (s.maxCycles.toNat + 2) horizon) with
    | .error p =>
      let c := if resp != "panic:" ++ showPanic p then c.fail "CORR" s!"Run: model panic {showPanic p} impl {resp}" else c
      endCase (c.fail "PROP" s!"C04+C13+SPEC+C12+C15 Run {resp}")
    | .ok (s', fin) =>
      let want := if !fin then "timeout"
        else if s'.warriors.size == 0 then "nil"
        else ",".intercalate (s'.results.map (fun b => if b then "1" else "0"))
      let c := if resp.startsWith "earlier-Run" then
          c.fail "PROP" "C13+C02+SPEC a slice returned by an earlier Run() changed after a later call (the answer aliases the simulator's buffer)"
        else if resp != want then c.fail "CORR" s!"Run: model {want} impl {resp}" else c
      if resp.startsWith "earlier-Run" then endCase c else
      if implEnded then endCase (c.fail "PROP" s!"C04+C13+SPEC+C12+C15 Run {resp}") else
      let (c, evs) := if c.ex.specOn then
          let (sp, evs) := c.st.spec.run (min (c.st.spec.C + 2) horizon)
          let swant := if sp.ws.isEmpty then "nil"
            else ",".intercalate (sp.ws.map (fun w => if w.st == .alive then "1" else "0"))
          let c := if resp != swant then c.fail "PROP" s!"SPEC Run returned {resp}, reference {swant}" else c
          ({ c with st := { c.st with spec := sp, evs := c.st.evs ++ evs } }, c.st.evs ++ evs)
        else (c, [])
      c.observe s' obs evs
  | ["T"] =>
    let s' := s.reset
    let c := { c with st := { c.st with spec := c.st.spec.reset } }
    if implEnded then endCase (c.fail "PROP" s!"C04+C13+SPEC+C12+C15 Reset {resp}") else
    let c := c.observe s' obs []
    -- C15: after a reset every address is empty
    if c.ex.implRec.any (fun e => e != (0, -1)) then c.fail "PROP" "C15 recorder not empty after Reset" else c
  | ["G", a] =>
    match s.getMem (u64 a) with
    | .error p => endCase (c.fail "PROP" s!"C13 GetMem panics in the model ({showPanic p}), impl {resp}")
    | .ok cell =>
      let c := if resp != showCell cell then c.fail "CORR" s!"GetMem({a}): model {showCell cell} impl {resp}" else c
      if implEnded then endCase (c.fail "PROP" s!"C04+C13+SPEC+C12+C15 GetMem({a}) {resp}") else
      if c.ex.specOn then
        let want := showSCell (c.st.spec.core.getD (natD a % c.st.spec.M) default)
        if resp != want then c.fail "PROP" s!"SPEC GetMem({a}) = {resp}, reference {want}" else c
      else c
  | ["W", i] =>
    match s.getWarrior (intD i) with
    | .error p => endCase (c.fail "CORR" s!"GetWarrior: model panic {showPanic p} impl {resp}")
    | .ok none =>
      let c := if resp != "nil" then c.fail "CORR" s!"GetWarrior({i}): model nil impl {resp}" else c
      if implEnded then endCase (c.fail "PROP" s!"C13 GetWarrior({i}) {resp}") else
      if c.ex.specOn && !(intD i < 0 || intD i ≥ Int.ofNat c.st.spec.ws.length) then
        c.fail "PROP" s!"SPEC GetWarrior({i}) = nil but the warrior exists" else c
    | .ok (some k) =>
      let w := s.warriors[k]!
      let want := match w.queue, w.nextPC with
        | .ok q, .ok x =>
          let xs := match x with | some v => toString v.toNat | none => "err"
          s!"a={if w.state == .alive then 1 else 0} q={",".intercalate (q.map (fun (x : UInt64) => toString x.toNat))} x={xs} len={w.data.code.size}"
        | _, _ => "panic"
      let c := if resp != want then c.fail "CORR" s!"GetWarrior({i}): model '{want}' impl '{resp}'" else c
      if implEnded || resp.contains "panic" then endCase (c.fail "PROP" s!"C04+C13+SPEC warrior query {i}: {resp}") else
      if c.ex.specOn then
        match c.st.spec.ws[k]? with
        | none => c.fail "PROP" s!"SPEC GetWarrior({i}) exists but not in the reference"
        | some sw =>
          if sw.stale then c else
          let xs := if !sw.spawned then "err" else match sw.q with | [] => "err" | v :: _ => toString v
          let swant := s!"a={if sw.st == .alive then 1 else 0} q={",".intercalate (sw.q.map toString)} x={xs} len={sw.code.length}"
          if resp != swant then c.fail "PROP" s!"SPEC warrior {i}: '{resp}' reference '{swant}'" else c
      else c
  | ["M"] => c   -- a further reporter was attached: no effect on the state
  | ["D"] =>
    -- full dump: "c=.. res=.. mem=cell;cell.. w=alive:q/.."
    let memS := ";".intercalate (s.mem.toList.map showCell)
    let ws := "/".intercalate (s.warriors.toList.map (fun w =>
      (if w.state == .alive then "1" else "0") ++ ":" ++
      ",".intercalate ((match w.queue with | .ok q => q | .error _ => []).map (fun (x : UInt64) => toString x.toNat))))
    let want := s!"c={s.cycleCount.toNat} mem={memS} w={ws}"
    let c := if resp != want then c.fail "CORR" s!"dump differs: model {want.take 200} impl {resp.take 200}" else c
    { c with st := { c.st with lastDump := some resp } }
  | _ => endCase (c.fail "PARSE" s!"unknown line '{line.take 80}'")

/-- C12: compare two dumps, the second being the first rotated by `k` -/
def rotCompare (M k : Nat) (d1 d2 : String) : Option String :=
  let kv1 := sections d1; let kv2 := sections d2
  match lookup kv1 "c", lookup kv2 "c", lookup kv1 "mem", lookup kv2 "mem", lookup kv1 "w", lookup kv2 "w" with
  | some c1, some c2, some m1, some m2, some w1, some w2 =>
    if c1 != c2 then some s!"cycle counts {c1} vs {c2}" else
    let a1 := (m1.splitOn ";").toArray; let a2 := (m2.splitOn ";").toArray
    if a1.size != M || a2.size != M then some "dump size" else
    match (List.range M).find? (fun a => a1[a]! != a2[(a + k) % M]!) with
    | some a => some s!"cell {a} = {a1[a]!} but cell {(a + k) % M} of the shifted battle = {a2[(a + k) % M]!}"
    | none =>
      let q1 := (parseList "/" w1).map (fun t => match t.splitOn ":" with
        | [a, q] => (a, (parseList "," q).map (fun x => toString ((natD x + k) % M))) | _ => ("?", []))
      let q2 := (parseList "/" w2).map (fun t => match t.splitOn ":" with
        | [a, q] => (a, parseList "," q) | _ => ("?", []))
      if q1 != q2 then some s!"queues {q1} (shifted) vs {q2}" else none
  | _, _, _, _, _, _ => some "unparsable dump"

end Gmars.Driver
