/-
  Driver for the assembler domains (asm94, asm88, expr, for, soup):
  `X <id> <tag> <cfg×8> <hex text> <abstract program or -> | <result> g=<n> [## <result2> g=<n> ## <hex text2>]`
  Decides C03/C07/C08 (implementation = meaning of the abstract program), C05 and C06
  (predicates on what the implementation returned) and the tie with the assembler model.
-/
import Gmars.Driver.TextRun
import Gmars.Spec.ProgramTail
import Gmars.Model.Assemble

namespace Gmars.Driver
open Gmars Gmars.Wire Gmars.Spec

def parseETok (s : String) : Option ETok :=
  match s.toList with
  | 'n' :: r => (String.ofList r).toNat?.map ETok.num
  | 't' :: r => some (.name (String.ofList r))
  | 'o' :: r => some (.op (String.ofList (toStr (unhex (String.ofList r)))))
  | ['L'] => some .lp
  | ['R'] => some .rp
  | _ => none

def parseETokList (s : String) : Option (List ETok) :=
  if s == "-" then some [] else (s.splitOn ",").mapM parseETok

def parseLabels (s : String) : List String := if s == "-" then [] else s.splitOn ","

def parseModeOpt (s : String) : Option (Option Mode) :=
  if s == "-" then some none
  else match toStr (unhex s) with
    | [c] => (Mode.all.find? (fun m => m.sym == c)).map some
    | _ => none

/-- parse the `;`-separated item list; returns the items and the unconsumed rest
    (stops at an `R` that closes the enclosing FOR) -/
def parseItems : Nat → List String → Option (List Item × List String)
  | 0, _ => none
  | _ + 1, [] => some ([], [])
  | fuel + 1, tok :: rest =>
    if tok == "R" then some ([], rest) else
    match tok.splitOn "|" with
    | ["I", ls, op, md, am, ae, bm, be] => do
      let am ← parseModeOpt am
      let ae ← parseETokList ae
      let b ← (if be == "~" then some none else do
        let bm ← parseModeOpt bm
        let be ← parseETokList be
        pure (some ({ mode := bm, expr := be } : Spec.POperand)))
      let (more, r) ← parseItems fuel rest
      pure (Item.instr (parseLabels ls) op (if md == "-" then none else some md) { mode := am, expr := ae } b :: more, r)
    | ["Q", nm, e] => do
      let e ← parseETokList e
      let (more, r) ← parseItems fuel rest
      pure (.equ nm e :: more, r)
    | ["O", e] => do
      let e ← parseETokList e
      let (more, r) ← parseItems fuel rest
      pure (.org e :: more, r)
    | ["E", e] => do
      let e ← (if e == "~" then some none else (parseETokList e).map some)
      let (more, r) ← parseItems fuel rest
      pure (.end_ e :: more, r)
    | ["A", e] => do
      let e ← parseETokList e
      let (more, r) ← parseItems fuel rest
      pure (.assert e :: more, r)
    | ["M", k, t] => do
      let kind ← (match k with | "name" => some MetaKind.name | "author" => some .author | "strategy" => some .strategy | _ => none)
      let text := if t == "-" then "" else String.ofList (toStr (unhex t))
      let (more, r) ← parseItems fuel rest
      pure (.info kind text :: more, r)
    | ["F", ls, ctr, cnt] => do
      let cnt ← parseETokList cnt
      let (body, r) ← parseItems fuel rest
      let (more, r') ← parseItems fuel r
      pure (.for_ (parseLabels ls) ctr cnt body :: more, r')
    | _ => none

/-- the program and the labels written on its END line (a final `T|l1,l2` entry) -/
def parseProgram (s : String) : Option (List Item × List String) :=
  if s == "-" then some ([], []) else
  let toks := (s.splitOn ";").filter (· != "")
  let (toks, tail) := match toks.getLast? with
    | some t => if t.startsWith "T|" then (toks.dropLast, parseLabels (t.drop 2).toString) else (toks, [])
    | none => (toks, [])
  match parseItems (2 * toks.length + 2) toks with
  | some (items, []) => some (items, tail)
  | _ => none

/-- result + goroutine delta: `ok … g=0`, `err z=1 g=0`, `timeout`, `panic:…` -/
structure AsmObs where
  r : WResult
  g : Int := 0
  zero : Bool := true      -- on `err`: the returned WarriorData is the zero value
  deriving Inhabited

def parseAsmObs (s : String) : Option AsmObs := do
  let s := s.trimAscii.toString
  let kv := sections s
  let g := ((lookup kv "g").bind (·.toInt?)).getD 0
  if s.startsWith "err" then
    pure { r := { kind := "err" }, g, zero := (lookup kv "z").getD "1" == "1" }
  else
    let r ← parseWResult s
    pure { r, g }

/-- C05 on one observation -/
def c05Check (o : AsmObs) : Option String :=
  if o.r.kind.startsWith "panic" then some s!"CompileWarrior {o.r.kind}"
  else if o.r.kind == "timeout" then some "CompileWarrior did not return within the deadline"
  else if o.g > 0 then some s!"{o.g} goroutine(s) left behind"
  else if o.r.kind == "err" && !o.zero then some "error returned together with a non-empty warrior"
  else if o.r.kind == "ok" && o.r.nilCode then some "no error and no warrior (nil code)"
  else none

/-- C06 on an accepted program -/
def c06Check (cfg : Config) (r : WResult) : Option String :=
  if r.kind != "ok" then none else
  let M := cfg.coreSize.toNat
  if r.code.length > cfg.length.toNat then some s!"{r.code.length} instructions exceed the maximum length {cfg.length.toNat}"
  else if r.code.isEmpty then (if r.start != 0 then some s!"empty program with entry point {r.start}" else none)
  else if r.start < 0 || r.start ≥ r.code.length then some s!"entry point {r.start} outside the code (length {r.code.length})"
  else match r.code.find? (fun i => i.a.toNat ≥ M || i.b.toNat ≥ M) with
    | some i => some s!"field >= coresize in {showCell i}"
    | none =>
      if cfg.mode == .icws88 then
        match r.code.find? (fun i => !Spec.Legal88 i) with
        | some i => some s!"illegal '88 instruction {showCell i}"
        | none => none
      else none

def specCfg (cfg : Config) : Spec.Cfg :=
  { legacy := cfg.mode == .icws88, M := cfg.coreSize.toNat, maxLen := cfg.length.toNat,
    maxProcs := cfg.processes.toNat, minDist := cfg.distance.toNat }

def showMeaning (m : Option Meaning) : String :=
  match m with
  | none => "reject"
  | some m => s!"ok start={m.start} name={hexOf m.name.toList} author={hexOf m.author.toList} strat={hexOf m.strategy.toList} code={";".intercalate (m.code.map showCell)}"

/-- number of FOR block expansions a program needs (one pass of the assembler each) -/
def countExpansions : Nat → List Item → Nat
  | 0, _ => 0
  | f + 1, items => items.foldl (fun n it =>
      match it with
      | .for_ _ _ _ body => n + 1 + countExpansions f body   -- lower bound (copies not multiplied)
      | _ => n) 0

/-- block labels referenced by an instruction that is not inside that block -/
def outsideRefs (items : List Item) : Bool :=
  let blockLabels := items.flatMap (fun | .for_ ls _ _ _ => ls | _ => [])
  items.any (fun it =>
    match it with
    | .instr _ _ _ a b =>
      (a.expr ++ (b.map (·.expr)).getD []).any (fun | .name n => blockLabels.contains n | _ => false)
    | _ => false)

def hexBytes (b : ByteArray) : String :=
  let d (n : Nat) : Char := if n < 10 then Char.ofNat (48 + n) else Char.ofNat (87 + n)
  String.ofList (b.toList.flatMap (fun c => [d (c.toNat / 16), d (c.toNat % 16)]))

/-- the assembler model's answer in the wire form of the implementation's answer -/
def modelAsmStr (cfg : Config) (bytes : List Nat) : String :=
  match assemble cfg (bytes.map UInt8.ofNat) with
  | .ok w => s!"ok start={w.start} name={hexBytes w.name.toUTF8} author={hexBytes w.author.toUTF8} strat={hexBytes w.strategy.toUTF8} code={";".intercalate (w.code.toList.map showCell)}"
  | .err => "err"
  | .unmodelled => "unmodelled"
  | .fault (.hang _) => "timeout"
  | .fault (.panic p) => "panic:" ++ (match p with | .index => "index" | .nilDeref => "nil" | .divZero => "div" | .slice => "slice" | .makeLen => "make")

/-- tokens passed through the scan / expand loop of CompileWarrior, summed over its passes: the
    size of the input "after FOR expansion" that C05's time bound is proportional to -/
def forWork : Nat → Nat → List Token → Nat → Nat
  | 0, _, _, acc => acc
  | fuel + 1, depth, tokens, acc =>
    match scanInput tokens with
    | .ok (some (symbols, true)) =>
      match forExpandWith expandAndEvaluate tokens symbols with
      | .ok (some expanded, false) =>
        if depth + 1 > 12 then acc + tokens.length + expanded.length
        else forWork fuel (depth + 1) expanded (acc + tokens.length)
      | _ => acc + tokens.length
    | _ => acc + tokens.length

/-- inputs whose expansion passes move more than a million tokens are outside the bound under
    which the per-case deadline is meaningful (C05: "FOR counts multiply to at most a fixed bound") -/
def beyondDeadlineBound (bytes : List Nat) : Bool :=
  forWork 14 0 (lexBytes (bytes.map UInt8.ofNat)) 0 ≥ 1000000

/-- a FOR program that does not assemble to what it denotes violates C08 and C03 alike -/
def propOfTag (tag : String) : String :=
  if tag == "expr" then "C07" else if tag == "for" then "C08+C03" else "C03"

/-- `X` line -/
def runAsmLine (modelAsm : Option (Config → List Nat → String)) (line : String) :
    List String × (TextStats → TextStats) :=
  match line.splitOn " | " with
  | [req, resp] =>
    let toks := (req.splitOn " ").filter (· != "")
    match toks with
    | "X" :: id :: tag :: rest =>
      match parseCfg (rest.take 8), rest.drop 8 with
      | some cfg, [hex, prog] =>
        let parts := resp.splitOn " ## "
        match parts.head?.bind parseAsmObs with
        | none => ([s!"V {id} {tag} PARSE op=0 bad result '{resp.take 80}'"], fun s => s)
        | some o =>
          let bytes := unhex hex
          if o.r.kind == "timeout" && hex.length ≤ 300000 && beyondDeadlineBound bytes then
            ([s!"V {id} {tag} SKIP ops=1 deadline hit on an input whose FOR expansion moves more than 1e6 tokens"],
             fun s => { s with cases := s.cases + 1, skipped := s.skipped + 1 })
          else Id.run do
          let mut out : List String := []
          -- tie with the assembler model
          match (if hex.length > 300000 then none else modelAsm) with   -- very large inputs: predicates only
          | some f =>
            let m := f cfg bytes
            if m != "unmodelled" then
              let impl := if o.r.kind == "err" then "err" else showWResult o.r
              -- metadata that is not valid UTF-8 (a ;strategy comment cut inside a multi-byte rune)
              -- cannot be a Lean String: outside the modelled subset
              let metaOK := [o.r.name, o.r.author, o.r.strat].all (fun h =>
                ByteArray.validateUTF8 (ByteArray.mk ((unhex h).map UInt8.ofNat).toArray))
              if m != impl && metaOK then
                out := out ++ [s!"V {id} {tag} CORR op=0 assemble: model {m.take 300} impl {impl.take 300}"]
          | none => pure ()
          -- C05
          match c05Check o with
          | some m => out := out ++ [s!"V {id} {tag} PROP op=0 C05 {m}"]
          | none => pure ()
          -- C06
          match c06Check cfg o.r with
          | some m => out := out ++ [s!"V {id} {tag} PROP op=0 C06 {m}"]
          | none => pure ()
          -- meaning
          let mut nt := o.r.kind == "ok" && o.r.code.length ≥ 2
          if prog != "-" && tag != "soup" then
            match parseProgram prog with
            | none => out := out ++ [s!"V {id} {tag} PARSE op=0 program"]
            | some (items, tail) =>
              let mng := meaningT (specCfg cfg) items tail
              let pid := propOfTag tag
              let implS := if o.r.kind == "ok" then showWResult o.r else if o.r.kind == "err" then "reject" else o.r.kind
              let wantS := showMeaning mng
              nt := mng.isSome && (mng.map (·.code.length)).getD 0 ≥ 1
              if implS != wantS && (o.r.kind == "ok" || o.r.kind == "err") then
                let extra := if tag == "for" then s!" passes={Spec.expansions items} outside-ref={if outsideRefs items then 1 else 0}" else ""
                out := out ++ [s!"V {id} {tag} PROP op=0 {pid} assembled {implS.take 300} but the program denotes {wantS.take 300}{extra}"]
              -- C08: the unrolled rendering must assemble to the same thing
              match parts with
              | [_, second, _] =>
                match parseAsmObs second with
                | some o2 =>
                  let s2 := if o2.r.kind == "ok" then showWResult o2.r else if o2.r.kind == "err" then "reject" else o2.r.kind
                  if s2 != implS then
                    let extra := s!" passes={Spec.expansions items} outside-ref={if outsideRefs items then 1 else 0}"
                    out := out ++ [s!"V {id} {tag} PROP op=0 C08 FOR program assembled {implS.take 200} but its manual unrolling {s2.take 200}{extra}"]
                  match c05Check o2 with
                  | some m => out := out ++ [s!"V {id} {tag} PROP op=0 C05 (unrolled text) {m}"]
                  | none => pure ()
                | none => out := out ++ [s!"V {id} {tag} PARSE op=0 second result"]
              | _ => pure ()
          if out.isEmpty then
            return ([s!"V {id} {tag} OK ops=1 nt={if nt then 1 else 0}"], fun s =>
              { s with cases := s.cases + 1, nontrivial := s.nontrivial + (if nt then 1 else 0),
                       accepted := s.accepted + (if o.r.kind == "ok" then 1 else 0),
                       rejected := s.rejected + (if o.r.kind == "err" then 1 else 0) })
          else return (out, fun s => { s with cases := s.cases + 1 })
      | _, _ => ([s!"V {id} {tag} PARSE op=0 cfg"], fun s => s)
    | _ => (["V ? ? PARSE op=0 X line"], fun s => s)
  | _ => (["V ? ? PARSE op=0 X line"], fun s => s)

end Gmars.Driver
