/-
  Driver for the `cli` domain (C17):
  `Z <id> cli <use88> <s> <p> <c> <l> <F> <r> <preset|-> <hex file1> <hex file2|-> | exit=<n> out=<hex> places=<list|->`
-/
import Gmars.Driver.AsmRun
import Gmars.Model.Cli

namespace Gmars.Driver
open Gmars Gmars.Wire

def runCliLine (line : String) : List String × (TextStats → TextStats) :=
  match line.splitOn " | " with
  | [req, resp] =>
    let toks := (req.splitOn " ").filter (· != "")
    match toks with
    | ["Z", id, tag, u88, s, p, c, l, fx, r, preset, f1, f2] => Id.run do
      let flags : Cli.Flags := {
        use88 := u88 == "1", size := intD s, procs := intD p, cycles := intD c,
        len := intD l, fixed := intD fx, rounds := intD r, preset := if preset == "-" then "" else preset }
      let kv := sections resp
      let exit := ((lookup kv "exit").bind (·.toInt?)).getD (-1)
      let outS := String.ofList (toStr (unhex ((lookup kv "out").getD "-")))
      let outLines := (outS.splitOn "\n").filter (· != "")
      let placesS := (lookup kv "places").getD "-"
      let files := [f1] ++ (if f2 == "-" then [] else [f2])
      let fail (m : String) : List String × (TextStats → TextStats) :=
        ([s!"V {id} {tag} PROP op=0 C17 {m}"], fun st => { st with cases := st.cases + 1 })
      let okc (nt : Bool) : List String × (TextStats → TextStats) :=
        ([s!"V {id} {tag} OK ops=1 nt={if nt then 1 else 0}"], fun st =>
          { st with cases := st.cases + 1, nontrivial := st.nontrivial + (if nt then 1 else 0) })
      if resp.trimAscii.toString.startsWith "timeout" then return fail "gmars did not exit within the deadline"
      match Cli.config flags with
      | none => return (if exit == 1 then okc false else fail s!"unknown preset but exit status {exit}")
      | some cfg =>
        let asms := files.map (fun h => assemble cfg ((unhex h).map UInt8.ofNat))
        if asms.any (fun | .unmodelled => true | _ => false) then
          return ([s!"V {id} {tag} SKIP unmodelled"], fun st => { st with cases := st.cases + 1, skipped := st.skipped + 1 })
        if asms.any (fun | .fault _ => true | _ => false) then
          return fail "assembler model reports a fault"
        if asms.any (fun | .err => true | _ => false) then
          return (if exit == 1 && outLines.isEmpty then okc false
                  else fail s!"a warrior does not assemble but exit={exit} stdout={outLines}")
        let ws := asms.filterMap (fun | .ok w => some w | _ => none)
        let rounds := flags.rounds.toNat
        if exit != 0 then return fail s!"valid invocation but exit status {exit}"
        -- tally partition (any placement)
        let nums := outLines.map (fun ln => (ln.splitOn " ").map natD)
        let partOK := match nums, ws.length with
          | [[w1, _]], 1 => w1 ≤ rounds
          | [[w1, t1], [w2, t2]], 2 => w1 + w2 + t1 == rounds && t1 == t2
          | _, _ => false
        if !partOK then return fail s!"result lines {outLines} do not partition {rounds} rounds"
        -- exact tallies when the placements are known
        let places : Option (List UInt64) :=
          if ws.length == 1 then some (List.replicate rounds 0)
          else if flags.fixed != 0 then some (List.replicate rounds (intToAddr flags.fixed))
          else if placesS != "-" then some ((placesS.splitOn ",").map u64)
          else none
        match places with
        | none => return okc true
        | some ps =>
          if ps.length != rounds then return fail s!"{ps.length} spawn lines for {rounds} rounds"
          -- random placements (read back from -debug) lie in [2·Length, CoreSize − Length − 1]
          if ws.length == 2 && flags.fixed == 0 &&
              ps.any (fun x => x.toNat < 2 * cfg.length.toNat || x.toNat + cfg.length.toNat + 1 > cfg.coreSize.toNat) then
            return ([s!"V {id} {tag} CORR op=0 random placement {ps.map (·.toNat)} outside [2*{cfg.length.toNat}, {cfg.coreSize.toNat}-{cfg.length.toNat}-1]"],
                    fun st => { st with cases := st.cases + 1 })
          match Cli.battles cfg ws ps with
          | none => return fail "the battle model fails where the tool succeeded"
          | some t =>
            let want := t.lines ws.length
            if want != outLines then
              return fail s!"printed {outLines} but the battles these options describe give {want} (placements {ps.map (·.toNat)})"
            else return okc true
    | _ => ([s!"V ? cli PARSE op=0 Z line {req.take 80}"], fun s => s)
  | _ => (["V ? cli PARSE op=0 Z line"], fun s => s)

end Gmars.Driver

namespace Gmars.Driver
open Gmars Gmars.Wire

/-- `Q <id> preset <name|-> | <cfg×8> | err`: a named preset as the library returns it, against the
    model's table (`Cli.preset?`) -/
def runPresetLine (line : String) : List String × (TextStats → TextStats) :=
  match line.splitOn " | " with
  | [req, resp] =>
    match (req.splitOn " ").filter (· != "") with
    | ["Q", id, _, name] =>
      let name := if name == "-" then "" else name
      let show_ (c : Config) : String :=
        s!"{c.mode.toNat} {c.coreSize.toNat} {c.processes.toNat} {c.cycles.toNat} {c.readLimit.toNat} {c.writeLimit.toNat} {c.length.toNat} {c.distance.toNat}"
      let want := match Cli.preset? name with | some c => show_ c | none => "err"
      let got := resp.trimAscii.toString
      if want != got then
        ([s!"V {id} preset CORR op=0 preset '{name}': model {want} impl {got}"], fun s => { s with cases := s.cases + 1 })
      else ([s!"V {id} preset OK ops=1 nt=1"], fun s => { s with cases := s.cases + 1, nontrivial := s.nontrivial + 1 })
    | _ => (["V ? preset PARSE op=0 Q line"], fun s => s)
  | _ => (["V ? preset PARSE op=0 Q line"], fun s => s)

end Gmars.Driver
