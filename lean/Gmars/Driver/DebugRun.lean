/-
  Driver for the `debug` domain (C15): one line printed by the debug reporter.
-/
import Gmars.Driver.TextRunP
import Gmars.Model.DebugReporter

namespace Gmars.Driver
open Gmars Gmars.Wire Gmars.GoStr

/-- `KD <id> <tag> <m> <CycleCount> <type> <warrior index> <address> <cell> | <hex stdout>` -/
def runDebugLine (line : String) : List String × (TextStats → TextStats) :=
  match line.splitOn " | " with
  | [req, resp] =>
    let toks := (req.splitOn " ").filter (· != "")
    let resp := resp.trimAscii.toString
    match toks with
    | ["KD", id, tag, m, cc, ty, wi, ad, cell] =>
      if resp.startsWith "panic" || resp == "timeout" || resp == "err" then
        ([s!"V {id} {tag} PROP op=0 C15 the debug reporter failed on a report at a valid address: {resp}"],
          fun s => { s with cases := s.cases + 1 })
      else
      match RType.ofNat? (natD ty), parseCell cell with
      | some typ, some c =>
        let r : Report := { typ, cycle := 0, wi := intD wi, addr := u64 ad }
        let model := debugLine r (natD cc) (u64 m) c
        if model != unhexOpt resp then
          ([s!"V {id} {tag} CORR op=0 debug line: model {hexOf model |>.take 300} impl {resp.take 300}"],
            fun s => { s with cases := s.cases + 1 })
        else
          ([s!"V {id} {tag} OK ops=1 nt=1"], fun s => { s with cases := s.cases + 1, nontrivial := s.nontrivial + 1 })
      | _, _ => ([s!"V {id} {tag} PARSE op=0 KD fields"], fun s => s)
    | _ => (["V ? ? PARSE op=0 KD line"], fun s => s)
  | _ => (["V ? ? PARSE op=0 KD line"], fun s => s)

end Gmars.Driver
