/-
  Driver for stage-level (hook) comparisons: model stage vs the real stage
  function, on the same input. These lines only ever produce CORR / OK / SKIP.
-/
import Gmars.Driver.TextRun
import Gmars.Model.Expr

namespace Gmars.Driver
open Gmars Gmars.Wire

def parseTok (s : String) : Option Token :=
  match s.splitOn ":" with
  | [t, v] => do
    let ty ← TokType.ofNat? (← t.toNat?)
    pure { typ := ty, val := String.ofList (toStr (unhex v)) }
  | _ => none

def parseToks (s : String) : Option (List Token) :=
  if s == "-" then some [] else (s.splitOn ",").mapM parseTok

def showEval : EvalRes → String
  | .ok i => s!"ok {i}"
  | .err => "err"
  | .unmodelled => "unmodelled"

/-- `H <id> <stage> <input…> | <result>` -/
def runHookLine (line : String) : List String × (TextStats → TextStats) :=
  match line.splitOn " | " with
  | [req, resp] =>
    let toks := (req.splitOn " ").filter (· != "")
    let resp := resp.trimAscii.toString
    match toks with
    | ["H", id, "evalraw", ts] =>
      match parseToks ts with
      | none => ([s!"V {id} evalraw PARSE op=0 tokens"], fun s => s)
      | some ts =>
        let m := evaluateExpression ts
        if m == .unmodelled then
          ([s!"V {id} evalraw SKIP unmodelled"], fun s => { s with cases := s.cases + 1, skipped := s.skipped + 1 })
        else if showEval m != resp then
          ([s!"V {id} evalraw CORR op=0 evaluateExpression {ts.map (·.val)}: model {showEval m} impl {resp}"],
           fun s => { s with cases := s.cases + 1 })
        else
          let nt := resp.startsWith "ok" && ts.length ≥ 3
          ([s!"V {id} evalraw OK ops=1 nt={if nt then 1 else 0}"],
           fun s => { s with cases := s.cases + 1, nontrivial := s.nontrivial + (if nt then 1 else 0),
                             accepted := s.accepted + (if resp.startsWith "ok" then 1 else 0),
                             rejected := s.rejected + (if resp == "err" then 1 else 0) })
    | _ => ([s!"V ? ? PARSE op=0 H line {req.take 60}"], fun s => s)
  | _ => (["V ? ? PARSE op=0 H line"], fun s => s)

end Gmars.Driver

namespace Gmars.Driver

/-- `Y <id> <tag> <desc> | <a> ## <b>`: two observations that must be equal (C14) -/
def runPairLine (line : String) : List String × (TextStats → TextStats) :=
  match line.splitOn " | " with
  | [req, resp] =>
    let toks := (req.splitOn " ").filter (· != "")
    match toks, resp.splitOn " ## " with
    | ("Y" :: id :: tag :: desc), [a, b] =>
      let d := " ".intercalate desc
      if tag.length > 3 && tag.startsWith "C" && (tag.toList.getD 3 ' ') == ':' && !tag.startsWith "C17" then
        -- a by-construction pair belonging to the property named by the tag (`C09:alias` …)
        let prop := (tag.take 3).toString
        (if a.trimAscii.toString != b.trimAscii.toString then
           ([s!"V {id} pair PROP op=0 {prop} {tag} {d}: expected {a.trimAscii.toString.take 200} got {b.trimAscii.toString.take 200}"], fun s => { s with cases := s.cases + 1 })
         else ([s!"V {id} pair OK ops=1 nt=1"], fun s => { s with cases := s.cases + 1, nontrivial := s.nontrivial + 1 }))
      else if tag.startsWith "C17" then
        -- a command-line invocation whose exit status and output are fixed by the tool's own rules
        (if a.trimAscii.toString != b.trimAscii.toString then
           ([s!"V {id} cli PROP op=0 C17 {d}: expected {a.trimAscii.toString} got {b.trimAscii.toString}"], fun s => { s with cases := s.cases + 1 })
         else ([s!"V {id} cli OK ops=1 nt=1"], fun s => { s with cases := s.cases + 1, nontrivial := s.nontrivial + 1 }))
      else if tag == "race" then
        ([s!"V {id} conc PROP op=0 C14 the race detector reports a data race: {(String.ofList (toStr (unhex b.trimAscii.toString))).take 300}"],
         fun s => { s with cases := s.cases + 1 })
      else if a.trimAscii.toString != b.trimAscii.toString then
        ([s!"V {id} conc PROP op=0 C14 {tag} {d}: result differs from the sequential / reference result"],
         fun s => { s with cases := s.cases + 1 })
      else ([s!"V {id} conc OK ops=1 nt=1"], fun s => { s with cases := s.cases + 1, nontrivial := s.nontrivial + 1 })
    | _, _ => (["V ? conc PARSE op=0 Y line"], fun s => s)
  | _ => (["V ? conc PARSE op=0 Y line"], fun s => s)

end Gmars.Driver
