/-
  Driver for the text domains: load files (C09, C10) and printed listings (C16).
-/
import Gmars.Driver.Wire
import Gmars.Model.Listing
import Gmars.Spec.LoadText
import Gmars.Model.LoadU
import Gmars.Spec.LoadTextU

namespace Gmars.Driver
open Gmars Gmars.Wire Gmars.GoStr

def hexVal (c : Char) : Nat :=
  if '0' ≤ c ∧ c ≤ '9' then c.toNat - '0'.toNat
  else if 'a' ≤ c ∧ c ≤ 'f' then c.toNat - 'a'.toNat + 10 else 0

/-- hex string → bytes -/
def unhex (s : String) : List Nat :=
  let rec go : List Char → List Nat
    | a :: b :: r => (hexVal a * 16 + hexVal b) :: go r
    | _ => []
  go s.toList

def isAscii (bs : List Nat) : Bool := bs.all (· < 128)
def toStr (bs : List Nat) : Str := bs.map Char.ofNat

def hexOf (s : Str) : String :=
  let d (n : Nat) : Char := if n < 10 then Char.ofNat (48 + n) else Char.ofNat (87 + n)
  String.ofList (s.flatMap (fun c => [d (c.toNat / 16), d (c.toNat % 16)]))

def parseCfg (ts : List String) : Option Config :=
  match ts with
  | [mo, m, p, cy, r, w, l, d] =>
    some { mode := (SimMode.ofNat? (natD mo)).getD .icws94, coreSize := u64 m, processes := u64 p,
           cycles := u64 cy, readLimit := u64 r, writeLimit := u64 w, length := u64 l, distance := u64 d }
  | _ => none

/-- assembler / loader result in wire form -/
structure WResult where
  kind : String               -- ok | err | panic:* | timeout
  start : Int := 0
  name : String := ""
  author : String := ""
  strat : String := ""
  code : List Instr := []
  nilCode : Bool := false
  deriving Repr, Inhabited

def parseWResult (s : String) : Option WResult :=
  let s := s.trimAscii.toString
  if s == "err" then some { kind := s }
  else if s.startsWith "timeout" then some { kind := "timeout" }
  else if s.startsWith "panic" then some { kind := (s.splitOn " ").headD s } else
  if !s.startsWith "ok" then none else
  let kv := sections s
  do
    let st ← (← lookup kv "start").toInt?
    let code ← parseCells ((lookup kv "code").getD "")
    pure { kind := "ok", start := st, name := (lookup kv "name").getD "", author := (lookup kv "author").getD "",
           strat := (lookup kv "strat").getD "", code, nilCode := (lookup kv "nil").getD "0" == "1" }

def showWResult (r : WResult) : String :=
  if r.kind != "ok" then r.kind else
  s!"ok start={r.start} name={r.name} author={r.author} strat={r.strat} code={";".intercalate (r.code.map showCell)}"

def modelLoadResult (r : Except Panic LoadResult) : WResult :=
  match r with
  | .error _ => { kind := "panic" }
  | .ok none => { kind := "err" }
  | .ok (some w) => { kind := "ok", start := w.start, name := hexOf w.name.toList, author := hexOf w.author.toList,
                      strat := hexOf w.strategy.toList, code := w.code.toList }

/-- result of the byte-level reader model (metadata are byte strings) -/
def modelLoadResultB (r : Except Panic (Option WarriorDataB)) : WResult :=
  let hx (bs : List UInt8) : String := hexOf (bs.map (fun b => Char.ofNat b.toNat))
  match r with
  | .error _ => { kind := "panic" }
  | .ok none => { kind := "err" }
  | .ok (some w) => { kind := "ok", start := w.start, name := hx w.name, author := hx w.author,
                      strat := hx w.strategy, code := w.code.toList }

/-- C10 structural predicate on an accepted warrior -/
def c10Shape (cfg : Config) (r : WResult) : Option String :=
  let M := cfg.coreSize.toNat
  if r.code.isEmpty then (if r.start != 0 then some s!"empty warrior with start {r.start}" else none)
  else if r.start < 0 || r.start ≥ r.code.length then some s!"start {r.start} outside code of length {r.code.length}"
  else match r.code.find? (fun i => i.a.toNat ≥ M || i.b.toNat ≥ M) with
    | some i => some s!"field >= coresize in {showCell i}"
    | none =>
      if cfg.mode == .icws88 then
        match r.code.find? (fun i => !Spec.Legal88 i) with
        | some i => some s!"illegal '88 instruction {showCell i}"
        | none => none
      else none

structure TextStats where
  cases : Nat := 0
  nontrivial : Nat := 0
  skipped : Nat := 0
  accepted : Nat := 0
  rejected : Nat := 0
  deriving Inhabited

/-- `L <id> <tag> <cfg×8> <hex> <expect> | <load result> ## <asm result>` -/
def runLoadLine (line : String) : List String × (TextStats → TextStats) :=
  match line.splitOn " | " with
  | [req, resp] =>
    let toks := (req.splitOn " ").filter (· != "")
    match toks with
    | "L" :: id :: tag :: rest =>
      match parseCfg (rest.take 8), rest.drop 8 with
      | some cfg, [hex, expect] =>
        let bytes := unhex hex
        let (lr, ar) := match resp.splitOn " ## " with
          | [a, b] => (a, b)
          | _ => (resp, "")
        match parseWResult lr with
        | none => ([s!"V {id} {tag} PARSE op=0 bad load result"], fun s => s)
        | some implL =>
          let implA := parseWResult ar
          let M := cfg.coreSize.toNat
          Id.run do
          let mut out : List String := []
          let ascii := isAscii bytes
          -- tie
          -- the byte-level model (`parseLoadFileU`, exact for every byte string, `parseLoadFileU_ascii`
          -- relates it to the ASCII model the older theorems are about)
          let mr := modelLoadResultB (parseLoadFileU cfg (bytes.map UInt8.ofNat))
          if true then
            if showWResult mr != showWResult implL then
              out := out ++ [s!"V {id} {tag} CORR op=0 load: model {(showWResult mr).take 300} impl {(showWResult implL).take 300}"]
          -- C10 on the implementation's result
          if implL.kind.startsWith "panic" || implL.kind == "timeout" then
            out := out ++ [s!"V {id} {tag} PROP op=0 C10 ParseLoadFile {implL.kind}"]
          if implL.kind == "ok" then
            match c10Shape cfg implL with
            | some m => out := out ++ [s!"V {id} {tag} PROP op=0 C10 {m}"]
            | none => pure ()
            if true then
              let (n, _) := Spec.significantInstrLinesU (bytes.map UInt8.ofNat)
              if n != implL.code.length then
                out := out ++ [s!"V {id} {tag} PROP op=0 C10 {n} significant instruction lines before the end marker but {implL.code.length} instructions read (silent skip or extra)"]
          -- C09
          if expect != "-" then
            match expect.splitOn ":" with
            | [st, cells] =>
              let want : WResult := { kind := "ok", start := intD st, code := (parseCells cells).getD [] }
              let same (r : WResult) : Bool := r.kind == "ok" && r.start == want.start && r.code == want.code
              if !same implL then
                out := out ++ [s!"V {id} {tag} PROP op=0 C09 loader read {(showWResult implL).take 200}, printed warrior was start={want.start} code={cells.take 200}"]
              match implA with
              | some a =>
                if !same a then
                  out := out ++ [s!"V {id} {tag} PROP op=0 C09 assembler read {(showWResult a).take 200}, printed warrior was start={want.start} code={cells.take 200}"]
              | none => pure ()
              -- generator sanity: the text denotes the warrior by the reference reader
              if ascii then
                match Spec.readText (toStr bytes) with
                | some t =>
                  if !Spec.denotes M t want.code want.start then
                    out := out ++ [s!"V {id} {tag} GEN op=0 text does not denote the warrior by the reference reader"]
                | none => out := out ++ [s!"V {id} {tag} GEN op=0 reference reader rejects the generated text"]
            | _ => out := out ++ [s!"V {id} {tag} PARSE op=0 expect"]
          let nt := implL.kind == "ok" && implL.code.length ≥ 2
          if out.isEmpty then
            return ([s!"V {id} {tag} OK ops=1 nt={if nt then 1 else 0}"], fun s =>
              { s with cases := s.cases + 1, nontrivial := s.nontrivial + (if nt then 1 else 0),
                       skipped := s.skipped + 0,
                       accepted := s.accepted + (if implL.kind == "ok" then 1 else 0),
                       rejected := s.rejected + (if implL.kind == "err" then 1 else 0) })
          else return (out, fun s => { s with cases := s.cases + 1 })
      | _, _ => ([s!"V {id} {tag} PARSE op=0 cfg"], fun s => s)
    | _ => (["V ? ? PARSE op=0 L line"], fun s => s)
  | _ => (["V ? ? PARSE op=0 L line"], fun s => s)

/-- `K <id> <tag> <cfg×8> <start> <cells> | <hex listing>` -/
def runListingLine (line : String) : List String × (TextStats → TextStats) :=
  match line.splitOn " | " with
  | [req, resp] =>
    let toks := (req.splitOn " ").filter (· != "")
    match toks with
    | "K" :: id :: tag :: rest =>
      match parseCfg (rest.take 8), rest.drop 8 with
      | some cfg, [st, cells] =>
        let code := (parseCells cells).getD []
        let start := intD st
        let legacy := cfg.mode == .icws88
        let resp := resp.trimAscii.toString
        if resp.startsWith "panic" || resp == "timeout" then
          ([s!"V {id} {tag} PROP op=0 C16 LoadCode {resp}"], fun s => { s with cases := s.cases + 1 })
        else
        let impl := toStr (unhex resp)
        let model := loadCode cfg.coreSize legacy { code := code.toArray, start := start }
        Id.run do
        let mut out : List String := []
        if model != impl then
          out := out ++ [s!"V {id} {tag} CORR op=0 listing: model {hexOf model |>.take 300} impl {resp.take 300}"]
        match Spec.readText impl with
        | some t =>
          if !Spec.denotes cfg.coreSize.toNat t code start then
            out := out ++ [s!"V {id} {tag} PROP op=0 C16 the listing does not denote the warrior: read {repr t |>.pretty.take 300}"]
        | none => out := out ++ [s!"V {id} {tag} PROP op=0 C16 the listing cannot be read back"]
        let nt := code.length ≥ 2
        if out.isEmpty then
          return ([s!"V {id} {tag} OK ops=1 nt={if nt then 1 else 0}"], fun s =>
            { s with cases := s.cases + 1, nontrivial := s.nontrivial + (if nt then 1 else 0) })
        else return (out, fun s => { s with cases := s.cases + 1 })
      | _, _ => ([s!"V {id} {tag} PARSE op=0 cfg"], fun s => s)
    | _ => (["V ? ? PARSE op=0 K line"], fun s => s)
  | _ => (["V ? ? PARSE op=0 K line"], fun s => s)

end Gmars.Driver
