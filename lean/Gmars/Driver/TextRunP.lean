/-
  Driver for the remaining printers (C16): LoadCodePMARS(), Instruction.String(), NormString().
-/
import Gmars.Driver.TextRun
import Gmars.Model.ListingP

namespace Gmars.Driver
open Gmars Gmars.Wire Gmars.GoStr

def unhexOpt (s : String) : Str := if s == "-" then [] else toStr (unhex s)

/-- `KP <id> <tag> <cfg×8> <start> <cells> <name hex> <author hex> <norm core size> |
     <hex LoadCodePMARS()> <hex of the String() lines> <hex of the NormString(n) lines>` -/
def runListingPLine (line : String) : List String × (TextStats → TextStats) :=
  match line.splitOn " | " with
  | [req, resp] =>
    let toks := (req.splitOn " ").filter (· != "")
    match toks with
    | "KP" :: id :: tag :: rest =>
      match parseCfg (rest.take 8), rest.drop 8, (resp.trimAscii.toString.splitOn " ").filter (· != "") with
      | some cfg, [st, cells, nameH, authorH, normM], [pmH, strH, normH] =>
        let code := (parseCells cells).getD []
        let start := intD st
        let legacy := cfg.mode == .icws88
        let w : WarriorData := { code := code.toArray, start := start }
        let nl : Str := ['\n']
        let mPm := loadCodePMARS cfg.coreSize legacy (unhexOpt nameH) (unhexOpt authorH) w
        let mStr := (code.map (fun i => instrString i ++ nl)).flatten
        let mNorm := (code.map (fun i => normString (u64 normM) i ++ nl)).flatten
        Id.run do
        let mut out : List String := []
        if mPm != unhexOpt pmH then
          out := out ++ [s!"V {id} {tag} CORR op=0 LoadCodePMARS: model {hexOf mPm |>.take 300} impl {pmH.take 300}"]
        if mStr != unhexOpt strH then
          out := out ++ [s!"V {id} {tag} CORR op=0 Instruction.String: model {hexOf mStr |>.take 300} impl {strH.take 300}"]
        if mNorm != unhexOpt normH then
          out := out ++ [s!"V {id} {tag} CORR op=0 NormString({normM}): model {hexOf mNorm |>.take 300} impl {normH.take 300}"]
        -- the property itself, on the implementation's text: header line, empty line, then a
        -- listing that reads back to the warrior
        if code.length > 0 && start ≥ 0 && start < code.length then
          let impl := unhexOpt pmH
          let body := (impl.dropWhile (· != '\n')).drop 1
          match Spec.readText body with
          | some t =>
            if !Spec.denotes cfg.coreSize.toNat t code start then
              out := out ++ [s!"V {id} {tag} PROP op=0 C16 the pMARS-style listing does not denote the warrior: read {repr t |>.pretty.take 300}"]
          | none => out := out ++ [s!"V {id} {tag} PROP op=0 C16 the pMARS-style listing cannot be read back"]
        let nt := code.length ≥ 2
        if out.isEmpty then
          return ([s!"V {id} {tag} OK ops=1 nt={if nt then 1 else 0}"], fun s =>
            { s with cases := s.cases + 1, nontrivial := s.nontrivial + (if nt then 1 else 0) })
        else return (out, fun s => { s with cases := s.cases + 1 })
      | _, _, _ =>
        if (resp.trimAscii.toString.startsWith "panic") || resp.trimAscii.toString == "timeout" then
          ([s!"V {id} {tag} PROP op=0 C16 LoadCodePMARS/String/NormString {resp.trimAscii.toString}"], fun s => { s with cases := s.cases + 1 })
        else ([s!"V {id} {tag} PARSE op=0 KP fields"], fun s => s)
    | _ => (["V ? ? PARSE op=0 KP line"], fun s => s)
  | _ => (["V ? ? PARSE op=0 KP line"], fun s => s)

end Gmars.Driver
