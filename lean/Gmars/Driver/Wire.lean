/-
  Wire format helpers of the correspondence protocol (DESIGN.md §4.1).
-/
import Gmars.Instr
import Gmars.Model.Sim

namespace Gmars.Wire

def splitOn (s : String) (sep : String) : List String := s.splitOn sep

def nat? (s : String) : Option Nat := s.toNat?
def int? (s : String) : Option Int := s.toInt?

def natD (s : String) : Nat := s.toNat?.getD 0
def intD (s : String) : Int := s.toInt?.getD 0

def u64 (s : String) : UInt64 := UInt64.ofNat (natD s)

/-- `op,md,am,a,bm,b` -/
def parseCell (s : String) : Option Instr :=
  match s.splitOn "," with
  | [o, m, am, a, bm, b] => do
    let o ← Op.ofNat? (← o.toNat?)
    let m ← Modifier.ofNat? (← m.toNat?)
    let am ← Mode.ofNat? (← am.toNat?)
    let bm ← Mode.ofNat? (← bm.toNat?)
    pure { op := o, md := m, am := am, a := UInt64.ofNat (← a.toNat?), bm := bm,
           b := UInt64.ofNat (← b.toNat?) }
  | _ => none

def showCell (i : Instr) : String :=
  s!"{i.op.toNat},{i.md.toNat},{i.am.toNat},{i.a.toNat},{i.bm.toNat},{i.b.toNat}"

def showSCell (i : SInstr) : String :=
  s!"{i.op.toNat},{i.md.toNat},{i.am.toNat},{i.a},{i.bm.toNat},{i.b}"

/-- list separated by `sep`, the empty string is the empty list -/
def parseList (sep : String) (s : String) : List String :=
  if s.isEmpty then [] else s.splitOn sep

def parseCells (s : String) : Option (List Instr) := (parseList ";" s).mapM parseCell

/-- key=value sections separated by blanks -/
def sections (s : String) : List (String × String) :=
  (s.splitOn " ").filterMap (fun t =>
    match t.splitOn "=" with
    | [k, v] => some (k, v)
    | _ => none)

def lookup (kv : List (String × String)) (k : String) : Option String :=
  (kv.find? (·.1 == k)).map (·.2)

end Gmars.Wire
