/-
  Instruction data model of gmars (asm.go): opcodes, modifiers ("OpMode"),
  addressing modes and the `Instruction` struct, in the numeric order of the
  Go `iota` declarations (the wire protocol of the correspondence check uses
  these numbers).
-/
namespace Gmars

inductive Op
  | dat | mov | add | sub | mul | div | mod | cmp | seq | sne | slt
  | jmp | jmz | jmn | djn | spl | nop
  deriving DecidableEq, Repr, Inhabited

inductive Modifier
  | f | a | b | ab | ba | x | i
  deriving DecidableEq, Repr, Inhabited

inductive Mode
  | direct | immediate | aInd | bInd | aDec | bDec | aInc | bInc
  deriving DecidableEq, Repr, Inhabited

def Op.all : List Op :=
  [.dat, .mov, .add, .sub, .mul, .div, .mod, .cmp, .seq, .sne, .slt,
   .jmp, .jmz, .jmn, .djn, .spl, .nop]
def Modifier.all : List Modifier := [.f, .a, .b, .ab, .ba, .x, .i]
def Mode.all : List Mode :=
  [.direct, .immediate, .aInd, .bInd, .aDec, .bDec, .aInc, .bInc]

def Op.toNat : Op → Nat
  | .dat => 0 | .mov => 1 | .add => 2 | .sub => 3 | .mul => 4 | .div => 5
  | .mod => 6 | .cmp => 7 | .seq => 8 | .sne => 9 | .slt => 10 | .jmp => 11
  | .jmz => 12 | .jmn => 13 | .djn => 14 | .spl => 15 | .nop => 16
def Op.ofNat? (n : Nat) : Option Op := Op.all[n]?

def Modifier.toNat : Modifier → Nat
  | .f => 0 | .a => 1 | .b => 2 | .ab => 3 | .ba => 4 | .x => 5 | .i => 6
def Modifier.ofNat? (n : Nat) : Option Modifier := Modifier.all[n]?

def Mode.toNat : Mode → Nat
  | .direct => 0 | .immediate => 1 | .aInd => 2 | .bInd => 3 | .aDec => 4
  | .bDec => 5 | .aInc => 6 | .bInc => 7
def Mode.ofNat? (n : Nat) : Option Mode := Mode.all[n]?

theorem Op.ofNat?_toNat (o : Op) : Op.ofNat? o.toNat = some o := by cases o <;> rfl
theorem Modifier.ofNat?_toNat (o : Modifier) : Modifier.ofNat? o.toNat = some o := by cases o <;> rfl
theorem Mode.ofNat?_toNat (o : Mode) : Mode.ofNat? o.toNat = some o := by cases o <;> rfl

/-- OpCode.String -/
def Op.name : Op → String
  | .dat => "DAT" | .mov => "MOV" | .add => "ADD" | .sub => "SUB" | .mul => "MUL"
  | .div => "DIV" | .mod => "MOD" | .cmp => "CMP" | .seq => "SEQ" | .sne => "SNE"
  | .slt => "SLT" | .jmp => "JMP" | .jmz => "JMZ" | .jmn => "JMN" | .djn => "DJN"
  | .spl => "SPL" | .nop => "NOP"

/-- OpMode.String -/
def Modifier.name : Modifier → String
  | .f => "F" | .a => "A" | .b => "B" | .ab => "AB" | .ba => "BA" | .x => "X" | .i => "I"

/-- AddressMode.String -/
def Mode.sym : Mode → Char
  | .direct => '$' | .immediate => '#' | .aInd => '*' | .bInd => '@'
  | .aDec => '{' | .bDec => '<' | .aInc => '}' | .bInc => '>'

/-- Go `Instruction` with `Address = uint64` fields. -/
structure Instr where
  op : Op := .dat
  md : Modifier := .f
  a  : UInt64 := 0
  am : Mode := .direct
  b  : UInt64 := 0
  bm : Mode := .direct
  deriving DecidableEq, Repr, Inhabited

/-- Instruction over unbounded naturals: what the reference semantics works on. -/
structure SInstr where
  op : Op := .dat
  md : Modifier := .f
  a  : Nat := 0
  am : Mode := .direct
  b  : Nat := 0
  bm : Mode := .direct
  deriving DecidableEq, Repr, Inhabited

def Instr.abs (i : Instr) : SInstr :=
  { op := i.op, md := i.md, a := i.a.toNat, am := i.am, b := i.b.toNat, bm := i.bm }

def SInstr.conc (i : SInstr) : Instr :=
  { op := i.op, md := i.md, a := UInt64.ofNat i.a, am := i.am, b := UInt64.ofNat i.b, bm := i.bm }

end Gmars
