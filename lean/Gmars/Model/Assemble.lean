/-
  CompileWarrior (compile.go): lexer → repeat { symbol scan; FOR expansion } → parser →
  compiler, composed from the stage models.
-/
import Gmars.Model.Lex
import Gmars.Model.ForExpand
import Gmars.Model.Parser
import Gmars.Model.Compile

namespace Gmars

/-- outcome of the whole assembler: a warrior, an error, "outside the modelled subset"
    (go/types.Eval left the modelled alphabet), or a fault (panic / endless loop) -/
inductive AsmRes
  | ok (w : WarriorData)
  | err
  | unmodelled
  | fault (f : Fault)
  deriving Repr, Inhabited

/-- the lexer as `evaluateAssertion` calls it: `LexInput(strings.NewReader(text))` -/
def lexString (s : String) : List Token := Lex.tokens s.toList

/-- the scan / expand loop of CompileWarrior; `depth` counts completed passes -/
def forLoop : Nat → Nat → List Token → Except AsmRes (List Token)
  | 0, _, _ => .error (.fault (.hang "CompileWarrior: pass loop"))
  | fuel + 1, depth, tokens =>
    match scanInput tokens with
    | .error f => .error (.fault f)
    | .ok none => .error .err
    | .ok (some (symbols, forSeen)) =>
      if !forSeen then .ok tokens
      else
        match forExpandWith expandAndEvaluate tokens symbols with
        | .error f => .error (.fault f)
        | .ok (_, true) => .error .unmodelled
        | .ok (none, _) => .error .err
        | .ok (some expanded, false) =>
          if depth + 1 > 12 then .error .err
          else forLoop fuel (depth + 1) expanded

/-- `CompileWarrior(bytes.NewReader(src), cfg)` -/
def assemble (cfg : Config) (src : List UInt8) : AsmRes :=
  let tokens := lexBytes src
  match forLoop 14 0 tokens with
  | .error r => r
  | .ok tokens =>
    match parse tokens with
    | .error f => .fault f
    | .ok none => .err
    | .ok (some (lines, ameta)) =>
      if compileUnmodelled lexString cfg lines ameta then .unmodelled
      else match compile lexString cfg lines ameta with
        | .error f => .fault f
        | .ok none => .err
        | .ok (some w) => .ok w

end Gmars
