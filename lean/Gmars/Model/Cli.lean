/-
  cmd/gmars/main.go: flag → configuration mapping, the battle loop and the tally logic,
  composed from the assembler and simulator models. The random placement of warrior #2 is an
  explicit argument (one placement per round); package `flag`, the PRNG and the process exit
  paths are outside the model (DESIGN.md §7).
-/
import Gmars.Model.Assemble

namespace Gmars.Cli

structure Flags where
  use88  : Bool := false
  size   : Int := 8000
  procs  : Int := 8000
  cycles : Int := 80000
  len    : Int := 100
  fixed  : Int := 0
  rounds : Int := 1
  preset : String := ""
  deriving Repr, Inhabited

/-- config.go: the named presets -/
def preset? (name : String) : Option Config :=
  match name with
  | "88" => some { mode := .icws88, coreSize := 8000, processes := 8000, cycles := 80000, readLimit := 8000, writeLimit := 8000, length := 100, distance := 100 }
  | "icws" => some { mode := .icws88, coreSize := 8192, processes := 8000, cycles := 10000, readLimit := 8000, writeLimit := 8000, length := 300, distance := 100 }
  | "nop94" => some { mode := .icws94, coreSize := 8000, processes := 8000, cycles := 80000, readLimit := 8000, writeLimit := 8000, length := 100, distance := 100 }
  | "noptiny" => some { mode := .nop94, coreSize := 800, processes := 800, cycles := 8000, readLimit := 800, writeLimit := 800, length := 20, distance := 20 }
  | "nop256" => some { mode := .nop94, coreSize := 256, processes := 60, cycles := 2560, readLimit := 800, writeLimit := 800, length := 10, distance := 10 }
  | "nopnano" => some { mode := .nop94, coreSize := 80, processes := 80, cycles := 800, readLimit := 80, writeLimit := 80, length := 5, distance := 5 }
  | _ => none

/-- the configuration the flags describe: a preset overrides every other flag;
    otherwise `NewQuickConfig(mode, -s, -p, -c, -l)`; `none` = unknown preset (exit 1) -/
def config (f : Flags) : Option Config :=
  if f.preset != "" then preset? f.preset
  else some (Config.quick (if f.use88 then .icws88 else .icws94) (intToAddr f.size) (intToAddr f.procs)
              (intToAddr f.cycles) (intToAddr f.len))

/-- one round: fresh simulator, warrior 1 at 0, warrior 2 (if any) at `place`; returns who is
    alive afterwards. `none` = something the CLI treats as fatal / a fault. -/
def round (cfg : Config) (ws : List WarriorData) (place : UInt64) : Option (List Bool) := do
  let s ← Sim.new cfg
  match ws with
  | [w1] =>
    let s := s.addWarrior w1
    let (s, ok) ← (s.spawn 0 0).toOption
    if !ok then none
    let (s, _) ← (s.runLoop (s.maxCycles.toNat + 2)).toOption
    pure s.results
  | [w1, w2] =>
    let s := s.addWarrior w1
    let (s, ok) ← (s.spawn 0 0).toOption
    if !ok then none
    let s := s.addWarrior w2
    let (s, ok) ← (s.spawn 1 place).toOption
    if !ok then none
    let (s, _) ← (s.runLoop (s.maxCycles.toNat + 2)).toOption
    pure s.results
  | _ => none

structure Tally where
  w1win : Nat := 0
  w1tie : Nat := 0
  w2win : Nat := 0
  w2tie : Nat := 0
  deriving Repr, DecidableEq, Inhabited

/-- the tally logic of main.go for one round -/
def Tally.add (t : Tally) (alive : List Bool) : Tally :=
  match alive with
  | [a1] => if a1 then { t with w1win := t.w1win + 1 } else t
  | [a1, a2] =>
    let t := if a1 then (if a2 then { t with w1tie := t.w1tie + 1 } else { t with w1win := t.w1win + 1 }) else t
    if a2 then (if a1 then { t with w2tie := t.w2tie + 1 } else { t with w2win := t.w2win + 1 }) else t
  | _ => t

def Tally.lines (t : Tally) (n : Nat) : List String :=
  [s!"{t.w1win} {t.w1tie}"] ++ (if n > 1 then [s!"{t.w2win} {t.w2tie}"] else [])

/-- the battle loop: one placement per round -/
def battles (cfg : Config) (ws : List WarriorData) (places : List UInt64) : Option Tally :=
  places.foldlM (fun t p => (round cfg ws p).map t.add) {}

end Gmars.Cli
