/-
  cmd/gmars/main.go, the `-A` branch ("Assemble and output warriors only"):

      config  := preset | NewQuickConfig(mode, -s, -p, -c, -l)      -- Cli.config
      if len(args) > 2 { exit 1 }
      for each file: CompileWarrior(file, config) or exit 1           -- assemble
      if len(warriors) == 0 { exit 1 }
      if *assembleFlag {
        sim, err := NewSimulator(config); if err != nil { Printf(...) }   -- no exit!
        for _, warriorData := range warriors {
          w, err := sim.AddWarrior(&warriorData); ...
          fmt.Println(w.LoadCode())
        }
        return
      }

  Everything is printed after ALL files were assembled, so any failure of any file leaves
  stdout empty. Outside the model: package `flag` itself (unknown flags, values outside int64),
  `-version`, files that cannot be opened, and whether the operating system grants the
  allocation of the core (`make([]Instruction, m)` below the runtime's own limit).
-/
import Gmars.Model.Cli
import Gmars.Model.Listing

namespace Gmars.Cli
open Gmars GoStr

/-- what `gmars -A …` does -/
inductive ARes
  /-- exit status 0 with exactly this text on stdout -/
  | out (text : Str)
  /-- exit status 1, nothing on stdout: unknown preset, more than two files, no file,
      or a file that does not assemble -/
  | exit1
  /-- a file left the modelled subset of the assembler (go/types.Eval alphabet) -/
  | unmodelled
  /-- the tool does not return normally (panic: exit status 2 / endless loop); nothing was
      printed on stdout before -/
  | fault (f : Fault)
  deriving Repr, Inhabited

/-- the loop over `flag.Args()`: the files are assembled in order and the FIRST one that does
    not yield a warrior decides (the later ones are never opened) -/
def assembleAll (cfg : Config) : List (List UInt8) → Except ARes (List WarriorData)
  | [] => .ok []
  | f :: fs =>
    match assemble cfg f with
    | .ok w =>
      match assembleAll cfg fs with
      | .ok ws => .ok (w :: ws)
      | .error r => .error r
    | .err => .error .exit1
    | .unmodelled => .error .unmodelled
    | .fault ft => .error (.fault ft)

/-- `unsafe.Sizeof(Instruction{})`: two bytes, padding, two 8-byte fields each followed by a
    one-byte mode and padding -/
def instrBytes : Nat := 40

/-- `maxAlloc` of the Go runtime on linux/amd64 (48 address bits): `make([]T, n)` panics with
    "makeslice: len out of range" iff `n * sizeof(T) > maxAlloc` (or `n` is negative as an int) -/
def maxAlloc : Nat := 2 ^ 48

/-- the listing `LoadCode()` gives for a warrior added to `NewSimulator(cfg)`:
    `sim.m = cfg.CoreSize`, `sim.legacy = (cfg.Mode == ICWS88)` -/
def listingOf (cfg : Config) (w : WarriorData) : Str :=
  loadCode cfg.coreSize (cfg.mode == .icws88) w

/-- the text of the `-A` loop: `fmt.Println(w.LoadCode())` for each warrior -/
def listings (cfg : Config) (ws : List WarriorData) : Str :=
  (ws.map (fun w => listingOf cfg w ++ ['\n'])).flatten

/-- `gmars -A <flags> <files>` with the files given by their contents -/
def cliAssembleRun (fl : Flags) (files : List (List UInt8)) : ARes :=
  match config fl with
  | none => .exit1                                   -- "error loading config", exit 1
  | some cfg =>
    if files.length > 2 then .exit1                  -- "only 2 warrior battles supported"
    else
      match assembleAll cfg files with
      | .error r => r
      | .ok ws =>
        if ws.isEmpty then .exit1                    -- "no warriors specified"
        else if !cfg.validate then
          -- NewSimulator returns (nil *reportSim, err); main only prints the error and goes on:
          -- `sim.AddWarrior` on the nil receiver dereferences it. (Unreachable: newCompiler
          -- validated the same configuration for every file, see `Proofs/CliList.lean`.)
          .fault (.panic .nilDeref)
        else if cfg.coreSize.toNat * instrBytes > maxAlloc then
          .fault (.panic .makeLen)                   -- sim.mem = make([]Instruction, sim.m)
        else .out (listings cfg ws)

/-- stdout of a successful `gmars -A`; `none` = anything else (exit 1, a fault, unmodelled) -/
def cliAssembleOutput (fl : Flags) (files : List (List UInt8)) : Option String :=
  match cliAssembleRun fl files with
  | .out t => some (String.ofList t)
  | _ => none

end Gmars.Cli
