/-
  compile.go: `newCompiler` + `compile()` (loadConstants, loadSymbols, the
  fixpoint `expandExpression`, `evaluateAssertions`, `assembleLine`, length and
  start checks), mirrored function by function.

  Conventions
  * Go `int` is `Int`, kept inside the int64 range by `wrap64` wherever Go
    arithmetic could wrap; Go `%` is `Int.tmod`; `int(c.m)` is the two's
    complement reading of the uint64 core size (`mInt`), so core sizes ≥ 2^63
    give a NEGATIVE modulus exactly as in Go.
  * Go maps are association lists (`SymTab` for `values`, `LabTab` for `labels`).
  * The lexer used by `evaluateAssertion` (`LexInput`) is a PARAMETER
    `lexTokens : String → List Token` = the token slice `LexInput` returns (its
    error result is always nil: `Tokens()` stops at the first tokEOF/tokError
    token and the lexer always sends one, so the slice is never empty; an
    empty answer of the parameter is mirrored as the slice-bounds panic of
    `assertTokens[:len(assertTokens)-1]`).
  * Errors are a category only. Internally there are four outcomes
    (`CErr.goErr`, `CErr.unmodelled`, `CErr.fault`, or a value); `compileX`
    exposes them, `compile` maps both `goErr` and `unmodelled` to `.ok none`
    and `compileUnmodelled` tells the caller that the answer is not to be
    trusted because `evaluateExpression` (go/types.Eval) left the modelled
    subset BEFORE any definite error was reached.
-/
import Gmars.Model.Expr

namespace Gmars
namespace Compile

/-! ## Go `int` arithmetic -/

/-- reduce into the int64 range (two's complement wrap-around) -/
def wrap64 (i : Int) : Int :=
  let r := i % 18446744073709551616
  if r ≥ 9223372036854775808 then r - 18446744073709551616 else r

/-- `int(c.m)` -/
def mInt (m : UInt64) : Int := wrap64 (Int.ofNat m.toNat)

/-- `Address(v)` for an `int` v -/
def toAddr (i : Int) : UInt64 := UInt64.ofNat (i % 18446744073709551616).toNat

/-! ## outcomes -/

inductive CErr
  | fault (f : Fault)      -- panic or endless loop
  | goErr                  -- the Go function returned a non-nil error
  | unmodelled             -- evaluateExpression left the modelled subset of go/types.Eval
  deriving DecidableEq, Repr, Inhabited

abbrev M := Except CErr

/-- `evaluateExpression` with its error return -/
def evalM (ts : List Token) : M Int :=
  match evaluateExpression ts with
  | .ok i => .ok i
  | .err => .error .goErr
  | .unmodelled => .error .unmodelled

/-! ## label table (`map[string]int`) -/

abbrev LabTab := List (String × Int)

def LabTab.get? (m : LabTab) (k : String) : Option Int := (m.find? (·.1 == k)).map (·.2)
def LabTab.has (m : LabTab) (k : String) : Bool := (m.find? (·.1 == k)).isSome
def LabTab.set (m : LabTab) (k : String) (v : Int) : LabTab :=
  if m.has k then m.map (fun (k', v') => if k' == k then (k', v) else (k', v')) else m ++ [(k, v)]

/-- the `compiler` struct (lines and metadata are passed separately) -/
structure Compiler where
  cfg : Config
  values : SymTab := []
  labels : LabTab := []
  startExpr : List Token := [{ typ := .number, val := "0" }]
  deriving Repr, Inhabited

def Compiler.m (c : Compiler) : UInt64 := c.cfg.coreSize

def numTok (n : Nat) : Token := { typ := .number, val := toString n }

/-- `loadConstants`: `%d` of the unsigned `Address` values -/
def loadConstants (c : Compiler) : Compiler :=
  let v := c.values
  let v := v.set "CORESIZE" [numTok c.cfg.coreSize.toNat]
  let v := v.set "MAXLENGTH" [numTok c.cfg.length.toNat]
  let v := v.set "MAXPROCESSES" [numTok c.cfg.processes.toNat]
  let v := v.set "MINDISTANCE" [numTok c.cfg.distance.toNat]
  { c with values := v }

/-- one iteration of the line loop of `loadSymbols`; the `Int` is `curPseudoLine` -/
def loadSymbolsLine (st : Compiler × Int) (line : SourceLine) : Compiler × Int :=
  let (c, cur) := st
  let a := line.a.getD []
  let c :=
    if line.typ == .pseudoOp then
      let op := lowerStr line.op
      if op == "equ" then
        { c with values := line.labels.foldl (fun v l => v.set l a) c.values }
      else if op == "org" then
        { c with startExpr := a }
      else if op == "end" then
        let c := if a.length > 0 then { c with startExpr := a } else c
        { c with labels := line.labels.foldl (fun t l => t.set l cur) c.labels }
      else c
    else c
  if line.typ == .instruction then
    ({ c with labels := line.labels.foldl (fun t l => t.set l line.codeLine) c.labels }, wrap64 (cur + 1))
  else (c, cur)

/-- `loadSymbols` (fresh maps, constants, then the lines in order) -/
def loadSymbols (c : Compiler) (lines : List SourceLine) : Compiler :=
  let c := loadConstants { c with values := [], labels := [] }
  (lines.foldl loadSymbolsLine (c, 0)).1

/-! ## expandExpression -/

/-- the tokens one token of the input contributes to `output` in one round -/
def expandTok (c : Compiler) (line : Int) (t : Token) : M (List Token) :=
  if t.typ == .text then
    match c.values.get? t.val with
    | some v => .ok v
    | none =>
      match c.labels.get? t.val with
      | some label =>
        let m := mInt c.m
        if m == 0 then .error (.fault (.panic .divZero))     -- unreachable after Validate
        else
          let val := Int.tmod (wrap64 (label - line)) m
          if val < 0 then .ok [{ typ := .symbol, val := "-" }, numTok (wrap64 (-val)).toNat]
          else .ok [numTok val.toNat]
      | none => .error .goErr
  else .ok [t]

/-- one round of the inner `for _, tok := range input` loop, left to right -/
def expandOnce (c : Compiler) (line : Int) : List Token → M (List Token)
  | [] => .ok []
  | t :: r => do
    let x ← expandTok c line t
    let rest ← expandOnce c line r
    pure (x ++ rest)

/-- the `for !exprEqual(input, output)` loop from its second test on: `fuel` rounds -/
def expandLoop (c : Compiler) (line : Int) : Nat → List Token → M (List Token)
  | 0, _ => .error (.fault (.hang "expandExpression"))
  | fuel + 1, input => do
    let output ← expandOnce c line input
    if output == input then pure output else expandLoop c line fuel output

/-- `expandExpression(expr, line)`.

    Go: `output` starts nil; an EMPTY `expr` is equal to it and the loop body never runs
    (result: nil). Otherwise every round rewrites `input` into `output` and the loop ends
    when a round changes nothing; an unresolved text token aborts with an error.

    Fuel. Give every token a depth: 0 for a non-text token, 1 for a text token that is a
    label but not a key of `values`, and `1 + max depth of the tokens of values[k]` (1 for
    an empty value) for a key `k` of `values`; on an ACYCLIC table (what `compile()` has
    established with `graphContainsCycle` before the first call) this is well defined and
    at most `#values + 1` (a chain of distinct keys ending in a label). One round replaces
    every text token by tokens of strictly smaller depth (`-`/number tokens have depth 0),
    so the maximal depth of the list drops by one per round; after at most `#values + 1`
    rounds no text token is left and the next round is the identity, which ends the loop:
    at most `#values + 2 ≤ #values + #labels + 2` rounds. Beyond the bound the table is
    cyclic and Go never leaves the loop (x→y→x alternates for ever; x→x x grows until
    memory is exhausted): `Fault.hang "expandExpression"`. -/
def expandExpression (c : Compiler) (expr : List Token) (line : Int) : M (List Token) :=
  if expr.isEmpty then .ok []
  else expandLoop c line (c.values.length + c.labels.length + 2) expr

/-! ## assertions -/

/-- `evaluateAssertion` -/
def evaluateAssertion (lexTokens : String → List Token) (c : Compiler) (assertText : String) : M Unit := do
  let assertTokens := lexTokens assertText
  if assertTokens.isEmpty then throw (.fault (.panic .slice))   -- assertTokens[:len-1], len = 0
  let assertTokens := assertTokens.dropLast
  let exprTokens ← expandExpression c assertTokens 0
  let exprVal ← evalM exprTokens
  if exprVal == 0 then throw .goErr
  pure ()

def assertPrefix : List Char := ";assert".toList

/-- `evaluateAssertions`; `line.comment[7:]` cannot fail behind the HasPrefix test -/
def evaluateAssertions (lexTokens : String → List Token) (c : Compiler) : List SourceLine → M Unit
  | [] => .ok ()
  | line :: rest => do
    if line.typ == .comment && assertPrefix.isPrefixOf line.comment.toList then
      evaluateAssertion lexTokens c (String.ofList (line.comment.toList.drop 7))
    evaluateAssertions lexTokens c rest

/-! ## assembleLine -/

def Compiler.legacy (c : Compiler) : Bool := c.cfg.mode == .icws88

/-- `compiler.getAddressMode` -/
def Compiler.getAddressMode (c : Compiler) (s : String) : Option Mode :=
  if c.legacy then getAddressMode88 s.toList else Gmars.getAddressMode s.toList

def optM {α} : Option α → M α
  | some a => .ok a
  | none => .error .goErr

/-- `aVal % m`, then `(m + aVal) % m` if negative, then `Address(aVal)` -/
def reduceMod (v m : Int) : M UInt64 :=
  if m == 0 then .error (.fault (.panic .divZero))            -- unreachable after Validate
  else
    let v := Int.tmod v m
    let v := if v < 0 then Int.tmod (wrap64 (m + v)) m else v
    .ok (toAddr v)

/-- `assembleLine` -/
def assembleLine (c : Compiler) (ln : SourceLine) : M Instr := do
  let opLower := lowerStr ln.op
  let dflt : Mode := if c.legacy && opLower == "dat" then .immediate else .direct
  let aMode ← (if ln.amode == "" then pure dflt else optM (c.getAddressMode ln.amode))
  let bMode ← (if ln.bmode == "" then pure dflt else optM (c.getAddressMode ln.bmode))
  let (op, opMode) ← (
    if c.legacy then do
      let op88 ← optM (getOpCode88 ln.op.toList)
      let md88 ← optM (getOpModeAndValidate88 op88 aMode bMode)
      pure (op88, md88)
    else
      match getOp94 ln.op.toList with
      | some r => pure r
      | none => do
        let op94 ← optM (getOpCode ln.op.toList)
        pure (op94, getOpMode94 op94 aMode bMode))
  let aExpr ← expandExpression c (ln.a.getD []) ln.codeLine
  let aVal ← evalM aExpr
  let b := ln.b.getD []
  let (aMode, aVal, bMode, bVal) ← (
    if b.isEmpty then
      if op == .dat then pure (Mode.immediate, (0 : Int), aMode, aVal)
      else pure (aMode, aVal, bMode, (0 : Int))
    else do
      let bExpr ← expandExpression c b ln.codeLine
      let bVal ← evalM bExpr
      pure (aMode, aVal, bMode, bVal))
  let m := mInt c.m
  let a ← reduceMod aVal m
  let b ← reduceMod bVal m
  pure { op := op, md := opMode, am := aMode, a := a, bm := bMode, b := b }

def assembleLines (c : Compiler) : List SourceLine → Array Instr → M (Array Instr)
  | [], code => .ok code
  | line :: rest, code =>
    if line.typ != .instruction then assembleLines c rest code
    else do
      let instr ← assembleLine c line
      assembleLines c rest (code.push instr)

/-! ## compile -/

/-- `newCompiler(lines, metadata, cfg)` followed by `compile()` -/
def compileX (lexTokens : String → List Token) (cfg : Config) (lines : List SourceLine) (ameta : AsmMeta) :
    M WarriorData := do
  if !cfg.validate then throw .goErr
  let c : Compiler := { cfg := cfg }
  let c := loadSymbols c lines
  let graph := buildReferenceGraph c.values
  if graphContainsCycle graph then throw .goErr
  evaluateAssertions lexTokens c lines
  let resolved ← optM (expandExpressions c.values graph)
  let c := { c with values := resolved }
  let code ← assembleLines c lines #[]
  -- Address(len(code)) > c.config.Length
  if code.size > cfg.length.toNat then throw .goErr
  let startExpr ← expandExpression c c.startExpr 0
  let startVal ← evalM startExpr
  if startVal < 0 || (startVal ≥ code.size && startVal != 0) then throw .goErr
  pure { name := ameta.name, author := ameta.author, strategy := ameta.strategy, code := code, start := startVal }

/-- The model of compile.go. `.ok none` = an error was returned (including an invalid
    configuration) — or the case is unmodelled, see `compileUnmodelled`; `.error (.hang _)` /
    `.error (.panic _)` = Go does not return. -/
def compile (lexTokens : String → List Token) (cfg : Config) (lines : List SourceLine) (ameta : AsmMeta) :
    Except Fault (Option WarriorData) :=
  match compileX lexTokens cfg lines ameta with
  | .ok w => .ok (some w)
  | .error .goErr => .ok none
  | .error .unmodelled => .ok none
  | .error (.fault f) => .error f

/-- `true` iff the first thing that went wrong in program order was an expression outside the
    modelled subset of go/types.Eval: the answer of `compile` must then be ignored. -/
def compileUnmodelled (lexTokens : String → List Token) (cfg : Config) (lines : List SourceLine)
    (ameta : AsmMeta) : Bool :=
  match compileX lexTokens cfg lines ameta with
  | .error .unmodelled => true
  | _ => false

end Compile

export Compile (compile compileUnmodelled)

end Gmars
