/-
  Model of debugReporter.Report (reporter.go): the line NewDebugReporter's listener prints for one
  report, given what it reads from the simulator at that moment (CycleCount(), the cell at the
  report's address, CoreSize()). Report types it does not mention (CycleEnd) print nothing.
-/
import Gmars.Model.ListingP

namespace Gmars
open GoStr

/-- `%0Nd` of an int: zero padded to width n, the sign counts towards the width -/
def padZero (n : Nat) (i : Int) : Str :=
  if i < 0 then '-' :: (List.replicate (n - 1 - (natDigits i.natAbs).length) '0' ++ natDigits i.natAbs)
  else List.replicate (n - (natDigits i.toNat).length) '0' ++ natDigits i.toNat

/-- the text `debugReporter.Report` prints for `r` when `CycleCount()` is `cycles`, the core has
    `m` cells and `cell` is `GetMem(r.addr)` -/
def debugLine (r : Report) (cycles : Nat) (m : UInt64) (cell : Instr) : Str :=
  let w := padZero 2 r.wi
  let a := padZero 4 (r.addr.toNat : Int)
  match r.typ with
  | .simReset => "Simulator reset\n".toList
  | .cycleStart => natDigits cycles ++ "\n".toList
  | .cycleEnd => []
  | .warriorSpawn => "w".toList ++ w ++ " ".toList ++ a ++ ": Warrior Spawn\n".toList
  | .taskPop => "W".toList ++ w ++ " ".toList ++ a ++ ": Exec ".toList ++ normString m cell ++ "\n".toList
  | .taskPush => "W".toList ++ w ++ ": Task Push ".toList ++ a ++ "\n".toList
  | .taskTerminate => "W".toList ++ w ++ " ".toList ++ a ++ ": Task Terminated\n".toList
  | .warriorTerminate => "W".toList ++ w ++ " ".toList ++ a ++ ": Warrior Terminated\n".toList
  | .read => "W".toList ++ w ++ " ".toList ++ a ++ ": Read\n".toList
  | .write => "W".toList ++ w ++ " ".toList ++ a ++ ": Write\n".toList
  | .increment => "W".toList ++ w ++ " ".toList ++ a ++ ": Increment\n".toList
  | .decrement => "W".toList ++ w ++ " ".toList ++ a ++ ": Decrement\n".toList

end Gmars
