/-
  expr.go and graph.go: sign folding, double-negative rewriting, evaluation
  through `go/types.Eval` (modelled by `GoEval`, an executable model of Go's
  scanner + constant-expression evaluation on the alphabet the lexer can
  produce; it answers `unmodelled` outside a conservative subset), the EQU
  reference graph, cycle detection and textual expansion.
-/
import Gmars.Model.Token

namespace Gmars

/-! ## GoEval: go/types.Eval on strings over `0-9 + - * / % ( ) < > = | & $ # @ { }` -/
namespace GoEval

inductive GTok
  | int (n : Nat)
  | op (s : String)      -- + - * / % << >> == < <= > >= && ||
  | lparen | rparen
  | bad                  -- a token that cannot occur in an expression (++ -- += <- = { } …)
  deriving DecidableEq, Repr, Inhabited

inductive Val | int (i : Int) | bool (b : Bool)
  deriving DecidableEq, Repr, Inhabited

inductive Res (α : Type) | ok (v : α) | err | unmodelled
  deriving Repr, Inhabited

def isDigit (c : Char) : Bool := '0' ≤ c ∧ c ≤ '9'

def litVal (ds : List Char) : Option Nat :=
  match ds with
  | '0' :: (_ :: _) =>
    -- legacy octal
    if ds.all (fun c => '0' ≤ c ∧ c ≤ '7') then
      some (ds.foldl (fun n c => n * 8 + (c.toNat - '0'.toNat)) 0)
    else none
  | _ => some (ds.foldl (fun n c => n * 10 + (c.toNat - '0'.toNat)) 0)

/-- skip a `/* … */` comment body; `none` if unterminated -/
def skipBlock : List Char → Option (List Char)
  | '*' :: '/' :: r => some r
  | _ :: r => skipBlock r
  | [] => none

/-- Go's scanner (maximal munch) on the alphabet; `none` = illegal character or
    unterminated comment (an error of `Eval`) -/
def scan : Nat → List Char → Option (List GTok)
  | 0, _ => some []
  | fuel + 1, cs =>
    match cs with
    | [] => some []
    | c :: r =>
      if isDigit c then
        let ds := cs.takeWhile isDigit
        let rest := cs.dropWhile isDigit
        match litVal ds with
        | none => none
        | some n => (scan fuel rest).map (GTok.int n :: ·)
      else
        let one (t : GTok) (rest : List Char) := (scan fuel rest).map (t :: ·)
        match c, r with
        | '+', '+' :: r' => one .bad r'
        | '+', '=' :: r' => one .bad r'
        | '+', _ => one (.op "+") r
        | '-', '-' :: r' => one .bad r'
        | '-', '=' :: r' => one .bad r'
        | '-', _ => one (.op "-") r
        | '*', '=' :: r' => one .bad r'
        | '*', _ => one (.op "*") r
        | '/', '/' :: _ => some []               -- line comment to the end of the input
        | '/', '*' :: r' =>
          match skipBlock r' with
          | none => none
          | some r'' => scan fuel r''
        | '/', '=' :: r' => one .bad r'
        | '/', _ => one (.op "/") r
        | '%', '=' :: r' => one .bad r'
        | '%', _ => one (.op "%") r
        | '<', '-' :: r' => one .bad r'
        | '<', '=' :: r' => one (.op "<=") r'
        | '<', '<' :: '=' :: r' => one .bad r'
        | '<', '<' :: r' => one (.op "<<") r'
        | '<', _ => one (.op "<") r
        | '>', '=' :: r' => one (.op ">=") r'
        | '>', '>' :: '=' :: r' => one .bad r'
        | '>', '>' :: r' => one (.op ">>") r'
        | '>', _ => one (.op ">") r
        | '=', '=' :: r' => one (.op "==") r'
        | '=', _ => one .bad r
        | '|', '|' :: r' => one (.op "||") r'
        | '|', _ => one .bad r
        | '&', '&' :: r' => one (.op "&&") r'
        | '&', _ => one .bad r
        | '(', _ => one .lparen r
        | ')', _ => one .rparen r
        | '{', _ => one .bad r
        | '}', _ => one .bad r
        | _, _ => none

def prec : String → Nat
  | "*" | "/" | "%" | "<<" | ">>" => 5
  | "+" | "-" => 4
  | "==" | "<" | "<=" | ">" | ">=" => 3
  | "&&" => 2
  | "||" => 1
  | _ => 0

def big : Int := 2 ^ 500

def guard (i : Int) : Res Val := if i ≥ big || i ≤ -big then .unmodelled else .ok (.int i)

def binop (op : String) (x y : Val) : Res Val :=
  match x, y with
  | .int a, .int b =>
    match op with
    | "+" => guard (a + b)
    | "-" => guard (a - b)
    | "*" => guard (a * b)
    | "/" => if b == 0 then .err else .ok (.int (Int.tdiv a b))
    | "%" => if b == 0 then .err else .ok (.int (Int.tmod a b))
    | "<<" => if b < 0 then .err else if b > 400 then .unmodelled else guard (a * 2 ^ b.toNat)
    | ">>" => if b < 0 then .err else if b > 400 then .unmodelled else .ok (.int (a / 2 ^ b.toNat))
    | "==" => .ok (.bool (a == b))
    | "<" => .ok (.bool (a < b))
    | "<=" => .ok (.bool (a ≤ b))
    | ">" => .ok (.bool (a > b))
    | ">=" => .ok (.bool (a ≥ b))
    | _ => .err
  | .bool a, .bool b =>
    match op with
    | "==" => .ok (.bool (a == b))
    | "&&" => .ok (.bool (a && b))
    | "||" => .ok (.bool (a || b))
    | _ => .err
  | _, _ => .err

/-- combine two results: any error wins over unmodelled only when certain -/
def lift2 (op : String) (x y : Res Val) : Res Val :=
  match x, y with
  | .ok a, .ok b => binop op a b
  | .err, _ => .err
  | _, .err => .err
  | _, _ => .unmodelled

def neg (x : Res Val) : Res Val :=
  match x with
  | .ok (.int a) => .ok (.int (-a))
  | .ok (.bool _) => .err
  | r => r

def pos (x : Res Val) : Res Val :=
  match x with
  | .ok (.bool _) => .err
  | r => r

mutual
  /-- unary expression; returns the value and the remaining tokens; `none` = syntax error -/
  def parseUnary : Nat → List GTok → Option (Res Val × List GTok)
    | 0, _ => none
    | fuel + 1, ts =>
      match ts with
      | .op "-" :: r => (parseUnary fuel r).map (fun (v, r') => (neg v, r'))
      | .op "+" :: r => (parseUnary fuel r).map (fun (v, r') => (pos v, r'))
      | .op "*" :: r => (parseUnary fuel r).map (fun (_, r') => (.err, r'))   -- pointer dereference
      | .int n :: r => some (.ok (.int n), r)
      | .lparen :: r =>
        match parseBinary fuel r 1 with
        | some (v, .rparen :: r') => some (v, r')
        | _ => none
      | _ => none

  def parseBinary : Nat → List GTok → Nat → Option (Res Val × List GTok)
    | 0, _, _ => none
    | fuel + 1, ts, p1 =>
      match parseUnary fuel ts with
      | none => none
      | some (x, r) => binLoop fuel x r p1

  def binLoop : Nat → Res Val → List GTok → Nat → Option (Res Val × List GTok)
    | 0, _, _, _ => none
    | fuel + 1, x, ts, p1 =>
      match ts with
      | .op o :: r =>
        let p := prec o
        if p < p1 || p == 0 then some (x, ts)
        else
          match parseBinary fuel r (p + 1) with
          | none => none
          | some (y, r') => binLoop fuel (lift2 o x y) r' p1
      | _ => some (x, ts)
end

/-- `types.Eval(fs, nil, NoPos, s)` restricted to constant integer / boolean results -/
def eval (s : String) : Res Val :=
  let cs := s.toList
  match scan (cs.length + 1) cs with
  | none => .err
  | some ts =>
    if ts.contains .bad then .err
    else
      match parseBinary (3 * ts.length + 3) ts 1 with
      | some (v, []) => v
      | _ => .err

end GoEval

/-! ## expr.go -/

inductive EvalRes | ok (i : Int) | err | unmodelled
  deriving DecidableEq, Repr, Inhabited

def isSign (t : Token) : Bool := t.val == "-" || t.val == "+"

/-- consume a run of sign tokens, returning the parity of the minus signs and the rest -/
def signRun : List Token → Bool → Bool × List Token
  | t :: r, neg => if isSign t then signRun r (if t.val == "-" then !neg else neg) else (neg, t :: r)
  | [], neg => (neg, [])

theorem signRun_length (ts : List Token) (b : Bool) : (signRun ts b).2.length ≤ ts.length := by
  induction ts generalizing b with
  | nil => simp [signRun]
  | cons t r ih =>
    unfold signRun
    split
    · exact Nat.le_succ_of_le (ih _)
    · simp

/-- `combineSigns`; `lastSym` = "the last token copied to the output is a tokSymbol" -/
def combineSignsAux (fuel : Nat) (lastSym : Bool) (ts : List Token) : List Token :=
  match fuel with
  | 0 => []
  | fuel + 1 =>
    match ts with
    | [] => []
    | t :: r =>
      if lastSym then
        let (neg, rest) := signRun (t :: r) false
        let pre := if neg then [{ typ := .symbol, val := "-" : Token }] else []
        match rest with
        | [] => pre
        | x :: r' => pre ++ x :: combineSignsAux fuel (x.typ == .symbol) r'
      else t :: combineSignsAux fuel (t.typ == .symbol) r

def combineSigns (ts : List Token) : List Token := combineSignsAux (ts.length + 1) false ts

/-- `flipDoubleNegatives` -/
def flipDoubleNegatives : List Token → List Token
  | a :: b :: r =>
    if a.val == "-" && b.val == "-" then { typ := .symbol, val := "+" } :: flipDoubleNegatives r
    else a :: flipDoubleNegatives (b :: r)
  | l => l

/-- `evaluateExpression` -/
def evaluateExpression (ts : List Token) : EvalRes :=
  if ts.any (fun t => t.typ == .text || !t.isExpressionTerm) then .err
  else
    let s := String.join ((flipDoubleNegatives (combineSigns ts)).map (·.val))
    match GoEval.eval s with
    | .err => .err
    | .unmodelled => .unmodelled
    | .ok (.bool b) => .ok (if b then 1 else 0)
    | .ok (.int i) => if -2147483648 ≤ i ∧ i ≤ 2147483647 then .ok i else .err

/-! ## symbol tables as association lists (Go maps) -/

abbrev SymTab := List (String × List Token)

def SymTab.get? (m : SymTab) (k : String) : Option (List Token) := (m.find? (·.1 == k)).map (·.2)
def SymTab.has (m : SymTab) (k : String) : Bool := (m.find? (·.1 == k)).isSome
/-- `m[k] = v` -/
def SymTab.set (m : SymTab) (k : String) (v : List Token) : SymTab :=
  if m.has k then m.map (fun (k', v') => if k' == k then (k', v) else (k', v')) else m ++ [(k, v)]

/-! ## graph.go -/

abbrev Graph := List (String × List String)

def Graph.get? (g : Graph) (k : String) : Option (List String) := (g.find? (·.1 == k)).map (·.2)

/-- `buildReferenceGraph` -/
def buildReferenceGraph (values : SymTab) : Graph :=
  values.filterMap (fun (key, toks) =>
    if toks.isEmpty then none
    else
      let refs := toks.foldl (fun (acc : List String) t =>
        if t.typ != .text then acc
        else if values.has t.val then (if acc.contains t.val then acc else acc ++ [t.val]) else acc) []
      some (key, refs))

/-- `nodeContainsCycle`: depth-first along the current path -/
def nodeContainsCycle : Nat → String → Graph → List String → Bool
  | 0, _, _, _ => true
  | fuel + 1, node, graph, visited =>
    let visited := visited ++ [node]
    match graph.get? node with
    | none => false
    | some refs => refs.any (fun r => visited.contains r || nodeContainsCycle fuel r graph visited)

/-- `graphContainsCycle` (the key it reports depends on map order and is not modelled) -/
def graphContainsCycle (graph : Graph) : Bool :=
  graph.any (fun (k, _) => nodeContainsCycle (graph.length + 2) k graph [])

/-- `expandValue`: resolves `key` (and first everything it depends on) into `resolved` -/
def expandValue : Nat → String → SymTab → SymTab → Graph → Option SymTab
  | 0, _, _, _, _ => none
  | fuel + 1, key, values, resolved, graph =>
    match values.get? key with
    | none => none
    | some value =>
      if resolved.has key then some resolved
      else
        let deps := (graph.get? key).getD []
        let resolved? := deps.foldl (fun (acc : Option SymTab) dep =>
          match acc with
          | none => none
          | some res => if res.has dep then some res else expandValue fuel dep values res graph) (some resolved)
        match resolved? with
        | none => none
        | some resolved =>
          let out := value.flatMap (fun t =>
            if t.typ == .text then
              match resolved.get? t.val with
              | some v => v
              | none => [t]
            else [t])
          some (resolved.set key out)

/-- `expandExpressions`; `none` = error or fuel exhausted (impossible on an acyclic graph) -/
def expandExpressions (values : SymTab) (graph : Graph) : Option SymTab :=
  values.foldl (fun (acc : Option SymTab) (key, _) =>
    match acc with
    | none => none
    | some res => if res.has key then some res else expandValue (values.length + 2) key values res graph) (some [])

/-- `ExpandAndEvaluate` -/
def expandAndEvaluate (expr : List Token) (symbols : SymTab) : EvalRes :=
  let graph := buildReferenceGraph symbols
  if graphContainsCycle graph then .err
  else
    match expandExpressions symbols graph with
    | none => .err
    | some resolved =>
      let expanded := expr.flatMap (fun t =>
        if t.typ == .text then
          match resolved.get? t.val with
          | some v => v
          | none => [t]
        else [t])
      evaluateExpression expanded

end Gmars
