/-
  symbol_scanner.go, forexpand.go and tokenbuf.go.

  Both machines read a `bufTokenReader` through the same `next()`:

      if atEOF { return EOF }                       -- nothing changes
      tok, err := lex.NextToken()
      if err != nil { atEOF = true; return error }  -- reader exhausted: nextToken UNCHANGED
      if tok is EOF/Error { atEOF = true }
      nextToken = tok

  (the value `next()` returns is never used by either machine). So the whole reader state
  is the look-ahead `cur` (= `nextToken`) plus the not yet read tokens `rest`, and `next()` is

      cur terminal (EOF/Error) -> no change       (atEOF was set when cur was read)
      rest = []                -> no change       (exhausted; atEOF set now or earlier)
      rest = t :: r            -> cur := t, rest := r

  A state that calls `next()` on a non-terminal look-ahead with `rest = []` and then re-tests
  the look-ahead re-enters itself with the same look-ahead for ever: those are the
  `Fault.hang "<state>"` outcomes (only possible for token lists that do not contain a
  tokEOF/tokError; some of these loops also append to a buffer or send for ever).

  Every state function below has the look-ahead and the remaining input as its first two
  arguments; the other arguments are the fields of the Go struct that are live in that state.
-/
import Gmars.Model.Expr

namespace Gmars

/-- tokEOF or tokError: the tokens that end a stream -/
def Token.isTerm (t : Token) : Bool := t.typ == .eof || t.typ == .error

/-- Go's zero value `token{}`: typ 0 = tokError, empty val. It is the look-ahead of both
    machines when the reader was empty from the start. -/
def Token.zero : Token := { typ := .error, val := "" }

/-- `next()` as a function on (look-ahead, remaining input) -/
def nextTok (cur : Token) (rest : List Token) : Token × List Token :=
  if cur.isTerm then (cur, rest)
  else match rest with
    | [] => (cur, [])
    | t :: r => (t, r)

/-- `bufTokenReader.NextToken` : `none` = the "no more tokens" error -/
def BufReader.nextToken : List Token → Option (Token × List Token)
  | [] => none
  | t :: r => some (t, r)

/-! ## symbol_scanner.go -/

namespace Scan

/-- result of `ScanInput`: `none` = error ("symbol redefined"), else (symbols, forSeen) -/
abbrev Res := Except Fault (Option (SymTab × Bool))

/-- the state machine stopped (`nil` state) without `p.err` -/
def stop (syms : SymTab) (forSeen : Bool := false) : Res := .ok (some (syms, forSeen))

/-- the label loop at the end of `scanEquValue`: `none` = "symbol redefined".
    (`a a equ 1` is a redefinition too: the second `a` finds the first.) -/
def define (valBuf : List Token) : List String → SymTab → Option SymTab
  | [], syms => some syms
  | l :: ls, syms => if syms.has l then none else define valBuf ls (syms.set l valBuf)

mutual
  /-- `scanLabels` (entered from `scanLine` with an empty labelBuf) -/
  def scanLabels (cur : Token) (rest : List Token) (labelBuf : List String) (syms : SymTab) : Res :=
    match cur.typ with
    | .text =>
      if cur.isPseudoOp then
        match lowerStr cur.val with
        | "equ" =>
          -- valBuf = []; consume(scanEquValue)
          match rest with
          | [] => .error (.hang "scanEquValue")   -- look-ahead stays `equ`; the value loop appends it for ever
          | t :: r => if t.typ == .eof then stop syms else scanEquValue t r [] labelBuf syms
        | "for" => stop syms true
        | "end" => stop syms
        | _ => scanConsumeLine cur rest syms
      else if cur.isOp then scanConsumeLine cur rest syms
      -- (`else if typ == tokInvalid` is unreachable inside `case tokText`)
      else
        match rest with
        | [] => .error (.hang "scanLabels")
        | t :: r => if t.typ == .eof then stop syms else scanLabels t r (labelBuf ++ [cur.val]) syms
    | .comment | .newline | .colon =>
      match rest with
      | [] => .error (.hang "scanLabels")
      | t :: r => if t.typ == .eof then stop syms else scanLabels t r labelBuf syms
    | .eof => stop syms
    | _ => scanConsumeLine cur rest syms
  termination_by 2 * rest.length + 1

  /-- `scanConsumeLine`; on a newline it continues with `scanLine` on the next token -/
  def scanConsumeLine (cur : Token) (rest : List Token) (syms : SymTab) : Res :=
    match cur.typ with
    | .newline =>
      match rest with
      | [] => .error (.hang "scanConsumeLine")  -- scanLine -> scanConsumeLine -> consume -> scanLine ...
      | t :: r =>
        if t.typ == .eof then stop syms
        else if t.typ == .text then scanLabels t r [] syms   -- scanLine
        else scanConsumeLine t r syms
    | .error => stop syms
    | .eof => stop syms
    | _ =>
      match rest with
      | [] => .error (.hang "scanConsumeLine")
      | t :: r => if t.typ == .eof then stop syms else scanConsumeLine t r syms
  termination_by 2 * rest.length

  /-- `scanEquValue` -/
  def scanEquValue (cur : Token) (rest : List Token) (valBuf : List Token) (labelBuf : List String)
      (syms : SymTab) : Res :=
    if cur.typ == .newline || cur.typ == .eof || cur.typ == .error then
      match define valBuf labelBuf syms with
      | none => .ok none
      | some syms =>
        -- consume(scanLine)
        if cur.typ == .newline then
          match rest with
          | [] => .error (.hang "scanConsumeLine")
          | t :: r =>
            if t.typ == .eof then stop syms
            else if t.typ == .text then scanLabels t r [] syms
            else scanConsumeLine t r syms
        else
          -- EOF: consume returns nil; Error: scanLine -> scanConsumeLine -> nil
          stop syms
    else
      match rest with
      | [] => .error (.hang "scanEquValue")
      | t :: r => scanEquValue t r (if cur.typ == .comment then valBuf else valBuf ++ [cur]) labelBuf syms
  termination_by 2 * rest.length
end

/-- `scanLine` -/
def scanLine (cur : Token) (rest : List Token) (syms : SymTab) : Res :=
  if cur.typ == .text then scanLabels cur rest [] syms else scanConsumeLine cur rest syms

end Scan

/-- `ScanInput(newBufTokenReader(toks))`.
    `.ok none` = error, `.ok (some (symbols, forSeen))`, `.error (.hang state)` = endless loop. -/
def scanInput (toks : List Token) : Except Fault (Option (SymTab × Bool)) :=
  match toks with
  | [] => Scan.scanLine Token.zero [] []     -- look-ahead is the zero token (typ tokError)
  | t :: r => Scan.scanLine t r []

/-! ## forexpand.go -/

namespace ForExpand

/-- value of the error token sent when `ExpandAndEvaluate` fails: the Go text depends on map
    order / go/types and is not modelled -/
def evalErrorVal : String := "<ExpandAndEvaluate error>"

/-- the output side of the expander: the tokens sent so far, the `done` flag of `emit`, and
    "the evaluator answered `unmodelled`" -/
structure Out where
  toks : Array Token := #[]
  done : Bool := false
  unmodelled : Bool := false
  deriving Repr, Inhabited

/-- `emit` -/
def Out.emit (o : Out) (t : Token) : Out :=
  if o.done then o else { o with toks := o.toks.push t, done := t.isTerm }

def Out.emitLabels (o : Out) (labels : List String) : Out :=
  labels.foldl (fun o l => o.emit { typ := .text, val := l }) o

abbrev Res := Except Fault Out

/-- `forEmitConsumeStream` -/
def emitConsumeStream (cur : Token) (rest : List Token) (o : Out) : Res :=
  if cur.typ == .eof then .ok o
  else if cur.typ == .error then .ok (o.emit cur)
  else
    match rest with
    | [] => .error (.hang "forEmitConsumeStream")   -- sends the look-ahead for ever
    | t :: r => emitConsumeStream t r (o.emit cur)

/-- the fields set up by `forFor` -/
structure Ctx where
  forCountLabel : String
  forLineLabels : List String
  forCount : Int
  deriving Repr, Inhabited

/-- `fmt.Sprintf("__for_%s_%s", counter, label)` -/
def forLabel (counter label : String) : String := "__for_" ++ counter ++ "_" ++ label

/-- one token of the body in iteration `i` (`fmt.Sprintf("%d", i)`, `i ≥ 1`) -/
def substTok (c : Ctx) (i : Nat) (tok : Token) : Token :=
  if tok.typ == .text then
    if tok.val == c.forCountLabel then { typ := .number, val := toString i }
    else if c.forLineLabels.contains tok.val then { typ := .text, val := forLabel c.forCountLabel tok.val }
    else tok
  else tok

/-- the expansion loop of `forRof`: iterations 1..forCount (none when forCount ≤ 0) -/
def expand (c : Ctx) (content : Array Token) (o : Out) : Out :=
  (List.range c.forCount.toNat).foldl
    (fun o k => content.foldl (fun o tok => o.emit (substTok c (k + 1) tok)) o) o

/-- `forRof`; entered with the `rof` token as look-ahead -/
def forRof (c : Ctx) (content : Array Token) (cur : Token) (rest : List Token) (o : Out) : Res :=
  if cur.typ == .newline then
    -- `if nextToken == newline { next() }`: no re-test, so no hang here
    let (cur', rest') := nextTok cur rest
    emitConsumeStream cur' rest' (expand c content o)
  else if cur.typ == .eof then
    emitConsumeStream cur rest (expand c content o)
  else if cur.typ == .error then .ok (o.emit cur)
  else
    match rest with
    | [] => .error (.hang "forRof")
    | t :: r => forRof c content t r o

/-- the fields that change while the body is read -/
structure Inner where
  content : Array Token := #[]          -- forContent
  depth : Nat := 0                       -- forDepth
  toWrite : List String := []            -- forLineLabelsToWrite (nil is the same as empty here)
  out : Out := {}
  deriving Repr, Inhabited

/-- `forInnerEmitLabels`: labelBuf goes into forContent -/
def Inner.pushLabels (s : Inner) (labelBuf : List String) : Inner :=
  { s with content := labelBuf.foldl (fun a l => a.push { typ := .text, val := l }) s.content }

def Inner.push (s : Inner) (t : Token) : Inner := { s with content := s.content.push t }

mutual
  /-- `forInnerLabels` (+ `forInnerEmitLabels`) -/
  def innerLabels (c : Ctx) (cur : Token) (rest : List Token) (labelBuf : List String) (s : Inner) : Res :=
    if cur.typ == .text then
      if cur.isPseudoOp then
        match lowerStr cur.val with
        | "for" => innerEmitConsumeLine c cur rest ({ s with depth := s.depth + 1 }.pushLabels labelBuf)
        | "rof" =>
          if s.depth > 0 then
            -- the labels in front of an inner `rof` are dropped
            innerEmitConsumeLine c cur rest { s with depth := s.depth - 1 }
          else forRof c s.content cur rest s.out
        | _ => innerEmitConsumeLine c cur rest (s.pushLabels labelBuf)
      else if cur.isOp then
        -- the renamed line labels of the FOR line go straight to the output, once
        let s := { s with out := s.out.emitLabels s.toWrite, toWrite := [] }
        innerEmitConsumeLine c cur rest (s.pushLabels labelBuf)
      else
        match rest with
        | [] => .error (.hang "forInnerLabels")
        | t :: r => innerLabels c t r (labelBuf ++ [cur.val]) s
    else innerEmitConsumeLine c cur rest (s.pushLabels labelBuf)
  termination_by 2 * rest.length + 1

  /-- `forInnerEmitConsumeLine`; on a newline it continues with `forInnerLine` -/
  def innerEmitConsumeLine (c : Ctx) (cur : Token) (rest : List Token) (s : Inner) : Res :=
    match cur.typ with
    | .error => .ok (s.out.emit cur)
    | .eof => .ok s.out          -- FOR without ROF: the body is dropped
    | .newline =>
      match rest with
      | [] => .error (.hang "forInnerEmitConsumeLine")
      | t :: r =>
        let s := s.push cur
        if t.typ == .text then innerLabels c t r [] s   -- forInnerLine
        else innerEmitConsumeLine c t r s
    | _ =>
      match rest with
      | [] => .error (.hang "forInnerEmitConsumeLine")
      | t :: r => innerEmitConsumeLine c t r (s.push cur)
  termination_by 2 * rest.length
end

/-- `forInnerLine` -/
def innerLine (c : Ctx) (cur : Token) (rest : List Token) (s : Inner) : Res :=
  if cur.typ == .text then innerLabels c cur rest [] s else innerEmitConsumeLine c cur rest s

/-- `forFor` -/
def forFor (eval : List Token → SymTab → EvalRes) (symbols : SymTab)
    (cur : Token) (rest : List Token) (exprBuf : List Token) (labelBuf : List String) (o : Out) : Res :=
  -- (dead code in Go: exprBuf never holds an EOF/Error token; mirrored anyway: the error is
  --  sent but the function carries on)
  let o := exprBuf.foldl (fun o t =>
    if t.isTerm then o.emit { typ := .error, val := "unexpected expression term: " ++ t.str } else o) o
  let continue_ (val : Int) : Res :=
    let c : Ctx :=
      match labelBuf.getLast? with
      | some l => { forCountLabel := l, forLineLabels := labelBuf.dropLast, forCount := val }
      | none => { forCountLabel := "", forLineLabels := [], forCount := val }
    innerLine c cur rest
      { toWrite := c.forLineLabels.map (forLabel c.forCountLabel), out := o }
  match eval exprBuf symbols with
  | .ok val => continue_ val
  | .err => .ok (o.emit { typ := .error, val := evalErrorVal })
  | .unmodelled => .ok { o.emit { typ := .error, val := evalErrorVal } with unmodelled := true }

/-- `forConsumeExpression` -/
def consumeExpression (eval : List Token → SymTab → EvalRes) (symbols : SymTab)
    (cur : Token) (rest : List Token) (exprBuf : List Token) (labelBuf : List String) (o : Out) : Res :=
  match cur.typ with
  | .newline =>
    -- next(); return forFor   (no re-test of the look-ahead: not a hang by itself)
    match rest with
    | [] => forFor eval symbols cur [] exprBuf labelBuf o
    | t :: r => forFor eval symbols t r exprBuf labelBuf o
  | .comment =>
    match rest with
    | [] => .error (.hang "forConsumeExpression")
    | t :: r => consumeExpression eval symbols t r exprBuf labelBuf o
  | .error => .ok (o.emit cur)
  | .eof => .ok o
  | _ =>
    match rest with
    | [] => .error (.hang "forConsumeExpression")   -- appends the look-ahead to exprBuf for ever
    | t :: r => consumeExpression eval symbols t r (exprBuf ++ [cur]) labelBuf o

mutual
  /-- `forConsumeLabels` (+ `forWriteLabelsEmitConsumeLine`) -/
  def consumeLabels (eval : List Token → SymTab → EvalRes) (symbols : SymTab)
      (cur : Token) (rest : List Token) (labelBuf : List String) (o : Out) : Res :=
    -- forWriteLabelsEmitConsumeLine: labels, then the look-ahead, then the rest of the line
    let writeLabels : Unit → Res := fun _ =>
      let o := (o.emitLabels labelBuf).emit cur
      match rest with
      | [] => .error (.hang "forConsumeEmitLine")
      | t :: r => consumeEmitLine eval symbols t r o
    if cur.typ == .text then
      if cur.isPseudoOp then
        if lowerStr cur.val == "for" then
          -- next(); exprBuf = []
          match rest with
          | [] => consumeExpression eval symbols cur [] [] labelBuf o
          | t :: r => consumeExpression eval symbols t r [] labelBuf o
        else writeLabels ()
      else if cur.isOp then writeLabels ()
      else
        match rest with
        | [] => .error (.hang "forConsumeLabels")
        | t :: r => consumeLabels eval symbols t r (labelBuf ++ [cur.val]) o
    else if cur.typ == .newline || cur.typ == .comment || cur.typ == .colon then
      match rest with
      | [] => .error (.hang "forConsumeLabels")
      | t :: r => consumeLabels eval symbols t r labelBuf o
    else
      .ok (o.emit { typ := .error,
                    val := "expected label, op, newlines, or comment, got '" ++ cur.str ++ "'" })
  termination_by 2 * rest.length + 1

  /-- `forConsumeEmitLine`; on a newline it continues with `forLine` -/
  def consumeEmitLine (eval : List Token → SymTab → EvalRes) (symbols : SymTab)
      (cur : Token) (rest : List Token) (o : Out) : Res :=
    match cur.typ with
    | .newline =>
      match rest with
      | [] => .error (.hang "forConsumeEmitLine")   -- sends the newline for ever
      | t :: r =>
        if t.typ == .text then consumeLabels eval symbols t r [] (o.emit cur)   -- forLine
        else consumeEmitLine eval symbols t r (o.emit cur)
    | .error => .ok (o.emit cur)
    | .eof => .ok (o.emit cur)
    | _ =>
      match rest with
      | [] => .error (.hang "forConsumeEmitLine")
      | t :: r => consumeEmitLine eval symbols t r (o.emit cur)
  termination_by 2 * rest.length
end

/-- `forLine` -/
def forLine (eval : List Token → SymTab → EvalRes) (symbols : SymTab)
    (cur : Token) (rest : List Token) (o : Out) : Res :=
  if cur.typ == .text then consumeLabels eval symbols cur rest [] o
  else consumeEmitLine eval symbols cur rest o

/-- `newForExpander` + `run()`: everything the goroutine sends, and the `unmodelled` flag.
    When the first `next()` already set atEOF (empty reader, or first token EOF/Error) `run()`
    returns at once without sending: `Tokens()` then blocks for ever. -/
def sendsWith (eval : List Token → SymTab → EvalRes) (toks : List Token) (symbols : SymTab) :
    Except Fault (List Token × Bool) :=
  match toks with
  | [] => .error (.hang "forexpand: nothing sent")
  | t :: r =>
    if t.isTerm then .error (.hang "forexpand: nothing sent")
    else
      match forLine eval symbols t r {} with
      | .error f => .error f
      | .ok o =>
        -- the closing EOF of run() (dropped by emit when a terminating token was sent already)
        let o := o.emit { typ := .eof, val := "" }
        .ok (o.toks.toList, o.unmodelled)

/-- every token the expander goroutine sends, in order -/
def sends (toks : List Token) (symbols : SymTab) : Except Fault (List Token) :=
  (sendsWith expandAndEvaluate toks symbols).map (·.1)

/-- `Tokens()` on a list of sent tokens: the prefix up to and including the first EOF/Error -/
def received : List Token → List Token
  | [] => []
  | t :: r => if t.isTerm then [t] else t :: received r

end ForExpand

/-- `ForExpand(newBufTokenReader(toks), symbols)` with an explicit evaluator; the Bool is
    "the evaluator answered unmodelled" (the count was then treated as an error).
    `Tokens()` can only fail when `closed` is already set, which needs the goroutine to have
    finished, which needs its closing EOF to have been received: `none` never happens. -/
def forExpandWith (eval : List Token → SymTab → EvalRes) (toks : List Token) (symbols : SymTab) :
    Except Fault (Option (List Token) × Bool) :=
  (ForExpand.sendsWith eval toks symbols).map (fun (s, u) => (some (ForExpand.received s), u))

/-- `ForExpand(newBufTokenReader(toks), symbols)` -/
def forExpand (toks : List Token) (symbols : SymTab) : Except Fault (Option (List Token)) :=
  (forExpandWith expandAndEvaluate toks symbols).map (·.1)

end Gmars
