/-
  lex.go: the lexer, as the list of tokens its goroutine sends.

  Lexer state. The Go lexer holds a `bufio.Reader`, the look-ahead `nextRune` and the flag
  `atEOF`. Here the reader is the list `rest` of runes not yet read and the look-ahead is `cur`.
  `next()` on a live lexer:
    * `rest = c :: r`: the look-ahead becomes `c`, the reader `r`, result `(old look-ahead, false)`;
    * `rest = []`: `ReadRune` fails, `atEOF := true`, the look-ahead is left UNCHANGED and the
      result is `(look-ahead, true)` (only `lexText`/`lexNumber` use the returned rune: the last
      rune of the input is appended to the buffer exactly once, on the call that reports eof).
  Every call site of `next()` in lex.go reacts to `eof = true` by sending its pending token (if
  any) and tokEOF and returning the nil state, so the machine never runs with `atEOF` set, with one
  exception: `newLexer` primes the look-ahead with `next()` and ignores the result; on empty input
  that leaves `nextRune = 0`, `atEOF = true`, and `lexInput` then stops on the `'\x00'` case without
  calling `next()` again. Hence the `'\x00', true` branch of `next()` is unreachable, no loop can
  spin on an unchanged look-ahead, and the lexer has neither hangs nor panics: `sends` is a plain
  list (`sends_endsOnce`: it ends with its only tokEOF/tokError token).

  A state function is modelled as a `Step`: the tokens it sends and, if the machine comes back to
  `lexInput`, the lexer state at that point (`none` = the nil state was returned).

  `bytes.Reader` never fails except with io.EOF, and `bufio.Reader.ReadRune` turns every byte
  that does not start a valid UTF-8 sequence into U+FFFD (width 1): `decodeRunes`.
-/
import Gmars.Base.UnicodeTables
import Gmars.Model.Token

namespace Gmars

open Gmars.Unicode

/-! ### utf8.DecodeRune, iterated (what `bufio.Reader.ReadRune` delivers) -/

namespace Utf8

def runeError : Char := Char.ofNat 0xFFFD

/-- continuation byte 0x80..0xBF -/
def isCont (b : UInt8) : Bool := 0x80 ≤ b && b ≤ 0xBF

/-- the range Go's `acceptRanges` allows for the SECOND byte after first byte `b0`
    (excludes overlong forms, surrogates and values above U+10FFFF) -/
def second (b0 b1 : UInt8) : Bool :=
  if b0 == 0xE0 then 0xA0 ≤ b1 && b1 ≤ 0xBF
  else if b0 == 0xED then 0x80 ≤ b1 && b1 ≤ 0x9F
  else if b0 == 0xF0 then 0x90 ≤ b1 && b1 ≤ 0xBF
  else if b0 == 0xF4 then 0x80 ≤ b1 && b1 ≤ 0x8F
  else isCont b1

def low6 (b : UInt8) : Nat := b.toNat % 64

/-- `utf8.DecodeRune` on the non-empty byte string `b0 :: rest`: the rune and its width. A valid
    UTF-8 sequence is one rune; a byte that does not start one (stray continuation byte,
    0xC0/0xC1/0xF5.., bad or missing continuation bytes, overlong form, surrogate, > U+10FFFF)
    is U+FFFD and ONE byte wide -/
def decodeRune (b0 : UInt8) (rest : List UInt8) : Char × Nat :=
  if b0 < 0x80 then (Char.ofNat b0.toNat, 1)
  else if 0xC2 ≤ b0 && b0 ≤ 0xDF then
    match rest with
    | b1 :: _ =>
      if isCont b1 then (Char.ofNat ((b0.toNat % 32) * 64 + low6 b1), 2) else (runeError, 1)
    | _ => (runeError, 1)
  else if 0xE0 ≤ b0 && b0 ≤ 0xEF then
    match rest with
    | b1 :: b2 :: _ =>
      if second b0 b1 && isCont b2 then
        (Char.ofNat ((b0.toNat % 16) * 4096 + low6 b1 * 64 + low6 b2), 3)
      else (runeError, 1)
    | _ => (runeError, 1)
  else if 0xF0 ≤ b0 && b0 ≤ 0xF4 then
    match rest with
    | b1 :: b2 :: b3 :: _ =>
      if second b0 b1 && isCont b2 && isCont b3 then
        (Char.ofNat ((b0.toNat % 8) * 262144 + low6 b1 * 4096 + low6 b2 * 64 + low6 b3), 4)
      else (runeError, 1)
    | _ => (runeError, 1)
  else (runeError, 1)

end Utf8

/-- the runes `bufio.Reader.ReadRune` returns one after the other for a byte string (it decodes
    with `utf8.DecodeRune` once a full rune or the end of input is buffered) -/
def decodeRunes : List UInt8 → List Char
  | [] => []
  | b0 :: rest =>
    let d := Utf8.decodeRune b0 rest
    d.1 :: decodeRunes (rest.drop (d.2 - 1))
termination_by bs => bs.length
decreasing_by simp; omega

namespace Lex

/-- tokens sent by a state function, and the lexer state `(nextRune, unread runes)` with which the
    machine re-enters `lexInput`; `none` = the state function chain ended with the nil state -/
abbrev Step := List Token × Option (Char × List Char)

def eofTok : Token := ⟨.eof, ""⟩

/-- Go's `string(r)` for a rune -/
def runeStr (c : Char) : String := String.singleton c

/-- Go's `string(runeBuf)` for a buffer kept in reverse -/
def bufStr (revBuf : List Char) : String := String.ofList revBuf.reverse

/-- `l.consume(lexInput)`-style tail shared by `consume` and `emitConsume`: call `next()`; on eof send
    tokEOF and stop, otherwise continue with the new look-ahead -/
def consume (rest : List Char) : Step :=
  match rest with
  | [] => ([eofTok], none)
  | c :: r => ([], some (c, r))

/-- `l.emitConsume(tok, lexInput)` -/
def emitConsume (tok : Token) (rest : List Char) : Step :=
  match rest with
  | [] => ([tok, eofTok], none)
  | c :: r => ([tok], some (c, r))

/-- the `for unicode.IsSpace(l.nextRune)` loop of `lexInput` (then `return lexInput`) -/
def spaceLoop (cur : Char) (rest : List Char) : Step :=
  if isSpaceU cur then
    let nl : List Token := if cur == '\n' then [⟨.newline, ""⟩] else []
    match rest with
    | [] => (nl ++ [eofTok], none)
    | c :: r => let (t, s) := spaceLoop c r; (nl ++ t, s)
  else ([], some (cur, rest))

def isTextRune (c : Char) : Bool := isLetterU c || isDigitU c || c == '.' || c == '_'

/-- `lexText`; `buf` is `runeBuf` reversed -/
def lexText (cur : Char) (rest : List Char) (buf : List Char := []) : Step :=
  if isTextRune cur then
    match rest with
    | [] => ([⟨.text, bufStr (cur :: buf)⟩, eofTok], none)
    | c :: r => lexText c r (cur :: buf)
  else ((if buf.isEmpty then [] else [⟨.text, bufStr buf⟩]), some (cur, rest))

/-- second loop and tail of `lexNumber`; `buf` is `numberBuf` reversed. Any rune of category Nd
    counts as a digit and is copied into the token -/
def lexDigits (cur : Char) (rest : List Char) (buf : List Char := []) : Step :=
  if isDigitU cur then
    match rest with
    | [] => ([⟨.number, bufStr (cur :: buf)⟩, eofTok], none)
    | c :: r => lexDigits c r (cur :: buf)
  else ([⟨.number, if buf.isEmpty then "0" else bufStr buf⟩], some (cur, rest))

/-- `lexNumber`: the loop dropping leading ASCII zeros, then `lexDigits` -/
def lexNumber (cur : Char) (rest : List Char) : Step :=
  if cur == '0' then
    match rest with
    | [] => ([⟨.number, "0"⟩, eofTok], none)
    | c :: r => lexNumber c r
  else lexDigits cur rest

/-- `lexComment`; `buf` is `commentBuf` reversed. Everything up to (excluding) the next '\n',
    NUL and ^Z included -/
def lexComment (cur : Char) (rest : List Char) (buf : List Char := []) : Step :=
  if cur != '\n' then
    match rest with
    | [] => ([⟨.comment, bufStr (cur :: buf)⟩, eofTok], none)
    | c :: r => lexComment c r (cur :: buf)
  else ([⟨.comment, bufStr buf⟩], some (cur, rest))

/-- `lexEquals` / `lexPipe` / `lexAnd` for the character `ch` (entered after `consume`):
    doubled → symbol, else tokError whose text quotes the look-ahead and the nil state -/
def lexDouble (ch : Char) (cur : Char) (rest : List Char) : Step :=
  if cur == ch then emitConsume ⟨.symbol, String.ofList [ch, ch]⟩ rest
  else
    ([⟨.error, "expected '" ++ runeStr ch ++ "' after '" ++ runeStr ch ++ "', got '" ++ runeStr cur ++ "'"⟩],
     none)

def lexEquals := lexDouble '='
def lexPipe := lexDouble '|'
def lexAnd := lexDouble '&'

/-- `lexGt` / `lexLt` for `ch` (entered after `consume`) -/
def lexCmp (ch : Char) (cur : Char) (rest : List Char) : Step :=
  if cur == '=' then emitConsume ⟨.symbol, String.ofList [ch, '=']⟩ rest
  else ([⟨.symbol, runeStr ch⟩], some (cur, rest))

def lexGt := lexCmp '>'
def lexLt := lexCmp '<'

/-- `l.consume(next)` for a state function `next` other than `lexInput`: on eof ONLY tokEOF is sent
    (a final `<`, `>`, `=`, `|`, `&` or ^Z yields no token of its own) -/
def consumeThen (next : Char → List Char → Step) (rest : List Char) : Step :=
  match rest with
  | [] => ([eofTok], none)
  | c :: r => next c r

/-- one round of the machine: `lexInput` and the state functions it hands over to, until the
    machine is back at `lexInput` or has stopped -/
def lexInputStep (cur : Char) (rest : List Char) : Step :=
  if isSpaceU cur then spaceLoop cur rest
  else if isLetterU cur || cur == '_' then lexText cur rest
  else if isDigitU cur then lexNumber cur rest
  else if cur == '\x00' then ([eofTok], none)
  else if cur == ';' then lexComment cur rest
  else if cur == ',' then emitConsume ⟨.comma, ","⟩ rest
  else if cur == '(' then emitConsume ⟨.parenL, "("⟩ rest
  else if cur == ')' then emitConsume ⟨.parenR, ")"⟩ rest
  else if cur == '+' || cur == '-' || cur == '*' || cur == '/' || cur == '%' ||
      cur == '$' || cur == '#' || cur == '@' || cur == '{' || cur == '}' then
    emitConsume ⟨.symbol, runeStr cur⟩ rest
  else if cur == '<' then consumeThen lexLt rest
  else if cur == '>' then consumeThen lexGt rest
  else if cur == ':' then emitConsume ⟨.colon, ":"⟩ rest
  else if cur == '=' then consumeThen lexEquals rest
  else if cur == '|' then consumeThen lexPipe rest
  else if cur == '&' then consumeThen lexAnd rest
  else if cur == '\x1a' then consume rest
  else ([⟨.invalid, runeStr cur⟩, eofTok], none)

/-! every round that comes back to `lexInput` has read at least one rune -/

def Step.Shorter (s : Step) (n : Nat) : Prop := ∀ c r, s.2 = some (c, r) → r.length < n
def Step.NotLonger (s : Step) (n : Nat) : Prop := ∀ c r, s.2 = some (c, r) → r.length ≤ n

theorem consume_shorter (rest) : (consume rest).Shorter rest.length := by
  intro c r h; cases rest <;> simp [consume] at h; obtain ⟨_, rfl⟩ := h; simp

theorem emitConsume_shorter (tok rest) : (emitConsume tok rest).Shorter rest.length := by
  intro c r h; cases rest <;> simp [emitConsume] at h; obtain ⟨_, rfl⟩ := h; simp

theorem spaceLoop_notLonger (cur rest) : (spaceLoop cur rest).NotLonger rest.length := by
  induction rest generalizing cur with
  | nil => intro c r h; unfold spaceLoop at h; split at h <;> simp at h; simp [h]
  | cons x xs ih =>
    intro c r h; unfold spaceLoop at h; split at h
    · simp at h; have := ih x c r h; simp; omega
    · simp at h; simp [h]

theorem spaceLoop_shorter (cur rest) (hc : isSpaceU cur = true) :
    (spaceLoop cur rest).Shorter rest.length := by
  intro c r h; unfold spaceLoop at h; simp [hc] at h
  cases rest with
  | nil => simp at h
  | cons x xs => simp at h; have := spaceLoop_notLonger x xs c r h; simp; omega

theorem lexText_notLonger (cur rest buf) : (lexText cur rest buf).NotLonger rest.length := by
  induction rest generalizing cur buf with
  | nil => intro c r h; unfold lexText at h; split at h <;> simp at h; simp [h]
  | cons x xs ih =>
    intro c r h; unfold lexText at h; split at h
    · simp at h; have := ih x _ c r h; simp; omega
    · simp at h; simp [h]

theorem lexText_shorter (cur rest buf) (hc : isTextRune cur = true) :
    (lexText cur rest buf).Shorter rest.length := by
  intro c r h; unfold lexText at h; simp [hc] at h
  cases rest with
  | nil => simp at h
  | cons x xs => simp at h; have := lexText_notLonger x xs _ c r h; simp; omega

theorem lexDigits_notLonger (cur rest buf) : (lexDigits cur rest buf).NotLonger rest.length := by
  induction rest generalizing cur buf with
  | nil => intro c r h; unfold lexDigits at h; split at h <;> simp at h; simp [h]
  | cons x xs ih =>
    intro c r h; unfold lexDigits at h; split at h
    · simp at h; have := ih x _ c r h; simp; omega
    · simp at h; simp [h]

theorem lexDigits_shorter (cur rest buf) (hc : isDigitU cur = true) :
    (lexDigits cur rest buf).Shorter rest.length := by
  intro c r h; unfold lexDigits at h; simp [hc] at h
  cases rest with
  | nil => simp at h
  | cons x xs => simp at h; have := lexDigits_notLonger x xs _ c r h; simp; omega

theorem lexNumber_shorter (cur rest) (hc : isDigitU cur = true) :
    (lexNumber cur rest).Shorter rest.length := by
  induction rest generalizing cur with
  | nil =>
    intro c r h; unfold lexNumber at h; split at h
    · simp at h
    · exact lexDigits_shorter cur [] [] hc c r h
  | cons x xs ih =>
    intro c r h; unfold lexNumber at h; split at h
    · simp at h
      by_cases hx : isDigitU x = true
      · have := ih x hx c r h; simp; omega
      · -- the next rune is not a digit: `lexNumber x xs = lexDigits x xs` stops at once
        unfold lexNumber at h
        have hx0 : (x == '0') = false := by
          cases h0 : x == '0'
          · rfl
          · exfalso; apply hx; have : x = '0' := by simpa using h0
            subst this; decide
        simp [hx0] at h
        have := lexDigits_notLonger x xs [] c r h; simp; omega
    · exact lexDigits_shorter cur _ [] hc c r h

theorem lexComment_notLonger (cur rest buf) : (lexComment cur rest buf).NotLonger rest.length := by
  induction rest generalizing cur buf with
  | nil => intro c r h; unfold lexComment at h; split at h <;> simp at h; simp [h]
  | cons x xs ih =>
    intro c r h; unfold lexComment at h; split at h
    · simp at h; have := ih x _ c r h; simp; omega
    · simp at h; simp [h]

theorem lexComment_shorter (cur rest buf) (hc : (cur != '\n') = true) :
    (lexComment cur rest buf).Shorter rest.length := by
  intro c r h; unfold lexComment at h; simp only [hc, if_true] at h
  cases rest with
  | nil => simp at h
  | cons x xs => simp at h; have := lexComment_notLonger x xs _ c r h; simp; omega

theorem lexDouble_notLonger (ch cur rest) : (lexDouble ch cur rest).NotLonger rest.length := by
  intro c r h; unfold lexDouble at h; split at h
  · exact Nat.le_of_lt (emitConsume_shorter _ _ c r h)
  · simp at h

theorem lexCmp_notLonger (ch cur rest) : (lexCmp ch cur rest).NotLonger rest.length := by
  intro c r h; unfold lexCmp at h; split at h
  · exact Nat.le_of_lt (emitConsume_shorter _ _ c r h)
  · simp at h; simp [h]

theorem consumeThen_shorter (next : Char → List Char → Step)
    (hn : ∀ cur rest, (next cur rest).NotLonger rest.length) (rest) :
    (consumeThen next rest).Shorter rest.length := by
  intro c r h; cases rest with
  | nil => simp [consumeThen] at h
  | cons x xs => simp [consumeThen] at h; have := hn x xs c r h; simp; omega

theorem Step.shorter_ite {p : Prop} [Decidable p] {a b : Step} {n : Nat}
    (ha : p → a.Shorter n) (hb : ¬p → b.Shorter n) : (if p then a else b).Shorter n := by
  by_cases h : p
  · rw [if_pos h]; exact ha h
  · rw [if_neg h]; exact hb h

theorem lexInputStep_shorter (cur rest) : (lexInputStep cur rest).Shorter rest.length := by
  unfold lexInputStep
  refine Step.shorter_ite (fun h => spaceLoop_shorter _ _ h) (fun _ => ?_)
  refine Step.shorter_ite (fun h => ?_) (fun _ => ?_)
  · apply lexText_shorter
    simp only [isTextRune]; simp at h ⊢; rcases h with h | h <;> simp [h]
  refine Step.shorter_ite (fun h => lexNumber_shorter _ _ h) (fun _ => ?_)
  refine Step.shorter_ite (fun _ => ?_) (fun _ => ?_)
  · intro c r h; simp at h
  refine Step.shorter_ite (fun h => ?_) (fun _ => ?_)
  · apply lexComment_shorter; have : cur = ';' := by simpa using h
    subst this; decide
  repeat (first
    | exact emitConsume_shorter _ _
    | exact consume_shorter _
    | exact consumeThen_shorter _ (lexCmp_notLonger _) _
    | exact consumeThen_shorter _ (lexDouble_notLonger _) _
    | (intro c r h; simp at h; done)
    | (apply Step.shorter_ite <;> intro _))

/-- `lexer.run` from the state reached after `newLexer`'s priming `next()`: rounds of `lexInput`
    until the nil state -/
def run (cur : Char) (rest : List Char) : List Token :=
  match _h : lexInputStep cur rest with
  | (t, none) => t
  | (t, some (c, r)) => t ++ run c r
termination_by rest.length
decreasing_by exact lexInputStep_shorter cur rest c r (by rw [_h])

/-- every token the lexer goroutine sends on its channel, in order. `newLexer` primes the
    look-ahead: on empty input `nextRune` stays 0 (and `atEOF` is set), which `lexInput` treats
    like a NUL rune in the input -/
def sends (input : List Char) : List Token :=
  match input with
  | [] => run '\x00' []
  | c :: r => run c r

def isTerminator (t : Token) : Bool := t.typ == .eof || t.typ == .error

/-- the loop of `(*lexer).Tokens()`: receive until the first tokEOF / tokError, inclusive -/
def takeThrough : List Token → List Token
  | [] => []
  | t :: ts => if isTerminator t then [t] else t :: takeThrough ts

/-- `(*lexer).Tokens()` / `LexInput` (the error result is always nil) -/
def tokens (input : List Char) : List Token := takeThrough (sends input)

/-! ### `sends` ends with its only terminating token; `Tokens()` receives all of it -/

/-- exactly one terminating token (tokEOF / tokError), in last position -/
def endsOnce : List Token → Bool
  | [] => false
  | t :: ts => if ts.isEmpty then isTerminator t else !isTerminator t && endsOnce ts

/-- no terminating token -/
def noTerm (l : List Token) : Bool := l.all (fun t => !isTerminator t)

/-- a state function that stops has sent exactly one terminating token, as its last one; one that
    continues has sent none -/
def Step.OK (s : Step) : Prop :=
  match s.2 with
  | none => endsOnce s.1 = true
  | some _ => noTerm s.1 = true

theorem endsOnce_ne_nil {l : List Token} (h : endsOnce l = true) : l ≠ [] := by
  cases l <;> simp [endsOnce] at h ⊢

theorem endsOnce_append {a b : List Token} (ha : noTerm a = true) (hb : endsOnce b = true) :
    endsOnce (a ++ b) = true := by
  induction a with
  | nil => simpa using hb
  | cons x xs ih =>
    simp [noTerm] at ha
    have hne : (xs ++ b) ≠ [] := by simp [endsOnce_ne_nil hb]
    have : endsOnce (xs ++ b) = true := ih (by simpa [noTerm] using ha.2)
    simp [endsOnce, hne, ha.1, this]

theorem noTerm_append {a b : List Token} (ha : noTerm a = true) (hb : noTerm b = true) :
    noTerm (a ++ b) = true := by
  unfold noTerm at *; rw [List.all_append, ha, hb]; rfl

theorem Step.OK_prepend {a : List Token} (ha : noTerm a = true) {s : Step} (hs : s.OK) :
    Step.OK (a ++ s.1, s.2) := by
  obtain ⟨t, o⟩ := s
  cases o with
  | none => exact endsOnce_append ha hs
  | some p => exact noTerm_append ha hs

theorem isTerminator_eofTok : isTerminator eofTok = true := rfl

theorem ok_stop (pre : List Token) (h : noTerm pre = true) : Step.OK (pre ++ [eofTok], none) :=
  endsOnce_append h (by simp [endsOnce, isTerminator_eofTok])

theorem ok_cont (pre : List Token) (h : noTerm pre = true) (st) : Step.OK (pre, some st) := h

theorem consume_ok (rest) : (consume rest).OK := by
  cases rest
  · exact ok_stop [] rfl
  · exact ok_cont [] rfl _

theorem emitConsume_ok (tok rest) (h : isTerminator tok = false) : (emitConsume tok rest).OK := by
  cases rest
  · exact ok_stop [tok] (by simp [noTerm, h])
  · exact ok_cont [tok] (by simp [noTerm, h]) _

theorem spaceLoop_ok (cur rest) : (spaceLoop cur rest).OK := by
  induction rest generalizing cur with
  | nil =>
    unfold spaceLoop; dsimp only; split
    · split
      · exact ok_stop [_] (by simp [noTerm, isTerminator])
      · exact ok_stop [] rfl
    · exact ok_cont [] rfl _
  | cons x xs ih =>
    unfold spaceLoop; dsimp only; split
    · have := ih x
      rcases hs : spaceLoop x xs with ⟨t, s⟩
      rw [hs] at this
      refine Step.OK_prepend (s := (t, s)) ?_ this
      split <;> simp [noTerm, isTerminator]
    · exact ok_cont [] rfl _

theorem lexText_ok (cur rest buf) : (lexText cur rest buf).OK := by
  induction rest generalizing cur buf with
  | nil =>
    unfold lexText; dsimp only; split
    · exact ok_stop [_] (by simp [noTerm, isTerminator])
    · split
      · exact ok_cont [] rfl _
      · exact ok_cont [_] (by simp [noTerm, isTerminator]) _
  | cons x xs ih =>
    unfold lexText; dsimp only; split
    · exact ih _ _
    · split
      · exact ok_cont [] rfl _
      · exact ok_cont [_] (by simp [noTerm, isTerminator]) _

theorem lexDigits_ok (cur rest buf) : (lexDigits cur rest buf).OK := by
  induction rest generalizing cur buf with
  | nil =>
    unfold lexDigits; dsimp only; split
    · exact ok_stop [_] (by simp [noTerm, isTerminator])
    · exact ok_cont [_] (by simp [noTerm, isTerminator]) _
  | cons x xs ih =>
    unfold lexDigits; dsimp only; split
    · exact ih _ _
    · exact ok_cont [_] (by simp [noTerm, isTerminator]) _

theorem lexNumber_ok (cur rest) : (lexNumber cur rest).OK := by
  induction rest generalizing cur with
  | nil =>
    unfold lexNumber; dsimp only; split
    · exact ok_stop [_] (by simp [noTerm, isTerminator])
    · exact lexDigits_ok _ _ _
  | cons x xs ih =>
    unfold lexNumber; dsimp only; split
    · exact ih _
    · exact lexDigits_ok _ _ _

theorem lexComment_ok (cur rest buf) : (lexComment cur rest buf).OK := by
  induction rest generalizing cur buf with
  | nil =>
    unfold lexComment; dsimp only; split
    · exact ok_stop [_] (by simp [noTerm, isTerminator])
    · exact ok_cont [_] (by simp [noTerm, isTerminator]) _
  | cons x xs ih =>
    unfold lexComment; dsimp only; split
    · exact ih _ _
    · exact ok_cont [_] (by simp [noTerm, isTerminator]) _

theorem lexDouble_ok (ch cur rest) : (lexDouble ch cur rest).OK := by
  unfold lexDouble; split
  · exact emitConsume_ok _ _ (by simp [isTerminator])
  · show endsOnce [_] = true
    simp [endsOnce, isTerminator]

theorem lexCmp_ok (ch cur rest) : (lexCmp ch cur rest).OK := by
  unfold lexCmp; split
  · exact emitConsume_ok _ _ (by simp [isTerminator])
  · exact ok_cont [_] (by simp [noTerm, isTerminator]) _

theorem consumeThen_ok (next : Char → List Char → Step) (hn : ∀ cur rest, (next cur rest).OK) (rest) :
    (consumeThen next rest).OK := by
  cases rest with
  | nil => exact ok_stop [] rfl
  | cons x xs => exact hn x xs

theorem Step.ok_ite {p : Prop} [Decidable p] {a b : Step} (ha : a.OK) (hb : b.OK) :
    (if p then a else b).OK := by
  by_cases h : p
  · rw [if_pos h]; exact ha
  · rw [if_neg h]; exact hb

theorem lexInputStep_ok (cur rest) : (lexInputStep cur rest).OK := by
  unfold lexInputStep
  repeat (first
    | exact spaceLoop_ok _ _
    | exact lexText_ok _ _ _
    | exact lexNumber_ok _ _
    | exact lexComment_ok _ _ _
    | exact emitConsume_ok _ _ (by simp [isTerminator])
    | exact consume_ok _
    | exact consumeThen_ok _ (lexCmp_ok _) _
    | exact consumeThen_ok _ (lexDouble_ok _) _
    | exact ok_stop [] rfl
    | exact ok_stop [_] (by simp [noTerm, isTerminator])
    | apply Step.ok_ite)

theorem run_endsOnce (cur rest) : endsOnce (run cur rest) = true := by
  induction cur, rest using run.induct with
  | case1 cur rest t h =>
    rw [run]; have := lexInputStep_ok cur rest
    split
    · rename_i h'; rw [h'] at this; exact this
    · rename_i h'; rw [h] at h'; simp at h'
  | case2 cur rest t c r h ih =>
    rw [run]; have := lexInputStep_ok cur rest
    split
    · rename_i h'; rw [h] at h'; simp at h'
    · rename_i t' c' r' h'
      rw [h] at h'; simp at h'; obtain ⟨rfl, rfl, rfl⟩ := h'
      rw [h] at this
      exact endsOnce_append this ih

/-- whatever the input, the lexer goroutine sends exactly one tokEOF / tokError token, and it is
    the last token it sends -/
theorem sends_endsOnce (input : List Char) : endsOnce (sends input) = true := by
  unfold sends; split <;> exact run_endsOnce _ _

theorem takeThrough_of_endsOnce {l : List Token} (h : endsOnce l = true) : takeThrough l = l := by
  induction l with
  | nil => simp [endsOnce] at h
  | cons x xs ih =>
    unfold takeThrough
    cases xs with
    | nil => simp [endsOnce] at h; simp [h]
    | cons y ys =>
      simp [endsOnce] at h
      simp [h.1]; exact ih (by simpa [endsOnce] using h.2)

/-- `Tokens()` drains the channel: it returns every token the goroutine sends -/
theorem tokens_eq_sends (input : List Char) : tokens input = sends input :=
  takeThrough_of_endsOnce (sends_endsOnce input)

theorem endsOnce_split {l : List Token} (h : endsOnce l = true) :
    ∃ pre t, l = pre ++ [t] ∧ isTerminator t = true ∧ ∀ x ∈ pre, isTerminator x = false := by
  induction l with
  | nil => simp [endsOnce] at h
  | cons x xs ih =>
    cases xs with
    | nil => exact ⟨[], x, rfl, by simpa [endsOnce] using h, by simp⟩
    | cons y ys =>
      simp [endsOnce] at h
      obtain ⟨pre, t, hl, ht, hp⟩ := ih (by simpa [endsOnce] using h.2)
      refine ⟨x :: pre, t, by rw [hl]; rfl, ht, ?_⟩
      intro z hz; rcases List.mem_cons.mp hz with rfl | hz
      · exact h.1
      · exact hp z hz

theorem sends_shape (input : List Char) :
    ∃ pre t, sends input = pre ++ [t] ∧ isTerminator t = true ∧ ∀ x ∈ pre, isTerminator x = false :=
  endsOnce_split (sends_endsOnce input)

end Lex

/-- `LexInput(bytes.NewReader(src))` -/
def lexBytes (src : List UInt8) : List Token := Lex.tokens (decodeRunes src)

end Gmars
