/-
  Model of (*warrior).LoadCode (warrior.go), addressSigned (sim.go) /
  signedAddress (asm.go) and of the Sprintf verbs it uses.
-/
import Gmars.Model.Load

namespace Gmars
open GoStr

def natDigits (n : Nat) : Str := (Nat.toDigits 10 n)

/-- `%d` of an int -/
def showInt (i : Int) : Str :=
  if i < 0 then '-' :: natDigits i.natAbs else natDigits i.toNat

/-- `%Ns`: pad on the left to width n -/
def padLeft (n : Nat) (s : Str) : Str := List.replicate (n - s.length) ' ' ++ s
/-- `%-Ns`: pad on the right to width n -/
def padRight (n : Nat) (s : Str) : Str := s ++ List.replicate (n - s.length) ' '

/-- `addressSigned` / `signedAddress` -/
def addressSigned (m a : UInt64) : Int :=
  if a > m / 2 then -((m.toNat : Int) - (a.toNat : Int)) else (a.toNat : Int)

def listingLine (m : UInt64) (legacy : Bool) (isStart : Bool) (i : Instr) : Str :=
  let start := if isStart then "START".toList else "     ".toList
  let opmode := if legacy then [] else '.' :: i.md.name.toList
  start ++ "  ".toList ++ padLeft 3 i.op.name.toList ++ padRight 3 opmode ++ " ".toList ++
    [i.am.sym] ++ " ".toList ++ padLeft 5 (showInt (addressSigned m i.a)) ++ ", ".toList ++
    [i.bm.sym] ++ " ".toList ++ padLeft 5 (showInt (addressSigned m i.b)) ++ "     \n".toList

/-- `LoadCode()` of a warrior added to a simulator with core size `m` -/
def loadCode (m : UInt64) (legacy : Bool) (w : WarriorData) : Str :=
  if w.code.size == 0 then []
  else
    (if legacy then [] else "       ORG      START\n".toList) ++
    ((List.range w.code.size).map (fun (i : Nat) =>
        listingLine m legacy (decide (Int.ofNat i = w.start)) (w.code.getD i default))).flatten ++
    (if legacy then "       END      START\n".toList else [])

end Gmars
