/-
  Model of the remaining printers: (*warrior).LoadCodePMARS (warrior.go), Instruction.String and
  Instruction.NormString with signedAddress (asm.go). `signedAddressGo` keeps Go's wrapping `int`
  arithmetic because NormString is public and takes any core size with any field values.
-/
import Gmars.Model.Listing

namespace Gmars
open GoStr

/-- `signedAddress(a, coresize)` (asm.go): `int(x)` of a uint64 is its two's-complement reading,
    subtraction and negation wrap -/
def signedAddressGo (a m : UInt64) : Int :=
  if a > m / 2 then (-(m.toInt64 - a.toInt64)).toInt else a.toInt64.toInt

/-- `Instruction.String()`: `"%s.%-2s %s %5d %s %5d"` with unsigned fields -/
def instrString (i : Instr) : Str :=
  i.op.name.toList ++ ".".toList ++ padRight 2 i.md.name.toList ++ " ".toList ++ [i.am.sym] ++
    " ".toList ++ padLeft 5 (natDigits i.a.toNat) ++ " ".toList ++ [i.bm.sym] ++ " ".toList ++
    padLeft 5 (natDigits i.b.toNat)

/-- `Instruction.NormString(coresize)`: the same columns with signed fields -/
def normString (m : UInt64) (i : Instr) : Str :=
  i.op.name.toList ++ ".".toList ++ padRight 2 i.md.name.toList ++ " ".toList ++ [i.am.sym] ++
    " ".toList ++ padLeft 5 (showInt (signedAddressGo i.a m)) ++ " ".toList ++ [i.bm.sym] ++
    " ".toList ++ padLeft 5 (showInt (signedAddressGo i.b m))

/-- the header line of `LoadCodePMARS()` and the empty line after it -/
def pmarsHeader (name author : Str) (len : Nat) : Str :=
  "Program \"".toList ++ name ++ "\" (length ".toList ++ natDigits len ++ ") by \"".toList ++
    author ++ "\"\n\n".toList

/-- `LoadCodePMARS()` of a warrior added to a simulator with core size `m` -/
def loadCodePMARS (m : UInt64) (legacy : Bool) (name author : Str) (w : WarriorData) : Str :=
  if w.code.size > 0 then pmarsHeader name author w.code.size ++ loadCode m legacy w ++ "\n".toList
  else pmarsHeader name author w.code.size

end Gmars
