/-
  Model of load.go (parseLoadFile94 / parseLoadFile88 / ParseLoadFile), of the
  decoding helpers of asm.go (getOpCode, getOpMode, getOp94, getOpCode88,
  getAddressMode, getAddressMode88, parseAddress) and of getOpMode94 /
  getOpModeAndValidate88, on ASCII text.
-/
import Gmars.Base.GoStr
import Gmars.Model.Sim

namespace Gmars
open GoStr

def getOpCode (s : Str) : Option Op :=
  match String.ofList (toLower s) with
  | "dat" => some .dat | "mov" => some .mov | "add" => some .add | "sub" => some .sub
  | "mul" => some .mul | "div" => some .div | "mod" => some .mod | "jmp" => some .jmp
  | "jmz" => some .jmz | "jmn" => some .jmn | "djn" => some .djn | "cmp" => some .cmp
  | "seq" => some .seq | "slt" => some .slt | "sne" => some .sne | "spl" => some .spl
  | "nop" => some .nop | _ => none

def getOpCode88 (s : Str) : Option Op :=
  match String.ofList (toLower s) with
  | "dat" => some .dat | "mov" => some .mov | "add" => some .add | "sub" => some .sub
  | "jmp" => some .jmp | "jmz" => some .jmz | "jmn" => some .jmn | "djn" => some .djn
  | "cmp" => some .cmp | "slt" => some .slt | "spl" => some .spl | _ => none

def getOpMode (s : Str) : Option Modifier :=
  match String.ofList (toLower s) with
  | "a" => some .a | "b" => some .b | "ab" => some .ab | "ba" => some .ba
  | "i" => some .i | "f" => some .f | "x" => some .x | _ => none

def getOp94 (s : Str) : Option (Op × Modifier) :=
  match splitOnChar s '.' with
  | [o, m] => do pure (← getOpCode o, ← getOpMode m)
  | _ => none

def getAddressMode (s : Str) : Option Mode :=
  match s with
  | ['#'] => some .immediate | ['$'] => some .direct | ['*'] => some .aInd | ['@'] => some .bInd
  | ['{'] => some .aDec | ['<'] => some .bDec | ['}'] => some .aInc | ['>'] => some .bInc
  | _ => none

def getAddressMode88 (s : Str) : Option Mode :=
  match s with
  | ['#'] => some .immediate | ['$'] => some .direct | ['@'] => some .bInd | ['<'] => some .bDec
  | _ => none

/-- `parseAddress(input, coresize)`: signed decimal reduced into [0, coresize).
    `.error` = Go panic (coresize 0), `.ok none` = returned error -/
def parseAddress (s : Str) (coresize : UInt64) : Except Panic (Option UInt64) :=
  match parseInt s 64 with
  | none => .ok none
  | some v =>
    if coresize == 0 then .error .divZero
    else
      let m : Int := coresize.toNat
      let r := Int.tmod v m
      let r := if r < 0 then Int.tmod (m + r) m else r
      .ok (some (UInt64.ofNat r.toNat))

/-- getOpMode94 -/
def getOpMode94 (op : Op) (am bm : Mode) : Modifier :=
  match op with
  | .dat => .f
  | .cmp | .mov | .seq | .sne =>
    if am == .immediate then .ab else if bm == .immediate then .b else .i
  | .slt => if am == .immediate then .ab else .b
  | .add | .sub | .mul | .div | .mod =>
    if am == .immediate then .ab else if bm == .immediate then .b else .f
  | .jmp | .jmn | .jmz | .djn | .spl | .nop => .b

/-- getOpModeAndValidate88: `none` = error -/
def getOpModeAndValidate88 (op : Op) (am bm : Mode) : Option Modifier :=
  match op with
  | .dat =>
    if am != .immediate && am != .bDec then none
    else if bm != .immediate && bm != .bDec then none
    else some .f
  | .cmp | .mov =>
    if bm == .immediate then none else if am == .immediate then some .ab else some .i
  | .slt => if am == .immediate then some .ab else some .b
  | .add | .sub =>
    if bm == .immediate then none else if am == .immediate then some .ab else some .f
  | .jmp | .jmn | .jmz | .djn | .spl =>
    if am == .immediate then none else some .b
  | _ => none

/-- result of the loaders: `none` = (WarriorData{}, error) -/
abbrev LoadResult := Option WarriorData

structure LoadState where
  name : Str := "Unknown".toList
  author : Str := "Anonymous".toList
  strategy : Str := []
  code : Array Instr := #[]
  start : Int := 0
  deriving Inhabited

inductive LineOutcome
  | cont (st : LoadState)
  | stop (st : LoadState)     -- break
  | fail                      -- return error

/-- metadata comment lines (shared by both readers) -/
def metaLine (st : LoadState) (raw lower : Str) : LoadState :=
  if hasPrefix lower ";name".toList then { st with name := trimSpace (raw.drop 5) }
  else if hasPrefix lower ";author".toList then { st with author := trimSpace (raw.drop 7) }
  else if hasPrefix lower ";strategy".toList && raw.length > 10 then
    { st with strategy := st.strategy ++ raw.drop 10 }
  else st

def line94 (coresize : UInt64) (st : LoadState) (raw : Str) : Except Panic LineOutcome :=
  let lower := toLower raw
  if raw.head? == some ';' then .ok (.cont (metaLine st raw lower))
  else
    let lower := if containsChar lower ';' then beforeChar lower ';' else lower
    let fs := fields (replaceComma lower)
    match fs with
    | [f0, f1, f2, f3, f4] =>
      if !containsChar lower ',' then .ok .fail else
      match getOp94 f0 with
      | none => .ok .fail
      | some (op, md) =>
      match getAddressMode f1 with
      | none => .ok .fail
      | some am => do
      match ← parseAddress f2 coresize with
      | none => .ok .fail
      | some a =>
      match getAddressMode f3 with
      | none => .ok .fail
      | some bm => do
      match ← parseAddress f4 coresize with
      | none => .ok .fail
      | some b => .ok (.cont { st with code := st.code.push { op, md, am, a, bm, b } })
    | [] => if containsChar lower ',' then .ok .fail else .ok (.cont st)
    | f0 :: rest =>
      if rest.isEmpty && f0 == "end".toList then .ok (.stop st)
      else if f0 != "org".toList then .ok .fail
      else match rest with
        | [f1] =>
          match parseInt f1 32 with
          | none => .ok .fail
          | some v => if v < 0 then .ok .fail else .ok (.cont { st with start := v })
        | _ => .ok .fail

def line88 (coresize : UInt64) (st : LoadState) (raw : Str) : Except Panic LineOutcome :=
  let lower := toLower raw
  if raw.head? == some ';' then .ok (.cont (metaLine st raw lower))
  else
    let lower := if containsChar lower ';' then beforeChar lower ';' else lower
    let fs := fields (replaceComma lower)
    match fs with
    | [f0, f1, f2, f3, f4] =>
      if !containsChar lower ',' then .ok .fail else
      match getOpCode88 f0 with
      | none => .ok .fail
      | some op =>
      match getAddressMode88 f1 with
      | none => .ok .fail
      | some am => do
      match ← parseAddress f2 coresize with
      | none => .ok .fail
      | some a =>
      match getAddressMode88 f3 with
      | none => .ok .fail
      | some bm => do
      match ← parseAddress f4 coresize with
      | none => .ok .fail
      | some b =>
      match getOpModeAndValidate88 op am bm with
      | none => .ok .fail
      | some md => .ok (.cont { st with code := st.code.push { op, md, am, a, bm, b } })
    | [] => if containsChar lower ',' then .ok .fail else .ok (.cont st)
    | f0 :: rest =>
      if f0 != "end".toList && f0 != "org".toList then .ok .fail
      else if rest.length > 1 then .ok .fail
      else match rest with
        | [] => if f0 == "org".toList then .ok .fail else .ok (.stop st)
        | f1 :: _ =>
          match parseInt f1 32 with
          | none => .ok .fail
          | some v =>
            if v < 0 || (f0 != "org".toList && v > st.code.size) then .ok .fail
            else
              let st := { st with start := v }
              if f0 == "end".toList then .ok (.stop st) else .ok (.cont st)

def loadLoop (f : LoadState → Str → Except Panic LineOutcome) :
    LoadState → List Str → Except Panic (Option LoadState)
  | st, [] => .ok (some st)
  | st, l :: ls => do
    match ← f st l with
    | .cont st' => loadLoop f st' ls
    | .stop st' => .ok (some st')
    | .fail => .ok none

def finish (legacy : Bool) (st : LoadState) : LoadResult :=
  let bad := if legacy then st.start != 0 && st.start ≥ st.code.size else st.start ≥ st.code.size
  if bad then none
  else some { name := String.ofList st.name, author := String.ofList st.author,
              strategy := String.ofList st.strategy, code := st.code, start := st.start }

/-- `ParseLoadFile(reader, config)` on ASCII text -/
def parseLoadFile (cfg : Config) (text : Str) : Except Panic LoadResult := do
  let legacy := cfg.mode == .icws88
  let r ← loadLoop (if legacy then line88 cfg.coreSize else line94 cfg.coreSize) {} (readLines text)
  match r with
  | none => .ok none
  | some st => .ok (finish legacy st)

end Gmars
