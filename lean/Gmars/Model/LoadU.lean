/-
  Model of load.go (ParseLoadFile → parseLoadFile94 / parseLoadFile88) on EVERY byte string.

  Same structure as Gmars/Model/Load.lean (which is exact on ASCII text), with
  * the raw line a byte list (`raw_line[0] == ';'`, `len(raw_line) > 10`, `raw_line[5:]`,
    `raw_line[7:]`, `raw_line[10:]` are byte operations: the latter may cut a multi-byte rune),
  * `lower := strings.ToLower(raw_line)` the rune list `toLowerRunes raw` (valid UTF-8 in Go, every
    invalid byte of the raw line is a U+FFFD there),
  * `strings.Fields` splitting at every `unicode.IsSpace` rune (U+0085, U+00A0, U+1680,
    U+2000–U+200A, U+2028, U+2029, U+202F, U+205F, U+3000 besides the ASCII ones),
  * `strings.TrimSpace(raw_line[5:])` on possibly invalid UTF-8 (`trimSpaceU`),
  * Name / Author / Strategy byte lists.
  The decoding helpers `getOp94`, `getOpCode88`, `getAddressMode(88)`, `parseAddress`, `parseInt`
  of Load.lean / GoStr.lean work on rune lists and are exact on any of them (a field with a
  non-ASCII rune is never a keyword, a mode character or a number); `getOpCode` lower-cases its
  argument once more, which makes `mov.İ` (U+0130) the instruction MOV.I in Go and here.
-/
import Gmars.Base.GoStrU
import Gmars.Model.Load

namespace Gmars
open GoStr GoStrU

/-- `WarriorData` with the metadata as byte strings (they are slices of the raw line) -/
structure WarriorDataB where
  name     : Bytes := []
  author   : Bytes := []
  strategy : Bytes := []
  code     : Array Instr := #[]
  start    : Int := 0
  deriving DecidableEq, Repr, Inhabited

abbrev LoadResultB := Option WarriorDataB

structure LoadStateB where
  name : Bytes := lit "Unknown"
  author : Bytes := lit "Anonymous"
  strategy : Bytes := []
  code : Array Instr := #[]
  start : Int := 0
  deriving Inhabited

inductive LineOutcomeB
  | cont (st : LoadStateB)
  | stop (st : LoadStateB)     -- break
  | fail                       -- return error

/-- metadata comment lines (shared by both readers); `raw.drop n` is `raw_line[n:]`, which
    cannot panic: `lower` has at least as many runes as the prefix, so `raw` has as many bytes -/
def metaLineU (st : LoadStateB) (raw : Bytes) (lower : Str) : LoadStateB :=
  if hasPrefix lower ";name".toList then { st with name := trimSpaceU (raw.drop 5) }
  else if hasPrefix lower ";author".toList then { st with author := trimSpaceU (raw.drop 7) }
  else if hasPrefix lower ";strategy".toList && raw.length > 10 then
    { st with strategy := st.strategy ++ raw.drop 10 }
  else st

def line94U (coresize : UInt64) (st : LoadStateB) (raw : Bytes) : Except Panic LineOutcomeB :=
  let lower := toLowerRunes raw
  if raw.head? == some 0x3B then .ok (.cont (metaLineU st raw lower))
  else
    let lower := if containsChar lower ';' then beforeChar lower ';' else lower
    let fs := fieldsU (replaceComma lower)
    match fs with
    | [f0, f1, f2, f3, f4] =>
      if !containsChar lower ',' then .ok .fail else
      match getOp94 f0 with
      | none => .ok .fail
      | some (op, md) =>
      match getAddressMode f1 with
      | none => .ok .fail
      | some am => do
      match ← parseAddress f2 coresize with
      | none => .ok .fail
      | some a =>
      match getAddressMode f3 with
      | none => .ok .fail
      | some bm => do
      match ← parseAddress f4 coresize with
      | none => .ok .fail
      | some b => .ok (.cont { st with code := st.code.push { op, md, am, a, bm, b } })
    | [] => if containsChar lower ',' then .ok .fail else .ok (.cont st)
    | f0 :: rest =>
      if rest.isEmpty && f0 == "end".toList then .ok (.stop st)
      else if f0 != "org".toList then .ok .fail
      else match rest with
        | [f1] =>
          match parseInt f1 32 with
          | none => .ok .fail
          | some v => if v < 0 then .ok .fail else .ok (.cont { st with start := v })
        | _ => .ok .fail

def line88U (coresize : UInt64) (st : LoadStateB) (raw : Bytes) : Except Panic LineOutcomeB :=
  let lower := toLowerRunes raw
  if raw.head? == some 0x3B then .ok (.cont (metaLineU st raw lower))
  else
    let lower := if containsChar lower ';' then beforeChar lower ';' else lower
    let fs := fieldsU (replaceComma lower)
    match fs with
    | [f0, f1, f2, f3, f4] =>
      if !containsChar lower ',' then .ok .fail else
      match getOpCode88 f0 with
      | none => .ok .fail
      | some op =>
      match getAddressMode88 f1 with
      | none => .ok .fail
      | some am => do
      match ← parseAddress f2 coresize with
      | none => .ok .fail
      | some a =>
      match getAddressMode88 f3 with
      | none => .ok .fail
      | some bm => do
      match ← parseAddress f4 coresize with
      | none => .ok .fail
      | some b =>
      match getOpModeAndValidate88 op am bm with
      | none => .ok .fail
      | some md => .ok (.cont { st with code := st.code.push { op, md, am, a, bm, b } })
    | [] => if containsChar lower ',' then .ok .fail else .ok (.cont st)
    | f0 :: rest =>
      if f0 != "end".toList && f0 != "org".toList then .ok .fail
      else if rest.length > 1 then .ok .fail
      else match rest with
        | [] => if f0 == "org".toList then .ok .fail else .ok (.stop st)
        | f1 :: _ =>
          match parseInt f1 32 with
          | none => .ok .fail
          | some v =>
            if v < 0 || (f0 != "org".toList && v > st.code.size) then .ok .fail
            else
              let st := { st with start := v }
              if f0 == "end".toList then .ok (.stop st) else .ok (.cont st)

def loadLoopU (f : LoadStateB → Bytes → Except Panic LineOutcomeB) :
    LoadStateB → List Bytes → Except Panic (Option LoadStateB)
  | st, [] => .ok (some st)
  | st, l :: ls => do
    match ← f st l with
    | .cont st' => loadLoopU f st' ls
    | .stop st' => .ok (some st')
    | .fail => .ok none

def finishU (legacy : Bool) (st : LoadStateB) : LoadResultB :=
  let bad := if legacy then st.start != 0 && st.start ≥ st.code.size else st.start ≥ st.code.size
  if bad then none
  else some { name := st.name, author := st.author, strategy := st.strategy,
              code := st.code, start := st.start }

/-- `ParseLoadFile(reader, config)` on an arbitrary byte string: `.error` = Go panic (only the
    integer division by a zero core size in `parseAddress`), `.ok none` = `(WarriorData{}, err)` -/
def parseLoadFileU (cfg : Config) (text : Bytes) : Except Panic LoadResultB := do
  let legacy := cfg.mode == .icws88
  let r ← loadLoopU (if legacy then line88U cfg.coreSize else line94U cfg.coreSize) {}
    (readLinesB text)
  match r with
  | none => .ok none
  | some st => .ok (finishU legacy st)

end Gmars
