/-
  parser.go: `newParser(newBufTokenReader(toks)).parse()` as a total function on the token list.

  The Go parser is a state-function machine over a one-token look-ahead (`p.nextToken`).
  `(*parser).next()` has a peculiar end-of-input behaviour that this model mirrors exactly:

    * reader not exhausted: the look-ahead is replaced by the next token, the OLD look-ahead is
      returned, and `p.line` is incremented iff the old look-ahead was a newline;
    * reader exhausted, first time: `atEOF := true`, the look-ahead is returned and NOT changed;
    * afterwards: an EOF token is returned, the look-ahead is still not changed.

  So once the reader is exhausted the look-ahead is frozen for good, and every loop of the Go code
  that re-tests the look-ahead after calling `next()` spins forever when the token list does not
  end in an EOF token.  These are reported as `Fault.hang <site>`:

    "parseEmptyLines"  `for p.nextToken.typ == tokNewline`          (counter grows, wraps)
    "parseLabels"      newline/comment look-ahead: `p.next(); return parseLabels`
    "parseColon"       `for p.nextToken.typ == tokColon`, and newline/comment: `return parseColon`
    "parsePseudoExpr" / "parseExprA" / "parseExprB"
                       `for p.nextToken.IsExpressionTerm()` (appends forever: the real program
                       eventually dies of memory exhaustion instead of spinning quietly)

  parser.go contains no reachable panic: all three string slicings in `parseLine` are guarded
  (`HasPrefix` / `len > 10`), and nothing is indexed.

  Errors are modelled as a category (`none`); `p.err` is sticky (`parseLabels` sets it on a
  redefinition and carries on; it is only ever overwritten by another error).

  Go maps `symbols` / `references` are modelled by their key sets (the stored line numbers only
  occur in error texts).
-/
import Gmars.Model.Token

namespace Gmars.Parser
open Gmars

/-- the states of the machine (`parseStateFn` values) -/
inductive St
  | line | emptyLines | comment | labels | colon | pseudoOp | pseudoExpr | op | modeA | exprA
  | comma | modeB | exprB
  deriving DecidableEq, Repr, Inhabited

/-- `parser` -/
structure PState where
  /-- what the `bufTokenReader` has not delivered yet -/
  rest : List Token
  nextToken : Token := { typ := .error, val := "" }   -- Go zero value `token{}`
  line : Int := 1
  codeLine : Int := 0
  atEOF : Bool := false
  /-- `p.err != nil` -/
  err : Bool := false
  cur : SourceLine := {}
  metadata : AsmMeta := {}
  endSeen : Bool := false
  lines : Array SourceLine := #[]
  /-- key set of `p.symbols` -/
  symbols : List String := ["CORESIZE", "MAXLENGTH", "MAXPROCESSES", "MINDISTANCE"]
  /-- key set of `p.references` -/
  references : List String := []
  deriving Repr, Inhabited

/-- `(*parser).next()`: returned token and new state -/
def next (p : PState) : Token × PState :=
  if p.atEOF then ({ typ := .eof, val := "" }, p)
  else match p.rest with
    | [] => (p.nextToken, { p with atEOF := true })
    | t :: rest =>
      let last := p.nextToken
      (last, { p with nextToken := t, rest := rest,
                      line := if last.typ == .newline then p.line + 1 else p.line })

/-- `p.next()` with the result dropped -/
def advance (p : PState) : PState := (next p).2

/-- the reader is exhausted: `next()` will never change the look-ahead (nor `p.line`) again -/
def frozen (p : PState) : Bool := p.rest.isEmpty

def setErr (p : PState) : PState := { p with err := true }
def emit (p : PState) : PState := { p with lines := p.lines.push p.cur }
def incNewlines (p : PState) : PState := { p with cur := { p.cur with newlines := p.cur.newlines + 1 } }

/-! ### strings -/

/-- `unicode.IsSpace` -/
def isUniSpace (c : Char) : Bool :=
  let n := c.toNat
  n == 0x20 || (0x09 ≤ n && n ≤ 0x0d) || n == 0x85 || n == 0xA0 || n == 0x1680 ||
  (0x2000 ≤ n && n ≤ 0x200a) || n == 0x2028 || n == 0x2029 || n == 0x202f || n == 0x205f ||
  n == 0x3000

/-- `strings.TrimSpace` (Unicode white space, as Go) -/
def trimSpace (s : List Char) : List Char :=
  ((s.dropWhile isUniSpace).reverse.dropWhile isUniSpace).reverse

/-- metadata capture of `parseLine` from a comment token value. The prefixes are matched case
    sensitively on the raw comment.  `len(val) > 10` is a BYTE length and `val[10:]` a BYTE slice:
    the nine bytes of ";strategy" are ASCII, so byte 10 is a character boundary iff the tenth
    character is a one-byte character.  If it is not, Go produces a string that is not valid
    UTF-8, which a Lean `String` cannot hold: that input class is NOT modelled (`strategyOutside`
    tells the caller; the value computed here then drops the whole tenth character). -/
def captureMeta (m : AsmMeta) (val : String) : AsmMeta :=
  let cs := val.toList
  if ";name".toList.isPrefixOf cs then
    { m with name := String.ofList (trimSpace (cs.drop 5)) }
  else if ";author".toList.isPrefixOf cs then
    { m with author := String.ofList (trimSpace (cs.drop 7)) }
  else if ";strategy".toList.isPrefixOf cs then
    if val.utf8ByteSize > 10 then
      { m with strategy := m.strategy ++ String.ofList (cs.drop 10) ++ "\n" }
    else m
  else m

/-- the comment value is outside the modelled subset (see `captureMeta`) -/
def strategyOutside (val : String) : Bool :=
  let cs := val.toList
  ";strategy".toList.isPrefixOf cs && !(";name".toList.isPrefixOf cs) &&
    val.utf8ByteSize > 10 &&
    (match cs.drop 9 with
     | c :: _ => c.toNat ≥ 0x80
     | [] => false)

/-! ### the `for p.nextToken.IsExpressionTerm()` loops -/

/-- `if tokText { if _, ok := p.references[val]; !ok { p.references[val] = p.line } }` -/
def noteReference (p : PState) : PState :=
  if p.nextToken.typ == .text && !p.references.contains p.nextToken.val then
    { p with references := p.nextToken.val :: p.references }
  else p

/-- The loop shared by parsePseudoExpr / parseExprA / parseExprB; the collected tokens are
    returned in REVERSE order on top of `acc`.  Every iteration that comes back consumes one
    reader token, so `fuel = p.rest.length + 1` is enough; with the reader exhausted and an
    expression term in the look-ahead the Go loop never ends. -/
def exprLoop (site : String) : Nat → PState → List Token → Except Fault (PState × List Token)
  | 0, _, _ => .error (.hang "fuel")   -- unreachable with the fuel given by `collectExpr`
  | fuel + 1, p, acc =>
    if p.nextToken.isExpressionTerm then
      if frozen p then .error (.hang site)
      else exprLoop site fuel (advance (noteReference p)) (p.nextToken :: acc)
    else .ok (p, acc)

def collectExpr (site : String) (p : PState) : Except Fault (PState × List Token) := do
  let (p, acc) ← exprLoop site (p.rest.length + 1) p []
  pure (p, acc.reverse)

/-- `for p.nextToken.typ == t { pre; p.next() }` for parseEmptyLines (`bump = true`: count the
    newline) and parseColon; same fuel argument as `exprLoop` -/
def skipLoop (site : String) (t : TokType) (bump : Bool) : Nat → PState → Except Fault PState
  | 0, _ => .error (.hang "fuel")      -- unreachable
  | fuel + 1, p =>
    if p.nextToken.typ == t then
      if frozen p then .error (.hang site)
      else skipLoop site t bump fuel (advance (if bump then incNewlines p else p))
    else .ok p

/-! ### the states -/

/-- `consumeEmitLine(nextState)` -/
def consumeEmitLine (nextState : St) (p : PState) : PState × Option St :=
  let p := advance p
  if p.nextToken.typ == .eof then (emit p, none)
  else if p.nextToken.typ != .newline then (setErr p, none)
  else
    let p := emit (incNewlines p)
    let (t, p) := next p
    if t.typ == .eof then (p, none) else (p, some nextState)

/-- dispatch on an op token shared by parseLabels and parseColon -/
def opState (t : Token) : St := if t.isPseudoOp then .pseudoOp else .op

/-- one call of a state function: new parser state and the returned state (`none` = nil) -/
def step : St → PState → Except Fault (PState × Option St)
  | .line, p =>
    if p.endSeen then .ok (p, none)
    else
      let p := { p with cur := { line := p.line } }
      match p.nextToken.typ with
      | .newline => .ok ({ p with cur := { p.cur with typ := .empty } }, some .emptyLines)
      | .comment =>
        .ok ({ p with metadata := captureMeta p.metadata p.nextToken.val,
                      cur := { p.cur with typ := .comment } }, some .comment)
      | .text => .ok (p, some .labels)
      | .eof => .ok (p, none)
      | _ => .ok (setErr p, none)
  | .emptyLines, p => do
    let p ← skipLoop "parseEmptyLines" .newline true (p.rest.length + 1) p
    pure (emit p, some .line)
  | .comment, p =>
    .ok (consumeEmitLine .line { p with cur := { p.cur with comment := p.nextToken.val } })
  | .labels, p =>
    let t := p.nextToken
    if t.typ == .newline || t.typ == .comment then
      -- `p.next(); return parseLabels`: with the reader exhausted nothing changes any more
      if frozen p then .error (.hang "parseLabels") else .ok (advance p, some .labels)
    else if t.isOp then .ok (p, some (opState t))
    else if t.typ == .colon then .ok (p, some .colon)
    else
      let p := if p.symbols.contains t.val then setErr p else p
      let p := { p with symbols := if p.symbols.contains t.val then p.symbols else t.val :: p.symbols,
                        cur := { p.cur with labels := p.cur.labels ++ [t.val] } }
      let (r, p) := next p
      if r.typ != .text then .ok (setErr p, none) else .ok (p, some .labels)
  | .colon, p => do
    let p ← skipLoop "parseColon" .colon false (p.rest.length + 1) p
    let t := p.nextToken
    if t.typ == .newline || t.typ == .comment then
      if frozen p then .error (.hang "parseColon") else pure (advance p, some .colon)
    else if t.isOp then pure (p, some (opState t))
    else if t.typ == .text then pure (p, some .labels)
    else pure (setErr p, none)
  | .pseudoOp, p =>
    let last := p.nextToken
    let p := { p with cur := { p.cur with op := last.val, typ := .pseudoOp },
                      endSeen := p.endSeen || lowerStr last.val == "end" }
    let p := advance p
    if p.nextToken.isExpressionTerm then .ok (p, some .pseudoExpr)
    else if p.nextToken.typ == .comment then .ok (p, some .comment)
    else if p.nextToken.typ == .eof then
      if last.noOperandsOk then .ok (emit (incNewlines (advance p)), none)
      else .ok (setErr p, none)          -- falls out of the if-chain to the final error
    else if p.nextToken.typ == .newline then
      if last.noOperandsOk then .ok (emit (incNewlines (advance p)), some .line)
      else .ok (setErr p, none)
    else .ok (setErr p, none)
  | .pseudoExpr, p => do
    -- `if a == nil { a = make([]token, 0) }`; a is always nil here
    let (p, ts) ← collectExpr "parsePseudoExpr" p
    let p := { p with cur := { p.cur with a := some (p.cur.a.getD [] ++ ts) } }
    match p.nextToken.typ with
    | .comment => pure (p, some .comment)
    | .newline => pure (emit (incNewlines (advance p)), some .line)
    | .eof => pure (emit p, some .line)
    | _ => pure (setErr p, none)
  | .op, p =>
    let p := { p with cur := { p.cur with op := p.nextToken.val, typ := .instruction,
                                          codeLine := p.codeLine },
                      codeLine := p.codeLine + 1 }
    let p := advance p
    let t := p.nextToken
    if t.isAddressMode then .ok (p, some .modeA)
    else if t.isExpressionTerm && t.val != "*" then .ok (p, some .exprA)
    else if t.typ == .symbol then
      -- unreachable (a symbol "*" is an address mode, any other symbol an expression term)
      if t.val == "*" then .ok (p, some .modeA) else .ok (p, some .exprA)
    else .ok (setErr p, none)            -- includes text/number/paren tokens whose value is "*"
  | .modeA, p =>
    let p := advance { p with cur := { p.cur with amode := p.nextToken.val } }
    if p.nextToken.isExpressionTerm then .ok (p, some .exprA) else .ok (setErr p, none)
  | .exprA, p => do
    let (p, ts) ← collectExpr "parseExprA" p
    let p := { p with cur := { p.cur with a := some (p.cur.a.getD [] ++ ts) } }
    match p.nextToken.typ with
    | .comment => pure (p, some .comment)
    | .comma => pure (p, some .comma)
    | .newline => pure (emit p, some .line)   -- newline NOT consumed, NOT counted
    | .eof => pure (emit p, some .line)
    | _ => pure (setErr p, none)
  | .comma, p =>
    let p := advance p
    if p.nextToken.isAddressMode then .ok (p, some .modeB)
    else if p.nextToken.isExpressionTerm then .ok (p, some .exprB)
    else .ok (setErr p, none)
  | .modeB, p =>
    let p := advance { p with cur := { p.cur with bmode := p.nextToken.val } }
    if p.nextToken.isExpressionTerm then .ok (p, some .exprB) else .ok (setErr p, none)
  | .exprB, p => do
    let (p, ts) ← collectExpr "parseExprB" p
    let p := { p with cur := { p.cur with b := some (p.cur.b.getD [] ++ ts) } }
    match p.nextToken.typ with
    | .comment => pure (p, some .comment)
    | .newline => pure (advance (emit (incNewlines p)), some .line)
    | .eof => pure (emit p, some .line)
    | _ => pure (setErr p, none)

/-- `for state := parseLine; state != nil; { state = state(p) }`.
    Fuel: between two reader tokens being consumed at most four state functions run without
    consuming (e.g. exprA → line → labels → colon), and once the reader is exhausted every
    state either hangs (detected above), or stops, or reaches a stop within a few calls;
    `runFuel` is a generous bound and the "fuel" outcome is never produced (checked by the
    differential run). -/
def run : Nat → St → PState → Except Fault PState
  | 0, _, _ => .error (.hang "fuel")
  | fuel + 1, s, p => do
    match ← step s p with
    | (p, none) => pure p
    | (p, some s') => run fuel s' p

def runFuel (toks : List Token) : Nat := 8 * toks.length + 64

/-- `newParser(newBufTokenReader(toks))` -/
def newParser (toks : List Token) : PState := advance { rest := toks }

/-- `validateSymbols() == nil` -/
def symbolsValid (p : PState) : Bool := p.references.all (p.symbols.contains ·)

end Gmars.Parser

namespace Gmars

/-- `newParser(newBufTokenReader(toks)).parse()`:
    `.ok none` = an error is returned, `.ok (some (lines, metadata))` = success,
    `.error (.hang site)` = the Go code never returns. -/
def parse (toks : List Token) : Except Fault (Option (List SourceLine × AsmMeta)) := do
  let p ← Parser.run (Parser.runFuel toks) .line (Parser.newParser toks)
  if p.err then pure none
  else if !Parser.symbolsValid p then pure none
  else pure (some (p.lines.toList, p.metadata))

end Gmars
