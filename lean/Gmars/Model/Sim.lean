/-
  Model of the gmars virtual machine: queue.go, warrior.go (state part),
  sim.go, simops.go, config.go (Validate), reporter.go (Report values) and
  staterecorder.go, mirrored function by function.

  Conventions (DESIGN.md §3):
  * `Address` is `UInt64`; `+ - * / %` wrap exactly as in Go.
  * every Go operation that can panic is checked and lives in `Except Panic`:
    slice indexing (`rd`, `wr*`, queue slots, warrior table), nil dereference
    of `w.pq`. The three divisors that are immutable configuration values
    (`m`, `readLimit`, `writeLimit`) are tested once at the top of `exec`
    (`Panic.divZero`); `Validate` makes them non-zero.
  * pointers become indices; the reporter fan-out is an append-only `log`.
-/
import Gmars.Instr

namespace Gmars

inductive Panic
  | index      -- slice / array index out of range
  | nilDeref   -- nil pointer dereference
  | divZero    -- integer divide by zero
  | slice      -- slice bounds out of range
  | makeLen    -- make with a negative / too large length
  deriving DecidableEq, Repr, Inhabited

/-! ## queue.go -/

structure PQ where
  queue  : Array UInt64
  size   : UInt64
  length : UInt64 := 0
  start  : UInt64 := 0
  end_   : UInt64 := 0
  deriving DecidableEq, Repr, Inhabited

def PQ.new (size : UInt64) : PQ :=
  { queue := Array.replicate size.toNat 0, size := size }

def PQ.push (q : PQ) (a : UInt64) : Except Panic PQ :=
  if q.length >= q.size then .ok q
  else if h : q.end_.toNat < q.queue.size then
    .ok { q with queue := q.queue.set q.end_.toNat a h,
                 end_ := (q.end_ + 1) % q.size,
                 length := q.length + 1 }
  else .error .index

def PQ.pop (q : PQ) : Except Panic (Option UInt64 × PQ) :=
  if q.length == 0 then .ok (none, q)
  else if h : q.start.toNat < q.queue.size then
    .ok (some q.queue[q.start.toNat],
         { q with start := (q.start + 1) % q.size, length := q.length - 1 })
  else .error .index

def PQ.get (q : PQ) (n : UInt64) : Except Panic UInt64 :=
  if q.size == 0 then .error .divZero
  else match q.queue[((q.start + n) % q.size).toNat]? with
    | some v => .ok v
    | none => .error .index

/-- `Values()`: the queued program counters, oldest first. -/
def PQ.values (q : PQ) : Except Panic (List UInt64) :=
  (List.range q.length.toNat).mapM (fun i => q.get (UInt64.ofNat i))

/-- `Next()`: `none` stands for the returned error. -/
def PQ.next (q : PQ) : Except Panic (Option UInt64) :=
  if q.length == 0 then .ok none else (q.get 0).map some

/-! ## warrior.go -/

inductive WState | added | alive | dead
  deriving DecidableEq, Repr, Inhabited

structure WarriorData where
  name     : String := ""
  author   : String := ""
  strategy : String := ""
  code     : Array Instr := #[]
  start    : Int := 0
  deriving DecidableEq, Repr, Inhabited

structure Warrior where
  data  : WarriorData
  index : Nat
  pq    : Option PQ := none      -- `*processQueue`, nil until spawned
  state : WState := .added
  deriving Repr, Inhabited

/-! ## reporter.go -/

inductive RType
  | simReset | cycleStart | cycleEnd | warriorSpawn | taskPop | taskPush
  | taskTerminate | warriorTerminate | read | write | decrement | increment
  deriving DecidableEq, Repr, Inhabited

def RType.toNat : RType → Nat
  | .simReset => 0 | .cycleStart => 1 | .cycleEnd => 2 | .warriorSpawn => 3
  | .taskPop => 4 | .taskPush => 5 | .taskTerminate => 6 | .warriorTerminate => 7
  | .read => 8 | .write => 9 | .decrement => 10 | .increment => 11

def RType.all : List RType :=
  [.simReset, .cycleStart, .cycleEnd, .warriorSpawn, .taskPop, .taskPush,
   .taskTerminate, .warriorTerminate, .read, .write, .decrement, .increment]
def RType.ofNat? (n : Nat) : Option RType := RType.all[n]?

structure Report where
  typ   : RType
  cycle : Int := 0
  wi    : Int := 0
  addr  : UInt64 := 0
  deriving DecidableEq, Repr, Inhabited

/-! ## config.go -/

inductive SimMode | icws88 | nop94 | icws94
  deriving DecidableEq, Repr, Inhabited

def SimMode.toNat : SimMode → Nat | .icws88 => 0 | .nop94 => 1 | .icws94 => 2
def SimMode.ofNat? : Nat → Option SimMode
  | 0 => some .icws88 | 1 => some .nop94 | 2 => some .icws94 | _ => none

structure Config where
  mode       : SimMode := .icws88
  coreSize   : UInt64 := 0
  processes  : UInt64 := 0
  cycles     : UInt64 := 0
  readLimit  : UInt64 := 0
  writeLimit : UInt64 := 0
  length     : UInt64 := 0
  distance   : UInt64 := 0
  deriving DecidableEq, Repr, Inhabited

/-- `SimulatorConfig.Validate`: `true` iff it returns nil. -/
def Config.validate (c : Config) : Bool :=
  if c.coreSize < 3 then false
  else if c.processes < 1 then false
  else if c.readLimit < 1 then false
  else if c.writeLimit < 1 then false
  else if c.cycles < 1 then false
  else if c.length > c.coreSize then false
  else if c.length + c.distance > c.coreSize then false
  else true

def Config.quick (mode : SimMode) (coreSize processes cycles length : UInt64) : Config :=
  { mode, coreSize, processes, cycles, readLimit := coreSize, writeLimit := coreSize,
    length, distance := length }

/-! ## sim.go -/

structure Sim where
  m          : UInt64
  maxProcs   : UInt64
  maxCycles  : UInt64
  readLimit  : UInt64
  writeLimit : UInt64
  mem        : Array Instr
  legacy     : Bool
  warriors   : Array Warrior := #[]
  warriorIndex : Nat := 0
  warriorCount : Int := 0
  living     : Int := 0
  cycleCount : UInt64 := 0
  log        : Array Report := #[]
  deriving Repr, Inhabited

/-- a limit larger than the core is clamped to the core size (newReportSim) -/
def clampLimit (l m : UInt64) : UInt64 := if l > m then m else l

/-- `newReportSim`; `none` = the error return. -/
def Sim.new (c : Config) : Option Sim :=
  if c.validate then
    some { m := c.coreSize, maxProcs := c.processes, maxCycles := c.cycles,
           readLimit := clampLimit c.readLimit c.coreSize,
           writeLimit := clampLimit c.writeLimit c.coreSize,
           mem := Array.replicate c.coreSize.toNat default,
           legacy := c.mode == .icws88 }
  else none

def Sim.report (s : Sim) (r : Report) : Sim := { s with log := s.log.push r }

def Sim.rd (s : Sim) (i : UInt64) : Except Panic Instr :=
  match s.mem[i.toNat]? with
  | some x => .ok x
  | none => .error .index

/-- `s.mem[i] = f(s.mem[i])` -/
def Sim.upd (s : Sim) (i : UInt64) (f : Instr → Instr) : Except Panic Sim :=
  if h : i.toNat < s.mem.size then
    .ok { s with mem := s.mem.set i.toNat (f s.mem[i.toNat]) h }
  else .error .index

def Sim.readFold (s : Sim) (p : UInt64) : UInt64 :=
  let res := p % s.readLimit
  if res > s.readLimit / 2 then res + (s.m - s.readLimit) else res

def Sim.writeFold (s : Sim) (p : UInt64) : UInt64 :=
  let res := p % s.writeLimit
  if res > s.writeLimit / 2 then res + (s.m - s.writeLimit) else res

/-- `w.pq.Push(a)` for warrior `wi` (nil queue ⇒ nil dereference). -/
def Sim.push (s : Sim) (wi : Nat) (a : UInt64) : Except Panic Sim :=
  if h : wi < s.warriors.size then
    let w := s.warriors[wi]
    match w.pq with
    | none => .error .nilDeref
    | some q => do
      let q' ← q.push a
      .ok { s with warriors := s.warriors.set wi { w with pq := some q' } h }
  else .error .index

def rep (t : RType) (wi : Nat) (a : UInt64) : Report :=
  { typ := t, wi := Int.ofNat wi, addr := a }

/-- is the mode one of `*`, `{`, `}` -/
def Mode.isA : Mode → Bool
  | .aInd | .aDec | .aInc => true | _ => false
/-- is the mode one of `@`, `<`, `>` -/
def Mode.isB : Mode → Bool
  | .bInd | .bDec | .bInc => true | _ => false

def decA (m : UInt64) (i : Instr) : Instr := { i with a := (i.a + m - 1) % m }
def decB (m : UInt64) (i : Instr) : Instr := { i with b := (i.b + m - 1) % m }
def incA (m : UInt64) (i : Instr) : Instr := { i with a := (i.a + 1) % m }
def incB (m : UInt64) (i : Instr) : Instr := { i with b := (i.b + 1) % m }

/-- Result of the A-operand preparation: state, RPA, PIP. -/
def Sim.aOperand (s : Sim) (pc : UInt64) (ir : Instr) (wi : Nat) :
    Except Panic (Sim × UInt64 × UInt64) :=
  if ir.am == .immediate then .ok (s, 0, 0)
  else do
    let rpa := s.readFold ir.a
    let wpa := s.writeFold ir.a
    -- A-number indirection
    let (s, rpa, pip) ← (
      if ir.am.isA then do
        let s ← (if ir.am == .aDec then do
                    let dptr := (pc + wpa) % s.m
                    let s ← s.upd dptr (decA s.m)
                    pure (s.report (rep .decrement wi dptr))
                  else pure s)
        let pip := if ir.am == .aInc then (pc + wpa) % s.m else 0
        let c ← s.rd ((pc + rpa) % s.m)
        pure (s, s.readFold (rpa + c.a), pip)
      else pure (s, rpa, (0 : UInt64)))
    -- B-number indirection
    if ir.am.isB then do
      let s ← (if ir.am == .bDec then do
                  let dptr := (pc + wpa) % s.m
                  let s ← s.upd dptr (decB s.m)
                  pure (s.report (rep .decrement wi dptr))
                else pure s)
      let pip := if ir.am == .bInc then (pc + wpa) % s.m else pip
      let c ← s.rd ((pc + rpa) % s.m)
      pure (s, s.readFold (rpa + c.b), pip)
    else pure (s, rpa, pip)

/-- post-increment after IRA has been read -/
def Sim.aPost (s : Sim) (ir : Instr) (pip : UInt64) (wi : Nat) : Except Panic Sim := do
  let s ← (if ir.am == .aInc then do
              let s ← s.upd pip (incA s.m)
              pure (s.report (rep .increment wi pip))
            else pure s)
  if ir.am == .bInc then do
    let s ← s.upd pip (incB s.m)
    pure (s.report (rep .increment wi pip))
  else pure s

/-- Result of the B-operand preparation: state, RPB, WPB, PIP (given the PIP left by A). -/
def Sim.bOperand (s : Sim) (pc : UInt64) (ir : Instr) (wi : Nat) (pip0 : UInt64) :
    Except Panic (Sim × UInt64 × UInt64 × UInt64) :=
  if ir.bm == .immediate then .ok (s, 0, 0, pip0)
  else do
    let rpb := s.readFold ir.b
    let wpb := s.writeFold ir.b
    let (s, rpb, wpb, pip) ← (
      if ir.bm.isA then do
        let s ← (if ir.bm == .aDec then do
                    let dptr := (pc + wpb) % s.m
                    let s ← s.upd dptr (decA s.m)
                    pure (s.report (rep .decrement wi dptr))
                  else pure s)
        let pip := if ir.bm == .aInc then (pc + wpb) % s.m else pip0
        let c ← s.rd ((pc + rpb) % s.m)
        let d ← s.rd ((pc + wpb) % s.m)
        pure (s, s.readFold (rpb + c.a), s.writeFold (wpb + d.a), pip)
      else pure (s, rpb, wpb, pip0))
    if ir.bm.isB then do
      let s ← (if ir.bm == .bDec then do
                  let dptr := (pc + wpb) % s.m
                  let s ← s.upd dptr (decB s.m)
                  pure (s.report (rep .decrement wi dptr))
                else pure s)
      let pip := if ir.bm == .bInc then (pc + wpb) % s.m else pip
      let c ← s.rd ((pc + rpb) % s.m)
      let d ← s.rd ((pc + wpb) % s.m)
      pure (s, s.readFold (rpb + c.b), s.writeFold (wpb + d.b), pip)
    else pure (s, rpb, wpb, pip)

def Sim.bPost (s : Sim) (ir : Instr) (pip : UInt64) (wi : Nat) : Except Panic Sim :=
  if ir.bm == .aInc then do
    let s ← s.upd pip (incA s.m)
    pure (s.report (rep .increment wi pip))
  else if ir.bm == .bInc then do
    let s ← s.upd pip (incB s.m)
    pure (s.report (rep .increment wi pip))
  else pure s

/-! ### simops.go -/

/-- report `WarriorTaskPush nextPC` and push it (the common tail of most ops) -/
def Sim.pushNext (s : Sim) (wi : Nat) (next : UInt64) : Except Panic Sim :=
  (s.report (rep .taskPush wi next)).push wi next

def Sim.terminate (s : Sim) (wi : Nat) (pc : UInt64) : Sim :=
  s.report (rep .taskTerminate wi pc)

def Sim.mov (s : Sim) (ir ira : Instr) (wab pc : UInt64) (wi : Nat) : Except Panic Sim := do
  let s ← (match ir.md with
    | .a  => s.upd wab (fun c => { c with a := ira.a })
    | .b  => s.upd wab (fun c => { c with b := ira.b })
    | .ab => s.upd wab (fun c => { c with b := ira.a })
    | .ba => s.upd wab (fun c => { c with a := ira.b })
    | .f  => do let s ← s.upd wab (fun c => { c with a := ira.a })
                s.upd wab (fun c => { c with b := ira.b })
    | .x  => do let s ← s.upd wab (fun c => { c with b := ira.a })
                s.upd wab (fun c => { c with a := ira.b })
    | .i  => s.upd wab (fun _ => ira))
  s.pushNext wi ((pc + 1) % s.m)

/-- shared shape of add / sub / mul: `g x y` computes the new field from IRB's and IRA's -/
def Sim.arith (s : Sim) (g : UInt64 → UInt64 → UInt64) (ir ira irb : Instr)
    (wab pc : UInt64) (wi : Nat) : Except Panic Sim := do
  let s ← (match ir.md with
    | .a  => s.upd wab (fun c => { c with a := g irb.a ira.a })
    | .b  => s.upd wab (fun c => { c with b := g irb.b ira.b })
    | .ab => s.upd wab (fun c => { c with b := g irb.b ira.a })
    | .ba => s.upd wab (fun c => { c with a := g irb.a ira.b })
    | .i | .f => do
        let s ← s.upd wab (fun c => { c with a := g irb.a ira.a })
        s.upd wab (fun c => { c with b := g irb.b ira.b })
    | .x => do
        let s ← s.upd wab (fun c => { c with a := g irb.a ira.b })
        s.upd wab (fun c => { c with b := g irb.b ira.a }))
  s.pushNext wi ((pc + 1) % s.m)

def Sim.addF (s : Sim) (x y : UInt64) : UInt64 := (x + y) % s.m
def Sim.subF (s : Sim) (x y : UInt64) : UInt64 := (x + (s.m - y)) % s.m
def Sim.mulF (s : Sim) (x y : UInt64) : UInt64 := (x * y) % s.m

/-- shared shape of div / mod: `g x y` is `x / y` or `x % y`, guarded by `y != 0` -/
def Sim.divmod (s : Sim) (g : UInt64 → UInt64 → UInt64) (ir ira irb : Instr)
    (wab pc : UInt64) (wi : Nat) : Except Panic Sim :=
  let next := fun (s : Sim) => s.pushNext wi ((pc + 1) % s.m)
  match ir.md with
  | .a  => if ira.a != 0 then do
              let s ← s.upd wab (fun c => { c with a := g irb.a ira.a }); next s
           else pure (s.terminate wi pc)
  | .b  => if ira.b != 0 then do
              let s ← s.upd wab (fun c => { c with b := g irb.b ira.b }); next s
           else pure (s.terminate wi pc)
  | .ab => if ira.a != 0 then do
              let s ← s.upd wab (fun c => { c with b := g irb.b ira.a }); next s
           else pure (s.terminate wi pc)
  | .ba => if ira.b != 0 then do
              let s ← s.upd wab (fun c => { c with a := g irb.a ira.b }); next s
           else pure (s.terminate wi pc)
  | .f | .i => do
      let s ← (if ira.a != 0 then s.upd wab (fun c => { c with a := g irb.a ira.a }) else pure s)
      let s ← (if ira.b != 0 then s.upd wab (fun c => { c with b := g irb.b ira.b }) else pure s)
      if ira.a == 0 || ira.b == 0 then pure (s.terminate wi pc) else next s
  | .x => do
      let s ← (if ira.a != 0 then s.upd wab (fun c => { c with b := g irb.b ira.a }) else pure s)
      let s ← (if ira.b != 0 then s.upd wab (fun c => { c with a := g irb.a ira.b }) else pure s)
      if ira.a == 0 || ira.b == 0 then pure (s.terminate wi pc) else next s

def Sim.jmz (s : Sim) (ir irb : Instr) (rab pc : UInt64) (wi : Nat) : Except Panic Sim :=
  let z := match ir.md with
    | .a | .ba => irb.a == 0
    | .b | .ab => irb.b == 0
    | .f | .x | .i => irb.a == 0 && irb.b == 0
  if z then s.push wi rab else s.push wi ((pc + 1) % s.m)

def Sim.jmn (s : Sim) (ir irb : Instr) (rab pc : UInt64) (wi : Nat) : Except Panic Sim :=
  let nz := match ir.md with
    | .a | .ba => irb.a != 0
    | .b | .ab => irb.b != 0
    | .f | .x | .i => irb.a != 0 || irb.b != 0
  s.pushNext wi (if nz then rab else (pc + 1) % s.m)

def Sim.djn (s : Sim) (ir irb : Instr) (rab wab pc : UInt64) (wi : Nat) : Except Panic Sim := do
  let (s, nz) ← (match ir.md with
    | .a | .ba => do
        let s ← s.upd wab (decA s.m)
        pure (s, irb.a - 1 != 0)
    | .b | .ab => do
        let s ← s.upd wab (decB s.m)
        pure (s, irb.b - 1 != 0)
    | .f | .x | .i => do
        let s ← s.upd wab (decA s.m)
        let s ← s.upd wab (decB s.m)
        pure (s, irb.b - 1 != 0 || irb.a - 1 != 0))
  s.pushNext wi (if nz then rab else (pc + 1) % s.m)

def Instr.eqI (x y : Instr) : Bool :=
  x.op == y.op && x.md == y.md && x.am == y.am && x.a == y.a && x.bm == y.bm && x.b == y.b

def Sim.skipIf (s : Sim) (c : Bool) (pc : UInt64) (wi : Nat) : Except Panic Sim :=
  s.pushNext wi (if c then (pc + 2) % s.m else (pc + 1) % s.m)

def cmpCond (ir ira irb : Instr) : Bool :=
  match ir.md with
  | .a => ira.a == irb.a
  | .b => ira.b == irb.b
  | .ab => ira.a == irb.b
  | .ba => ira.b == irb.a
  | .f => ira.a == irb.a && ira.b == irb.b
  | .x => ira.a == irb.b && ira.b == irb.a
  | .i => ira.eqI irb

def sneCond (ir ira irb : Instr) : Bool :=
  match ir.md with
  | .a => ira.a != irb.a
  | .b => ira.b != irb.b
  | .ab => ira.a != irb.b
  | .ba => ira.b != irb.a
  | .f => ira.a != irb.a || ira.b != irb.b
  | .x => ira.a != irb.b || ira.b != irb.a
  | .i => ira.op != irb.op || ira.md != irb.md || ira.am != irb.am || ira.a != irb.a ||
          ira.bm != irb.bm || ira.b != irb.b

def sltCond (ir ira irb : Instr) : Bool :=
  match ir.md with
  | .a => ira.a < irb.a
  | .b => ira.b < irb.b
  | .ab => ira.a < irb.b
  | .ba => ira.b < irb.a
  | .f | .i => ira.a < irb.a && ira.b < irb.b
  | .x => ira.a < irb.b && ira.b < irb.a

def Sim.reads (s : Sim) (pc rpa rpb : UInt64) (wi : Nat) : Sim :=
  (s.report (rep .read wi ((pc + rpa) % s.m))).report (rep .read wi ((pc + rpb) % s.m))

/-- `exec(PC, w)` -/
def Sim.exec (s : Sim) (pc : UInt64) (wi : Nat) : Except Panic Sim := do
  if s.m == 0 || s.readLimit == 0 || s.writeLimit == 0 then throw .divZero
  let ir ← s.rd pc
  let (s, rpa, pip) ← s.aOperand pc ir wi
  let ira ← s.rd ((pc + rpa) % s.m)
  let s ← s.aPost ir pip wi
  let (s, rpb, wpb, pip) ← s.bOperand pc ir wi pip
  let irb ← s.rd ((pc + rpb) % s.m)
  let s ← s.bPost ir pip wi
  let wab := (pc + wpb) % s.m
  let rab := (pc + rpa) % s.m
  match ir.op with
  | .dat => pure (s.terminate wi pc)
  | .mov => do let s ← s.mov ir ira wab pc wi; pure (s.report (rep .write wi wab))
  | .add => do let s ← s.arith s.addF ir ira irb wab pc wi; pure (s.report (rep .write wi wab))
  | .sub => do let s ← s.arith s.subF ir ira irb wab pc wi; pure (s.report (rep .write wi wab))
  | .mul => do let s ← s.arith s.mulF ir ira irb wab pc wi; pure (s.report (rep .write wi wab))
  | .div => do let s ← s.divmod (· / ·) ir ira irb wab pc wi; pure (s.report (rep .write wi wab))
  | .mod => do let s ← s.divmod (· % ·) ir ira irb wab pc wi; pure (s.report (rep .write wi wab))
  | .jmp => s.push wi rab
  | .jmz => s.jmz ir irb rab pc wi
  | .jmn => s.jmn ir irb rab pc wi
  | .djn => do let s ← s.djn ir irb rab wab pc wi; pure (s.report (rep .decrement wi wab))
  | .cmp | .seq => do
      let s ← s.skipIf (cmpCond ir ira irb) pc wi; pure (s.reads pc rpa rpb wi)
  | .slt => do
      let s ← s.skipIf (sltCond ir ira irb) pc wi; pure (s.reads pc rpa rpb wi)
  | .sne => do
      let s ← s.skipIf (sneCond ir ira irb) pc wi; pure (s.reads pc rpa rpb wi)
  | .spl => do let s ← s.push wi ((pc + 1) % s.m); s.push wi rab
  | .nop => s.push wi ((pc + 1) % s.m)

/-! ### API -/

def Sim.finished (s : Sim) : Bool :=
  if s.cycleCount >= s.maxCycles || s.living < 1 then true
  else s.warriorCount > 1 && s.living == 1

/-- Go conversion `Address(i)` of an `int`: two's complement wrap-around -/
def intToAddr (i : Int) : UInt64 := UInt64.ofNat (i % 18446744073709551616).toNat

/-- `AddWarrior` (always succeeds; `data.Copy()` is the value copy) -/
def Sim.addWarrior (s : Sim) (d : WarriorData) : Sim :=
  { s with warriors := s.warriors.push { data := d, index := s.warriors.size },
           warriorCount := s.warriorCount + 1 }

/-- `SpawnWarrior(wi, off)`; the Bool is "returned nil". -/
def Sim.spawn (s : Sim) (wi : Int) (off : UInt64) : Except Panic (Sim × Bool) :=
  if wi < 0 || wi >= s.warriorCount then .ok (s, false)
  else if h : wi.toNat < s.warriors.size then
    let w := s.warriors[wi.toNat]
    if w.state == .alive then .ok (s, false)
    else if s.m == 0 then .error .divZero
    else do
      -- startOffset %= s.m
      let off := off % s.m
      -- for i := 0; i < len(code); i++ { s.mem[(off+i)%m] = code[i] }
      let mem ← (List.range w.data.code.size).foldlM (fun (mem : Array Instr) i =>
          let a := ((off + UInt64.ofNat i) % s.m).toNat
          if h : a < mem.size then .ok (mem.set a w.data.code[i]! h) else .error .index) s.mem
      let q ← (PQ.new s.maxProcs).push ((off + intToAddr w.data.start) % s.m)
      let w' := { w with pq := some q, state := .alive }
      let s' := { s with mem := mem, warriors := s.warriors.set wi.toNat w' h, living := s.living + 1 }
      .ok (s'.report { typ := .warriorSpawn, wi := Int.ofNat w.index, addr := off % s.m }, true)
  else .error .index

/-- one iteration of the warrior loop of RunCycle; `none` = keep going, `some n` = early return -/
def Sim.runWarrior (s : Sim) (i : Nat) : Except Panic (Sim × Option Int) :=
  if h : i < s.warriors.size then
    let w := s.warriors[i]
    if w.state == .alive then
      match w.pq with
      | none => .error .nilDeref
      | some q => do
        let (v, q') ← q.pop
        match v with
        | none =>
          -- zombie: alive without tasks
          .ok ({ s with warriors := s.warriors.set i { w with state := .dead } h }, none)
        | some pc =>
          let s := { s with warriors := s.warriors.set i { w with pq := some q' } h }
          let s := s.report { typ := .taskPop, cycle := s.cycleCount.toNat, wi := i, addr := pc }
          let s ← s.exec pc i
          if h2 : i < s.warriors.size then
            let w := s.warriors[i]
            match w.pq with
            | none => .error .nilDeref
            | some q =>
              if q.length == 0 then
                let s := s.report { typ := .warriorTerminate, cycle := s.cycleCount.toNat, wi := i, addr := pc }
                let s := { s with warriors := s.warriors.set i { w with state := .dead } h2,
                                  living := s.living - 1 }
                if s.warriorCount > 1 && s.living == 1 then .ok (s, some s.living)
                else .ok (s, none)
              else .ok (s, none)
          else .error .index
    else .ok (s, none)
  else .error .index

def Sim.runWarriors (s : Sim) : List Nat → Except Panic (Sim × Option Int)
  | [] => .ok (s, none)
  | i :: is => do
    let (s, r) ← s.runWarrior i
    match r with
    | some n => .ok (s, some n)
    | none => s.runWarriors is

/-- `RunCycle()` -/
def Sim.runCycle (s : Sim) : Except Panic (Sim × Int) :=
  if s.finished then .ok (s, 0)
  else do
    let s := if s.warriorIndex == 0 then
               s.report { typ := .cycleStart, cycle := s.cycleCount.toNat } else s
    let n := s.warriorCount.toNat
    let (s, r) ← s.runWarriors ((List.range n).drop s.warriorIndex)
    match r with
    | some k => .ok (s, k)
    | none =>
      let s := s.report { typ := .cycleEnd, cycle := s.cycleCount.toNat }
      .ok ({ s with warriorIndex := 0, cycleCount := s.cycleCount + 1 }, s.living)

/-- `Run()`; fuel bounds the loop (maxCycles - cycleCount + 1 iterations suffice, see
    `Props/C02`); `none` result = Go's nil slice. Running out of fuel is reported as
    a hang. -/
def Sim.runLoop (s : Sim) : Nat → Except Panic (Sim × Bool)
  | 0 => .ok (s, false)
  | fuel + 1 =>
    if s.finished then .ok (s, true)
    else do
      let n := s.warriors.size
      let (s, alive) ← s.runCycle
      if n == 1 && alive == 0 then .ok (s, true)
      else if n > 1 && alive == 1 then .ok (s, true)
      else s.runLoop fuel

def Sim.results (s : Sim) : List Bool :=
  s.warriors.toList.map (fun w => w.state == .alive)

/-- `Reset()` -/
def Sim.reset (s : Sim) : Sim :=
  let s := s.report { typ := .simReset }
  { s with warriors := s.warriors.map (fun w => { w with state := .added }),
           mem := Array.replicate s.m.toNat default,
           cycleCount := 0, living := 0 }

/-- `GetMem(a)` -/
def Sim.getMem (s : Sim) (a : UInt64) : Except Panic Instr :=
  if s.m == 0 then .error .divZero else s.rd (a % s.m)

/-- `GetWarrior(i)` : `none` = nil -/
def Sim.getWarrior (s : Sim) (i : Int) : Except Panic (Option Nat) :=
  if i < 0 || i >= s.warriorCount then .ok none
  else if i.toNat < s.warriors.size then .ok (some i.toNat) else .error .index

/-- `Warrior.Queue()` -/
def Warrior.queue (w : Warrior) : Except Panic (List UInt64) :=
  match w.pq with
  | none => .ok []
  | some q => q.values

/-- `Warrior.NextPC()` : `none` = error return -/
def Warrior.nextPC (w : Warrior) : Except Panic (Option UInt64) :=
  match w.pq with
  | none => .ok none
  | some q => q.next

/-! ## staterecorder.go -/

inductive CoreState
  | empty | executed | written | incremented | decremented | read | terminated
  deriving DecidableEq, Repr, Inhabited

def CoreState.toNat : CoreState → Nat
  | .empty => 0 | .executed => 1 | .written => 2 | .incremented => 3
  | .decremented => 4 | .read => 5 | .terminated => 6

structure Recorder where
  coresize : UInt64
  color : Array Int
  state : Array CoreState
  recordReads : Bool := false
  deriving Repr, Inhabited

def Recorder.new (coresize : UInt64) : Recorder :=
  { coresize, color := Array.replicate coresize.toNat (-1),
    state := Array.replicate coresize.toNat .empty }

def Recorder.set (r : Recorder) (a : UInt64) (st : CoreState) (wi : Int) : Except Panic Recorder :=
  if h : a.toNat < r.color.size ∧ a.toNat < r.state.size then
    .ok { r with color := r.color.set a.toNat wi h.1, state := r.state.set a.toNat st h.2 }
  else .error .index

/-- `(*StateRecorder).Report`; `len` gives `GetWarrior(wi).Length()` for spawn reports
    (`none` = nil warrior ⇒ nil dereference). -/
def Recorder.report (r : Recorder) (len : Int → Option Nat) (rp : Report) : Except Panic Recorder :=
  match rp.typ with
  | .simReset => .ok { Recorder.new r.coresize with recordReads := r.recordReads }
  | .warriorSpawn =>
    match len rp.wi with
    | none => .error .nilDeref
    | some n =>
      if r.coresize == 0 then (if n == 0 then .ok r else .error .divZero)
      else (List.range n).foldlM (fun r i =>
        r.set ((rp.addr + UInt64.ofNat i) % r.coresize) .written rp.wi) r
  | .taskTerminate => r.set rp.addr .terminated rp.wi
  | .taskPop => r.set rp.addr .executed rp.wi
  | .write => r.set rp.addr .written rp.wi
  | .read => if r.recordReads then r.set rp.addr .read rp.wi else .ok r
  | .increment => r.set rp.addr .incremented rp.wi
  | .decrement => r.set rp.addr .decremented rp.wi
  | _ => .ok r

end Gmars
