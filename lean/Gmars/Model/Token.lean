/-
  token.go, plus the `sourceLine` record of parser.go: the data shared by all
  assembler stages. Token values are Go strings (valid UTF-8 once the lexer has
  read them as runes); `strings.ToLower` on them is modelled for ASCII letters
  (program text outside comments is ASCII in the modelled subset, DESIGN.md §3).
-/
import Gmars.Base.GoStr
import Gmars.Model.Load

namespace Gmars

inductive TokType
  | error | text | number | symbol | comma | colon | parenL | parenR | comment | newline
  | invalid | eof
  deriving DecidableEq, Repr, Inhabited

def TokType.toNat : TokType → Nat
  | .error => 0 | .text => 1 | .number => 2 | .symbol => 3 | .comma => 4 | .colon => 5
  | .parenL => 6 | .parenR => 7 | .comment => 8 | .newline => 9 | .invalid => 10 | .eof => 11

def TokType.all : List TokType :=
  [.error, .text, .number, .symbol, .comma, .colon, .parenL, .parenR, .comment, .newline, .invalid, .eof]
def TokType.ofNat? (n : Nat) : Option TokType := TokType.all[n]?

structure Token where
  typ : TokType
  val : String := ""
  deriving DecidableEq, Repr, Inhabited

def lowerStr (s : String) : String := String.ofList (GoStr.toLower s.toList)

/-- `token.IsPseudoOp` -/
def Token.isPseudoOp (t : Token) : Bool :=
  match lowerStr t.val with
  | "end" | "equ" | "org" | "for" | "rof" => true
  | _ => false

/-- `token.IsOp` -/
def Token.isOp (t : Token) : Bool :=
  if t.typ != .text then false
  else if t.val.toList.contains '.' then true
  else if (getOpCode t.val.toList).isSome then true
  else t.isPseudoOp

/-- `token.IsAddressMode` -/
def Token.isAddressMode (t : Token) : Bool :=
  t.typ == .symbol &&
    (t.val == "$" || t.val == "#" || t.val == "@" || t.val == "*" || t.val == "{" || t.val == "<" ||
     t.val == "}" || t.val == ">")

/-- `token.NoOperandsOk` -/
def Token.noOperandsOk (t : Token) : Bool :=
  let l := lowerStr t.val
  l == "end" || l == "rof"

/-- `token.IsExpressionTerm` (the second test of the Go function is unreachable: every
    symbol already satisfied the first one) -/
def Token.isExpressionTerm (t : Token) : Bool :=
  t.typ == .symbol || t.typ == .number || t.typ == .text || t.typ == .parenL || t.typ == .parenR

/-- `token.String()` -/
def Token.str (t : Token) : String :=
  match t.typ with
  | .eof => "EOF"
  | .newline => "newline"
  | _ => t.val

inductive LineType | empty | instruction | pseudoOp | comment
  deriving DecidableEq, Repr, Inhabited

def LineType.toNat : LineType → Nat
  | .empty => 0 | .instruction => 1 | .pseudoOp => 2 | .comment => 3
def LineType.ofNat? : Nat → Option LineType
  | 0 => some .empty | 1 => some .instruction | 2 => some .pseudoOp | 3 => some .comment | _ => none

/-- `sourceLine`; `a`/`b` are `none` for Go's nil slice -/
structure SourceLine where
  line : Int := 0
  codeLine : Int := 0
  typ : LineType := .empty
  labels : List String := []
  op : String := ""
  amode : String := ""
  a : Option (List Token) := none
  bmode : String := ""
  b : Option (List Token) := none
  comment : String := ""
  newlines : Int := 0
  deriving DecidableEq, Repr, Inhabited

/-- metadata gathered by the parser (the WarriorData it returns has no code yet) -/
structure AsmMeta where
  name : String := ""
  author : String := ""
  strategy : String := ""
  deriving DecidableEq, Repr, Inhabited

/-- Outcomes that are neither a value nor a Go error: a panic, or a loop that never ends. -/
inductive Fault
  | panic (p : Panic)
  | hang (site : String)
  deriving DecidableEq, Repr, Inhabited

end Gmars
