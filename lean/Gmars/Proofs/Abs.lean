/-
  Shared vocabulary of the VM proofs: abstraction functions from the model
  (`Model/Sim.lean`) to the reference (`Spec`), and the simulator invariant.
-/
import Gmars.Model.Sim
import Gmars.Spec.Api

namespace Gmars

/-- the core as the reference sees it -/
def Sim.absCore (s : Sim) : Spec.Core := s.mem.toList.map Instr.abs

/-- ring-buffer invariant of `processQueue` -/
structure PQ.Inv (q : PQ) : Prop where
  qsize : q.queue.size = q.size.toNat
  pos   : 0 < q.size.toNat
  len   : q.length.toNat ≤ q.size.toNat
  start : q.start.toNat < q.size.toNat
  end_  : q.end_.toNat = (q.start.toNat + q.length.toNat) % q.size.toNat

/-- the queued program counters, oldest first -/
def PQ.toList (q : PQ) : List UInt64 :=
  (List.range q.length.toNat).map (fun i => q.queue.getD ((q.start.toNat + i) % q.size.toNat) 0)

/-- every instruction field is below the core size -/
def Sim.FieldsOK (s : Sim) : Prop :=
  ∀ i (h : i < s.mem.size), s.mem[i].a < s.m ∧ s.mem[i].b < s.m

/-- per-warrior part of the invariant -/
def Sim.WarriorOK (s : Sim) (i : Nat) (w : Warrior) : Prop :=
  w.index = i ∧
  match w.pq with
  | none => w.state = .added
  | some q => q.Inv ∧ q.size = s.maxProcs ∧ (∀ a ∈ q.toList, a < s.m) ∧
              (w.state = .alive → q.length ≠ 0) ∧ (w.state = .dead → q.length = 0)

def Sim.aliveCount (s : Sim) : Nat := (s.warriors.toList.filter (fun w => w.state == .alive)).length

/-- The simulator invariant (C04): what holds between any two API calls. -/
structure Sim.WF (s : Sim) : Prop where
  size    : s.mem.size = s.m.toNat
  m3      : 3 ≤ s.m.toNat
  rl      : 1 ≤ s.readLimit.toNat
  wl      : 1 ≤ s.writeLimit.toNat
  procs   : 1 ≤ s.maxProcs.toNat
  cycles  : 1 ≤ s.maxCycles.toNat
  fields  : s.FieldsOK
  count   : s.warriorCount = Int.ofNat s.warriors.size
  widx    : s.warriorIndex = 0
  warriors : ∀ i (h : i < s.warriors.size), s.WarriorOK i s.warriors[i]
  living  : s.living = Int.ofNat s.aliveCount
  cycle   : s.cycleCount ≤ s.maxCycles

/-- abstraction of a warrior's queue (empty when never spawned) -/
def Warrior.absQueue (w : Warrior) : List Nat :=
  match w.pq with
  | none => []
  | some q => q.toList.map (·.toNat)

end Gmars

namespace Gmars

/-- every instruction of every added warrior has its fields below the core size
    (what assembler and loader guarantee for the configured core size) -/
def Sim.CodeOK (s : Sim) : Prop :=
  ∀ i (h : i < s.warriors.size), ∀ c ∈ s.warriors[i].data.code.toList, c.a < s.m ∧ c.b < s.m

/-- operations of the public simulator API that change state -/
inductive ApiOp
  | add (d : WarriorData)
  | spawn (wi : Int) (off : UInt64)
  | runCycle
  | run
  | reset
  deriving Repr

/-- apply one API operation (the value results are dropped; `Run` uses the fuel that
    `run_terminates` shows sufficient) -/
def Sim.applyOp (s : Sim) : ApiOp → Except Panic Sim
  | .add d => .ok (s.addWarrior d)
  | .spawn wi off => (s.spawn wi off).map (·.1)
  | .runCycle => s.runCycle.map (·.1)
  | .run => (s.runLoop (s.maxCycles.toNat + 2)).map (·.1)
  | .reset => .ok s.reset

def Sim.applyOps (s : Sim) : List ApiOp → Except Panic Sim
  | [] => .ok s
  | op :: ops => do let s' ← s.applyOp op; s'.applyOps ops

end Gmars
