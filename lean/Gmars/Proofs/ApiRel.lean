/-
  C13: every state-changing API operation of the model preserves the simulation relation
  `Rel` with the reference state machine `Spec.Api`; any sequence of API calls refines the
  reference (`api_refines`).
-/
import Gmars.Proofs.Sched
import Gmars.Proofs.ApiWF

namespace Gmars
open Spec

/-! ## vocabulary -/

/-- code and start offset of a reference warrior -/
def Spec.SW.sig (w : SW) : List SInstr × Nat := (w.code, w.start)

/-- the warriors that have been added to the reference simulator -/
def Spec.Api.sig (a : Api) : List (List SInstr × Nat) := a.ws.map SW.sig

/-- code and start offset of a model warrior, as the reference sees them -/
def WarriorData.sig (d : WarriorData) : List SInstr × Nat :=
  (d.code.toList.map Instr.abs, d.start.toNat)

def Sim.sig (s : Sim) : List (List SInstr × Nat) :=
  (s.warriors.map (·.data)).toList.map WarriorData.sig

/-- `Rel` does not mention the warriors' code and start offsets (the scheduler never looks at
    them); `SpawnWarrior` does, so the reference warriors must carry the same data -/
def DataRel (s : Sim) (a : Api) : Prop := a.sig = s.sig

theorem DataRel.get {s : Sim} {a : Api} (h : DataRel s a) (i : Nat) (hi : i < s.warriors.size)
    (hi' : i < a.ws.length) :
    a.ws[i].code = s.warriors[i].data.code.toList.map Instr.abs ∧
      a.ws[i].start = s.warriors[i].data.start.toNat := by
  have h1 := congrArg (fun l => l[i]?) h
  simp only [Api.sig, Sim.sig, List.getElem?_map, Array.toList_map, List.map_map,
    List.getElem?_eq_getElem hi', Array.getElem?_toList, Array.getElem?_eq_getElem hi,
    Option.map_some, Option.some.injEq, Function.comp] at h1
  exact ⟨congrArg Prod.fst h1, congrArg Prod.snd h1⟩

/-- what makes the `uint64` arithmetic of `SpawnWarrior` agree with the reference -/
def WarriorData.StartOK (d : WarriorData) : Prop :=
  0 ≤ d.start ∧ d.start < 2 ^ 63 ∧ d.code.size < 2 ^ 63

/-- every added warrior has a start offset that is not negative, and start offset and code
    length below 2^63 (so that `off % m + Address(start)` and `off % m + i` do not wrap around
    2^64 for a core of at most 2^63 cells; `SpawnWarrior` reduces the offset modulo the core
    size first, so nothing is asked of the offset) -/
def StartsOK (s : Sim) : Prop := ∀ d ∈ (s.warriors.map (·.data)).toList, d.StartOK

theorem StartsOK.get {s : Sim} (h : StartsOK s) (i : Nat) (hi : i < s.warriors.size) :
    s.warriors[i].data.StartOK := by
  apply h
  rw [Array.toList_map, List.mem_map]
  exact ⟨s.warriors[i], Array.getElem_mem_toList hi, rfl⟩

theorem Keep.sig {s s' : Sim} (h : Keep s s') : s'.sig = s.sig := by
  unfold Sim.sig; rw [h.data]

theorem Keep.dataRel {s s' : Sim} {a a' : Api} (h : Keep s s') (ha : a'.sig = a.sig)
    (hd : DataRel s a) : DataRel s' a' := by
  unfold DataRel; rw [ha, h.sig]; exact hd

theorem Keep.startsOK {s s' : Sim} (h : Keep s s') (hs : StartsOK s) : StartsOK s' := by
  unfold StartsOK; rw [h.data]; exact hs

theorem abs_default : Instr.abs default = (default : SInstr) := rfl

theorem absCore_replicate (n : Nat) :
    (Array.replicate n (default : Instr)).toList.map Instr.abs = List.replicate n default := by
  simp only [Array.toList_replicate, List.map_replicate, abs_default]

/-! ## 1. `NewSimulator` -/

theorem new_rel {c : Config} {s : Sim} (h : Sim.new c = some s) :
    Rel s (Api.new c.coreSize.toNat (clampLimit c.readLimit c.coreSize).toNat
      (clampLimit c.writeLimit c.coreSize).toNat c.processes.toNat c.cycles.toNat) := by
  unfold Sim.new at h
  split at h
  · simp only [Option.some.injEq] at h
    subst h
    refine ⟨rfl, rfl, rfl, rfl, rfl, ?_, rfl, rfl, ?_⟩
    · simp only [Api.new, Sim.absCore, absCore_replicate]
    · intro i hi
      simp at hi
  · cases h

theorem new_dataRel {c : Config} {s : Sim} (h : Sim.new c = some s) (r w : Nat) :
    DataRel s (Api.new c.coreSize.toNat r w c.processes.toNat c.cycles.toNat) ∧ StartsOK s := by
  unfold Sim.new at h
  split at h
  · simp only [Option.some.injEq] at h
    subst h
    refine ⟨by simp [DataRel, Api.sig, Sim.sig, Api.new], ?_⟩
    intro d hd
    simp at hd
  · cases h

/-! ## 2. `AddWarrior` -/

theorem addWarrior_rel {s : Sim} {a : Api} {d : WarriorData} (h : Rel s a) :
    Rel (s.addWarrior d) (a.add (d.code.toList.map Instr.abs) d.start.toNat) := by
  refine ⟨h.M, h.R, h.W, h.P, h.C, h.core, h.cycles, ?_, ?_⟩
  · simp only [Api.add, Sim.addWarrior, List.length_append, List.length_cons, List.length_nil,
      Array.size_push, h.len]
  · intro i hi hi'
    simp only [Sim.addWarrior, Array.size_push] at hi
    simp only [Api.add, Sim.addWarrior, Array.getElem_push, List.getElem_append]
    by_cases h1 : i < s.warriors.size
    · have h2 : i < a.ws.length := by rw [h.len]; exact h1
      simp only [h1, h2, dite_true]
      exact h.ws i h1 h2
    · have h2 : ¬ i < a.ws.length := by rw [h.len]; exact h1
      simp only [h1, h2, dite_false, List.getElem_singleton]
      exact ⟨rfl, fun hne => absurd rfl hne⟩

theorem addWarrior_dataRel {s : Sim} {a : Api} {d : WarriorData} (h : DataRel s a) :
    DataRel (s.addWarrior d) (a.add (d.code.toList.map Instr.abs) d.start.toNat) := by
  unfold DataRel at h ⊢
  simp only [Api.sig, Api.add, Sim.sig, Sim.addWarrior, List.map_append, List.map_cons,
    List.map_nil, Array.map_push, Array.toList_push]
  rw [← Api.sig, h]
  rfl

theorem addWarrior_startsOK {s : Sim} {d : WarriorData} (h : StartsOK s) (hd : d.StartOK) :
    StartsOK (s.addWarrior d) := by
  intro d' hd'
  simp only [Sim.addWarrior, Array.map_push, Array.toList_push, List.mem_append,
    List.mem_singleton] at hd'
  rcases hd' with hd' | hd'
  · exact h d' hd'
  · rw [hd']; exact hd

/-! ## 4. `Reset` -/

theorem reset_rel {s : Sim} {a : Api} (h : Rel s a) : Rel s.reset a.reset := by
  refine ⟨h.M, h.R, h.W, h.P, h.C, ?_, rfl, ?_, ?_⟩
  · simp only [Api.reset, Sim.reset, Sim.report, Sim.absCore, absCore_replicate, h.M]
  · simp only [Api.reset, Sim.reset, Sim.report, List.length_map, Array.size_map, h.len]
  · intro i hi hi'
    simp only [Api.reset, Sim.reset, Sim.report, List.getElem_map, Array.getElem_map]
    exact ⟨rfl, fun hne => absurd rfl hne⟩

theorem reset_keep (s : Sim) : Keep s s.reset := by
  refine ⟨rfl, rfl, ?_⟩
  simp only [Sim.reset, Sim.report, Array.map_map]
  rfl

theorem Spec.Api.reset_sig (a : Api) : a.reset.sig = a.sig := by
  simp only [Api.sig, Api.reset, List.map_map]
  rfl

theorem reset_dataRel {s : Sim} {a : Api} (h : DataRel s a) : DataRel s.reset a.reset :=
  (reset_keep s).dataRel a.reset_sig h

theorem reset_startsOK {s : Sim} (h : StartsOK s) : StartsOK s.reset :=
  (reset_keep s).startsOK h

/-! ## 3. `SpawnWarrior` -/

theorem UInt64.toNat_add_ofNat_mod (off m : UInt64) (i : Nat) (h : off.toNat + i < 2 ^ 64) :
    ((off + UInt64.ofNat i) % m).toNat = (off.toNat + i) % m.toNat := by
  have hi : (UInt64.ofNat i).toNat = i := UInt64.toNat_ofNat_of_lt' (by show i < 2 ^ 64; omega)
  rw [UInt64.toNat_mod, UInt64.toNat_add, hi, Nat.mod_eq_of_lt h]

theorem intToAddr_toNat (i : Int) (h0 : 0 ≤ i) (h1 : i < 2 ^ 64) : (intToAddr i).toNat = i.toNat := by
  unfold intToAddr
  rw [Int.emod_eq_of_lt h0 (by simpa using h1)]
  exact UInt64.toNat_ofNat_of_lt' (by show i.toNat < 2 ^ 64; omega)

/-- the loop that copies the warrior's code into the core computes `loadAt` -/
theorem spawn_load (m off : UInt64) (code : Array Instr) (hm : 0 < m.toNat) :
    ∀ (l : List Nat) (mem : Array Instr),
      (∀ i ∈ l, i < code.size ∧ off.toNat + i < 2 ^ 64) → mem.size = m.toNat →
      ∃ mem', l.foldlM (fun (mem : Array Instr) i =>
          let a := ((off + UInt64.ofNat i) % m).toNat
          if h : a < mem.size then Except.ok (mem.set a code[i]! h)
          else Except.error Panic.index) mem = .ok mem' ∧ mem'.size = m.toNat ∧
        mem'.toList.map Instr.abs =
          l.foldl (fun c j => c.set ((off.toNat + j) % m.toNat)
            ((code.toList.map Instr.abs).getD j default)) (mem.toList.map Instr.abs)
  | [], mem, _, hs => ⟨mem, rfl, hs, rfl⟩
  | i :: l, mem, hl, hs => by
    obtain ⟨hi, hw⟩ := hl i List.mem_cons_self
    have ha : ((off + UInt64.ofNat i) % m).toNat < mem.size := by
      rw [hs, UInt64.toNat_mod]; exact Nat.mod_lt _ hm
    rw [List.foldlM_cons]
    dsimp only
    rw [dif_pos ha]
    obtain ⟨mem', h1, h2, h3⟩ := spawn_load m off code hm l
      (mem.set ((off + UInt64.ofNat i) % m).toNat code[i]! ha)
      (fun j hj => hl j (List.mem_cons_of_mem _ hj)) (by rw [Array.size_set]; exact hs)
    refine ⟨mem', h1, h2, ?_⟩
    rw [h3, List.foldl_cons]
    congr 1
    rw [Array.toList_set, List.map_set, UInt64.toNat_add_ofNat_mod off m i hw]
    congr 1
    rw [getElem!_pos code i hi, List.getD_eq_getElem?_getD, List.getElem?_map,
      Array.getElem?_toList, Array.getElem?_eq_getElem hi]
    rfl

/-- the model state after an accepted `SpawnWarrior` -/
def Sim.spawned (s : Sim) (i : Nat) (h : i < s.warriors.size) (mem : Array Instr) (q : PQ)
    (off : UInt64) : Sim :=
  ({ s with mem := mem,
            warriors := s.warriors.set i { s.warriors[i] with pq := some q, state := .alive } h,
            living := s.living + 1 } : Sim).report
    { typ := .warriorSpawn, wi := Int.ofNat s.warriors[i].index, addr := off % s.m }

/-- `o` is the offset reduced modulo the core size (`startOffset %= s.m`) -/
theorem spawn_eq (s : Sim) (wi : Int) (off o : UInt64) (ho : off % s.m = o) (h0 : 0 ≤ wi)
    (hc : wi < s.warriorCount)
    (hlt : wi.toNat < s.warriors.size) (hst : s.warriors[wi.toNat].state ≠ .alive)
    (hm : s.m ≠ 0) (mem : Array Instr) (q : PQ)
    (hmem : (List.range s.warriors[wi.toNat].data.code.size).foldlM (fun (mem : Array Instr) i =>
          let a := ((o + UInt64.ofNat i) % s.m).toNat
          if h : a < mem.size then Except.ok (mem.set a s.warriors[wi.toNat].data.code[i]! h)
          else Except.error Panic.index) s.mem = .ok mem)
    (hq : (PQ.new s.maxProcs).push ((o + intToAddr s.warriors[wi.toNat].data.start) % s.m)
      = .ok q) :
    s.spawn wi off = .ok (s.spawned wi.toNat hlt mem q o, true) := by
  subst ho
  unfold Sim.spawn
  have hbad : (decide (wi < 0) || decide (wi ≥ s.warriorCount)) = false := by
    simp only [Bool.or_eq_false_iff, decide_eq_false_iff_not]
    omega
  have halive : (s.warriors[wi.toNat].state == WState.alive) = false := by simpa using hst
  have hm0 : (s.m == 0) = false := by simpa using hm
  rw [hbad]
  simp only [Bool.false_eq_true, if_false, dif_pos hlt, halive, hm0]
  dsimp only at hmem
  simp only [hmem, hq, bind, Except.bind]
  rfl

theorem spawn_reject_model (s : Sim) (wi : Int) (off : UInt64)
    (h : wi < 0 ∨ wi ≥ s.warriorCount ∨
      ∃ hlt : wi.toNat < s.warriors.size, s.warriors[wi.toNat].state = .alive) :
    s.spawn wi off = .ok (s, false) := by
  unfold Sim.spawn
  by_cases hbad : (decide (wi < 0) || decide (wi ≥ s.warriorCount)) = true
  · rw [if_pos hbad]
  · rw [if_neg hbad]
    simp only [Bool.or_eq_true, decide_eq_true_eq, not_or] at hbad
    rcases h with h | h | ⟨hlt, h⟩
    · exact absurd h hbad.1
    · exact absurd h hbad.2
    · rw [dif_pos hlt]
      simp only [h, beq_self_eq_true, if_true]

theorem Spec.Api.spawn_eq (a : Api) (wi : Int) (off : Nat) (h0 : 0 ≤ wi) (w : SW)
    (hw : a.ws[wi.toNat]? = some w) (hst : w.st ≠ .alive) :
    a.spawn wi off = some { a with
      core := loadAt a.M a.core off w.code,
      ws := a.ws.set wi.toNat { w with st := .alive, q := enqueue a.P [] [(off + w.start) % a.M],
                                       stale := false, spawned := true } } := by
  unfold Api.spawn
  have h1 : ¬ wi < 0 := by omega
  have h2 : (w.st == WSt.alive) = false := by simpa using hst
  simp only [h1, if_false, hw, h2, Bool.false_eq_true]

theorem Spec.Api.spawn_reject (a : Api) (wi : Int) (off : Nat)
    (h : wi < 0 ∨ a.ws.length ≤ wi.toNat ∨
      ∃ hlt : wi.toNat < a.ws.length, a.ws[wi.toNat].st = .alive) :
    a.spawn wi off = none := by
  unfold Api.spawn
  rcases h with h | h | ⟨hlt, h⟩
  · simp only [h, if_true]
  · split
    · rfl
    · rw [List.getElem?_eq_none h]
  · split
    · rfl
    · rw [List.getElem?_eq_getElem hlt]
      simp only [h, beq_self_eq_true, if_true]

theorem Spec.Api.spawn_sig (a a' : Api) (wi : Int) (off : Nat) (h : a.spawn wi off = some a') :
    a'.M = a.M ∧ a'.R = a.R ∧ a'.W = a.W ∧ a'.P = a.P ∧ a'.C = a.C ∧ a'.sig = a.sig := by
  unfold Api.spawn at h
  split at h
  · cases h
  · split at h
    · cases h
    · rename_i w hw
      split at h
      · cases h
      · simp only [Option.some.injEq] at h
        subst h
        refine ⟨rfl, rfl, rfl, rfl, rfl, ?_⟩
        simp only [Api.sig, List.map_set]
        obtain ⟨hlt, hget⟩ := List.getElem?_eq_some_iff.mp hw
        apply List.ext_getElem
        · simp
        · intro i h1 h2
          simp only [List.getElem_set, List.getElem_map]
          split
          · rename_i heq; subst heq; rw [hget]; rfl
          · rfl

/-- the reference loads at the offset modulo the core size -/
theorem Spec.loadAt_mod (M : Nat) (c : Core) (off : Nat) (code : List SInstr) :
    loadAt M c (off % M) code = loadAt M c off code := by
  unfold loadAt
  simp only [Nat.mod_add_mod]

/-- **the reference's `SpawnWarrior` depends only on the offset modulo the core size** -/
theorem Spec.Api.spawn_mod (a : Api) (wi : Int) (off : Nat) :
    a.spawn wi (off % a.M) = a.spawn wi off := by
  unfold Api.spawn
  simp only [Spec.loadAt_mod, Nat.mod_add_mod]

theorem enqueue_single (P v : Nat) (hP : 1 ≤ P) : enqueue P [] [v] = [v] := by
  simp only [enqueue, List.foldl_cons, List.foldl_nil, List.length_nil, List.nil_append]
  rw [if_pos (by omega)]

/-- the hypotheses under which `SpawnWarrior` is accepted and computes without wrap-around
    (the sums are taken with the offset reduced modulo the core size, as `SpawnWarrior` does) -/
structure SpawnPre (s : Sim) (wi : Int) (off : UInt64) : Prop where
  nonneg : 0 ≤ wi
  lt     : wi.toNat < s.warriors.size
  state  : ∀ h : wi.toNat < s.warriors.size, s.warriors[wi.toNat].state ≠ .alive
  start0 : ∀ h : wi.toNat < s.warriors.size, 0 ≤ s.warriors[wi.toNat].data.start
  start  : ∀ h : wi.toNat < s.warriors.size,
            (off % s.m).toNat + s.warriors[wi.toNat].data.start.toNat < 2 ^ 64
  code   : ∀ h : wi.toNat < s.warriors.size,
            (off % s.m).toNat + s.warriors[wi.toNat].data.code.size ≤ 2 ^ 64

/-- an accepted `SpawnWarrior`: the model and the reference accept, and the states stay
    related -/
theorem spawn_accept {s : Sim} {a : Api} {wi : Int} {off : UInt64} (hwf : s.WF) (hr : Rel s a)
    (hd : DataRel s a) (hp : SpawnPre s wi off) :
    ∃ s' a', s.spawn wi off = .ok (s', true) ∧ a.spawn wi off.toNat = some a' ∧ Rel s' a' := by
  obtain ⟨h0, hlt, hst, hs0, hs1, hcd⟩ := hp
  have hst := hst hlt; have hs0 := hs0 hlt; have hs1 := hs1 hlt; have hcd := hcd hlt
  have hmpos : 0 < s.m.toNat := by have := hwf.m3; omega
  have hm0 : s.m ≠ 0 := by
    intro h; rw [h] at hmpos; simp at hmpos
  have hlt' : wi.toNat < a.ws.length := by rw [hr.len]; exact hlt
  have hcount : wi < s.warriorCount := by
    rw [hwf.count]
    show wi < (s.warriors.size : Int)
    omega
  -- the offset is reduced first
  have ho : (off % s.m).toNat = off.toNat % a.M := by rw [UInt64.toNat_mod, hr.M]
  obtain ⟨o, hoo⟩ : ∃ o, off % s.m = o := ⟨_, rfl⟩
  rw [hoo] at hs1 hcd ho
  have hmodel := fun mem q => spawn_eq s wi off o hoo h0 hcount hlt hst hm0 mem q
  -- the code is loaded
  obtain ⟨mem, hmem, hmsz, hmabs⟩ := spawn_load s.m o s.warriors[wi.toNat].data.code hmpos
    (List.range s.warriors[wi.toNat].data.code.size) s.mem
    (fun i hi => by rw [List.mem_range] at hi; exact ⟨hi, by omega⟩) hwf.size
  -- the fresh queue
  obtain ⟨hinv, hnil, hsz⟩ := PQ.new_inv s.maxProcs (by have := hwf.procs; omega)
  obtain ⟨q, hpush, _, _, hql⟩ := PQ.push_ok (PQ.new s.maxProcs)
    ((o + intToAddr s.warriors[wi.toNat].data.start) % s.m) hinv
  rw [hnil, hsz, if_pos (by simp only [List.length_nil]; have := hwf.procs; omega),
    List.nil_append] at hql
  -- the reference
  have haw : a.ws[wi.toNat]? = some a.ws[wi.toNat] := List.getElem?_eq_getElem hlt'
  obtain ⟨hast, _⟩ := hr.ws wi.toNat hlt hlt'
  obtain ⟨hcode, hstart⟩ := hd.get wi.toNat hlt hlt'
  have hast' : a.ws[wi.toNat].st ≠ .alive := by
    rw [hast]
    intro h
    apply hst
    cases hs : s.warriors[wi.toNat].state <;> rw [hs] at h <;> first | rfl | cases h
  have hspec := Spec.Api.spawn_eq a wi o.toNat h0 _ haw hast'
  rw [ho, Spec.Api.spawn_mod] at hspec
  rw [← ho] at hspec
  refine ⟨_, _, hmodel mem q hmem hpush, hspec, ?_⟩
  have hsame : Same s (s.spawned wi.toNat hlt mem q o) :=
    ⟨rfl, rfl, rfl, rfl, rfl, by simp [Sim.spawned, Sim.report], rfl, rfl, rfl⟩
  refine hr.update hsame wi.toNat _ ?_ ?_
    { s.warriors[wi.toNat] with pq := some q, state := .alive } ?_ _ rfl ?_
  · show mem.toList.map Instr.abs = _
    rw [hmabs]
    unfold loadAt
    rw [hr.M, hr.core, hcode, List.length_map, Array.length_toList]
    rfl
  · intro j hj
    simp only [Sim.spawned, Sim.report]
    exact Array.getElem?_set_ne hlt (Ne.symm hj)
  · simp only [Sim.spawned, Sim.report]
    exact Array.getElem?_set_self hlt
  · show enqueue a.P [] [(o.toNat + a.ws[wi.toNat].start) % a.M] = q.toList.map (·.toNat)
    rw [enqueue_single _ _ (by rw [hr.P]; exact hwf.procs), hql, hstart, hr.M]
    simp only [List.map_cons, List.map_nil, List.cons.injEq, and_true]
    rw [UInt64.toNat_mod, UInt64.toNat_add, intToAddr_toNat _ hs0 (by omega),
      Nat.mod_eq_of_lt hs1]

/-- a rejected `SpawnWarrior`: both sides reject, nothing changes -/
theorem spawn_reject {s : Sim} {a : Api} {wi : Int} {off : UInt64} (hwf : s.WF) (hr : Rel s a)
    (h : wi < 0 ∨ s.warriors.size ≤ wi.toNat ∨
      ∃ hlt : wi.toNat < s.warriors.size, s.warriors[wi.toNat].state = .alive) :
    s.spawn wi off = .ok (s, false) ∧ a.spawn wi off.toNat = none := by
  rcases h with h | h | ⟨hlt, h⟩
  · exact ⟨spawn_reject_model s wi off (Or.inl h), Spec.Api.spawn_reject a wi _ (Or.inl h)⟩
  · by_cases hneg : wi < 0
    · exact ⟨spawn_reject_model s wi off (Or.inl hneg),
        Spec.Api.spawn_reject a wi _ (Or.inl hneg)⟩
    · refine ⟨spawn_reject_model s wi off (Or.inr (Or.inl ?_)),
        Spec.Api.spawn_reject a wi _ (Or.inr (Or.inl (by rw [hr.len]; exact h)))⟩
      rw [hwf.count]
      show wi ≥ (s.warriors.size : Int)
      omega
  · have hlt' : wi.toNat < a.ws.length := by rw [hr.len]; exact hlt
    refine ⟨spawn_reject_model s wi off (Or.inr (Or.inr ⟨hlt, h⟩)),
      Spec.Api.spawn_reject a wi _ (Or.inr (Or.inr ⟨hlt', ?_⟩))⟩
    rw [(hr.ws wi.toNat hlt hlt').1, h]
    rfl

/-- the case distinction of `SpawnWarrior` -/
theorem spawn_cases {s : Sim} (hs : StartsOK s) (wi : Int) (off : UInt64)
    (hm0 : 0 < s.m.toNat) (hm : s.m.toNat ≤ 2 ^ 63) :
    (wi < 0 ∨ s.warriors.size ≤ wi.toNat ∨
      ∃ hlt : wi.toNat < s.warriors.size, s.warriors[wi.toNat].state = .alive) ∨
    SpawnPre s wi off := by
  by_cases h0 : wi < 0
  · exact Or.inl (Or.inl h0)
  by_cases h1 : s.warriors.size ≤ wi.toNat
  · exact Or.inl (Or.inr (Or.inl h1))
  have hlt : wi.toNat < s.warriors.size := by omega
  by_cases h2 : s.warriors[wi.toNat].state = .alive
  · exact Or.inl (Or.inr (Or.inr ⟨hlt, h2⟩))
  obtain ⟨hs0, hs1, hs2⟩ := hs.get wi.toNat hlt
  have hoff : (off % s.m).toNat < 2 ^ 63 := by
    rw [UInt64.toNat_mod]
    exact Nat.lt_of_lt_of_le (Nat.mod_lt _ hm0) hm
  refine Or.inr ⟨by omega, hlt, fun _ => h2, fun _ => hs0, fun _ => ?_, fun _ => ?_⟩
  · have : s.warriors[wi.toNat].data.start.toNat < 2 ^ 63 := by omega
    omega
  · omega

/-- **`SpawnWarrior`.** The model accepts the call exactly when the reference accepts it, and
    then the states stay related; a rejected call leaves the state unchanged. For EVERY offset
    (`SpawnWarrior` reduces it modulo the core size first); the core has at most 2^63 cells. -/
theorem spawn_rel {s : Sim} {a : Api} {wi : Int} {off : UInt64} (hwf : s.WF) (hr : Rel s a)
    (hd : DataRel s a) (hs : StartsOK s) (hm : s.m.toNat ≤ 2 ^ 63) :
    match s.spawn wi off, a.spawn wi off.toNat with
    | .ok (s', true), some a' => Rel s' a'
    | .ok (s', false), none => s' = s
    | _, _ => False := by
  rcases spawn_cases hs wi off (by have := hwf.m3; omega) hm with h | h
  · obtain ⟨h1, h2⟩ := spawn_reject (off := off) hwf hr h
    rw [h1, h2]
  · obtain ⟨s', a', h1, h2, h3⟩ := spawn_accept hwf hr hd h
    rw [h1, h2]
    exact h3

/-! ## the reference scheduler does not touch configuration, code and start offsets -/

/-- same configuration and the same added warriors -/
structure Spec.Api.SameSig (a a' : Api) : Prop where
  M : a'.M = a.M
  R : a'.R = a.R
  W : a'.W = a.W
  P : a'.P = a.P
  C : a'.C = a.C
  sig : a'.sig = a.sig

theorem Spec.Api.SameSig.refl (a : Api) : SameSig a a := ⟨rfl, rfl, rfl, rfl, rfl, rfl⟩

theorem Spec.Api.SameSig.trans {a a' a'' : Api} (h : SameSig a a') (h' : SameSig a' a'') :
    SameSig a a'' :=
  ⟨h'.M.trans h.M, h'.R.trans h.R, h'.W.trans h.W, h'.P.trans h.P, h'.C.trans h.C,
   h'.sig.trans h.sig⟩

theorem sig_set (ws : List SW) (i : Nat) (w w' : SW) (hw : ws[i]? = some w)
    (h : w'.sig = w.sig) : (ws.set i w').map SW.sig = ws.map SW.sig := by
  obtain ⟨hlt, hget⟩ := List.getElem?_eq_some_iff.mp hw
  apply List.ext_getElem
  · simp
  · intro j h1 h2
    simp only [List.getElem_set, List.getElem_map]
    split
    · rename_i heq; subst heq; rw [hget]; exact h
    · rfl

theorem Spec.Api.turn_sameSig (a : Api) (i : Nat) : SameSig a (a.turn i).1 := by
  unfold Api.turn
  split
  · exact SameSig.refl a
  · rename_i w hw
    split
    · exact SameSig.refl a
    · split
      · exact ⟨rfl, rfl, rfl, rfl, rfl, sig_set a.ws i w _ hw rfl⟩
      · dsimp only
        split
        · exact ⟨rfl, rfl, rfl, rfl, rfl, sig_set a.ws i w _ hw rfl⟩
        · exact ⟨rfl, rfl, rfl, rfl, rfl, sig_set a.ws i w _ hw rfl⟩

theorem Spec.Api.turns_sameSig (a : Api) (is : List Nat) : SameSig a (a.turns is).1 := by
  induction is generalizing a with
  | nil => exact SameSig.refl a
  | cons i is ih =>
    rw [Api.turns_cons_fst]
    split
    · exact a.turn_sameSig i
    · exact (a.turn_sameSig i).trans (ih _)

theorem Spec.Api.cycle_sameSig (a : Api) : SameSig a a.cycle.1 := by
  unfold Api.cycle
  split
  · exact SameSig.refl a
  · have h := a.turns_sameSig (List.range a.ws.length)
    dsimp only
    split
    · exact h
    · exact ⟨h.M, h.R, h.W, h.P, h.C, h.sig⟩

theorem Spec.Api.run_sameSig (a : Api) (k : Nat) : SameSig a (a.run k).1 := by
  induction k generalizing a with
  | zero => exact SameSig.refl a
  | succ k ih =>
    by_cases hf : a.finished = true
    · rw [Api.run_of_finished a _ hf]; exact SameSig.refl a
    · rw [Api.run_succ a k hf]
      exact a.cycle_sameSig.trans (ih _)

/-! ## `Reset` gives a simulator indistinguishable from a fresh one -/

/-- the reference state of a freshly created simulator to which warriors with the given code
    and start offsets have been added (none spawned, no cycle run, empty core) -/
def Spec.Api.freshWith (M R W P C : Nat) (sigs : List (List SInstr × Nat)) : Api :=
  sigs.foldl (fun b w => b.add w.1 w.2) (Api.new M R W P C)

/-- a fresh reference simulator with the configuration and the warriors of `a` -/
def Spec.Api.fresh (a : Api) : Api := Api.freshWith a.M a.R a.W a.P a.C a.sig

/-- forget the bookkeeping of a reference warrior that only matters once it has been spawned:
    the contents of its (stale) queue and the flags `stale`, `spawned` -/
def Spec.SW.erase (w : SW) : SW := { w with q := [], stale := false, spawned := false }

def Spec.Api.erase (a : Api) : Api := { a with ws := a.ws.map SW.erase }

theorem Spec.Api.foldl_add (sigs : List (List SInstr × Nat)) (b : Api) :
    sigs.foldl (fun b w => b.add w.1 w.2) b =
      { b with ws := b.ws ++ sigs.map (fun w => { code := w.1, start := w.2 }) } := by
  induction sigs generalizing b with
  | nil => simp
  | cons x xs ih =>
    rw [List.foldl_cons, ih]
    simp only [Api.add, List.map_cons, List.append_assoc, List.cons_append, List.nil_append]

theorem Spec.Api.freshWith_eq (M R W P C : Nat) (sigs : List (List SInstr × Nat)) :
    Api.freshWith M R W P C sigs =
      { M, R, W, P, C, core := List.replicate M default,
        ws := sigs.map (fun w => { code := w.1, start := w.2 }) } := by
  unfold Api.freshWith
  rw [Api.foldl_add]
  simp only [Api.new, List.nil_append]

/-- on the reference side, `Reset` differs from a fresh simulator with the same warriors added
    only in the erased bookkeeping -/
theorem Spec.Api.reset_erase (a : Api) : a.reset.erase = a.fresh := by
  unfold Api.fresh
  rw [Api.freshWith_eq]
  simp only [Api.erase, Api.reset, Api.sig, List.map_map]
  rfl

theorem Sim.sig_length (s : Sim) : s.sig.length = s.warriors.size := by
  simp [Sim.sig]

/-- the model after `Reset` is related to the reference state of a fresh simulator to which the
    same warriors have been added -/
theorem reset_rel_fresh (s : Sim) :
    Rel s.reset (Api.freshWith s.m.toNat s.readLimit.toNat s.writeLimit.toNat s.maxProcs.toNat
      s.maxCycles.toNat s.sig) := by
  rw [Api.freshWith_eq]
  refine ⟨rfl, rfl, rfl, rfl, rfl, ?_, rfl, ?_, ?_⟩
  · simp only [Sim.reset, Sim.report, Sim.absCore, absCore_replicate]
  · simp only [List.length_map, Sim.sig_length, Sim.reset, Sim.report, Array.size_map]
  · intro i hi hi'
    simp only [Sim.reset, Sim.report, List.getElem_map, Array.getElem_map]
    exact ⟨rfl, fun hne => absurd rfl hne⟩

theorem freshWith_sig (M R W P C : Nat) (sigs : List (List SInstr × Nat)) :
    (Api.freshWith M R W P C sigs).sig = sigs := by
  rw [Api.freshWith_eq]
  simp only [Api.sig, List.map_map]
  conv => rhs; rw [← List.map_id sigs]
  rfl

/-- **`Reset` is as good as a new simulator.** If `s` is related to `a`, then `s.reset` is
    related to `a0`, the reference state of a FRESH simulator (`Api.new` with the same
    configuration) to which the same warriors have been added, none spawned; and `a0` is the
    reference's own `a.reset` with the queue contents of the (all `added`) warriors and the
    flags `stale`/`spawned` erased. -/
theorem reset_fresh {s : Sim} {a : Api} (h : Rel s a) (hd : DataRel s a) :
    ∃ a0, a0 = Api.freshWith a.M a.R a.W a.P a.C a.sig ∧ Rel s.reset a0 ∧ DataRel s.reset a0 ∧
      a.reset.erase = a0 := by
  refine ⟨_, rfl, ?_, ?_, a.reset_erase⟩
  · rw [h.M, h.R, h.W, h.P, h.C, hd]
    exact reset_rel_fresh s
  · unfold DataRel
    rw [freshWith_sig, (reset_keep s).sig]
    exact hd

/-! ## 5. every sequence of API calls -/

/-- the documented state machine: what each API call does to the reference state (a rejected
    `SpawnWarrior` leaves it unchanged) -/
def Spec.Api.applyOp (a : Api) : ApiOp → Api
  | .add d => a.add (d.code.toList.map Instr.abs) d.start.toNat
  | .spawn wi off => (a.spawn wi off.toNat).getD a
  | .runCycle => a.cycle.1
  | .run => (a.run (a.C + 2)).1
  | .reset => a.reset

/-- the assumptions on the arguments of an API call, for core size `m` -/
def ApiOp.OK (m : UInt64) : ApiOp → Prop
  | .add d => (∀ x ∈ d.code.toList, x.a < m ∧ x.b < m) ∧ d.StartOK
  | _ => True

/-- the strengthened induction hypothesis of `api_refines` -/
structure ApiInv (s : Sim) (a : Api) : Prop where
  wf     : s.WF
  code   : s.CodeOK
  starts : StartsOK s
  rel    : Rel s a
  data   : DataRel s a
  m32    : s.m.toNat ≤ 2 ^ 32
  rl     : s.readLimit.toNat ≤ s.m.toNat
  wl     : s.writeLimit.toNat ≤ s.m.toNat

theorem ApiInv.step {s s' : Sim} {a a' : Api} (h : ApiInv s a) (hwf : s'.WF) (hk : Keep s s')
    (hr : Rel s' a') (hs : Api.SameSig a a') : ApiInv s' a' where
  wf := hwf
  code := hk.codeOK h.code
  starts := hk.startsOK h.starts
  rel := hr
  data := hk.dataRel hs.sig h.data
  m32 := by rw [hk.m]; exact h.m32
  rl := by rw [hk.m, ← hr.R, hs.R, h.rel.R]; exact h.rl
  wl := by rw [hk.m, ← hr.W, hs.W, h.rel.W]; exact h.wl

theorem new_inv {c : Config} {s : Sim} (h : Sim.new c = some s)
    (hm : c.coreSize.toNat ≤ 2 ^ 32) (hrl : c.readLimit.toNat ≤ c.coreSize.toNat)
    (hwl : c.writeLimit.toNat ≤ c.coreSize.toNat) :
    ApiInv s (Api.new c.coreSize.toNat c.readLimit.toNat c.writeLimit.toNat c.processes.toNat
      c.cycles.toNat) ∧ s.m = c.coreSize := by
  obtain ⟨hwf, hco, hmc⟩ := new_spec h
  obtain ⟨hd, hs⟩ := new_dataRel h c.readLimit.toNat c.writeLimit.toNat
  have hr := new_rel h
  rw [clampLimit_of_le _ _ hrl, clampLimit_of_le _ _ hwl] at hr
  refine ⟨⟨hwf, hco, hs, hr, hd, by rw [hmc]; exact hm, ?_, ?_⟩, hmc⟩
  · rw [hmc, ← hr.R]; exact hrl
  · rw [hmc, ← hr.W]; exact hwl

theorem applyOp_refines {s : Sim} {a : Api} (h : ApiInv s a) (op : ApiOp) (hop : op.OK s.m) :
    ∃ s', s.applyOp op = .ok s' ∧ ApiInv s' (a.applyOp op) ∧ s'.m = s.m := by
  cases op with
  | add d =>
    obtain ⟨hwf', hco', _⟩ := addWarrior_spec d h.wf h.code hop.1
    exact ⟨_, rfl, ⟨hwf', hco', addWarrior_startsOK h.starts hop.2, addWarrior_rel h.rel,
      addWarrior_dataRel h.data, h.m32, h.rl, h.wl⟩, rfl⟩
  | spawn wi off =>
    obtain ⟨⟨s', b⟩, hsp, hwf', hk⟩ := spawn_spec s wi off h.wf h.code
    refine ⟨s', by simp only [Sim.applyOp, hsp, Except.map], ?_, hk.m⟩
    rcases spawn_cases h.starts wi off (by have := h.wf.m3; omega)
      (by have := h.m32; omega) with hc | hc
    · obtain ⟨h1, h2⟩ := spawn_reject (off := off) h.wf h.rel hc
      rw [hsp] at h1
      cases h1
      simp only [Api.applyOp, h2, Option.getD_none]
      exact h
    · obtain ⟨s'', a', h1, h2, h3⟩ := spawn_accept h.wf h.rel h.data hc
      rw [hsp] at h1
      cases h1
      simp only [Api.applyOp, h2, Option.getD_some]
      obtain ⟨e1, e2, e3, e4, e5, e6⟩ := Spec.Api.spawn_sig a a' wi off.toNat h2
      exact h.step hwf' hk h3 ⟨e1, e2, e3, e4, e5, e6⟩
  | runCycle =>
    obtain ⟨s', n, hrun, hrel, _, hwf'⟩ := runCycle_refines h.wf h.m32 h.rl h.wl h.rel
    have hk : Keep s s' := by
      cases hf : s.finished
      · obtain ⟨⟨s1, n1⟩, h1, _, hk, _⟩ := runCycle_spec s h.wf hf
        rw [hrun] at h1
        cases h1
        exact hk
      · have h1 : s.runCycle = .ok (s, 0) := by simp [Sim.runCycle, hf]
        rw [hrun] at h1
        cases h1
        exact Keep.refl s
    exact ⟨s', by simp only [Sim.applyOp, hrun, Except.map],
      h.step hwf' hk hrel a.cycle_sameSig, hk.m⟩
  | run =>
    obtain ⟨s', hrun, hrel, _⟩ := run_refines h.wf h.m32 h.rl h.wl h.rel
    obtain ⟨⟨s1, b1⟩, h1, _, hwf', hk, _⟩ :=
      runLoop_spec (s.maxCycles.toNat + 2) s h.wf (by omega)
    rw [hrun] at h1
    cases h1
    exact ⟨s', by simp only [Sim.applyOp, hrun, Except.map],
      h.step hwf' hk hrel (a.run_sameSig _), hk.m⟩
  | reset =>
    obtain ⟨hwf', _, hm⟩ := reset_spec h.wf h.code
    exact ⟨_, rfl, h.step hwf' (reset_keep s) (reset_rel h.rel)
      ⟨rfl, rfl, rfl, rfl, rfl, a.reset_sig⟩, hm⟩

theorem applyOps_refines : ∀ (ops : List ApiOp) {s : Sim} {a : Api}, ApiInv s a →
    (∀ op ∈ ops, op.OK s.m) →
    ∃ s', s.applyOps ops = .ok s' ∧ ApiInv s' (ops.foldl Api.applyOp a)
  | [], s, _, h, _ => ⟨s, rfl, h⟩
  | op :: ops, s, a, h, hops => by
    obtain ⟨s1, h1, hinv1, hm1⟩ := applyOp_refines h op (hops op List.mem_cons_self)
    obtain ⟨s2, h2, hinv2⟩ := applyOps_refines ops hinv1 (fun op' hop' => by
      rw [hm1]; exact hops op' (List.mem_cons_of_mem _ hop'))
    refine ⟨s2, ?_, hinv2⟩
    unfold Sim.applyOps
    rw [h1]
    exact h2

/-- **C13.** Any sequence of add / spawn / RunCycle / Run / Reset calls on a newly created
    simulator never panics and leaves the model in a state related to the one the documented
    state machine reaches by the same calls. -/
theorem api_refines {c : Config} {s0 : Sim} {ops : List ApiOp} (hnew : Sim.new c = some s0)
    (hm : c.coreSize.toNat ≤ 2 ^ 32) (hrl : c.readLimit.toNat ≤ c.coreSize.toNat)
    (hwl : c.writeLimit.toNat ≤ c.coreSize.toNat) (hops : ∀ op ∈ ops, op.OK c.coreSize) :
    ∃ s, s0.applyOps ops = .ok s ∧ s.WF ∧
      Rel s (ops.foldl Api.applyOp (Api.new c.coreSize.toNat c.readLimit.toNat
        c.writeLimit.toNat c.processes.toNat c.cycles.toNat)) := by
  obtain ⟨hinv, hmc⟩ := new_inv hnew hm hrl hwl
  obtain ⟨s, h1, h2⟩ := applyOps_refines ops hinv (by rw [hmc]; exact hops)
  exact ⟨s, h1, h2.wf, h2.rel⟩

/-! ## `SpawnWarrior` at any offset -/

theorem UInt64.mod_mod_self (a m : UInt64) : a % m % m = a % m := by
  apply UInt64.toNat_inj.mp
  simp only [UInt64.toNat_mod, Nat.mod_mod]

/-- **`spawn_any_offset`.** `SpawnWarrior` reduces the offset modulo the core size before it
    does anything with it, so for EVERY 64-bit offset the call is the call at the reduced
    offset: same result, same state, same report (no hypothesis at all: also for rejected calls
    and an ill-formed simulator). -/
theorem spawn_any_offset (s : Sim) (wi : Int) (off : UInt64) :
    s.spawn wi off = s.spawn wi (off % s.m) := by
  unfold Sim.spawn
  simp only [UInt64.mod_mod_self]

/-- two offsets that are congruent modulo the core size give the same `SpawnWarrior` call -/
theorem spawn_congr_model (s : Sim) (wi : Int) (off off' : UInt64) (h : off % s.m = off' % s.m) :
    s.spawn wi off = s.spawn wi off' := by
  rw [spawn_any_offset s wi off, spawn_any_offset s wi off', h]

/-- ... and hence `SpawnWarrior` at any offset is the reference's spawn at `off mod M`: the model
    accepts exactly when the reference does, and the states stay related. -/
theorem spawn_any_offset_ref {s : Sim} {a : Api} {wi : Int} {off : UInt64} (hwf : s.WF)
    (hr : Rel s a) (hd : DataRel s a) (hs : StartsOK s) (hm : s.m.toNat ≤ 2 ^ 63) :
    match s.spawn wi off, a.spawn wi (off.toNat % a.M) with
    | .ok (s', true), some a' => Rel s' a'
    | .ok (s', false), none => s' = s
    | _, _ => False := by
  rw [Spec.Api.spawn_mod]
  exact spawn_rel hwf hr hd hs hm

def wrapCfg : Config := Config.quick .icws94 3 2 5 1

def wrapData : WarriorData :=
  { code := #[{ op := .mov, a := 1 }, { op := .jmp, a := 2 }], start := 1 }

/-- Offset 2^64-1 (where `off + 1` used to wrap to 0, loading the second instruction over the
    first one): core size 3, a two-instruction warrior with start 1. 2^64-1 ≡ 0 (mod 3), so model
    and reference load cells 0, 1 and queue 1, exactly as for offset 0. -/
example :
    ∃ s s' a', Sim.new wrapCfg = some s ∧
      (s.addWarrior wrapData).spawn 0 18446744073709551615 = .ok (s', true) ∧
      (s.addWarrior wrapData).spawn 0 0 = .ok (s', true) ∧
      ((Api.new 3 3 3 2 5).add (wrapData.code.toList.map Instr.abs) 1).spawn 0
        18446744073709551615 = some a' ∧
      s'.absCore.map SInstr.op = [.mov, .jmp, .dat] ∧
      a'.core.map SInstr.op = [.mov, .jmp, .dat] ∧
      s'.absCore = a'.core ∧
      s'.warriors.toList.map Warrior.absQueue = [[1]] ∧ a'.ws.map SW.q = [[1]] := by
  refine ⟨_, _, _, rfl, rfl, rfl, rfl, ?_, ?_, ?_, ?_, ?_⟩ <;> decide

end Gmars
