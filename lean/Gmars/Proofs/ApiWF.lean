/-
  C04 / C13: no program and no sequence of API calls can corrupt or crash the
  simulator.  Every state-changing API operation of the model never panics and
  preserves the invariant `s.WF ∧ s.CodeOK`.
-/
import Gmars.Proofs.WFExec

namespace Gmars

/-! ## What API operations leave untouched -/

/-- configuration and warrior code are not changed -/
structure Keep (s s' : Sim) : Prop where
  m         : s'.m = s.m
  maxCycles : s'.maxCycles = s.maxCycles
  data      : s'.warriors.map (·.data) = s.warriors.map (·.data)

theorem Keep.refl (s : Sim) : Keep s s := ⟨rfl, rfl, rfl⟩

theorem Keep.trans {s1 s2 s3 : Sim} (h : Keep s1 s2) (h' : Keep s2 s3) : Keep s1 s3 :=
  ⟨h'.m.trans h.m, h'.maxCycles.trans h.maxCycles, h'.data.trans h.data⟩

theorem Keep.wsize {s s' : Sim} (h : Keep s s') : s'.warriors.size = s.warriors.size := by
  have := congrArg Array.size h.data
  simpa only [Array.size_map] using this

theorem Keep.codeOK {s s' : Sim} (h : Keep s s') (hc : s.CodeOK) : s'.CodeOK := by
  intro i hi c hcm
  have hi' : i < s.warriors.size := by rw [← h.wsize]; exact hi
  have hd : s'.warriors[i].data = s.warriors[i].data := by
    have h1 : (s'.warriors.map (·.data))[i]'(by simpa using hi) =
        (s.warriors.map (·.data))[i]'(by simpa using hi') := by
      simp only [h.data]
    simpa only [Array.getElem_map] using h1
  rw [h.m]
  rw [hd] at hcm
  exact hc i hi' c hcm

theorem map_data_set (ws : Array Warrior) (i : Nat) (h : i < ws.size) (w' : Warrior)
    (hd : w'.data = ws[i].data) : (ws.set i w' h).map (·.data) = ws.map (·.data) := by
  rw [Array.map_set]
  simp only [hd]
  have : (ws.map (·.data))[i]'(by simpa using h) = ws[i].data := by simp only [Array.getElem_map]
  rw [← this, Array.set_getElem_self]

/-! ## Counting living warriors -/

def isAlive (w : Warrior) : Bool := w.state == .alive

theorem Sim.aliveCount_eq (s : Sim) : s.aliveCount = s.warriors.toList.countP isAlive := by
  unfold Sim.aliveCount isAlive
  rw [List.countP_eq_length_filter]

theorem countP_getElem_pos {α : Type} (p : α → Bool) (l : List α) (i : Nat) (h : i < l.length)
    (hp : p l[i] = true) : 0 < l.countP p :=
  List.countP_pos_iff.mpr ⟨l[i], List.getElem_mem h, hp⟩

/-- the number of living warriors changes by exactly the change of warrior `i` -/
theorem aliveCount_set (ws : Array Warrior) (i : Nat) (h : i < ws.size) (w' : Warrior) :
    ((ws.set i w' h).toList.countP isAlive : Int) =
      (ws.toList.countP isAlive : Int) - (if isAlive ws[i] then 1 else 0)
        + (if isAlive w' then 1 else 0) := by
  rw [Array.toList_set, List.countP_set (by simpa using h)]
  have hget : ws.toList[i]'(by simpa using h) = ws[i] := by simp
  rw [hget]
  by_cases h1 : isAlive ws[i] = true
  · have hpos : 0 < ws.toList.countP isAlive :=
      countP_getElem_pos isAlive ws.toList i (by simpa using h) (by rw [hget]; exact h1)
    generalize ws.toList.countP isAlive = c at hpos ⊢
    by_cases h2 : isAlive w' = true
    · simp only [h1, h2, if_true]; omega
    · simp only [h1, h2, if_true]; simp; omega
  · generalize ws.toList.countP isAlive = c
    by_cases h2 : isAlive w' = true
    · simp only [h1, h2, if_true]; simp
    · simp only [h1, h2]; simp

/-! ## Re-establishing the invariant after one warrior changed -/

theorem Sim.WarriorOK.congr {s s' : Sim} {j : Nat} {w : Warrior} (hm : s'.m = s.m)
    (hp : s'.maxProcs = s.maxProcs) (h : s.WarriorOK j w) : s'.WarriorOK j w := by
  unfold Sim.WarriorOK at h ⊢
  rw [hm, hp]; exact h

/-- `s'` differs from the well-formed `s` in warrior `i` (now `w'`), in memory contents and
    in the log -/
theorem Sim.WF.of_set {s s' : Sim} (hwf : s.WF) (i : Nat) (hi : i < s.warriors.size)
    (w' : Warrior)
    (hm : s'.m = s.m) (hmp : s'.maxProcs = s.maxProcs) (hmc : s'.maxCycles = s.maxCycles)
    (hrl : s'.readLimit = s.readLimit) (hwl : s'.writeLimit = s.writeLimit)
    (hsize : s'.mem.size = s.mem.size) (hf : s'.FieldsOK)
    (hw : s'.warriors = s.warriors.set i w' hi) (hok : s.WarriorOK i w')
    (hcount : s'.warriorCount = s.warriorCount) (hwidx : s'.warriorIndex = s.warriorIndex)
    (hcyc : s'.cycleCount = s.cycleCount)
    (hliving : s'.living = s.living - (if isAlive s.warriors[i] then 1 else 0)
        + (if isAlive w' then 1 else 0)) : s'.WF := by
  have hws : s'.warriors.size = s.warriors.size := by rw [hw, Array.size_set]
  refine ⟨?_, ?_, ?_, ?_, ?_, ?_, hf, ?_, ?_, ?_, ?_, ?_⟩
  · rw [hsize, hm]; exact hwf.size
  · rw [hm]; exact hwf.m3
  · rw [hrl]; exact hwf.rl
  · rw [hwl]; exact hwf.wl
  · rw [hmp]; exact hwf.procs
  · rw [hmc]; exact hwf.cycles
  · rw [hcount, hws]; exact hwf.count
  · rw [hwidx]; exact hwf.widx
  · intro j hj
    have hj' : j < s.warriors.size := by rw [← hws]; exact hj
    have hget : s'.warriors[j] = (s.warriors.set i w' hi)[j]'(by simpa using hj') := by
      simp only [hw]
    rw [hget, Array.getElem_set]
    split
    · subst_vars; exact hok.congr hm hmp
    · exact (hwf.warriors j hj').congr hm hmp
  · rw [hliving, hwf.living, Sim.aliveCount_eq, Sim.aliveCount_eq, hw]
    exact (aliveCount_set s.warriors i hi w').symm
  · rw [hcyc, hmc]; exact hwf.cycle

/-- only the log (and `legacy`) differ -/
theorem Sim.WF.report {s : Sim} (h : s.WF) (r : Report) : (s.report r).WF :=
  ⟨h.size, h.m3, h.rl, h.wl, h.procs, h.cycles, h.fields, h.count, h.widx, h.warriors,
    h.living, h.cycle⟩

theorem Keep.report (s : Sim) (r : Report) : Keep s (s.report r) := ⟨rfl, rfl, rfl⟩

/-! ## `exec` under the precondition that holds in the middle of `RunCycle`

`exec_wf` asks for `s.WF`, but `runWarrior` calls `exec` just after the task has been popped,
when an alive warrior may momentarily have an empty queue. The proof of `exec_mid` only uses
the parts of the invariant listed here. -/

structure ExecPre (s : Sim) (wi : Nat) (q : PQ) : Prop where
  size   : s.mem.size = s.m.toNat
  m3     : 3 ≤ s.m.toNat
  rl     : 1 ≤ s.readLimit.toNat
  wl     : 1 ≤ s.writeLimit.toNat
  fields : s.FieldsOK
  pq     : s.pqOf wi = some q
  qinv   : q.Inv
  qent   : ∀ a ∈ q.toList, a < s.m

theorem ExecPre.mid {s : Sim} {wi : Nat} {q : PQ} (h : ExecPre s wi q) : Mid s s wi q 0 where
  frame := Frame.refl s wi
  mpos := by have := h.m3; omega
  msize := h.size
  fields := h.fields
  queue := ⟨q, h.pq, h.qinv, rfl, h.qent, by omega⟩
  log := ⟨[], by simp⟩

theorem ExecPre.guard_false {s : Sim} {wi : Nat} {q : PQ} (h : ExecPre s wi q) :
    (s.m == 0 || s.readLimit == 0 || s.writeLimit == 0) = false := by
  have h1 : s.m ≠ 0 := by
    intro h0; have := h.m3; rw [h0] at this; simp at this
  have h2 : s.readLimit ≠ 0 := by
    intro h0; have := h.rl; rw [h0] at this; simp at this
  have h3 : s.writeLimit ≠ 0 := by
    intro h0; have := h.wl; rw [h0] at this; simp at this
  simp [h1, h2, h3]

theorem exec_mid_pre (s : Sim) (pc : UInt64) (wi : Nat) (q : PQ) (hp : ExecPre s wi q)
    (hpc : pc < s.m) : Ok (s.exec pc wi) (fun s' => Mid s s' wi q 2) := by
  have h := hp.mid
  unfold Sim.exec
  dsimp only
  rw [hp.guard_false]
  simp only [Bool.false_eq_true, if_false]
  apply Ok.bind (h.rd hpc); intro ir _
  apply Ok.bind (h.aOperand pc ir); rintro ⟨s1, rpa, pip⟩ ⟨h1, hpip⟩
  dsimp only at h1 hpip ⊢
  apply Ok.bind (h1.rd (h1.mod_lt _)); intro ira hira
  apply Ok.bind (h1.aPost ir hpip); intro s2 h2
  apply Ok.bind (h2.bOperand pc ir hpip); rintro ⟨s3, rpb, wpb, pip2⟩ ⟨h3, hpip2⟩
  dsimp only at h3 hpip2 ⊢
  apply Ok.bind (h3.rd (h3.mod_lt _)); intro irb hirb
  apply Ok.bind (h3.bPost ir hpip2); intro s4 h4
  exact h4.dispatch ir hira hirb hpc rpa rpb wpb

/-- after a task of warrior `wi` the warrior table differs only in the queue of `wi` -/
theorem Frame.warriors_eq {s s' : Sim} {wi : Nat} {q' : PQ} (hf : Frame s s' wi)
    (hlt : wi < s.warriors.size) (hq : s'.pqOf wi = some q') :
    s'.warriors = s.warriors.set wi { s.warriors[wi] with pq := some q' } hlt := by
  apply Array.ext_getElem?
  intro j
  rw [Array.getElem?_set]
  split
  · rename_i hj; subst hj
    obtain ⟨hlt', hpq⟩ := Sim.pqOf_eq_some hq
    obtain ⟨hd, hi, hs⟩ := hf.same _ _ (Array.getElem?_eq_getElem hlt)
      (Array.getElem?_eq_getElem hlt')
    rw [Array.getElem?_eq_getElem hlt']
    congr 1
    generalize s'.warriors[wi] = w' at hd hi hs hpq
    obtain ⟨d, ix, p, st⟩ := w'
    simp only at hd hi hs hpq
    subst hd hi hs hpq
    rfl
  · exact hf.others j (by omega)

/-- one task, with everything `runWarrior` needs afterwards -/
theorem exec_pre (s : Sim) (pc : UInt64) (wi : Nat) (q : PQ) (hp : ExecPre s wi q)
    (hpc : pc < s.m) :
    ∃ s' q', s.exec pc wi = .ok s' ∧ Frame s s' wi ∧ s'.FieldsOK ∧
      (∃ hlt : wi < s.warriors.size,
        s'.warriors = s.warriors.set wi { s.warriors[wi] with pq := some q' } hlt) ∧
      q'.Inv ∧ q'.size = q.size ∧ (∀ a ∈ q'.toList, a < s.m) := by
  obtain ⟨s', hex, h⟩ := exec_mid_pre s pc wi q hp hpc
  obtain ⟨q', h1, h2, h3, h4, _⟩ := h.queue
  obtain ⟨hlt, _⟩ := Sim.pqOf_eq_some hp.pq
  refine ⟨s', q', hex, h.frame, ?_, ⟨hlt, h.frame.warriors_eq hlt h1⟩, h2, h3, h4⟩
  intro i hi
  rw [h.m_eq]
  exact h.fields i hi

/-! ## 1. `NewSimulator` -/

theorem default_fields (m : UInt64) (hm : 0 < m.toNat) :
    (default : Instr).a < m ∧ (default : Instr).b < m := by
  have h0 : (0 : UInt64) < m := by rw [UInt64.lt_iff_toNat_lt]; exact hm
  exact ⟨h0, h0⟩

theorem clampLimit_pos (l m : UInt64) (hl : 1 ≤ l.toNat) (hm : 3 ≤ m.toNat) :
    1 ≤ (clampLimit l m).toNat := by
  unfold clampLimit; split <;> omega

theorem clampLimit_le (l m : UInt64) : (clampLimit l m).toNat ≤ m.toNat := by
  unfold clampLimit
  split
  · exact Nat.le_refl _
  · rename_i h
    simp only [GT.gt, UInt64.lt_iff_toNat_lt, Nat.not_lt] at h
    exact h

theorem clampLimit_of_le (l m : UInt64) (h : l.toNat ≤ m.toNat) : clampLimit l m = l := by
  unfold clampLimit
  rw [if_neg]
  simp only [GT.gt, UInt64.lt_iff_toNat_lt, Nat.not_lt]
  exact h

theorem new_spec {c : Config} {s : Sim} (h : Sim.new c = some s) :
    s.WF ∧ s.CodeOK ∧ s.m = c.coreSize := by
  unfold Sim.new at h
  cases hv : c.validate
  · rw [hv] at h; simp at h
  · rw [hv] at h
    simp only [if_true, Option.some.injEq] at h
    subst h
    refine ⟨?_, ?_, rfl⟩
    · unfold Config.validate at hv
      have h3 : (3 : UInt64).toNat = 3 := rfl
      have h1 : (1 : UInt64).toNat = 1 := rfl
      repeat' (split at hv; · simp at hv)
      simp only [UInt64.lt_iff_toNat_lt, h3, h1, Nat.not_lt] at *
      refine ⟨?_, by assumption, clampLimit_pos _ _ (by assumption) (by assumption),
        clampLimit_pos _ _ (by assumption) (by assumption), by assumption, by assumption,
        ?_, rfl, rfl, ?_, rfl, ?_⟩
      · simp only [Array.size_replicate]
      · intro i hi
        simp only [Array.getElem_replicate]
        exact default_fields _ (by omega)
      · intro i hi
        simp at hi
      · rw [UInt64.le_iff_toNat_le]; simp
    · intro i hi
      simp at hi

theorem new_wf {c : Config} {s : Sim} (h : Sim.new c = some s) : s.WF ∧ s.CodeOK :=
  ⟨(new_spec h).1, (new_spec h).2.1⟩

/-! ## 2. `AddWarrior` -/

theorem addWarrior_spec {s : Sim} (d : WarriorData) (hwf : s.WF) (hc : s.CodeOK)
    (hd : ∀ c ∈ d.code.toList, c.a < s.m ∧ c.b < s.m) :
    (s.addWarrior d).WF ∧ (s.addWarrior d).CodeOK ∧ (s.addWarrior d).m = s.m := by
  refine ⟨⟨hwf.size, hwf.m3, hwf.rl, hwf.wl, hwf.procs, hwf.cycles, hwf.fields, ?_, hwf.widx,
    ?_, ?_, hwf.cycle⟩, ?_, rfl⟩
  · simp only [Sim.addWarrior, Array.size_push, hwf.count]
    rfl
  · intro i hi
    simp only [Sim.addWarrior, Array.size_push] at hi
    simp only [Sim.addWarrior, Array.getElem_push]
    split
    · rename_i h1
      exact (hwf.warriors i h1).congr rfl rfl
    · have : i = s.warriors.size := by omega
      subst this
      exact ⟨rfl, rfl⟩
  · rw [Sim.aliveCount_eq]
    simp only [Sim.addWarrior, Array.toList_push, List.countP_append, List.countP_cons,
      List.countP_nil]
    rw [hwf.living, Sim.aliveCount_eq]
    simp [isAlive]
  · intro i hi c hcm
    simp only [Sim.addWarrior, Array.size_push] at hi
    simp only [Sim.addWarrior, Array.getElem_push] at hcm
    show c.a < s.m ∧ c.b < s.m
    split at hcm
    · rename_i h1
      exact hc i h1 c hcm
    · exact hd c hcm

theorem addWarrior_wf {s : Sim} {d : WarriorData} (hwf : s.WF) (hc : s.CodeOK)
    (hd : ∀ c ∈ d.code.toList, c.a < s.m ∧ c.b < s.m) :
    (s.addWarrior d).WF ∧ (s.addWarrior d).CodeOK :=
  ⟨(addWarrior_spec d hwf hc hd).1, (addWarrior_spec d hwf hc hd).2.1⟩

/-! ## 6. `Reset` -/

theorem reset_spec {s : Sim} (hwf : s.WF) (hc : s.CodeOK) :
    s.reset.WF ∧ s.reset.CodeOK ∧ s.reset.m = s.m := by
  have hmpos : 0 < s.m.toNat := by have := hwf.m3; omega
  refine ⟨⟨?_, hwf.m3, hwf.rl, hwf.wl, hwf.procs, hwf.cycles, ?_, ?_, hwf.widx,
    ?_, ?_, ?_⟩, ?_, rfl⟩
  · simp only [Sim.reset, Sim.report, Array.size_replicate]
  · intro i hi
    simp only [Sim.reset, Sim.report, Array.getElem_replicate]
    exact default_fields _ hmpos
  · simp only [Sim.reset, Sim.report, Array.size_map]
    exact hwf.count
  · intro i hi
    simp only [Sim.reset, Sim.report, Array.size_map] at hi
    simp only [Sim.reset, Sim.report, Array.getElem_map]
    have h := hwf.warriors i hi
    unfold Sim.WarriorOK at h ⊢
    refine ⟨h.1, ?_⟩
    have h2 := h.2
    dsimp only
    cases hpq : s.warriors[i].pq with
    | none => rfl
    | some q =>
      rw [hpq] at h2
      dsimp only at h2 ⊢
      exact ⟨h2.1, h2.2.1, h2.2.2.1, fun h => (by cases h), fun h => (by cases h)⟩
  · rw [Sim.aliveCount_eq]
    simp only [Sim.reset, Sim.report, Array.toList_map, List.countP_map]
    have : (isAlive ∘ fun w : Warrior => { w with state := WState.added }) = fun _ => false := by
      funext w; simp [isAlive]
    rw [this]
    simp
  · show (0 : UInt64) ≤ s.maxCycles
    rw [UInt64.le_iff_toNat_le]; simp
  · intro i hi c hcm
    simp only [Sim.reset, Sim.report, Array.size_map] at hi
    simp only [Sim.reset, Sim.report, Array.getElem_map] at hcm
    exact hc i hi c hcm

theorem reset_wf {s : Sim} (hwf : s.WF) (hc : s.CodeOK) : s.reset.WF ∧ s.reset.CodeOK :=
  ⟨(reset_spec hwf hc).1, (reset_spec hwf hc).2.1⟩

/-! ## 3. `SpawnWarrior` -/

/-- the loop that copies the warrior's code into the core -/
theorem spawn_fold (m off : UInt64) (code : Array Instr) (hm : 0 < m.toNat)
    (hcode : ∀ c ∈ code.toList, c.a < m ∧ c.b < m) :
    ∀ (l : List Nat) (mem : Array Instr), (∀ i ∈ l, i < code.size) → mem.size = m.toNat →
      (∀ i (h : i < mem.size), mem[i].a < m ∧ mem[i].b < m) →
      Ok (l.foldlM (fun (mem : Array Instr) i =>
          let a := ((off + UInt64.ofNat i) % m).toNat
          if h : a < mem.size then Except.ok (mem.set a code[i]! h)
          else Except.error Panic.index) mem)
        (fun mem' => mem'.size = m.toNat ∧
          ∀ i (h : i < mem'.size), mem'[i].a < m ∧ mem'[i].b < m)
  | [], mem, _, hs, hf => ⟨mem, rfl, hs, hf⟩
  | i :: l, mem, hl, hs, hf => by
    have ha : ((off + UInt64.ofNat i) % m).toNat < mem.size := by
      rw [hs, UInt64.toNat_mod]; exact Nat.mod_lt _ hm
    have hi : i < code.size := hl i List.mem_cons_self
    rw [List.foldlM_cons]
    dsimp only
    rw [dif_pos ha]
    refine spawn_fold m off code hm hcode l _ (fun j hj => hl j (List.mem_cons_of_mem _ hj))
      (by rw [Array.size_set]; exact hs) ?_
    intro j hj
    rw [Array.getElem_set]
    split
    · rw [getElem!_pos code i hi]
      exact hcode _ (Array.getElem_mem_toList hi)
    · exact hf j (by simpa using hj)

theorem spawn_queue (mp a m : UInt64) (hmp : 1 ≤ mp.toNat) (ha : a < m) :
    Ok ((PQ.new mp).push a) (fun q => q.Inv ∧ q.size = mp ∧ (∀ x ∈ q.toList, x < m) ∧
      q.length ≠ 0) := by
  obtain ⟨hinv, hnil, hsz⟩ := PQ.new_inv mp (by omega)
  obtain ⟨q, hpush, hqinv, hqsz, hql⟩ := PQ.push_ok (PQ.new mp) a hinv
  rw [hnil, hsz] at hql
  rw [if_pos (by simp only [List.length_nil]; omega)] at hql
  refine ⟨q, hpush, hqinv, hqsz.trans hsz, ?_, ?_⟩
  · intro x hx
    rw [hql] at hx
    simp only [List.nil_append, List.mem_singleton] at hx
    rw [hx]; exact ha
  · intro h0
    have := PQ.toList_length q
    rw [hql, h0] at this
    simp at this

theorem spawn_spec (s : Sim) (wi : Int) (off : UInt64) (hwf : s.WF) (hc : s.CodeOK) :
    Ok (s.spawn wi off) (fun r => r.1.WF ∧ Keep s r.1) := by
  have hmpos : 0 < s.m.toNat := by have := hwf.m3; omega
  unfold Sim.spawn
  by_cases hbad : (decide (wi < 0) || decide (wi ≥ s.warriorCount)) = true
  · rw [if_pos hbad]; exact Ok.intro ⟨hwf, Keep.refl s⟩
  · rw [if_neg hbad]
    have hlt : wi.toNat < s.warriors.size := by
      simp only [Bool.or_eq_true, decide_eq_true_eq, not_or, Int.not_lt, ge_iff_le,
        Int.not_le] at hbad
      have := hwf.count
      have h2 : s.warriorCount = (s.warriors.size : Int) := this
      omega
    rw [dif_pos hlt]
    dsimp only
    by_cases halive : (s.warriors[wi.toNat].state == WState.alive) = true
    · rw [if_pos halive]; exact Ok.intro ⟨hwf, Keep.refl s⟩
    · rw [if_neg halive]
      have hm0 : ¬ ((s.m == 0) = true) := by
        intro h0
        have : s.m = 0 := by simpa using h0
        rw [this] at hmpos; simp at hmpos
      rw [if_neg hm0]
      apply Ok.bind (spawn_fold s.m (off % s.m) s.warriors[wi.toNat].data.code hmpos (hc _ hlt)
        (List.range s.warriors[wi.toNat].data.code.size) s.mem
        (fun i hi => List.mem_range.mp hi) hwf.size hwf.fields)
      rintro mem ⟨hms, hmf⟩
      apply Ok.bind (spawn_queue s.maxProcs _ s.m hwf.procs (UInt64.mod_lt' _ _ hmpos))
      rintro q ⟨hqinv, hqsz, hqent, hqlen⟩
      refine Ok.intro ⟨Sim.WF.report ?_ _, ?_⟩
      · refine hwf.of_set wi.toNat hlt _ rfl rfl rfl rfl rfl (hms.trans hwf.size.symm) hmf rfl
          ?_ rfl rfl rfl ?_
        · refine ⟨(hwf.warriors _ hlt).1, ?_⟩
          exact ⟨hqinv, hqsz, hqent, fun _ => hqlen, fun h => (by cases h)⟩
        · have h1 : isAlive s.warriors[wi.toNat] = false := by simpa [isAlive] using halive
          rw [h1]
          simp [isAlive]
      · refine ⟨rfl, rfl, ?_⟩
        exact map_data_set _ _ _ _ rfl

theorem spawn_wf {s : Sim} {wi : Int} {off : UInt64} (hwf : s.WF) (hc : s.CodeOK) :
    ∃ s' b, s.spawn wi off = .ok (s', b) ∧ s'.WF ∧ s'.CodeOK := by
  obtain ⟨⟨s', b⟩, h, h1, h2⟩ := spawn_spec s wi off hwf hc
  exact ⟨s', b, h, h1, h2.codeOK hc⟩

/-! ## 4. `RunCycle` -/

theorem exec_pre_ok (s : Sim) (pc : UInt64) (wi : Nat) (q : PQ) (hp : ExecPre s wi q)
    (hpc : pc < s.m) :
    Ok (s.exec pc wi) (fun s' => ∃ q', Frame s s' wi ∧ s'.FieldsOK ∧
      (∃ hlt : wi < s.warriors.size,
        s'.warriors = s.warriors.set wi { s.warriors[wi] with pq := some q' } hlt) ∧
      q'.Inv ∧ q'.size = q.size ∧ (∀ a ∈ q'.toList, a < s.m)) := by
  obtain ⟨s', q', h, h'⟩ := exec_pre s pc wi q hp hpc
  exact ⟨s', h, q', h'⟩

theorem pop_ok_ok (q : PQ) (h : q.Inv) :
    Ok q.pop (fun r => r.1 = q.toList.head? ∧ r.2.Inv ∧ r.2.size = q.size ∧
      r.2.toList = q.toList.tail) := by
  obtain ⟨q', h1, h2⟩ := PQ.pop_ok q h
  exact ⟨_, h1, rfl, h2⟩

theorem PQ.toList_ne_nil {q : PQ} (h : q.length ≠ 0) : ∃ pc tl, q.toList = pc :: tl := by
  cases hl : q.toList with
  | cons pc tl => exact ⟨pc, tl, rfl⟩
  | nil =>
    exfalso
    have := PQ.toList_length q
    rw [hl] at this
    apply h
    apply UInt64.toNat_inj.mp
    simpa using this.symm

/-- the `zombie` branch of `runWarrior` cannot be reached from a well-formed state: an alive
    warrior always has a task to pop -/
theorem zombie_unreachable {s : Sim} (hwf : s.WF) {i : Nat} (hi : i < s.warriors.size)
    (halive : s.warriors[i].state = .alive) {q : PQ} (hq : s.warriors[i].pq = some q) :
    ∃ pc q', q.pop = .ok (some pc, q') := by
  have hok := (hwf.warriors i hi).2
  rw [hq] at hok
  obtain ⟨hinv, _, _, hne, _⟩ := hok
  obtain ⟨pc, tl, hl⟩ := PQ.toList_ne_nil (hne halive)
  obtain ⟨q', hpop, _⟩ := PQ.pop_ok q hinv
  rw [hl] at hpop
  exact ⟨pc, q', hpop⟩

/-- an alive warrior is never without a queue (no nil dereference in `runWarrior`) -/
theorem alive_has_queue {s : Sim} (hwf : s.WF) {i : Nat} (hi : i < s.warriors.size)
    (halive : s.warriors[i].state = .alive) : ∃ q, s.warriors[i].pq = some q := by
  have hok := (hwf.warriors i hi).2
  cases hpq : s.warriors[i].pq with
  | some q => exact ⟨q, rfl⟩
  | none =>
    rw [hpq] at hok
    rw [halive] at hok
    cases hok

theorem set_eq_of_eq {ws ws' : Array Warrior} {i : Nat} {hi : i < ws.size} {w1 : Warrior}
    (h : ws' = ws.set i w1 hi) (h2 : i < ws'.size) (w2 : Warrior) :
    ws'.set i w2 h2 = ws.set i w2 hi := by
  subst h
  simp only [Array.set_set]

/-- the state `runWarrior` builds when the last task of warrior `i` has terminated -/
def deadState (s2 : Sim) (i : Nat) (w : Warrior) (h2 : i < s2.warriors.size) (r : Report) : Sim :=
  { s2 with log := s2.log.push r, warriors := s2.warriors.set i w h2, living := s2.living - 1 }

/-- result of one iteration of the warrior loop -/
def RunPost (s : Sim) (r : Sim × Option Int) : Prop :=
  r.1.WF ∧ Keep s r.1 ∧ r.1.cycleCount = s.cycleCount ∧
    (r.2 = none ∨ (r.2 = some r.1.living ∧ r.1.warriorCount > 1 ∧ r.1.living = 1))

theorem runWarrior_spec (s : Sim) (i : Nat) (hwf : s.WF) (hi : i < s.warriors.size) :
    Ok (s.runWarrior i) (RunPost s) := by
  unfold Sim.runWarrior
  rw [dif_pos hi]
  dsimp only
  by_cases halive : (s.warriors[i].state == WState.alive) = true
  · rw [if_pos halive]
    have hst : s.warriors[i].state = .alive := by simpa using halive
    obtain ⟨q, hpq⟩ := alive_has_queue hwf hi hst
    have hok := hwf.warriors i hi
    have hok2 := hok.2
    rw [hpq] at hok2
    obtain ⟨hinv, hsz, hent, hne, _⟩ := hok2
    obtain ⟨pc, tl, hl⟩ := PQ.toList_ne_nil (hne hst)
    have hpc : pc < s.m := hent pc (by rw [hl]; exact List.mem_cons_self)
    rw [hpq]
    dsimp only
    refine Ok.bind (pop_ok_ok q hinv) ?_
    rintro ⟨v, q'⟩ ⟨hv, hinv', hsz', hl'⟩
    dsimp only at hv hinv' hsz' hl' ⊢
    rw [hl] at hv hl'
    simp only [List.head?_cons, List.tail_cons] at hv hl'
    subst hv
    dsimp only
    refine Ok.bind (exec_pre_ok _ pc i q' ?_ hpc) ?_
    · refine ⟨hwf.size, hwf.m3, hwf.rl, hwf.wl, hwf.fields, ?_, hinv', ?_⟩
      · simp [Sim.pqOf, Sim.report]
      · intro a ha
        rw [hl'] at ha
        exact hent a (by rw [hl]; exact List.mem_cons_of_mem _ ha)
    · rintro s2 ⟨q2, hfr, hf2, ⟨hlt, hws⟩, hinv2, hsz2, hent2⟩
      simp only [Sim.report, Array.set_set, Array.getElem_set_self] at hws
      have h2 : i < s2.warriors.size := by rw [hws, Array.size_set]; exact hi
      have hw2 : s2.warriors[i] = { s.warriors[i] with pq := some q2 } := by
        simp only [hws, Array.getElem_set_self]
      have hm2 : s2.m = s.m := hfr.m
      have hK0 : s2.warriors.map (·.data) = s.warriors.map (·.data) := by
        rw [hws]; exact map_data_set _ _ _ _ rfl
      rw [dif_pos h2]
      rw [hw2]
      split
      · rename_i heq; cases heq
      · rename_i qx heq
        have hqx : qx = q2 := by
          have : some q2 = some qx := heq
          exact (Option.some.inj this).symm
        subst hqx
        have hsz3 : qx.size = s.maxProcs := hsz2.trans (hsz'.trans hsz)
        apply Ok.ite
        · intro hlen
          have hlen0 : qx.length = 0 := by simpa using hlen
          have hwf3 : (deadState s2 i { s.warriors[i] with pq := some qx, state := .dead } h2
              { typ := RType.warriorTerminate, cycle := ↑s2.cycleCount.toNat, wi := ↑i,
                addr := pc }).WF := by
            refine hwf.of_set i hi { s.warriors[i] with pq := some qx, state := .dead }
              hm2 hfr.maxProcs hfr.maxCycles hfr.readLimit hfr.writeLimit hfr.size hf2
              (set_eq_of_eq hws h2 _) ?_ hfr.count hfr.widx hfr.cycle ?_
            · exact ⟨hok.1, hinv2, hsz3, hent2, fun h => (by cases h), fun _ => hlen0⟩
            · show s2.living - 1 = _
              rw [hfr.living]
              show s.living - 1 = _
              have h1 : isAlive s.warriors[i] = true := halive
              rw [h1]
              simp [isAlive]
          have hK : Keep s (deadState s2 i { s.warriors[i] with pq := some qx, state := .dead } h2
              { typ := RType.warriorTerminate, cycle := ↑s2.cycleCount.toNat, wi := ↑i,
                addr := pc }) := by
            refine ⟨hm2, hfr.maxCycles, ?_⟩
            show (s2.warriors.set i _ h2).map (·.data) = _
            rw [set_eq_of_eq hws h2 _]
            exact map_data_set _ _ _ _ rfl
          apply Ok.ite
          · intro hc
            refine Ok.intro ⟨hwf3, hK, hfr.cycle, Or.inr ⟨rfl, ?_, ?_⟩⟩
            · simp only [Bool.and_eq_true, decide_eq_true_eq] at hc
              exact hc.1
            · simp only [Bool.and_eq_true, decide_eq_true_eq, beq_iff_eq] at hc
              exact hc.2
          · intro _
            exact Ok.intro ⟨hwf3, hK, hfr.cycle, Or.inl rfl⟩
        · intro hlen
          have hlen0 : qx.length ≠ 0 := by simpa using hlen
          refine Ok.intro ⟨?_, ⟨hm2, hfr.maxCycles, hK0⟩, hfr.cycle, Or.inl rfl⟩
          refine hwf.of_set i hi { s.warriors[i] with pq := some qx }
              hm2 hfr.maxProcs hfr.maxCycles hfr.readLimit hfr.writeLimit hfr.size hf2
              hws ?_ hfr.count hfr.widx hfr.cycle ?_
          · refine ⟨hok.1, hinv2, hsz3, hent2, fun _ => hlen0, fun h => ?_⟩
            have h' : s.warriors[i].state = .dead := h
            rw [hst] at h'; cases h'
          · rw [hfr.living]
            show s.living = _
            have h1 : isAlive s.warriors[i] = true := halive
            have h2 : isAlive { s.warriors[i] with pq := some qx } = true := halive
            rw [h1, h2]
            simp
  · rw [if_neg halive]
    exact Ok.intro ⟨hwf, Keep.refl s, rfl, Or.inl rfl⟩

theorem RunPost.trans {s s1 : Sim} {r : Sim × Option Int} (h1 : RunPost s (s1, none))
    (h2 : RunPost s1 r) : RunPost s r :=
  ⟨h2.1, h1.2.1.trans h2.2.1, h2.2.2.1.trans h1.2.2.1, h2.2.2.2⟩

theorem runWarriors_spec : ∀ (l : List Nat) (s : Sim), s.WF → (∀ i ∈ l, i < s.warriors.size) →
    Ok (s.runWarriors l) (RunPost s)
  | [], s, hwf, _ => Ok.intro ⟨hwf, Keep.refl s, rfl, Or.inl rfl⟩
  | i :: l, s, hwf, hl => by
    unfold Sim.runWarriors
    refine Ok.bind (runWarrior_spec s i hwf (hl i List.mem_cons_self)) ?_
    rintro ⟨s1, r⟩ h1
    dsimp only
    cases r with
    | some n => exact Ok.intro h1
    | none =>
      dsimp only
      have hsz : s1.warriors.size = s.warriors.size := h1.2.1.wsize
      refine (runWarriors_spec l s1 h1.1 (fun j hj => ?_)).mono (fun r h2 => h1.trans h2)
      rw [hsz]; exact hl j (List.mem_cons_of_mem _ hj)

theorem not_finished {s : Sim} (h : s.finished = false) :
    s.cycleCount < s.maxCycles ∧ 1 ≤ s.living ∧ ¬ (s.warriorCount > 1 ∧ s.living = 1) := by
  unfold Sim.finished at h
  split at h
  · cases h
  · rename_i h1
    simp only [ge_iff_le, Bool.or_eq_true, decide_eq_true_eq, not_or, UInt64.not_le,
      Int.not_lt] at h1
    refine ⟨h1.1, h1.2, ?_⟩
    intro hc
    simp [hc.1, hc.2] at h

theorem finished_of {s : Sim} (h : s.living < 1 ∨ (s.warriorCount > 1 ∧ s.living = 1)) :
    s.finished = true := by
  unfold Sim.finished
  split
  · rfl
  · rcases h with h | h
    · rename_i h1
      exfalso; apply h1
      simp [h]
    · simp [h.1, h.2]

/-- result of `RunCycle` on a battle that is not over -/
def CyclePost (s : Sim) (r : Sim × Int) : Prop :=
  r.1.WF ∧ Keep s r.1 ∧ r.2 = r.1.living ∧
    (r.1.cycleCount.toNat = s.cycleCount.toNat + 1 ∨ (r.1.warriorCount > 1 ∧ r.1.living = 1))

theorem runCycle_spec (s : Sim) (hwf : s.WF) (hnf : s.finished = false) :
    Ok s.runCycle (CyclePost s) := by
  obtain ⟨hcyc, _, _⟩ := not_finished hnf
  unfold Sim.runCycle
  rw [hnf]
  simp only [Bool.false_eq_true, if_false]
  have h0 : (s.warriorIndex == 0) = true := by rw [hwf.widx]; rfl
  rw [h0]
  simp only [if_true]
  have hwfr := hwf.report { typ := .cycleStart, cycle := s.cycleCount.toNat }
  refine Ok.bind (runWarriors_spec _ _ hwfr ?_) ?_
  · intro i hi
    have h1 := List.mem_of_mem_drop hi
    rw [List.mem_range] at h1
    have h2 : (s.report { typ := .cycleStart, cycle := s.cycleCount.toNat }).warriorCount
        = Int.ofNat s.warriors.size := hwf.count
    rw [h2] at h1
    exact h1
  · rintro ⟨s1, r⟩ ⟨hwf1, hK, hc1, hr⟩
    have hK' : Keep s s1 := (Keep.report s _).trans hK
    have hc1' : s1.cycleCount = s.cycleCount := hc1
    dsimp only at hwf1 hr ⊢
    cases r with
    | some k =>
      dsimp only
      rcases hr with hr | ⟨hk, h1, h2⟩
      · cases hr
      · cases hk
        exact Ok.intro ⟨hwf1, hK', rfl, Or.inr ⟨h1, h2⟩⟩
    | none =>
      dsimp only
      have hlt : s1.cycleCount.toNat < s1.maxCycles.toNat := by
        rw [hc1', hK'.maxCycles]; exact UInt64.lt_iff_toNat_lt.mp hcyc
      have hadd : (s1.cycleCount + 1).toNat = s1.cycleCount.toNat + 1 := by
        rw [UInt64.toNat_add, UInt64.toNat_one, Nat.mod_eq_of_lt]
        have := s1.maxCycles.toNat_lt
        omega
      refine Ok.intro ⟨?_, ⟨hK'.m, hK'.maxCycles, hK'.data⟩, rfl, Or.inl ?_⟩
      · exact ⟨hwf1.size, hwf1.m3, hwf1.rl, hwf1.wl, hwf1.procs, hwf1.cycles, hwf1.fields,
          hwf1.count, rfl, hwf1.warriors, hwf1.living, by
            show s1.cycleCount + 1 ≤ s1.maxCycles
            rw [UInt64.le_iff_toNat_le, hadd]; omega⟩
      · show (s1.cycleCount + 1).toNat = _
        rw [hadd, hc1']

theorem runCycle_wf {s : Sim} (hwf : s.WF) (hc : s.CodeOK) :
    ∃ s' n, s.runCycle = .ok (s', n) ∧ s'.WF ∧ s'.CodeOK := by
  cases hf : s.finished
  · obtain ⟨⟨s', n⟩, h, h1, h2, _⟩ := runCycle_spec s hwf hf
    exact ⟨s', n, h, h1, h2.codeOK hc⟩
  · exact ⟨s, 0, by simp [Sim.runCycle, hf], hwf, hc⟩

/-! ## 5. `Run` -/

/-- result of `Run` -/
def LoopPost (s : Sim) (r : Sim × Bool) : Prop :=
  r.2 = true ∧ r.1.WF ∧ Keep s r.1 ∧ r.1.finished = true

theorem runLoop_spec : ∀ (fuel : Nat) (s : Sim), s.WF →
    s.maxCycles.toNat - s.cycleCount.toNat + 1 ≤ fuel → Ok (s.runLoop fuel) (LoopPost s)
  | 0, _, _, hfuel => by omega
  | fuel + 1, s, hwf, hfuel => by
    unfold Sim.runLoop
    cases hf : s.finished
    · simp only [Bool.false_eq_true, if_false]
      obtain ⟨hcyc, _, _⟩ := not_finished hf
      refine Ok.bind (runCycle_spec s hwf hf) ?_
      rintro ⟨s1, alive⟩ ⟨hwf1, hK, hal, hprog⟩
      dsimp only at hwf1 hK hal hprog ⊢
      have hcount : s1.warriorCount = Int.ofNat s.warriors.size := by
        rw [hwf1.count, hK.wsize]
      apply Ok.ite
      · intro hc
        simp only [Bool.and_eq_true, beq_iff_eq] at hc
        refine Ok.intro ⟨rfl, hwf1, hK, finished_of (Or.inl ?_)⟩
        rw [← hal, hc.2]; decide
      · intro _
        apply Ok.ite
        · intro hc
          simp only [Bool.and_eq_true, decide_eq_true_eq, beq_iff_eq] at hc
          refine Ok.intro ⟨rfl, hwf1, hK, finished_of (Or.inr ⟨?_, ?_⟩)⟩
          · rw [hcount]
            have : (1 : Int) < (s.warriors.size : Int) := by omega
            exact this
          · rw [← hal]; exact hc.2
        · intro hc
          simp only [Bool.and_eq_true, decide_eq_true_eq, beq_iff_eq, not_and] at hc
          have hstep : s1.cycleCount.toNat = s.cycleCount.toNat + 1 := by
            rcases hprog with h | ⟨h1, h2⟩
            · exact h
            · exfalso
              rw [hcount] at h1
              have h1' : (1 : Int) < (s.warriors.size : Int) := h1
              exact hc (by omega) (by rw [hal]; exact h2)
          have hlt : s.cycleCount.toNat < s.maxCycles.toNat := UInt64.lt_iff_toNat_lt.mp hcyc
          refine (runLoop_spec fuel s1 hwf1 ?_).mono (fun r h => ?_)
          · rw [hK.maxCycles, hstep]; omega
          · exact ⟨h.1, h.2.1, hK.trans h.2.2.1, h.2.2.2⟩
    · simp only [if_true]
      exact Ok.intro ⟨rfl, hwf, Keep.refl s, hf⟩

theorem run_terminates_wf {s : Sim} (hwf : s.WF) (hc : s.CodeOK) :
    ∃ s', s.runLoop (s.maxCycles.toNat + 2) = .ok (s', true) ∧ s'.WF ∧ s'.CodeOK ∧
      s'.finished = true := by
  obtain ⟨⟨s', b⟩, h, hb, h1, h2, h3⟩ := runLoop_spec (s.maxCycles.toNat + 2) s hwf (by omega)
  dsimp only at hb
  subst hb
  exact ⟨s', h, h1, h2.codeOK hc, h3⟩

/-! ## 7. Every sequence of API calls -/

theorem applyOp_spec (s : Sim) (op : ApiOp) (hwf : s.WF) (hc : s.CodeOK)
    (hop : match op with
      | .add d => ∀ x ∈ d.code.toList, x.a < s.m ∧ x.b < s.m
      | _ => True) :
    Ok (s.applyOp op) (fun s' => s'.WF ∧ s'.CodeOK ∧ s'.m = s.m) := by
  cases op with
  | add d => exact Ok.intro (addWarrior_spec d hwf hc hop)
  | spawn wi off =>
    obtain ⟨⟨s', b⟩, h, h1, h2⟩ := spawn_spec s wi off hwf hc
    exact ⟨s', by simp [Sim.applyOp, h, Except.map], h1, h2.codeOK hc, h2.m⟩
  | runCycle =>
    cases hf : s.finished
    · obtain ⟨⟨s', n⟩, h, h1, h2, _⟩ := runCycle_spec s hwf hf
      exact ⟨s', by simp [Sim.applyOp, h, Except.map], h1, h2.codeOK hc, h2.m⟩
    · exact ⟨s, by simp [Sim.applyOp, Sim.runCycle, hf, Except.map], hwf, hc, rfl⟩
  | run =>
    obtain ⟨⟨s', b⟩, h, _, h1, h2, _⟩ := runLoop_spec (s.maxCycles.toNat + 2) s hwf (by omega)
    exact ⟨s', by simp [Sim.applyOp, h, Except.map], h1, h2.codeOK hc, h2.m⟩
  | reset => exact Ok.intro (reset_spec hwf hc)

theorem applyOps_spec : ∀ (ops : List ApiOp) (s : Sim), s.WF → s.CodeOK →
    (∀ op ∈ ops, match op with
      | .add d => ∀ x ∈ d.code.toList, x.a < s.m ∧ x.b < s.m
      | _ => True) →
    Ok (s.applyOps ops) (fun s' => s'.WF ∧ s'.CodeOK ∧ s'.m = s.m)
  | [], s, hwf, hc, _ => Ok.intro ⟨hwf, hc, rfl⟩
  | op :: ops, s, hwf, hc, hops => by
    unfold Sim.applyOps
    refine Ok.bind (applyOp_spec s op hwf hc (hops op List.mem_cons_self)) ?_
    rintro s1 ⟨hwf1, hc1, hm1⟩
    refine (applyOps_spec ops s1 hwf1 hc1 ?_).mono (fun s2 h => ⟨h.1, h.2.1, h.2.2.trans hm1⟩)
    intro op' hop'
    rw [hm1]
    exact hops op' (List.mem_cons_of_mem _ hop')

/-- C04 / C13: no sequence of API calls panics, and the invariant holds after each call -/
theorem wf_reachable {c : Config} {s0 : Sim} {ops : List ApiOp} (_hv : c.validate = true)
    (hnew : Sim.new c = some s0)
    (hops : ∀ op ∈ ops, match op with
      | .add d => ∀ x ∈ d.code.toList, x.a < c.coreSize ∧ x.b < c.coreSize
      | _ => True) :
    ∃ s, s0.applyOps ops = .ok s ∧ s.WF ∧ s.CodeOK := by
  obtain ⟨hwf, hc, hm⟩ := new_spec hnew
  obtain ⟨s, h, h1, h2, _⟩ := applyOps_spec ops s0 hwf hc (by rw [hm]; exact hops)
  exact ⟨s, h, h1, h2⟩

end Gmars
