/-
  C03 (and the assembler half of C09): the whole assembler on rendered programs.

  Stage theorems composed:
      bytes --decodeRunes--> characters --Lex.tokens--> tokens --forLoop--> tokens
            --parse--> source lines --compile--> warrior

    * `assemble_stages`, `assemble_stages_noEqu`     (Gmars/Proofs/AsmComposeStages.lean)
        `assemble` = parser + compiler stage on `lexBytes src` for FOR-free token streams
    * `compileX_congr`                               (Gmars/Proofs/AsmComposeCongr.lean)
        what the compiler reads of the source lines
    * `parse_xprog`                                  (Gmars/Proofs/AsmComposeParse.lean)
        the parser on programs with ORG lines and a final END line
    * `SProg`, `SProg.lex_tokens`, `SProg.norm_lines`, `SProg.toX_OK`, `SProg.tokens_textIn`
                                                     (Gmars/Proofs/AsmComposeBridge.lean)
    * `assemble_meaning_labels`  (here): for every source program with labels (no EQU, no FOR)
        and every spacing / blank-line / comment-line / colon-suffix rendering of it,
        `assemble` answers with the reference meaning `Spec.meaningFlat`, or rejects exactly when
        the reference does.
    * `decodeRunes_ascii`, `decodeRunes_toUTF8` (Gmars/Proofs/AsmComposeUtf8.lean): text as bytes;
      `assemble_meaning_labels_ascii`, `assemble_meaning_labels_utf8`
    * `SProg.ofItems` : the plain layout of a label program

  Why the extra hypotheses of `assemble_meaning_labels` (checked with #eval on the models):
    * `hcl` (every name used in an operand is a label): on `ORG foo / ORG 0 / DAT 0` the parser
      rejects the undefined `foo` (`assemble = .err`) while `Spec.meaningFlat` only evaluates the
      last ORG (start 0).
    * END only as the last line (built into `SProg`): on `DAT 0 / END / DAT 1` the parser stops at
      END (one instruction), `Spec.meaningFlat` counts both instructions.
    * comments stand on lines of their own (a comment behind a statement is not covered), and no
      comment line starts with ";assert" (label programs have no assertions).
-/
import Gmars.Proofs.AsmComposeBridge
import Gmars.Proofs.AsmComposeUtf8

namespace Gmars
namespace AsmCompose
open Gmars.Render Gmars.AsmLine Gmars.ExprProofs

/-- **2. `assemble_meaning_labels`** (`assemble_meaning_partial` of C03: programs with labels,
    without EQU and FOR).

    `p : SProg` is a label program (`p.litems : List AsmLine.LItem`: instructions with labels and
    operands over numbers and label names, ORG lines, optionally a last line END) with a layout:
    colon suffixes of labels, blank lines, comment lines.  `ls` is ANY list of source lines carrying
    the words of the program (`SameLines ls p.srcLines`: same words, same comments, line by line)
    with arbitrary leading blanks and separators of blanks and tabs (`SrcLine.ok`: a separator may
    be empty where the lexer separates the words anyway).  `src` is any byte string the Go reader
    decodes to that text.

    Then `CompileWarrior` returns the warrior of the reference meaning (with the metadata of the
    comment lines), or an error exactly when the reference rejects the program.

    Hypotheses: those of `compile_meaning_labels` (valid configuration, core size below 2^63,
    labels distinct and none of the predefined constants, `ProgWF`: well-formed operands) and
      * `p.LexOK`    names are identifiers, operators are `+ - * / %`, comments have no newline
      * `p.NamesOK`  the opcode text is taken for an opcode by the parser (an opcode or contains a
                     `.`) and no pseudo-op; labels are not; ORG / END keywords
      * `hplain`     no comment line starts with ";assert"
      * `hcl`        every name used in an operand is a label of the program -/
theorem assemble_meaning_labels (cfg : Config) (sc : Spec.Cfg) (p : SProg)
    (hv : cfg.validate = true) (h63 : cfg.coreSize.toNat < 2 ^ 63) (hr : CfgRel cfg sc)
    (hlex : p.LexOK) (hnames : p.NamesOK) (hplain : ∀ it ∈ p.items, it.Plain)
    (hnd : (p.labels ++ constNames).Nodup) (hcl : ∀ x ∈ p.names, x ∈ p.labels)
    (hsmall : linstrCount p.litems < 2 ^ 63)
    (hw : ProgWF sc.M (labelsFrom 0 p.litems) 0 p.litems)
    (ls : List SrcLine) (hls : ∀ l ∈ ls, l.ok (some '\n') = true) (hsame : SameLines ls p.srcLines)
    (src : List UInt8) (hsrc : decodeRunes src = renderLines ls) :
    assemble cfg src =
      match Spec.meaningFlat sc (p.litems.map LItem.toItem) with
      | some m => .ok (toWD p.meta m)
      | none => .err := by
  have htok : lexBytes src = p.toX.tokens := by
    unfold lexBytes; rw [hsrc, p.lex_tokens hlex ls hls hsame]
  have hti := p.tokens_textIn hlex hnames hcl
  rw [assemble_stages_noEqu cfg src (by rw [htok]; exact noForTok_of_textIn hti)
    (by rw [htok]; exact noEquTok_of_textIn hti), htok]
  have hc : Compile.compileX lexString cfg p.toX.lines p.toX.metadata =
      Compile.optM ((Spec.meaningFlat sc (p.litems.map LItem.toItem)).map (toWD p.toX.metadata)) := by
    rw [compileX_congr lexString cfg p.toX.lines (lrender 0 p.litems) _ (p.norm_lines hlex hplain).1]
    exact compileX_meaning_labels lexString cfg sc p.litems _ hv h63 hr hnd hsmall hw
  rw [parseCompile_of cfg _ p.toX.lines p.toX.metadata
    (parse_xprog p.toX (p.toX_OK hlex hnames hnd hcl)) _ hc]
  cases Spec.meaningFlat sc (p.litems.map LItem.toItem) <;> rfl

/-! ### text as bytes -/

/-- ASCII text as bytes -/
def asciiBytes (cs : List Char) : List UInt8 := cs.map (fun c => c.toNat.toUInt8)

theorem decodeRunes_cons_ascii (b0 : UInt8) (rest : List UInt8) (h : b0 < 0x80) :
    decodeRunes (b0 :: rest) = Char.ofNat b0.toNat :: decodeRunes rest := by
  rw [decodeRunes]
  simp [Utf8.decodeRune, h]

/-- the Go reader decodes ASCII bytes to the characters themselves -/
theorem decodeRunes_ascii (cs : List Char) (h : ∀ c ∈ cs, c.toNat < 128) :
    decodeRunes (asciiBytes cs) = cs := by
  induction cs with
  | nil => simp [asciiBytes, decodeRunes]
  | cons c r ih =>
    have hc := h c (by simp)
    have hb : c.toNat.toUInt8.toNat = c.toNat := by
      simp only [Nat.toUInt8, UInt8.toNat_ofNat']
      omega
    have hlt : c.toNat.toUInt8 < 0x80 := by
      rw [UInt8.lt_iff_toNat_lt, hb]; exact hc
    simp only [asciiBytes, List.map_cons]
    rw [decodeRunes_cons_ascii _ _ hlt, hb, Char.ofNat_toNat]
    congr 1
    exact ih (fun x hx => h x (by simp [hx]))

/-- `assemble_meaning_labels` for ASCII text given as characters -/
theorem assemble_meaning_labels_ascii (cfg : Config) (sc : Spec.Cfg) (p : SProg)
    (hv : cfg.validate = true) (h63 : cfg.coreSize.toNat < 2 ^ 63) (hr : CfgRel cfg sc)
    (hlex : p.LexOK) (hnames : p.NamesOK) (hplain : ∀ it ∈ p.items, it.Plain)
    (hnd : (p.labels ++ constNames).Nodup) (hcl : ∀ x ∈ p.names, x ∈ p.labels)
    (hsmall : linstrCount p.litems < 2 ^ 63)
    (hw : ProgWF sc.M (labelsFrom 0 p.litems) 0 p.litems)
    (ls : List SrcLine) (hls : ∀ l ∈ ls, l.ok (some '\n') = true) (hsame : SameLines ls p.srcLines)
    (hascii : ∀ c ∈ renderLines ls, c.toNat < 128) :
    assemble cfg (asciiBytes (renderLines ls)) =
      match Spec.meaningFlat sc (p.litems.map LItem.toItem) with
      | some m => .ok (toWD p.meta m)
      | none => .err :=
  assemble_meaning_labels cfg sc p hv h63 hr hlex hnames hplain hnd hcl hsmall hw ls hls hsame _
    (decodeRunes_ascii _ hascii)

/-- `assemble_meaning_labels` for the UTF-8 encoding (`String.toUTF8`) of the text; comment lines
    may contain any characters -/
theorem assemble_meaning_labels_utf8 (cfg : Config) (sc : Spec.Cfg) (p : SProg)
    (hv : cfg.validate = true) (h63 : cfg.coreSize.toNat < 2 ^ 63) (hr : CfgRel cfg sc)
    (hlex : p.LexOK) (hnames : p.NamesOK) (hplain : ∀ it ∈ p.items, it.Plain)
    (hnd : (p.labels ++ constNames).Nodup) (hcl : ∀ x ∈ p.names, x ∈ p.labels)
    (hsmall : linstrCount p.litems < 2 ^ 63)
    (hw : ProgWF sc.M (labelsFrom 0 p.litems) 0 p.litems)
    (ls : List SrcLine) (hls : ∀ l ∈ ls, l.ok (some '\n') = true) (hsame : SameLines ls p.srcLines) :
    assemble cfg (String.ofList (renderLines ls)).toUTF8.data.toList =
      match Spec.meaningFlat sc (p.litems.map LItem.toItem) with
      | some m => .ok (toWD p.meta m)
      | none => .err :=
  assemble_meaning_labels cfg sc p hv h63 hr hlex hnames hplain hnd hcl hsmall hw ls hls hsame _
    (decodeRunes_toUTF8 _)

/-! ### the plain layout of a label program -/

def LItem.toS : LItem → Option SItem
  | .instr ls op md a b => some (.instr (ls.map (fun l => (l, false))) op md a b 0)
  | .org kw e => some (.org kw e 0)
  | .end_ _ _ => none

/-- the source program of a label program `body ++ [END …]` (`body` without END lines): no colons,
    no blank lines, no comment lines.  Every other layout of the same label program is another
    `SProg` with the same `litems`. -/
def SProg.ofItems (body : List LItem) (fin : Option (String × Option NT)) : SProg :=
  { items := body.filterMap LItem.toS, fin := fin }

theorem SProg.ofItems_litems (body : List LItem) (fin : Option (String × Option NT))
    (hb : ∀ it ∈ body, ∀ kw e, it ≠ .end_ kw e) :
    (SProg.ofItems body fin).litems =
      body ++ (match fin with | some (kw, e) => [.end_ kw e] | none => []) := by
  unfold SProg.ofItems SProg.litems SProg.finL
  simp only
  congr 1
  induction body with
  | nil => rfl
  | cons it r ih =>
    have hr := ih (fun x hx => hb x (List.mem_cons_of_mem _ hx))
    cases it with
    | instr ls op md a b =>
      simp only [List.filterMap_cons, LItem.toS, SItem.toL, hr, List.map_map]
      congr 2
      conv => rhs; rw [← List.map_id ls]
      apply List.map_congr_left
      intro l _; rfl
    | org kw e => simp only [List.filterMap_cons, LItem.toS, SItem.toL, hr]
    | end_ kw e => exact absurd rfl (hb _ (List.mem_cons_self ..) kw e)

end AsmCompose
end Gmars
