/-
  C03 / C08: labels, EQUs and FOR blocks in ONE program, from BYTES.

      n equ 2
      start  mov bomb, <ptr
      i for n
             dat #i, #i+n
      rof
      bomb   dat #0
      ptr    dat #0, #start
             end start

  Stage theorems composed:

      bytes --decodeRunes--> characters --Lex.tokens--> tokens
            --forLoop--> tokens of the UNROLLED program (an `EProg`: labels, EQUs, asserts)
            --parse--> source lines --compile--> warrior
      items --Spec.unroll--> items of the unrolled program --Spec.meaningFlat--> meaning

    * `AProg` (AsmComposeAllProg.lean)   top level: the items of an `AsmComposeEqu.EProg` (labelled
          instructions — labels with or without colon —, EQU lines anywhere, ORG lines, `;assert`
          and comment lines, blank lines) and FOR blocks `ctr for count` … `rof`; the bodies of the
          blocks are `AsmComposeFor.FProg`s: label-free instructions and nested blocks, whose
          operand expressions may use the counters of the enclosing blocks and any top level label,
          EQU name or predefined constant; a count is a number literal, the counter of an enclosing
          block, or the name of an EQU defined IN FRONT of the block whose value is a number
          literal; an optional last line END
    * `AUnroll`, `BUnroll`               the manual unrolling `U` (a list of `EItem`s) and its
          number `k` of block expansions
    * `for_unroll_all` (AsmComposeAllPass.lean), `forLoop_all` (AsmComposeAllTok.lean)
          the FOR pass loop on the tokens of the program returns the tokens of the unrolled
          program: every block replaced by its unrolling, everything else untouched except that
          the colons behind the labels of a line in front of a block are dropped
    * `spec_unroll_all`, `spec_meaning_all` (AsmComposeAllProg.lean)
          `Spec.unroll` of the item program is the item list of the unrolled program
    * `parseCompile_equ`, **`assemble_meaning_all`** (here)

  Restrictions (exactly):
    * no labels on FOR and ROF lines, and none inside the bodies;
    * bodies consist of instruction lines and nested blocks only (no EQU / ORG / comment / blank
      lines inside a block), their operand expressions are expression templates `NT`;
    * a count is ONE token: a number literal, an enclosing counter, or the name of an EQU line in
      front of the block whose value is a number literal below 2^31;
    * the counter of a block is not the counter of a block inside it (counterexample in
      AsmComposeFor.lean);
    * `for` and `rof` in lower case; END only as the last line; comments on lines of their own;
    * at most 12 block expansions (finding F12: `assemble_all_too_deep` — with 13 or more
      `CompileWarrior` answers "for loop nesting too deep" whatever the reference says).

  Evaluated on the models (cfg: ICWS'94, core 8000, length 100) while fixing the family:
    * block labels referred to from outside (finding F13) — the statement is FALSE there:
          lab i for 2 / dat i / rof / jmp lab
      `assemble = .err`, `Spec.meaning = some [DAT 0,1; DAT 0,2; JMP -2]`; excluded (`for_ []`).
    * a label inside a body (`i for 2 / x dat i / rof`): both reject (the label is defined twice);
      an EQU used as a count but defined BEHIND the block (`i for n / dat i / rof / n equ 2`):
      both reject; a cyclic EQU table in front of a block with a literal count: both reject (the
      expander checks the whole table, the reference rejects cyclic tables, used or not).  These
      cases agree but are not covered by the theorem.
    * the colons behind labels: the expander drops them from the lines in front of the block it
      expands (`a: dat 0` comes out as `a dat 0`), and keeps them behind the last block; the
      unrolled program `U` of `AUnroll` records exactly that (`clearE`); the meaning is the same.
-/
import Gmars.Proofs.AsmComposeAllTok
import Gmars.Proofs.AsmComposeForBytes

namespace Gmars
namespace AsmComposeAll
open Gmars.AsmCompose Gmars.Render Gmars.AsmLine Gmars.ExprProofs Gmars.ForPass Gmars.Spec
open Gmars.AsmComposeFor Gmars.AsmComposeEqu

/-! ## 1. parser and compiler on a program with labels and EQUs (token level) -/

/-- the second half of `AsmComposeEqu.assemble_meaning_equ`: the parser and the compiler stage on the
    token rendering of an `EProg` return the reference meaning, or reject when the reference does -/
theorem parseCompile_equ (cfg : Config) (sc : Spec.Cfg) (p : EProg) (d : String → Nat)
    (hv : cfg.validate = true) (h63 : cfg.coreSize.toNat < 2 ^ 63) (hr : CfgRel cfg sc)
    (hlex : p.LexOK) (hnames : p.NamesOK)
    (hplain : ∀ cs k, EItem.comment cs k ∈ p.items → plainComment cs)
    (hnd : (p.labels ++ p.equNames ++ constNames).Nodup)
    (hcl : ∀ x ∈ p.names, x ∈ p.labels ∨ x ∈ p.equNames ∨ x ∈ constNames)
    (hsmall : xinstrCount p.xitems < 2 ^ 63)
    (hrk : ERanked (xequs p.xitems ++ Spec.predefined sc) d) (hlt : ∀ s, d s < 63)
    (hw : XProgWF lexString sc (xtables sc p.xitems) 0 p.xitems) :
    parseCompile cfg p.toP.tokens =
      match Spec.meaningFlat sc (p.xitems.map AsmLine.XItem.toItem) with
      | some m => .ok (toWD p.meta m)
      | none => .err := by
  have hOK : p.toP.OK := p.toP_OK hlex hnames hw.kw hnd hcl
  have hc : Compile.compileX lexString cfg p.toP.lines p.toP.metadata =
      Compile.optM ((Spec.meaningFlat sc (p.xitems.map AsmLine.XItem.toItem)).map
        (toWD p.toP.metadata)) := by
    rw [← compileX_norm, p.norm_lines hlex (p.commentOK hw hplain)]
    exact compileX_meaning_equ lexString cfg sc p.xitems _ d hv h63 hr hnd hsmall hrk hlt hw
  rw [parseCompile_of cfg _ p.toP.lines p.toP.metadata (parse_pprog p.toP hOK) _ hc]
  cases Spec.meaningFlat sc (p.xitems.map AsmLine.XItem.toItem) <;> rfl

/-! ## 2. source lines -/

/-- the canonical source lines of an item of the top level -/
def AItem.srcLines : AItem → List SrcLine
  | .item it => it.srcLines
  | .block c n body => (FProg.block c n body .nil).srcLines

def aitemsSrcLines : List AItem → List SrcLine
  | [] => []
  | i :: r => i.srcLines ++ aitemsSrcLines r

/-- **the canonical source lines**: words separated by one blank; a block is
    `ctr for count` / the lines of the body / `rof` -/
def AProg.srcLines (p : AProg) : List SrcLine :=
  List.replicate p.lead emptySrcLine ++ (aitemsSrcLines p.items ++ (p.unrolled []).finSrcLines)

/-- lexical conditions: those of `EProg.LexOK` for the items and the last line, and for the blocks
    those of `FProg.LexOK` (counters and count names are identifiers) -/
structure AProg.LexOK (p : AProg) : Prop where
  items : ∀ it, AItem.item it ∈ p.items → it.LexOK
  blocks : ∀ c n body, AItem.block c n body ∈ p.items → (FProg.block c n body .nil).LexOK
  fin : ∀ kw e, p.fin = some (kw, e) → identOK kw = true ∧ ∀ x, e = some x → ELexOK x ∧ x ≠ []

theorem AItem.toks_eq (i : AItem) (hlex : ∀ it, i = .item it → it.LexOK)
    (hblex : ∀ c n body, i = .block c n body → (FProg.block c n body .nil).LexOK)
    (hbok : ∀ c n body, i = .block c n body → (FProg.block c n body .nil).OK) :
    linesToks i.srcLines = i.toT.toks := by
  cases i with
  | item it => exact EItem.toks_eq (hlex it rfl)
  | block c n body =>
    simp only [AItem.srcLines, AItem.toT, TItem.toks]
    rw [FProg.linesToks_eq _ (hbok c n body rfl) (hblex c n body rfl), mkBlock_flat]
    rfl

theorem aitemsSrcLines_toks (items : List AItem) (hlex : ∀ it, AItem.item it ∈ items → it.LexOK)
    (hblex : ∀ c n body, AItem.block c n body ∈ items → (FProg.block c n body .nil).LexOK)
    (hbok : BlocksOK items) :
    linesToks (aitemsSrcLines items) = progToks (items.map AItem.toT) := by
  induction items with
  | nil => rfl
  | cons i r ih =>
    simp only [aitemsSrcLines, linesToks_append, List.map_cons, progToks_cons]
    rw [AItem.toks_eq i (fun it h => hlex it (by rw [h]; exact List.mem_cons_self ..))
        (fun c n b h => hblex c n b (by rw [h]; exact List.mem_cons_self ..))
        (fun c n b h => hbok c n b (by rw [h]; exact List.mem_cons_self ..)),
      ih (fun it h => hlex it (List.mem_cons_of_mem _ h))
        (fun c n b h => hblex c n b (List.mem_cons_of_mem _ h))
        (fun c n b h => hbok c n b (List.mem_cons_of_mem _ h))]

/-- the canonical source lines carry the tokens of the program -/
theorem AProg.linesToks_eq (p : AProg) (h : p.LexOK) (hbok : BlocksOK p.items) :
    linesToks p.srcLines ++ [Lex.eofTok] = p.tokens := by
  have hfin : linesToks (p.unrolled []).finSrcLines ++ [Lex.eofTok] =
      p.finTail ++ [ForPass.eofTok] := by
    have h0 : (p.unrolled []).LexOK := ⟨fun it hit => (by cases hit), h.fin⟩
    have := (p.unrolled []).linesToks_eq h0
    rw [unrolled_tokens] at this
    simp only [EProg.srcLines, AProg.unrolled, eitemsSrcLines, List.nil_append, linesToks_append,
      linesToks_replicate, List.map_nil, pitemsTokens, List.append_nil, List.append_assoc] at this
    exact List.append_cancel_left this
  simp only [AProg.srcLines, AProg.tokens, linesToks_append, linesToks_replicate,
    aitemsSrcLines_toks p.items h.items h.blocks hbok, List.append_assoc]
  rw [hfin]

/-- **lexer stage**: source lines that carry the words (and comments) of the program, with any
    leading blanks and any separators of blanks and tabs that keep the words apart, are lexed into
    the tokens of the program -/
theorem AProg.lex_tokens (p : AProg) (h : p.LexOK) (hbok : BlocksOK p.items) (ls : List SrcLine)
    (hls : ∀ l ∈ ls, l.ok (some '\n') = true) (hsame : SameLines ls p.srcLines) :
    Lex.tokens (renderLines ls) = p.tokens := by
  rw [lex_tokens_words ls hls, linesToks_sameWords hsame, p.linesToks_eq h hbok]

/-! ## 3. the composed theorem -/

theorem lexOK_of_clearE {it : EItem} (h : (clearE it).LexOK) : it.LexOK := by
  cases it with
  | instr ls op md a b k =>
    obtain ⟨h1, h2, h3, h4⟩ := h
    refine ⟨?_, h2, h3, h4⟩
    intro q hq
    exact h1 (q.1, false) (by
      simp only [clearLabels, List.mem_map]
      exact ⟨q, hq, rfl⟩)
  | equ n kw e k => exact h
  | org kw e k => exact h
  | assert cs e k => exact h
  | comment cs k => exact h

/-- the lexical conditions on the top level follow from those on the unrolled program -/
theorem AProg.lexOK_of_unrolled (p : AProg) {U : List EItem} {k : Nat} (hu : AUnroll [] p.items U k)
    (hlex : (p.unrolled U).LexOK)
    (hblex : ∀ c n body, AItem.block c n body ∈ p.items → (FProg.block c n body .nil).LexOK) :
    p.LexOK where
  items := by
    intro it hit
    rcases hu.mem_item it hit with h | h
    · exact hlex.items it h
    · exact lexOK_of_clearE (hlex.items _ h)
  blocks := hblex
  fin := hlex.fin

/-- **`assemble_meaning_all`** (C03 ∘ C08, from bytes) — labels, EQUs and FOR blocks in one program.

    `p : AProg` is a program whose top level consists of the items of an `EProg` — labelled
    instructions (labels with or without colon), EQU lines `name equ tokens` anywhere, ORG lines,
    `;assert` and comment lines, blank lines — and of FOR blocks `ctr for count` … `rof`,
    optionally followed by a last line END.  The body of a block is an `FProg`: label-free
    instructions and nested blocks (sequential, nested to any depth) whose operand expressions may
    use the counters of the enclosing blocks, top level labels, EQU names and predefined constants.
    A count is a number literal, the counter of an enclosing block, or the name of an EQU line that
    stands IN FRONT of the block and whose value is a number literal (`cntValue`).

    `U` is the manual unrolling of the top level (`AUnroll [] p.items U k`: every block replaced by
    the copies of its body with the counter replaced by the NUMBER 1, 2, …, copies unrolled in
    turn), `k ≤ 12` its number of block expansions.  `ls` is ANY list of source lines carrying the
    words of the program line by line (`SameLines ls p.srcLines`) with arbitrary leading blanks and
    separators of blanks and tabs (`SrcLine.ok`); `src` is any byte string the Go reader decodes to
    that text.

    Then `CompileWarrior` — reader, lexer, FOR pass loop, parser, compiler — returns the warrior of
    the reference meaning `Spec.meaning` of the item program (`p.toItems`, FOR blocks as
    `Spec.Item.for_` nodes, unrolled by the reference itself; labels get their positions after the
    unrolling), with the metadata of the comment lines, or an error exactly when the reference
    rejects the program.

    Hypotheses: `BlocksOK` / `hblex` (counters are label words and identifiers, no shadowing,
    body instructions lexically well-formed with an opcode word first), the fuel of `Spec.unroll`,
    and the hypotheses of `assemble_meaning_equ` on the UNROLLED program `p.unrolled U`. -/
theorem assemble_meaning_all (cfg : Config) (sc : Spec.Cfg) (p : AProg) (U : List EItem) (k : Nat)
    (d : String → Nat)
    (hu : AUnroll [] p.items U k) (hk : k ≤ 12) (hblocks : BlocksOK p.items)
    (hblex : ∀ c n body, AItem.block c n body ∈ p.items → (FProg.block c n body .nil).LexOK)
    (hfuel : U.length + k + 2 < 100000)
    (hv : cfg.validate = true) (h63 : cfg.coreSize.toNat < 2 ^ 63) (hr : CfgRel cfg sc)
    (hlex : (p.unrolled U).LexOK) (hnames : (p.unrolled U).NamesOK)
    (hplain : ∀ cs j, EItem.comment cs j ∈ (p.unrolled U).items → plainComment cs)
    (hnd : ((p.unrolled U).labels ++ (p.unrolled U).equNames ++ constNames).Nodup)
    (hcl : ∀ x ∈ (p.unrolled U).names,
      x ∈ (p.unrolled U).labels ∨ x ∈ (p.unrolled U).equNames ∨ x ∈ constNames)
    (hsmall : xinstrCount (p.unrolled U).xitems < 2 ^ 63)
    (hrk : ERanked (xequs (p.unrolled U).xitems ++ Spec.predefined sc) d) (hlt : ∀ s, d s < 63)
    (hw : XProgWF lexString sc (xtables sc (p.unrolled U).xitems) 0 (p.unrolled U).xitems)
    (ls : List SrcLine) (hls : ∀ l ∈ ls, l.ok (some '\n') = true) (hsame : SameLines ls p.srcLines)
    (src : List UInt8) (hsrc : decodeRunes src = renderLines ls) :
    assemble cfg src =
      match Spec.meaning sc p.toItems with
      | some m => .ok (toWD (p.unrolled U).meta m)
      | none => .err := by
  have hP : (p.unrolled U).toP.OK := (p.unrolled U).toP_OK hlex hnames hw.kw hnd hcl
  have htok : lexBytes src = p.tokens := by
    unfold lexBytes
    rw [hsrc, p.lex_tokens (p.lexOK_of_unrolled hu hlex hblex) hblocks ls hls hsame]
  have hndE : (p.unrolled U).equNames.Nodup :=
    (List.nodup_append.1 (List.nodup_append.1 hnd).1).2.1
  rw [assemble_eq_tokens, htok,
    assembleTokens_of_forLoop cfg _ _ (forLoop_all p U k hu hk hblocks hP sc d hndE hrk),
    parseCompile_equ cfg sc (p.unrolled U) d hv h63 hr hlex hnames hplain hnd hcl hsmall hrk hlt hw,
    spec_meaning_all sc p hu hfuel]

/-- with 13 or more block expansions `CompileWarrior` gives up, whatever the reference says
    (finding F12) -/
theorem assemble_all_too_deep (cfg : Config) (sc : Spec.Cfg) (p : AProg) (U : List EItem) (k : Nat)
    (d : String → Nat)
    (hu : AUnroll [] p.items U k) (hk : 13 ≤ k) (hblocks : BlocksOK p.items)
    (hblex : ∀ c n body, AItem.block c n body ∈ p.items → (FProg.block c n body .nil).LexOK)
    (hlex : (p.unrolled U).LexOK) (hP : (p.unrolled U).toP.OK)
    (hnd : (p.unrolled U).equNames.Nodup)
    (hrk : ERanked (xequs (p.unrolled U).xitems ++ Spec.predefined sc) d)
    (ls : List SrcLine) (hls : ∀ l ∈ ls, l.ok (some '\n') = true) (hsame : SameLines ls p.srcLines)
    (src : List UInt8) (hsrc : decodeRunes src = renderLines ls) :
    assemble cfg src = .err := by
  have htok : lexBytes src = p.tokens := by
    unfold lexBytes
    rw [hsrc, p.lex_tokens (p.lexOK_of_unrolled hu hlex hblex) hblocks ls hls hsame]
  rw [assemble_eq_tokens, htok]
  unfold assembleTokens
  rw [forLoop_all_too_deep p U k hu hk hblocks hP sc d hnd hrk]

/-- `assemble_meaning_all` for ASCII text given as characters -/
theorem assemble_meaning_all_ascii (cfg : Config) (sc : Spec.Cfg) (p : AProg) (U : List EItem)
    (k : Nat) (d : String → Nat)
    (hu : AUnroll [] p.items U k) (hk : k ≤ 12) (hblocks : BlocksOK p.items)
    (hblex : ∀ c n body, AItem.block c n body ∈ p.items → (FProg.block c n body .nil).LexOK)
    (hfuel : U.length + k + 2 < 100000)
    (hv : cfg.validate = true) (h63 : cfg.coreSize.toNat < 2 ^ 63) (hr : CfgRel cfg sc)
    (hlex : (p.unrolled U).LexOK) (hnames : (p.unrolled U).NamesOK)
    (hplain : ∀ cs j, EItem.comment cs j ∈ (p.unrolled U).items → plainComment cs)
    (hnd : ((p.unrolled U).labels ++ (p.unrolled U).equNames ++ constNames).Nodup)
    (hcl : ∀ x ∈ (p.unrolled U).names,
      x ∈ (p.unrolled U).labels ∨ x ∈ (p.unrolled U).equNames ∨ x ∈ constNames)
    (hsmall : xinstrCount (p.unrolled U).xitems < 2 ^ 63)
    (hrk : ERanked (xequs (p.unrolled U).xitems ++ Spec.predefined sc) d) (hlt : ∀ s, d s < 63)
    (hw : XProgWF lexString sc (xtables sc (p.unrolled U).xitems) 0 (p.unrolled U).xitems)
    (ls : List SrcLine) (hls : ∀ l ∈ ls, l.ok (some '\n') = true) (hsame : SameLines ls p.srcLines)
    (hascii : ∀ c ∈ renderLines ls, c.toNat < 128) :
    assemble cfg (asciiBytes (renderLines ls)) =
      match Spec.meaning sc p.toItems with
      | some m => .ok (toWD (p.unrolled U).meta m)
      | none => .err :=
  assemble_meaning_all cfg sc p U k d hu hk hblocks hblex hfuel hv h63 hr hlex hnames hplain hnd hcl
    hsmall hrk hlt hw ls hls hsame _ (decodeRunes_ascii _ hascii)

/-- `assemble_meaning_all` for the UTF-8 encoding (`String.toUTF8`) of the text; comment lines may
    contain any characters -/
theorem assemble_meaning_all_utf8 (cfg : Config) (sc : Spec.Cfg) (p : AProg) (U : List EItem)
    (k : Nat) (d : String → Nat)
    (hu : AUnroll [] p.items U k) (hk : k ≤ 12) (hblocks : BlocksOK p.items)
    (hblex : ∀ c n body, AItem.block c n body ∈ p.items → (FProg.block c n body .nil).LexOK)
    (hfuel : U.length + k + 2 < 100000)
    (hv : cfg.validate = true) (h63 : cfg.coreSize.toNat < 2 ^ 63) (hr : CfgRel cfg sc)
    (hlex : (p.unrolled U).LexOK) (hnames : (p.unrolled U).NamesOK)
    (hplain : ∀ cs j, EItem.comment cs j ∈ (p.unrolled U).items → plainComment cs)
    (hnd : ((p.unrolled U).labels ++ (p.unrolled U).equNames ++ constNames).Nodup)
    (hcl : ∀ x ∈ (p.unrolled U).names,
      x ∈ (p.unrolled U).labels ∨ x ∈ (p.unrolled U).equNames ∨ x ∈ constNames)
    (hsmall : xinstrCount (p.unrolled U).xitems < 2 ^ 63)
    (hrk : ERanked (xequs (p.unrolled U).xitems ++ Spec.predefined sc) d) (hlt : ∀ s, d s < 63)
    (hw : XProgWF lexString sc (xtables sc (p.unrolled U).xitems) 0 (p.unrolled U).xitems)
    (ls : List SrcLine) (hls : ∀ l ∈ ls, l.ok (some '\n') = true) (hsame : SameLines ls p.srcLines) :
    assemble cfg (String.ofList (renderLines ls)).toUTF8.data.toList =
      match Spec.meaning sc p.toItems with
      | some m => .ok (toWD (p.unrolled U).meta m)
      | none => .err :=
  assemble_meaning_all cfg sc p U k d hu hk hblocks hblex hfuel hv h63 hr hlex hnames hplain hnd hcl
    hsmall hrk hlt hw ls hls hsame _ (decodeRunes_toUTF8 _)

end AsmComposeAll
end Gmars
