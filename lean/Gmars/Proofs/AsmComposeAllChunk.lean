/-
  C03 / C08, labels + EQUs + FOR blocks in ONE program, part (a2): the items of the parser-level
  programs (`AsmComposeEqu.PItem`: labelled instructions — every label optionally followed by a
  colon —, comment lines, ORG lines, EQU lines, each with trailing blank lines) are chunks of the
  FOR pass loop (`AsmComposeAll.Chunk`).

    * `clearP`        the item without the colons behind its labels: that is how the FOR expander
                      sends an instruction line on when it stands in front of the block it expands
                      (`forConsumeLabels` skips colons and writes the labels without them)
    * `chunk_pitem`   `Chunk it.tokens (clearP it).tokens (pitemsEqus [it])`
-/
import Gmars.Proofs.AsmComposeAllPass
import Gmars.Proofs.AsmComposeEquScan

namespace Gmars
namespace AsmComposeAll
open Gmars.ForPass Gmars.ForExpand Gmars.Scan Gmars.Render Gmars.AsmCompose Gmars.AsmComposeEqu

/-! ## the item without colons -/

def clearLabels (ls : List (String × Bool)) : List (String × Bool) := ls.map (fun p => (p.1, false))

def clearStmt (s : Stmt) : Stmt := { s with labels := clearLabels s.labels }

def clearP : PItem → PItem
  | .x (.base (.stmt s)) => .x (.base (.stmt (clearStmt s)))
  | it => it

theorem clearLabels_idem (ls : List (String × Bool)) : clearLabels (clearLabels ls) = clearLabels ls := by
  simp [clearLabels, List.map_map]

theorem clearP_idem (it : PItem) : clearP (clearP it) = clearP it := by
  cases it with
  | equ name kw toks k => rfl
  | x it =>
    cases it with
    | org kw toks k => rfl
    | base it =>
      cases it with
      | comment v k => rfl
      | stmt s => simp [clearP, clearStmt, clearLabels_idem]

theorem clearP_OK {it : PItem} (h : it.OK) : (clearP it).OK := by
  cases it with
  | equ name kw toks k => exact h
  | x it =>
    cases it with
    | org kw toks k => exact h
    | base it =>
      cases it with
      | comment v k => exact h
      | stmt s =>
        obtain ⟨h1, h2, h3, h4⟩ := h
        refine ⟨?_, h2, h3, h4⟩
        intro l hl
        simp only [clearStmt, clearLabels, List.mem_map] at hl
        obtain ⟨p, hp, rfl⟩ := hl
        exact h1 p hp

theorem clearP_equs (it : PItem) : pitemsEqus [clearP it] = pitemsEqus [it] := by
  cases it with
  | equ name kw toks k => rfl
  | x it =>
    cases it with
    | org kw toks k => rfl
    | base it =>
      cases it with
      | comment v k => rfl
      | stmt s => rfl

theorem labelTokens_clear (ls : List (String × Bool)) :
    labelTokens (clearLabels ls) = labelToks (ls.map (·.1)) := by
  induction ls with
  | nil => rfl
  | cons p r ih =>
    obtain ⟨l, c⟩ := p
    simp only [clearLabels, List.map_cons, labelTokens, labelToks] at ih ⊢
    simp [ih]

/-- `k` blank lines, with the newline token of the parser-level programs -/
theorem chunk_nls' (k : Nat) : Chunk (List.replicate k nlTok) (List.replicate k nlTok) [] :=
  chunk_nls k

/-! ## the expander on an instruction line whose labels may be followed by colons -/

theorem cl_colon (e : List Token → SymTab → EvalRes) (sy : SymTab) (t : Token) (r : List Token)
    (lb : List String) (o : Out) :
    consumeLabels e sy colonTok (t :: r) lb o = consumeLabels e sy t r lb o := by
  rw [consumeLabels]
  simp [colonTok]

theorem runCL_labels (e : List Token → SymTab → EvalRes) (sy : SymTab) (opl : List Token)
    (nl t : Token) (r : List Token) (hl : ∀ x ∈ opl, InLine x) (hnl : nl.typ = .newline)
    (hk : lineKind opl = .op) :
    ∀ (ls : List (String × Bool)) (lb : List String) (o : Out), (∀ l ∈ ls, IsLabelName l.1) →
      runCL e sy (labelTokens ls ++ (opl ++ nl :: t :: r)) lb o =
        runLine e sy (t :: r) (emits (o.emitLabels (lb ++ ls.map (·.1))) (opl ++ [nl])) := by
  intro ls
  induction ls with
  | nil =>
    intro lb o _
    simpa [labelTokens] using runCL_line e sy opl nl t r lb o hl hnl (Or.inl hk)
  | cons p ls ih =>
    obtain ⟨l, c⟩ := p
    intro lb o hlab
    have hl0 : IsLabelName l := hlab (l, c) (by simp)
    have hrec := ih (lb ++ [l]) o (fun x hx => hlab x (by simp [hx]))
    obtain ⟨x, xs, hx⟩ : ∃ x xs, labelTokens ls ++ (opl ++ nl :: t :: r) = x :: xs := by
      cases h : labelTokens ls ++ (opl ++ nl :: t :: r) with
      | nil => simp at h
      | cons x xs => exact ⟨x, xs, rfl⟩
    rw [hx] at hrec
    rw [runCL] at hrec
    have hlt : isLabelTok (⟨.text, l⟩ : Token) = true := isLabelTok_of_name hl0
    cases c with
    | false =>
      simp only [labelTokens, Bool.false_eq_true, if_false, List.nil_append, List.cons_append,
        List.map_cons]
      rw [hx, runCL, cl_label e sy _ _ _ _ _ hlt, hrec]
      simp
    | true =>
      simp only [labelTokens, if_true, List.cons_append, List.nil_append, List.map_cons]
      rw [hx, runCL, cl_label e sy _ _ _ _ _ hlt, cl_colon, hrec]
      simp

/-- the tokens of a statement whose labels carry no colon -/
theorem clearStmt_tokens (s : Stmt) :
    (clearStmt s).tokens = labelToks (s.labels.map (·.1)) ++
      ((⟨.text, s.op⟩ : Token) :: (stmtArgs s ++ [nlTok])) ++ List.replicate s.blanks nlTok := by
  simp [Stmt.tokens, clearStmt, labelTokens_clear, stmtArgs, Stmt.bTokens]

theorem runLine_stmt (e : List Token → SymTab → EvalRes) (sy : SymTab) (s : Stmt) (hs : s.OK)
    (y : Token) (ys : List Token) (o : Out) :
    runLine e sy (s.tokens ++ y :: ys) o = runLine e sy (y :: ys) (emits o (clearStmt s).tokens) := by
  rw [stmt_tokens_eq]
  have hopl : ∀ x ∈ (⟨.text, s.op⟩ : Token) :: stmtArgs s, InLine x := by
    intro x hx
    rcases List.mem_cons.1 hx with rfl | hx
    · exact inLine_text s.op
    · exact inLine_stmtArgs s hs x hx
  have hk : lineKind ((⟨.text, s.op⟩ : Token) :: stmtArgs s) = .op := by
    have h1 : (⟨.text, s.op⟩ : Token).isOp = true := hs.2.1.1
    have h2 : (⟨.text, s.op⟩ : Token).isPseudoOp = false := hs.2.1.2
    simp [lineKind, h1, h2]
  obtain ⟨t, r, htr⟩ : ∃ t r, List.replicate s.blanks nlTok ++ y :: ys = t :: r := by
    cases h : List.replicate s.blanks nlTok ++ y :: ys with
    | nil => simp at h
    | cons t r => exact ⟨t, r, rfl⟩
  have hmain := runCL_labels e sy ((⟨.text, s.op⟩ : Token) :: stmtArgs s) nlTok t r hopl rfl hk
    s.labels [] o hs.1
  -- the line starts with a text token: `forLine` goes to `forConsumeLabels`
  obtain ⟨x, xs, hx, hxt⟩ : ∃ x xs, labelTokens s.labels ++
      (((⟨.text, s.op⟩ : Token) :: stmtArgs s) ++ nlTok :: t :: r) = x :: xs ∧ x.typ = .text := by
    cases hl : s.labels with
    | nil => exact ⟨_, _, rfl, rfl⟩
    | cons p ps =>
      obtain ⟨l, c⟩ := p
      exact ⟨⟨.text, l⟩, _, rfl, rfl⟩
  have hstart : runLine e sy (x :: xs) o = runCL e sy (x :: xs) [] o := by
    simp [runLine, runCL, forLine, hxt]
  have e1 : labelTokens s.labels ++ (⟨.text, s.op⟩ : Token) ::
      (stmtArgs s ++ nlTok :: (List.replicate s.blanks nlTok ++ y :: ys)) = x :: xs := by
    rw [← hx, htr]; simp
  rw [e1, hstart, ← hx, hmain, ← htr, (chunk_nls' s.blanks).pass e sy y ys, clearStmt_tokens,
    emitLabels_eq, List.nil_append]
  rw [← emits_append, ← emits_append]
  congr 2
  simp

/-! ## the items are chunks -/

theorem fresh_pitem {it : PItem} {s : SymTab} (h : Fresh (pitemsEqus [it]) s) :
    ∀ x ∈ (pitemsEqus [it]).map (·.1), x ∉ s.map (·.1) := by
  intro x hx hs
  exact (List.nodup_append.1 h).2.2 x hs x hx rfl

theorem noTerm_of_inLine {l : List Token} (h : ∀ t ∈ l, InLine t) : ∀ t ∈ l, t.isTerm = false :=
  fun t ht => (h t ht).isTerm

theorem noTerm_nls (k : Nat) : ∀ t ∈ List.replicate k nlTok, t.isTerm = false := by
  intro t ht
  rw [(List.mem_replicate.1 ht).2]; rfl

theorem pitem_noTerm {it : PItem} (h : it.OK) : ∀ t ∈ it.tokens, t.isTerm = false := by
  cases it with
  | equ name kw toks k =>
    obtain ⟨_, _, _, hts⟩ := h
    intro t ht
    simp only [PItem.tokens, List.mem_cons, List.mem_append] at ht
    rcases ht with rfl | rfl | ht | rfl | ht
    · rfl
    · rfl
    · exact (inLine_of_exprTerm (hts t ht)).isTerm
    · rfl
    · exact noTerm_nls k t ht
  | x it =>
    cases it with
    | org kw toks k =>
      obtain ⟨_, _, hts⟩ := h
      intro t ht
      simp only [PItem.tokens, AsmCompose.XItem.tokens, List.mem_cons, List.mem_append] at ht
      rcases ht with rfl | ht | rfl | ht
      · rfl
      · exact (inLine_of_exprTerm (hts t ht)).isTerm
      · rfl
      · exact noTerm_nls k t ht
    | base it =>
      cases it with
      | comment v k =>
        intro t ht
        simp only [PItem.tokens, AsmCompose.XItem.tokens, Item.tokens, List.mem_cons] at ht
        rcases ht with rfl | rfl | ht
        · rfl
        · rfl
        · exact noTerm_nls k t ht
      | stmt s =>
        intro t ht
        have hs : s.OK := h
        have := stmt_tokens_eq s []
        simp only [List.append_nil] at this
        simp only [PItem.tokens, AsmCompose.XItem.tokens, Item.tokens] at ht
        rw [this] at ht
        simp only [List.mem_append, List.mem_cons] at ht
        rcases ht with ht | rfl | ht | rfl | ht
        · exact (inLine_labelTokens s.labels t ht).isTerm
        · rfl
        · exact (inLine_stmtArgs s hs t ht).isTerm
        · rfl
        · exact noTerm_nls s.blanks t ht

theorem runLine_pitem (e : List Token → SymTab → EvalRes) (sy : SymTab) (it : PItem) (h : it.OK)
    (y : Token) (ys : List Token) (o : Out) :
    runLine e sy (it.tokens ++ y :: ys) o = runLine e sy (y :: ys) (emits o (clearP it).tokens) := by
  have hline : ∀ (l : Line) (k : Nat), l.WF → PassLine l.toks → l.nl = nlTok →
      runLine e sy ((l.toks ++ nlTok :: List.replicate k nlTok) ++ y :: ys) o =
        runLine e sy (y :: ys) (emits o (l.toks ++ nlTok :: List.replicate k nlTok)) := by
    intro l k hwf hp hnl
    obtain ⟨t, r, htr⟩ : ∃ t r, List.replicate k nlTok ++ y :: ys = t :: r := by
      cases h : List.replicate k nlTok ++ y :: ys with
      | nil => simp at h
      | cons t r => exact ⟨t, r, rfl⟩
    have h1 := runLine_passLine e sy l t r o hwf hp
    simp only [Line.flat, hnl] at h1
    have e1 : (l.toks ++ nlTok :: List.replicate k nlTok) ++ y :: ys = (l.toks ++ [nlTok]) ++ t :: r := by
      rw [← htr]; simp
    rw [e1, h1, ← htr, (chunk_nls' k).pass e sy y ys]
    rw [← emits_append]
    congr 1
    simp [nlTok]
  cases it with
  | equ name kw toks k =>
    obtain ⟨hl, hk, _, hts⟩ := h
    have := hline ⟨(⟨.text, name⟩ : Token) :: (⟨.text, kw⟩ : Token) :: toks, nlTok⟩ k
      ⟨rfl, fun t ht => by
        simp only [List.mem_cons] at ht
        rcases ht with rfl | rfl | ht
        · exact inLine_text name
        · exact inLine_text kw
        · exact inLine_of_exprTerm (hts t ht)⟩
      (Or.inr (Or.inr (Or.inr (lineKind_equ [(⟨.text, name⟩ : Token)] ⟨.text, kw⟩ toks
        (fun x hx => by rw [List.mem_singleton.1 hx]; exact isLabelTok_of_name hl) rfl hk)))) rfl
    simpa [PItem.tokens, clearP] using this
  | x it =>
    cases it with
    | org kw toks k =>
      obtain ⟨hk, _, hts⟩ := h
      have hp : (⟨.text, kw⟩ : Token).isPseudoOp = true := isPseudoOp_of_lower hk (Or.inl rfl)
      have := hline ⟨(⟨.text, kw⟩ : Token) :: toks, nlTok⟩ k
        ⟨rfl, fun t ht => by
          simp only [List.mem_cons] at ht
          rcases ht with rfl | ht
          · exact inLine_text kw
          · exact inLine_of_exprTerm (hts t ht)⟩
        (Or.inr (Or.inr (Or.inr (by simp [lineKind, hp, hk])))) rfl
      simpa [PItem.tokens, AsmCompose.XItem.tokens, clearP] using this
    | base it =>
      cases it with
      | comment v k =>
        have := hline ⟨[(⟨.comment, v⟩ : Token)], nlTok⟩ k
          ⟨rfl, fun t ht => by
            simp only [List.mem_singleton] at ht; subst ht; unfold InLine; simp⟩
          (Or.inl (fun x hx => by
            simp only [List.head?_cons, Option.mem_def, Option.some.injEq] at hx
            subst hx; simp)) rfl
        simpa [PItem.tokens, AsmCompose.XItem.tokens, Item.tokens, clearP] using this
      | stmt s => exact runLine_stmt e sy s h y ys o

/-- **every item of a parser-level program is a chunk of the pass loop**: the scanner reads through
    it and records its EQU definition, the expander sends it through without its colons -/
theorem chunk_pitem (it : PItem) (h : it.OK) :
    Chunk it.tokens (clearP it).tokens (pitemsEqus [it]) where
  noTerm := pitem_noTerm h
  noTerm' := pitem_noTerm (clearP_OK h)
  scan := fun rest s hf => runScan_pitem it h rest s (fresh_pitem hf)
  pass := fun e sy y ys o => runLine_pitem e sy it h y ys o

/-- … and its colon-free form is a stable chunk -/
theorem chunk_pitem_clear (it : PItem) (h : it.OK) :
    Chunk (clearP it).tokens (clearP it).tokens (pitemsEqus [it]) := by
  have := chunk_pitem (clearP it) (clearP_OK h)
  rw [clearP_idem, clearP_equs] at this
  exact this

end AsmComposeAll
end Gmars
