/-
  C03 / C08, labels + EQUs + FOR blocks in ONE program, part (a3): the count of a FOR line when EQU
  symbols are defined in front of it.

  `ExpandAndEvaluate(count, symbols)` first checks the WHOLE symbol table for cycles and resolves
  EVERY symbol (so a cyclic table in front of a FOR line is an error whatever the count is), then
  replaces the names in the count and evaluates.

    * `eval_count_lit`    a number literal below 2^31 evaluates to itself, with any acyclic table
    * `eval_count_name`   an EQU name whose value is a number literal evaluates to that number
    * `acyclic_prefix`    the EQU lines in front of a FOR line form an acyclic table when the EQU
                          table of the whole (unrolled) program is ranked and its names are distinct
-/
import Gmars.Proofs.ForPassEval
import Gmars.Proofs.AsmEqu

namespace Gmars
namespace AsmComposeAll
open Gmars.ForPass Gmars.ExprProofs Gmars.AsmLine

theorem evaluate_numTok (m : Nat) (h : m < 2 ^ 31) : evaluateExpression [numTok m] = .ok (m : Int) := by
  rw [← expandAndEvaluate_nil]; exact eval_numTok m h

theorem iterT_numTok (V : SymTab) (k m : Nat) : iterT V k [numTok m] = [numTok m] := by
  apply iterT_keyfree
  intro t ht htx
  rw [List.mem_singleton.1 ht] at htx
  simp [numTok] at htx

/-- a literal count, with EQU symbols defined in front of the FOR line -/
theorem eval_count_lit (V : SymTab) (hc : graphContainsCycle (buildReferenceGraph V) = false)
    (m : Nat) (h : m < 2 ^ 31) : expandAndEvaluate [numTok m] V = .ok (m : Int) := by
  obtain ⟨resolved, hres, _⟩ := expandExpressions_full hc
  unfold expandAndEvaluate
  simp only [hc, Bool.false_eq_true, ↓reduceIte, hres]
  have ht : ((numTok m).typ == TokType.text) = false := rfl
  simp only [List.flatMap_cons, List.flatMap_nil, List.append_nil, ht, Bool.false_eq_true,
    ↓reduceIte]
  exact evaluate_numTok m h

/-- a count that is the name of an EQU whose value is a number literal -/
theorem eval_count_name (V : SymTab) (hc : graphContainsCycle (buildReferenceGraph V) = false)
    (n : String) (m : Nat) (hget : V.get? n = some [numTok m]) (h : m < 2 ^ 31) :
    expandAndEvaluate [(⟨.text, n⟩ : Token)] V = .ok (m : Int) := by
  obtain ⟨resolved, hres, hall⟩ := expandExpressions_full hc
  unfold expandAndEvaluate
  simp only [hc, Bool.false_eq_true, ↓reduceIte, hres]
  have hr : resolved.get? n = some [numTok m] := by
    rw [hall n, hget, Option.map_some, iterT_numTok]
  simp only [List.flatMap_cons, List.flatMap_nil, List.append_nil, beq_self_eq_true, ↓reduceIte, hr]
  exact evaluate_numTok m h

/-! ## the tables in front of the FOR lines are acyclic -/

theorem etab_get?_append_left {Q R : ETab} {k : String} {v : List Spec.ETok}
    (h : Q.get? k = some v) : (Q ++ R).get? k = some v := by
  unfold ETab.get? at *
  rw [List.find?_append]
  cases hf : Q.find? (·.1 == k) with
  | none => rw [hf] at h; cases h
  | some x => rw [hf] at h; simpa using h

theorem eranked_prefix {Q R : ETab} {d : String → Nat} (h : ERanked (Q ++ R) d) : ERanked Q d := by
  intro k v hkv s hs hsome
  refine h k v (etab_get?_append_left hkv) s hs ?_
  cases hq : Q.get? s with
  | none => rw [hq] at hsome; cases hsome
  | some w => rw [etab_get?_append_left hq]; rfl

/-- the rendered table of a prefix of a ranked EQU table with distinct names is acyclic -/
theorem acyclic_prefix {Q R : ETab} {d : String → Nat} (hr : ERanked (Q ++ R) d)
    (hnd : (Q.map (·.1)).Nodup) :
    graphContainsCycle (buildReferenceGraph (Q.map rendEqu)) = false :=
  acyclic_of_tranked (by rw [rendEqu_keys]; exact hnd)
    (ERanked.tranked (tabRel_rend Q) (eranked_prefix hr))

end AsmComposeAll
end Gmars
