/-
  The hypotheses of `assemble_meaning_all` are satisfiable: a program with an EQU used as the count
  of a FOR block, a label (followed by a colon, in front of the block) that the body of the block
  refers to, the counter used in the body, a comment line, and END with a label — from bytes, with
  an odd spacing:

      "n  equ 2\n; two bombs\na:dat\tn\n  i for  n\n\tdat i ,a\n rof\n  end a\n"

  `CompileWarrior` returns the reference meaning `Spec.meaning` of the item program with its
  `Spec.Item.for_` node (DAT 0, 2 / DAT 1, -1 / DAT 2, -2, start 0).

  Second example (`Two`): the program of the task statement,

      n equ 2 / start mov bomb, <ptr / i for n / dat #i, #i+n / rof / bomb dat #0 /
      ptr dat #0, #start / end start

  in its canonical one-blank rendering: every hypothesis of `assemble_meaning_all` is discharged.
-/
import Gmars.Proofs.AsmComposeAll
import Gmars.Proofs.EquExample

namespace Gmars.AsmComposeAll.Example
open Gmars Gmars.Render Gmars.AsmLine Gmars.AsmCompose Gmars.AsmComposeEqu Gmars.AsmComposeFor
open Gmars.AsmComposeAll Gmars.AsmLine.EquExample Gmars.ExprProofs Gmars.Spec

def opnd (e : NT) : LOperand := { mode := none, expr := e }
def dat (a b : NT) : FInstr := { op := "dat", md := none, a := opnd a, b := some (opnd b) }

/-- the body of the block: `dat i, a` -/
def body : FProg := .instr (dat (.name "i") (.name "a")) .nil

open Spec.ETok in
/-- the program -/
def progA : AProg :=
  { items := [
      .item (.equ "n" "equ" [num 2] 0),
      .item (.comment " two bombs".toList 0),
      .item (.instr [("a", true)] "dat" none ⟨none, [name "n"]⟩ none 0),
      .block "i" (.ctr "n") body ],
    fin := some ("end", some [name "a"]) }

open Spec.ETok in
/-- its manual unrolling: the line in front of the block has lost its colon -/
def progU : List EItem :=
  [ .equ "n" "equ" [num 2] 0,
    .comment " two bombs".toList 0,
    .instr [("a", false)] "dat" none ⟨none, [name "n"]⟩ none 0,
    toE (dat (.num 1) (.name "a")),
    toE (dat (.num 2) (.name "a")) ]

abbrev progP : EProg := progA.unrolled progU

/-- the item program the reference reads -/
example : progA.toItems =
    [.equ "n" [.num 2],
     .instr ["a"] "dat" none ⟨none, [.name "n"]⟩ none,
     .for_ [] "i" [.name "n"] [.instr [] "dat" none ⟨none, [.name "i"]⟩ (some ⟨none, [.name "a"]⟩)],
     .end_ (some [.name "a"])] := rfl

theorem unroll : AUnroll [] progA.items progU 1 := by
  refine AUnroll.item (AUnroll.item (AUnroll.item ?_))
  have h := AUnroll.block (eqs := [("n", [Spec.ETok.num 2])]) (c := "i") (cnt := .ctr "n")
    (body := body) (r := []) (U := []) (k := 0) 2
    (fun j => [dat (.num (j + 1)) (.name "a")]) (fun _ => 0) rfl (by decide)
    (by
      intro j _
      have e : body.subst "i" (j + 1) = .instr (dat (.num (j + 1)) (.name "a")) .nil := by
        simp [body, FProg.subst, FInstr.subst, LOperand.subst, dat, opnd, substCtr]
      rw [e]
      exact BUnroll.instr BUnroll.nil)
    (AUnroll.nil _)
  exact h

theorem dat_lexOK (a b : NT) (ha : NTLexOK a) (hb : NTLexOK b) : (dat a b).LexOK := by
  refine And.intro (fun _ h => by cases h) (And.intro ?_ (And.intro ha ?_))
  · show identOK "dat" = true
    decide
  intro bo h
  cases h
  exact hb

theorem blocksOK : BlocksOK progA.items := by
  intro c n b h
  simp only [progA, List.mem_cons, List.not_mem_nil, or_false, reduceCtorEq, false_or,
    AItem.block.injEq] at h
  obtain ⟨rfl, rfl, rfl⟩ := h
  exact ⟨by decide, by decide,
    ⟨dat_lexOK _ _ (by decide) (by decide), (by show IsOpName "dat"; decide), trivial⟩, trivial⟩

theorem blocksLex : ∀ c n b, AItem.block c n b ∈ progA.items → (FProg.block c n b .nil).LexOK := by
  intro c n b h
  simp only [progA, List.mem_cons, List.not_mem_nil, or_false, reduceCtorEq, false_or,
    AItem.block.injEq] at h
  obtain ⟨rfl, rfl, rfl⟩ := h
  exact ⟨by decide, fun s hs => by cases hs; decide, trivial, trivial⟩

/-! ### the side conditions on the unrolled program -/

abbrev tP : Spec.Tables := xtables scE progP.xitems

theorem goodX_mk {k : Nat} {e : List Spec.ETok} (hsize : SizeOK tP.equs e)
    (x out : List Spec.ETok) (c : CST) (h1 : Spec.expandEqus 64 tP.equs e = some x)
    (h2 : Spec.substLabels scE tP k x = some out) (hwf : WFprec c) (hnb : NoBigLit c)
    (hc : c.etoks = out) : GoodX scE tP k e where
  size := hsize
  tree := by
    intro x' out' h1' h2'
    rw [h1] at h1'; cases h1'
    rw [h2] at h2'; cases h2'
    exact ⟨c, hwf, hnb, hc⟩

theorem sizeP (e : List Spec.ETok) (h : ∀ j, j ≤ 3 → (iterE tP.equs j e).length ≤ 20000)
    (hk : keyFreeB tP.equs (iterE tP.equs 3 e) = true) : SizeOK tP.equs e :=
  sizeOK_of_keyfree 3 ((keyFreeB_iff _ _).1 hk) h

theorem progP_wf : XProgWF lexString scE tP 0 progP.xitems := by
  refine ⟨?_, ?_, ?_, ?_, ?_, trivial⟩
  · exact ⟨by decide, sizeP _ (le3 (by decide) (by decide) (by decide) (by decide)) (by decide)⟩
  · refine ⟨ascii_dat, by decide, (fun s h => by cases h), ?_, (fun bo h => by cases h)⟩
    exact goodX_mk (sizeP _ (le3 (by decide) (by decide) (by decide) (by decide)) (by decide))
      [.num 2] [.num 2] (.num 2) (by decide) (by decide) trivial (lit_big 2 (by omega)) rfl
  · refine ⟨ascii_dat, by decide, (fun s h => by cases h), ?_, ?_⟩
    · exact goodX_mk (sizeP _ (le3 (by decide) (by decide) (by decide) (by decide)) (by decide))
        [.num 1] [.num 1] (.num 1) (by decide) (by decide) trivial (lit_big 1 (by omega)) rfl
    · intro bo h
      cases h
      exact goodX_mk (sizeP _ (le3 (by decide) (by decide) (by decide) (by decide)) (by decide))
        [.name "a"] [.op "-", .num 1] (.signs [true] (.num 1)) (by decide) (by decide)
        ⟨rfl, trivial⟩ (lit_big 1 (by omega)) rfl
  · refine ⟨ascii_dat, by decide, (fun s h => by cases h), ?_, ?_⟩
    · exact goodX_mk (sizeP _ (le3 (by decide) (by decide) (by decide) (by decide)) (by decide))
        [.num 2] [.num 2] (.num 2) (by decide) (by decide) trivial (lit_big 2 (by omega)) rfl
    · intro bo h
      cases h
      exact goodX_mk (sizeP _ (le3 (by decide) (by decide) (by decide) (by decide)) (by decide))
        [.name "a"] [.op "-", .num 2] (.signs [true] (.num 2)) (by decide) (by decide)
        ⟨rfl, trivial⟩ (lit_big 2 (by omega)) rfl
  · refine ⟨by decide, ?_⟩
    intro x h
    cases h
    exact goodX_mk (sizeP _ (le3 (by decide) (by decide) (by decide) (by decide)) (by decide))
      [.name "a"] [.num 0] (.num 0) (by decide) (by decide) trivial (lit_big 0 (by omega)) rfl

theorem progP_ranked : ERanked (xequs progP.xitems ++ Spec.predefined scE) (fun _ => 0) := by
  intro k v hkv s hsv _
  exfalso
  unfold ETab.get? at hkv
  cases hf : (xequs progP.xitems ++ Spec.predefined scE).find? (·.1 == k) with
  | none => rw [hf] at hkv; cases hkv
  | some q =>
    rw [hf] at hkv
    have hm := List.mem_of_find?_eq_some hf
    simp only [Option.map_some, Option.some.injEq] at hkv
    subst hkv
    have hm' : q ∈ [("n", [Spec.ETok.num 2]), ("CORESIZE", [.num 8000]), ("MAXLENGTH", [.num 100]),
        ("MAXPROCESSES", [.num 8000]), ("MINDISTANCE", [.num 100])] := hm
    simp only [List.mem_cons, List.not_mem_nil, or_false] at hm'
    rcases hm' with rfl | rfl | rfl | rfl | rfl <;> simp at hsv

theorem progP_plain : ∀ cs k, EItem.comment cs k ∈ progP.items → plainComment cs := by
  intro cs k h
  have h' : EItem.comment cs k ∈ progU := h
  simp only [progU, toE, List.mem_cons, List.not_mem_nil, or_false, reduceCtorEq, false_or,
    EItem.comment.injEq, or_false] at h'
  obtain ⟨rfl, _⟩ := h'
  decide

/-! ### the source text -/

def idw (s : String) : Word :=
  match s.toList with
  | c :: cs => .ident c cs
  | [] => .sym ' '

def numw (s : String) : Word :=
  match s.toList with
  | c :: cs => .num c cs
  | [] => .sym ' '

/-- a spacing of the program, rendered as
    "n  equ 2\n; two bombs\na:dat\tn\n  i for  n\n\tdat i ,a\n rof\n  end a\n" -/
def lsA : List SrcLine := [
  { words := [(idw "n", "  ".toList), (idw "equ", " ".toList), (numw "2", [])] },
  { words := [], comment := some " two bombs".toList },
  { words := [(idw "a", []), (.sym ':', []), (idw "dat", "\t".toList), (idw "n", [])] },
  { lead := "  ".toList, words := [(idw "i", " ".toList), (idw "for", "  ".toList), (idw "n", [])] },
  { lead := "\t".toList,
    words := [(idw "dat", " ".toList), (idw "i", " ".toList), (.sym ',', []), (idw "a", [])] },
  { lead := " ".toList, words := [(idw "rof", [])] },
  { lead := "  ".toList, words := [(idw "end", " ".toList), (idw "a", [])] } ]

theorem lsA_text : String.ofList (renderLines lsA) =
    "n  equ 2\n; two bombs\na:dat\tn\n  i for  n\n\tdat i ,a\n rof\n  end a\n" := by decide

theorem lsA_ok : ∀ l ∈ lsA, l.ok (some '\n') = true := by decide

theorem lsA_same : SameLines lsA progA.srcLines :=
  ⟨⟨rfl, rfl⟩, ⟨rfl, rfl⟩, ⟨rfl, rfl⟩, ⟨rfl, rfl⟩, ⟨rfl, rfl⟩, ⟨rfl, rfl⟩, ⟨rfl, rfl⟩, trivial⟩

/-- **the theorem applies**: from the bytes of this text `CompileWarrior` returns the reference
    meaning of the item program with its FOR block -/
theorem example_assemble :
    assemble cfgE (asciiBytes (renderLines lsA)) =
      match Spec.meaning scE progA.toItems with
      | some m => .ok (toWD progP.meta m)
      | none => .err :=
  assemble_meaning_all_ascii cfgE scE progA progU 1 (fun _ => 0) unroll (by decide) blocksOK blocksLex
    (by decide) (by decide) (by decide) ⟨rfl, rfl, rfl, rfl, rfl⟩
    ⟨by decide, by intro kw e h; cases h; exact ⟨by decide, fun x hx => by cases hx; decide⟩⟩
    ⟨by decide⟩ progP_plain (by decide) (by decide) (by decide) progP_ranked (by intro s; omega)
    progP_wf lsA lsA_ok lsA_same (by decide)

/-! ## the program of the task statement

      n equ 2
      start  mov bomb, <ptr
      i for n
             dat #i, #i+n
      rof
      bomb   dat #0
      ptr    dat #0, #start
             end start
-/

namespace Two

def imm (e : NT) : LOperand := { mode := some .immediate, expr := e }
def datI (a b : NT) : FInstr := { op := "dat", md := none, a := imm a, b := some (imm b) }

/-- the body of the block: `dat #i, #i+n` -/
def body : FProg := .instr (datI (.name "i") (.bin "+" (.name "i") (.name "n"))) .nil

open Spec.ETok in
def bombI : EItem := .instr [("bomb", false)] "dat" none ⟨some .immediate, [num 0]⟩ none 0

open Spec.ETok in
def ptrI : EItem :=
  .instr [("ptr", false)] "dat" none ⟨some .immediate, [num 0]⟩ (some ⟨some .immediate, [name "start"]⟩) 0

open Spec.ETok in
def progB : AProg :=
  { items := [
      .item (.equ "n" "equ" [num 2] 0),
      .item (.instr [("start", false)] "mov" none ⟨none, [name "bomb"]⟩
        (some ⟨some .bDec, [name "ptr"]⟩) 0),
      .block "i" (.ctr "n") body,
      .item bombI,
      .item ptrI ],
    fin := some ("end", some [name "start"]) }

open Spec.ETok in
def progU : List EItem :=
  [ .equ "n" "equ" [num 2] 0,
    .instr [("start", false)] "mov" none ⟨none, [name "bomb"]⟩ (some ⟨some .bDec, [name "ptr"]⟩) 0,
    toE (datI (.num 1) (.bin "+" (.num 1) (.name "n"))),
    toE (datI (.num 2) (.bin "+" (.num 2) (.name "n"))),
    bombI,
    ptrI ]

abbrev progP : EProg := progB.unrolled progU

/-- the item program of the task statement -/
example : progB.toItems =
    [.equ "n" [.num 2],
     .instr ["start"] "mov" none ⟨none, [.name "bomb"]⟩ (some ⟨some .bDec, [.name "ptr"]⟩),
     .for_ [] "i" [.name "n"]
       [.instr [] "dat" none ⟨some .immediate, [.name "i"]⟩
         (some ⟨some .immediate, [.name "i", .op "+", .name "n"]⟩)],
     .instr ["bomb"] "dat" none ⟨some .immediate, [.num 0]⟩ none,
     .instr ["ptr"] "dat" none ⟨some .immediate, [.num 0]⟩ (some ⟨some .immediate, [.name "start"]⟩),
     .end_ (some [.name "start"])] := rfl

theorem unroll : AUnroll [] progB.items progU 1 := by
  refine AUnroll.item (AUnroll.item ?_)
  have h := AUnroll.block (eqs := [("n", [Spec.ETok.num 2])]) (c := "i") (cnt := .ctr "n")
    (body := body) 2
    (fun j => [datI (.num (j + 1)) (.bin "+" (.num (j + 1)) (.name "n"))]) (fun _ => 0) rfl
    (by decide)
    (by
      intro j _
      have e : body.subst "i" (j + 1) =
          .instr (datI (.num (j + 1)) (.bin "+" (.num (j + 1)) (.name "n"))) .nil := by
        simp [body, FProg.subst, FInstr.subst, LOperand.subst, datI, imm, substCtr]
      rw [e]
      exact BUnroll.instr BUnroll.nil)
    (AUnroll.item (it := bombI) (AUnroll.item (it := ptrI) (AUnroll.nil _)))
  exact h

theorem datI_lexOK (a b : NT) (ha : NTLexOK a) (hb : NTLexOK b) : (datI a b).LexOK := by
  refine And.intro (fun _ h => by cases h) (And.intro ?_ (And.intro ha ?_))
  · show identOK "dat" = true
    decide
  intro bo h
  cases h
  exact hb

theorem blocksOK : BlocksOK progB.items := by
  intro c n b h
  simp only [progB, List.mem_cons, List.not_mem_nil, or_false, reduceCtorEq, false_or, or_false,
    AItem.block.injEq] at h
  obtain ⟨rfl, rfl, rfl⟩ := h
  exact ⟨by decide, by decide,
    ⟨datI_lexOK _ _ (by decide) (by decide), (by show IsOpName "dat"; decide), trivial⟩, trivial⟩

theorem blocksLex : ∀ c n b, AItem.block c n b ∈ progB.items → (FProg.block c n b .nil).LexOK := by
  intro c n b h
  simp only [progB, List.mem_cons, List.not_mem_nil, or_false, reduceCtorEq, false_or, or_false,
    AItem.block.injEq] at h
  obtain ⟨rfl, rfl, rfl⟩ := h
  exact ⟨by decide, fun s hs => by cases hs; decide, trivial, trivial⟩

abbrev tP : Spec.Tables := xtables scE progP.xitems

theorem goodX_mk {k : Nat} {e : List Spec.ETok} (hsize : SizeOK tP.equs e)
    (x out : List Spec.ETok) (c : CST) (h1 : Spec.expandEqus 64 tP.equs e = some x)
    (h2 : Spec.substLabels scE tP k x = some out) (hwf : WFprec c) (hnb : NoBigLit c)
    (hc : c.etoks = out) : GoodX scE tP k e where
  size := hsize
  tree := by
    intro x' out' h1' h2'
    rw [h1] at h1'; cases h1'
    rw [h2] at h2'; cases h2'
    exact ⟨c, hwf, hnb, hc⟩

theorem sizeP (e : List Spec.ETok) (h : ∀ j, j ≤ 3 → (iterE tP.equs j e).length ≤ 20000)
    (hk : keyFreeB tP.equs (iterE tP.equs 3 e) = true) : SizeOK tP.equs e :=
  sizeOK_of_keyfree 3 ((keyFreeB_iff _ _).1 hk) h

theorem ascii_mov : Ascii "mov" := by
  have h : "mov".toList = ['m', 'o', 'v'] := by decide
  intro c hc
  rw [h] at hc
  simp only [List.mem_cons, List.not_mem_nil, or_false] at hc
  rcases hc with rfl | rfl | rfl <;> decide

/-- the tree `a + b` of two small literals -/
theorem plus_ok (a b : Nat) (ha : a < 400) (hb : b < 400) :
    WFprec (.bin "+" (.num a) (.num b)) ∧ NoBigLit (.bin "+" (.num a) (.num b)) := by
  have hp : Spec.Expr.prec "+" = 4 := by decide
  refine ⟨⟨Or.inl rfl, trivial, trivial, by rw [hp]; simp [CST.prec], by rw [hp]; simp [CST.prec]⟩,
    lit_big a (by omega), lit_big b (by omega), ?_⟩
  intro v hv
  have : v = (a : Int) + b := by
    have : denote (.bin "+" (.num a) (.num b)) = some ((a : Int) + b) := by
      simp [denote, binVal]
    rw [this] at hv; cases hv; rfl
  subst this
  exact small_big (by omega) (by omega)

theorem progP_wf : XProgWF lexString scE tP 0 progP.xitems := by
  have sz : ∀ e : List Spec.ETok, (∀ j, j ≤ 3 → (iterE tP.equs j e).length ≤ 20000) →
      keyFreeB tP.equs (iterE tP.equs 3 e) = true → SizeOK tP.equs e := sizeP
  refine ⟨?_, ?_, ?_, ?_, ?_, ?_, ?_, trivial⟩
  · exact ⟨by decide, sz _ (le3 (by decide) (by decide) (by decide) (by decide)) (by decide)⟩
  · -- start mov bomb, <ptr
    refine ⟨ascii_mov, by decide, (fun s h => by cases h), ?_, ?_⟩
    · exact goodX_mk (sz _ (le3 (by decide) (by decide) (by decide) (by decide)) (by decide))
        [.name "bomb"] [.num 3] (.num 3) (by decide) (by decide) trivial (lit_big 3 (by omega)) rfl
    · intro bo h
      cases h
      exact goodX_mk (sz _ (le3 (by decide) (by decide) (by decide) (by decide)) (by decide))
        [.name "ptr"] [.num 4] (.num 4) (by decide) (by decide) trivial (lit_big 4 (by omega)) rfl
  · -- dat #1, #1+n
    refine ⟨ascii_dat, by decide, (fun s h => by cases h), ?_, ?_⟩
    · exact goodX_mk (sz _ (le3 (by decide) (by decide) (by decide) (by decide)) (by decide))
        [.num 1] [.num 1] (.num 1) (by decide) (by decide) trivial (lit_big 1 (by omega)) rfl
    · intro bo h
      cases h
      exact goodX_mk (sz _ (le3 (by decide) (by decide) (by decide) (by decide)) (by decide))
        [.num 1, .op "+", .num 2] [.num 1, .op "+", .num 2] (.bin "+" (.num 1) (.num 2))
        (by decide) (by decide) (plus_ok 1 2 (by omega) (by omega)).1
        (plus_ok 1 2 (by omega) (by omega)).2 rfl
  · -- dat #2, #2+n
    refine ⟨ascii_dat, by decide, (fun s h => by cases h), ?_, ?_⟩
    · exact goodX_mk (sz _ (le3 (by decide) (by decide) (by decide) (by decide)) (by decide))
        [.num 2] [.num 2] (.num 2) (by decide) (by decide) trivial (lit_big 2 (by omega)) rfl
    · intro bo h
      cases h
      exact goodX_mk (sz _ (le3 (by decide) (by decide) (by decide) (by decide)) (by decide))
        [.num 2, .op "+", .num 2] [.num 2, .op "+", .num 2] (.bin "+" (.num 2) (.num 2))
        (by decide) (by decide) (plus_ok 2 2 (by omega) (by omega)).1
        (plus_ok 2 2 (by omega) (by omega)).2 rfl
  · -- bomb dat #0
    refine ⟨ascii_dat, by decide, (fun s h => by cases h), ?_, (fun bo h => by cases h)⟩
    exact goodX_mk (sz _ (le3 (by decide) (by decide) (by decide) (by decide)) (by decide))
      [.num 0] [.num 0] (.num 0) (by decide) (by decide) trivial (lit_big 0 (by omega)) rfl
  · -- ptr dat #0, #start
    refine ⟨ascii_dat, by decide, (fun s h => by cases h), ?_, ?_⟩
    · exact goodX_mk (sz _ (le3 (by decide) (by decide) (by decide) (by decide)) (by decide))
        [.num 0] [.num 0] (.num 0) (by decide) (by decide) trivial (lit_big 0 (by omega)) rfl
    · intro bo h
      cases h
      exact goodX_mk (sz _ (le3 (by decide) (by decide) (by decide) (by decide)) (by decide))
        [.name "start"] [.op "-", .num 4] (.signs [true] (.num 4)) (by decide) (by decide)
        ⟨rfl, trivial⟩ (lit_big 4 (by omega)) rfl
  · -- end start
    refine ⟨by decide, ?_⟩
    intro x h
    cases h
    exact goodX_mk (sz _ (le3 (by decide) (by decide) (by decide) (by decide)) (by decide))
      [.name "start"] [.num 0] (.num 0) (by decide) (by decide) trivial (lit_big 0 (by omega)) rfl

theorem progP_ranked : ERanked (xequs progP.xitems ++ Spec.predefined scE) (fun _ => 0) := by
  intro k v hkv s hsv _
  exfalso
  unfold ETab.get? at hkv
  cases hf : (xequs progP.xitems ++ Spec.predefined scE).find? (·.1 == k) with
  | none => rw [hf] at hkv; cases hkv
  | some q =>
    rw [hf] at hkv
    have hm := List.mem_of_find?_eq_some hf
    simp only [Option.map_some, Option.some.injEq] at hkv
    subst hkv
    have hm' : q ∈ [("n", [Spec.ETok.num 2]), ("CORESIZE", [.num 8000]), ("MAXLENGTH", [.num 100]),
        ("MAXPROCESSES", [.num 8000]), ("MINDISTANCE", [.num 100])] := hm
    simp only [List.mem_cons, List.not_mem_nil, or_false] at hm'
    rcases hm' with rfl | rfl | rfl | rfl | rfl <;> simp at hsv

theorem progP_plain : ∀ cs k, EItem.comment cs k ∈ progP.items → plainComment cs := by
  intro cs k h
  have h' : EItem.comment cs k ∈ progU := h
  simp [progU, toE, bombI, ptrI] at h'

/-- the canonical one-blank rendering of the program:
    "n equ 2\nstart mov bomb , < ptr\ni for n\ndat # i , # i + n\nrof\nbomb dat # 0\n
     ptr dat # 0 , # start\nend start\n" -/
theorem src_same : SameLines progB.srcLines progB.srcLines :=
  ⟨⟨rfl, rfl⟩, ⟨rfl, rfl⟩, ⟨rfl, rfl⟩, ⟨rfl, rfl⟩, ⟨rfl, rfl⟩, ⟨rfl, rfl⟩, ⟨rfl, rfl⟩, ⟨rfl, rfl⟩,
    trivial⟩

/-- **the theorem applies to the program of the task statement** -/
theorem example_assemble :
    assemble cfgE (asciiBytes (renderLines progB.srcLines)) =
      match Spec.meaning scE progB.toItems with
      | some m => .ok (toWD progP.meta m)
      | none => .err :=
  assemble_meaning_all_ascii cfgE scE progB progU 1 (fun _ => 0) unroll (by decide) blocksOK blocksLex
    (by decide) (by decide) (by decide) ⟨rfl, rfl, rfl, rfl, rfl⟩
    ⟨by decide, by intro kw e h; cases h; exact ⟨by decide, fun x hx => by cases hx; decide⟩⟩
    ⟨by decide⟩ progP_plain (by decide) (by decide) (by decide) progP_ranked (by intro s; omega)
    progP_wf progB.srcLines (by decide) src_same (by decide)

end Two

end Gmars.AsmComposeAll.Example
