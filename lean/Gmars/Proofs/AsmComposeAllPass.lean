/-
  C03 / C08, labels + EQUs + FOR blocks in ONE program, part (a): the FOR pass loop, token level.

  `ForUnroll.for_unroll_full` covers programs whose lines outside the FOR / ROF lines are
  `SimpleLine`s (label-free instructions) and whose counts are number literals, with no EQU symbol
  defined.  Here the top level of the program is a list of CHUNKS of FOR-free lines and of FOR
  blocks:

    * `Chunk ch ch' eq`   a chunk `ch` of complete FOR-free lines, as the two machines of the pass
                          loop see it: the symbol scanner reads through it and adds the EQU
                          definitions `eq` to its table; the expander, when the chunk stands in front
                          of the block it expands, sends it through as `ch'` (`ch' = ch` except that
                          the colons behind labels are dropped)
    * `TItem`, `GUnroll`  top level programs (chunks and blocks, the bodies of the blocks being
                          `ForPass.Prog`s: simple lines and nested blocks) and their manual
                          unrolling, with the scanner's symbol table threaded: the count of a block
                          is ANY token the evaluator `expandAndEvaluate` gives a value with the
                          symbols in front of the block (a literal, an EQU name)
    * `for_unroll_all`    **the pass loop on such a program returns the unrolled token stream**:
                          every block replaced by its unrolling, every chunk untouched except that a
                          chunk in front of a block has become `ch'`
    * `for_unroll_all_too_deep`   with 13 or more expansions the pass loop gives up (finding F12)
    * `chunk_line`, `chunk_nls`   the chunks made of lines the old theorems covered
-/
import Gmars.Proofs.ForUnroll

namespace Gmars
namespace AsmComposeAll
open Gmars.ForPass Gmars.ForExpand Gmars.Scan

/-! ## 1. chunks -/

/-- the names of `eq` are new for the table `s` and pairwise distinct -/
def Fresh (eq s : SymTab) : Prop := (s.map (·.1) ++ eq.map (·.1)).Nodup

/-- a chunk of complete FOR-free lines, as the scanner and the expander treat it -/
structure Chunk (ch ch' : List Token) (eq : SymTab) : Prop where
  noTerm : ∀ t ∈ ch, t.isTerm = false
  noTerm' : ∀ t ∈ ch', t.isTerm = false
  /-- the scanner reads through the chunk and records its EQU definitions -/
  scan : ∀ (rest : List Token) (s : SymTab), Fresh eq s →
    runScan (ch ++ rest) s = runScan rest (s ++ eq)
  /-- the expander sends the chunk through (in front of the block it expands) -/
  pass : ∀ (e : List Token → SymTab → EvalRes) (sy : SymTab) (y : Token) (ys : List Token) (o : Out),
    runLine e sy (ch ++ y :: ys) o = runLine e sy (y :: ys) (emits o ch')

/-- everything in front of the block that is expanded next: `P` as it stands, `P'` as the expander
    sends it; `s` is the symbol table the scanner has built when it reaches the block -/
structure Pre (P P' : List Token) (s : SymTab) : Prop where
  noTerm : ∀ t ∈ P, t.isTerm = false
  noTerm' : ∀ t ∈ P', t.isTerm = false
  scan : ∀ rest : List Token, runScan (P ++ rest) [] = runScan rest s
  scan' : ∀ rest : List Token, runScan (P' ++ rest) [] = runScan rest s
  pass : ∀ (e : List Token → SymTab → EvalRes) (sy : SymTab) (y : Token) (ys : List Token) (o : Out),
    runLine e sy (P ++ y :: ys) o = runLine e sy (y :: ys) (emits o P')
  pass' : ∀ (e : List Token → SymTab → EvalRes) (sy : SymTab) (y : Token) (ys : List Token) (o : Out),
    runLine e sy (P' ++ y :: ys) o = runLine e sy (y :: ys) (emits o P')

theorem Pre.nil : Pre [] [] [] :=
  ⟨fun _ h => (by cases h), fun _ h => (by cases h), fun _ => rfl, fun _ => rfl,
   fun _ _ _ _ _ => rfl, fun _ _ _ _ _ => rfl⟩

theorem mem_noTerm_append {a b : List Token} (ha : ∀ t ∈ a, t.isTerm = false)
    (hb : ∀ t ∈ b, t.isTerm = false) : ∀ t ∈ a ++ b, t.isTerm = false := by
  intro t ht
  rcases List.mem_append.1 ht with h | h
  · exact ha t h
  · exact hb t h

/-- one more chunk in front -/
theorem Pre.snoc {P P' : List Token} {s : SymTab} {ch ch' : List Token} {eq : SymTab}
    (hP : Pre P P' s) (hc : Chunk ch ch' eq) (hc' : Chunk ch' ch' eq) (hf : Fresh eq s) :
    Pre (P ++ ch) (P' ++ ch') (s ++ eq) where
  noTerm := mem_noTerm_append hP.noTerm hc.noTerm
  noTerm' := mem_noTerm_append hP.noTerm' hc.noTerm'
  scan := fun rest => by rw [List.append_assoc, hP.scan, hc.scan rest s hf]
  scan' := fun rest => by rw [List.append_assoc, hP.scan', hc'.scan rest s hf]
  pass := fun e sy y ys o => by
    obtain ⟨x, xs, hx⟩ : ∃ x xs, ch ++ y :: ys = x :: xs := by
      cases ch with
      | nil => exact ⟨_, _, rfl⟩
      | cons b bs => exact ⟨_, _, rfl⟩
    rw [List.append_assoc, hx, hP.pass, ← hx, hc.pass, emits_append]
  pass' := fun e sy y ys o => by
    obtain ⟨x, xs, hx⟩ : ∃ x xs, ch' ++ y :: ys = x :: xs := by
      cases ch' with
      | nil => exact ⟨_, _, rfl⟩
      | cons b bs => exact ⟨_, _, rfl⟩
    rw [List.append_assoc, hx, hP.pass', ← hx, hc'.pass, emits_append]

/-- after a pass everything in front has its normal form -/
theorem Pre.norm {P P' : List Token} {s : SymTab} (hP : Pre P P' s) : Pre P' P' s :=
  ⟨hP.noTerm', hP.noTerm', hP.scan', hP.scan', hP.pass', hP.pass'⟩

/-! ### the chunks of the old theorems -/

/-- a line the scanner skips and the expander sends through is a chunk -/
theorem chunk_line (l : Line) (hwf : l.WF) (hs : ScanSkip l.toks) (hp : PassLine l.toks) :
    Chunk l.flat l.flat [] where
  noTerm := fun t ht => flat_inLine_or_nl (ls := [l])
    (fun l' hl' => by rw [List.mem_singleton.1 hl']; exact hwf) t (by simpa using ht)
  noTerm' := fun t ht => flat_inLine_or_nl (ls := [l])
    (fun l' hl' => by rw [List.mem_singleton.1 hl']; exact hwf) t (by simpa using ht)
  scan := fun rest s _ => by rw [runScan_skipLine l rest s hwf hs, List.append_nil]
  pass := fun e sy y ys o => runLine_passLine e sy l y ys o hwf hp

theorem scanSkip_simple {l : Line} (h : SimpleLine l) : ScanSkip l.toks := Or.inr (Or.inl h.kind)
theorem passLine_simple {l : Line} (h : SimpleLine l) : PassLine l.toks := Or.inr (Or.inl h.kind)

theorem chunk_simple {l : Line} (h : SimpleLine l) : Chunk l.flat l.flat [] :=
  chunk_line l h.1 (scanSkip_simple h) (passLine_simple h)

/-- a blank line -/
def blankLine : Line := ⟨[], ⟨.newline, ""⟩⟩

theorem chunk_blank : Chunk [⟨.newline, ""⟩] [⟨.newline, ""⟩] [] := by
  have := chunk_line blankLine ⟨rfl, fun _ h => by cases h⟩ (Or.inl (fun _ h => by cases h))
    (Or.inl (fun _ h => by cases h))
  simpa [blankLine, Line.flat] using this

theorem fresh_nil (s : SymTab) (h : (s.map (·.1)).Nodup) : Fresh [] s := by
  simpa [Fresh] using h

/-- two chunks in a row, the second defining nothing -/
theorem Chunk.append_nil {a a' b b' : List Token} {eq : SymTab} (ha : Chunk a a' eq)
    (hb : Chunk b b' []) (hfr : ∀ s, Fresh eq s → Fresh [] (s ++ eq)) : Chunk (a ++ b) (a' ++ b') eq where
  noTerm := mem_noTerm_append ha.noTerm hb.noTerm
  noTerm' := mem_noTerm_append ha.noTerm' hb.noTerm'
  scan := fun rest s hf => by
    rw [List.append_assoc, ha.scan _ s hf, hb.scan rest _ (hfr s hf), List.append_nil]
  pass := fun e sy y ys o => by
    obtain ⟨x, xs, hx⟩ : ∃ x xs, b ++ y :: ys = x :: xs := by
      cases b with
      | nil => exact ⟨_, _, rfl⟩
      | cons c cs => exact ⟨_, _, rfl⟩
    rw [List.append_assoc, hx, ha.pass, ← hx, hb.pass, emits_append]

theorem fresh_nil_of_fresh {eq s : SymTab} (h : Fresh eq s) : Fresh [] (s ++ eq) := by
  unfold Fresh at *
  simpa using h

/-- `k` blank lines -/
theorem chunk_nls (k : Nat) :
    Chunk (List.replicate k (⟨.newline, ""⟩ : Token)) (List.replicate k ⟨.newline, ""⟩) [] := by
  induction k with
  | zero =>
    exact ⟨fun _ h => (by cases h), fun _ h => (by cases h), fun rest s _ => (by simp),
      fun _ _ _ _ _ => rfl⟩
  | succ k ih =>
    rw [List.replicate_succ]
    exact Chunk.append_nil (a := [⟨.newline, ""⟩]) (b := List.replicate k ⟨.newline, ""⟩) chunk_blank ih
      (fun s h => fresh_nil_of_fresh h)

/-! ## 2. one pass -/

/-- `expand_pass` with chunks in front of the block -/
theorem expand_pass_chunks (e : List Token → SymTab → EvalRes) (syms : SymTab)
    (P P' : List Token) (s0 : SymTab) (hP : Pre P P' s0) (b : Block) (q : List Token) (z : Token)
    (rest : List Token) (n : Int) (hb : b.WF)
    (hq : ∀ x ∈ q, x.isTerm = false) (hz : z.isTerm = true)
    (hev : e (exprToks b.count) syms = .ok n) :
    forExpandWith e (P ++ b.flat ++ q ++ z :: rest) syms =
      .ok (some (P' ++ b.unrolled n ++ q ++ [endTok z]), false) := by
  obtain ⟨t, r, htr⟩ := exists_cons q z rest
  have hts : P ++ b.flat ++ q ++ z :: rest = P ++ (b.flat ++ t :: r) := by
    rw [← htr]; simp
  obtain ⟨y, ys, hy⟩ : ∃ y ys, P ++ (b.flat ++ t :: r) = y :: ys ∧ y.isTerm = false := by
    have hne : P ++ b.flat ≠ [] := by simp [Block.flat_ne_nil]
    cases hpb : P ++ b.flat with
    | nil => exact absurd hpb hne
    | cons y ys =>
      refine ⟨y, ys ++ t :: r, by rw [← List.append_assoc, hpb]; rfl, ?_⟩
      have : y ∈ P ++ b.flat := by rw [hpb]; exact List.mem_cons_self ..
      rcases List.mem_append.1 this with h | h
      · exact hP.noTerm y h
      · exact b.flat_noTerm hb y h
  have hrun : runLine e syms (y :: ys) {} =
      .ok (if z.typ = .eof then emits {} (P' ++ b.unrolled n ++ q)
           else emits {} ((P' ++ b.unrolled n ++ q) ++ [z])) := by
    obtain ⟨y', ys', hy'⟩ := exists_cons b.flat t r
    rw [← hy.1, hy', hP.pass e syms y' ys' {}, ← hy',
      runLine_block e syms b hb n hev, ← htr, runECS_stream q z rest _ hq hz]
    simp only [emits_append]
  have hL : ∀ x ∈ P' ++ b.unrolled n ++ q, x.isTerm = false := by
    intro x hx
    rcases List.mem_append.1 hx with hx | hx
    · rcases List.mem_append.1 hx with hx | hx
      · exact hP.noTerm' x hx
      · exact b.unrolled_noTerm n hb x hx
    · exact hq x hx
  have hfin := ForPass.finish _ z hL hz
  simp only at hfin
  rw [hts, hy.1]
  unfold forExpandWith sendsWith
  simp only [hy.2, Bool.false_eq_true, ↓reduceIte]
  rw [runLine] at hrun
  rw [hrun]
  simp only [Except.map, hfin.1, hfin.2]

/-- the scanner in front of a block: it reports the FOR line and the symbols in front of it -/
theorem scan_block (P P' : List Token) (s : SymTab) (hP : Pre P P' s) (b : Block) (hb : b.WF)
    (rest : List Token) : scanInput (P ++ b.flat ++ rest) = .ok (some (s, true)) := by
  have hflat : P ++ b.flat ++ rest = P ++ ((b.labels ++ [b.ctr]) ++ b.forTok ::
      (b.count ++ [b.nl] ++ (flat b.body ++ b.rofLine.flat) ++ rest)) := by
    simp [Block.flat, Block.header]
  obtain ⟨x, xs, hx⟩ : ∃ x xs, P ++ b.flat ++ rest = x :: xs := by
    have hne : P ++ b.flat ++ rest ≠ [] := by simp [Block.flat_ne_nil]
    cases h : P ++ b.flat ++ rest with
    | nil => exact absurd h hne
    | cons x xs => exact ⟨x, xs, rfl⟩
  rw [hx, scanInput_eq_runScan, ← hx, hflat, hP.scan,
    runScan_forLine (b.labels ++ [b.ctr]) b.forTok _ s (by
      intro x hx
      rcases List.mem_append.1 hx with h | h
      · exact hb.labels x h
      · rw [List.mem_singleton.1 h]; exact hb.ctr) hb.forTyp hb.forVal]
  rfl

/-- one turn of the pass loop: the block in front is expanded -/
theorem loop_block (P P' : List Token) (s : SymTab) (hP : Pre P P' s) (b : Block) (hb : b.WF)
    (q : List Token) (hq : ∀ x ∈ q, x.isTerm = false) (n : Int)
    (hev : expandAndEvaluate (exprToks b.count) s = .ok n) (fuel depth : Nat) :
    forLoop (fuel + 1) depth (P ++ b.flat ++ q ++ [eofTok]) =
      if depth + 1 > 12 then .error .err
      else forLoop fuel (depth + 1) (P' ++ b.unrolled n ++ q ++ [eofTok]) := by
  have hscan : scanInput (P ++ b.flat ++ q ++ [eofTok]) = .ok (some (s, true)) := by
    rw [List.append_assoc]; exact scan_block P P' s hP b hb _
  have hexp := expand_pass_chunks expandAndEvaluate s P P' s hP b q eofTok [] n hb hq rfl hev
  rw [forLoop]
  simp only [hscan, hexp, Bool.not_true, Bool.false_eq_true, ↓reduceIte]
  rfl

/-! ## 3. top level programs -/

/-- an item of the top level: a chunk of FOR-free lines (with its normal form and the EQU
    definitions it makes), or a FOR block whose body is a `ForPass.Prog` -/
inductive TItem
  | chunk (ch ch' : List Token) (eq : SymTab)
  | block (c f n nl : Token) (body : Prog) (rof : Line)

def TItem.isBlock : TItem → Bool
  | .chunk .. => false
  | .block .. => true

def TItem.toks : TItem → List Token
  | .chunk ch _ _ => ch
  | .block c f n nl body rof => (mkBlock c f n nl body rof).flat

/-- the token stream of the program -/
def progToks (p : List TItem) : List Token := p.flatMap TItem.toks

/-- a block follows -/
def hasBlock (p : List TItem) : Bool := p.any TItem.isBlock

@[simp] theorem progToks_nil : progToks [] = [] := rfl
@[simp] theorem progToks_cons (i : TItem) (p : List TItem) :
    progToks (i :: p) = i.toks ++ progToks p := rfl
theorem progToks_append (p q : List TItem) : progToks (p ++ q) = progToks p ++ progToks q := by
  simp [progToks]
theorem hasBlock_append (p q : List TItem) : hasBlock (p ++ q) = (hasBlock p || hasBlock q) := by
  simp [hasBlock]

/-- a body program (or the copies of one) as a top level program: every line a chunk -/
def embed : Prog → List TItem
  | .nil => []
  | .line l r => .chunk l.flat l.flat [] :: embed r
  | .block c f n nl body rof r => .block c f n nl body rof :: embed r

theorem mkBlock_flat (c f n nl : Token) (body : Prog) (rof : Line) :
    (mkBlock c f n nl body rof).flat = flat (Prog.block c f n nl body rof .nil).render := by
  simp [Prog.render, Block.flat, Block.header, mkBlock, flat_append, Line.flat]

theorem progToks_embed (p : Prog) : progToks (embed p) = flat p.render := by
  induction p with
  | nil => rfl
  | line l r ih => simp [embed, Prog.render, TItem.toks, ih]
  | block c f n nl body rof r _ ih =>
    simp only [embed, progToks_cons, TItem.toks, ih]
    simp [Prog.render, Block.flat, Block.header, mkBlock, flat_append, Line.flat]

theorem embed_append (p q : Prog) : embed (p.append q) = embed p ++ embed q := by
  induction p with
  | nil => rfl
  | line l r ih => simp [Prog.append, embed, ih]
  | block c f n nl body rof r _ ih => simp [Prog.append, embed, ih]

/-- `GUnroll s p out k`: with the scanner's table `s` in front, the manual unrolling of the top
    level program `p` is the token stream `out`, and it takes `k` block expansions.  The count of a
    block is any token the evaluator gives the value `m` with the symbols in front of the block.
    A chunk in front of a block comes out in its normal form. -/
inductive GUnroll : SymTab → List TItem → List Token → Nat → Prop
  | nil (s : SymTab) : GUnroll s [] [] 0
  | chunk {s : SymTab} {ch ch' : List Token} {eq : SymTab} {r : List TItem} {out : List Token}
      {k : Nat} :
      Chunk ch ch' eq → Chunk ch' ch' eq → Fresh eq s → GUnroll (s ++ eq) r out k →
      GUnroll s (.chunk ch ch' eq :: r) ((if hasBlock r then ch' else ch) ++ out) k
  | block {s : SymTab} {c f n nl : Token} {body : Prog} {rof : Line} {r : List TItem}
      {out : List Token} {k : Nat} (m : Nat) (L : Nat → List Token) (K : Nat → Nat) :
      HeaderOK c f n nl → expandAndEvaluate (exprToks [n]) s = .ok (m : Int) → RofOK rof →
      body.Shape →
      (∀ i, i < m → GUnroll s (embed (body.subst c.val (i + 1))) (L i) (K i)) →
      GUnroll s r out k →
      GUnroll s (.block c f n nl body rof :: r)
        ((List.range m).flatMap L ++ out) (1 + ((List.range m).map K).sum + k)

theorem GUnroll.cast {s : SymTab} {p : List TItem} {o o' : List Token} {k k' : Nat}
    (h : GUnroll s p o k) (e1 : o = o') (e2 : k = k') : GUnroll s p o' k' := by
  subst e1; subst e2; exact h

/-- the tokens of the program do not end the stream -/
theorem GUnroll.noTerm {s : SymTab} {p : List TItem} {o : List Token} {k : Nat}
    (h : GUnroll s p o k) : ∀ t ∈ progToks p, t.isTerm = false := by
  induction h with
  | nil s => intro t ht; cases ht
  | chunk hc _ _ _ ih =>
    intro t ht
    simp only [progToks_cons, TItem.toks, List.mem_append] at ht
    rcases ht with ht | ht
    · exact hc.noTerm t ht
    · exact ih t ht
  | block m L K hh _ hrof hbody _ _ _ ih =>
    intro t ht
    simp only [progToks_cons, TItem.toks, List.mem_append] at ht
    rcases ht with ht | ht
    · exact Block.flat_noTerm _ (mkBlock_WF hh hrof hbody) t ht
    · exact ih t ht

/-- every chunk is in normal form and defines nothing -/
def Stable : List TItem → Prop
  | [] => True
  | .chunk ch ch' eq :: r => ch' = ch ∧ eq = [] ∧ Stable r
  | .block .. :: r => Stable r

theorem stable_embed (p : Prog) : Stable (embed p) := by
  induction p with
  | nil => trivial
  | line l r ih => exact ⟨rfl, rfl, ih⟩
  | block c f n nl body rof r _ ih => exact ih

theorem stable_append {p q : List TItem} (hp : Stable p) (hq : Stable q) : Stable (p ++ q) := by
  induction p with
  | nil => exact hq
  | cons i r ih =>
    cases i with
    | chunk ch ch' eq => exact ⟨hp.1, hp.2.1, ih hp.2.2⟩
    | block c f n nl body rof => exact ih hp

/-- unrolling `p ++ q` when the chunks of `p` are stable: unroll `p`, then `q` -/
theorem GUnroll.append {s : SymTab} {p q : List TItem} {lp lq : List Token} {kp kq : Nat}
    (hp : GUnroll s p lp kp) (hst : Stable p) (hq : GUnroll s q lq kq) :
    GUnroll s (p ++ q) (lp ++ lq) (kp + kq) := by
  induction hp with
  | nil s => simpa using hq
  | @chunk s ch ch' eq r out k hc hc' hf _ ih =>
    obtain ⟨rfl, rfl, hr⟩ := hst
    have hq' : GUnroll (s ++ []) q lq kq := by rw [List.append_nil]; exact hq
    have := GUnroll.chunk hc hc' hf (ih hr hq')
    refine this.cast ?_ rfl
    simp
  | block m L K hh hev hrof hbody hcopies _ _ ih =>
    exact (GUnroll.block m L K hh hev hrof hbody hcopies (ih hst hq)).cast (by simp) (by omega)

theorem gunroll_copies (s : SymTab) (c : String) (body : Prog) (L : Nat → List Token)
    (K : Nat → Nat) (is : List Nat)
    (h : ∀ i ∈ is, GUnroll s (embed (body.subst c (i + 1))) (L i) (K i)) :
    GUnroll s (embed (copies c body .nil is)) (is.flatMap L) ((is.map K).sum) := by
  induction is with
  | nil => exact GUnroll.nil s
  | cons i is ih =>
    have h1 := h i (List.mem_cons_self ..)
    have h2 := ih (fun j hj => h j (List.mem_cons_of_mem _ hj))
    have := GUnroll.append h1 (stable_embed _) h2
    rw [← embed_append] at this
    exact this.cast (by simp) (by simp)

/-- the unrolling of a block, whatever its count token is -/
theorem mkBlock_unrolled' (c f n nl : Token) (m : Nat) (body : Prog) (rof : Line)
    (hbody : body.Shape) :
    (mkBlock c f n nl body rof).unrolled (m : Int) =
      (List.range m).flatMap (fun i => (flat body.render).map (substC c.val (i + 1))) := by
  have hr : (mkBlock c f n nl body rof).renamed = [] := by
    simp [Block.renamed, mkBlock, labelToks]
  rw [Block.unrolled, hr, List.nil_append, repeated]
  have hc : bodyContent (mkBlock c f n nl body rof).body = flat body.render :=
    bodyContent_verbatim _ (shape_render body hbody).2.2
  rw [hc, Int.toNat_natCast]
  congr 1
  funext i
  simp only [iteration, Block.ctx, mkBlock, List.map_nil]
  congr 1
  funext t
  exact substTok_noLabels _ _ _ _

/-! ## 4. the pass loop on a top level program -/

/-- **the pass loop follows the manual unrolling.**  `tail` is what follows the program in the
    token stream (nothing, or an END line and whatever follows it): the scanner stops there. -/
theorem forLoop_gunroll (tail : List Token) (htail : ∀ t ∈ tail, t.isTerm = false)
    (hscan : ∀ s : SymTab, runScan (tail ++ [eofTok]) s = stop s) (k : Nat) :
    ∀ (p : List TItem) (P P' : List Token) (s : SymTab) (out : List Token), Pre P P' s →
      GUnroll s p out k → ∀ (fuel depth : Nat), depth + k ≤ 12 → k < fuel →
      forLoop fuel depth (P ++ progToks p ++ tail ++ [eofTok]) =
        .ok ((if hasBlock p then P' else P) ++ out ++ tail ++ [eofTok]) := by
  induction k using Nat.strongRecOn with
  | ind k IH =>
    intro p
    induction p with
    | nil =>
      intro P P' s out hP h fuel depth hd hf
      cases h
      obtain ⟨f, rfl⟩ : ∃ f, fuel = f + 1 := ⟨fuel - 1, by omega⟩
      have hs : scanInput (P ++ tail ++ [eofTok]) = .ok (some (s, false)) := by
        obtain ⟨x, xs, hx⟩ : ∃ x xs, P ++ tail ++ [eofTok] = x :: xs := by
          cases h : P ++ tail ++ [eofTok] with
          | nil => simp at h
          | cons x xs => exact ⟨x, xs, rfl⟩
        rw [hx, scanInput_eq_runScan, ← hx, List.append_assoc, hP.scan, hscan]
        rfl
      simpa [hasBlock] using forLoop_done f depth _ s hs
    | cons i r ih =>
      intro P P' s out hP h fuel depth hd hf
      cases h with
      | @chunk _ ch ch' eq _ out' _ hc hc' hfr hr =>
        have := ih (P ++ ch) (P' ++ ch') (s ++ eq) out' (hP.snoc hc hc' hfr) hr fuel depth hd hf
        simp only [progToks_cons, TItem.toks, hasBlock, List.any_cons, TItem.isBlock,
          Bool.false_or] at this ⊢
        rw [← List.append_assoc P ch]
        rw [this]
        by_cases hb : r.any TItem.isBlock = true
        · simp only [hb, if_true, List.append_assoc]
        · have hb' : r.any TItem.isBlock = false := by simpa using hb
          simp [hb']
      | @block _ c f n nl body rof _ out' k' m L K hh hev hrof hbody hcopies hr =>
        obtain ⟨fu, rfl⟩ : ∃ fu, fuel = fu + 1 := ⟨fuel - 1, by omega⟩
        have hb := mkBlock_WF hh hrof hbody
        have hq : ∀ x ∈ progToks r ++ tail, x.isTerm = false :=
          mem_noTerm_append hr.noTerm htail
        have hstep := loop_block P P' s hP (mkBlock c f n nl body rof) hb (progToks r ++ tail) hq
          (m : Int) hev fu depth
        have e1 : P ++ progToks (TItem.block c f n nl body rof :: r) ++ tail ++ [eofTok] =
            P ++ (mkBlock c f n nl body rof).flat ++ (progToks r ++ tail) ++ [eofTok] := by
          simp [TItem.toks]
        rw [e1, hstep, if_neg (by omega)]
        -- the rest of the unrolling: the copies, then `r`
        have hcop := gunroll_copies s c.val body L K (List.range m)
          (fun i hi => hcopies i (List.mem_range.1 hi))
        have hfull := GUnroll.append hcop (stable_embed _) hr
        have hrec := IH _ (by omega) _ P' P' s _ hP.norm hfull fu (depth + 1) (by omega) (by omega)
        have e2 : P' ++ (mkBlock c f n nl body rof).unrolled (m : Int) ++ (progToks r ++ tail) ++
            [eofTok] =
            P' ++ progToks (embed (copies c.val body Prog.nil (List.range m)) ++ r) ++ tail ++
              [eofTok] := by
          rw [mkBlock_unrolled' c f n nl m body rof hbody, progToks_append, progToks_embed,
            flat_render_copies]
          simp [Prog.render]
        rw [e2, hrec]
        simp [hasBlock, TItem.isBlock]

/-- **`for_unroll_all`**: if the manual unrolling of the top level program `p` (chunks of lines
    with labels, EQU definitions, comments …, and FOR blocks whose counts the evaluator can
    evaluate with the EQU symbols in front of them) is `out` and takes at most 12 block expansions,
    the pass loop of `CompileWarrior` returns `out`, followed by the untouched tail. -/
theorem for_unroll_all (p : List TItem) (out : List Token) (k : Nat) (h : GUnroll [] p out k)
    (hk : k ≤ 12) (tail : List Token) (htail : ∀ t ∈ tail, t.isTerm = false)
    (hscan : ∀ s : SymTab, runScan (tail ++ [eofTok]) s = stop s) :
    forLoop 14 0 (progToks p ++ tail ++ [eofTok]) = .ok (out ++ tail ++ [eofTok]) := by
  have := forLoop_gunroll tail htail hscan k p [] [] [] out Pre.nil h 14 0 (by omega) (by omega)
  simpa using this

/-- with 13 or more block expansions in all the pass loop gives up ("for loop nesting too deep",
    finding F12), whatever the program is otherwise -/
theorem forLoop_gunroll_too_deep (tail : List Token) (htail : ∀ t ∈ tail, t.isTerm = false) (k : Nat) :
    ∀ (p : List TItem) (P P' : List Token) (s : SymTab) (out : List Token), Pre P P' s →
      GUnroll s p out k → ∀ (fuel depth : Nat), depth ≤ 12 → 13 ≤ depth + k → 13 ≤ fuel + depth →
      forLoop fuel depth (P ++ progToks p ++ tail ++ [eofTok]) = .error .err := by
  induction k using Nat.strongRecOn with
  | ind k IH =>
    intro p
    induction p with
    | nil =>
      intro P P' s out hP h fuel depth hd hk hf
      cases h
      omega
    | cons i r ih =>
      intro P P' s out hP h fuel depth hd hk hf
      cases h with
      | @chunk _ ch ch' eq _ out' _ hc hc' hfr hr =>
        have := ih (P ++ ch) (P' ++ ch') (s ++ eq) out' (hP.snoc hc hc' hfr) hr fuel depth hd hk hf
        simp only [progToks_cons, TItem.toks] at this ⊢
        rw [← List.append_assoc P ch]
        exact this
      | @block _ c f n nl body rof _ out' k' m L K hh hev hrof hbody hcopies hr =>
        obtain ⟨fu, rfl⟩ : ∃ fu, fuel = fu + 1 := ⟨fuel - 1, by omega⟩
        have hb := mkBlock_WF hh hrof hbody
        have hq : ∀ x ∈ progToks r ++ tail, x.isTerm = false :=
          mem_noTerm_append hr.noTerm htail
        have hstep := loop_block P P' s hP (mkBlock c f n nl body rof) hb (progToks r ++ tail) hq
          (m : Int) hev fu depth
        have e1 : P ++ progToks (TItem.block c f n nl body rof :: r) ++ tail ++ [eofTok] =
            P ++ (mkBlock c f n nl body rof).flat ++ (progToks r ++ tail) ++ [eofTok] := by
          simp [TItem.toks]
        rw [e1, hstep]
        by_cases hdeep : depth + 1 > 12
        · rw [if_pos hdeep]
        · rw [if_neg hdeep]
          have hcop := gunroll_copies s c.val body L K (List.range m)
            (fun i hi => hcopies i (List.mem_range.1 hi))
          have hfull := GUnroll.append hcop (stable_embed _) hr
          have hrec := IH _ (by omega) _ P' P' s _ hP.norm hfull fu (depth + 1) (by omega)
            (by omega) (by omega)
          have e2 : P' ++ (mkBlock c f n nl body rof).unrolled (m : Int) ++ (progToks r ++ tail) ++
              [eofTok] =
              P' ++ progToks (embed (copies c.val body Prog.nil (List.range m)) ++ r) ++ tail ++
                [eofTok] := by
            rw [mkBlock_unrolled' c f n nl m body rof hbody, progToks_append, progToks_embed,
              flat_render_copies]
            simp [Prog.render]
          rw [e2, hrec]

/-- **`for_unroll_all_too_deep`**: a 13th block expansion is an error -/
theorem for_unroll_all_too_deep (p : List TItem) (out : List Token) (k : Nat) (h : GUnroll [] p out k)
    (hk : 13 ≤ k) (tail : List Token) (htail : ∀ t ∈ tail, t.isTerm = false) :
    forLoop 14 0 (progToks p ++ tail ++ [eofTok]) = .error .err := by
  have := forLoop_gunroll_too_deep tail htail k p [] [] [] out Pre.nil h 14 0 (by omega) (by omega)
    (by omega)
  simpa using this

/-- nothing follows the program -/
theorem tail_nil_scan (s : SymTab) : runScan (([] : List Token) ++ [eofTok]) s = stop s :=
  runScan_term eofTok [] s rfl

/-- an END line follows the program: the scanner stops at it -/
theorem tail_end_scan (f : Token) (rest : List Token) (h1 : f.typ = .text)
    (h3 : lowerStr f.val = "end") (s : SymTab) : runScan ((f :: rest) ++ [eofTok]) s = stop s :=
  runScan_endLine [] f (rest ++ [eofTok]) s (fun _ h => by cases h) h1 h3

end AsmComposeAll
end Gmars
