/-
  C03 / C08, labels + EQUs + FOR blocks in ONE program, part (b): the structured programs, their
  manual unrolling, and the reference's unrolling `Spec.unroll`.

    * `AItem`, `AProg`     a program: top level items are the items of an `AsmComposeEqu.EProg`
                           (labelled instructions, EQU / ORG lines, `;assert` and comment lines, with
                           their layout) and FOR blocks `ctr for count` … `rof` whose bodies are
                           `AsmComposeFor.FProg`s (label-free instructions and nested blocks); an
                           optional last line END
    * `cntValue`           the value of a count: a literal, or the name of an EQU (defined in front
                           of the block) whose value is a literal; the counter of an enclosing block
                           has become a literal when the block is unrolled
    * `BUnroll`, `AUnroll` the manual unrolling of a body / of the top level
    * `AProg.toItems`      the program as the reference reads it (`Spec.Item.for_` nodes)
    * `spec_unroll_all`    `Spec.unroll` of the items is the item list of the unrolled program
                           (an `EProg`), `spec_meaning_all`: so `Spec.meaning` is `Spec.meaningFlat` of
                           it — the labels get their positions AFTER the unrolling
-/
import Gmars.Proofs.AsmComposeFor
import Gmars.Proofs.AsmComposeEqu
import Gmars.Proofs.AsmComposeAllChunk

namespace Gmars
namespace AsmComposeAll
open Gmars.AsmCompose Gmars.Render Gmars.AsmLine Gmars.ExprProofs Gmars.ForPass Gmars.Spec
open Gmars.AsmComposeFor Gmars.AsmComposeEqu

/-! ## 1. programs -/

/-- an operand of a body instruction as an operand of the unrolled program -/
def lopX (o : LOperand) : XOperand := { mode := o.mode, expr := o.expr.etoks }

/-- a (label-free) instruction of an unrolled body as an item of the unrolled program -/
def toE (x : FInstr) : EItem := .instr [] x.op x.md (lopX x.a) (x.b.map lopX) 0

/-- an item of the top level -/
inductive AItem
  | item (it : EItem)
  | block (ctr : String) (cnt : Cnt) (body : FProg)

def AItem.isBlock : AItem → Bool
  | .item _ => false
  | .block .. => true

/-- a block follows -/
def ahasBlock (l : List AItem) : Bool := l.any AItem.isBlock

/-- `lead` empty lines, the items, optionally a last line `END [e]` and `trail` empty lines -/
structure AProg where
  lead : Nat := 0
  items : List AItem
  fin : Option (String × Option (List Spec.ETok)) := none
  trail : Nat := 0

/-- the EQU definition an item makes -/
def equsOfE : EItem → ETab
  | .equ n _ e _ => [(n, e)]
  | _ => []

/-- the item without the colons behind its labels (what the FOR expander makes of a line in front
    of the block it expands) -/
def clearE : EItem → EItem
  | .instr ls op md a b k => .instr (clearLabels ls) op md a b k
  | it => it

theorem clearE_toX (it : EItem) : (clearE it).toX = it.toX := by
  cases it <;> simp [clearE, EItem.toX, clearLabels, List.map_map, Function.comp_def]

/-- the value of a count with the EQU definitions `eqs` in front of the block -/
def cntValue (eqs : ETab) : Cnt → Option Nat
  | .lit m => some m
  | .ctr s =>
    match eqs.find? (·.1 == s) with
    | some (_, [.num m]) => some m
    | _ => none

/-! ## 2. the manual unrolling -/

/-- `BUnroll eqs p U k`: the manual unrolling of the body program `p` is the instruction list `U`,
    with `k` block expansions; `eqs` are the EQU definitions in front -/
inductive BUnroll (eqs : ETab) : FProg → List FInstr → Nat → Prop
  | nil : BUnroll eqs .nil [] 0
  | instr {x : FInstr} {r : FProg} {U : List FInstr} {k : Nat} :
      BUnroll eqs r U k → BUnroll eqs (.instr x r) (x :: U) k
  | block {c : String} {cnt : Cnt} {body r : FProg} {U : List FInstr} {k : Nat}
      (m : Nat) (L : Nat → List FInstr) (K : Nat → Nat) :
      cntValue eqs cnt = some m → m < 2 ^ 31 →
      (∀ j, j < m → BUnroll eqs (body.subst c (j + 1)) (L j) (K j)) →
      BUnroll eqs r U k →
      BUnroll eqs (.block c cnt body r)
        ((List.range m).flatMap L ++ U) (1 + ((List.range m).map K).sum + k)

/-- `AUnroll eqs items U k`: the manual unrolling of the top level `items` is the item list `U` of
    an `EProg`, with `k` block expansions.  Every block is replaced by the copies of its body with
    the counter replaced by 1 … m (unrolled in turn); everything else stays, except that an
    instruction in front of a block loses the colons behind its labels (that is what the FOR
    expander does to it; the meaning does not depend on it). -/
inductive AUnroll : ETab → List AItem → List EItem → Nat → Prop
  | nil (eqs : ETab) : AUnroll eqs [] [] 0
  | item {eqs : ETab} {it : EItem} {r : List AItem} {U : List EItem} {k : Nat} :
      AUnroll (eqs ++ equsOfE it) r U k →
      AUnroll eqs (.item it :: r) ((if ahasBlock r then clearE it else it) :: U) k
  | block {eqs : ETab} {c : String} {cnt : Cnt} {body : FProg} {r : List AItem} {U : List EItem}
      {k : Nat} (m : Nat) (L : Nat → List FInstr) (K : Nat → Nat) :
      cntValue eqs cnt = some m → m < 2 ^ 31 →
      (∀ j, j < m → BUnroll eqs (body.subst c (j + 1)) (L j) (K j)) →
      AUnroll eqs r U k →
      AUnroll eqs (.block c cnt body :: r)
        (((List.range m).flatMap L).map toE ++ U) (1 + ((List.range m).map K).sum + k)

/-- the unrolled program -/
def AProg.unrolled (p : AProg) (U : List EItem) : EProg :=
  { lead := p.lead, items := U, fin := p.fin, trail := p.trail }

/-! ## 3. the program as the reference reads it -/

def AItem.toItems : AItem → List Spec.Item
  | .item it => (it.toX.map AsmLine.XItem.toItem).toList
  | .block c n body => [.for_ [] c n.etoks body.toItems]

def aitemsToItems (l : List AItem) : List Spec.Item := l.flatMap AItem.toItems

/-- the last line -/
def finItems (fin : Option (String × Option (List Spec.ETok))) : List Spec.Item :=
  match fin with
  | some (_, e) => [.end_ e]
  | none => []

/-- **the program as the reference reads it** -/
def AProg.toItems (p : AProg) : List Spec.Item := aitemsToItems p.items ++ finItems p.fin

theorem unrolled_xitems (p : AProg) (U : List EItem) :
    (p.unrolled U).xitems.map AsmLine.XItem.toItem =
      (U.filterMap EItem.toX).map AsmLine.XItem.toItem ++ finItems p.fin := by
  unfold EProg.xitems EProg.finX AProg.unrolled finItems
  cases p.fin with
  | none => simp
  | some q => obtain ⟨kw, e⟩ := q; simp [AsmLine.XItem.toItem]

/-! ## 4. the reference's unrolling -/

theorem equsOf_append (a b : List Spec.Item) : equsOf (a ++ b) = equsOf a ++ equsOf b := by
  simp [equsOf]

theorem equsOf_instrs (U : List FInstr) : equsOf (U.map FInstr.toItem) = [] := by
  induction U with
  | nil => rfl
  | cons x r ih =>
    simp only [List.map_cons, equsOf, List.filterMap_cons] at ih ⊢
    simp [FInstr.toItem, FInstr.toL, LItem.toItem]

/-- the count of a block, as the reference evaluates it -/
theorem expandEqus_cnt {eqs : ETab} {cnt : Cnt} {m : Nat} (h : cntValue eqs cnt = some m) :
    expandEqus 64 eqs cnt.etoks = some [.num m] := by
  cases cnt with
  | lit n =>
    simp only [cntValue, Option.some.injEq] at h
    subst h
    exact expandEqus_num 63 eqs n
  | ctr s =>
    simp only [cntValue] at h
    cases hf : eqs.find? (·.1 == s) with
    | none => rw [hf] at h; cases h
    | some q =>
      obtain ⟨n, v⟩ := q
      rw [hf] at h
      have hv : v = [.num m] := by
        cases v with
        | nil => cases h
        | cons a as =>
          cases a with
          | num x =>
            cases as with
            | nil => simp only [Option.some.injEq] at h; rw [h]
            | cons _ _ => cases h
          | _ => cases h
      subst hv
      have h1 : expandEqus 64 eqs [.name s] = expandEqus 63 eqs [.num m] := by
        rw [expandEqus]
        simp [hf]
      show expandEqus 64 eqs [.name s] = some [.num m]
      rw [h1]
      exact expandEqus_num 62 eqs m

/-- `unrollAux_block` for any count the EQUs in front give a literal value -/
theorem unrollAux_block_cnt (f : Nat) (ctr : String) (cnt : List ETok) (m : Nat) (hm : m < 2 ^ 31)
    (body rest before : List Spec.Item) (k : Nat) (X : List Spec.Item) (k1 : Nat) (r : List Spec.Item × Nat)
    (hcnt : expandEqus 64 (equsOf before) cnt = some [.num m])
    (hcopies : unrollAux f ((List.range m).flatMap fun i => substItems ctr [.num (i + 1)] body)
      before (k + 1) = some (before ++ X, k1))
    (hrest : unrollAux f rest (before ++ X) k1 = some r) :
    unrollAux (f + 1) (.for_ [] ctr cnt body :: rest) before k = some r := by
  rw [unrollAux_for, hcnt]
  simp only [Option.bind_some]
  rw [evalInt_num m hm]
  simp only [Option.bind_some]
  rw [if_neg (by omega), Int.toNat_natCast, hcopies]
  simp only [Option.bind_some, List.drop_left, attachLabels_nil]
  exact hrest

/-- `unrollAux_flatMap` with an invariant on what stands in front -/
theorem unrollAux_flatMap_inv (I : List Spec.Item → Prop) (items out : Nat → List Spec.Item) (K : Nat → Nat)
    (F : Nat → Nat) (is : List Nat)
    (h : ∀ i ∈ is, ∀ before k, I before → unrollAux (F i + 1) (items i) before k =
      some (before ++ out i, k + K i))
    (hI : ∀ i ∈ is, ∀ before, I before → I (before ++ out i)) :
    ∀ (before : List Spec.Item) (k f : Nat), I before → (is.map F).sum + 1 ≤ f →
      unrollAux f (is.flatMap items) before k =
        some (before ++ is.flatMap out, k + (is.map K).sum) := by
  induction is with
  | nil =>
    intro before k f _ hf
    obtain ⟨f', rfl⟩ : ∃ f', f = f' + 1 := ⟨f - 1, by simp at hf; omega⟩
    simp [unrollAux_nil]
  | cons i is ih =>
    intro before k f hb hf
    have h1 := h i (List.mem_cons_self ..) before k hb
    have h2 := ih (fun j hj => h j (List.mem_cons_of_mem _ hj))
      (fun j hj => hI j (List.mem_cons_of_mem _ hj)) (before ++ out i) (k + K i)
      ((is.map F).sum + 1) (hI i (List.mem_cons_self ..) before hb) (Nat.le_refl _)
    have h3 := unrollAux_append _ _ _ _ _ _ _ _ _ h1 h2
    have h4 := unrollAux_mono h3 (f' := f) (by simp only [List.map_cons, List.sum_cons] at hf; omega)
    simp only [List.flatMap_cons, List.map_cons, List.sum_cons]
    rw [h4]
    simp [List.append_assoc, Nat.add_assoc]

/-- **bodies**: `Spec.unrollAux` on the items of a body program appends the unrolled instructions
    and counts the expansions, when the EQUs in front are `eqs` -/
theorem unrollAux_of_BUnroll {eqs : ETab} {p : FProg} {U : List FInstr} {k : Nat}
    (h : BUnroll eqs p U k) :
    ∀ (before : List Spec.Item) (k0 f : Nat), equsOf before = eqs → U.length + k + 1 ≤ f →
      unrollAux f p.toItems before k0 = some (before ++ U.map FInstr.toItem, k0 + k) := by
  induction h with
  | nil =>
    intro before k0 f _ hf
    obtain ⟨f', rfl⟩ : ∃ f', f = f' + 1 := ⟨f - 1, by omega⟩
    simp [FProg.toItems, unrollAux_nil]
  | @instr x r U k _ ih =>
    intro before k0 f hb hf
    obtain ⟨f', rfl⟩ : ∃ f', f = f' + 1 := ⟨f - 1, by omega⟩
    simp only [FProg.toItems]
    rw [unrollAux_other _ _ _ _ _ (by rfl), ih _ _ f' (by
      rw [equsOf_append, hb]
      have := equsOf_instrs [x]
      simp only [List.map_cons, List.map_nil] at this
      rw [this, List.append_nil]) (by simp only [List.length_cons] at hf; omega)]
    simp
  | @block c cnt body r U k m L K hcnt hm _ _ ihb ih =>
    intro before k0 f hb hf
    obtain ⟨f', rfl⟩ : ∃ f', f = f' + 1 := ⟨f - 1, by omega⟩
    simp only [List.length_append, List.length_flatMap] at hf
    have hsum := sum_map_add (List.range m) (fun j => (L j).length) K
    have hcop := unrollAux_flatMap_inv (fun b => equsOf b = eqs)
      (fun j => (body.subst c (j + 1)).toItems)
      (fun j => (L j).map FInstr.toItem) K (fun j => (L j).length + K j) (List.range m)
      (fun j hj before k1 hb' => ihb j (List.mem_range.1 hj) before k1 _ hb' (Nat.le_refl _))
      (fun j _ before hb' => by rw [equsOf_append, hb', equsOf_instrs, List.append_nil])
      before (k0 + 1) f' hb (by rw [hsum]; omega)
    have hitems : (fun j => (body.subst c (j + 1)).toItems) =
        fun j => substItems c [.num (j + 1)] body.toItems := by
      funext j; exact FProg.toItems_subst c (j + 1) body
    rw [hitems] at hcop
    have hrest := ih (before ++ (List.range m).flatMap (fun j => (L j).map FInstr.toItem))
      (k0 + 1 + ((List.range m).map K).sum) f' (by
        rw [equsOf_append, hb, ← List.map_flatMap, equsOf_instrs, List.append_nil]) (by omega)
    simp only [FProg.toItems]
    rw [unrollAux_block_cnt f' c cnt.etoks m hm _ _ before k0 _ _ _
      (by rw [hb]; exact expandEqus_cnt hcnt) hcop hrest]
    simp only [List.map_append, List.map_flatMap, List.append_assoc]
    congr 2
    omega

theorem toE_toX_item (x : FInstr) : ((toE x).toX.map AsmLine.XItem.toItem) = some x.toItem := by
  obtain ⟨op, md, a, b⟩ := x
  simp only [toE, EItem.toX, Option.map_some, AsmLine.XItem.toItem, FInstr.toItem, FInstr.toL,
    LItem.toItem, List.map_nil]
  congr 2
  cases b <;> rfl

theorem filterMap_toE (U : List FInstr) :
    ((U.map toE).filterMap EItem.toX).map AsmLine.XItem.toItem = U.map FInstr.toItem := by
  induction U with
  | nil => rfl
  | cons x r ih =>
    have hx := toE_toX_item x
    cases hq : (toE x).toX with
    | none => rw [hq] at hx; cases hx
    | some q =>
      rw [hq] at hx
      simp only [Option.map_some, Option.some.injEq] at hx
      simp only [List.map_cons, List.filterMap_cons, hq, hx, ih]

theorem isFor_toItem (x : AsmLine.XItem) : isFor x.toItem = false := by
  cases x <;> rfl

theorem equsOf_toItem (it : EItem) :
    equsOf ((it.toX.map AsmLine.XItem.toItem).toList) = equsOfE it := by
  cases it <;> rfl

/-- **top level**: `Spec.unrollAux` on the items of the top level -/
theorem unrollAux_of_AUnroll {eqs : ETab} {items : List AItem} {U : List EItem} {k : Nat}
    (h : AUnroll eqs items U k) :
    ∀ (before : List Spec.Item) (k0 f : Nat), equsOf before = eqs → U.length + k + 1 ≤ f →
      unrollAux f (aitemsToItems items) before k0 =
        some (before ++ (U.filterMap EItem.toX).map AsmLine.XItem.toItem, k0 + k) := by
  induction h with
  | nil eqs =>
    intro before k0 f _ hf
    obtain ⟨f', rfl⟩ : ∃ f', f = f' + 1 := ⟨f - 1, by omega⟩
    simp [aitemsToItems, unrollAux_nil]
  | @item eqs it r U k _ ih =>
    intro before k0 f hb hf
    obtain ⟨f', rfl⟩ : ∃ f', f = f' + 1 := ⟨f - 1, by omega⟩
    simp only [List.length_cons] at hf
    have hx : (if ahasBlock r then clearE it else it).toX = it.toX := by
      split
      · exact clearE_toX it
      · rfl
    have heq := equsOf_toItem it
    simp only [aitemsToItems, List.flatMap_cons, AItem.toItems, List.filterMap_cons, hx]
    cases hq : it.toX with
    | none =>
      rw [hq] at heq
      simp only [Option.map_none, Option.toList_none, List.nil_append]
      have := ih before k0 f' (by rw [hb, ← heq]; simp [equsOf]) (by omega)
      exact unrollAux_mono this (by omega)
    | some q =>
      rw [hq] at heq
      simp only [Option.map_some, Option.toList_some, List.singleton_append]
      rw [unrollAux_other _ _ _ _ _ (isFor_toItem q)]
      have := ih (before ++ [q.toItem]) k0 f' (by
        rw [equsOf_append, hb, ← heq]; rfl) (by omega)
      rw [aitemsToItems] at this
      rw [this]
      simp
  | @block eqs c cnt body r U k m L K hcnt hm hcopies _ ih =>
    intro before k0 f hb hf
    have hB : BUnroll eqs (.block c cnt body .nil) ((List.range m).flatMap L ++ [])
        (1 + ((List.range m).map K).sum + 0) :=
      BUnroll.block m L K hcnt hm hcopies BUnroll.nil
    simp only [List.append_nil, Nat.add_zero] at hB
    simp only [List.length_append, List.length_map] at hf
    have h1 := unrollAux_of_BUnroll hB before k0 _ hb (Nat.le_refl _)
    have h2 := ih (before ++ ((List.range m).flatMap L).map FInstr.toItem)
      (k0 + (1 + ((List.range m).map K).sum)) (U.length + k + 1) (by
        rw [equsOf_append, hb, equsOf_instrs, List.append_nil]) (Nat.le_refl _)
    have h3 := unrollAux_append _ _ _ _ _ _ _ _ _ h1 h2
    have h4 := unrollAux_mono h3 (f' := f) (by omega)
    have e : aitemsToItems (AItem.block c cnt body :: r) =
        (FProg.block c cnt body .nil).toItems ++ aitemsToItems r := by
      simp [aitemsToItems, AItem.toItems, FProg.toItems]
    rw [e, h4]
    simp only [List.filterMap_append, List.map_append, filterMap_toE, List.append_assoc]
    congr 2
    omega

theorem unrollAux_all (p : AProg) {U : List EItem} {k : Nat} (h : AUnroll [] p.items U k)
    (hf : U.length + k + 2 < 100000) :
    unrollAux 100000 p.toItems [] 0 =
      some ((U.filterMap EItem.toX).map AsmLine.XItem.toItem ++ finItems p.fin, k) := by
  have h1 := unrollAux_of_AUnroll h [] 0 (U.length + k + 1) rfl (Nat.le_refl _)
  have h2 : unrollAux 2 (finItems p.fin) ([] ++ (U.filterMap EItem.toX).map AsmLine.XItem.toItem)
      (0 + k) = some ((U.filterMap EItem.toX).map AsmLine.XItem.toItem ++ finItems p.fin, k) := by
    unfold finItems
    cases p.fin with
    | none => simp [unrollAux_nil]
    | some q =>
      obtain ⟨kw, e⟩ := q
      simp only
      rw [unrollAux_other _ _ _ _ _ (by rfl), unrollAux_nil]
      simp
  have h3 := unrollAux_append _ _ _ _ _ _ _ _ _ h1 h2
  exact unrollAux_mono h3 (f' := 100000) (by omega)

/-- **the reference unrolls the items of the program to the items of the unrolled program** -/
theorem spec_unroll_all (p : AProg) {U : List EItem} {k : Nat} (h : AUnroll [] p.items U k)
    (hf : U.length + k + 2 < 100000) :
    Spec.unroll p.toItems = some ((p.unrolled U).xitems.map AsmLine.XItem.toItem) := by
  unfold Spec.unroll
  rw [unrollAux_all p h hf, unrolled_xitems]
  rfl

/-- … and counts the expansions of the manual unrolling -/
theorem spec_expansions_all (p : AProg) {U : List EItem} {k : Nat} (h : AUnroll [] p.items U k)
    (hf : U.length + k + 2 < 100000) : Spec.expansions p.toItems = k := by
  unfold Spec.expansions
  rw [unrollAux_all p h hf]
  rfl

/-- **the reference meaning of the program is the meaning of its unrolling** (an `EProg`: labels,
    EQUs, asserts; the labels get their positions after the unrolling) -/
theorem spec_meaning_all (sc : Spec.Cfg) (p : AProg) {U : List EItem} {k : Nat}
    (h : AUnroll [] p.items U k) (hf : U.length + k + 2 < 100000) :
    Spec.meaning sc p.toItems =
      Spec.meaningFlat sc ((p.unrolled U).xitems.map AsmLine.XItem.toItem) := by
  unfold Spec.meaning
  rw [spec_unroll_all p h hf]
  rfl

end AsmComposeAll
end Gmars
