/-
  C03 / C08, labels + EQUs + FOR blocks in ONE program, part (c1): the structured programs as
  tokens, and the FOR pass loop on them.

    * `AItem.toT`, `AProg.tokens`   the program as tokens: the items of the `EProg` reading, and
                                    `ctr for count` / body / `rof` for the blocks
    * `gunroll_of_BUnroll`, `gunroll_of_AUnroll`   the token-level unrolling (`GUnroll`) follows the
                                    item-level unrolling (`BUnroll`, `AUnroll`)
    * `forLoop_all`                 **the pass loop on the tokens of the program returns the tokens of
                                    the unrolled program** (an `EProg`), for at most 12 expansions
-/
import Gmars.Proofs.AsmComposeAllProg
import Gmars.Proofs.AsmComposeAllEval

namespace Gmars
namespace AsmComposeAll
open Gmars.AsmCompose Gmars.Render Gmars.AsmLine Gmars.ExprProofs Gmars.ForPass Gmars.Spec
open Gmars.AsmComposeFor Gmars.AsmComposeEqu

/-! ## 1. the items as tokens -/

/-- an item of the top level as an item of the pass loop -/
def AItem.toT : AItem → TItem
  | .item it => .chunk it.toP.tokens (clearP it.toP).tokens (pitemsEqus [it.toP])
  | .block c n body => .block ⟨.text, c⟩ FProg.forTok n.tok nlTok body.toProg FProg.rofLine

theorem hasBlock_toT (l : List AItem) : hasBlock (l.map AItem.toT) = ahasBlock l := by
  induction l with
  | nil => rfl
  | cons i r ih =>
    simp only [hasBlock, ahasBlock, List.map_cons, List.any_cons] at ih ⊢
    rw [ih]
    cases i <;> rfl

theorem clearE_toP (it : EItem) : (clearE it).toP = clearP it.toP := by
  cases it with
  | instr ls op md a b k =>
    simp only [clearE, EItem.toP, clearP, WItem.toItem, WStmt.toStmt, xwStmt, clearStmt, clearLabels,
      List.map_map]
    rfl
  | equ n kw e k => rfl
  | org kw e k => rfl
  | assert cs e k => rfl
  | comment cs k => rfl

theorem equs_toP (it : EItem) : pitemsEqus [it.toP] = (equsOfE it).map rendEqu := by
  cases it <;> rfl

/-- the EQU definitions of the top level -/
def aequs (l : List AItem) : ETab :=
  l.flatMap (fun i => match i with | .item it => equsOfE it | .block .. => [])

theorem aequs_cons_item (it : EItem) (r : List AItem) :
    aequs (.item it :: r) = equsOfE it ++ aequs r := rfl

theorem aequs_cons_block (c : String) (n : Cnt) (b : FProg) (r : List AItem) :
    aequs (.block c n b :: r) = aequs r := rfl

/-! ### the instructions of an unrolled body -/

theorem ewords_etoks (e : NT) : ewords e.etoks = NTwords e := by
  induction e with
  | num n => rfl
  | name s => rfl
  | signs ss e ih =>
    simp only [NT.etoks, ewords, List.map_append, List.map_map, NTwords] at ih ⊢
    rw [ih]
    congr 1
    apply List.map_congr_left
    intro b _
    cases b <;> rfl
  | paren e ih =>
    simp only [NT.etoks, ewords, List.map_cons, List.map_append, List.map_nil, NTwords] at ih ⊢
    rw [ih]; rfl
  | bin op l r ihl ihr =>
    simp only [NT.etoks, ewords, List.map_cons, List.map_append, NTwords] at ihl ihr ⊢
    rw [ihl, ihr]; rfl

theorem xwOperand_lopX (o : LOperand) : xwOperand (lopX o) = wOperand o := by
  simp [xwOperand, lopX, wOperand, ewords_etoks]

theorem toE_toP (x : FInstr) : (toE x).toP = .x x.toS.toX := by
  obtain ⟨op, md, a, b⟩ := x
  simp only [toE, EItem.toP, FInstr.toS, SItem.toX, xwStmt, wStmt, xwOperand_lopX, List.map_nil]
  congr 5
  cases b with
  | none => rfl
  | some bo => simp [xwOperand_lopX]

theorem toE_tokens (x : FInstr) (h : x.LexOK) : (toE x).toP.tokens = x.line.flat := by
  rw [toE_toP]
  exact FInstr.toX_tokens x h

theorem pitemsTokens_toE (U : List FInstr) (h : ∀ x ∈ U, x.LexOK) :
    pitemsTokens ((U.map toE).map EItem.toP) = flat (U.map FInstr.line) := by
  induction U with
  | nil => rfl
  | cons x r ih =>
    simp only [List.map_cons, pitemsTokens, flat_cons,
      toE_tokens x (h x (List.mem_cons_self ..)), ih (fun y hy => h y (List.mem_cons_of_mem _ hy))]

theorem pitemsTokens_append (a b : List PItem) :
    pitemsTokens (a ++ b) = pitemsTokens a ++ pitemsTokens b := by
  induction a with
  | nil => rfl
  | cons x r ih => simp [pitemsTokens, ih]

theorem flat_flatMap (is : List Nat) (L : Nat → List Line) :
    flat (is.flatMap L) = is.flatMap (fun j => flat (L j)) := by
  induction is with
  | nil => rfl
  | cons i r ih => simp [flat_append, ih]

/-! ## 2. the unrolling of the bodies, token level -/

/-- the instructions of an unrolled body are well-formed -/
theorem BUnroll.instrs_ok {eqs : ETab} {p : FProg} {U : List FInstr} {k : Nat}
    (h : BUnroll eqs p U k) : p.OK → ∀ x ∈ U, x.LexOK ∧ x.OpOK := by
  induction h with
  | nil => intro _ x hx; cases hx
  | instr _ ih =>
    intro hok x hx
    rcases List.mem_cons.1 hx with rfl | hx
    · exact ⟨hok.1, hok.2.1⟩
    · exact ih hok.2.2 x hx
  | block m L K _ _ _ _ ihb ih =>
    intro hok x hx
    rcases List.mem_append.1 hx with hx | hx
    · obtain ⟨j, hj, hxj⟩ := List.mem_flatMap.1 hx
      exact ihb j (List.mem_range.1 hj) (FProg.OK_subst _ _ _ hok.2.2.1) x hxj
    · exact ih hok.2.2.2 x hx

theorem exprToks_single (t : Token) (h : t.typ ≠ .comment) : exprToks [t] = [t] := by
  simp [exprToks, h]

/-- the count of a block, as the FOR expander evaluates it with the EQUs in front -/
theorem eval_cnt {eqs : ETab} (hac : graphContainsCycle (buildReferenceGraph (eqs.map rendEqu)) = false)
    {cnt : Cnt} {m : Nat} (h : cntValue eqs cnt = some m) (hm : m < 2 ^ 31) :
    expandAndEvaluate (exprToks [cnt.tok]) (eqs.map rendEqu) = .ok (m : Int) := by
  cases cnt with
  | lit n =>
    simp only [cntValue, Option.some.injEq] at h
    subst h
    rw [exprToks_single _ (by simp [Cnt.tok, ExprProofs.numTok])]
    exact eval_count_lit _ hac n hm
  | ctr s =>
    rw [exprToks_single _ (by simp [Cnt.tok])]
    simp only [cntValue] at h
    have hget : SymTab.get? (eqs.map rendEqu) s = some [ExprProofs.numTok m] := by
      rw [tabRel_rend eqs s]
      unfold ETab.get?
      cases hf : eqs.find? (·.1 == s) with
      | none => rw [hf] at h; cases h
      | some q =>
        obtain ⟨n, v⟩ := q
        rw [hf] at h
        cases v with
        | nil => cases h
        | cons a as =>
          cases a with
          | num x =>
            cases as with
            | nil =>
              simp only [Option.some.injEq] at h
              subst h
              rfl
            | cons _ _ => cases h
          | _ => cases h
    exact eval_count_name _ hac s m hget hm

/-- **bodies, token level** -/
theorem gunroll_of_BUnroll {eqs : ETab} (hnd : (eqs.map (·.1)).Nodup)
    (hac : graphContainsCycle (buildReferenceGraph (eqs.map rendEqu)) = false)
    {p : FProg} {U : List FInstr} {k : Nat} (h : BUnroll eqs p U k) :
    p.OK → GUnroll (eqs.map rendEqu) (embed p.toProg) (flat (U.map FInstr.line)) k := by
  have hV : ((eqs.map rendEqu).map (·.1)).Nodup := by rw [rendEqu_keys]; exact hnd
  induction h with
  | nil => intro _; exact GUnroll.nil _
  | @instr x r U k _ ih =>
    intro hok
    have hs := x.simpleLine hok.2.1
    have hrec : GUnroll (eqs.map rendEqu ++ []) (embed r.toProg) (flat (U.map FInstr.line)) k := by
      rw [List.append_nil]; exact ih hok.2.2
    have := GUnroll.chunk (chunk_simple hs) (chunk_simple hs) (fresh_nil _ hV) hrec
    refine this.cast ?_ rfl
    simp
  | @block c cnt body r U k m L K hcnt hm _ _ ihb ih =>
    intro hok
    have hcopies : ∀ j, j < m →
        GUnroll (eqs.map rendEqu) (embed (body.toProg.subst (⟨.text, c⟩ : Token).val (j + 1)))
          (flat ((L j).map FInstr.line)) (K j) := by
      intro j hj
      have := ihb j hj (FProg.OK_subst _ _ _ hok.2.2.1)
      rw [FProg.toProg_subst c (j + 1) hok.1 body hok.2.2.1 hok.2.1] at this
      exact this
    have := GUnroll.block (c := ⟨.text, c⟩) (f := FProg.forTok) (n := cnt.tok) (nl := nlTok)
      (rof := FProg.rofLine) m (fun j => flat ((L j).map FInstr.line)) K
      (FProg.headerOK c cnt hok.1) (eval_cnt hac hcnt hm) FProg.rofOK
      (FProg.shape body hok.2.2.1) hcopies (ih hok.2.2.2)
    refine this.cast ?_ rfl
    simp [List.map_flatMap, flat_append, flat_flatMap]

/-! ## 3. the unrolling of the top level, token level -/

theorem ranked_step {eqs : ETab} {it : EItem} {r : List AItem} {R : ETab} {d : String → Nat}
    (h : ERanked (eqs ++ (aequs (.item it :: r) ++ R)) d) :
    ERanked ((eqs ++ equsOfE it) ++ (aequs r ++ R)) d := by
  simpa [aequs_cons_item, List.append_assoc] using h

/-- **top level, token level**: the token-level unrolling of the items is the token stream of the
    items of the unrolled program -/
theorem gunroll_of_AUnroll {eqs : ETab} {items : List AItem} {U : List EItem} {k : Nat}
    (h : AUnroll eqs items U k) (R : ETab) (d : String → Nat) :
    ((eqs ++ aequs items).map (·.1)).Nodup → ERanked (eqs ++ (aequs items ++ R)) d →
    (∀ it, AItem.item it ∈ items → it.toP.OK) →
    (∀ c n body, AItem.block c n body ∈ items → (FProg.block c n body .nil).OK) →
    GUnroll (eqs.map rendEqu) (items.map AItem.toT) (pitemsTokens (U.map EItem.toP)) k := by
  induction h with
  | nil eqs => intro _ _ _ _; exact GUnroll.nil _
  | @item eqs it r U k _ ih =>
    intro hnd hrk hitem hblock
    have hok := hitem it (List.mem_cons_self ..)
    have hnd' : (((eqs ++ equsOfE it) ++ aequs r).map (·.1)).Nodup := by
      simpa [aequs_cons_item, List.append_assoc] using hnd
    have hfresh : Fresh (pitemsEqus [it.toP]) (eqs.map rendEqu) := by
      unfold Fresh
      rw [equs_toP, rendEqu_keys, rendEqu_keys, ← List.map_append]
      rw [List.map_append] at hnd'
      exact (List.nodup_append.1 hnd').1
    have hrec := ih hnd' (ranked_step hrk) (fun x hx => hitem x (List.mem_cons_of_mem _ hx))
      (fun c n b hb => hblock c n b (List.mem_cons_of_mem _ hb))
    rw [List.map_append, ← equs_toP] at hrec
    have := GUnroll.chunk (chunk_pitem it.toP hok) (chunk_pitem_clear it.toP hok) hfresh hrec
    refine this.cast ?_ rfl
    rw [hasBlock_toT]
    simp only [List.map_cons, pitemsTokens]
    congr 1
    split
    · rw [clearE_toP]
    · rfl
  | @block eqs c cnt body r U k m L K hcnt hm hcopies _ ih =>
    intro hnd hrk hitem hblock
    have hok := hblock c cnt body (List.mem_cons_self ..)
    have hndE : (eqs.map (·.1)).Nodup := by
      rw [List.map_append] at hnd
      exact (List.nodup_append.1 hnd).1
    have hac := acyclic_prefix hrk hndE
    have hrec := ih (by simpa [aequs_cons_block] using hnd) (by simpa [aequs_cons_block] using hrk)
      (fun x hx => hitem x (List.mem_cons_of_mem _ hx))
      (fun c n b hb => hblock c n b (List.mem_cons_of_mem _ hb))
    have hcop : ∀ j, j < m →
        GUnroll (eqs.map rendEqu) (embed (body.toProg.subst (⟨.text, c⟩ : Token).val (j + 1)))
          (flat ((L j).map FInstr.line)) (K j) := by
      intro j hj
      have := gunroll_of_BUnroll hndE hac (hcopies j hj) (FProg.OK_subst _ _ _ hok.2.2.1)
      rw [FProg.toProg_subst c (j + 1) hok.1 body hok.2.2.1 hok.2.1] at this
      exact this
    have := GUnroll.block (c := ⟨.text, c⟩) (f := FProg.forTok) (n := cnt.tok) (nl := nlTok)
      (rof := FProg.rofLine) m (fun j => flat ((L j).map FInstr.line)) K
      (FProg.headerOK c cnt hok.1) (eval_cnt hac hcnt hm) FProg.rofOK
      (FProg.shape body hok.2.2.1) hcop hrec
    refine this.cast ?_ rfl
    have hU : ∀ x ∈ (List.range m).flatMap L, x.LexOK := by
      intro x hx
      obtain ⟨j, hj, hxj⟩ := List.mem_flatMap.1 hx
      exact ((hcopies j (List.mem_range.1 hj)).instrs_ok (FProg.OK_subst _ _ _ hok.2.2.1) x hxj).1
    rw [List.map_append, pitemsTokens_append, pitemsTokens_toE _ hU, List.map_flatMap, flat_flatMap]

/-! ## 4. the program as tokens -/

/-- what follows the items, without the final EOF token: nothing, or the END line and the empty
    lines behind it -/
def AProg.finTail (p : AProg) : List Token :=
  match p.fin with
  | none => []
  | some (kw, e) =>
    (⟨.text, kw⟩ : Token) :: ((e.map toksOf).getD [] ++ nlTok :: List.replicate p.trail nlTok)

/-- **the program as tokens** -/
def AProg.tokens (p : AProg) : List Token :=
  List.replicate p.lead nlTok ++ progToks (p.items.map AItem.toT) ++ p.finTail ++ [ForPass.eofTok]

theorem unrolled_finTokens (p : AProg) (U : List EItem) :
    (p.unrolled U).toP.finTokens = p.finTail ++ [ForPass.eofTok] := by
  unfold PProg.finTokens EProg.toP AProg.unrolled AProg.finTail
  cases p.fin with
  | none => rfl
  | some q => obtain ⟨kw, e⟩ := q; simp; rfl

theorem unrolled_tokens (p : AProg) (U : List EItem) :
    (p.unrolled U).toP.tokens =
      List.replicate p.lead nlTok ++ pitemsTokens (U.map EItem.toP) ++ p.finTail ++ [ForPass.eofTok] := by
  rw [PProg.tokens, unrolled_finTokens]
  simp [EProg.toP, AProg.unrolled]

/-- the EQU table of the unrolled program is the EQU table of the top level -/
theorem AUnroll.equs {eqs : ETab} {items : List AItem} {U : List EItem} {k : Nat}
    (h : AUnroll eqs items U k) : xequs (U.filterMap EItem.toX) = aequs items := by
  induction h with
  | nil eqs => rfl
  | @item eqs it r U k _ ih =>
    have hx : (if ahasBlock r then clearE it else it).toX = it.toX := by
      split
      · exact clearE_toX it
      · rfl
    rw [aequs_cons_item, ← ih, List.filterMap_cons, hx]
    cases it <;> rfl
  | @block eqs c cnt body r U k m L K _ _ _ _ ih =>
    rw [aequs_cons_block, ← ih, List.filterMap_append, xequs_append]
    have : ∀ V : List FInstr, xequs ((V.map toE).filterMap EItem.toX) = [] := by
      intro V
      induction V with
      | nil => rfl
      | cons x r ih => simpa [toE, EItem.toX, xequs] using ih
    rw [this, List.nil_append]

/-- the items of the top level reappear in the unrolled program, possibly without their colons -/
theorem AUnroll.mem_item {eqs : ETab} {items : List AItem} {U : List EItem} {k : Nat}
    (h : AUnroll eqs items U k) : ∀ it, AItem.item it ∈ items → it ∈ U ∨ clearE it ∈ U := by
  induction h with
  | nil eqs => intro it hit; cases hit
  | @item eqs it0 r U k _ ih =>
    intro it hit
    rcases List.mem_cons.1 hit with h | h
    · cases h
      by_cases hb : ahasBlock r = true
      · right; simp [hb]
      · left; simp [hb]
    · rcases ih it h with h' | h'
      · exact Or.inl (List.mem_cons_of_mem _ h')
      · exact Or.inr (List.mem_cons_of_mem _ h')
  | @block eqs c cnt body r U k m L K _ _ _ _ ih =>
    intro it hit
    rcases List.mem_cons.1 hit with h | h
    · cases h
    · rcases ih it h with h' | h'
      · exact Or.inl (List.mem_append_right _ h')
      · exact Or.inr (List.mem_append_right _ h')

theorem OK_of_clearP {it : PItem} (h : (clearP it).OK) : it.OK := by
  cases it with
  | equ name kw toks k => exact h
  | x it =>
    cases it with
    | org kw toks k => exact h
    | base it =>
      cases it with
      | comment v k => exact h
      | stmt s =>
        obtain ⟨h1, h2, h3, h4⟩ := h
        refine ⟨?_, h2, h3, h4⟩
        intro l hl
        exact h1 (l.1, false) (by
          simp only [clearStmt, clearLabels, List.mem_map]
          exact ⟨l, hl, rfl⟩)

/-- the blocks of the top level are well-formed: the counter is a label word and not the counter
    of a block inside the block, the bodies are well-formed (`FProg.OK`) -/
def BlocksOK (items : List AItem) : Prop :=
  ∀ c n body, AItem.block c n body ∈ items → (FProg.block c n body .nil).OK

/-- the token-level unrolling of the whole program (leading blank lines included) -/
theorem gunroll_all (p : AProg) (U : List EItem) (k : Nat) (hu : AUnroll [] p.items U k)
    (hblocks : BlocksOK p.items) (hP : (p.unrolled U).toP.OK)
    (sc : Spec.Cfg) (d : String → Nat)
    (hnd : (p.unrolled U).equNames.Nodup)
    (hrk : ERanked (xequs (p.unrolled U).xitems ++ Spec.predefined sc) d) :
    GUnroll [] (TItem.chunk (List.replicate p.lead nlTok) (List.replicate p.lead nlTok) [] ::
      p.items.map AItem.toT) (List.replicate p.lead nlTok ++ pitemsTokens (U.map EItem.toP)) k := by
  -- the EQU table
  have hequs : xequs (p.unrolled U).xitems = aequs p.items := by
    unfold EProg.xitems
    rw [xequs_append, (p.unrolled U).finX_equs, List.append_nil]
    exact hu.equs
  have hitem : ∀ it, AItem.item it ∈ p.items → it.toP.OK := by
    intro it hit
    rcases hu.mem_item it hit with h | h
    · exact hP.items _ (List.mem_map_of_mem h)
    · have := hP.items _ (List.mem_map_of_mem h)
      rw [clearE_toP] at this
      exact OK_of_clearP this
  have hg := gunroll_of_AUnroll hu (Spec.predefined sc) d
    (by
      unfold EProg.equNames at hnd
      rw [hequs] at hnd
      simpa using hnd)
    (by rw [hequs] at hrk; simpa using hrk) hitem hblocks
  -- the leading blank lines
  have hlead : GUnroll [] (TItem.chunk (List.replicate p.lead nlTok) (List.replicate p.lead nlTok) [] ::
      p.items.map AItem.toT)
      ((if hasBlock (p.items.map AItem.toT) then List.replicate p.lead nlTok
        else List.replicate p.lead nlTok) ++ pitemsTokens (U.map EItem.toP)) k :=
    GUnroll.chunk (chunk_nls' p.lead) (chunk_nls' p.lead) (fresh_nil [] List.nodup_nil) hg
  exact hlead.cast (by split <;> rfl) rfl

/-- the END line does not end the token stream -/
theorem finTail_noTerm (p : AProg) (U : List EItem) (hP : (p.unrolled U).toP.OK) :
    ∀ t ∈ p.finTail, t.isTerm = false := by
  unfold AProg.finTail
  cases hf : p.fin with
  | none => intro t ht; cases ht
  | some q =>
    obtain ⟨kw, e⟩ := q
    obtain ⟨_, hts, _⟩ := hP.fin kw ((e.map toksOf).getD []) (by
      simp [EProg.toP, AProg.unrolled, hf])
    intro t ht
    simp only [List.mem_cons, List.mem_append] at ht
    rcases ht with rfl | ht | rfl | ht
    · rfl
    · exact (inLine_of_exprTerm (hts t ht)).isTerm
    · rfl
    · exact noTerm_nls _ t ht

/-- **the pass loop on the tokens of the program returns the tokens of the unrolled program** -/
theorem forLoop_all (p : AProg) (U : List EItem) (k : Nat) (hu : AUnroll [] p.items U k)
    (hk : k ≤ 12) (hblocks : BlocksOK p.items) (hP : (p.unrolled U).toP.OK)
    (sc : Spec.Cfg) (d : String → Nat)
    (hnd : (p.unrolled U).equNames.Nodup)
    (hrk : ERanked (xequs (p.unrolled U).xitems ++ Spec.predefined sc) d) :
    forLoop 14 0 p.tokens = .ok (p.unrolled U).toP.tokens := by
  have hg := gunroll_all p U k hu hblocks hP sc d hnd hrk
  have hscan : ∀ s : SymTab, ForPass.runScan (p.finTail ++ [ForPass.eofTok]) s = Scan.stop s := by
    unfold AProg.finTail
    cases hf : p.fin with
    | none => exact tail_nil_scan
    | some q =>
      obtain ⟨kw, e⟩ := q
      obtain ⟨hkw, _, _⟩ := hP.fin kw ((e.map toksOf).getD []) (by
        simp [EProg.toP, AProg.unrolled, hf])
      exact tail_end_scan _ _ rfl hkw
  have := for_unroll_all _ _ k hg hk p.finTail (finTail_noTerm p U hP) hscan
  rw [unrolled_tokens]
  simpa [AProg.tokens, TItem.toks, List.append_assoc] using this

/-- with 13 or more block expansions the pass loop gives up (finding F12) -/
theorem forLoop_all_too_deep (p : AProg) (U : List EItem) (k : Nat) (hu : AUnroll [] p.items U k)
    (hk : 13 ≤ k) (hblocks : BlocksOK p.items) (hP : (p.unrolled U).toP.OK)
    (sc : Spec.Cfg) (d : String → Nat)
    (hnd : (p.unrolled U).equNames.Nodup)
    (hrk : ERanked (xequs (p.unrolled U).xitems ++ Spec.predefined sc) d) :
    forLoop 14 0 p.tokens = .error .err := by
  have hg := gunroll_all p U k hu hblocks hP sc d hnd hrk
  have := for_unroll_all_too_deep _ _ k hg hk p.finTail (finTail_noTerm p U hP)
  simpa [AProg.tokens, TItem.toks, List.append_assoc] using this

end AsmComposeAll
end Gmars
