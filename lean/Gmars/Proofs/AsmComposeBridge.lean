/-
  C03, composition, part 2d: the bridge between the two program representations.

  A source program `SProg` is a label program of `AsmLine.compile_meaning_labels` (instructions with
  labels and template operands, ORG lines, a final END line) together with its layout: which labels
  carry a colon, blank lines, comment lines.  It is read three ways:

    * `SProg.litems`   : the `AsmLine.LItem`s (what the compiler theorem and the reference read)
    * `SProg.srcLines` : the canonical source lines made of words (what the lexer theorem reads)
    * `SProg.toX`      : the parser-level program `XProg` (what the parser theorem reads)

  and this file proves that the three fit together:

    * `SProg.lex_tokens`   lexing any spacing of the source lines gives `p.toX.tokens`
    * `SProg.norm_lines`   the parsed lines `p.toX.lines` are, for the compiler, `lrender 0 p.litems`
    * `SProg.toX_OK`       the parser-level well-formedness
    * `SProg.tokens_plain` no `for` / `equ` token
-/
import Gmars.Proofs.AsmComposeWords
import Gmars.Proofs.AsmComposeParse
import Gmars.Proofs.AsmComposeCongr
import Gmars.Proofs.AsmComposeStages

namespace Gmars
namespace AsmCompose
open Gmars.Render Gmars.AsmLine Gmars.ExprProofs

/-! ## source programs -/

/-- an operand as words: the mode character and the words of the template -/
def wOperand (o : LOperand) : WOperand := { mode := o.mode.map Mode.sym, expr := NTwords o.expr }

/-- an instruction statement as words; every label with its "followed by a colon" flag -/
def wStmt (ls : List (String × Bool)) (op : String) (md : Option String) (a : LOperand)
    (b : Option LOperand) : WStmt :=
  { labels := ls.map (fun p => (identWord p.1, p.2)), op := identWord (opString op md),
    a := wOperand a, b := b.map wOperand }

/-- what stands between two line starts of a source program -/
inductive SItem
  /-- an instruction (labels with colon flags) and `blanks` empty lines -/
  | instr (labels : List (String × Bool)) (op : String) (md : Option String) (a : LOperand)
      (b : Option LOperand) (blanks : Nat)
  /-- `ORG e` and `blanks` empty lines -/
  | org (kw : String) (e : NT) (blanks : Nat)
  /-- a comment line `;cs` and `blanks` empty lines -/
  | comment (cs : List Char) (blanks : Nat)

/-- `lead` empty lines, the items, optionally a last line `END [e]` and `trail` empty lines -/
structure SProg where
  lead : Nat := 0
  items : List SItem
  fin : Option (String × Option NT) := none
  trail : Nat := 0

def SItem.toL : SItem → Option LItem
  | .instr ls op md a b _ => some (.instr (ls.map (·.1)) op md a b)
  | .org kw e _ => some (.org kw e)
  | .comment _ _ => none

def SProg.finL (p : SProg) : List LItem :=
  match p.fin with
  | some (kw, e) => [.end_ kw e]
  | none => []

/-- the label program: layout forgotten -/
def SProg.litems (p : SProg) : List LItem := p.items.filterMap SItem.toL ++ p.finL

/-! ### as source lines -/

/-- the line `kw ws…` -/
def pseudoSrcLine (kw : String) (ws : List Word) : SrcLine := { words := spaced (identWord kw :: ws) }

def SItem.srcLines : SItem → List SrcLine
  | .instr ls op md a b k => (WItem.stmt (wStmt ls op md a b) k).srcLines
  | .org kw e k => pseudoSrcLine kw (NTwords e) :: List.replicate k emptySrcLine
  | .comment cs k => (WItem.comment cs k).srcLines

def sitemsSrcLines : List SItem → List SrcLine
  | [] => []
  | it :: r => it.srcLines ++ sitemsSrcLines r

def SProg.finSrcLines (p : SProg) : List SrcLine :=
  match p.fin with
  | none => []
  | some (kw, e) =>
    pseudoSrcLine kw ((e.map NTwords).getD []) :: List.replicate p.trail emptySrcLine

/-- **the canonical source lines**: words separated by one blank -/
def SProg.srcLines (p : SProg) : List SrcLine :=
  List.replicate p.lead emptySrcLine ++ (sitemsSrcLines p.items ++ p.finSrcLines)

/-! ### as a parser-level program -/

def SItem.toX : SItem → XItem
  | .instr ls op md a b k => .base (WItem.stmt (wStmt ls op md a b) k).toItem
  | .org kw e k => .org kw e.tokens k
  | .comment cs k => .base (WItem.comment cs k).toItem

def SProg.toX (p : SProg) : XProg :=
  { lead := p.lead, items := p.items.map SItem.toX,
    fin := p.fin.map (fun q => (q.1, (q.2.map NT.tokens).getD [])),
    trail := List.replicate p.trail nlTok ++ [eofTok] }

/-- the metadata the parser gathers from the comment lines -/
def SProg.meta (p : SProg) : AsmMeta := p.toX.metadata

/-! ### lexical well-formedness -/

def SItem.LexOK : SItem → Prop
  | .instr ls op md a b _ =>
    (∀ p ∈ ls, identOK p.1 = true) ∧ identOK (opString op md) = true ∧ NTLexOK a.expr ∧
      ∀ bo, b = some bo → NTLexOK bo.expr
  | .org kw e _ => identOK kw = true ∧ NTLexOK e
  | .comment cs _ => ∀ c ∈ cs, c ≠ '\n'

structure SProg.LexOK (p : SProg) : Prop where
  items : ∀ it ∈ p.items, it.LexOK
  fin : ∀ kw e, p.fin = some (kw, e) → identOK kw = true ∧ ∀ x, e = some x → NTLexOK x

theorem mem_modeChars (m : Mode) : m.sym ∈ modeChars := by cases m <;> decide

theorem wOperand_ok (o : LOperand) (h : NTLexOK o.expr) : (wOperand o).ok = true := by
  obtain ⟨w, r, hw, hm⟩ := NTwords_head o.expr h
  have hall := NTwords_exprOK o.expr h
  simp only [WOperand.ok, wOperand, Bool.and_eq_true, List.all_eq_true]
  refine ⟨hall, ?_⟩
  rw [hw]
  cases o.mode with
  | none => simp [hm]
  | some m => simpa using mem_modeChars m

theorem wStmt_ok {ls : List (String × Bool)} {op : String} {md : Option String} {a : LOperand}
    {b : Option LOperand} {k : Nat} (h : (SItem.instr ls op md a b k).LexOK) :
    (wStmt ls op md a b).ok = true := by
  obtain ⟨hl, hop, ha, hb⟩ := h
  simp only [WStmt.ok, wStmt, Bool.and_eq_true, List.all_eq_true]
  refine ⟨⟨⟨⟨?_, identWord_isIdent hop⟩, identWord_valid hop⟩, wOperand_ok a ha⟩, ?_⟩
  · intro q hq
    simp only [List.mem_map] at hq
    obtain ⟨p, hp, rfl⟩ := hq
    exact ⟨identWord_isIdent (hl p hp), identWord_valid (hl p hp)⟩
  · cases b with
    | none => rfl
    | some bo => exact wOperand_ok bo (hb bo rfl)

theorem pseudoSrcLine_ok (kw : String) (ws : List Word) (hk : identOK kw = true)
    (hws : ∀ w ∈ ws, w.valid = true) : (pseudoSrcLine kw ws).ok (some '\n') = true := by
  have : ∀ w ∈ identWord kw :: ws, w.valid = true := by
    intro w hw
    rcases List.mem_cons.mp hw with rfl | hw
    · exact identWord_valid hk
    · exact hws w hw
  simp [pseudoSrcLine, SrcLine.ok, wordsOK_spaced _ this]

theorem pseudoSrcLine_toks (kw : String) (ws : List Word) (hk : identOK kw = true) :
    (pseudoSrcLine kw ws).toks = (⟨.text, kw⟩ : Token) :: ws.map Word.tok := by
  simp [pseudoSrcLine, SrcLine.toks, spaced_toks, identWord_tok hk]

theorem SItem.srcLines_ok {it : SItem} (h : it.LexOK) : ∀ l ∈ it.srcLines, l.ok (some '\n') = true := by
  cases it with
  | instr ls op md a b k => exact WItem.srcLines_ok (it := .stmt _ k) (wStmt_ok h)
  | comment cs k =>
    refine WItem.srcLines_ok (it := .comment cs k) ?_
    have h' : ∀ c ∈ cs, c ≠ '\n' := h
    simpa [WItem.ok] using h'
  | org kw e k =>
    intro l hl
    simp only [SItem.srcLines, List.mem_cons, List.mem_replicate] at hl
    rcases hl with rfl | ⟨_, rfl⟩
    · exact pseudoSrcLine_ok kw _ h.1 (fun w hw => exprWordOK_valid (NTwords_exprOK e h.2 w hw))
    · exact emptySrcLine_ok

theorem SItem.toks_eq {it : SItem} (h : it.LexOK) : linesToks it.srcLines = it.toX.tokens := by
  cases it with
  | instr ls op md a b k => exact WItem.toks_eq (it := .stmt _ k) (wStmt_ok h)
  | comment cs k =>
    refine WItem.toks_eq (it := .comment cs k) ?_
    have h' : ∀ c ∈ cs, c ≠ '\n' := h
    simpa [WItem.ok] using h'
  | org kw e k =>
    simp only [SItem.srcLines, linesToks, linesToks_replicate, SItem.toX, XItem.tokens,
      pseudoSrcLine_toks kw _ h.1, NTwords_tok e h.2, List.cons_append]
    rfl

theorem sitemsSrcLines_ok (items : List SItem) (h : ∀ it ∈ items, it.LexOK) :
    ∀ l ∈ sitemsSrcLines items, l.ok (some '\n') = true := by
  induction items with
  | nil => intro l hl; simp [sitemsSrcLines] at hl
  | cons it r ih =>
    intro l hl
    simp only [sitemsSrcLines, List.mem_append] at hl
    rcases hl with hl | hl
    · exact SItem.srcLines_ok (h it (by simp)) l hl
    · exact ih (fun x hx => h x (by simp [hx])) l hl

theorem sitemsSrcLines_toks (items : List SItem) (h : ∀ it ∈ items, it.LexOK) :
    linesToks (sitemsSrcLines items) = xitemsTokens (items.map SItem.toX) := by
  induction items with
  | nil => rfl
  | cons it r ih =>
    simp only [sitemsSrcLines, linesToks_append, List.map_cons, xitemsTokens,
      SItem.toks_eq (h it (by simp)), ih (fun x hx => h x (by simp [hx]))]

theorem SProg.srcLines_ok (p : SProg) (h : p.LexOK) : ∀ l ∈ p.srcLines, l.ok (some '\n') = true := by
  intro l hl
  simp only [SProg.srcLines, List.mem_append, List.mem_replicate] at hl
  rcases hl with ⟨_, rfl⟩ | hl | hl
  · exact emptySrcLine_ok
  · exact sitemsSrcLines_ok p.items h.items l hl
  · unfold SProg.finSrcLines at hl
    cases hf : p.fin with
    | none => rw [hf] at hl; simp at hl
    | some q =>
      obtain ⟨kw, e⟩ := q
      rw [hf] at hl
      obtain ⟨hk, he⟩ := h.fin kw e hf
      simp only [List.mem_cons, List.mem_replicate] at hl
      rcases hl with rfl | ⟨_, rfl⟩
      · refine pseudoSrcLine_ok kw _ hk ?_
        cases e with
        | none => intro w hw; simp at hw
        | some x => exact fun w hw => exprWordOK_valid (NTwords_exprOK x (he x rfl) w hw)
      · exact emptySrcLine_ok

/-- the canonical source lines carry the tokens of the parser-level program -/
theorem SProg.linesToks_eq (p : SProg) (h : p.LexOK) :
    linesToks p.srcLines ++ [Lex.eofTok] = p.toX.tokens := by
  simp only [SProg.srcLines, linesToks_append, linesToks_replicate, sitemsSrcLines_toks p.items h.items,
    XProg.tokens, SProg.toX, List.append_assoc]
  congr 2
  unfold SProg.finSrcLines XProg.finTokens
  cases hf : p.fin with
  | none => rfl
  | some q =>
    obtain ⟨kw, e⟩ := q
    obtain ⟨hk, he⟩ := h.fin kw e hf
    simp only [Option.map_some, linesToks, linesToks_replicate, pseudoSrcLine_toks kw _ hk,
      List.cons_append, List.append_assoc]
    cases e with
    | none => rfl
    | some x =>
      simp only [Option.map_some, Option.getD_some, NTwords_tok x (he x rfl)]
      rfl

/-- **lexer stage**: source lines that carry the words (and comments) of the program, with any
    leading blanks and any separators of blanks and tabs that keep the words apart, are lexed into
    the token rendering of the parser-level program -/
theorem SProg.lex_tokens (p : SProg) (h : p.LexOK) (ls : List SrcLine)
    (hls : ∀ l ∈ ls, l.ok (some '\n') = true) (hsame : SameLines ls p.srcLines) :
    Lex.tokens (renderLines ls) = p.toX.tokens := by
  rw [lex_tokens_words ls hls, linesToks_sameWords hsame, p.linesToks_eq h]

/-! ## the parsed lines, as the compiler reads them -/

theorem norm_blankLines (ln : Int) (k : Nat) : norm (blankLines ln k) = [] := by
  unfold blankLines
  split
  · rfl
  · rfl

theorem wOperand_mode (o : LOperand) :
    (wOperand o).toOperand.mode.getD "" = modeString o.mode := by
  cases h : o.mode <;> simp [wOperand, WOperand.toOperand, modeString, h]

theorem wOperand_toks (o : LOperand) (h : NTLexOK o.expr) :
    (wOperand o).toOperand.toks = o.expr.tokens := by
  simp [wOperand, WOperand.toOperand, NTwords_tok o.expr h]

theorem labels_val (ls : List (String × Bool)) (h : ∀ p ∈ ls, identOK p.1 = true) :
    (ls.map (fun p => (identWord p.1, p.2))).map (fun p => (p.1.tok.val, p.2)) = ls := by
  rw [List.map_map]
  conv => rhs; rw [← List.map_id ls]
  apply List.map_congr_left
  intro p hp
  simp [identWord_val (h p hp)]

/-- the instruction entry of the parser is, for the compiler, the line of `lrender` -/
theorem core_instrLine {ls : List (String × Bool)} {op : String} {md : Option String}
    {a : LOperand} {b : Option LOperand} {k : Nat} (h : (SItem.instr ls op md a b k).LexOK)
    (ln : Int) (j : Nat) :
    core (((wStmt ls op md a b).toStmt k).instrLine ln (j : Int)) =
      (LItem.instr (ls.map (·.1)) op md a b).toLine j := by
  obtain ⟨hl, hop, ha, hb⟩ := h
  have e1 : ((wStmt ls op md a b).toStmt k).labelNames = ls.map (·.1) := by
    simp only [Stmt.labelNames, WStmt.toStmt, wStmt, labels_val ls hl]
  have e2 : ((wStmt ls op md a b).toStmt k).op = opString op md := by
    simp only [WStmt.toStmt, wStmt, identWord_val hop]
  have e3 : ((wStmt ls op md a b).toStmt k).a = (wOperand a).toOperand := rfl
  have e4 : ((wStmt ls op md a b).toStmt k).b = b.map (fun o => (wOperand o).toOperand) := by
    simp only [WStmt.toStmt, wStmt, Option.map_map]; rfl
  simp only [core, Stmt.instrLine, LItem.toLine, e1, e2, e3, e4, wOperand_mode, wOperand_toks a ha]
  cases b with
  | none => rfl
  | some bo =>
    simp only [Option.map_some, wOperand_mode, wOperand_toks bo (hb bo rfl), Option.bind_some]

theorem relevant_instrLine (s : Stmt) (ln cl : Int) : relevant (s.instrLine ln cl) = true := rfl

theorem norm_stmt_lines (s : Stmt) (ln cl : Int) : norm (s.lines ln cl) = [core (s.instrLine ln cl)] := by
  unfold Stmt.lines
  cases s.b with
  | none => rfl
  | some bo =>
    simp only
    rw [norm_cons_relevant _ _ (relevant_instrLine s ln cl), norm_blankLines]

/-- the comment does not start with ";assert" -/
def plainComment (cs : List Char) : Prop := Compile.assertPrefix.isPrefixOf (';' :: cs) = false

instance (cs : List Char) : Decidable (plainComment cs) := by unfold plainComment; infer_instance

theorem norm_comment_lines (cs : List Char) (k : Nat) (ln cl : Int) (h : plainComment cs) :
    norm ((WItem.comment cs k).toItem.lines ln cl) = [] := by
  simp only [WItem.toItem, Item.lines]
  rw [norm_cons_irrelevant _ _ (by
    simp only [relevant, commentLine, String.toList_ofList]
    rw [h]; rfl), norm_blankLines]

theorem core_pseudoLine (ln : Int) (kw : String) (e : NT) :
    core (pseudoLine ln kw e.tokens) = (LItem.org kw e).toLine 0 := rfl

def SItem.Plain : SItem → Prop
  | .comment cs _ => plainComment cs
  | _ => True

/-- one item -/
theorem norm_xitem_lines {it : SItem} (h : it.LexOK) (hp : it.Plain) (ln : Int) (j : Nat) :
    norm (it.toX.lines ln (j : Int)) = (it.toL.toList).map (fun l => l.toLine j) := by
  cases it with
  | instr ls op md a b k =>
    simp only [SItem.toX, XItem.lines, WItem.toItem, Item.lines, norm_stmt_lines, core_instrLine h,
      SItem.toL, Option.toList_some, List.map_cons, List.map_nil]
  | comment cs k =>
    simp only [SItem.toX, XItem.lines, norm_comment_lines cs k ln j hp, SItem.toL, Option.toList_none,
      List.map_nil]
  | org kw e k =>
    simp only [SItem.toX, XItem.lines, SItem.toL, Option.toList_some, List.map_cons, List.map_nil]
    rw [norm_cons_relevant _ _ rfl, norm_blankLines]
    rfl

theorem SItem.codeLines_eq (it : SItem) :
    it.toX.codeLines = if (it.toL.map LItem.isInstr).getD false then 1 else 0 := by
  cases it <;> rfl

theorem norm_xitems_lines (items : List SItem) (h : ∀ it ∈ items, it.LexOK)
    (hp : ∀ it ∈ items, it.Plain) (ln : Int) (j : Nat) :
    norm (xitemsLines (items.map SItem.toX) ln (j : Int)) = lrender j (items.filterMap SItem.toL) ∧
      xitemsEndCode (items.map SItem.toX) (j : Int) =
        ((j + linstrCount (items.filterMap SItem.toL) : Nat) : Int) := by
  induction items generalizing ln j with
  | nil => exact ⟨rfl, by simp [xitemsEndCode, linstrCount]⟩
  | cons it r ih =>
    have hit := h it (by simp)
    have hpit := hp it (by simp)
    have hr := fun x hx => h x (List.mem_cons_of_mem _ hx)
    have hpr := fun x hx => hp x (List.mem_cons_of_mem _ hx)
    simp only [List.map_cons, xitemsLines, xitemsEndCode, norm_append, norm_xitem_lines hit hpit]
    cases it with
    | instr ls op md a b k =>
      have := ih hr hpr (ln + 1 + ((SItem.instr ls op md a b k).toX.blanks : Int)) (j + 1)
      simp only [SItem.toL, List.filterMap_cons, Option.toList_some, List.map_cons, List.map_nil,
        lrender, LItem.isInstr, if_true, List.cons_append, List.nil_append]
      have e : (j : Int) + (SItem.instr ls op md a b k).toX.codeLines = ((j + 1 : Nat) : Int) := by
        simp [SItem.toX, XItem.codeLines, WItem.toItem, Item.codeLines]
      rw [e, this.1, this.2]
      refine ⟨rfl, ?_⟩
      simp only [linstrCount, List.filter_cons, LItem.isInstr, if_true, List.length_cons]
      omega
    | org kw e k =>
      have := ih hr hpr (ln + 1 + ((SItem.org kw e k).toX.blanks : Int)) j
      simp only [SItem.toL, List.filterMap_cons, Option.toList_some, List.map_cons, List.map_nil,
        lrender, LItem.isInstr, Bool.false_eq_true, if_false, List.cons_append, List.nil_append]
      have e : (j : Int) + (SItem.org kw e k).toX.codeLines = (j : Int) := by
        simp [SItem.toX, XItem.codeLines]
      rw [e, this.1, this.2]
      refine ⟨rfl, ?_⟩
      simp [linstrCount, LItem.isInstr]
    | comment cs k =>
      have := ih hr hpr (ln + 1 + ((SItem.comment cs k).toX.blanks : Int)) j
      simp only [SItem.toL, List.filterMap_cons, Option.toList_none, List.map_nil, List.nil_append]
      have e : (j : Int) + (SItem.comment cs k).toX.codeLines = (j : Int) := by
        simp [SItem.toX, XItem.codeLines, WItem.toItem, Item.codeLines]
      rw [e]
      exact this

theorem lrender_append (a b : List LItem) (k : Nat) :
    lrender k (a ++ b) = lrender k a ++ lrender (k + linstrCount a) b := by
  induction a generalizing k with
  | nil => simp [lrender, linstrCount]
  | cons it r ih =>
    simp only [List.cons_append, lrender, ih]
    cases hi : it.isInstr with
    | true =>
      simp only [if_true, linstrCount, List.filter_cons, hi, List.length_cons]
      rw [show k + 1 + (List.filter LItem.isInstr r).length = k + ((List.filter LItem.isInstr r).length + 1) by omega]
    | false =>
      simp only [Bool.false_eq_true, if_false, linstrCount, List.filter_cons, hi]

/-- **parser output against `lrender`**: for the compiler stage the source lines the parser makes
    of the program are the lines `lrender 0` of its label program -/
theorem SProg.norm_lines (p : SProg) (h : p.LexOK) (hp : ∀ it ∈ p.items, it.Plain) :
    norm p.toX.lines = norm (lrender 0 p.litems) ∧ norm (lrender 0 p.litems) = lrender 0 p.litems := by
  have key : norm p.toX.lines = lrender 0 p.litems := by
    simp only [XProg.lines, norm_append, norm_blankLines, List.nil_append, SProg.toX, SProg.litems,
      lrender_append]
    have := (norm_xitems_lines p.items h.items hp ((1 : Int) + p.lead) 0).1
    simp only [Int.natCast_zero] at this
    rw [this]
    congr 1
    unfold XProg.finLines SProg.finL
    cases hf : p.fin with
    | none => rfl
    | some q =>
      obtain ⟨kw, e⟩ := q
      simp only [Option.map_some, lrender]
      rw [norm_cons_relevant _ _ rfl]
      simp only [norm_nil, List.cons.injEq, and_true]
      cases e with
      | none => rfl
      | some x =>
        simp only [core, endLine, LItem.toLine, Option.map_some, Option.getD_some]
        have : x.tokens.isEmpty = false := by
          cases hx : x.tokens with
          | nil => exact absurd hx (nt_tokens_ne_nil x)
          | cons _ _ => rfl
        simp [this]
  have idem : ∀ (prog : List LItem) (k : Nat), norm (lrender k prog) = lrender k prog := by
    intro prog
    induction prog with
    | nil => intro k; rfl
    | cons it r ih =>
      intro k
      simp only [lrender]
      rw [norm_cons_relevant _ _ (by cases it <;> rfl), ih]
      congr 1
      cases it <;> rfl
  exact ⟨by rw [key, idem], idem _ _⟩

/-! ## parser-level well-formedness -/

def SItem.NamesOK : SItem → Prop
  | .instr ls op md _ _ _ => (∀ p ∈ ls, IsLabelName p.1) ∧ IsOpName (opString op md)
  | .org kw _ _ => lowerStr kw = "org"
  | .comment _ _ => True

structure SProg.NamesOK (p : SProg) : Prop where
  items : ∀ it ∈ p.items, it.NamesOK
  fin : ∀ kw e, p.fin = some (kw, e) → lowerStr kw = "end"

/-- the names an item refers to in its operands -/
def LItemNames : LItem → List String
  | .instr _ _ _ a b => a.expr.names ++ (match b with | some bo => bo.expr.names | none => [])
  | .org _ e => e.names
  | .end_ _ e => match e with | some x => x.names | none => []

/-- the labels of the program, in order -/
def SProg.labels (p : SProg) : List String := (labelsFrom 0 p.litems).map (·.1)

/-- the names the program refers to -/
def SProg.names (p : SProg) : List String := p.litems.flatMap LItemNames

theorem NT_tokens_exprTerm (e : NT) (h : NTLexOK e) : ∀ t ∈ e.tokens, t.isExpressionTerm = true := by
  intro t ht
  rw [← NTwords_tok e h, List.mem_map] at ht
  obtain ⟨w, hw, rfl⟩ := ht
  exact isExpressionTerm_of_exprWordOK (NTwords_exprOK e h w hw)

theorem SItem.toX_OK {it : SItem} (h : it.LexOK) (hn : it.NamesOK) : it.toX.OK := by
  cases it with
  | instr ls op md a b k =>
    refine WItem.toItem_OK (it := .stmt _ k) (wStmt_ok h) ⟨?_, ?_⟩
    · intro q hq
      simp only [wStmt, List.mem_map] at hq
      obtain ⟨p, hp, rfl⟩ := hq
      simp only
      rw [identWord_val (h.1 p hp)]
      exact hn.1 p hp
    · simp only [wStmt]
      rw [identWord_val h.2.1]
      exact hn.2
  | comment cs k => trivial
  | org kw e k => exact ⟨hn, nt_tokens_ne_nil e, NT_tokens_exprTerm e h.2⟩

theorem labelsFrom_append (a b : List LItem) (k : Nat) :
    labelsFrom k (a ++ b) = labelsFrom k a ++ labelsFrom (k + linstrCount a) b := by
  induction a generalizing k with
  | nil => simp [labelsFrom, linstrCount]
  | cons it r ih =>
    cases it with
    | instr ls op md a' b' =>
      simp only [List.cons_append, labelsFrom, ih, List.append_assoc, linstrCount, List.filter_cons,
        LItem.isInstr, if_true, List.length_cons]
      rw [show k + 1 + (List.filter LItem.isInstr r).length = k + ((List.filter LItem.isInstr r).length + 1) by omega]
    | org kw e =>
      simp only [List.cons_append, labelsFrom, ih, linstrCount, List.filter_cons, LItem.isInstr,
        Bool.false_eq_true, if_false]
    | end_ kw e =>
      simp only [List.cons_append, labelsFrom, ih, linstrCount, List.filter_cons, LItem.isInstr,
        Bool.false_eq_true, if_false]

theorem xitemsLabels_eq (items : List SItem) (h : ∀ it ∈ items, it.LexOK) (j : Nat) :
    xitemsLabels (items.map SItem.toX) = (labelsFrom j (items.filterMap SItem.toL)).map (·.1) := by
  induction items generalizing j with
  | nil => rfl
  | cons it r ih =>
    have hr := fun x hx => h x (List.mem_cons_of_mem _ hx)
    cases it with
    | instr ls op md a b k =>
      have hit := h _ (List.mem_cons_self ..)
      simp only [List.map_cons, xitemsLabels, SItem.toL, List.filterMap_cons, labelsFrom,
        List.map_append, List.map_map, ← ih hr (j + 1)]
      congr 1
      simp only [SItem.toX, XItem.labelNames, WItem.toItem, Item.labelNames, Stmt.labelNames,
        WStmt.toStmt, wStmt, labels_val ls hit.1]
      apply List.map_congr_left
      intro q _
      rfl
    | org kw e k =>
      simp only [List.map_cons, xitemsLabels, SItem.toL, List.filterMap_cons, labelsFrom, ← ih hr j]
      rfl
    | comment cs k =>
      simp only [List.map_cons, xitemsLabels, SItem.toL, List.filterMap_cons, ← ih hr j]
      rfl

theorem SProg.toX_labels (p : SProg) (h : p.LexOK) : p.toX.labels = p.labels := by
  unfold SProg.labels SProg.litems
  rw [labelsFrom_append, List.map_append]
  have : labelsFrom (0 + linstrCount (List.filterMap SItem.toL p.items)) p.finL = [] := by
    unfold SProg.finL
    cases p.fin with
    | none => rfl
    | some q => rfl
  rw [this, List.map_nil, List.append_nil]
  exact xitemsLabels_eq p.items h.items 0

theorem mem_tokNames_names (e : NT) {x : String} (hx : x ∈ tokNames e.tokens) : x ∈ e.names := by
  simp only [tokNames, List.mem_map, List.mem_filter, beq_iff_eq] at hx
  obtain ⟨t, ⟨ht, htt⟩, rfl⟩ := hx
  exact mem_tokens_names e t ht htt

theorem stmt_refNames (ls : List (String × Bool)) (op : String) (md : Option String) (a : LOperand)
    (b : Option LOperand) (k : Nat) (h : (SItem.instr ls op md a b k).LexOK) {x : String}
    (hx : x ∈ ((wStmt ls op md a b).toStmt k).refNames) :
    x ∈ LItemNames (.instr (ls.map (·.1)) op md a b) := by
  obtain ⟨_, _, ha, hb⟩ := h
  simp only [Stmt.refNames, WStmt.toStmt, wStmt, List.mem_append] at hx
  simp only [LItemNames, List.mem_append]
  rcases hx with hx | hx
  · left
    rw [wOperand_toks a ha] at hx
    exact mem_tokNames_names _ hx
  · right
    cases b with
    | none => simp at hx
    | some bo =>
      simp only [Option.map_some] at hx
      rw [wOperand_toks bo (hb bo rfl)] at hx
      exact mem_tokNames_names _ hx

theorem mem_xitemsRefs (items : List SItem) (h : ∀ it ∈ items, it.LexOK) {x : String} :
    ∀ {refs : List String}, x ∈ xitemsRefs (items.map SItem.toX) refs →
      x ∈ refs ∨ x ∈ (items.filterMap SItem.toL).flatMap LItemNames := by
  induction items with
  | nil => intro refs hx; exact Or.inl hx
  | cons it r ih =>
    intro refs hx
    have hr := fun y hy => h y (List.mem_cons_of_mem _ hy)
    have hit := h it (List.mem_cons_self ..)
    simp only [List.map_cons, xitemsRefs] at hx
    rcases ih hr hx with hx1 | hx2
    · clear hx
      have hx := hx1
      clear hx1
      cases it with
      | instr ls op md a b k =>
        simp only [SItem.toX, XItem.refs, WItem.toItem, Item.refs] at hx
        rcases mem_stmt_refs _ hx with hx | hx
        · exact Or.inl hx
        · right
          simp only [SItem.toL, List.filterMap_cons, List.flatMap_cons, List.mem_append]
          exact Or.inl (stmt_refNames ls op md a b k hit hx)
      | org kw e k =>
        simp only [SItem.toX, XItem.refs] at hx
        rcases mem_addRefs hx with hx | hx
        · exact Or.inl hx
        · right
          simp only [SItem.toL, List.filterMap_cons, List.flatMap_cons, List.mem_append]
          exact Or.inl (mem_tokNames_names e hx)
      | comment cs k => exact Or.inl hx
    · right
      clear hx
      cases it <;> simp only [SItem.toL, List.filterMap_cons, List.flatMap_cons, List.mem_append] <;>
        first | exact Or.inr hx2 | exact hx2

theorem SProg.toX_refs (p : SProg) (h : p.LexOK) : ∀ x ∈ p.toX.refs, x ∈ p.names := by
  intro x hx
  unfold SProg.names SProg.litems
  rw [List.flatMap_append, List.mem_append]
  unfold XProg.refs at hx
  unfold SProg.finL
  cases hf : p.fin with
  | none =>
    simp only [SProg.toX, hf, Option.map_none] at hx
    rcases mem_xitemsRefs p.items h.items hx with hx | hx
    · simp at hx
    · exact Or.inl hx
  | some q =>
    obtain ⟨kw, e⟩ := q
    simp only [SProg.toX, hf, Option.map_some] at hx
    rcases mem_addRefs hx with hx | hx
    · rcases mem_xitemsRefs p.items h.items hx with hx | hx
      · simp at hx
      · exact Or.inl hx
    · right
      cases e with
      | none => simp [tokNames] at hx
      | some y =>
        simp only [Option.map_some, Option.getD_some] at hx
        simpa [LItemNames] using mem_tokNames_names y hx

/-- **parser stage hypotheses**: lexically well-formed, opcode and label names right, labels
    distinct and not predefined, every name referred to is a label -/
theorem SProg.toX_OK (p : SProg) (h : p.LexOK) (hn : p.NamesOK)
    (hnd : (p.labels ++ constNames).Nodup) (hcl : ∀ x ∈ p.names, x ∈ p.labels) : p.toX.OK where
  items := by
    intro it hit
    simp only [SProg.toX, List.mem_map] at hit
    obtain ⟨s, hs, rfl⟩ := hit
    exact SItem.toX_OK (h.items s hs) (hn.items s hs)
  nodup := by rw [p.toX_labels h]; exact (List.nodup_append.1 hnd).1
  notPredefined := by
    rw [p.toX_labels h]
    intro l hl hp
    exact (List.nodup_append.1 hnd).2.2 l hl l hp rfl
  defined := fun x hx => Or.inl (by rw [p.toX_labels h]; exact hcl x (p.toX_refs h x hx))
  fin := by
    intro kw toks hf
    simp only [SProg.toX] at hf
    cases hpf : p.fin with
    | none => rw [hpf] at hf; cases hf
    | some q =>
      obtain ⟨kw', e⟩ := q
      rw [hpf] at hf
      simp only [Option.map_some, Option.some.injEq, Prod.mk.injEq] at hf
      obtain ⟨rfl, rfl⟩ := hf
      refine ⟨hn.fin _ e hpf, ?_, by simp [SProg.toX]⟩
      cases e with
      | none => intro t ht; simp at ht
      | some x => exact NT_tokens_exprTerm x ((h.fin _ _ hpf).2 x rfl)

/-! ## no `for`, no `equ` -/

/-- the name is neither `for` nor `equ` (in any letter case) -/
def notForEqu (s : String) : Prop := lowerStr s ≠ "for" ∧ lowerStr s ≠ "equ"

/-- every text token of the list has a value with the property -/
def TextIn (P : String → Prop) (ts : List Token) : Prop := ∀ t ∈ ts, t.typ = .text → P t.val

theorem TextIn.append {P : String → Prop} {a b : List Token} (ha : TextIn P a) (hb : TextIn P b) :
    TextIn P (a ++ b) := by
  intro t ht
  rcases List.mem_append.mp ht with h | h
  · exact ha t h
  · exact hb t h

theorem TextIn.cons_text {P : String → Prop} {s : String} {b : List Token} (hs : P s)
    (hb : TextIn P b) : TextIn P ((⟨.text, s⟩ : Token) :: b) := by
  intro t ht _
  rcases List.mem_cons.mp ht with rfl | h
  · exact hs
  · exact hb t h ‹_›

theorem TextIn.cons_other {P : String → Prop} {t0 : Token} {b : List Token} (h0 : t0.typ ≠ .text)
    (hb : TextIn P b) : TextIn P (t0 :: b) := by
  intro t ht htt
  rcases List.mem_cons.mp ht with rfl | h
  · exact absurd htt h0
  · exact hb t h htt

theorem TextIn.nil {P : String → Prop} : TextIn P [] := by intro t ht; cases ht

theorem TextIn.replicate_nl {P : String → Prop} (k : Nat) : TextIn P (List.replicate k nlTok) := by
  intro t ht htt
  rw [List.mem_replicate] at ht
  rw [ht.2] at htt
  cases htt

theorem notForEqu_of_notPseudo {s : String} (h : (⟨.text, s⟩ : Token).isPseudoOp = false) :
    notForEqu s := by
  constructor
  · intro hf
    have : (⟨.text, s⟩ : Token).isPseudoOp = true := by unfold Token.isPseudoOp; simp only [hf]
    rw [this] at h; cases h
  · intro hf
    have : (⟨.text, s⟩ : Token).isPseudoOp = true := by unfold Token.isPseudoOp; simp only [hf]
    rw [this] at h; cases h

theorem notForEqu_label {l : String} (h : IsLabelName l) : notForEqu l :=
  notForEqu_of_notPseudo (ForPass.isPseudoOp_of_not_isOp rfl h)

theorem notForEqu_op {op : String} (h : IsOpName op) : notForEqu op := notForEqu_of_notPseudo h.2

theorem notForEqu_kw {kw : String} (h : lowerStr kw = "org" ∨ lowerStr kw = "end") : notForEqu kw := by
  rcases h with h | h <;> (unfold notForEqu; rw [h]; decide)

theorem textIn_labelTokens {P : String → Prop} (ls : List (String × Bool)) (h : ∀ l ∈ ls, P l.1) :
    TextIn P (labelTokens ls) := by
  induction ls with
  | nil => exact TextIn.nil
  | cons lc r ih =>
    obtain ⟨l, c⟩ := lc
    simp only [labelTokens]
    refine TextIn.cons_text (h (l, c) (by simp)) (TextIn.append ?_ (ih (fun x hx => h x (by simp [hx]))))
    cases c
    · exact TextIn.nil
    · exact TextIn.cons_other (by simp [colonTok]) TextIn.nil

theorem textIn_operand {P : String → Prop} (o : Operand) (h : ∀ x ∈ tokNames o.toks, P x) :
    TextIn P o.tokens := by
  unfold Operand.tokens
  refine TextIn.append ?_ ?_
  · cases o.mode with
    | none => exact TextIn.nil
    | some m => exact TextIn.cons_other (by simp) TextIn.nil
  · intro t ht htt
    apply h
    simp only [tokNames, List.mem_map, List.mem_filter, beq_iff_eq]
    exact ⟨t, ⟨ht, htt⟩, rfl⟩

theorem textIn_stmt {P : String → Prop} (s : Stmt) (hl : ∀ l ∈ s.labels, P l.1) (hop : P s.op)
    (hr : ∀ x ∈ s.refNames, P x) : TextIn P s.tokens := by
  unfold Stmt.tokens
  refine TextIn.append (textIn_labelTokens s.labels hl) (TextIn.cons_text hop (TextIn.append
    (textIn_operand s.a (fun x hx => hr x (by simp [Stmt.refNames, hx]))) (TextIn.append ?_
      (TextIn.cons_other (by simp [nlTok]) (TextIn.replicate_nl _)))))
  unfold Stmt.bTokens
  cases hb : s.b with
  | none => exact TextIn.nil
  | some bo =>
    refine TextIn.cons_other (by simp [commaTok]) (textIn_operand bo (fun x hx => hr x ?_))
    simp [Stmt.refNames, hb, hx]

theorem textIn_nt {P : String → Prop} (e : NT) (h : ∀ x ∈ e.names, P x) : TextIn P e.tokens :=
  fun t ht htt => h _ (mem_tokens_names e t ht htt)

theorem SItem.textIn {P : String → Prop} {it : SItem} (h : it.LexOK)
    (hP : match it with
      | .instr ls op md a b _ => (∀ p ∈ ls, P p.1) ∧ P (opString op md) ∧
          ∀ x ∈ LItemNames (.instr (ls.map (·.1)) op md a b), P x
      | .org kw e _ => P kw ∧ ∀ x ∈ e.names, P x
      | .comment _ _ => True) : TextIn P it.toX.tokens := by
  cases it with
  | instr ls op md a b k =>
    obtain ⟨h1, h2, h3⟩ := hP
    simp only [SItem.toX, XItem.tokens, WItem.toItem, Item.tokens]
    refine textIn_stmt _ ?_ ?_ (fun x hx => h3 x (stmt_refNames ls op md a b k h hx))
    · intro l hl
      simp only [WStmt.toStmt, wStmt, labels_val ls h.1] at hl
      exact h1 l hl
    · simp only [WStmt.toStmt, wStmt, identWord_val h.2.1]
      exact h2
  | org kw e k =>
    simp only [SItem.toX, XItem.tokens]
    exact TextIn.cons_text hP.1 (TextIn.append (textIn_nt e hP.2)
      (TextIn.cons_other (by simp [nlTok]) (TextIn.replicate_nl _)))
  | comment cs k =>
    simp only [SItem.toX, XItem.tokens, WItem.toItem, Item.tokens]
    exact TextIn.cons_other (by simp) (TextIn.cons_other (by simp [nlTok]) (TextIn.replicate_nl _))

theorem mem_labelsFrom (items : List SItem) {l : String} :
    ∀ {j : Nat}, l ∈ (labelsFrom j (items.filterMap SItem.toL)).map (·.1) →
      ∃ ls op md a b k, SItem.instr ls op md a b k ∈ items ∧ l ∈ ls.map (·.1) := by
  induction items with
  | nil => intro j h; simp [labelsFrom] at h
  | cons it r ih =>
    intro j h
    cases it with
    | instr ls op md a b k =>
      simp only [SItem.toL, List.filterMap_cons, labelsFrom, List.map_append, List.mem_append] at h
      rcases h with h | h
      · refine ⟨ls, op, md, a, b, k, List.mem_cons_self .., ?_⟩
        simpa [List.map_map] using h
      · obtain ⟨ls', op', md', a', b', k', hm, hl⟩ := ih h
        exact ⟨ls', op', md', a', b', k', List.mem_cons_of_mem _ hm, hl⟩
    | org kw e k =>
      simp only [SItem.toL, List.filterMap_cons, labelsFrom] at h
      obtain ⟨ls', op', md', a', b', k', hm, hl⟩ := ih h
      exact ⟨ls', op', md', a', b', k', List.mem_cons_of_mem _ hm, hl⟩
    | comment cs k =>
      simp only [SItem.toL, List.filterMap_cons] at h
      obtain ⟨ls', op', md', a', b', k', hm, hl⟩ := ih h
      exact ⟨ls', op', md', a', b', k', List.mem_cons_of_mem _ hm, hl⟩

theorem SProg.labels_isLabelName (p : SProg) (hn : p.NamesOK) : ∀ l ∈ p.labels, IsLabelName l := by
  intro l hl
  unfold SProg.labels SProg.litems at hl
  rw [labelsFrom_append, List.map_append, List.mem_append] at hl
  rcases hl with hl | hl
  · obtain ⟨ls, op, md, a, b, k, hm, hl⟩ := mem_labelsFrom p.items hl
    have := (hn.items _ hm).1
    simp only [List.mem_map] at hl
    obtain ⟨q, hq, rfl⟩ := hl
    exact this q hq
  · unfold SProg.finL at hl
    cases hf : p.fin with
    | none => rw [hf] at hl; simp [labelsFrom] at hl
    | some q => rw [hf] at hl; simp [labelsFrom] at hl

theorem xitemsTokens_textIn {P : String → Prop} (items : List SItem)
    (h : ∀ it ∈ items, TextIn P it.toX.tokens) : TextIn P (xitemsTokens (items.map SItem.toX)) := by
  induction items with
  | nil => exact TextIn.nil
  | cons it r ih =>
    simp only [List.map_cons, xitemsTokens]
    exact TextIn.append (h it (by simp)) (ih (fun x hx => h x (by simp [hx])))

/-- **no `for`, no `equ`**: every text token of the program is a label, an opcode, `org`/`end`, or
    a name used in an operand (a label again) -/
theorem SProg.tokens_textIn (p : SProg) (h : p.LexOK) (hn : p.NamesOK)
    (hcl : ∀ x ∈ p.names, x ∈ p.labels) : TextIn notForEqu p.toX.tokens := by
  have hlab := p.labels_isLabelName hn
  have hname : ∀ x ∈ p.names, notForEqu x := fun x hx => notForEqu_label (hlab x (hcl x hx))
  unfold XProg.tokens
  refine TextIn.append (TextIn.replicate_nl _) (TextIn.append ?_ ?_)
  · refine xitemsTokens_textIn p.items (fun it hit => SItem.textIn (h.items it hit) ?_)
    have hsub : ∀ x ∈ (it.toL.toList).flatMap LItemNames, x ∈ p.names := by
      intro x hx
      unfold SProg.names SProg.litems
      rw [List.flatMap_append, List.mem_append]
      left
      simp only [List.mem_flatMap, Option.mem_toList] at hx ⊢
      obtain ⟨l, hl, hx⟩ := hx
      exact ⟨l, List.mem_filterMap.mpr ⟨it, hit, hl⟩, hx⟩
    have hnit := hn.items it hit
    cases it with
    | instr ls op md a b k =>
      refine ⟨fun q hq => notForEqu_label (hnit.1 q hq), notForEqu_op hnit.2, fun x hx => hname x (hsub x ?_)⟩
      simpa [SItem.toL] using hx
    | org kw e k =>
      refine ⟨notForEqu_kw (Or.inl hnit), fun x hx => hname x (hsub x ?_)⟩
      simpa [SItem.toL, LItemNames] using hx
    | comment cs k => trivial
  · unfold XProg.finTokens
    cases hf : p.fin with
    | none =>
      simp only [SProg.toX, hf, Option.map_none]
      exact TextIn.cons_other (by simp [eofTok]) TextIn.nil
    | some q =>
      obtain ⟨kw, e⟩ := q
      simp only [SProg.toX, hf, Option.map_some]
      refine TextIn.cons_text (notForEqu_kw (Or.inr (hn.fin kw e hf))) (TextIn.append ?_
        (TextIn.cons_other (by simp [nlTok]) (TextIn.append (TextIn.replicate_nl _)
          (TextIn.cons_other (by simp [eofTok]) TextIn.nil))))
      cases e with
      | none => exact TextIn.nil
      | some x =>
        refine textIn_nt x (fun y hy => hname y ?_)
        unfold SProg.names SProg.litems SProg.finL
        rw [List.flatMap_append, List.mem_append, hf]
        right
        simpa [LItemNames] using hy

theorem noForTok_of_textIn {ts : List Token} (h : TextIn notForEqu ts) : ForPass.NoForTok ts :=
  fun t ht hf => (h t ht hf.1).1 hf.2

theorem noEquTok_of_textIn {ts : List Token} (h : TextIn notForEqu ts) : NoEquTok ts :=
  fun t ht hf => (h t ht hf.1).2 hf.2

end AsmCompose
end Gmars
