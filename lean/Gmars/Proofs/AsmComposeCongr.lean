/-
  C03, composition, part 2a: what the compiler stage reads of the parser's source lines.

  `compile()` looks at instruction lines and pseudo-op lines (fields `typ, codeLine, labels, op,
  amode, a, bmode, b`) and at comment lines that start with ";assert" (field `comment`). It does
  not read `line` and `newlines`, and it skips empty-line entries and all other comment lines.

    * `core`, `relevant`, `norm`
    * `compileX_norm`   : `compileX` on `lines` = `compileX` on `norm lines`
    * `compileX_congr`  : equal `norm`s, equal results (`compile_congr`, `compileUnmodelled_congr`)
-/
import Gmars.Proofs.CompileWF

namespace Gmars
namespace AsmCompose
open Compile

/-- forget the two fields of a source line the compiler never reads -/
def core (l : SourceLine) : SourceLine := { l with line := 0, newlines := 0 }

/-- the lines the compiler looks at -/
def relevant (l : SourceLine) : Bool :=
  l.typ == .instruction || l.typ == .pseudoOp ||
    (l.typ == .comment && assertPrefix.isPrefixOf l.comment.toList)

/-- the part of the parser's output the compiler stage depends on -/
def norm (lines : List SourceLine) : List SourceLine := (lines.filter relevant).map core

theorem loadSymbolsLine_core (st : Compiler × Int) (l : SourceLine) :
    loadSymbolsLine st (core l) = loadSymbolsLine st l := rfl

theorem loadSymbolsLine_irrelevant (st : Compiler × Int) (l : SourceLine) (h : relevant l = false) :
    loadSymbolsLine st l = st := by
  obtain ⟨c, cur⟩ := st
  simp only [relevant, Bool.or_eq_false_iff, beq_eq_false_iff_ne, ne_eq] at h
  unfold loadSymbolsLine
  simp [h.1.1, h.1.2]

theorem foldl_loadSymbolsLine_norm (lines : List SourceLine) (st : Compiler × Int) :
    (norm lines).foldl loadSymbolsLine st = lines.foldl loadSymbolsLine st := by
  induction lines generalizing st with
  | nil => rfl
  | cons l r ih =>
    unfold norm at ih ⊢
    rw [List.filter_cons]
    cases h : relevant l with
    | true =>
      simp only [if_true, List.map_cons, List.foldl_cons, loadSymbolsLine_core]
      exact ih _
    | false =>
      simp only [Bool.false_eq_true, if_false, List.foldl_cons, loadSymbolsLine_irrelevant st l h]
      exact ih _

theorem symC_norm (cfg : Config) (lines : List SourceLine) : symC cfg (norm lines) = symC cfg lines := by
  unfold symC loadSymbols
  simp only [foldl_loadSymbolsLine_norm]

theorem evaluateAssertions_norm (lexTokens : String → List Token) (c : Compiler)
    (lines : List SourceLine) :
    evaluateAssertions lexTokens c (norm lines) = evaluateAssertions lexTokens c lines := by
  induction lines with
  | nil => rfl
  | cons l r ih =>
    unfold norm at ih ⊢
    rw [List.filter_cons]
    cases h : relevant l with
    | true =>
      simp only [if_true, List.map_cons]
      unfold evaluateAssertions
      rw [ih]
      rfl
    | false =>
      simp only [Bool.false_eq_true, if_false]
      rw [ih]
      conv => rhs; unfold evaluateAssertions
      simp only [relevant, Bool.or_eq_false_iff] at h
      rw [h.2]
      cases evaluateAssertions lexTokens c r <;> rfl

theorem assembleLines_norm (c : Compiler) (lines : List SourceLine) (acc : Array Instr) :
    assembleLines c (norm lines) acc = assembleLines c lines acc := by
  induction lines generalizing acc with
  | nil => rfl
  | cons l r ih =>
    unfold norm at ih ⊢
    rw [List.filter_cons]
    cases h : relevant l with
    | true =>
      simp only [if_true, List.map_cons]
      unfold assembleLines
      have h1 : (core l).typ = l.typ := rfl
      have h2 : assembleLine c (core l) = assembleLine c l := rfl
      rw [h1, h2]
      split
      · exact ih acc
      · simp only [ih]
    | false =>
      simp only [Bool.false_eq_true, if_false]
      rw [ih]
      conv => rhs; unfold assembleLines
      simp only [relevant, Bool.or_eq_false_iff, beq_eq_false_iff_ne, ne_eq] at h
      rw [if_pos (by simpa using h.1.1)]

/-- the compiler stage reads only `norm lines` -/
theorem compileX_norm (lexTokens : String → List Token) (cfg : Config) (lines : List SourceLine)
    (ameta : AsmMeta) :
    compileX lexTokens cfg (norm lines) ameta = compileX lexTokens cfg lines ameta := by
  rw [compileX_eq, compileX_eq]
  have hres : ∀ R, resC cfg (norm lines) R = resC cfg lines R := by
    intro R; unfold resC; rw [symC_norm]
  simp only [symC_norm, hres, evaluateAssertions_norm, assembleLines_norm]

/-- **the compiler depends only on the instruction and pseudo-op lines' `typ, codeLine, labels,
    op, amode, a, bmode, b` and on the comment lines that start with ";assert"** -/
theorem compileX_congr (lexTokens : String → List Token) (cfg : Config) (l₁ l₂ : List SourceLine)
    (ameta : AsmMeta) (h : norm l₁ = norm l₂) :
    compileX lexTokens cfg l₁ ameta = compileX lexTokens cfg l₂ ameta := by
  rw [← compileX_norm, h, compileX_norm]

theorem compile_congr (lexTokens : String → List Token) (cfg : Config) (l₁ l₂ : List SourceLine)
    (ameta : AsmMeta) (h : norm l₁ = norm l₂) :
    compile lexTokens cfg l₁ ameta = compile lexTokens cfg l₂ ameta := by
  unfold compile; rw [compileX_congr lexTokens cfg l₁ l₂ ameta h]

theorem compileUnmodelled_congr (lexTokens : String → List Token) (cfg : Config)
    (l₁ l₂ : List SourceLine) (ameta : AsmMeta) (h : norm l₁ = norm l₂) :
    compileUnmodelled lexTokens cfg l₁ ameta = compileUnmodelled lexTokens cfg l₂ ameta := by
  unfold compileUnmodelled; rw [compileX_congr lexTokens cfg l₁ l₂ ameta h]

theorem norm_append (a b : List SourceLine) : norm (a ++ b) = norm a ++ norm b := by
  simp [norm]

theorem norm_nil : norm [] = [] := rfl

theorem norm_cons_relevant (l : SourceLine) (r : List SourceLine) (h : relevant l = true) :
    norm (l :: r) = core l :: norm r := by
  simp [norm, h]

theorem norm_cons_irrelevant (l : SourceLine) (r : List SourceLine) (h : relevant l = false) :
    norm (l :: r) = norm r := by
  simp [norm, h]

end AsmCompose
end Gmars
