/-
  C03: the whole assembler, from BYTES, on programs with labels AND EQU definitions.

  Stage theorems composed:
      bytes --decodeRunes--> characters --Lex.tokens--> tokens --forLoop (pre-scan)--> tokens
            --parse--> source lines --compile--> warrior

    * `EProg`, `EProg.lex_tokens`                    (Gmars/Proofs/AsmComposeEquBridge.lean)
        source programs with EQU lines as word lines `name equ <expression words>`; the lexer
    * `scan_pprog`, `assemble_stages_pprog`          (Gmars/Proofs/AsmComposeEquScan.lean)
        the pre-scan `scanInput` of the FOR pass loop records the EQU lines too; it succeeds on a
        FOR-free program iff no name is defined by two EQU lines (labels are not looked at), and
        then hands the tokens on unchanged
    * `parse_pprog`                                  (Gmars/Proofs/AsmComposeEquParse.lean)
        the parser on programs with EQU lines: EQU names enter the symbol table like labels
    * `EProg.norm_lines`                             (Gmars/Proofs/AsmComposeEquLines.lean)
        for the compiler the parsed lines are `xrender 0 p.xitems`
    * `EProg.toP_OK`                                 (Gmars/Proofs/AsmComposeEquOK.lean)
    * `AsmLine.compileX_meaning_equ`                 (Gmars/Proofs/AsmEqu.lean)
    * **`assemble_meaning_equ`** (here)

  Why the extra hypotheses (checked with #eval on the models):
    * `hcl` (every name used in an operand, an EQU body, ORG or END is a label, an EQU name or a
      predefined constant): on `x equ foo / dat 0` the parser rejects the undefined `foo`
      (`assemble = .err`), while `Spec.meaningFlat` never expands the unused `x` and accepts.
    * END only as the last line, comments on lines of their own: as for `assemble_meaning_labels`.
    * EQU names without a colon (`x: equ 5` is accepted by the parser but NOT recorded by the
      pre-scan; harmless here, but not covered).
-/
import Gmars.Proofs.AsmComposeEquLines
import Gmars.Proofs.AsmComposeEquOK
import Gmars.Proofs.AsmCompose

namespace Gmars
namespace AsmComposeEqu
open Gmars.Render Gmars.AsmLine Gmars.ExprProofs Gmars.AsmCompose

/-- every item of a well-formed program is well-formed at its code line -/
theorem XProgWF.mem_wf {lexTokens : String → List Token} {sc : Spec.Cfg} {t : Spec.Tables}
    {prog : List AsmLine.XItem} : ∀ {k : Nat}, XProgWF lexTokens sc t k prog →
      ∀ it ∈ prog, ∃ k', it.WF lexTokens sc t k' := by
  induction prog with
  | nil => intro k _ it hit; cases hit
  | cons x r ih =>
    intro k hw it hit
    rcases List.mem_cons.1 hit with rfl | hit
    · exact ⟨k, hw.1⟩
    · exact ih hw.2 it hit

/-- the comment lines are classified right: plain comments by hypothesis, assert lines because
    `XProgWF` says that their text starts with ";assert" -/
theorem EProg.commentOK (p : EProg) {lexTokens : String → List Token} {sc : Spec.Cfg}
    {t : Spec.Tables} (hw : XProgWF lexTokens sc t 0 p.xitems)
    (hplain : ∀ cs k, EItem.comment cs k ∈ p.items → plainComment cs) :
    ∀ it ∈ p.items, it.CommentOK := by
  intro it hit
  cases it with
  | comment cs k => exact hplain cs k hit
  | assert cs e k =>
    obtain ⟨k', hwf⟩ := XProgWF.mem_wf hw _
      (p.mem_xitems_of_toX (x := .assert (String.ofList (';' :: cs)) e) hit rfl)
    have h1 := hwf.1
    rw [String.toList_ofList] at h1
    exact h1
  | instr ls op md a b k => trivial
  | equ n kw e k => trivial
  | org kw e k => trivial

/-- **`assemble_meaning_equ`** — the whole assembler on programs with labels AND EQU definitions.

    `p : EProg` is a program of labelled instructions, ORG lines, EQU lines `name equ tokens`
    placed anywhere, `;assert` comment lines, optionally a last line END (`p.xitems :
    List AsmLine.XItem`, the programs of `compile_meaning_equ`; every expression is a list of
    reference tokens) with a layout: colon suffixes of labels, blank lines, comment lines.  `ls` is
    ANY list of source lines carrying the words of the program (`SameLines ls p.srcLines`: same
    words, same comments, line by line; an EQU line is the word line `name equ <expression words>`)
    with arbitrary leading blanks and separators of blanks and tabs (`SrcLine.ok`: a separator may
    be empty where the lexer separates the words anyway, `x equ 1+2`).  `src` is any byte string
    the Go reader decodes to that text.

    Then `CompileWarrior` — lexer, pre-scan of the FOR pass loop, parser, compiler — returns the
    warrior of the reference meaning (with the metadata of the comment lines), or an error exactly
    when the reference rejects the program: EQU names substituted textually, labels as offsets.

    Hypotheses: those of `compile_meaning_equ` (valid configuration, core size below 2^63, every
    symbol — label, EQU name, predefined constant — defined once, fewer than 2^63 instructions,
    a ranked acyclic EQU table of depth < 63, `XProgWF` with the real lexer `lexString` for the
    assert texts) and
      * `p.LexOK`    names and keywords are identifiers, expression tokens are numbers, names,
                     `+ - * / %` and parentheses, every EQU / ORG / END / operand expression has at
                     least one token, an operand without mode does not start with `*`, comments
                     have no newline
      * `p.NamesOK`  the opcode text is taken for an opcode by the parser (an opcode or contains a
                     `.`) and is no pseudo-op; labels and EQU names are neither (in particular not
                     `equ`, `for`, `rof`, `end`, `org` in any letter case)
      * `hplain`     the other comment lines do not start with ";assert"
      * `hcl`        every name used is a label, an EQU name or a predefined constant
    The condition under which the pre-scan `scanInput` succeeds — no name defined by two EQU
    lines — follows from `hnd` (`scan_pprog`). -/
theorem assemble_meaning_equ (cfg : Config) (sc : Spec.Cfg) (p : EProg) (d : String → Nat)
    (hv : cfg.validate = true) (h63 : cfg.coreSize.toNat < 2 ^ 63) (hr : CfgRel cfg sc)
    (hlex : p.LexOK) (hnames : p.NamesOK)
    (hplain : ∀ cs k, EItem.comment cs k ∈ p.items → plainComment cs)
    (hnd : (p.labels ++ p.equNames ++ constNames).Nodup)
    (hcl : ∀ x ∈ p.names, x ∈ p.labels ∨ x ∈ p.equNames ∨ x ∈ constNames)
    (hsmall : xinstrCount p.xitems < 2 ^ 63)
    (hrk : ERanked (xequs p.xitems ++ Spec.predefined sc) d) (hlt : ∀ s, d s < 63)
    (hw : XProgWF lexString sc (xtables sc p.xitems) 0 p.xitems)
    (ls : List SrcLine) (hls : ∀ l ∈ ls, l.ok (some '\n') = true) (hsame : SameLines ls p.srcLines)
    (src : List UInt8) (hsrc : decodeRunes src = renderLines ls) :
    assemble cfg src =
      match Spec.meaningFlat sc (p.xitems.map AsmLine.XItem.toItem) with
      | some m => .ok (toWD p.meta m)
      | none => .err := by
  have hOK : p.toP.OK := p.toP_OK hlex hnames hw.kw hnd hcl
  have htok : lexBytes src = p.toP.tokens := by
    unfold lexBytes; rw [hsrc, p.lex_tokens hlex ls hls hsame]
  rw [assemble_stages_pprog cfg src p.toP hOK htok]
  have hc : Compile.compileX lexString cfg p.toP.lines p.toP.metadata =
      Compile.optM ((Spec.meaningFlat sc (p.xitems.map AsmLine.XItem.toItem)).map
        (toWD p.toP.metadata)) := by
    rw [← compileX_norm, p.norm_lines hlex (p.commentOK hw hplain)]
    exact compileX_meaning_equ lexString cfg sc p.xitems _ d hv h63 hr hnd hsmall hrk hlt hw
  rw [parseCompile_of cfg _ p.toP.lines p.toP.metadata (parse_pprog p.toP hOK) _ hc]
  cases Spec.meaningFlat sc (p.xitems.map AsmLine.XItem.toItem) <;> rfl

/-- `assemble_meaning_equ` for ASCII text given as characters -/
theorem assemble_meaning_equ_ascii (cfg : Config) (sc : Spec.Cfg) (p : EProg) (d : String → Nat)
    (hv : cfg.validate = true) (h63 : cfg.coreSize.toNat < 2 ^ 63) (hr : CfgRel cfg sc)
    (hlex : p.LexOK) (hnames : p.NamesOK)
    (hplain : ∀ cs k, EItem.comment cs k ∈ p.items → plainComment cs)
    (hnd : (p.labels ++ p.equNames ++ constNames).Nodup)
    (hcl : ∀ x ∈ p.names, x ∈ p.labels ∨ x ∈ p.equNames ∨ x ∈ constNames)
    (hsmall : xinstrCount p.xitems < 2 ^ 63)
    (hrk : ERanked (xequs p.xitems ++ Spec.predefined sc) d) (hlt : ∀ s, d s < 63)
    (hw : XProgWF lexString sc (xtables sc p.xitems) 0 p.xitems)
    (ls : List SrcLine) (hls : ∀ l ∈ ls, l.ok (some '\n') = true) (hsame : SameLines ls p.srcLines)
    (hascii : ∀ c ∈ renderLines ls, c.toNat < 128) :
    assemble cfg (asciiBytes (renderLines ls)) =
      match Spec.meaningFlat sc (p.xitems.map AsmLine.XItem.toItem) with
      | some m => .ok (toWD p.meta m)
      | none => .err :=
  assemble_meaning_equ cfg sc p d hv h63 hr hlex hnames hplain hnd hcl hsmall hrk hlt hw ls hls hsame _
    (decodeRunes_ascii _ hascii)

/-- `assemble_meaning_equ` for the UTF-8 encoding (`String.toUTF8`) of the text; comment lines may
    contain any characters -/
theorem assemble_meaning_equ_utf8 (cfg : Config) (sc : Spec.Cfg) (p : EProg) (d : String → Nat)
    (hv : cfg.validate = true) (h63 : cfg.coreSize.toNat < 2 ^ 63) (hr : CfgRel cfg sc)
    (hlex : p.LexOK) (hnames : p.NamesOK)
    (hplain : ∀ cs k, EItem.comment cs k ∈ p.items → plainComment cs)
    (hnd : (p.labels ++ p.equNames ++ constNames).Nodup)
    (hcl : ∀ x ∈ p.names, x ∈ p.labels ∨ x ∈ p.equNames ∨ x ∈ constNames)
    (hsmall : xinstrCount p.xitems < 2 ^ 63)
    (hrk : ERanked (xequs p.xitems ++ Spec.predefined sc) d) (hlt : ∀ s, d s < 63)
    (hw : XProgWF lexString sc (xtables sc p.xitems) 0 p.xitems)
    (ls : List SrcLine) (hls : ∀ l ∈ ls, l.ok (some '\n') = true) (hsame : SameLines ls p.srcLines) :
    assemble cfg (String.ofList (renderLines ls)).toUTF8.data.toList =
      match Spec.meaningFlat sc (p.xitems.map AsmLine.XItem.toItem) with
      | some m => .ok (toWD p.meta m)
      | none => .err :=
  assemble_meaning_equ cfg sc p d hv h63 hr hlex hnames hplain hnd hcl hsmall hrk hlt hw ls hls hsame _
    (decodeRunes_toUTF8 _)

/-- the pre-scan of the FOR pass loop on these programs: it returns the EQU table (names with
    their value tokens) and `forSeen = false`; the hypothesis it needs is that no name is defined
    by two EQU lines -/
theorem scan_eprog (p : EProg) (hlex : p.LexOK) (hnames : p.NamesOK)
    (hkw : ∀ x ∈ p.xitems, x.KW) (hnd : p.equNames.Nodup)
    (ls : List SrcLine) (hls : ∀ l ∈ ls, l.ok (some '\n') = true) (hsame : SameLines ls p.srcLines) :
    scanInput (Lex.tokens (renderLines ls)) =
      .ok (some ((xequs p.xitems).map rendEqu, false)) := by
  rw [p.lex_tokens hlex ls hls hsame]
  have hitems : ∀ it ∈ p.toP.items, it.OK := by
    intro it hit
    simp only [EProg.toP, List.mem_map] at hit
    obtain ⟨s, hs, rfl⟩ := hit
    exact EItem.toP_OK (hlex.items s hs) (hnames.items s hs)
      (fun x hx => hkw x (p.mem_xitems_of_toX hs hx))
  have heq : pitemsEqus p.toP.items = (xequs p.xitems).map rendEqu := by
    have h1 : ∀ items : List EItem, pitemsEqus (items.map EItem.toP) =
        (xequs (items.filterMap EItem.toX)).map rendEqu := by
      intro items
      induction items with
      | nil => rfl
      | cons it r ih =>
        cases it <;>
          simp only [List.map_cons, EItem.toP, pitemsEqus, EItem.toX, List.filterMap_cons, xequs, ih,
            rendEqu]
    unfold EProg.xitems
    rw [xequs_append, p.finX_equs, List.append_nil]
    exact h1 p.items
  have hfin : ∀ kw toks, p.toP.fin = some (kw, toks) → lowerStr kw = "end" := by
    intro kw toks hf
    simp only [EProg.toP] at hf
    cases hpf : p.fin with
    | none => rw [hpf] at hf; cases hf
    | some q =>
      obtain ⟨kw', e⟩ := q
      rw [hpf] at hf
      simp only [Option.map_some, Option.some.injEq, Prod.mk.injEq] at hf
      obtain ⟨rfl, _⟩ := hf
      have hmem : AsmLine.XItem.end_ kw' e ∈ p.xitems := by
        unfold EProg.xitems EProg.finX
        rw [hpf]
        exact List.mem_append_right _ (List.mem_singleton.mpr rfl)
      exact (hkw _ hmem).1
  rw [← heq]
  refine scan_pprog p.toP hitems hfin ?_
  rw [heq, rendEqu_keys]
  exact hnd

end AsmComposeEqu
end Gmars
