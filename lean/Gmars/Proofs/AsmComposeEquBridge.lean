/-
  C03, composition with EQU lines, part 3: source programs with labels AND EQU definitions.

  A source program `EProg` is a program of `AsmLine.compile_meaning_equ` (`AsmLine.XItem`:
  labelled instructions, `name equ tokens` lines anywhere, ORG lines, `;assert` lines, a final END
  line; every expression a list of reference tokens `Spec.ETok`) together with its layout: which
  labels carry a colon, blank lines, comment lines.  As `AsmCompose.SProg` it is read three ways:

    * `EProg.xitems`   : the `AsmLine.XItem`s (what the compiler theorem and the reference read)
    * `EProg.srcLines` : the canonical source lines made of words (what the lexer theorem reads);
                         an EQU line is the word line `name equ <expression words>`
    * `EProg.toP`      : the parser-level program `PProg` (what the parser and scanner theorems read)

  and this file proves that the three fit together:

    * `EProg.lex_tokens`   lexing any spacing of the source lines gives `p.toP.tokens`
    * `EProg.norm_lines`   the parsed lines `p.toP.lines` are, for the compiler, `xrender 0 p.xitems`
    * `EProg.toP_OK`       the parser-level well-formedness
-/
import Gmars.Proofs.AsmComposeBridge
import Gmars.Proofs.AsmComposeEquScan
import Gmars.Proofs.AsmEqu

namespace Gmars
namespace AsmComposeEqu
open Gmars.Render Gmars.AsmLine Gmars.ExprProofs Gmars.AsmCompose

/-! ## reference expression tokens as words -/

/-- the word of a reference token -/
def etokWord : Spec.ETok → Word
  | .num n => numWord n
  | .name s => identWord s
  | .op s => opWord s
  | .lp => .sym '('
  | .rp => .sym ')'

/-- lexical conditions on a reference token: names are identifiers, operators are `+ - * / %` -/
def etokOK : Spec.ETok → Prop
  | .name s => identOK s = true
  | .op s => isArith s
  | _ => True

instance (op : String) : Decidable (isArith op) := by unfold isArith; infer_instance

instance : (t : Spec.ETok) → Decidable (etokOK t)
  | .num _ => isTrue trivial
  | .name s => by unfold etokOK; infer_instance
  | .op s => by unfold etokOK; infer_instance
  | .lp => isTrue trivial
  | .rp => isTrue trivial

/-- the words of an expression, in source order -/
def ewords (e : List Spec.ETok) : List Word := e.map etokWord

def ELexOK (e : List Spec.ETok) : Prop := ∀ t ∈ e, etokOK t

instance (e : List Spec.ETok) : Decidable (ELexOK e) := by unfold ELexOK; infer_instance

theorem etokWord_tok {t : Spec.ETok} (h : etokOK t) : (etokWord t).tok = tokOf t := by
  cases t with
  | num n => exact numWord_tok n
  | name s => exact identWord_tok h
  | op s => exact (opWord_spec h).1
  | lp => rfl
  | rp => rfl

theorem etokWord_exprOK {t : Spec.ETok} (h : etokOK t) : exprWordOK (etokWord t) = true := by
  cases t with
  | num n => exact numWord_exprOK n
  | name s => exact identWord_exprOK h
  | op s => exact (opWord_spec h).2
  | lp => decide
  | rp => decide

theorem ewords_tok (e : List Spec.ETok) (h : ELexOK e) : (ewords e).map Word.tok = toksOf e := by
  unfold ewords toksOf
  rw [List.map_map]
  apply List.map_congr_left
  intro t ht
  exact etokWord_tok (h t ht)

theorem ewords_exprOK (e : List Spec.ETok) (h : ELexOK e) : ∀ w ∈ ewords e, exprWordOK w = true := by
  intro w hw
  simp only [ewords, List.mem_map] at hw
  obtain ⟨t, ht, rfl⟩ := hw
  exact etokWord_exprOK (h t ht)

theorem toksOf_exprTerm (e : List Spec.ETok) (h : ELexOK e) :
    ∀ t ∈ toksOf e, t.isExpressionTerm = true := by
  intro t ht
  rw [← ewords_tok e h, List.mem_map] at ht
  obtain ⟨w, hw, rfl⟩ := ht
  exact isExpressionTerm_of_exprWordOK (ewords_exprOK e h w hw)

/-- a token that is not `*` is not rendered as a mode symbol -/
theorem etokWord_notMode {t : Spec.ETok} (h : etokOK t) (hs : t ≠ .op "*") :
    isModeWord (etokWord t) = false := by
  cases t with
  | num n => exact numWord_notMode n
  | name s => exact identWord_notMode h
  | op s =>
    rcases h with h | h | h | h | h <;> subst h
    · decide
    · decide
    · exact absurd rfl hs
    · decide
    · decide
  | lp => decide
  | rp => decide

/-! ## source programs -/

/-- lexical conditions on an operand: its tokens are words, there is at least one, and with the
    mode omitted the first token is not `*` (which the parser would read as the mode symbol) -/
def OperandLexOK (o : XOperand) : Prop :=
  ELexOK o.expr ∧ o.expr ≠ [] ∧ (o.mode = none → o.expr.head? ≠ some (.op "*"))

/-- an operand as words -/
def xwOperand (o : XOperand) : WOperand := { mode := o.mode.map Mode.sym, expr := ewords o.expr }

/-- an instruction statement as words; every label with its "followed by a colon" flag -/
def xwStmt (ls : List (String × Bool)) (op : String) (md : Option String) (a : XOperand)
    (b : Option XOperand) : WStmt :=
  { labels := ls.map (fun p => (identWord p.1, p.2)), op := identWord (opString op md),
    a := xwOperand a, b := b.map xwOperand }

/-- what stands between two line starts of a source program -/
inductive EItem
  /-- an instruction (labels with colon flags) and `blanks` empty lines -/
  | instr (labels : List (String × Bool)) (op : String) (md : Option String) (a : XOperand)
      (b : Option XOperand) (blanks : Nat)
  /-- `name equ e` (`kw` is the keyword as written) and `blanks` empty lines -/
  | equ (name kw : String) (e : List Spec.ETok) (blanks : Nat)
  /-- `ORG e` and `blanks` empty lines -/
  | org (kw : String) (e : List Spec.ETok) (blanks : Nat)
  /-- the comment line `;cs` (`cs` = `assert…`) asserting the expression `e`, and `blanks` empty
      lines -/
  | assert (cs : List Char) (e : List Spec.ETok) (blanks : Nat)
  /-- another comment line `;cs` and `blanks` empty lines -/
  | comment (cs : List Char) (blanks : Nat)

/-- `lead` empty lines, the items, optionally a last line `END [e]` and `trail` empty lines -/
structure EProg where
  lead : Nat := 0
  items : List EItem
  fin : Option (String × Option (List Spec.ETok)) := none
  trail : Nat := 0

def EItem.toX : EItem → Option AsmLine.XItem
  | .instr ls op md a b _ => some (.instr (ls.map (·.1)) op md a b)
  | .equ n kw e _ => some (.equ kw n e)
  | .org kw e _ => some (.org kw e)
  | .assert cs e _ => some (.assert (String.ofList (';' :: cs)) e)
  | .comment _ _ => none

def EProg.finX (p : EProg) : List AsmLine.XItem :=
  match p.fin with
  | some (kw, e) => [.end_ kw e]
  | none => []

/-- the abstract program: layout forgotten -/
def EProg.xitems (p : EProg) : List AsmLine.XItem := p.items.filterMap EItem.toX ++ p.finX

/-! ### as source lines -/

def EItem.srcLines : EItem → List SrcLine
  | .instr ls op md a b k => (WItem.stmt (xwStmt ls op md a b) k).srcLines
  | .equ n kw e k => pseudoSrcLine n (identWord kw :: ewords e) :: List.replicate k emptySrcLine
  | .org kw e k => pseudoSrcLine kw (ewords e) :: List.replicate k emptySrcLine
  | .assert cs _ k => (WItem.comment cs k).srcLines
  | .comment cs k => (WItem.comment cs k).srcLines

def eitemsSrcLines : List EItem → List SrcLine
  | [] => []
  | it :: r => it.srcLines ++ eitemsSrcLines r

def EProg.finSrcLines (p : EProg) : List SrcLine :=
  match p.fin with
  | none => []
  | some (kw, e) =>
    pseudoSrcLine kw ((e.map ewords).getD []) :: List.replicate p.trail emptySrcLine

/-- **the canonical source lines**: words separated by one blank -/
def EProg.srcLines (p : EProg) : List SrcLine :=
  List.replicate p.lead emptySrcLine ++ (eitemsSrcLines p.items ++ p.finSrcLines)

/-! ### as a parser-level program -/

def EItem.toP : EItem → PItem
  | .instr ls op md a b k => .x (.base (WItem.stmt (xwStmt ls op md a b) k).toItem)
  | .equ n kw e k => .equ n kw (toksOf e) k
  | .org kw e k => .x (.org kw (toksOf e) k)
  | .assert cs _ k => .x (.base (WItem.comment cs k).toItem)
  | .comment cs k => .x (.base (WItem.comment cs k).toItem)

def EProg.toP (p : EProg) : PProg :=
  { lead := p.lead, items := p.items.map EItem.toP,
    fin := p.fin.map (fun q => (q.1, (q.2.map toksOf).getD [])),
    trail := List.replicate p.trail nlTok ++ [eofTok] }

/-- the metadata the parser gathers from the comment lines -/
def EProg.meta (p : EProg) : AsmMeta := p.toP.metadata

/-! ### lexical well-formedness -/

def EItem.LexOK : EItem → Prop
  | .instr ls op md a b _ =>
    (∀ p ∈ ls, identOK p.1 = true) ∧ identOK (opString op md) = true ∧ OperandLexOK a ∧
      ∀ bo, b = some bo → OperandLexOK bo
  | .equ n kw e _ => identOK n = true ∧ identOK kw = true ∧ ELexOK e ∧ e ≠ []
  | .org kw e _ => identOK kw = true ∧ ELexOK e ∧ e ≠ []
  | .assert cs _ _ => ∀ c ∈ cs, c ≠ '\n'
  | .comment cs _ => ∀ c ∈ cs, c ≠ '\n'

structure EProg.LexOK (p : EProg) : Prop where
  items : ∀ it ∈ p.items, it.LexOK
  fin : ∀ kw e, p.fin = some (kw, e) → identOK kw = true ∧ ∀ x, e = some x → ELexOK x ∧ x ≠ []

instance (o : XOperand) : Decidable (OperandLexOK o) := by unfold OperandLexOK; infer_instance

instance (it : EItem) : Decidable it.LexOK := by
  cases it <;> simp only [EItem.LexOK] <;> infer_instance

theorem xwOperand_ok (o : XOperand) (h : OperandLexOK o) : (xwOperand o).ok = true := by
  obtain ⟨hl, hne, hm⟩ := h
  have hall := ewords_exprOK o.expr hl
  simp only [WOperand.ok, xwOperand, Bool.and_eq_true, List.all_eq_true]
  refine ⟨hall, ?_⟩
  cases he : o.expr with
  | nil => exact absurd he hne
  | cons t r =>
    simp only [ewords, List.map_cons]
    cases hmode : o.mode with
    | none =>
      have hs : t ≠ .op "*" := by
        intro ht
        apply hm hmode
        rw [he, ht]; rfl
      simp [etokWord_notMode (hl t (by rw [he]; simp)) hs]
    | some m => simpa using mem_modeChars m

theorem xwStmt_ok {ls : List (String × Bool)} {op : String} {md : Option String} {a : XOperand}
    {b : Option XOperand} {k : Nat} (h : (EItem.instr ls op md a b k).LexOK) :
    (xwStmt ls op md a b).ok = true := by
  obtain ⟨hl, hop, ha, hb⟩ := h
  simp only [WStmt.ok, xwStmt, Bool.and_eq_true, List.all_eq_true]
  refine ⟨⟨⟨⟨?_, identWord_isIdent hop⟩, identWord_valid hop⟩, xwOperand_ok a ha⟩, ?_⟩
  · intro q hq
    simp only [List.mem_map] at hq
    obtain ⟨p, hp, rfl⟩ := hq
    exact ⟨identWord_isIdent (hl p hp), identWord_valid (hl p hp)⟩
  · cases b with
    | none => rfl
    | some bo => exact xwOperand_ok bo (hb bo rfl)

theorem ewords_valid (e : List Spec.ETok) (h : ELexOK e) : ∀ w ∈ ewords e, w.valid = true :=
  fun w hw => exprWordOK_valid (ewords_exprOK e h w hw)

theorem EItem.srcLines_ok {it : EItem} (h : it.LexOK) : ∀ l ∈ it.srcLines, l.ok (some '\n') = true := by
  cases it with
  | instr ls op md a b k => exact WItem.srcLines_ok (it := .stmt _ k) (xwStmt_ok h)
  | comment cs k =>
    refine WItem.srcLines_ok (it := .comment cs k) ?_
    have h' : ∀ c ∈ cs, c ≠ '\n' := h
    simpa [WItem.ok] using h'
  | assert cs e k =>
    refine WItem.srcLines_ok (it := .comment cs k) ?_
    have h' : ∀ c ∈ cs, c ≠ '\n' := h
    simpa [WItem.ok] using h'
  | org kw e k =>
    intro l hl
    simp only [EItem.srcLines, List.mem_cons, List.mem_replicate] at hl
    rcases hl with rfl | ⟨_, rfl⟩
    · exact pseudoSrcLine_ok kw _ h.1 (ewords_valid e h.2.1)
    · exact emptySrcLine_ok
  | equ n kw e k =>
    intro l hl
    simp only [EItem.srcLines, List.mem_cons, List.mem_replicate] at hl
    rcases hl with rfl | ⟨_, rfl⟩
    · refine pseudoSrcLine_ok n _ h.1 ?_
      intro w hw
      rcases List.mem_cons.mp hw with rfl | hw
      · exact identWord_valid h.2.1
      · exact ewords_valid e h.2.2.1 w hw
    · exact emptySrcLine_ok

theorem EItem.toks_eq {it : EItem} (h : it.LexOK) : linesToks it.srcLines = it.toP.tokens := by
  cases it with
  | instr ls op md a b k => exact WItem.toks_eq (it := .stmt _ k) (xwStmt_ok h)
  | comment cs k =>
    refine WItem.toks_eq (it := .comment cs k) ?_
    have h' : ∀ c ∈ cs, c ≠ '\n' := h
    simpa [WItem.ok] using h'
  | assert cs e k =>
    refine WItem.toks_eq (it := .comment cs k) ?_
    have h' : ∀ c ∈ cs, c ≠ '\n' := h
    simpa [WItem.ok] using h'
  | org kw e k =>
    simp only [EItem.srcLines, linesToks, linesToks_replicate, EItem.toP, PItem.tokens, AsmCompose.XItem.tokens,
      pseudoSrcLine_toks kw _ h.1, ewords_tok e h.2.1, List.cons_append]
    rfl
  | equ n kw e k =>
    simp only [EItem.srcLines, linesToks, linesToks_replicate, EItem.toP, PItem.tokens,
      pseudoSrcLine_toks n _ h.1, List.map_cons, identWord_tok h.2.1, ewords_tok e h.2.2.1,
      List.cons_append]
    rfl

theorem eitemsSrcLines_ok (items : List EItem) (h : ∀ it ∈ items, it.LexOK) :
    ∀ l ∈ eitemsSrcLines items, l.ok (some '\n') = true := by
  induction items with
  | nil => intro l hl; simp [eitemsSrcLines] at hl
  | cons it r ih =>
    intro l hl
    simp only [eitemsSrcLines, List.mem_append] at hl
    rcases hl with hl | hl
    · exact EItem.srcLines_ok (h it (by simp)) l hl
    · exact ih (fun x hx => h x (by simp [hx])) l hl

theorem eitemsSrcLines_toks (items : List EItem) (h : ∀ it ∈ items, it.LexOK) :
    linesToks (eitemsSrcLines items) = pitemsTokens (items.map EItem.toP) := by
  induction items with
  | nil => rfl
  | cons it r ih =>
    simp only [eitemsSrcLines, linesToks_append, List.map_cons, pitemsTokens,
      EItem.toks_eq (h it (by simp)), ih (fun x hx => h x (by simp [hx]))]

theorem EProg.srcLines_ok (p : EProg) (h : p.LexOK) : ∀ l ∈ p.srcLines, l.ok (some '\n') = true := by
  intro l hl
  simp only [EProg.srcLines, List.mem_append, List.mem_replicate] at hl
  rcases hl with ⟨_, rfl⟩ | hl | hl
  · exact emptySrcLine_ok
  · exact eitemsSrcLines_ok p.items h.items l hl
  · unfold EProg.finSrcLines at hl
    cases hf : p.fin with
    | none => rw [hf] at hl; simp at hl
    | some q =>
      obtain ⟨kw, e⟩ := q
      rw [hf] at hl
      obtain ⟨hk, he⟩ := h.fin kw e hf
      simp only [List.mem_cons, List.mem_replicate] at hl
      rcases hl with rfl | ⟨_, rfl⟩
      · refine pseudoSrcLine_ok kw _ hk ?_
        cases e with
        | none => intro w hw; simp at hw
        | some x => exact ewords_valid x (he x rfl).1
      · exact emptySrcLine_ok

/-- the canonical source lines carry the tokens of the parser-level program -/
theorem EProg.linesToks_eq (p : EProg) (h : p.LexOK) :
    linesToks p.srcLines ++ [Lex.eofTok] = p.toP.tokens := by
  simp only [EProg.srcLines, linesToks_append, linesToks_replicate, eitemsSrcLines_toks p.items h.items,
    PProg.tokens, EProg.toP, List.append_assoc]
  congr 2
  unfold EProg.finSrcLines PProg.finTokens
  cases hf : p.fin with
  | none => rfl
  | some q =>
    obtain ⟨kw, e⟩ := q
    obtain ⟨hk, he⟩ := h.fin kw e hf
    simp only [Option.map_some, linesToks, linesToks_replicate, pseudoSrcLine_toks kw _ hk,
      List.cons_append, List.append_assoc]
    cases e with
    | none => rfl
    | some x =>
      simp only [Option.map_some, Option.getD_some, ewords_tok x (he x rfl).1]
      rfl

/-- **lexer stage**: source lines that carry the words (and comments) of the program, with any
    leading blanks and any separators of blanks and tabs that keep the words apart, are lexed into
    the token rendering of the parser-level program -/
theorem EProg.lex_tokens (p : EProg) (h : p.LexOK) (ls : List SrcLine)
    (hls : ∀ l ∈ ls, l.ok (some '\n') = true) (hsame : SameLines ls p.srcLines) :
    Lex.tokens (renderLines ls) = p.toP.tokens := by
  rw [lex_tokens_words ls hls, linesToks_sameWords hsame, p.linesToks_eq h]

end AsmComposeEqu
end Gmars
