/-
  C03: mnemonic letter case as an explicit rendering step.

  In `assemble_meaning_equ` the opcode, modifier and pseudo-op texts of a program are the texts "as
  written", and the reference `Spec.meaningFlat` reads opcodes and modifiers case-insensitively
  (`Spec.opOfString`, `Spec.modOfString`), pseudo-op keywords not at all.  This file makes the
  consequence explicit:

    * `CaseEq s t`               two ASCII strings that differ in letter case only
    * `recase mask s`, `caseEq_recase`   ANY mixture of upper and lower case of an ASCII text
    * `instrMeaning_caseEq`, `XCases.meaning_eq`   the reference does not see the letter case
    * `XCases.wf`, `EProg.CaseVar.lexOK`, `EProg.CaseVar.namesOK`   nor do the hypotheses
    * **`assemble_meaning_anycase`**  every case variant `q` of a program `p`, in every spacing,
                                 assembles to the reference meaning of `p`

  Only ASCII: outside ASCII Go's `strings.ToLower` and the reference differ
  (`AsmLine.getOpCode_nonascii_counterexample`: `dİv`).  Labels, EQU names and the names used in
  expressions are case-sensitive in gmars and are not touched.
-/
import Gmars.Proofs.AsmComposeEqu

namespace Gmars
namespace AsmComposeEqu
open Gmars.Render Gmars.AsmLine Gmars.ExprProofs Gmars.AsmCompose GoStr

/-! ## strings up to ASCII letter case -/

/-- two ASCII strings that differ in letter case only -/
def CaseEq (s t : String) : Prop := Ascii s ∧ Ascii t ∧ lowerStr s = lowerStr t

theorem CaseEq.refl {s : String} (h : Ascii s) : CaseEq s s := ⟨h, h, rfl⟩
theorem CaseEq.symm {s t : String} (h : CaseEq s t) : CaseEq t s := ⟨h.2.1, h.1, h.2.2.symm⟩

theorem lower_of_lowerStr {s t : String} (h : lowerStr s = lowerStr t) :
    toLower s.toList = toLower t.toList := by
  have := congrArg String.toList h
  simpa [lowerStr] using this

theorem lowerStr_of_lower {s t : String} (h : toLower s.toList = toLower t.toList) :
    lowerStr s = lowerStr t := by
  unfold lowerStr; rw [h]

/-- optional modifier texts that differ in letter case only -/
def CaseEqO : Option String → Option String → Prop
  | none, none => True
  | some s, some t => CaseEq s t
  | _, _ => False

/-! ### any mixture of upper and lower case -/

theorem recase_char_fin : ∀ n : Fin 128,
    (Char.toUpper (Char.ofNat n)).toNat < 128 ∧ (lowerChar (Char.ofNat n)).toNat < 128 ∧
    lowerChar (lowerChar (Char.ofNat n)) = lowerChar (Char.ofNat n) := by decide

theorem recase_char {c : Char} (h : c.toNat < 128) :
    c.toUpper.toNat < 128 ∧ (lowerChar c).toNat < 128 ∧ lowerChar (lowerChar c) = lowerChar c := by
  have := recase_char_fin ⟨c.toNat, h⟩
  simpa [Char.ofNat_toNat] using this

/-- write the `i`-th character in upper case when `mask[i]` is `true`, in lower case when it is
    `false`; characters beyond the mask stay as they are -/
def recaseL : List Bool → List Char → List Char
  | b :: bs, c :: cs => (if b then c.toUpper else lowerChar c) :: recaseL bs cs
  | _, cs => cs

def recase (mask : List Bool) (s : String) : String := String.ofList (recaseL mask s.toList)

theorem recaseL_spec (mask : List Bool) (l : List Char) (h : ∀ c ∈ l, c.toNat < 128) :
    (∀ c ∈ recaseL mask l, c.toNat < 128) ∧ toLower (recaseL mask l) = toLower l := by
  induction l generalizing mask with
  | nil => cases mask <;> exact ⟨fun c hc => (by cases hc), rfl⟩
  | cons c cs ih =>
    cases mask with
    | nil => exact ⟨h, rfl⟩
    | cons b bs =>
      have hc := h c (by simp)
      obtain ⟨i1, i2⟩ := ih bs (fun x hx => h x (by simp [hx]))
      obtain ⟨r1, r2, r3⟩ := recase_char hc
      simp only [recaseL]
      constructor
      · intro x hx
        rcases List.mem_cons.1 hx with rfl | hx
        · cases b
          · simpa using r2
          · simpa using r1
        · exact i1 x hx
      · simp only [toLower, List.map_cons] at i2 ⊢
        rw [i2]
        congr 1
        cases b
        · simpa using r3
        · simpa using (char_upper_lower hc).2

/-- every mixture of upper and lower case of an ASCII text is a case variant of it -/
theorem caseEq_recase (mask : List Bool) {s : String} (h : Ascii s) : CaseEq s (recase mask s) := by
  obtain ⟨h1, h2⟩ := recaseL_spec mask s.toList h
  refine ⟨h, ?_, ?_⟩
  · intro c hc
    rw [recase, String.toList_ofList] at hc
    exact h1 c hc
  · apply lowerStr_of_lower
    rw [recase, String.toList_ofList, h2]

/-! ### identifiers -/

theorem ident_lower_fin : ∀ n : Fin 128,
    isIdentStart (lowerChar (Char.ofNat n)) = isIdentStart (Char.ofNat n) ∧
    isIdentChar (lowerChar (Char.ofNat n)) = isIdentChar (Char.ofNat n) := by decide

theorem ident_lower {c : Char} (h : c.toNat < 128) :
    isIdentStart (lowerChar c) = isIdentStart c ∧ isIdentChar (lowerChar c) = isIdentChar c := by
  have := ident_lower_fin ⟨c.toNat, h⟩
  simpa [Char.ofNat_toNat] using this

/-- `identOK` on the characters -/
def identL : List Char → Bool
  | c :: cs => isIdentStart c && cs.all isIdentChar
  | [] => false

theorem identOK_eq (s : String) : identOK s = identL s.toList := by
  unfold identOK identWord identL
  cases s.toList with
  | nil => rfl
  | cons c cs => simp [Word.isIdent, Word.valid]

theorem all_identChar_lower (l : List Char) (h : ∀ c ∈ l, c.toNat < 128) :
    (l.map lowerChar).all isIdentChar = l.all isIdentChar := by
  induction l with
  | nil => rfl
  | cons c cs ih =>
    simp only [List.map_cons, List.all_cons, (ident_lower (h c (by simp))).2,
      ih (fun x hx => h x (by simp [hx]))]

theorem identL_lower (l : List Char) (h : ∀ c ∈ l, c.toNat < 128) : identL (toLower l) = identL l := by
  cases l with
  | nil => rfl
  | cons c cs =>
    simp only [toLower, List.map_cons, identL, (ident_lower (h c (by simp))).1,
      all_identChar_lower cs (fun x hx => h x (by simp [hx]))]

theorem identOK_caseEq {s t : String} (h : CaseEq s t) : identOK s = identOK t := by
  rw [identOK_eq, identOK_eq, ← identL_lower _ h.1, ← identL_lower _ h.2.1, lower_of_lowerStr h.2.2]

/-! ### opcodes, labels -/

theorem dot_mem_lower_iff (l : List Char) : '.' ∈ toLower l ↔ '.' ∈ l := by
  constructor
  · intro h
    simp only [toLower, List.mem_map] at h
    obtain ⟨c, hc, hl⟩ := h
    rw [(lowerChar_eq_iff (d := '.') (by decide)).mp hl] at hc
    exact hc
  · exact AsmLine.dot_mem_toLower

theorem contains_dot_lower {s t : String} (h : lowerStr s = lowerStr t) :
    s.toList.contains '.' = t.toList.contains '.' := by
  have h' := lower_of_lowerStr h
  have : '.' ∈ s.toList ↔ '.' ∈ t.toList := by
    rw [← dot_mem_lower_iff, h', dot_mem_lower_iff]
  simp only [List.contains_eq_mem]
  exact decide_eq_decide.mpr this

theorem getOpCode_lower {s t : String} (h : lowerStr s = lowerStr t) :
    getOpCode s.toList = getOpCode t.toList := by
  unfold getOpCode
  rw [lower_of_lowerStr h]

theorem getOpMode_lower {s t : String} (h : lowerStr s = lowerStr t) :
    getOpMode s.toList = getOpMode t.toList := by
  unfold getOpMode
  rw [lower_of_lowerStr h]

theorem isPseudoOp_lower {s t : String} (h : lowerStr s = lowerStr t) :
    (⟨.text, s⟩ : Token).isPseudoOp = (⟨.text, t⟩ : Token).isPseudoOp := by
  unfold Token.isPseudoOp
  simp only [h]

theorem isOp_lower {s t : String} (h : lowerStr s = lowerStr t) :
    (⟨.text, s⟩ : Token).isOp = (⟨.text, t⟩ : Token).isOp := by
  unfold Token.isOp
  simp only [contains_dot_lower h, getOpCode_lower h, isPseudoOp_lower h]

theorem isOpName_lower {s t : String} (h : lowerStr s = lowerStr t) (hs : IsOpName s) : IsOpName t := by
  unfold IsOpName at *
  rw [← isOp_lower h, ← isPseudoOp_lower h]; exact hs

/-- the reference look-ups do not see the letter case -/
theorem opOfString_caseEq {s t : String} (h : CaseEq s t) : Spec.opOfString s = Spec.opOfString t := by
  rw [← getOpCode_eq h.1, ← getOpCode_eq h.2.1, getOpCode_lower h.2.2]

theorem modOfString_caseEq {s t : String} (h : CaseEq s t) : Spec.modOfString s = Spec.modOfString t := by
  rw [← getOpMode_eq h.1, ← getOpMode_eq h.2.1, getOpMode_lower h.2.2]

theorem instrMeaning_caseEq (c : Spec.Cfg) (t : Spec.Tables) (k : Nat) {op op' : String}
    {md md' : Option String} (a : Spec.POperand) (b : Option Spec.POperand)
    (hop : CaseEq op op') (hmd : CaseEqO md md') :
    Spec.instrMeaning c t k op md a b = Spec.instrMeaning c t k op' md' a b := by
  have h1 := opOfString_caseEq hop
  cases md with
  | none =>
    cases md' with
    | none => simp only [Spec.instrMeaning, h1]
    | some s' => exact hmd.elim
  | some s =>
    cases md' with
    | none => exact hmd.elim
    | some s' =>
      have h2 := modOfString_caseEq (show CaseEq s s' from hmd)
      simp only [Spec.instrMeaning, h1, h2, Option.isSome_some]

/-- the opcode text with its modifier -/
theorem opString_caseEq {op op' : String} {md md' : Option String} (hop : CaseEq op op')
    (hmd : CaseEqO md md') : CaseEq (opString op md) (opString op' md') := by
  cases md with
  | none =>
    cases md' with
    | none => simpa [opString] using hop
    | some s' => exact hmd.elim
  | some s =>
    cases md' with
    | none => exact hmd.elim
    | some s' =>
      have hmd' : CaseEq s s' := hmd
      have e : ∀ (o m : String), (opString o (some m)).toList = o.toList ++ '.' :: m.toList := by
        intro o m
        simp [opString]
      refine ⟨?_, ?_, ?_⟩
      · intro c hc
        rw [e] at hc
        rcases List.mem_append.1 hc with hc | hc
        · exact hop.1 c hc
        · rcases List.mem_cons.1 hc with rfl | hc
          · decide
          · exact hmd'.1 c hc
      · intro c hc
        rw [e] at hc
        rcases List.mem_append.1 hc with hc | hc
        · exact hop.2.1 c hc
        · rcases List.mem_cons.1 hc with rfl | hc
          · decide
          · exact hmd'.2.1 c hc
      · apply lowerStr_of_lower
        rw [e, e]
        simp only [toLower, List.map_append, List.map_cons]
        have h1 := lower_of_lowerStr hop.2.2
        have h2 := lower_of_lowerStr hmd'.2.2
        simp only [toLower] at h1 h2
        rw [h1, h2]


/-! ## abstract programs up to the letter case of opcode, modifier and keyword -/

/-- `y` is `x` with the opcode / modifier / keyword text in another letter case -/
def XCase : AsmLine.XItem → AsmLine.XItem → Prop
  | .instr ls op md a b, y => ∃ op' md', y = .instr ls op' md' a b ∧ CaseEq op op' ∧ CaseEqO md md'
  | .equ kw n e, y => ∃ kw', y = .equ kw' n e ∧ lowerStr kw = lowerStr kw'
  | .org kw e, y => ∃ kw', y = .org kw' e ∧ lowerStr kw = lowerStr kw'
  | .end_ kw e, y => ∃ kw', y = .end_ kw' e ∧ lowerStr kw = lowerStr kw'
  | .assert cm e, y => y = .assert cm e

def XCases : List AsmLine.XItem → List AsmLine.XItem → Prop
  | [], [] => True
  | x :: r, y :: s => XCase x y ∧ XCases r s
  | _, _ => False

theorem XCases.ind2 {motive : List AsmLine.XItem → List AsmLine.XItem → Prop} (nil : motive [] [])
    (cons : ∀ x y r s, XCase x y → XCases r s → motive r s → motive (x :: r) (y :: s)) :
    ∀ P Q, XCases P Q → motive P Q := by
  intro P
  induction P with
  | nil => intro Q h; cases Q with
    | nil => exact nil
    | cons y s => exact h.elim
  | cons x r ih => intro Q h; cases Q with
    | nil => exact h.elim
    | cons y s => exact cons x y r s h.1 h.2 (ih s h.2)

theorem XCases.append {P Q P' Q' : List AsmLine.XItem} (h : XCases P Q) (h' : XCases P' Q') :
    XCases (P ++ P') (Q ++ Q') := by
  revert h
  refine XCases.ind2 (motive := fun P Q => XCases (P ++ P') (Q ++ Q')) ?_ ?_ P Q
  · exact h'
  · intro x y r s hxy _ ih
    exact ⟨hxy, ih⟩

theorem XCase.isInstr {x y : AsmLine.XItem} (h : XCase x y) : y.isInstr = x.isInstr := by
  cases x with
  | instr ls op md a b => obtain ⟨op', md', rfl, _, _⟩ := h; rfl
  | equ kw n e => obtain ⟨kw', rfl, _⟩ := h; rfl
  | org kw e => obtain ⟨kw', rfl, _⟩ := h; rfl
  | end_ kw e => obtain ⟨kw', rfl, _⟩ := h; rfl
  | assert cm e => cases h; rfl

theorem XCases.labelsFrom {P Q : List AsmLine.XItem} (h : XCases P Q) :
    ∀ k, xlabelsFrom k Q = xlabelsFrom k P := by
  revert h
  refine XCases.ind2 (motive := fun P Q => ∀ k, xlabelsFrom k Q = xlabelsFrom k P) ?_ ?_ P Q
  · intro k; rfl
  · intro x y r s hxy _ ih k
    cases x with
    | instr ls op md a b => obtain ⟨op', md', rfl, _, _⟩ := hxy; simp only [xlabelsFrom, ih]
    | equ kw n e => obtain ⟨kw', rfl, _⟩ := hxy; simp only [xlabelsFrom, ih]
    | org kw e => obtain ⟨kw', rfl, _⟩ := hxy; simp only [xlabelsFrom, ih]
    | end_ kw e => obtain ⟨kw', rfl, _⟩ := hxy; simp only [xlabelsFrom, ih]
    | assert cm e => cases hxy; simp only [xlabelsFrom, ih]

theorem XCases.equs {P Q : List AsmLine.XItem} (h : XCases P Q) : xequs Q = xequs P := by
  revert h
  refine XCases.ind2 (motive := fun P Q => xequs Q = xequs P) ?_ ?_ P Q
  · rfl
  · intro x y r s hxy _ ih
    cases x with
    | instr ls op md a b => obtain ⟨op', md', rfl, _, _⟩ := hxy; simp only [xequs, ih]
    | equ kw n e => obtain ⟨kw', rfl, _⟩ := hxy; simp only [xequs, ih]
    | org kw e => obtain ⟨kw', rfl, _⟩ := hxy; simp only [xequs, ih]
    | end_ kw e => obtain ⟨kw', rfl, _⟩ := hxy; simp only [xequs, ih]
    | assert cm e => cases hxy; simp only [xequs, ih]

theorem XCases.instrCount {P Q : List AsmLine.XItem} (h : XCases P Q) :
    xinstrCount Q = xinstrCount P := by
  revert h
  refine XCases.ind2 (motive := fun P Q => xinstrCount Q = xinstrCount P) ?_ ?_ P Q
  · rfl
  · intro x y r s hxy _ ih
    rw [xinstrCount_cons, xinstrCount_cons, hxy.isInstr, ih]

theorem XCases.names {P Q : List AsmLine.XItem} (h : XCases P Q) :
    Q.flatMap XItemNames = P.flatMap XItemNames := by
  revert h
  refine XCases.ind2 (motive := fun P Q => Q.flatMap XItemNames = P.flatMap XItemNames) ?_ ?_ P Q
  · rfl
  · intro x y r s hxy _ ih
    simp only [List.flatMap_cons, ih]
    congr 1
    cases x with
    | instr ls op md a b => obtain ⟨op', md', rfl, _, _⟩ := hxy; rfl
    | equ kw n e => obtain ⟨kw', rfl, _⟩ := hxy; rfl
    | org kw e => obtain ⟨kw', rfl, _⟩ := hxy; rfl
    | end_ kw e => obtain ⟨kw', rfl, _⟩ := hxy; rfl
    | assert cm e => cases hxy; rfl

theorem XCases.start {P Q : List AsmLine.XItem} (h : XCases P Q) : xstart Q = xstart P := by
  unfold xstart
  generalize ([.num 0] : List Spec.ETok) = acc
  revert h acc
  refine XCases.ind2
    (motive := fun P Q => ∀ acc, Q.foldl xstartStep acc = P.foldl xstartStep acc) ?_ ?_ P Q
  · intro acc; rfl
  · intro x y r s hxy _ ih acc
    simp only [List.foldl_cons]
    have : xstartStep acc y = xstartStep acc x := by
      cases x with
      | instr ls op md a b => obtain ⟨op', md', rfl, _, _⟩ := hxy; rfl
      | equ kw n e => obtain ⟨kw', rfl, _⟩ := hxy; rfl
      | org kw e => obtain ⟨kw', rfl, _⟩ := hxy; rfl
      | end_ kw e => obtain ⟨kw', rfl, _⟩ := hxy; cases e <;> rfl
      | assert cm e => cases hxy; rfl
    rw [this, ih]

theorem XCases.asserts_eq {P Q : List AsmLine.XItem} (h : XCases P Q) (c : Spec.Cfg) (t : Spec.Tables) :
    assertsOk c t (Q.map AsmLine.XItem.toItem) = assertsOk c t (P.map AsmLine.XItem.toItem) := by
  revert h
  refine XCases.ind2 (motive := fun P Q =>
    assertsOk c t (Q.map AsmLine.XItem.toItem) = assertsOk c t (P.map AsmLine.XItem.toItem)) ?_ ?_ P Q
  · rfl
  · intro x y r s hxy _ ih
    simp only [List.map_cons, assertsOk_cons, ih]
    congr 1
    cases x with
    | instr ls op md a b => obtain ⟨op', md', rfl, _, _⟩ := hxy; rfl
    | equ kw n e => obtain ⟨kw', rfl, _⟩ := hxy; rfl
    | org kw e => obtain ⟨kw', rfl, _⟩ := hxy; rfl
    | end_ kw e => obtain ⟨kw', rfl, _⟩ := hxy; rfl
    | assert cm e => cases hxy; rfl

theorem XCases.code_eq {P Q : List AsmLine.XItem} (h : XCases P Q) (c : Spec.Cfg) (t : Spec.Tables) :
    ∀ init, codeFold c t (Q.map AsmLine.XItem.toItem) init =
      codeFold c t (P.map AsmLine.XItem.toItem) init := by
  revert h
  refine XCases.ind2 (motive := fun P Q => ∀ init,
    codeFold c t (Q.map AsmLine.XItem.toItem) init = codeFold c t (P.map AsmLine.XItem.toItem) init)
    ?_ ?_ P Q
  · intro init; rfl
  · intro x y r s hxy _ ih init
    cases x with
    | instr ls op md a b =>
      obtain ⟨op', md', rfl, hop, hmd⟩ := hxy
      obtain ⟨code, k⟩ := init
      cases code with
      | none => simp only [List.map_cons, AsmLine.XItem.toItem, codeFold_instr_none, ih]
      | some code =>
        simp only [List.map_cons, AsmLine.XItem.toItem, codeFold_instr_some, ih,
          instrMeaning_caseEq c t k a.toP (b.map XOperand.toP) hop hmd]
    | equ kw n e =>
      obtain ⟨kw', rfl, _⟩ := hxy
      simp only [List.map_cons, AsmLine.XItem.toItem, codeFold_equ, ih]
    | org kw e =>
      obtain ⟨kw', rfl, _⟩ := hxy
      simp only [List.map_cons, AsmLine.XItem.toItem, codeFold_org, ih]
    | end_ kw e =>
      obtain ⟨kw', rfl, _⟩ := hxy
      simp only [List.map_cons, AsmLine.XItem.toItem, codeFold_end, ih]
    | assert cm e =>
      cases hxy
      simp only [List.map_cons, AsmLine.XItem.toItem, codeFold_assert, ih]

theorem XCases.tables {P Q : List AsmLine.XItem} (h : XCases P Q) (sc : Spec.Cfg) :
    xtables sc Q = xtables sc P := by
  unfold xtables
  rw [h.labelsFrom, h.equs]

/-- **the reference does not see the letter case** of opcodes, modifiers and pseudo-ops -/
theorem XCases.meaning_eq {P Q : List AsmLine.XItem} (h : XCases P Q) (sc : Spec.Cfg) :
    Spec.meaningFlat sc (Q.map AsmLine.XItem.toItem) = Spec.meaningFlat sc (P.map AsmLine.XItem.toItem) := by
  rw [meaningFlat_eq, meaningFlat_eq, xlabelFold_items, xlabelFold_items]
  unfold flatTail
  simp only [tablesOf_xitems]
  simp only [h.tables, xequsOf_items, xstartFold_items, xmetaOf_items, h.labelsFrom, h.equs,
    h.instrCount, h.start, h.asserts_eq, h.code_eq]

/-- well-formedness does not depend on the letter case -/
theorem XCase.wf {x y : AsmLine.XItem} (h : XCase x y) {lexTokens : String → List Token}
    {sc : Spec.Cfg} {t : Spec.Tables} {k : Nat} (hw : x.WF lexTokens sc t k) : y.WF lexTokens sc t k := by
  cases x with
  | instr ls op md a b =>
    obtain ⟨op', md', rfl, hop, hmd⟩ := h
    obtain ⟨h1, h2, h3, h4, h5⟩ := hw
    refine ⟨hop.2.1, ?_, ?_, h4, h5⟩
    · intro hd
      apply h2
      rw [← dot_mem_lower_iff, lower_of_lowerStr hop.2.2, dot_mem_lower_iff]
      exact hd
    · intro s hs
      subst hs
      cases md with
      | none => exact hmd.elim
      | some s0 => exact (show CaseEq s0 s from hmd).2.1
  | equ kw n e => obtain ⟨kw', rfl, hk⟩ := h; exact ⟨by rw [← hk]; exact hw.1, hw.2⟩
  | org kw e => obtain ⟨kw', rfl, hk⟩ := h; exact ⟨by rw [← hk]; exact hw.1, hw.2⟩
  | end_ kw e => obtain ⟨kw', rfl, hk⟩ := h; exact ⟨by rw [← hk]; exact hw.1, hw.2⟩
  | assert cm e => cases h; exact hw

theorem XCases.wf {P Q : List AsmLine.XItem} (h : XCases P Q) {lexTokens : String → List Token}
    {sc : Spec.Cfg} {t : Spec.Tables} :
    ∀ k, XProgWF lexTokens sc t k P → XProgWF lexTokens sc t k Q := by
  revert h
  refine XCases.ind2 (motive := fun P Q => ∀ k, XProgWF lexTokens sc t k P →
    XProgWF lexTokens sc t k Q) ?_ ?_ P Q
  · intro k _; trivial
  · intro x y r s hxy _ ih k hw
    refine ⟨hxy.wf hw.1, ?_⟩
    rw [hxy.isInstr]
    exact ih _ hw.2


/-! ## source programs up to the letter case of opcode, modifier and pseudo-op words -/

/-- `y` is `x` with the opcode / modifier / pseudo-op word written in another letter case -/
def EItem.CaseVar : EItem → EItem → Prop
  | .instr ls op md a b k, y =>
    ∃ op' md', y = .instr ls op' md' a b k ∧ CaseEq op op' ∧ CaseEqO md md'
  | .equ n kw e k, y => ∃ kw', y = .equ n kw' e k ∧ CaseEq kw kw'
  | .org kw e k, y => ∃ kw', y = .org kw' e k ∧ CaseEq kw kw'
  | .assert cs e k, y => y = .assert cs e k
  | .comment cs k, y => y = .comment cs k

def ECases : List EItem → List EItem → Prop
  | [], [] => True
  | x :: r, y :: s => x.CaseVar y ∧ ECases r s
  | _, _ => False

theorem ECases.ind2 {motive : List EItem → List EItem → Prop} (nil : motive [] [])
    (cons : ∀ x y r s, x.CaseVar y → ECases r s → motive r s → motive (x :: r) (y :: s)) :
    ∀ I J, ECases I J → motive I J := by
  intro I
  induction I with
  | nil => intro J h; cases J with
    | nil => exact nil
    | cons y s => exact h.elim
  | cons x r ih => intro J h; cases J with
    | nil => exact h.elim
    | cons y s => exact cons x y r s h.1 h.2 (ih s h.2)

/-- `q` is `p` with every opcode, modifier and pseudo-op word (`equ`, `org`, `end`) written in
    any mixture of upper and lower case -/
structure EProg.CaseVar (p q : EProg) : Prop where
  lead : q.lead = p.lead
  items : ECases p.items q.items
  fin : match p.fin with
    | none => q.fin = none
    | some (kw, e) => ∃ kw', q.fin = some (kw', e) ∧ CaseEq kw kw'
  trail : q.trail = p.trail

theorem ECases.mem {I J : List EItem} (h : ECases I J) : ∀ y ∈ J, ∃ x ∈ I, x.CaseVar y := by
  revert h
  refine ECases.ind2 (motive := fun I J => ∀ y ∈ J, ∃ x ∈ I, x.CaseVar y) ?_ ?_ I J
  · intro y hy; cases hy
  · intro x y r s hxy _ ih z hz
    rcases List.mem_cons.1 hz with rfl | hz
    · exact ⟨x, List.mem_cons_self .., hxy⟩
    · obtain ⟨w, hw, hwz⟩ := ih z hz
      exact ⟨w, List.mem_cons_of_mem _ hw, hwz⟩

theorem ECases.xcases {I J : List EItem} (h : ECases I J) :
    XCases (I.filterMap EItem.toX) (J.filterMap EItem.toX) := by
  revert h
  refine ECases.ind2 (motive := fun I J => XCases (I.filterMap EItem.toX) (J.filterMap EItem.toX))
    ?_ ?_ I J
  · trivial
  · intro x y r s hxy _ ih
    cases x with
    | instr ls op md a b k =>
      obtain ⟨op', md', rfl, hop, hmd⟩ := hxy
      exact ⟨⟨op', md', rfl, hop, hmd⟩, ih⟩
    | equ n kw e k =>
      obtain ⟨kw', rfl, hk⟩ := hxy
      exact ⟨⟨kw', rfl, hk.2.2⟩, ih⟩
    | org kw e k =>
      obtain ⟨kw', rfl, hk⟩ := hxy
      exact ⟨⟨kw', rfl, hk.2.2⟩, ih⟩
    | assert cs e k =>
      cases hxy
      exact ⟨rfl, ih⟩
    | comment cs k =>
      cases hxy
      exact ih

theorem EProg.CaseVar.xcases {p q : EProg} (h : p.CaseVar q) : XCases p.xitems q.xitems := by
  unfold EProg.xitems
  refine XCases.append h.items.xcases ?_
  have hf := h.fin
  unfold EProg.finX
  cases hp : p.fin with
  | none => rw [hp] at hf; simp only at hf; rw [hf]; trivial
  | some kt =>
    obtain ⟨kw, e⟩ := kt
    rw [hp] at hf
    obtain ⟨kw', hq, hk⟩ := hf
    rw [hq]
    exact ⟨⟨kw', rfl, hk.2.2⟩, trivial⟩

theorem EItem.CaseVar.lexOK {x y : EItem} (h : x.CaseVar y) (hx : x.LexOK) : y.LexOK := by
  cases x with
  | instr ls op md a b k =>
    obtain ⟨op', md', rfl, hop, hmd⟩ := h
    exact ⟨hx.1, by rw [← identOK_caseEq (opString_caseEq hop hmd)]; exact hx.2.1, hx.2.2⟩
  | equ n kw e k =>
    obtain ⟨kw', rfl, hk⟩ := h
    exact ⟨hx.1, by rw [← identOK_caseEq hk]; exact hx.2.1, hx.2.2⟩
  | org kw e k =>
    obtain ⟨kw', rfl, hk⟩ := h
    exact ⟨by rw [← identOK_caseEq hk]; exact hx.1, hx.2⟩
  | assert cs e k => cases h; exact hx
  | comment cs k => cases h; exact hx

theorem EItem.CaseVar.namesOK {x y : EItem} (h : x.CaseVar y) (hx : x.NamesOK) : y.NamesOK := by
  cases x with
  | instr ls op md a b k =>
    obtain ⟨op', md', rfl, hop, hmd⟩ := h
    exact ⟨hx.1, isOpName_lower (opString_caseEq hop hmd).2.2 hx.2⟩
  | equ n kw e k => obtain ⟨kw', rfl, hk⟩ := h; exact hx
  | org kw e k => obtain ⟨kw', rfl, hk⟩ := h; trivial
  | assert cs e k => cases h; trivial
  | comment cs k => cases h; trivial

theorem EProg.CaseVar.lexOK {p q : EProg} (h : p.CaseVar q) (hp : p.LexOK) : q.LexOK where
  items := by
    intro y hy
    obtain ⟨x, hx, hxy⟩ := h.items.mem y hy
    exact hxy.lexOK (hp.items x hx)
  fin := by
    intro kw' e hq
    have hf := h.fin
    cases hpf : p.fin with
    | none => rw [hpf] at hf; simp only at hf; rw [hf] at hq; cases hq
    | some kt =>
      obtain ⟨kw, e0⟩ := kt
      rw [hpf] at hf
      obtain ⟨kw'', hq', hk⟩ := hf
      rw [hq'] at hq
      cases hq
      obtain ⟨h1, h2⟩ := hp.fin kw e hpf
      exact ⟨by rw [← identOK_caseEq hk]; exact h1, h2⟩

theorem EProg.CaseVar.namesOK {p q : EProg} (h : p.CaseVar q) (hp : p.NamesOK) : q.NamesOK where
  items := by
    intro y hy
    obtain ⟨x, hx, hxy⟩ := h.items.mem y hy
    exact hxy.namesOK (hp.items x hx)

theorem EProg.CaseVar.plain {p q : EProg} (h : p.CaseVar q)
    (hp : ∀ cs k, EItem.comment cs k ∈ p.items → plainComment cs) :
    ∀ cs k, EItem.comment cs k ∈ q.items → plainComment cs := by
  intro cs k hq
  obtain ⟨x, hx, hxy⟩ := h.items.mem _ hq
  cases x with
  | instr ls op md a b k' => obtain ⟨op', md', he, _, _⟩ := hxy; cases he
  | equ n kw e k' => obtain ⟨kw', he, _⟩ := hxy; cases he
  | org kw e k' => obtain ⟨kw', he, _⟩ := hxy; cases he
  | assert cs' e k' => cases hxy
  | comment cs' k' => cases hxy; exact hp cs k hx

theorem EProg.CaseVar.meta_eq {p q : EProg} (h : p.CaseVar q) : q.meta = p.meta := by
  unfold EProg.meta PProg.metadata EProg.toP
  simp only
  generalize ({} : AsmMeta) = m
  have := h.items
  revert m
  revert this
  refine ECases.ind2 (motive := fun I J => ∀ m,
    pitemsMeta (J.map EItem.toP) m = pitemsMeta (I.map EItem.toP) m) ?_ ?_ p.items q.items
  · intro m; rfl
  · intro x y r s hxy _ ih m
    simp only [List.map_cons, pitemsMeta]
    have : y.toP.metadata m = x.toP.metadata m := by
      cases x with
      | instr ls op md a b k => obtain ⟨op', md', rfl, _, _⟩ := hxy; rfl
      | equ n kw e k => obtain ⟨kw', rfl, _⟩ := hxy; rfl
      | org kw e k => obtain ⟨kw', rfl, _⟩ := hxy; rfl
      | assert cs e k => cases hxy; rfl
      | comment cs k => cases hxy; rfl
    rw [this, ih]

/-- **`assemble_meaning_anycase`** — mnemonic letter case as an explicit rendering step.

    `p` is a program with the hypotheses of `assemble_meaning_equ`; `q` is `p` with each opcode,
    modifier and pseudo-op word (`equ`, `org`, `end`) rewritten in ANY mixture of upper and lower
    case (`EProg.CaseVar`: ASCII text with the same lower-casing; labels, EQU names and the names
    used in expressions are case-SENSITIVE and stay as they are); `ls` is any spacing of the
    words of `q`.  The whole assembler returns the reference meaning of `p`: the result does not
    depend on the letter case of the mnemonics. -/
theorem assemble_meaning_anycase (cfg : Config) (sc : Spec.Cfg) (p q : EProg) (d : String → Nat)
    (hpq : p.CaseVar q)
    (hv : cfg.validate = true) (h63 : cfg.coreSize.toNat < 2 ^ 63) (hr : CfgRel cfg sc)
    (hlex : p.LexOK) (hnames : p.NamesOK)
    (hplain : ∀ cs k, EItem.comment cs k ∈ p.items → plainComment cs)
    (hnd : (p.labels ++ p.equNames ++ constNames).Nodup)
    (hcl : ∀ x ∈ p.names, x ∈ p.labels ∨ x ∈ p.equNames ∨ x ∈ constNames)
    (hsmall : xinstrCount p.xitems < 2 ^ 63)
    (hrk : ERanked (xequs p.xitems ++ Spec.predefined sc) d) (hlt : ∀ s, d s < 63)
    (hw : XProgWF lexString sc (xtables sc p.xitems) 0 p.xitems)
    (ls : List SrcLine) (hls : ∀ l ∈ ls, l.ok (some '\n') = true) (hsame : SameLines ls q.srcLines)
    (src : List UInt8) (hsrc : decodeRunes src = renderLines ls) :
    assemble cfg src =
      match Spec.meaningFlat sc (p.xitems.map AsmLine.XItem.toItem) with
      | some m => .ok (toWD p.meta m)
      | none => .err := by
  have hx := hpq.xcases
  have hlab : q.labels = p.labels := by unfold EProg.labels; rw [hx.labelsFrom]
  have hequ : q.equNames = p.equNames := by unfold EProg.equNames; rw [hx.equs]
  have hnam : q.names = p.names := hx.names
  rw [← hx.meaning_eq sc, ← hpq.meta_eq]
  refine assemble_meaning_equ cfg sc q d hv h63 hr (hpq.lexOK hlex) (hpq.namesOK hnames)
    (hpq.plain hplain) (by rw [hlab, hequ]; exact hnd) (by rw [hlab, hequ, hnam]; exact hcl)
    (by rw [hx.instrCount]; exact hsmall) (by rw [hx.equs]; exact hrk) hlt
    (by rw [hx.tables]; exact hx.wf 0 hw) ls hls hsame src hsrc

end AsmComposeEqu
end Gmars
