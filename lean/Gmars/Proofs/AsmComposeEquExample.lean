/-
  The hypotheses of `assemble_meaning_equ` are satisfiable: the five-line program of
  `Gmars/Proofs/EquExample.lean` (a forward EQU use, an EQU that uses another EQU and a label,
  textual substitution, an assert) with a layout (a colon, blank lines, a comment line) and an odd
  spacing, from bytes:

      "\nx  equ 1+2\t\n a:dat\t\tx* 3\n   \n; a plain comment\n\tdat y\ny EQU x-a\n  ;assert x\n"

  `CompileWarrior` returns the reference meaning (DAT 0, 7 / DAT 0, 4).
-/
import Gmars.Proofs.AsmComposeEqu
import Gmars.Proofs.EquExample
import Gmars.Proofs.AsmComposeEquCase

namespace Gmars.AsmComposeEqu.Example
open Gmars Gmars.Render Gmars.AsmLine Gmars.AsmCompose Gmars.AsmComposeEqu Gmars.AsmLine.EquExample

open Spec.ETok in
/-- the source program: `progE` with a layout -/
def progS : EProg :=
  { lead := 1,
    items := [
      .equ "x" "equ" [num 1, op "+", num 2] 0,
      .instr [("a", true)] "dat" none ⟨none, [name "x", op "*", num 3]⟩ none 1,
      .comment " a plain comment".toList 0,
      .instr [] "dat" none ⟨none, [name "y"]⟩ none 0,
      .equ "y" "EQU" [name "x", op "-", name "a"] 0,
      .assert "assert x".toList [name "x"] 0 ] }

theorem xitems_eq : progS.xitems = progE := rfl

def idw (s : String) : Word :=
  match s.toList with
  | c :: cs => .ident c cs
  | [] => .sym ' '

def numw (s : String) : Word :=
  match s.toList with
  | c :: cs => .num c cs
  | [] => .sym ' '

/-- a spacing of the program: rendered as
    "\nx  equ 1+2\t\n a:dat\t\tx* 3\n   \n; a plain comment\n\tdat y\ny EQU x-a\n  ;assert x\n" -/
def lsS : List SrcLine := [
  { words := [] },
  { words := [(idw "x", "  ".toList), (idw "equ", " ".toList), (numw "1", []), (.sym '+', []),
              (numw "2", "\t".toList)] },
  { lead := " ".toList,
    words := [(idw "a", []), (.sym ':', []), (idw "dat", "\t\t".toList), (idw "x", []),
              (.sym '*', " ".toList), (numw "3", [])] },
  { lead := "   ".toList, words := [] },
  { words := [], comment := some " a plain comment".toList },
  { lead := "\t".toList, words := [(idw "dat", " ".toList), (idw "y", [])] },
  { words := [(idw "y", " ".toList), (idw "EQU", " ".toList), (idw "x", []), (.sym '-', []),
              (idw "a", [])] },
  { lead := "  ".toList, words := [], comment := some "assert x".toList } ]

theorem lsS_ok : ∀ l ∈ lsS, l.ok (some '\n') = true := by decide

theorem lsS_same : SameLines lsS progS.srcLines :=
  ⟨⟨rfl, rfl⟩, ⟨rfl, rfl⟩, ⟨rfl, rfl⟩, ⟨rfl, rfl⟩, ⟨rfl, rfl⟩, ⟨rfl, rfl⟩, ⟨rfl, rfl⟩, ⟨rfl, rfl⟩, trivial⟩

/-- the text of the assert line is lexed (by the real lexer) into the asserted expression -/
theorem assert_lex :
    lexString (String.ofList ((";assert x" : String).toList.drop 7)) =
      toksOf [Spec.ETok.name "x"] ++ [Lex.eofTok] := by
  have hl : (";assert x" : String).toList.drop 7 =
      renderLines [] ++ ({ lead := [' '], words := [(idw "x", [])] } : SrcLine).chars := by decide
  unfold lexString
  rw [String.toList_ofList, hl, lex_tokens_words_last [] (by intro l hl; cases hl) _ (by decide)]
  rfl

theorem progS_wf : XProgWF lexString scE (xtables scE progS.xitems) 0 progS.xitems := by
  rw [xitems_eq]
  refine ⟨?_, ?_, ?_, ?_, ?_, trivial⟩
  · exact ⟨by decide, size_x⟩
  · refine ⟨ascii_dat, by decide, ?_, good_a, ?_⟩
    · intro s h; cases h
    · intro bo h; cases h
  · refine ⟨ascii_dat, by decide, ?_, good_y, ?_⟩
    · intro s h; cases h
    · intro bo h; cases h
  · exact ⟨by decide, size_y⟩
  · exact ⟨by decide, ⟨_, assert_lex⟩, good_assert⟩

theorem progS_plain : ∀ cs k, EItem.comment cs k ∈ progS.items → plainComment cs := by
  intro cs k h
  simp only [progS, List.mem_cons, List.not_mem_nil, or_false, reduceCtorEq, false_or,
    EItem.comment.injEq] at h
  obtain ⟨rfl, _⟩ := h
  decide

/-- the theorem applies: from the bytes of this text `CompileWarrior` returns the reference
    meaning of the abstract program -/
theorem example_assemble :
    assemble cfgE (asciiBytes (renderLines lsS)) =
      match Spec.meaningFlat scE (progS.xitems.map XItem.toItem) with
      | some m => .ok (toWD progS.meta m)
      | none => .err :=
  assemble_meaning_equ_ascii cfgE scE progS dE (by decide) (by decide) ⟨rfl, rfl, rfl, rfl, rfl⟩
    ⟨by decide, by intro kw e h; cases h⟩ ⟨by decide⟩ progS_plain (by decide) (by decide) (by decide)
    (by rw [xitems_eq]; exact progE_ranked) (by intro s; unfold dE; split <;> omega) progS_wf
    lsS lsS_ok lsS_same (by decide)

/-! ### the same program with the mnemonics in mixed letter case -/

open Spec.ETok in
/-- `progS` with `EQU`, `DaT`, `dAT`, `eQu` -/
def progC : EProg :=
  { lead := 1,
    items := [
      .equ "x" "EQU" [num 1, op "+", num 2] 0,
      .instr [("a", true)] "DaT" none ⟨none, [name "x", op "*", num 3]⟩ none 1,
      .comment " a plain comment".toList 0,
      .instr [] "dAT" none ⟨none, [name "y"]⟩ none 0,
      .equ "y" "eQu" [name "x", op "-", name "a"] 0,
      .assert "assert x".toList [name "x"] 0 ] }

theorem caseEq_of {s t : String} (hs : ∀ c ∈ s.toList, c.toNat < 128) (ht : ∀ c ∈ t.toList, c.toNat < 128)
    (h : lowerStr s = lowerStr t) : CaseEq s t := ⟨hs, ht, h⟩

theorem progS_progC : progS.CaseVar progC where
  lead := rfl
  items :=
    ⟨⟨"EQU", rfl, caseEq_of (by decide) (by decide) (by decide)⟩,
     ⟨"DaT", none, rfl, caseEq_of (by decide) (by decide) (by decide), trivial⟩,
     rfl,
     ⟨"dAT", none, rfl, caseEq_of (by decide) (by decide) (by decide), trivial⟩,
     ⟨"eQu", rfl, caseEq_of (by decide) (by decide) (by decide)⟩,
     rfl, trivial⟩
  fin := rfl
  trail := rfl

/-- the canonical one-blank rendering of `progC`:
    "\nx EQU 1 + 2\na : DaT x * 3\n\n; a plain comment\ndAT y\ny eQu x - a\n;assert x\n" -/
theorem example_anycase :
    assemble cfgE (asciiBytes (renderLines progC.srcLines)) =
      match Spec.meaningFlat scE (progS.xitems.map XItem.toItem) with
      | some m => .ok (toWD progS.meta m)
      | none => .err :=
  assemble_meaning_anycase cfgE scE progS progC dE progS_progC (by decide) (by decide)
    ⟨rfl, rfl, rfl, rfl, rfl⟩
    ⟨by decide, by intro kw e h; cases h⟩ ⟨by decide⟩ progS_plain (by decide) (by decide) (by decide)
    (by rw [xitems_eq]; exact progE_ranked) (by intro s; unfold dE; split <;> omega) progS_wf
    progC.srcLines (by decide) (by
      exact ⟨⟨rfl, rfl⟩, ⟨rfl, rfl⟩, ⟨rfl, rfl⟩, ⟨rfl, rfl⟩, ⟨rfl, rfl⟩, ⟨rfl, rfl⟩, ⟨rfl, rfl⟩, ⟨rfl, rfl⟩,
        trivial⟩) _ (decodeRunes_ascii _ (by decide))

end Gmars.AsmComposeEqu.Example
