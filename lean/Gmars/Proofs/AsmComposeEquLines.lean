/-
  C03, composition with EQU lines, part 4: the parsed lines of a source program `EProg`, as the
  compiler reads them, are the lines `AsmLine.xrender 0 p.xitems` of `compile_meaning_equ`.

    * `EProg.norm_lines` : `norm p.toP.lines = xrender 0 p.xitems`
-/
import Gmars.Proofs.AsmComposeEquBridge

namespace Gmars
namespace AsmComposeEqu
open Gmars.Render Gmars.AsmLine Gmars.ExprProofs Gmars.AsmCompose

theorem xwOperand_mode (o : XOperand) :
    (xwOperand o).toOperand.mode.getD "" = modeString o.mode := by
  cases h : o.mode <;> simp [xwOperand, WOperand.toOperand, modeString, h]

theorem xwOperand_toks (o : XOperand) (h : ELexOK o.expr) :
    (xwOperand o).toOperand.toks = toksOf o.expr := by
  simp [xwOperand, WOperand.toOperand, ewords_tok o.expr h]

/-- the instruction entry of the parser is, for the compiler, the line of `xrender` -/
theorem core_xinstrLine {ls : List (String × Bool)} {op : String} {md : Option String}
    {a : XOperand} {b : Option XOperand} {k : Nat} (h : (EItem.instr ls op md a b k).LexOK)
    (ln : Int) (j : Nat) :
    core (((xwStmt ls op md a b).toStmt k).instrLine ln (j : Int)) =
      (AsmLine.XItem.instr (ls.map (·.1)) op md a b).toLine j := by
  obtain ⟨hl, hop, ha, hb⟩ := h
  have e1 : ((xwStmt ls op md a b).toStmt k).labelNames = ls.map (·.1) := by
    simp only [Stmt.labelNames, WStmt.toStmt, xwStmt, labels_val ls hl]
  have e2 : ((xwStmt ls op md a b).toStmt k).op = opString op md := by
    simp only [WStmt.toStmt, xwStmt, identWord_val hop]
  have e3 : ((xwStmt ls op md a b).toStmt k).a = (xwOperand a).toOperand := rfl
  have e4 : ((xwStmt ls op md a b).toStmt k).b = b.map (fun o => (xwOperand o).toOperand) := by
    simp only [WStmt.toStmt, xwStmt, Option.map_map]; rfl
  simp only [core, Stmt.instrLine, AsmLine.XItem.toLine, e1, e2, e3, e4, xwOperand_mode,
    xwOperand_toks a ha.1]
  cases b with
  | none => rfl
  | some bo =>
    simp only [Option.map_some, xwOperand_mode, xwOperand_toks bo (hb bo rfl).1, Option.bind_some]

/-- comment lines the compiler skips do not start with ";assert", assert lines do -/
def EItem.CommentOK : EItem → Prop
  | .comment cs _ => plainComment cs
  | .assert cs _ _ => Compile.assertPrefix.isPrefixOf (';' :: cs) = true
  | _ => True

theorem norm_assert_lines (cs : List Char) (k : Nat) (ln cl : Int)
    (h : Compile.assertPrefix.isPrefixOf (';' :: cs) = true) :
    norm ((WItem.comment cs k).toItem.lines ln cl) =
      [{ typ := .comment, comment := String.ofList (';' :: cs) }] := by
  simp only [WItem.toItem, Item.lines]
  rw [norm_cons_relevant _ _ (by
    simp only [relevant, commentLine, String.toList_ofList]
    rw [h]; rfl), norm_blankLines]
  rfl

/-- one item -/
theorem norm_eitem_lines {it : EItem} (h : it.LexOK) (hp : it.CommentOK) (ln : Int) (j : Nat) :
    norm (it.toP.lines ln (j : Int)) = (it.toX.toList).map (fun l => l.toLine j) := by
  cases it with
  | instr ls op md a b k =>
    simp only [EItem.toP, PItem.lines, AsmCompose.XItem.lines, WItem.toItem, Item.lines,
      norm_stmt_lines, core_xinstrLine h, EItem.toX, Option.toList_some, List.map_cons, List.map_nil]
  | comment cs k =>
    simp only [EItem.toP, PItem.lines, AsmCompose.XItem.lines, norm_comment_lines cs k ln j hp,
      EItem.toX, Option.toList_none, List.map_nil]
  | assert cs e k =>
    simp only [EItem.toP, PItem.lines, AsmCompose.XItem.lines, norm_assert_lines cs k ln j hp,
      EItem.toX, Option.toList_some, List.map_cons, List.map_nil, AsmLine.XItem.toLine]
  | org kw e k =>
    simp only [EItem.toP, PItem.lines, AsmCompose.XItem.lines, EItem.toX, Option.toList_some,
      List.map_cons, List.map_nil]
    rw [norm_cons_relevant _ _ rfl, norm_blankLines]
    rfl
  | equ n kw e k =>
    simp only [EItem.toP, PItem.lines, EItem.toX, Option.toList_some, List.map_cons, List.map_nil]
    rw [norm_cons_relevant _ _ rfl, norm_blankLines]
    rfl

theorem EItem.codeLines_eq (it : EItem) :
    it.toP.codeLines = if (it.toX.map AsmLine.XItem.isInstr).getD false then 1 else 0 := by
  cases it <;> rfl

theorem xinstrCount_cons (it : AsmLine.XItem) (r : List AsmLine.XItem) :
    xinstrCount (it :: r) = (if it.isInstr then 1 else 0) + xinstrCount r := by
  unfold xinstrCount
  rw [List.filter_cons]
  cases it.isInstr <;> simp <;> omega

theorem norm_eitems_lines (items : List EItem) (h : ∀ it ∈ items, it.LexOK)
    (hp : ∀ it ∈ items, it.CommentOK) (ln : Int) (j : Nat) :
    norm (pitemsLines (items.map EItem.toP) ln (j : Int)) = xrender j (items.filterMap EItem.toX) ∧
      pitemsEndCode (items.map EItem.toP) (j : Int) =
        ((j + xinstrCount (items.filterMap EItem.toX) : Nat) : Int) := by
  induction items generalizing ln j with
  | nil => exact ⟨rfl, by simp [pitemsEndCode, xinstrCount]⟩
  | cons it r ih =>
    have hit := h it (by simp)
    have hpit := hp it (by simp)
    have hr := fun x hx => h x (List.mem_cons_of_mem _ hx)
    have hpr := fun x hx => hp x (List.mem_cons_of_mem _ hx)
    simp only [List.map_cons, pitemsLines, pitemsEndCode, norm_append, norm_eitem_lines hit hpit]
    cases it with
    | instr ls op md a b k =>
      have := ih hr hpr (ln + 1 + ((EItem.instr ls op md a b k).toP.blanks : Int)) (j + 1)
      simp only [EItem.toX, List.filterMap_cons, Option.toList_some, List.map_cons, List.map_nil,
        xrender, AsmLine.XItem.isInstr, if_true, List.cons_append, List.nil_append]
      have e : (j : Int) + (EItem.instr ls op md a b k).toP.codeLines = ((j + 1 : Nat) : Int) := by
        simp [EItem.toP, PItem.codeLines, AsmCompose.XItem.codeLines, WItem.toItem, Item.codeLines]
      rw [e, this.1, this.2]
      refine ⟨rfl, ?_⟩
      rw [xinstrCount_cons]
      simp only [AsmLine.XItem.isInstr, if_true]
      omega
    | org kw e k =>
      have := ih hr hpr (ln + 1 + ((EItem.org kw e k).toP.blanks : Int)) j
      simp only [EItem.toX, List.filterMap_cons, Option.toList_some, List.map_cons, List.map_nil,
        xrender, AsmLine.XItem.isInstr, Bool.false_eq_true, if_false, List.cons_append, List.nil_append]
      have e' : (j : Int) + (EItem.org kw e k).toP.codeLines = (j : Int) := by
        simp [EItem.toP, PItem.codeLines, AsmCompose.XItem.codeLines]
      rw [e', this.1, this.2]
      refine ⟨rfl, ?_⟩
      rw [xinstrCount_cons]
      simp [AsmLine.XItem.isInstr]
    | equ n kw e k =>
      have := ih hr hpr (ln + 1 + ((EItem.equ n kw e k).toP.blanks : Int)) j
      simp only [EItem.toX, List.filterMap_cons, Option.toList_some, List.map_cons, List.map_nil,
        xrender, AsmLine.XItem.isInstr, Bool.false_eq_true, if_false, List.cons_append, List.nil_append]
      have e' : (j : Int) + (EItem.equ n kw e k).toP.codeLines = (j : Int) := by
        simp [EItem.toP, PItem.codeLines]
      rw [e', this.1, this.2]
      refine ⟨rfl, ?_⟩
      rw [xinstrCount_cons]
      simp [AsmLine.XItem.isInstr]
    | assert cs e k =>
      have := ih hr hpr (ln + 1 + ((EItem.assert cs e k).toP.blanks : Int)) j
      simp only [EItem.toX, List.filterMap_cons, Option.toList_some, List.map_cons, List.map_nil,
        xrender, AsmLine.XItem.isInstr, Bool.false_eq_true, if_false, List.cons_append, List.nil_append]
      have e' : (j : Int) + (EItem.assert cs e k).toP.codeLines = (j : Int) := by
        simp [EItem.toP, PItem.codeLines, AsmCompose.XItem.codeLines, WItem.toItem, Item.codeLines]
      rw [e', this.1, this.2]
      refine ⟨rfl, ?_⟩
      rw [xinstrCount_cons]
      simp [AsmLine.XItem.isInstr]
    | comment cs k =>
      have := ih hr hpr (ln + 1 + ((EItem.comment cs k).toP.blanks : Int)) j
      simp only [EItem.toX, List.filterMap_cons, Option.toList_none, List.map_nil, List.nil_append]
      have e' : (j : Int) + (EItem.comment cs k).toP.codeLines = (j : Int) := by
        simp [EItem.toP, PItem.codeLines, AsmCompose.XItem.codeLines, WItem.toItem, Item.codeLines]
      rw [e']
      exact this

theorem xrender_append (a b : List AsmLine.XItem) (k : Nat) :
    xrender k (a ++ b) = xrender k a ++ xrender (k + xinstrCount a) b := by
  induction a generalizing k with
  | nil => simp [xrender, xinstrCount]
  | cons it r ih =>
    simp only [List.cons_append, xrender, ih, xinstrCount_cons]
    cases hi : it.isInstr with
    | true =>
      simp only [if_true]
      rw [show k + 1 + xinstrCount r = k + (1 + xinstrCount r) by omega]
    | false =>
      simp only [Bool.false_eq_true, if_false, Nat.zero_add]

/-- **parser output against `xrender`**: for the compiler stage the source lines the parser makes
    of the program are the lines `xrender 0` of its abstract program -/
theorem EProg.norm_lines (p : EProg) (h : p.LexOK) (hp : ∀ it ∈ p.items, it.CommentOK) :
    norm p.toP.lines = xrender 0 p.xitems := by
  simp only [PProg.lines, norm_append, norm_blankLines, List.nil_append, EProg.toP, EProg.xitems,
    xrender_append]
  have := (norm_eitems_lines p.items h.items hp ((1 : Int) + p.lead) 0).1
  simp only [Int.natCast_zero] at this
  rw [this]
  congr 1
  unfold PProg.finLines EProg.finX
  cases hf : p.fin with
  | none => rfl
  | some q =>
    obtain ⟨kw, e⟩ := q
    simp only [Option.map_some, xrender]
    rw [norm_cons_relevant _ _ rfl]
    simp only [norm_nil, List.cons.injEq, and_true]
    cases e with
    | none => rfl
    | some x =>
      simp only [core, endLine, AsmLine.XItem.toLine, Option.map_some, Option.getD_some]
      have hne := ((h.fin kw (some x) hf).2 x rfl).2
      have : (toksOf x).isEmpty = false := by
        cases hx : x with
        | nil => exact absurd hx hne
        | cons _ _ => rfl
      simp [this]

end AsmComposeEqu
end Gmars
