/-
  C03, composition with EQU lines, part 5: the parser-level well-formedness `p.toP.OK` of a source
  program `EProg` from conditions on names.

    * `EProg.names`, `EProg.labels`, `EProg.equNames`, `EItem.NamesOK`
    * `EProg.toP_OK`
-/
import Gmars.Proofs.AsmComposeEquBridge

namespace Gmars
namespace AsmComposeEqu
open Gmars.Render Gmars.AsmLine Gmars.ExprProofs Gmars.AsmCompose

/-! ## names -/

/-- the names an expression mentions -/
def enames (e : List Spec.ETok) : List String :=
  e.filterMap (fun t => match t with | .name s => some s | _ => none)

theorem tokNames_toksOf (e : List Spec.ETok) : tokNames (toksOf e) = enames e := by
  induction e with
  | nil => rfl
  | cons t r ih =>
    unfold tokNames toksOf enames at *
    cases t <;> simp_all [tokOf, textTok, ExprProofs.numTok, opTok, lpTok, rpTok]

/-- the names an item refers to in its expressions (the parser does not read `;assert` lines) -/
def XItemNames : AsmLine.XItem → List String
  | .instr _ _ _ a b => enames a.expr ++ (match b with | some bo => enames bo.expr | none => [])
  | .equ _ _ e => enames e
  | .org _ e => enames e
  | .end_ _ e => match e with | some x => enames x | none => []
  | .assert _ _ => []

/-- the label names of a program, in order -/
def xlabelNames : List AsmLine.XItem → List String
  | [] => []
  | .instr ls _ _ _ _ :: r => ls ++ xlabelNames r
  | .equ _ _ _ :: r => xlabelNames r
  | .org _ _ :: r => xlabelNames r
  | .end_ _ _ :: r => xlabelNames r
  | .assert _ _ :: r => xlabelNames r

theorem xlabelsFrom_names (prog : List AsmLine.XItem) :
    ∀ k, (xlabelsFrom k prog).map (·.1) = xlabelNames prog := by
  induction prog with
  | nil => intro k; rfl
  | cons it r ih =>
    intro k
    cases it with
    | instr ls op md a b =>
      simp only [xlabelsFrom, xlabelNames, List.map_append, List.map_map, ih]
      congr 1
      conv => rhs; rw [← List.map_id ls]
      apply List.map_congr_left
      intro l _; rfl
    | equ kw n e => exact ih k
    | org kw e => exact ih k
    | end_ kw e => exact ih k
    | assert cm e => exact ih k

theorem xlabelNames_append (a b : List AsmLine.XItem) :
    xlabelNames (a ++ b) = xlabelNames a ++ xlabelNames b := by
  induction a with
  | nil => rfl
  | cons it r ih => cases it <;> simp [xlabelNames, ih]

theorem xequs_append (a b : List AsmLine.XItem) : xequs (a ++ b) = xequs a ++ xequs b := by
  induction a with
  | nil => rfl
  | cons it r ih => cases it <;> simp [xequs, ih]

/-- the labels of the program, in order -/
def EProg.labels (p : EProg) : List String := (xlabelsFrom 0 p.xitems).map (·.1)

/-- the EQU names of the program, in order -/
def EProg.equNames (p : EProg) : List String := (xequs p.xitems).map (·.1)

/-- the names the program refers to in operands, EQU bodies, ORG and END -/
def EProg.names (p : EProg) : List String := p.xitems.flatMap XItemNames

theorem EProg.finX_labels (p : EProg) : xlabelNames p.finX = [] := by
  unfold EProg.finX
  cases p.fin with
  | none => rfl
  | some q => rfl

theorem EProg.finX_equs (p : EProg) : xequs p.finX = [] := by
  unfold EProg.finX
  cases p.fin with
  | none => rfl
  | some q => rfl

theorem EProg.labels_eq (p : EProg) : p.labels = xlabelNames (p.items.filterMap EItem.toX) := by
  unfold EProg.labels EProg.xitems
  rw [xlabelsFrom_names, xlabelNames_append, p.finX_labels, List.append_nil]

theorem EProg.equNames_eq (p : EProg) :
    p.equNames = (xequs (p.items.filterMap EItem.toX)).map (·.1) := by
  unfold EProg.equNames EProg.xitems
  rw [xequs_append, p.finX_equs, List.append_nil]

/-! ## conditions on names -/

/-- labels and EQU names are taken for labels by the parser (no opcode, no pseudo-op, no `.`), the
    opcode text is taken for an opcode (an opcode or contains a `.`) and is no pseudo-op -/
def EItem.NamesOK : EItem → Prop
  | .instr ls op md _ _ _ => (∀ p ∈ ls, IsLabelName p.1) ∧ IsOpName (opString op md)
  | .equ n _ _ _ => IsLabelName n
  | _ => True

instance (it : EItem) : Decidable it.NamesOK := by
  cases it <;> simp only [EItem.NamesOK] <;> infer_instance

theorem toksOf_ne_nil' {e : List Spec.ETok} (h : e ≠ []) : toksOf e ≠ [] := by
  cases e with
  | nil => exact absurd rfl h
  | cons x r => simp [toksOf]

theorem EItem.toP_OK {it : EItem} (h : it.LexOK) (hn : it.NamesOK)
    (hkw : ∀ x, it.toX = some x → x.KW) : it.toP.OK := by
  cases it with
  | instr ls op md a b k =>
    refine WItem.toItem_OK (it := .stmt _ k) (xwStmt_ok h) ⟨?_, ?_⟩
    · intro q hq
      simp only [xwStmt, List.mem_map] at hq
      obtain ⟨p, hp, rfl⟩ := hq
      simp only
      rw [identWord_val (h.1 p hp)]
      exact hn.1 p hp
    · simp only [xwStmt]
      rw [identWord_val h.2.1]
      exact hn.2
  | comment cs k => trivial
  | assert cs e k => trivial
  | org kw e k =>
    exact ⟨hkw _ rfl, toksOf_ne_nil' h.2.2, toksOf_exprTerm e h.2.1⟩
  | equ n kw e k =>
    exact ⟨hn, hkw _ rfl, toksOf_ne_nil' h.2.2.2, toksOf_exprTerm e h.2.2.1⟩

/-! ## the parser's symbol table -/

theorem stmt_labelNames {ls : List (String × Bool)} {op : String} {md : Option String} {a : XOperand}
    {b : Option XOperand} (k : Nat) (hl : ∀ p ∈ ls, identOK p.1 = true) :
    ((xwStmt ls op md a b).toStmt k).labelNames = ls.map (·.1) := by
  simp only [Stmt.labelNames, WStmt.toStmt, xwStmt, labels_val ls hl]

/-- the names the parser enters into its symbol table are the labels and the EQU names -/
theorem pitemsLabels_perm (items : List EItem) (h : ∀ it ∈ items, it.LexOK) :
    (pitemsLabels (items.map EItem.toP)).Perm
      (xlabelNames (items.filterMap EItem.toX) ++ (xequs (items.filterMap EItem.toX)).map (·.1)) := by
  induction items with
  | nil => exact List.Perm.refl _
  | cons it r ih =>
    have hr := ih (fun x hx => h x (List.mem_cons_of_mem _ hx))
    have hit := h it (List.mem_cons_self ..)
    cases it with
    | instr ls op md a b k =>
      simp only [List.map_cons, pitemsLabels, EItem.toX, List.filterMap_cons, xlabelNames, xequs,
        EItem.toP, PItem.labelNames, AsmCompose.XItem.labelNames, WItem.toItem, Item.labelNames,
        stmt_labelNames k hit.1, List.append_assoc]
      exact List.Perm.append_left _ hr
    | equ n kw e k =>
      simp only [List.map_cons, pitemsLabels, EItem.toX, List.filterMap_cons, xlabelNames, xequs,
        EItem.toP, PItem.labelNames, List.singleton_append]
      exact (List.Perm.cons n hr).trans List.perm_middle.symm
    | org kw e k =>
      simp only [List.map_cons, pitemsLabels, EItem.toX, List.filterMap_cons, xlabelNames, xequs,
        EItem.toP, PItem.labelNames, AsmCompose.XItem.labelNames, List.nil_append]
      exact hr
    | assert cs e k =>
      simp only [List.map_cons, pitemsLabels, EItem.toX, List.filterMap_cons, xlabelNames, xequs,
        EItem.toP, PItem.labelNames, AsmCompose.XItem.labelNames, WItem.toItem, Item.labelNames,
        List.nil_append]
      exact hr
    | comment cs k =>
      simp only [List.map_cons, pitemsLabels, EItem.toX, List.filterMap_cons,
        EItem.toP, PItem.labelNames, AsmCompose.XItem.labelNames, WItem.toItem, Item.labelNames,
        List.nil_append]
      exact hr

theorem EProg.toP_labels_perm (p : EProg) (h : p.LexOK) :
    p.toP.labels.Perm (p.labels ++ p.equNames) := by
  rw [p.labels_eq, p.equNames_eq]
  exact pitemsLabels_perm p.items h.items

/-! ## references -/

theorem xstmt_refNames (ls : List (String × Bool)) (op : String) (md : Option String) (a : XOperand)
    (b : Option XOperand) (k : Nat) (h : (EItem.instr ls op md a b k).LexOK) :
    ((xwStmt ls op md a b).toStmt k).refNames = XItemNames (.instr (ls.map (·.1)) op md a b) := by
  obtain ⟨_, _, ha, hb⟩ := h
  simp only [Stmt.refNames, WStmt.toStmt, xwStmt, XItemNames]
  have e1 : (xwOperand a).toOperand.toks = toksOf a.expr := by
    simp [xwOperand, WOperand.toOperand, ewords_tok a.expr ha.1]
  rw [e1, tokNames_toksOf]
  congr 1
  cases b with
  | none => rfl
  | some bo =>
    have e2 : (xwOperand bo).toOperand.toks = toksOf bo.expr := by
      simp [xwOperand, WOperand.toOperand, ewords_tok bo.expr (hb bo rfl).1]
    simp only [Option.map_some, e2, tokNames_toksOf]

theorem mem_pitemsRefs (items : List EItem) (h : ∀ it ∈ items, it.LexOK) {x : String} :
    ∀ {refs : List String}, x ∈ pitemsRefs (items.map EItem.toP) refs →
      x ∈ refs ∨ x ∈ (items.filterMap EItem.toX).flatMap XItemNames := by
  induction items with
  | nil => intro refs hx; exact Or.inl hx
  | cons it r ih =>
    intro refs hx
    have hr := fun y hy => h y (List.mem_cons_of_mem _ hy)
    have hit := h it (List.mem_cons_self ..)
    simp only [List.map_cons, pitemsRefs] at hx
    rcases ih hr hx with hx1 | hx2
    · clear hx
      cases it with
      | instr ls op md a b k =>
        simp only [EItem.toP, PItem.refs, AsmCompose.XItem.refs, WItem.toItem, Item.refs] at hx1
        rcases mem_stmt_refs _ hx1 with hx | hx
        · exact Or.inl hx
        · right
          simp only [EItem.toX, List.filterMap_cons, List.flatMap_cons, List.mem_append]
          rw [xstmt_refNames ls op md a b k hit] at hx
          exact Or.inl hx
      | org kw e k =>
        simp only [EItem.toP, PItem.refs, AsmCompose.XItem.refs] at hx1
        rcases mem_addRefs hx1 with hx | hx
        · exact Or.inl hx
        · right
          simp only [EItem.toX, List.filterMap_cons, List.flatMap_cons, List.mem_append]
          rw [tokNames_toksOf] at hx
          exact Or.inl hx
      | equ n kw e k =>
        simp only [EItem.toP, PItem.refs] at hx1
        rcases mem_addRefs hx1 with hx | hx
        · exact Or.inl hx
        · right
          simp only [EItem.toX, List.filterMap_cons, List.flatMap_cons, List.mem_append]
          rw [tokNames_toksOf] at hx
          exact Or.inl hx
      | assert cs e k => exact Or.inl hx1
      | comment cs k => exact Or.inl hx1
    · right
      clear hx
      cases it <;> simp only [EItem.toX, List.filterMap_cons, List.flatMap_cons, List.mem_append] <;>
        first | exact Or.inr hx2 | exact hx2

theorem EProg.toP_refs (p : EProg) (h : p.LexOK) : ∀ x ∈ p.toP.refs, x ∈ p.names := by
  intro x hx
  unfold EProg.names EProg.xitems
  rw [List.flatMap_append, List.mem_append]
  unfold PProg.refs at hx
  unfold EProg.finX
  cases hf : p.fin with
  | none =>
    simp only [EProg.toP, hf, Option.map_none] at hx
    rcases mem_pitemsRefs p.items h.items hx with hx | hx
    · simp at hx
    · exact Or.inl hx
  | some q =>
    obtain ⟨kw, e⟩ := q
    simp only [EProg.toP, hf, Option.map_some] at hx
    rcases mem_addRefs hx with hx | hx
    · rcases mem_pitemsRefs p.items h.items hx with hx | hx
      · simp at hx
      · exact Or.inl hx
    · right
      cases e with
      | none => simp [tokNames] at hx
      | some y =>
        simp only [Option.map_some, Option.getD_some, tokNames_toksOf] at hx
        simpa [XItemNames] using hx

/-! ## parser-level well-formedness -/

structure EProg.NamesOK (p : EProg) : Prop where
  items : ∀ it ∈ p.items, it.NamesOK

theorem EProg.mem_xitems_of_toX (p : EProg) {it : EItem} (hit : it ∈ p.items) {x : AsmLine.XItem}
    (hx : it.toX = some x) : x ∈ p.xitems := by
  unfold EProg.xitems
  exact List.mem_append_left _ (List.mem_filterMap.mpr ⟨it, hit, hx⟩)

/-- **parser stage hypotheses**: lexically well-formed, opcode / label / EQU names right, keywords
    right, every symbol defined once and not predefined, every name referred to is a label, an EQU
    name or a predefined constant -/
theorem EProg.toP_OK (p : EProg) (h : p.LexOK) (hn : p.NamesOK) (hkw : ∀ x ∈ p.xitems, x.KW)
    (hnd : (p.labels ++ p.equNames ++ constNames).Nodup)
    (hcl : ∀ x ∈ p.names, x ∈ p.labels ∨ x ∈ p.equNames ∨ x ∈ constNames) : p.toP.OK where
  items := by
    intro it hit
    simp only [EProg.toP, List.mem_map] at hit
    obtain ⟨s, hs, rfl⟩ := hit
    exact EItem.toP_OK (h.items s hs) (hn.items s hs)
      (fun x hx => hkw x (p.mem_xitems_of_toX hs hx))
  nodup := (p.toP_labels_perm h).nodup_iff.mpr (List.nodup_append.1 hnd).1
  notPredefined := by
    intro l hl hp
    have hl' := (p.toP_labels_perm h).mem_iff.mp hl
    exact (List.nodup_append.1 hnd).2.2 l hl' l hp rfl
  defined := by
    intro x hx
    rcases hcl x (p.toP_refs h x hx) with h1 | h1 | h1
    · exact Or.inl ((p.toP_labels_perm h).mem_iff.mpr (List.mem_append_left _ h1))
    · exact Or.inl ((p.toP_labels_perm h).mem_iff.mpr (List.mem_append_right _ h1))
    · exact Or.inr h1
  fin := by
    intro kw toks hf
    simp only [EProg.toP] at hf
    cases hpf : p.fin with
    | none => rw [hpf] at hf; cases hf
    | some q =>
      obtain ⟨kw', e⟩ := q
      rw [hpf] at hf
      simp only [Option.map_some, Option.some.injEq, Prod.mk.injEq] at hf
      obtain ⟨rfl, rfl⟩ := hf
      have hmem : AsmLine.XItem.end_ kw' e ∈ p.xitems := by
        unfold EProg.xitems EProg.finX
        rw [hpf]
        exact List.mem_append_right _ (List.mem_singleton.mpr rfl)
      refine ⟨(hkw _ hmem).1, ?_, by simp [EProg.toP]⟩
      cases e with
      | none => intro t ht; simp at ht
      | some x => exact toksOf_exprTerm x (((h.fin _ _ hpf).2 x rfl).1)

end AsmComposeEqu
end Gmars
