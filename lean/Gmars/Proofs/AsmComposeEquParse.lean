/-
  C03, composition with EQU lines, part 1: the parser stage on programs with EQU lines.

  Extends `Gmars/Proofs/AsmComposeParse.lean` (instruction statements, comment lines, blank lines,
  ORG lines, a final END line) by the lines `name equ expr`: the parser records the name as a
  label of a pseudo-op line (so it must be new, like a label), notes the references of the
  expression, and carries on.

    * `PItem`, `PProg`, `PProg.tokens`, `PProg.lines`, `PProg.OK`
    * `parse_pprog` : `parse p.tokens = .ok (some (p.lines, p.metadata))`
-/
import Gmars.Proofs.AsmComposeParse

namespace Gmars
namespace AsmComposeEqu
open Gmars.Parser Gmars.Render Gmars.AsmCompose

/-! ### EQU lines -/

theorem isPseudoOp_equ {kw : String} (hk : lowerStr kw = "equ") :
    (⟨.text, kw⟩ : Token).isPseudoOp = true := by
  unfold Token.isPseudoOp
  simp only [hk]

/-- `parsePseudoOp` on a keyword that is not `end`, an expression following -/
theorem step_pseudoOp_expr (c : Ctx) (kw : String) (hk : (lowerStr kw == "end") = false) (t : Token)
    (ht : t.isExpressionTerm = true) (rest : List Token) :
    step .pseudoOp (c.st ⟨.text, kw⟩ (t :: rest)) =
      .ok (({ c with cur := { c.cur with op := kw, typ := .pseudoOp } } : Ctx).st t rest,
           some .pseudoExpr) := by
  simp [step, Ctx.st, advance, next, ht, hk]

/-- the source line of `name kw toks` at line `ln` -/
def equLine (ln : Int) (name kw : String) (toks : List Token) : SourceLine :=
  { line := ln, typ := .pseudoOp, labels := [name], op := kw, a := some toks, newlines := 1 }

/-- `name kw toks \n` and `k` further newlines, at the start of a line -/
theorem reach_equ (name kw : String) (hl : IsLabelName name) (hk : lowerStr kw = "equ")
    (toks : List Token) (hne : toks ≠ []) (hts : ∀ t ∈ toks, t.isExpressionTerm = true) (k : Nat)
    (c : Ctx) (hs : c.symbols.contains name = false)
    (t' : Token) (ht' : (t'.typ == TokType.newline) = false) (rest' : List Token)
    (t0 : Token) (rest0 : List Token)
    (h : t0 :: rest0 = (⟨.text, name⟩ : Token) :: (⟨.text, kw⟩ : Token) ::
      (toks ++ nlTok :: List.replicate k nlTok) ++ t' :: rest') :
    ∃ cur', ReachLe (8 * (toks.length + k + 3)) .line (c.st t0 rest0) .line
      (({ line := c.line + 1 + k, codeLine := c.codeLine, cur := cur',
          metadata := c.metadata,
          lines := c.lines ++ equLine c.line name kw toks :: blankLines (c.line + 1) k,
          symbols := name :: c.symbols, references := addRefs toks c.references } : Ctx).st t' rest') := by
  simp only [List.cons_append, List.cons.injEq, List.append_assoc] at h
  obtain ⟨rfl, rfl⟩ := h
  obtain ⟨t1, ts1, rfl⟩ : ∃ t1 ts1, toks = t1 :: ts1 := by
    cases toks with
    | nil => exact absurd rfl hne
    | cons a b => exact ⟨a, b, rfl⟩
  obtain ⟨t'', rest'', h''⟩ : ∃ t'' rest'', t'' :: rest'' = List.replicate k nlTok ++ t' :: rest' := by
    cases k <;> simp [List.replicate_succ]
  rw [← h'']
  have hpo := isPseudoOp_equ hk
  have hke : (lowerStr kw == "end") = false := by rw [hk]; decide
  have h1 := ReachLe.one (step_line_text c name
    ((⟨.text, kw⟩ : Token) :: (t1 :: ts1 ++ nlTok :: t'' :: rest'')))
  have h2 := h1.trans (ReachLe.one (step_labels_label ({ c with cur := { line := c.line } } : Ctx)
    name hl hs (⟨.text, kw⟩ : Token) _))
  have h3 := h2.trans (ReachLe.one (step_labels_pseudo _ kw hpo _))
  have h4 := h3.trans (ReachLe.one (step_pseudoOp_expr _ kw hke t1 (hts t1 (by simp)) _))
  have h5 := h4.trans (ReachLe.one (step_pseudoExpr_newline _ (t1 :: ts1) hts t'' rest'' t1
    (ts1 ++ nlTok :: t'' :: rest'') (by simp)))
  obtain ⟨cur', h6⟩ := reach_blanks _ k t' ht' rest' t'' rest'' h''
  refine ⟨cur', (h5.trans h6).mono' ?_ (by simp; omega)⟩
  simp [equLine]

/-! ### items -/

/-- an item of `AsmComposeParse` (statement, comment line, ORG line) or an EQU line -/
inductive PItem
  | x (it : XItem)
  | equ (name kw : String) (toks : List Token) (blanks : Nat)

def PItem.tokens : PItem → List Token
  | .x it => it.tokens
  | .equ name kw toks k =>
    (⟨.text, name⟩ : Token) :: (⟨.text, kw⟩ : Token) :: (toks ++ nlTok :: List.replicate k nlTok)

def PItem.OK : PItem → Prop
  | .x it => it.OK
  | .equ name kw toks _ =>
    IsLabelName name ∧ lowerStr kw = "equ" ∧ toks ≠ [] ∧ ∀ t ∈ toks, t.isExpressionTerm = true

def PItem.lines : PItem → Int → Int → List SourceLine
  | .x it, ln, cl => it.lines ln cl
  | .equ name kw toks k, ln, _ => equLine ln name kw toks :: blankLines (ln + 1) k

def PItem.blanks : PItem → Nat
  | .x it => it.blanks
  | .equ _ _ _ k => k

def PItem.codeLines : PItem → Int
  | .x it => it.codeLines
  | .equ _ _ _ _ => 0

def PItem.labelNames : PItem → List String
  | .x it => it.labelNames
  | .equ name _ _ _ => [name]

def PItem.refs : PItem → List String → List String
  | .x it, refs => it.refs refs
  | .equ _ _ toks _, refs => addRefs toks refs

def PItem.metadata : PItem → AsmMeta → AsmMeta
  | .x it, m => it.metadata m
  | .equ _ _ _ _, m => m

theorem reach_pitem (it : PItem) (hok : it.OK) (c : Ctx) (hf : FreshLabels it.labelNames c.symbols)
    (t' : Token) (ht' : (t'.typ == TokType.newline) = false) (rest' : List Token)
    (t0 : Token) (rest0 : List Token) (h : t0 :: rest0 = it.tokens ++ t' :: rest') :
    ∃ cur', ReachLe (8 * it.tokens.length) .line (c.st t0 rest0) .line
      (({ line := c.line + 1 + it.blanks, codeLine := c.codeLine + it.codeLines, cur := cur',
          metadata := it.metadata c.metadata, lines := c.lines ++ it.lines c.line c.codeLine,
          symbols := it.labelNames.reverse ++ c.symbols,
          references := it.refs c.references } : Ctx).st t' rest') := by
  cases it with
  | x it => exact reach_xitem it hok c hf t' ht' rest' t0 rest0 h
  | equ name kw toks k =>
    obtain ⟨hl, hk, hne, hts⟩ := hok
    obtain ⟨cur', h1⟩ := reach_equ name kw hl hk toks hne hts k c hf.1 t' ht' rest' t0 rest0 h
    refine ⟨cur', h1.mono' ?_ (by simp [PItem.tokens]; omega)⟩
    simp [PItem.lines, PItem.blanks, PItem.codeLines, PItem.metadata, PItem.labelNames, PItem.refs]

def pitemsTokens : List PItem → List Token
  | [] => []
  | it :: r => it.tokens ++ pitemsTokens r

def pitemsLines : List PItem → Int → Int → List SourceLine
  | [], _, _ => []
  | it :: r, ln, cl => it.lines ln cl ++ pitemsLines r (ln + 1 + it.blanks) (cl + it.codeLines)

def pitemsLabels : List PItem → List String
  | [] => []
  | it :: r => it.labelNames ++ pitemsLabels r

def pitemsRefs : List PItem → List String → List String
  | [], refs => refs
  | it :: r, refs => pitemsRefs r (it.refs refs)

def pitemsMeta : List PItem → AsmMeta → AsmMeta
  | [], m => m
  | it :: r, m => pitemsMeta r (it.metadata m)

def pitemsEndLine : List PItem → Int → Int
  | [], ln => ln
  | it :: r, ln => pitemsEndLine r (ln + 1 + it.blanks)

def pitemsEndCode : List PItem → Int → Int
  | [], cl => cl
  | it :: r, cl => pitemsEndCode r (cl + it.codeLines)

/-- every item starts with a token that is not a newline -/
theorem pitem_tokens_head (it : PItem) (r : List Token) :
    ∃ t1 rest1, it.tokens ++ r = t1 :: rest1 ∧ (t1.typ == TokType.newline) = false := by
  cases it with
  | x it => exact xitem_tokens_head it r
  | equ name kw toks k => exact ⟨_, _, by simp [PItem.tokens]; exact ⟨rfl, rfl⟩, rfl⟩

theorem reach_pitems (t' : Token) (ht' : (t'.typ == TokType.newline) = false) (rest' : List Token) :
    ∀ (items : List PItem) (c : Ctx) (t0 : Token) (rest0 : List Token),
      (∀ it ∈ items, it.OK) → FreshLabels (pitemsLabels items) c.symbols →
      t0 :: rest0 = pitemsTokens items ++ t' :: rest' →
      ∃ cur', ReachLe (8 * (pitemsTokens items).length) .line (c.st t0 rest0) .line
        (({ line := pitemsEndLine items c.line, codeLine := pitemsEndCode items c.codeLine, cur := cur',
            metadata := pitemsMeta items c.metadata,
            lines := c.lines ++ pitemsLines items c.line c.codeLine,
            symbols := (pitemsLabels items).reverse ++ c.symbols,
            references := pitemsRefs items c.references } : Ctx).st t' rest') := by
  intro items
  induction items with
  | nil =>
    intro c t0 rest0 _ _ h
    simp [pitemsTokens] at h; obtain ⟨rfl, rfl⟩ := h
    exact ⟨c.cur, by
      simpa [pitemsTokens, pitemsEndLine, pitemsEndCode, pitemsMeta, pitemsLines, pitemsLabels,
        pitemsRefs] using ReachLe.refl .line (c.st t0 rest0)⟩
  | cons it items ih =>
    intro c t0 rest0 hok hf h
    simp only [pitemsLabels, FreshLabels_append] at hf
    simp only [pitemsTokens, List.append_assoc] at h
    obtain ⟨t1, rest1, h1, ht1⟩ : ∃ t1 rest1, t1 :: rest1 = pitemsTokens items ++ t' :: rest' ∧
        (t1.typ == TokType.newline) = false := by
      cases items with
      | nil => exact ⟨t', rest', by simp [pitemsTokens], ht'⟩
      | cons it' items' =>
        obtain ⟨t1, rest1, e, ht1⟩ := pitem_tokens_head it' (pitemsTokens items' ++ t' :: rest')
        exact ⟨t1, rest1, by simp only [pitemsTokens, List.append_assoc]; exact e.symm, ht1⟩
    rw [← h1] at h
    obtain ⟨cur1, r1⟩ := reach_pitem it (hok it (by simp)) c hf.1 t1 ht1 rest1 t0 rest0 h
    obtain ⟨cur2, r2⟩ := ih
      ({ line := c.line + 1 + it.blanks, codeLine := c.codeLine + it.codeLines, cur := cur1,
         metadata := it.metadata c.metadata, lines := c.lines ++ it.lines c.line c.codeLine,
         symbols := it.labelNames.reverse ++ c.symbols,
         references := it.refs c.references } : Ctx)
      t1 rest1 (fun x hx => hok x (by simp [hx])) hf.2 h1
    refine ⟨cur2, (r1.trans r2).mono' ?_ (by simp [pitemsTokens]; omega)⟩
    simp [pitemsEndLine, pitemsEndCode, pitemsMeta, pitemsLines, pitemsLabels, pitemsRefs]

/-! ### programs -/

/-- `lead` blank lines, the items, and either the end of the input or an END line `kw [toks]`
    followed, after its newline, by `trail` (not empty: at least the EOF token; never read) -/
structure PProg where
  lead : Nat := 0
  items : List PItem
  fin : Option (String × List Token) := none
  trail : List Token := [eofTok]

def PProg.finTokens (p : PProg) : List Token :=
  match p.fin with
  | none => [eofTok]
  | some (kw, toks) => (⟨.text, kw⟩ : Token) :: (toks ++ nlTok :: p.trail)

/-- token rendering of the program -/
def PProg.tokens (p : PProg) : List Token :=
  List.replicate p.lead nlTok ++ (pitemsTokens p.items ++ p.finTokens)

/-- the names the parser enters into its symbol table: labels AND EQU names -/
def PProg.labels (p : PProg) : List String := pitemsLabels p.items

def PProg.finLines (p : PProg) : List SourceLine :=
  match p.fin with
  | none => []
  | some (kw, toks) => [endLine (pitemsEndLine p.items (1 + p.lead)) kw toks]

/-- the source lines the program denotes -/
def PProg.lines (p : PProg) : List SourceLine :=
  blankLines 1 p.lead ++ (pitemsLines p.items (1 + p.lead) 0 ++ p.finLines)

def PProg.metadata (p : PProg) : AsmMeta := pitemsMeta p.items {}

def PProg.refs (p : PProg) : List String :=
  match p.fin with
  | none => pitemsRefs p.items []
  | some (_, toks) => addRefs toks (pitemsRefs p.items [])

structure PProg.OK (p : PProg) : Prop where
  items : ∀ it ∈ p.items, it.OK
  nodup : p.labels.Nodup
  notPredefined : ∀ l ∈ p.labels, l ∉ predefined
  /-- every name referred to is a label or an EQU name of the program, or predefined -/
  defined : ∀ x ∈ p.refs, x ∈ p.labels ∨ x ∈ predefined
  fin : ∀ kw toks, p.fin = some (kw, toks) →
    lowerStr kw = "end" ∧ (∀ t ∈ toks, t.isExpressionTerm = true) ∧ p.trail ≠ []

/-- **the parser on programs with EQU lines, ORG lines and a final END line** -/
theorem parse_pprog (p : PProg) (hp : p.OK) :
    parse p.tokens = .ok (some (p.lines, p.metadata)) := by
  obtain ⟨lead, items, fin, trail⟩ := p
  have hfresh : FreshLabels (pitemsLabels items) predefined :=
    (FreshLabels_iff _ _).mpr ⟨hp.nodup, hp.notPredefined⟩
  -- the first token after the items
  obtain ⟨tf, restf, hfin, htf⟩ : ∃ tf restf, PProg.finTokens ⟨lead, items, fin, trail⟩ = tf :: restf ∧
      (tf.typ == TokType.newline) = false := by
    cases fin with
    | none => exact ⟨eofTok, [], rfl, rfl⟩
    | some kt => obtain ⟨kw, toks⟩ := kt; exact ⟨_, _, rfl, rfl⟩
  obtain ⟨t1, rest1, h1, ht1⟩ : ∃ t1 rest1, t1 :: rest1 = pitemsTokens items ++ tf :: restf ∧
      (t1.typ == TokType.newline) = false := by
    cases items with
    | nil => exact ⟨tf, restf, by simp [pitemsTokens], htf⟩
    | cons it' items' =>
      obtain ⟨t1, rest1, e, ht1⟩ := pitem_tokens_head it' (pitemsTokens items' ++ tf :: restf)
      exact ⟨t1, rest1, by simp only [pitemsTokens, List.append_assoc]; exact e.symm, ht1⟩
  obtain ⟨t0, rest0, h0⟩ : ∃ t0 rest0, t0 :: rest0 = List.replicate lead nlTok ++ t1 :: rest1 := by
    cases lead <;> simp [List.replicate_succ]
  have htoks : PProg.tokens ⟨lead, items, fin, trail⟩ = t0 :: rest0 := by
    simp only [PProg.tokens]; rw [hfin, h0, h1]
  obtain ⟨cur1, r1⟩ := reach_blanks ({} : Ctx) lead t1 ht1 rest1 t0 rest0 h0
  obtain ⟨cur2, r2⟩ := reach_pitems tf htf restf items
    ({ line := (1 : Int) + lead, cur := cur1, lines := [] ++ blankLines 1 lead } : Ctx)
    t1 rest1 hp.items hfresh h1
  have r12 := r1.trans r2
  have hlen : (PProg.tokens ⟨lead, items, fin, trail⟩).length =
      lead + ((pitemsTokens items).length + (restf.length + 1)) := by
    simp [PProg.tokens, hfin]
  cases fin with
  | none =>
    simp only [PProg.finTokens, List.cons.injEq] at hfin
    obtain ⟨rfl, rfl⟩ := hfin
    have hrun := r12.finish (step_line_eof _ _)
      (fuel := runFuel (PProg.tokens ⟨lead, items, none, trail⟩)) (by simp only [runFuel, hlen]; omega)
    simp only [parse, htoks, newParser_cons]
    rw [← htoks, hrun]
    have hv : symbolsValid (Ctx.st
        { line := pitemsEndLine items ((1 : Int) + lead),
          codeLine := pitemsEndCode items 0, cur := { line := pitemsEndLine items ((1 : Int) + lead) },
          metadata := pitemsMeta items {},
          lines := [] ++ blankLines 1 lead ++ pitemsLines items ((1 : Int) + lead) 0,
          symbols := (pitemsLabels items).reverse ++ predefined,
          references := pitemsRefs items [] } eofTok []) = true := by
      apply symbolsValid_of (refs := pitemsRefs items []) (syms := (pitemsLabels items).reverse ++ predefined)
      · intro x hx
        rcases hp.defined x hx with h | h
        · simp [PProg.labels] at h; simp [h]
        · simp [h]
      · rfl
      · rfl
    have hv' := hv
    simp only [predefined] at hv'
    simp [bind, Except.bind, pure, Except.pure, Ctx.st, PProg.lines, PProg.metadata, PProg.finLines] at hv' ⊢
    exact hv'
  | some kt =>
    obtain ⟨kw, toks⟩ := kt
    obtain ⟨hk, hts, htr⟩ := hp.fin kw toks rfl
    obtain ⟨t'', rest'', rfl⟩ : ∃ t'' rest'', trail = t'' :: rest'' := by
      cases trail with
      | nil => exact absurd rfl htr
      | cons a b => exact ⟨a, b, rfl⟩
    have hend := run_end kw hk toks hts
        ({ line := pitemsEndLine items ((1 : Int) + lead),
            codeLine := pitemsEndCode items 0, cur := cur2,
            metadata := pitemsMeta items {},
            lines := [] ++ blankLines 1 lead ++ pitemsLines items ((1 : Int) + lead) 0,
            symbols := (pitemsLabels items).reverse ++ predefined,
            references := pitemsRefs items [] } : Ctx) t'' rest'' tf restf hfin.symm
    have hlen' : restf.length = toks.length + (rest''.length + 2) := by
      simp only [PProg.finTokens, List.cons.injEq] at hfin
      rw [← hfin.2]; simp
    have hrun := r12.finish_run hend
      (fuel := runFuel (PProg.tokens ⟨lead, items, some (kw, toks), t'' :: rest''⟩))
      (by simp only [runFuel, hlen]; omega)
    simp only [parse, htoks, newParser_cons]
    rw [← htoks, hrun]
    have hv : symbolsValid (withEnd (Ctx.st
        { line := pitemsEndLine items ((1 : Int) + lead) + 1,
          codeLine := pitemsEndCode items 0,
          cur := endLine (pitemsEndLine items ((1 : Int) + lead)) kw toks,
          metadata := pitemsMeta items {},
          lines := ([] ++ blankLines 1 lead ++ pitemsLines items ((1 : Int) + lead) 0) ++
              [endLine (pitemsEndLine items ((1 : Int) + lead)) kw toks],
          symbols := (pitemsLabels items).reverse ++ predefined,
          references := addRefs toks (pitemsRefs items []) } t'' rest'')) = true := by
      apply symbolsValid_of (refs := addRefs toks (pitemsRefs items []))
        (syms := (pitemsLabels items).reverse ++ predefined)
      · intro x hx
        rcases hp.defined x hx with h | h
        · simp [PProg.labels] at h; simp [h]
        · simp [h]
      · rfl
      · rfl
    have hv' := hv
    simp only [predefined] at hv'
    simp [bind, Except.bind, pure, Except.pure, Ctx.st, withEnd, PProg.lines, PProg.metadata,
      PProg.finLines] at hv' ⊢
    exact hv'

end AsmComposeEqu
end Gmars
