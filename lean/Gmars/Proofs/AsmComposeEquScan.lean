/-
  C03, composition with EQU lines, part 2: the symbol scanner (`scanInput`, the pre-scan of the FOR
  pass loop, which runs on EVERY input) on FOR-free programs with EQU lines.

  The scanner records the EQU lines `name equ value` it finds at the start of a line and reports
  the error "symbol redefined" when a name is defined by two EQU lines.  It does not look at
  labels of instructions (`x equ 5 / x dat x` passes the scanner; the parser rejects it).

    * `scan_pprog`      : on the token stream of a parser-level program `PProg` whose EQU names are
                          pairwise distinct the scanner returns the EQU table and `forSeen = false`
    * `assemble_stages_pprog` : so `CompileWarrior` = parser + compiler stage on the token stream

  This is the EQU-aware companion of `ForPass.scan_noForTok` / `AsmCompose.scan_noEquTok`; other
  than the line form `ForPass.scan_forFree` it also covers labels followed by a colon.
-/
import Gmars.Proofs.AsmComposeEquParse
import Gmars.Proofs.AsmComposeStages

namespace Gmars
namespace AsmComposeEqu
open Gmars.Render Gmars.AsmCompose Gmars.ForPass Gmars.Scan

/-! ### tokens inside a line -/

theorem inLine_of_exprTerm {t : Token} (h : t.isExpressionTerm = true) : InLine t := by
  simp only [Token.isExpressionTerm, Bool.or_eq_true, beq_iff_eq] at h
  unfold InLine
  rcases h with (((h | h) | h) | h) | h <;> simp [h]

theorem inLine_text (s : String) : InLine (⟨.text, s⟩ : Token) := by
  unfold InLine; simp

theorem inLine_symbol (s : String) : InLine (⟨.symbol, s⟩ : Token) := by
  unfold InLine; simp

theorem inLine_colon : InLine colonTok := by
  unfold InLine colonTok; simp

theorem inLine_comma : InLine commaTok := by
  unfold InLine commaTok; simp

theorem inLine_labelTokens (ls : List (String × Bool)) : ∀ t ∈ labelTokens ls, InLine t := by
  induction ls with
  | nil => intro t ht; cases ht
  | cons lc r ih =>
    obtain ⟨l, c⟩ := lc
    intro t ht
    simp only [labelTokens, List.mem_cons, List.mem_append] at ht
    rcases ht with rfl | ht | ht
    · exact inLine_text l
    · cases c
      · simp at ht
      · simp only [if_true, List.mem_singleton] at ht
        subst ht; exact inLine_colon
    · exact ih t ht

theorem inLine_operand (o : Operand) (strict : Bool) (h : o.OK strict) : ∀ t ∈ o.tokens, InLine t := by
  intro t ht
  simp only [Operand.tokens, List.mem_append] at ht
  rcases ht with ht | ht
  · cases hm : o.mode with
    | none => rw [hm] at ht; simp at ht
    | some m =>
      rw [hm] at ht
      simp only [List.mem_singleton] at ht
      subst ht; exact inLine_symbol m
  · exact inLine_of_exprTerm (h.1 t ht)

/-- the tokens of a statement behind the opcode, without the newline -/
def stmtArgs (s : Stmt) : List Token := s.a.tokens ++ s.bTokens

theorem inLine_stmtArgs (s : Stmt) (hs : s.OK) : ∀ t ∈ stmtArgs s, InLine t := by
  intro t ht
  simp only [stmtArgs, List.mem_append] at ht
  rcases ht with ht | ht
  · exact inLine_operand s.a true hs.2.2.1 t ht
  · unfold Stmt.bTokens at ht
    cases hb : s.b with
    | none => rw [hb] at ht; cases ht
    | some bo =>
      rw [hb] at ht
      rcases List.mem_cons.1 ht with rfl | ht
      · exact inLine_comma
      · exact inLine_operand bo false (hs.2.2.2 bo hb) t ht

theorem isLabelTok_of_name {l : String} (h : IsLabelName l) : isLabelTok (⟨.text, l⟩ : Token) = true := by
  have h' : (⟨.text, l⟩ : Token).isOp = false := h
  simp [isLabelTok, h']

/-! ### one line at a time -/

theorem nlTok_typ : nlTok.typ = .newline := rfl

/-- a blank line -/
theorem runScan_nl (rest : List Token) (syms : SymTab) :
    runScan (nlTok :: rest) syms = runScan rest syms := by
  have := runScan_skipLine ⟨[], nlTok⟩ rest syms ⟨rfl, fun t ht => by cases ht⟩
    (Or.inl (fun x hx => by cases hx))
  simpa [Line.flat] using this

theorem runScan_nls (k : Nat) (rest : List Token) (syms : SymTab) :
    runScan (List.replicate k nlTok ++ rest) syms = runScan rest syms := by
  induction k with
  | zero => rfl
  | succ k ih => rw [List.replicate_succ, List.cons_append, runScan_nl, ih]

/-- a comment line -/
theorem runScan_commentLine (v : String) (rest : List Token) (syms : SymTab) :
    runScan ((⟨.comment, v⟩ : Token) :: nlTok :: rest) syms = runScan rest syms := by
  have := runScan_skipLine ⟨[(⟨.comment, v⟩ : Token)], nlTok⟩ rest syms
    ⟨rfl, fun t ht => by
      simp only [List.mem_singleton] at ht; subst ht; unfold InLine; simp⟩
    (Or.inl (fun x hx => by
      simp only [List.head?_cons, Option.mem_def, Option.some.injEq] at hx
      subst hx; simp))
  simpa [Line.flat] using this

/-- after a label a colon: the scanner goes on reading labels (as the parser and the FOR
    expander do) -/
theorem slab_colon (t : Token) (r : List Token) (lb : List String) (syms : SymTab)
    (ht : t.typ ≠ .eof) :
    scanLabels colonTok (t :: r) lb syms = scanLabels t r lb syms := by
  rw [scanLabels.eq_def]
  simp [colonTok, ht]

/-- an instruction line: labels (each optionally followed by a colon), the opcode, the operands -/
theorem runSLab_stmt (op : String) (hop : IsOpName op) (args : List Token)
    (ha : ∀ t ∈ args, InLine t) (rest : List Token) (syms : SymTab) :
    ∀ (ls : List (String × Bool)) (lb : List String), (∀ l ∈ ls, IsLabelName l.1) →
      runSLab (labelTokens ls ++ (⟨.text, op⟩ : Token) :: (args ++ nlTok :: rest)) lb syms =
        runScan rest syms := by
  intro ls
  induction ls with
  | nil =>
    intro lb _
    simp only [labelTokens, List.nil_append, runSLab]
    rw [slab_op _ _ _ _ rfl hop.2 hop.1]
    have := runSCL_line ((⟨.text, op⟩ : Token) :: args) nlTok rest syms
      (fun x hx => by
        rcases List.mem_cons.1 hx with rfl | hx
        · exact inLine_text op
        · exact ha x hx) rfl
    simpa [runSCL] using this
  | cons lc r ih =>
    obtain ⟨l, c⟩ := lc
    intro lb hl
    have hl0 : IsLabelName l := hl (l, c) (by simp)
    have hr : ∀ x ∈ r, IsLabelName x.1 := fun x hx => hl x (by simp [hx])
    cases c with
    | false =>
      obtain ⟨x, xs, hx, hxm⟩ := exists_cons' (labelTokens r) (⟨.text, op⟩ : Token)
        (args ++ nlTok :: rest)
      have hxe : x.typ ≠ .eof := by
        rcases hxm with rfl | hxm
        · simp
        · exact (inLine_labelTokens r x hxm).2.1
      have hrec := ih (lb ++ [l]) hr
      simp only [labelTokens, Bool.false_eq_true, if_false, List.nil_append, List.cons_append]
      rw [hx] at hrec ⊢
      rw [runSLab, slab_label _ _ _ _ _ (isLabelTok_of_name hl0) hxe]
      exact hrec
    | true =>
      obtain ⟨x, xs, hx, hxm⟩ := exists_cons' (labelTokens r) (⟨.text, op⟩ : Token)
        (args ++ nlTok :: rest)
      have hxe : x.typ ≠ .eof := by
        rcases hxm with rfl | hxm
        · simp
        · exact (inLine_labelTokens r x hxm).2.1
      have hrec := ih (lb ++ [l]) hr
      simp only [labelTokens, if_true, List.cons_append, List.nil_append]
      rw [hx] at hrec ⊢
      rw [runSLab, slab_label _ _ _ _ _ (isLabelTok_of_name hl0) (by simp [colonTok]),
        slab_colon _ _ _ _ hxe]
      exact hrec

theorem stmt_tokens_eq (s : Stmt) (rest : List Token) :
    s.tokens ++ rest =
      labelTokens s.labels ++ (⟨.text, s.op⟩ : Token) ::
        (stmtArgs s ++ nlTok :: (List.replicate s.blanks nlTok ++ rest)) := by
  simp [Stmt.tokens, stmtArgs]

theorem runScan_stmt (s : Stmt) (hs : s.OK) (rest : List Token) (syms : SymTab) :
    runScan (s.tokens ++ rest) syms = runScan rest syms := by
  rw [stmt_tokens_eq]
  have h := runSLab_stmt s.op hs.2.1 (stmtArgs s) (inLine_stmtArgs s hs)
    (List.replicate s.blanks nlTok ++ rest) syms s.labels [] hs.1
  rw [runScan_nls] at h
  obtain ⟨x, xs, hx, hxm⟩ := exists_cons' (labelTokens s.labels) (⟨.text, s.op⟩ : Token)
    (stmtArgs s ++ nlTok :: (List.replicate s.blanks nlTok ++ rest))
  have hxt : x.typ = .text := by
    rcases hxm with rfl | hxm
    · rfl
    · cases hl : s.labels with
      | nil => rw [hl] at hxm; cases hxm
      | cons lc r =>
        obtain ⟨l, c⟩ := lc
        rw [hl] at hx
        simp only [labelTokens, List.cons_append, List.cons.injEq] at hx
        rw [← hx.1]
  rw [hx] at h ⊢
  rw [runScan_cons _ _ _ (by rw [hxt]; simp), scanLine, if_pos (by simp [hxt])]
  exact h

/-- an ORG line -/
theorem runScan_orgLine (kw : String) (hk : lowerStr kw = "org") (toks : List Token)
    (hts : ∀ t ∈ toks, InLine t) (rest : List Token) (syms : SymTab) :
    runScan ((⟨.text, kw⟩ : Token) :: (toks ++ nlTok :: rest)) syms = runScan rest syms := by
  have hp : (⟨.text, kw⟩ : Token).isPseudoOp = true := isPseudoOp_of_lower hk (Or.inl rfl)
  rw [runScan_cons _ _ _ (by simp), scanLine, if_pos (by simp),
    slab_pseudo _ _ _ _ rfl hp (by simp only [hk]; decide) (by simp only [hk]; decide)
      (by simp only [hk]; decide)]
  have := runSCL_line ((⟨.text, kw⟩ : Token) :: toks) nlTok rest syms
    (fun x hx => by
      rcases List.mem_cons.1 hx with rfl | hx
      · exact inLine_text kw
      · exact hts x hx) rfl
  simpa [runSCL] using this

theorem filter_noComment (v : List Token) (h : ∀ t ∈ v, t.isExpressionTerm = true) :
    v.filter (fun t => t.typ != .comment) = v := by
  rw [List.filter_eq_self]
  intro t ht
  have := h t ht
  simp only [Token.isExpressionTerm, Bool.or_eq_true, beq_iff_eq] at this
  rcases this with (((h | h) | h) | h) | h <;> simp [h]

/-- an EQU line `name equ value`, the name not yet in the table -/
theorem runScan_equLine' (name kw : String) (hl : IsLabelName name) (hk : lowerStr kw = "equ")
    (toks : List Token) (hts : ∀ t ∈ toks, t.isExpressionTerm = true) (rest : List Token)
    (syms : SymTab) (hn : name ∉ syms.map (·.1)) :
    runScan ((⟨.text, name⟩ : Token) :: (⟨.text, kw⟩ : Token) :: (toks ++ nlTok :: rest)) syms =
      runScan rest (syms ++ [(name, toks)]) := by
  have h := runScan_equLine [(⟨.text, name⟩ : Token)] (⟨.text, kw⟩ : Token) toks nlTok rest syms
    (fun x hx => by
      simp only [List.mem_singleton] at hx; subst hx; exact isLabelTok_of_name hl)
    rfl hk (fun x hx => inLine_of_exprTerm (hts x hx)) rfl
  simp only [List.cons_append, List.nil_append, List.map_cons, List.map_nil] at h
  rw [h, filter_noComment toks hts]
  have hhas : syms.has name = false := by
    unfold SymTab.has
    have : syms.find? (·.1 == name) = none := by
      rw [List.find?_eq_none]
      intro x hx hb
      have : x.1 = name := by simpa using hb
      exact hn (this ▸ List.mem_map_of_mem hx)
    rw [this]; rfl
  have hset : syms.set name toks = syms ++ [(name, toks)] := by
    unfold SymTab.set
    rw [hhas]; rfl
  unfold afterDefine
  simp only [define, hhas, Bool.false_eq_true, if_false, hset]

/-! ### items -/

/-- the EQU table of the program, as the scanner builds it -/
def pitemsEqus : List PItem → SymTab
  | [] => []
  | .equ name _ toks _ :: r => (name, toks) :: pitemsEqus r
  | .x _ :: r => pitemsEqus r

theorem runScan_pitem (it : PItem) (hok : it.OK) (rest : List Token) (syms : SymTab)
    (hn : ∀ x ∈ (pitemsEqus [it]).map (·.1), x ∉ syms.map (·.1)) :
    runScan (it.tokens ++ rest) syms = runScan rest (syms ++ pitemsEqus [it]) := by
  cases it with
  | x it =>
    simp only [pitemsEqus, List.append_nil, PItem.tokens]
    cases it with
    | base it =>
      cases it with
      | stmt s => exact runScan_stmt s hok rest syms
      | comment v k =>
        simp only [XItem.tokens, Item.tokens, List.cons_append]
        rw [runScan_commentLine, runScan_nls]
    | org kw toks k =>
      obtain ⟨hk, _, hts⟩ := hok
      simp only [XItem.tokens, List.cons_append, List.append_assoc]
      rw [runScan_orgLine kw hk toks (fun t ht => inLine_of_exprTerm (hts t ht)), runScan_nls]
  | equ name kw toks k =>
    obtain ⟨hl, hk, _, hts⟩ := hok
    simp only [PItem.tokens, List.cons_append, List.append_assoc, pitemsEqus]
    rw [runScan_equLine' name kw hl hk toks hts _ syms (hn name (by simp [pitemsEqus])), runScan_nls]

theorem pitemsEqus_cons (it : PItem) (r : List PItem) :
    pitemsEqus (it :: r) = pitemsEqus [it] ++ pitemsEqus r := by
  cases it <;> rfl

theorem runScan_pitems (rest : List Token) :
    ∀ (items : List PItem) (syms : SymTab), (∀ it ∈ items, it.OK) →
      (syms.map (·.1) ++ (pitemsEqus items).map (·.1)).Nodup →
      runScan (pitemsTokens items ++ rest) syms = runScan rest (syms ++ pitemsEqus items) := by
  intro items
  induction items with
  | nil => intro syms _ _; simp [pitemsTokens, pitemsEqus]
  | cons it r ih =>
    intro syms hok hnd
    rw [pitemsEqus_cons, List.map_append, ← List.append_assoc] at hnd
    have hnd1 := (List.nodup_append.1 hnd).1
    simp only [pitemsTokens, List.append_assoc]
    rw [runScan_pitem it (hok it (by simp)) _ syms (fun x hx hs =>
      (List.nodup_append.1 hnd1).2.2 x hs x hx rfl)]
    rw [ih (syms ++ pitemsEqus [it]) (fun x hx => hok x (by simp [hx]))
      (by rw [List.map_append]; exact hnd), List.append_assoc, ← pitemsEqus_cons]

/-! ### programs -/

/-- **the pre-scan on FOR-free programs with EQU lines**: when no name is defined by two EQU lines
    the scanner returns the EQU table and `forSeen = false` -/
theorem scan_pprog (p : PProg) (hitems : ∀ it ∈ p.items, it.OK)
    (hfin : ∀ kw toks, p.fin = some (kw, toks) → lowerStr kw = "end")
    (hnd : ((pitemsEqus p.items).map (·.1)).Nodup) :
    scanInput p.tokens = .ok (some (pitemsEqus p.items, false)) := by
  have hfinal : runScan p.finTokens (pitemsEqus p.items) = stop (pitemsEqus p.items) := by
    unfold PProg.finTokens
    cases hf : p.fin with
    | none => exact runScan_term eofTok [] _ rfl
    | some kt =>
      obtain ⟨kw, toks⟩ := kt
      exact runScan_endLine [] (⟨.text, kw⟩ : Token) _ _ (fun x hx => by cases hx) rfl
        (hfin kw toks hf)
  have hrun : runScan p.tokens [] = stop (pitemsEqus p.items) := by
    unfold PProg.tokens
    rw [runScan_nls, runScan_pitems _ p.items [] hitems (by simpa using hnd), List.nil_append, hfinal]
  obtain ⟨t, r, htr⟩ : ∃ t r, p.tokens = t :: r := by
    cases h : p.tokens with
    | nil =>
      have := congrArg List.length h
      unfold PProg.tokens PProg.finTokens at this
      cases hf : p.fin with
      | none => rw [hf] at this; simp at this
      | some kt => rw [hf] at this; simp at this
    | cons t r => exact ⟨t, r, rfl⟩
  rw [htr, scanInput_eq_runScan, ← htr, hrun]
  rfl

/-- the EQU names are among the names the parser enters into its symbol table -/
theorem pitemsEqus_sublist (items : List PItem) :
    ((pitemsEqus items).map (·.1)).Sublist (pitemsLabels items) := by
  induction items with
  | nil => exact List.Sublist.refl _
  | cons it r ih =>
    cases it with
    | x it =>
      simp only [pitemsEqus, pitemsLabels]
      exact ih.trans (List.sublist_append_right _ _)
    | equ name kw toks k =>
      simp only [pitemsEqus, pitemsLabels, PItem.labelNames, List.map_cons, List.singleton_append]
      exact ih.cons_cons _

theorem scan_pprog_of_OK (p : PProg) (hp : p.OK) :
    scanInput p.tokens = .ok (some (pitemsEqus p.items, false)) :=
  scan_pprog p hp.items (fun kw toks hf => (hp.fin kw toks hf).1)
    ((pitemsEqus_sublist p.items).nodup hp.nodup)

/-- **`assemble` in stages, with EQU lines**: when the lexer's token stream is that of a
    well-formed parser-level program, `CompileWarrior` is the parser followed by the compiler
    stage on it (one scan, zero expansion passes) -/
theorem assemble_stages_pprog (cfg : Config) (src : List UInt8) (p : PProg) (hp : p.OK)
    (hsrc : lexBytes src = p.tokens) :
    assemble cfg src = parseCompile cfg p.tokens := by
  unfold assemble parseCompile
  simp only
  rw [hsrc, forLoop_done 13 0 _ _ (scan_pprog_of_OK p hp)]
  rfl

end AsmComposeEqu
end Gmars
