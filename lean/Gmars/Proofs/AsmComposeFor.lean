/-
  C03 / C08: FOR/ROF blocks assemble to the MEANING of their manual unrolling.

  Stage theorems composed (token level):

      tokens --forLoop--> tokens of the unrolled program --parse--> lines --compile--> warrior
      items  --Spec.unroll--> unrolled items --Spec.meaningFlat--> meaning

    * `FProg`                 structured programs: label-free instructions and FOR blocks, nested
                              and sequential; a count is a number literal or a name (the counter
                              of an enclosing block); the counter is used in operand expressions
    * `FProg.toItems`         the program as the reference reads it (`Spec.Item.for_` nodes)
    * `FProg.toProg`          the program as tokens (`ForPass.Prog`): `ctr for count`, …, `rof`
    * `FUnroll fp U k`        the manual unrolling of `fp` is the instruction list `U`, with `k`
                              block expansions (the counter is replaced by the NUMBER 1, 2, …)
    * `fullUnroll_of_FUnroll` the token-level unrolling (`ForPass.FullUnroll`) of `fp.toProg` is the
                              list of token lines of `U`
    * `spec_unroll`           the reference's unrolling (`Spec.unroll`) of `fp.toItems` is `U`
                              (`spec_expansions`: and it counts `k` expansions)
    * `assemble_meaning_for_tokens`   the whole assembler behind the lexer on the tokens of `fp`
                              returns `Spec.meaning` of `fp.toItems`, or rejects when the reference does

  Counter values: the expander writes iteration i as the number token `%d` of i ("1", "2", …; not
  pMARS' two-digit "01"), the reference substitutes `.num i`; the token of `.num i` is that token.
  Concatenation `&` is out of scope.

  Files: `AsmComposeForTok.lean` (token level, part a), `AsmComposeForSpec.lean` (equations of
  `Spec.unrollAux`), this file (part b), `AsmComposeForBytes.lean` (from bytes, any spacing, part c),
  `AsmComposeForExample.lean` (every hypothesis discharged on `i for 2 / j for i / dat i, j / rof /
  rof / jmp 0`, tokens and bytes).

  Scope (inherited from `ForPass.FullUnroll`, whose lines are `SimpleLine`s): every line outside the
  FOR / ROF lines is an instruction WITHOUT labels, so after the unrolling no names are left
  (`FProg.Closed []`: every name is the counter of an enclosing block); no ORG / END / EQU / comment /
  blank lines; `for` and `rof` in lower case.  `U.length + k < 100000` is the fuel of `Spec.unroll`.

  Necessary side conditions found by evaluation (see the end of `AsmComposeForExample.lean`):
    * no shadowing (`FProg.OK`: the counter of a block is not the counter of a block inside it): on
          i for 2 / i for 2 / dat i / rof / rof
      the expander turns the inner header into `1 for 2` in the first pass (`assemble = .err`),
      the reference substitutes the inner body only (`Spec.meaning` = four DATs).
-/
import Gmars.Proofs.AsmComposeForTok
import Gmars.Proofs.AsmComposeForSpec

namespace Gmars
namespace AsmComposeFor
open Gmars.AsmCompose Gmars.Render Gmars.AsmLine Gmars.ExprProofs Gmars.ForPass Gmars.Spec

/-! ## 1. the counter in expression templates -/

/-- iteration `i`: every occurrence of the name `c` becomes the number `i` -/
def substCtr (c : String) (i : Nat) : NT → NT
  | .num n => .num n
  | .name s => if s = c then .num i else .name s
  | .signs ss e => .signs ss (substCtr c i e)
  | .paren e => .paren (substCtr c i e)
  | .bin op l r => .bin op (substCtr c i l) (substCtr c i r)

theorem substC_of_not_text (c : String) (i : Nat) (t : Token) (h : t.typ ≠ .text) :
    substC c i t = t := by
  simp [substC, h]

theorem substC_text (c : String) (i : Nat) (s : String) :
    substC c i ⟨.text, s⟩ = if s = c then ExprProofs.numTok i else ⟨.text, s⟩ := by
  unfold substC
  by_cases h : s = c <;> simp [h] <;> rfl

theorem substC_text_ne (c : String) (i : Nat) (s : String) (h : s ≠ c) :
    substC c i ⟨.text, s⟩ = ⟨.text, s⟩ := by
  rw [substC_text, if_neg h]

theorem map_substC_of_not_text (c : String) (i : Nat) (ts : List Token)
    (h : ∀ t ∈ ts, t.typ ≠ .text) : ts.map (substC c i) = ts := by
  induction ts with
  | nil => rfl
  | cons t r ih =>
    rw [List.map_cons, substC_of_not_text c i t (h t (List.mem_cons_self ..)),
      ih (fun x hx => h x (List.mem_cons_of_mem _ hx))]

/-- on tokens the substitution is the expander's -/
theorem substCtr_tokens (c : String) (i : Nat) (e : NT) :
    (substCtr c i e).tokens = e.tokens.map (substC c i) := by
  induction e with
  | num n => rfl
  | name s =>
    simp only [substCtr, NT.tokens, List.map_cons, List.map_nil, textTok, substC_text]
    by_cases h : s = c <;> simp [h, NT.tokens, textTok]
  | signs ss e ih =>
    simp only [substCtr, NT.tokens, List.map_append, ih,
      map_substC_of_not_text c i _ (signToks_notext ss)]
  | paren e ih =>
    simp only [substCtr, NT.tokens, List.map_cons, List.map_append, List.map_nil, ih]
    rw [substC_of_not_text c i lpTok (by simp [lpTok]), substC_of_not_text c i rpTok (by simp [rpTok])]
  | bin op l r ihl ihr =>
    simp only [substCtr, NT.tokens, List.map_cons, List.map_append, ihl, ihr]
    rw [substC_of_not_text c i (opTok op) (by simp [opTok])]

theorem substName_append (n : String) (v a b : List ETok) :
    substName n v (a ++ b) = substName n v a ++ substName n v b := by
  simp [substName]

theorem substName_cons (n : String) (v : List ETok) (t : ETok) (r : List ETok) :
    substName n v (t :: r) = (if t = .name n then v else [t]) ++ substName n v r := by
  simp [substName]

theorem substName_ops (n : String) (v : List ETok) (ss : List Bool) :
    substName n v (ss.map (fun s => ETok.op (signStr s))) = ss.map (fun s => ETok.op (signStr s)) := by
  induction ss with
  | nil => rfl
  | cons s r ih => simp [substName_cons, ih]

/-- on the reference's expression tokens the substitution is the reference's -/
theorem substCtr_etoks (c : String) (i : Nat) (e : NT) :
    (substCtr c i e).etoks = substName c [.num i] e.etoks := by
  induction e with
  | num n => simp [substCtr, NT.etoks, substName]
  | name s =>
    by_cases h : s = c <;> simp [substCtr, NT.etoks, substName, h]
  | signs ss e ih => simp only [substCtr, NT.etoks, substName_append, substName_ops, ih]
  | paren e ih =>
    simp [substCtr, NT.etoks, ih, substName]
  | bin op l r ihl ihr =>
    simp [substCtr, NT.etoks, substName_cons, substName_append, ihl, ihr]

theorem substCtr_lexOK (c : String) (i : Nat) (e : NT) (h : NTLexOK e) : NTLexOK (substCtr c i e) := by
  induction e with
  | num n => trivial
  | name s =>
    unfold substCtr
    by_cases hs : s = c
    · rw [if_pos hs]; trivial
    · rw [if_neg hs]; exact h
  | signs ss e ih => exact ih h
  | paren e ih => exact ih h
  | bin op l r ihl ihr => exact ⟨h.1, ihl h.2.1, ihr h.2.2⟩

theorem substCtr_names (c : String) (i : Nat) (e : NT) :
    (substCtr c i e).names = e.names.filter (fun s => s != c) := by
  induction e with
  | num n => rfl
  | name s => by_cases h : s = c <;> simp [substCtr, NT.names, h]
  | signs ss e ih => simpa [substCtr, NT.names] using ih
  | paren e ih => simpa [substCtr, NT.names] using ih
  | bin op l r ihl ihr => simp [substCtr, NT.names, ihl, ihr]

/-- the tokens of a template are in-line tokens -/
theorem nt_tokens_inLine (e : NT) : ∀ t ∈ e.tokens, InLine t := by
  induction e with
  | num n => intro t ht; simp only [NT.tokens, List.mem_singleton] at ht; subst ht; simp [InLine, ExprProofs.numTok]
  | name s => intro t ht; simp only [NT.tokens, List.mem_singleton] at ht; subst ht; simp [InLine, textTok]
  | signs ss e ih =>
    intro t ht
    simp only [NT.tokens, List.mem_append, List.mem_map] at ht
    rcases ht with ⟨s, _, rfl⟩ | ht
    · simp [InLine, signTok]
    · exact ih t ht
  | paren e ih =>
    intro t ht
    simp only [NT.tokens, List.mem_cons, List.mem_append, List.not_mem_nil, or_false] at ht
    rcases ht with rfl | ht | rfl
    · simp [InLine, lpTok]
    · exact ih t ht
    · simp [InLine, rpTok]
  | bin op l r ihl ihr =>
    intro t ht
    simp only [NT.tokens, List.mem_cons, List.mem_append] at ht
    rcases ht with ht | rfl | ht
    · exact ihl t ht
    · simp [InLine, opTok]
    · exact ihr t ht

/-! ## 2. the counter in instructions -/

def LOperand.subst (c : String) (i : Nat) (o : LOperand) : LOperand :=
  { mode := o.mode, expr := substCtr c i o.expr }

/-- iteration `i` of an instruction: the counter replaced in both operands -/
def FInstr.subst (c : String) (i : Nat) (x : FInstr) : FInstr :=
  { op := x.op, md := x.md, a := LOperand.subst c i x.a, b := x.b.map (LOperand.subst c i) }

theorem operandToks_subst (c : String) (i : Nat) (o : LOperand) :
    operandToks (LOperand.subst c i o) = (operandToks o).map (substC c i) := by
  unfold operandToks LOperand.subst
  simp only [List.map_append, substCtr_tokens]
  congr 1
  cases o.mode with
  | none => rfl
  | some m => simp only [List.map_cons, List.map_nil]; rw [substC_of_not_text _ _ _ (by simp)]

theorem bToks_subst (c : String) (i : Nat) (b : Option LOperand) :
    bToks (b.map (LOperand.subst c i)) = (bToks b).map (substC c i) := by
  cases b with
  | none => rfl
  | some bo =>
    simp only [Option.map_some, bToks, List.map_cons, operandToks_subst]
    rw [substC_of_not_text _ _ commaTok (by simp [commaTok])]

/-- on the token line the substitution is the expander's, when the opcode word is not the
    counter -/
theorem FInstr.line_subst (c : String) (i : Nat) (x : FInstr) (h : opString x.op x.md ≠ c) :
    (x.subst c i).line = x.line.subst c i := by
  unfold FInstr.line Line.subst FInstr.subst
  simp only [List.map_cons, List.map_append, operandToks_subst, bToks_subst, substC_text_ne c i _ h]
  rw [substC_of_not_text c i nlTok (by simp [nlTok])]

theorem LOperand.toP_subst (c : String) (i : Nat) (o : LOperand) :
    (LOperand.subst c i o).toP = substOperand c [.num i] o.toP := by
  simp [LOperand.toP, LOperand.subst, substOperand, substCtr_etoks]

/-- on the reference's item the substitution is the reference's -/
theorem FInstr.toItem_subst (c : String) (i : Nat) (x : FInstr) :
    (x.subst c i).toItem = substItem c [.num i] x.toItem := by
  unfold FInstr.toItem FInstr.toL FInstr.subst
  simp only [LItem.toItem]
  rw [substItem, LOperand.toP_subst]
  congr 1
  cases x.b with
  | none => rfl
  | some bo => simp [LOperand.toP_subst]

theorem FInstr.lexOK_subst (c : String) (i : Nat) (x : FInstr) (h : x.LexOK) :
    (x.subst c i).LexOK := by
  obtain ⟨h1, h2, h3, h4⟩ := h
  refine ⟨h1, h2, substCtr_lexOK c i _ h3, ?_⟩
  intro bo hbo
  simp only [FInstr.subst, Option.map_eq_some_iff] at hbo
  obtain ⟨b0, hb0, rfl⟩ := hbo
  exact substCtr_lexOK c i _ (h4 b0 hb0)

theorem FInstr.mem_names_subst {c : String} {i : Nat} {x : FInstr} {s : String}
    (h : s ∈ (x.subst c i).names) : s ∈ x.names ∧ s ≠ c := by
  obtain ⟨op, md, a, b⟩ := x
  simp only [FInstr.names, FInstr.toL, FInstr.subst, LItemNames, LOperand.subst, List.mem_append,
    substCtr_names, List.mem_filter, bne_iff_ne, ne_eq] at h ⊢
  rcases h with h | h
  · exact ⟨Or.inl h.1, h.2⟩
  · cases b with
    | none => cases h
    | some bo =>
      simp only [Option.map_some, LOperand.subst, substCtr_names, List.mem_filter, bne_iff_ne,
        ne_eq] at h
      exact ⟨Or.inr h.1, h.2⟩

/-- the token line of an instruction is a simple line of the FOR pass -/
theorem FInstr.simpleLine (x : FInstr) (hop : x.OpOK) : SimpleLine x.line := by
  refine ⟨⟨rfl, ?_⟩, ⟨.text, opString x.op x.md⟩, _, rfl, rfl, hop.1, hop.2⟩
  intro t ht
  have hoperand : ∀ (o : LOperand), ∀ t ∈ operandToks o, InLine t := by
    intro o t ht
    simp only [operandToks, List.mem_append] at ht
    rcases ht with ht | ht
    · cases hm : o.mode with
      | none => rw [hm] at ht; cases ht
      | some m =>
        rw [hm] at ht
        simp only [List.mem_singleton] at ht
        subst ht
        simp [InLine]
    · exact nt_tokens_inLine _ t ht
  simp only [FInstr.line, List.mem_cons, List.mem_append] at ht
  rcases ht with rfl | ht | ht
  · simp [InLine]
  · exact hoperand _ t ht
  · cases hb : x.b with
    | none => rw [hb] at ht; cases ht
    | some bo =>
      rw [hb] at ht
      simp only [bToks, List.mem_cons] at ht
      rcases ht with rfl | ht
      · simp [InLine, commaTok]
      · exact hoperand _ t ht

/-! ## 3. structured programs -/

/-- the count of a FOR block: a number literal or a name (the counter of an enclosing block) -/
inductive Cnt
  | lit (m : Nat)
  | ctr (s : String)

def Cnt.subst (c : String) (i : Nat) : Cnt → Cnt
  | .lit m => .lit m
  | .ctr s => if s = c then .lit i else .ctr s

def Cnt.tok : Cnt → Token
  | .lit m => ExprProofs.numTok m
  | .ctr s => ⟨.text, s⟩

def Cnt.etoks : Cnt → List ETok
  | .lit m => [.num m]
  | .ctr s => [.name s]

theorem Cnt.tok_subst (c : String) (i : Nat) (n : Cnt) : (n.subst c i).tok = substC c i n.tok := by
  cases n with
  | lit m =>
    show ExprProofs.numTok m = substC c i (ExprProofs.numTok m)
    rw [substC_of_not_text c i _ (by simp [ExprProofs.numTok])]
  | ctr s =>
    simp only [Cnt.subst, Cnt.tok, substC_text]
    by_cases h : s = c <;> simp [h]

theorem Cnt.etoks_subst (c : String) (i : Nat) (n : Cnt) :
    (n.subst c i).etoks = substName c [.num i] n.etoks := by
  cases n with
  | lit m => simp [Cnt.subst, Cnt.etoks, substName]
  | ctr s => by_cases h : s = c <;> simp [Cnt.subst, Cnt.etoks, substName, h]

theorem Cnt.tok_inLine (n : Cnt) : InLine n.tok := by
  cases n <;> simp [Cnt.tok, InLine, ExprProofs.numTok]

/-- a structured program: label-free instructions and label-free FOR blocks
    `ctr for count / body / rof` -/
inductive FProg
  | nil
  | instr (x : FInstr) (rest : FProg)
  | block (ctr : String) (cnt : Cnt) (body rest : FProg)

namespace FProg

/-- substitution of a counter: in the operands and in the counts of inner blocks -/
def subst (c : String) (i : Nat) : FProg → FProg
  | nil => nil
  | instr x r => instr (x.subst c i) (r.subst c i)
  | block ct n body r => block ct (n.subst c i) (body.subst c i) (r.subst c i)

/-- **the program as the reference reads it** -/
def toItems : FProg → List Spec.Item
  | nil => []
  | instr x r => x.toItem :: r.toItems
  | block ct n body r => .for_ [] ct n.etoks body.toItems :: r.toItems

def forTok : Token := ⟨.text, "for"⟩
def rofLine : Line := { toks := [⟨.text, "rof"⟩], nl := nlTok }

/-- **the program as tokens** -/
def toProg : FProg → ForPass.Prog
  | nil => .nil
  | instr x r => .line x.line r.toProg
  | block ct n body r => .block ⟨.text, ct⟩ forTok n.tok nlTok body.toProg rofLine r.toProg

/-- the counters of the blocks of the program -/
def ctrs : FProg → List String
  | nil => []
  | instr _ r => r.ctrs
  | block ct _ body r => ct :: (body.ctrs ++ r.ctrs)

/-- well-formedness: instructions are lexically well-formed and start with an opcode word;
    the counter of a block is taken for a label (no opcode, no pseudo-op) and is not the counter
    of a block inside the block (no shadowing) -/
def OK : FProg → Prop
  | nil => True
  | instr x r => x.LexOK ∧ x.OpOK ∧ r.OK
  | block ct _ body r => IsLabelName ct ∧ ct ∉ body.ctrs ∧ body.OK ∧ r.OK

theorem ctrs_subst (c : String) (i : Nat) (p : FProg) : (p.subst c i).ctrs = p.ctrs := by
  induction p with
  | nil => rfl
  | instr x r ih => simpa [subst, ctrs] using ih
  | block ct n body r ihb ih => simp [subst, ctrs, ihb, ih]

theorem OK_subst (c : String) (i : Nat) (p : FProg) (h : p.OK) : (p.subst c i).OK := by
  induction p with
  | nil => trivial
  | instr x r ih => exact ⟨FInstr.lexOK_subst c i x h.1, h.2.1, ih h.2.2⟩
  | block ct n body r ihb ih =>
    refine ⟨h.1, ?_, ihb h.2.2.1, ih h.2.2.2⟩
    rw [ctrs_subst]; exact h.2.1

/-- on the reference's items the substitution is the reference's `substItems` -/
theorem toItems_subst (c : String) (i : Nat) (p : FProg) :
    (p.subst c i).toItems = substItems c [.num i] p.toItems := by
  induction p with
  | nil => simp [subst, toItems, substItems]
  | instr x r ih =>
    simp only [subst, toItems]
    rw [substItems, FInstr.toItem_subst, ih]
  | block ct n body r ihb ih =>
    simp only [subst, toItems]
    rw [substItems, substItem, Cnt.etoks_subst, ihb, ih]

theorem ne_of_label_op {c s : String} (hc : IsLabelName c) (hs : (⟨.text, s⟩ : Token).isOp = true) :
    s ≠ c := by
  intro h
  subst h
  unfold IsLabelName at hc
  rw [hc] at hs
  cases hs

/-- on the tokens the substitution is the expander's, for a counter that is a label word and not
    the counter of a block of the program -/
theorem toProg_subst (c : String) (i : Nat) (hc : IsLabelName c) (p : FProg) (h : p.OK)
    (hn : c ∉ p.ctrs) : (p.subst c i).toProg = p.toProg.subst c i := by
  induction p with
  | nil => rfl
  | instr x r ih =>
    simp only [subst, toProg, Prog.subst]
    rw [FInstr.line_subst c i x (ne_of_label_op hc h.2.1.1), ih h.2.2 hn]
  | block ct n body r ihb ih =>
    simp only [ctrs, List.mem_cons, List.mem_append, not_or] at hn
    simp only [subst, toProg, Prog.subst]
    rw [ihb h.2.2.1 hn.2.1, ih h.2.2.2 hn.2.2, Cnt.tok_subst,
      substC_text_ne c i ct (fun e => hn.1 e.symm),
      substC_of_not_text c i nlTok (by simp [nlTok])]
    have hfor : substC c i forTok = forTok := substC_text_ne c i "for" (ne_of_label_op hc (by decide))
    have hrof : rofLine.subst c i = rofLine := by
      unfold Line.subst rofLine
      simp only [List.map_cons, List.map_nil]
      rw [substC_text_ne c i "rof" (ne_of_label_op hc (by decide)),
        substC_of_not_text c i nlTok (by simp [nlTok])]
    rw [hfor, hrof]

theorem headerOK (ct : String) (n : Cnt) (h : IsLabelName ct) :
    HeaderOK ⟨.text, ct⟩ forTok n.tok nlTok := by
  refine ⟨?_, rfl, by decide, n.tok_inLine, rfl⟩
  unfold IsLabelName at h
  simp [isLabelTok, h]

theorem rofOK : RofOK rofLine :=
  ⟨⟨rfl, by decide⟩, ⟨.text, "rof"⟩, [], rfl, rfl, by decide⟩

/-- the token program has the shape the FOR pass theorems need -/
theorem shape (p : FProg) (h : p.OK) : p.toProg.Shape := by
  induction p with
  | nil => trivial
  | instr x r ih => exact ⟨x.simpleLine h.2.1, ih h.2.2⟩
  | block ct n body r ihb ih => exact ⟨headerOK ct n h.1, rofOK, ihb h.2.2.1, ih h.2.2.2⟩

/-- every name used in an operand or as a count is one of `env`, or the counter of an enclosing
    block of the program -/
def Closed : List String → FProg → Prop
  | _, nil => True
  | env, instr x r => (∀ s ∈ x.names, s ∈ env) ∧ r.Closed env
  | env, block ct n body r =>
    (∀ s, n = .ctr s → s ∈ env) ∧ body.Closed (ct :: env) ∧ r.Closed env

theorem closed_subst (c : String) (i : Nat) (p : FProg) :
    ∀ (env env' : List String), p.Closed env → (∀ s ∈ env, s = c ∨ s ∈ env') →
      (p.subst c i).Closed env' := by
  induction p with
  | nil => intro _ _ _ _; trivial
  | instr x r ih =>
    intro env env' h he
    refine ⟨?_, ih env env' h.2 he⟩
    intro s hs
    obtain ⟨h1, h2⟩ := FInstr.mem_names_subst hs
    rcases he s (h.1 s h1) with e | e
    · exact absurd e h2
    · exact e
  | block ct n body r ihb ih =>
    intro env env' h he
    refine ⟨?_, ihb (ct :: env) (ct :: env') h.2.1 ?_, ih env env' h.2.2 he⟩
    · intro s hs
      cases n with
      | lit m => cases hs
      | ctr t =>
        simp only [Cnt.subst] at hs
        by_cases ht : t = c
        · rw [if_pos ht] at hs; cases hs
        · rw [if_neg ht] at hs
          have hst : t = s := by cases hs; rfl
          subst hst
          rcases he t (h.1 t rfl) with e | e
          · exact absurd e ht
          · exact e
    · intro s hs
      rcases List.mem_cons.1 hs with rfl | hs
      · exact Or.inr (List.mem_cons_self ..)
      · rcases he s hs with e | e
        · exact Or.inl e
        · exact Or.inr (List.mem_cons_of_mem _ e)

end FProg

/-! ## 4. the manual unrolling -/

/-- `FUnroll p U k`: the manual unrolling of `p` is the instruction list `U`, and it takes `k` block
    expansions.  A block whose count is the literal `m` is replaced by the unrollings of the `m`
    copies of its body with the counter replaced by 1 … m (in the copies the counts of inner blocks
    that named the counter have become literals). -/
inductive FUnroll : FProg → List FInstr → Nat → Prop
  | nil : FUnroll .nil [] 0
  | instr {x : FInstr} {r : FProg} {U : List FInstr} {k : Nat} :
      FUnroll r U k → FUnroll (.instr x r) (x :: U) k
  | block {c : String} {body r : FProg} {U : List FInstr} {k : Nat}
      (m : Nat) (L : Nat → List FInstr) (K : Nat → Nat) :
      m < 2 ^ 31 →
      (∀ j, j < m → FUnroll (body.subst c (j + 1)) (L j) (K j)) →
      FUnroll r U k →
      FUnroll (.block c (.lit m) body r)
        ((List.range m).flatMap L ++ U) (1 + ((List.range m).map K).sum + k)

theorem FUnroll.cast {p : FProg} {U U' : List FInstr} {k k' : Nat} (h : FUnroll p U k)
    (e1 : U = U') (e2 : k = k') : FUnroll p U' k' := by
  subst e1; subst e2; exact h

/-- the instructions of the unrolled program are well-formed -/
theorem FUnroll.instrs_ok {p : FProg} {U : List FInstr} {k : Nat} (h : FUnroll p U k) :
    p.OK → ∀ x ∈ U, x.LexOK ∧ x.OpOK := by
  induction h with
  | nil => intro _ x hx; cases hx
  | instr _ ih =>
    intro hok x hx
    rcases List.mem_cons.1 hx with rfl | hx
    · exact ⟨hok.1, hok.2.1⟩
    · exact ih hok.2.2 x hx
  | block m L K _ _ _ ihb ih =>
    intro hok x hx
    rcases List.mem_append.1 hx with hx | hx
    · obtain ⟨j, hj, hxj⟩ := List.mem_flatMap.1 hx
      exact ihb j (List.mem_range.1 hj) (FProg.OK_subst _ _ _ hok.2.2.1) x hxj
    · exact ih hok.2.2.2 x hx

/-- a closed program (every name is the counter of an enclosing block) unrolls to instructions
    without names -/
theorem FUnroll.names_nil {p : FProg} {U : List FInstr} {k : Nat} (h : FUnroll p U k) :
    p.Closed [] → ∀ x ∈ U, x.names = [] := by
  induction h with
  | nil => intro _ x hx; cases hx
  | instr _ ih =>
    intro hc x hx
    rcases List.mem_cons.1 hx with rfl | hx
    · exact List.eq_nil_iff_forall_not_mem.2 (fun s hs => by cases hc.1 s hs)
    · exact ih hc.2 x hx
  | @block c body r U k m L K _ _ _ ihb ih =>
    intro hc x hx
    rcases List.mem_append.1 hx with hx | hx
    · obtain ⟨j, hj, hxj⟩ := List.mem_flatMap.1 hx
      refine ihb j (List.mem_range.1 hj) (FProg.closed_subst c (j + 1) body [c] [] hc.2.1 ?_) x hxj
      intro s hs
      exact Or.inl (List.mem_singleton.1 hs)
    · exact ih hc.2.2 x hx

/-- **token level**: the manual unrolling of the token program (`ForPass.FullUnroll`) is the list
    of the token lines of the unrolled instructions -/
theorem fullUnroll_of_FUnroll {p : FProg} {U : List FInstr} {k : Nat} (h : FUnroll p U k) :
    p.OK → FullUnroll p.toProg (U.map FInstr.line) k := by
  induction h with
  | nil => intro _; exact FullUnroll.nil
  | @instr x r U k _ ih =>
    intro hok
    exact FullUnroll.line (x.simpleLine hok.2.1) (ih hok.2.2)
  | @block c body r U k m L K hm _ _ ihb ih =>
    intro hok
    have hcopies : ∀ j, j < m →
        FullUnroll (body.toProg.subst (⟨.text, c⟩ : Token).val (j + 1)) ((L j).map FInstr.line) (K j) := by
      intro j hj
      have := ihb j hj (FProg.OK_subst _ _ _ hok.2.2.1)
      rw [FProg.toProg_subst c (j + 1) hok.1 body hok.2.2.1 hok.2.1] at this
      exact this
    have := FullUnroll.block (c := ⟨.text, c⟩) (f := FProg.forTok) (nl := nlTok) (rof := FProg.rofLine)
      m (fun j => (L j).map FInstr.line) K (FProg.headerOK c (.lit m) hok.1) hm FProg.rofOK
      (FProg.shape body hok.2.2.1) hcopies (ih hok.2.2.2)
    refine this.cast ?_ rfl
    simp [List.map_flatMap]

/-! ## 5. the reference's unrolling -/

theorem sum_map_add (is : List Nat) (a b : Nat → Nat) :
    (is.map (fun j => a j + b j)).sum = (is.map a).sum + (is.map b).sum := by
  induction is with
  | nil => rfl
  | cons i r ih => simp only [List.map_cons, List.sum_cons, ih]; omega

/-- **reference level**: `Spec.unrollAux` on the items of the program appends the unrolled
    instructions and counts the block expansions, with any fuel above their number -/
theorem unrollAux_of_FUnroll {p : FProg} {U : List FInstr} {k : Nat} (h : FUnroll p U k) :
    ∀ (before : List Spec.Item) (k0 f : Nat), U.length + k + 1 ≤ f →
      unrollAux f p.toItems before k0 = some (before ++ U.map FInstr.toItem, k0 + k) := by
  induction h with
  | nil =>
    intro before k0 f hf
    obtain ⟨f', rfl⟩ : ∃ f', f = f' + 1 := ⟨f - 1, by omega⟩
    simp [FProg.toItems, unrollAux_nil]
  | @instr x r U k _ ih =>
    intro before k0 f hf
    obtain ⟨f', rfl⟩ : ∃ f', f = f' + 1 := ⟨f - 1, by omega⟩
    simp only [FProg.toItems]
    rw [unrollAux_other _ _ _ _ _ (by rfl), ih _ _ f' (by simp only [List.length_cons] at hf; omega)]
    simp
  | @block c body r U k m L K hm _ _ ihb ih =>
    intro before k0 f hf
    obtain ⟨f', rfl⟩ : ∃ f', f = f' + 1 := ⟨f - 1, by omega⟩
    simp only [List.length_append, List.length_flatMap] at hf
    have hsum := sum_map_add (List.range m) (fun j => (L j).length) K
    have hcop := unrollAux_flatMap (fun j => (body.subst c (j + 1)).toItems)
      (fun j => (L j).map FInstr.toItem) K (fun j => (L j).length + K j) (List.range m)
      (fun j hj before k1 => ihb j (List.mem_range.1 hj) before k1 _ (Nat.le_refl _))
      before (k0 + 1) f' (by rw [hsum]; omega)
    have hitems : (fun j => (body.subst c (j + 1)).toItems) =
        fun j => substItems c [.num (j + 1)] body.toItems := by
      funext j; exact FProg.toItems_subst c (j + 1) body
    rw [hitems] at hcop
    have hrest := ih (before ++ (List.range m).flatMap (fun j => (L j).map FInstr.toItem))
      (k0 + 1 + ((List.range m).map K).sum) f' (by omega)
    simp only [FProg.toItems, Cnt.etoks]
    rw [unrollAux_block f' c m hm _ _ before k0 _ _ _ hcop hrest]
    simp only [List.map_append, List.map_flatMap, List.append_assoc]
    congr 2
    omega

/-- the reference unrolls the items of the program to the unrolled instructions -/
theorem spec_unroll {p : FProg} {U : List FInstr} {k : Nat} (h : FUnroll p U k)
    (hf : U.length + k < 100000) : Spec.unroll p.toItems = some (U.map FInstr.toItem) := by
  unfold Spec.unroll
  rw [unrollAux_of_FUnroll h [] 0 100000 (by omega)]
  simp

/-- … and counts the expansions of the manual unrolling -/
theorem spec_expansions {p : FProg} {U : List FInstr} {k : Nat} (h : FUnroll p U k)
    (hf : U.length + k < 100000) : Spec.expansions p.toItems = k := by
  unfold Spec.expansions
  rw [unrollAux_of_FUnroll h [] 0 100000 (by omega)]
  simp

/-- the reference meaning of the structured program is the meaning of its unrolling -/
theorem spec_meaning (sc : Spec.Cfg) {p : FProg} {U : List FInstr} {k : Nat} (h : FUnroll p U k)
    (hf : U.length + k < 100000) :
    Spec.meaning sc p.toItems = Spec.meaningFlat sc (U.map FInstr.toItem) := by
  unfold Spec.meaning
  rw [spec_unroll h hf]
  rfl

/-! ## 6. the composed theorem -/

/-- **`assemble_meaning_for_tokens`** (C03 ∘ C08, token level).  `fp` is a structured program:
    label-free instructions and label-free FOR blocks, sequential and nested to any depth, whose
    counts are number literals or counters of enclosing blocks and whose operand expressions may
    use the counters (`fp.OK`: instructions lexically well-formed with an opcode word first,
    counters are label words, no shadowing).  If its manual unrolling `U` (`FUnroll fp U k`) takes
    `k ≤ 12` block expansions, then `CompileWarrior` behind the lexer — FOR pass loop, parser,
    compiler — returns on the tokens of `fp` (`ctr for count` / body / `rof`) exactly the reference
    meaning `Spec.meaning` of the item program with its `Spec.Item.for_` nodes, or rejects exactly
    when the reference does.

    Side conditions on the unrolled program `U`, as in `compile_meaning_labels`: valid
    configuration, core size below 2^63, `ProgWF` (well-formed operand expressions).
    `fp.Closed []`: every name used in an operand or as a count is the counter of an enclosing
    block (there are no labels to refer to).  `U.length + k < 100000` is the fuel of the
    reference's `Spec.unroll`. -/
theorem assemble_meaning_for_tokens (cfg : Config) (sc : Spec.Cfg) (fp : FProg)
    (U : List FInstr) (k : Nat) (hu : FUnroll fp U k) (hk : k ≤ 12) (hok : fp.OK)
    (hfuel : U.length + k < 100000)
    (hv : cfg.validate = true) (h63 : cfg.coreSize.toNat < 2 ^ 63) (hr : CfgRel cfg sc)
    (hclosed : fp.Closed [])
    (hw : ProgWF sc.M [] 0 (U.map FInstr.toL)) :
    assembleTokens cfg (flat fp.toProg.render ++ [ForPass.eofTok]) =
      match Spec.meaning sc fp.toItems with
      | some m => .ok (toWD {} m)
      | none => .err := by
  rw [spec_meaning sc hu hfuel]
  have hU := hu.instrs_ok hok
  exact assemble_for_tokens cfg sc fp.toProg _ k (fullUnroll_of_FUnroll hu hok) hk U rfl hv h63 hr
    (fun x hx => (hU x hx).1) (fun x hx => (hU x hx).2) (hu.names_nil hclosed)
    (by have : (100000 : Nat) < 2 ^ 63 := by decide
        omega) hw

/-- the same from bytes: any source the lexer turns into the tokens of `fp` -/
theorem assemble_meaning_for_lexed (cfg : Config) (sc : Spec.Cfg) (fp : FProg)
    (U : List FInstr) (k : Nat) (hu : FUnroll fp U k) (hk : k ≤ 12) (hok : fp.OK)
    (hfuel : U.length + k < 100000)
    (hv : cfg.validate = true) (h63 : cfg.coreSize.toNat < 2 ^ 63) (hr : CfgRel cfg sc)
    (hclosed : fp.Closed [])
    (hw : ProgWF sc.M [] 0 (U.map FInstr.toL))
    (src : List UInt8) (hsrc : lexBytes src = flat fp.toProg.render ++ [ForPass.eofTok]) :
    assemble cfg src =
      match Spec.meaning sc fp.toItems with
      | some m => .ok (toWD {} m)
      | none => .err := by
  rw [assemble_eq_tokens, hsrc]
  exact assemble_meaning_for_tokens cfg sc fp U k hu hk hok hfuel hv h63 hr hclosed hw

/-- with 13 or more block expansions the assembler gives up, whatever the reference says
    (finding F12) -/
theorem assemble_for_too_deep (cfg : Config) (fp : FProg) (U : List FInstr) (k : Nat)
    (hu : FUnroll fp U k) (hk : 13 ≤ k) (hok : fp.OK) :
    assembleTokens cfg (flat fp.toProg.render ++ [ForPass.eofTok]) = .err := by
  unfold assembleTokens
  rw [for_unroll_full_too_deep fp.toProg _ k (fullUnroll_of_FUnroll hu hok) hk]

end AsmComposeFor
end Gmars
