/-
  C03 / C08, composition with FOR blocks, part (c): from BYTES, any spacing.

    * `FProg.srcLines`       the canonical source lines of a structured program: one line per
                             instruction, `ctr for count`, `rof` (words separated by one blank)
    * `FProg.linesToks_eq`   their tokens are the tokens of `FProg.toProg`
    * `FProg.lex_tokens`     any spacing of these words is lexed into the tokens of `FProg.toProg`
    * `assemble_meaning_for` the whole assembler `CompileWarrior` — reader, lexer, FOR pass loop,
                             parser, compiler — on any such byte string returns `Spec.meaning` of
                             the item program with its FOR blocks
    * `assemble_meaning_for_ascii`, `assemble_meaning_for_utf8`   text as bytes
-/
import Gmars.Proofs.AsmComposeFor

namespace Gmars
namespace AsmComposeFor
open Gmars.AsmCompose Gmars.Render Gmars.AsmLine Gmars.ExprProofs Gmars.ForPass

/-! ## source lines -/

/-- the word of a count -/
def Cnt.word : Cnt → Word
  | .lit m => numWord m
  | .ctr s => identWord s

namespace FProg

/-- counters and the names used as counts are identifiers `[A-Za-z_][A-Za-z0-9_.]*` -/
def LexOK : FProg → Prop
  | nil => True
  | instr _ r => r.LexOK
  | block ct n body r =>
    identOK ct = true ∧ (∀ s, n = .ctr s → identOK s = true) ∧ body.LexOK ∧ r.LexOK

/-- **the canonical source lines**: words separated by one blank -/
def srcLines : FProg → List SrcLine
  | nil => []
  | instr x r => x.toS.srcLines ++ r.srcLines
  | block ct n body r =>
    pseudoSrcLine ct [identWord "for", n.word] ::
      (body.srcLines ++ pseudoSrcLine "rof" [] :: r.srcLines)

theorem cnt_word_tok (n : Cnt) (h : ∀ s, n = .ctr s → identOK s = true) : n.word.tok = n.tok := by
  cases n with
  | lit m => exact numWord_tok m
  | ctr s => exact identWord_tok (h s rfl)

/-- the canonical source lines carry the tokens of the token program -/
theorem linesToks_eq (p : FProg) (hok : p.OK) (hlex : p.LexOK) :
    linesToks p.srcLines = flat p.toProg.render := by
  induction p with
  | nil => rfl
  | instr x r ih =>
    simp only [srcLines, linesToks_append, toProg, Prog.render, flat_cons]
    rw [SItem.toks_eq hok.1, FInstr.toX_tokens x hok.1, ih hok.2.2 hlex]
  | block ct n body r ihb ih =>
    obtain ⟨h1, h2, h3, h4⟩ := hlex
    have hfor : identOK "for" = true := by decide
    have hrof : identOK "rof" = true := by decide
    simp only [srcLines, linesToks, linesToks_append, toProg, Prog.render, flat_cons, flat_append,
      pseudoSrcLine_toks ct _ h1, pseudoSrcLine_toks "rof" _ hrof, List.map_cons, List.map_nil,
      identWord_tok hfor, cnt_word_tok n h2, ihb hok.2.2.1 h3, ih hok.2.2.2 h4, Line.flat, forTok,
      rofLine, nlTok, List.cons_append, List.nil_append]

/-- **lexer stage**: source lines that carry the words of the program, with any leading blanks
    and any separators of blanks and tabs that keep the words apart, are lexed into the tokens of
    the token program -/
theorem lex_tokens (p : FProg) (hok : p.OK) (hlex : p.LexOK) (ls : List SrcLine)
    (hls : ∀ l ∈ ls, l.ok (some '\n') = true) (hsame : SameLines ls p.srcLines) :
    Lex.tokens (renderLines ls) = flat p.toProg.render ++ [ForPass.eofTok] := by
  rw [lex_tokens_words ls hls, linesToks_sameWords hsame, p.linesToks_eq hok hlex]
  rfl

end FProg

/-! ## the composed theorem, from bytes -/

/-- **`assemble_meaning_for`** (C03 ∘ C08, from bytes).  `fp` is a structured program: label-free
    instructions and label-free FOR blocks `ctr for count` … `rof`, sequential and nested to any
    depth, counts number literals or counters of enclosing blocks, counters used in the operand
    expressions.  `ls` is ANY list of source lines carrying the words of the program line by line
    (`SameLines ls fp.srcLines`) with arbitrary leading blanks and separators of blanks and tabs
    (`SrcLine.ok`), `src` any byte string the Go reader decodes to that text.  If the manual
    unrolling `U` of `fp` takes `k ≤ 12` block expansions, `CompileWarrior` returns the warrior of
    the reference meaning `Spec.meaning` of the item program (FOR blocks as `Spec.Item.for_`
    nodes, unrolled by the reference itself), or an error exactly when the reference rejects it.

    Hypotheses: `fp.OK`, `fp.LexOK` (identifiers; opcode words; counters are label words; no
    shadowing), the side conditions of `compile_meaning_labels` on the unrolled program `U`
    (`ProgWF`), `fp.Closed []` (every name is the counter of an enclosing block), and the reference's fuel `U.length + k < 100000`. -/
theorem assemble_meaning_for (cfg : Config) (sc : Spec.Cfg) (fp : FProg)
    (U : List FInstr) (k : Nat) (hu : FUnroll fp U k) (hk : k ≤ 12) (hok : fp.OK) (hlex : fp.LexOK)
    (hfuel : U.length + k < 100000)
    (hv : cfg.validate = true) (h63 : cfg.coreSize.toNat < 2 ^ 63) (hr : CfgRel cfg sc)
    (hclosed : fp.Closed [])
    (hw : ProgWF sc.M [] 0 (U.map FInstr.toL))
    (ls : List SrcLine) (hls : ∀ l ∈ ls, l.ok (some '\n') = true) (hsame : SameLines ls fp.srcLines)
    (src : List UInt8) (hsrc : decodeRunes src = renderLines ls) :
    assemble cfg src =
      match Spec.meaning sc fp.toItems with
      | some m => .ok (toWD {} m)
      | none => .err := by
  refine assemble_meaning_for_lexed cfg sc fp U k hu hk hok hfuel hv h63 hr hclosed hw src ?_
  unfold lexBytes
  rw [hsrc, fp.lex_tokens hok hlex ls hls hsame]

/-- with 13 or more block expansions `CompileWarrior` gives up (finding F12), from bytes -/
theorem assemble_for_too_deep_bytes (cfg : Config) (fp : FProg) (U : List FInstr) (k : Nat)
    (hu : FUnroll fp U k) (hk : 13 ≤ k) (hok : fp.OK) (hlex : fp.LexOK)
    (ls : List SrcLine) (hls : ∀ l ∈ ls, l.ok (some '\n') = true) (hsame : SameLines ls fp.srcLines)
    (src : List UInt8) (hsrc : decodeRunes src = renderLines ls) :
    assemble cfg src = .err := by
  rw [assemble_eq_tokens]
  unfold lexBytes
  rw [hsrc, fp.lex_tokens hok hlex ls hls hsame]
  exact assemble_for_too_deep cfg fp U k hu hk hok

/-- `assemble_meaning_for` for ASCII text given as characters -/
theorem assemble_meaning_for_ascii (cfg : Config) (sc : Spec.Cfg) (fp : FProg)
    (U : List FInstr) (k : Nat) (hu : FUnroll fp U k) (hk : k ≤ 12) (hok : fp.OK) (hlex : fp.LexOK)
    (hfuel : U.length + k < 100000)
    (hv : cfg.validate = true) (h63 : cfg.coreSize.toNat < 2 ^ 63) (hr : CfgRel cfg sc)
    (hclosed : fp.Closed [])
    (hw : ProgWF sc.M [] 0 (U.map FInstr.toL))
    (ls : List SrcLine) (hls : ∀ l ∈ ls, l.ok (some '\n') = true) (hsame : SameLines ls fp.srcLines)
    (hascii : ∀ c ∈ renderLines ls, c.toNat < 128) :
    assemble cfg (asciiBytes (renderLines ls)) =
      match Spec.meaning sc fp.toItems with
      | some m => .ok (toWD {} m)
      | none => .err :=
  assemble_meaning_for cfg sc fp U k hu hk hok hlex hfuel hv h63 hr hclosed hw ls hls hsame _
    (decodeRunes_ascii _ hascii)

/-- `assemble_meaning_for` for the UTF-8 encoding (`String.toUTF8`) of the text -/
theorem assemble_meaning_for_utf8 (cfg : Config) (sc : Spec.Cfg) (fp : FProg)
    (U : List FInstr) (k : Nat) (hu : FUnroll fp U k) (hk : k ≤ 12) (hok : fp.OK) (hlex : fp.LexOK)
    (hfuel : U.length + k < 100000)
    (hv : cfg.validate = true) (h63 : cfg.coreSize.toNat < 2 ^ 63) (hr : CfgRel cfg sc)
    (hclosed : fp.Closed [])
    (hw : ProgWF sc.M [] 0 (U.map FInstr.toL))
    (ls : List SrcLine) (hls : ∀ l ∈ ls, l.ok (some '\n') = true) (hsame : SameLines ls fp.srcLines) :
    assemble cfg (String.ofList (renderLines ls)).toUTF8.data.toList =
      match Spec.meaning sc fp.toItems with
      | some m => .ok (toWD {} m)
      | none => .err :=
  assemble_meaning_for cfg sc fp U k hu hk hok hlex hfuel hv h63 hr hclosed hw ls hls hsame _
    (decodeRunes_toUTF8 _)

end AsmComposeFor
end Gmars
