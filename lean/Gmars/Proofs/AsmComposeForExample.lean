/-
  C03 / C08: a worked example of `assemble_meaning_for_tokens` (every hypothesis is discharged on a
  concrete program), and the counterexample that makes "no shadowing" necessary.

      i for 2
      j for i
      dat i, j
      rof
      rof
      jmp 0
-/
import Gmars.Proofs.AsmComposeFor
import Gmars.Proofs.AsmComposeForBytes

namespace Gmars
namespace AsmComposeFor
open Gmars.AsmCompose Gmars.Render Gmars.AsmLine Gmars.ExprProofs Gmars.ForPass Gmars.Spec

section Example

private def opnd (e : NT) : LOperand := { mode := none, expr := e }
private def dat (a b : NT) : FInstr := { op := "dat", md := none, a := opnd a, b := some (opnd b) }
private def jmp0 : FInstr := { op := "jmp", md := none, a := opnd (.num 0), b := none }

private def inner : FProg := .block "j" (.ctr "i") (.instr (dat (.name "i") (.name "j")) .nil) .nil
private def ex : FProg := .block "i" (.lit 2) inner (.instr jmp0 .nil)

/-- the unrolled program: `dat 1,1 / dat 2,1 / dat 2,2 / jmp 0` -/
private def exU : List FInstr :=
  [dat (.num 1) (.num 1), dat (.num 2) (.num 1), dat (.num 2) (.num 2), jmp0]

private theorem dat_lexOK (a b : NT) (ha : NTLexOK a) (hb : NTLexOK b) : (dat a b).LexOK := by
  refine And.intro (fun _ h => by cases h) (And.intro ?_ (And.intro ha ?_))
  · show identOK "dat" = true
    decide
  intro bo h
  cases h
  exact hb

private theorem jmp0_lexOK : jmp0.LexOK := by
  refine And.intro (fun _ h => by cases h) (And.intro (by decide) (And.intro trivial ?_))
  intro bo h
  cases h

private theorem dat_opOK (a b : NT) : (dat a b).OpOK := by
  show IsOpName "dat"
  decide

private theorem jmp0_opOK : jmp0.OpOK := by
  show IsOpName "jmp"
  decide

private theorem ex_ok : ex.OK :=
  ⟨by decide, by decide,
    ⟨by decide, by decide, ⟨dat_lexOK _ _ (by decide) (by decide), dat_opOK _ _, trivial⟩, trivial⟩,
    ⟨jmp0_lexOK, jmp0_opOK, trivial⟩⟩

/-- copy `i` of the outer body unrolls to `dat i,1 … dat i,i` with one expansion -/
private theorem inner_unroll (i : Nat) (hi : i < 2 ^ 31) :
    FUnroll (inner.subst "i" i)
      ((List.range i).flatMap (fun l => [dat (.num i) (.num (l + 1))]) ++ [])
      (1 + ((List.range i).map (fun _ => 0)).sum + 0) := by
  have e : inner.subst "i" i =
      .block "j" (.lit i) (.instr (dat (.num i) (.name "j")) .nil) .nil := by
    simp [inner, FProg.subst, Cnt.subst, FInstr.subst, LOperand.subst, dat, opnd, substCtr]
  rw [e]
  refine FUnroll.block i _ _ hi ?_ FUnroll.nil
  intro l _
  have e2 : (FProg.instr (dat (.num i) (.name "j")) .nil).subst "j" (l + 1) =
      .instr (dat (.num i) (.num (l + 1))) .nil := by
    simp [FProg.subst, FInstr.subst, LOperand.subst, dat, opnd, substCtr]
  rw [e2]
  exact FUnroll.instr FUnroll.nil

private theorem ex_unroll : FUnroll ex exU 3 := by
  have h := FUnroll.block (c := "i") (body := inner) (r := .instr jmp0 .nil) (U := [jmp0]) (k := 0)
    2 (fun j => (List.range (j + 1)).flatMap (fun l => [dat (.num (j + 1)) (.num (l + 1))]) ++ [])
    (fun j => 1 + ((List.range (j + 1)).map (fun _ => 0)).sum + 0) (by decide)
    (fun j hj => inner_unroll (j + 1) (by
      have : (2 : Nat) < 2 ^ 31 := by decide
      omega))
    (FUnroll.instr FUnroll.nil)
  exact h.cast (by simp [exU, List.range_succ]) (by decide)

private theorem goodTmpl_num (σ : String → Option Int) (n : Nat) (h : n < 2 ^ 31) :
    GoodTmpl σ constNames (.num n) where
  notConst := by intro s hs; simp [NT.names] at hs
  len := by simp [NT.etoks]
  wf := by
    intro x hx
    cases hx
    refine ⟨trivial, ?_⟩
    show (n : Int) < GoEval.big
    have h1 : (n : Int) < 2 ^ 31 := by exact_mod_cast h
    have h2 := ForPass.big_gt
    omega

private theorem ascii_dat : Ascii "dat" := by
  intro c hc
  have : c ∈ ['d', 'a', 't'] := hc
  simp only [List.mem_cons, List.not_mem_nil, or_false] at this
  rcases this with rfl | rfl | rfl <;> decide

private theorem ascii_jmp : Ascii "jmp" := by
  intro c hc
  have : c ∈ ['j', 'm', 'p'] := hc
  simp only [List.mem_cons, List.not_mem_nil, or_false] at this
  rcases this with rfl | rfl | rfl <;> decide

private theorem dat_wf (M : Nat) (k a b : Nat) (ha : a < 2 ^ 31) (hb : b < 2 ^ 31) :
    (dat (.num a) (.num b)).toL.WF M [] k := by
  refine And.intro ascii_dat (And.intro ?_ (And.intro (fun s h => by cases h)
    (And.intro (goodTmpl_num _ a ha) ?_)))
  · show '.' ∉ "dat".toList
    decide
  intro bo h
  cases h
  exact goodTmpl_num _ b hb

private theorem jmp0_wf (M : Nat) (k : Nat) : jmp0.toL.WF M [] k := by
  refine And.intro ascii_jmp (And.intro (by decide) (And.intro (fun s h => by cases h)
    (And.intro (goodTmpl_num _ 0 (by decide)) ?_)))
  intro bo h
  cases h

private theorem exU_wf (M : Nat) : ProgWF M [] 0 (exU.map FInstr.toL) :=
  ⟨dat_wf M 0 1 1 (by decide) (by decide), dat_wf M 1 2 1 (by decide) (by decide),
    dat_wf M 2 2 2 (by decide) (by decide), jmp0_wf M 3, trivial⟩

private theorem ex_closed : ex.Closed [] := by
  refine And.intro (fun s h => by cases h) (And.intro ?_ (And.intro ?_ trivial))
  · refine And.intro ?_ (And.intro (And.intro ?_ trivial) trivial)
    · intro s h; cases h; exact List.mem_cons_self ..
    · intro s hs
      have : s ∈ ["i", "j"] := hs
      simp only [List.mem_cons, List.not_mem_nil, or_false] at this ⊢
      rcases this with rfl | rfl <;> simp
  · intro s hs
    have : s ∈ ([] : List String) := hs
    cases this

/-- the assembler on the tokens of the example returns the reference meaning of the item program
    with its two nested `for_` nodes, for every accepted configuration -/
example (cfg : Config) (sc : Spec.Cfg) (hv : cfg.validate = true)
    (h63 : cfg.coreSize.toNat < 2 ^ 63) (hr : CfgRel cfg sc) :
    assembleTokens cfg (flat ex.toProg.render ++ [ForPass.eofTok]) =
      match Spec.meaning sc ex.toItems with
      | some m => .ok (toWD {} m)
      | none => .err :=
  assemble_meaning_for_tokens cfg sc ex exU 3 ex_unroll (by decide) ex_ok (by decide) hv h63 hr
    ex_closed (exU_wf sc.M)

/-- the item program of the example -/
example : ex.toItems =
    [.for_ [] "i" [.num 2] [.for_ [] "j" [.name "i"]
        [.instr [] "dat" none ⟨none, [.name "i"]⟩ (some ⟨none, [.name "j"]⟩)]],
     .instr [] "jmp" none ⟨none, [.num 0]⟩ none] := rfl

/-- its tokens: `i for 2 ⏎ j for i ⏎ dat i , j ⏎ rof ⏎ rof ⏎ jmp 0 ⏎` -/
example : flat ex.toProg.render =
    [⟨.text, "i"⟩, ⟨.text, "for"⟩, ⟨.number, "2"⟩, ⟨.newline, ""⟩,
     ⟨.text, "j"⟩, ⟨.text, "for"⟩, ⟨.text, "i"⟩, ⟨.newline, ""⟩,
     ⟨.text, "dat"⟩, ⟨.text, "i"⟩, ⟨.comma, ","⟩, ⟨.text, "j"⟩, ⟨.newline, ""⟩,
     ⟨.text, "rof"⟩, ⟨.newline, ""⟩, ⟨.text, "rof"⟩, ⟨.newline, ""⟩,
     ⟨.text, "jmp"⟩, ⟨.number, "0"⟩, ⟨.newline, ""⟩] := by decide

/-! ### from bytes: the same program, indented, with tabs and without blanks around the comma -/

private def exText : String := "i for 2\n  j  for i\n\tdat i,j\n  rof\nrof\njmp 0\n"

private def exLines : List SrcLine :=
  [{ words := [(identWord "i", [' ']), (identWord "for", [' ']), (numWord 2, [])] },
   { lead := [' ', ' '], words := [(identWord "j", [' ', ' ']), (identWord "for", [' ']), (identWord "i", [])] },
   { lead := ['\t'], words := [(identWord "dat", [' ']), (identWord "i", []), (Word.sym ',', []), (identWord "j", [])] },
   { lead := [' ', ' '], words := [(identWord "rof", [])] },
   { words := [(identWord "rof", [])] },
   { words := [(identWord "jmp", [' ']), (numWord 0, [])] }]

private theorem exLines_text : String.ofList (renderLines exLines) = exText := by decide

private theorem ex_lexOK : ex.LexOK := by
  refine And.intro (by decide) (And.intro (fun s h => by cases h) (And.intro ?_ trivial))
  exact And.intro (by decide) (And.intro (fun s h => by cases h; decide) (And.intro trivial trivial))

private theorem exLines_same : SameLines exLines ex.srcLines :=
  ⟨⟨rfl, rfl⟩, ⟨rfl, rfl⟩, ⟨rfl, rfl⟩, ⟨rfl, rfl⟩, ⟨rfl, rfl⟩, ⟨rfl, rfl⟩, trivial⟩

/-- `CompileWarrior` on the bytes of the text returns the reference meaning of the item program -/
example (cfg : Config) (sc : Spec.Cfg) (hv : cfg.validate = true)
    (h63 : cfg.coreSize.toNat < 2 ^ 63) (hr : CfgRel cfg sc) :
    assemble cfg exText.toUTF8.data.toList =
      match Spec.meaning sc ex.toItems with
      | some m => .ok (toWD {} m)
      | none => .err := by
  rw [← exLines_text]
  exact assemble_meaning_for_utf8 cfg sc ex exU 3 ex_unroll (by decide) ex_ok ex_lexOK (by decide)
    hv h63 hr ex_closed (exU_wf sc.M) exLines (by decide) exLines_same

end Example

/-
  Counterexample to the statement without "no shadowing" (`FProg.OK`), checked with #eval on the
  models (cfg: ICWS'94, core 8000, length 100):

      i for 2 / i for 2 / dat i / rof / rof

    assemble cfg src = .err           -- pass 1 turns the inner header into `1 for 2`
    Spec.meaning sc [.for_ [] "i" [.num 2] [.for_ [] "i" [.num 2] [.instr [] "dat" none ⟨none, [.name "i"]⟩ none]]]
      = some { code := [DAT #0,1; DAT #0,1; DAT #0,2; DAT #0,2], start := 0 }
-/

end AsmComposeFor
end Gmars
