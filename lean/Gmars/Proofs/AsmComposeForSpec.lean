/-
  C08, composition with FOR blocks, part (b1): the reference's item-level unrolling
  (`Spec.unrollAux`, frozen) as equations, and how it composes.

    * `unrollAux_nil`, `unrollAux_other`, `unrollAux_for`   one step of the unrolling
    * `unrollAux_mono`      more fuel, same result
    * `unrollAux_append`    unrolling `xs ++ ys` = unrolling `xs`, then `ys`
    * `unrollAux_flatMap`   unrolling the concatenation of a family of item lists
    * `unrollAux_block`     a label-free block with a literal count: the copies, then the rest
-/
import Gmars.Spec.Program

namespace Gmars
namespace AsmComposeFor
open Gmars.Spec

/-! ## one step -/

theorem unrollAux_nil (f : Nat) (before : List Item) (k : Nat) :
    unrollAux (f + 1) [] before k = some (before, k) := by
  rw [unrollAux]

theorem unrollAux_for (f : Nat) (labels : List String) (ctr : String) (cnt : List ETok)
    (body rest before : List Item) (k : Nat) :
    unrollAux (f + 1) (.for_ labels ctr cnt body :: rest) before k =
      (expandEqus 64 (equsOf before) cnt).bind fun toks =>
      (Expr.evalInt toks).bind fun n =>
      if n < 0 then none else
      (unrollAux f ((List.range n.toNat).flatMap fun i => substItems ctr [.num (i + 1)] body)
          before (k + 1)).bind fun p =>
      unrollAux f rest (before ++ attachLabels labels (p.1.drop before.length)) p.2 := by
  rw [unrollAux]
  rfl

/-- the item is a FOR block -/
def isFor : Item → Bool
  | .for_ .. => true
  | _ => false

theorem unrollAux_other (f : Nat) (i : Item) (rest before : List Item) (k : Nat)
    (h : isFor i = false) :
    unrollAux (f + 1) (i :: rest) before k = unrollAux f rest (before ++ [i]) k := by
  cases i with
  | for_ l c n b => simp [isFor] at h
  | _ => rw [unrollAux]; intro _ _ _ _ h'; cases h'

theorem unrollAux_zero (items before : List Item) (k : Nat) : unrollAux 0 items before k = none := by
  rw [unrollAux]

/-! ## fuel -/

/-- more fuel, same result -/
theorem unrollAux_succ : ∀ (f : Nat) (items before : List Item) (k : Nat) (r : List Item × Nat),
    unrollAux f items before k = some r → unrollAux (f + 1) items before k = some r := by
  intro f
  induction f with
  | zero => intro items before k r h; rw [unrollAux_zero] at h; cases h
  | succ f ih =>
    intro items before k r h
    cases items with
    | nil => rw [unrollAux_nil] at h ⊢; exact h
    | cons i rest =>
      cases hi : isFor i with
      | false =>
        rw [unrollAux_other _ _ _ _ _ hi] at h ⊢
        exact ih _ _ _ _ h
      | true =>
        cases i with
        | for_ labels ctr cnt body =>
          rw [unrollAux_for] at h ⊢
          cases hE : expandEqus 64 (equsOf before) cnt with
          | none => rw [hE] at h; cases h
          | some toks =>
            rw [hE] at h
            simp only [Option.bind_some] at h ⊢
            cases hN : Expr.evalInt toks with
            | none => rw [hN] at h; cases h
            | some n =>
              rw [hN] at h
              simp only [Option.bind_some] at h ⊢
              by_cases hn : n < 0
              · rw [if_pos hn] at h; cases h
              · rw [if_neg hn] at h ⊢
                cases hC : unrollAux f ((List.range n.toNat).flatMap fun i =>
                    substItems ctr [.num (i + 1)] body) before (k + 1) with
                | none => rw [hC] at h; cases h
                | some p =>
                  rw [hC] at h
                  rw [ih _ _ _ _ hC]
                  simp only [Option.bind_some] at h ⊢
                  exact ih _ _ _ _ h
        | _ => simp [isFor] at hi

theorem unrollAux_mono {f f' : Nat} {items before : List Item} {k : Nat} {r : List Item × Nat}
    (h : unrollAux f items before k = some r) (hf : f ≤ f') :
    unrollAux f' items before k = some r := by
  induction hf with
  | refl => exact h
  | step _ ih => exact unrollAux_succ _ _ _ _ _ ih

/-! ## concatenation -/

/-- unrolling `xs ++ ys`: unroll `xs`, go on with `ys` -/
theorem unrollAux_append : ∀ (f : Nat) (xs ys before : List Item) (k : Nat) (b' : List Item)
    (k' g : Nat) (r : List Item × Nat),
    unrollAux (f + 1) xs before k = some (b', k') → unrollAux g ys b' k' = some r →
    unrollAux (f + g) (xs ++ ys) before k = some r := by
  intro f
  induction f with
  | zero =>
    intro xs ys before k b' k' g r h1 h2
    cases xs with
    | nil =>
      rw [unrollAux_nil] at h1
      cases h1
      simpa using h2
    | cons i rest =>
      exfalso
      cases hi : isFor i with
      | false =>
        rw [unrollAux_other _ _ _ _ _ hi, unrollAux_zero] at h1; cases h1
      | true =>
        cases i with
        | for_ labels ctr cnt body =>
          rw [unrollAux_for] at h1
          cases hE : expandEqus 64 (equsOf before) cnt with
          | none => rw [hE] at h1; cases h1
          | some toks =>
            rw [hE] at h1
            simp only [Option.bind_some] at h1
            cases hN : Expr.evalInt toks with
            | none => rw [hN] at h1; cases h1
            | some n =>
              rw [hN] at h1
              simp only [Option.bind_some] at h1
              by_cases hn : n < 0
              · rw [if_pos hn] at h1; cases h1
              · rw [if_neg hn, unrollAux_zero] at h1; cases h1
        | _ => simp [isFor] at hi
  | succ f ih =>
    intro xs ys before k b' k' g r h1 h2
    cases xs with
    | nil =>
      rw [unrollAux_nil] at h1
      cases h1
      exact unrollAux_mono h2 (by simp)
    | cons i rest =>
      have e : f + 1 + g = (f + g) + 1 := by omega
      cases hi : isFor i with
      | false =>
        rw [unrollAux_other _ _ _ _ _ hi] at h1
        rw [List.cons_append, e, unrollAux_other _ _ _ _ _ hi]
        exact ih _ _ _ _ _ _ _ _ h1 h2
      | true =>
        cases i with
        | for_ labels ctr cnt body =>
          rw [unrollAux_for] at h1
          rw [List.cons_append, e, unrollAux_for]
          cases hE : expandEqus 64 (equsOf before) cnt with
          | none => rw [hE] at h1; cases h1
          | some toks =>
            rw [hE] at h1
            simp only [Option.bind_some] at h1 ⊢
            cases hN : Expr.evalInt toks with
            | none => rw [hN] at h1; cases h1
            | some n =>
              rw [hN] at h1
              simp only [Option.bind_some] at h1 ⊢
              by_cases hn : n < 0
              · rw [if_pos hn] at h1; cases h1
              · rw [if_neg hn] at h1 ⊢
                cases hC : unrollAux (f + 1) ((List.range n.toNat).flatMap fun i =>
                    substItems ctr [.num (i + 1)] body) before (k + 1) with
                | none => rw [hC] at h1; cases h1
                | some p =>
                  rw [hC] at h1
                  have hg : 1 ≤ g := by
                    cases g with
                    | zero => rw [unrollAux_zero] at h2; cases h2
                    | succ _ => omega
                  rw [unrollAux_mono hC (show f + 1 ≤ f + g by omega)]
                  simp only [Option.bind_some] at h1 ⊢
                  exact ih _ _ _ _ _ _ _ _ h1 h2
        | _ => simp [isFor] at hi

/-- unrolling the concatenation of the item lists `items i` (`i` in `is`), each of which unrolls
    to `out i` with `K i` expansions, whatever stands before it -/
theorem unrollAux_flatMap (items out : Nat → List Item) (K : Nat → Nat) (F : Nat → Nat)
    (is : List Nat)
    (h : ∀ i ∈ is, ∀ before k, unrollAux (F i + 1) (items i) before k =
      some (before ++ out i, k + K i)) :
    ∀ (before : List Item) (k f : Nat), (is.map F).sum + 1 ≤ f →
      unrollAux f (is.flatMap items) before k =
        some (before ++ is.flatMap out, k + (is.map K).sum) := by
  induction is with
  | nil =>
    intro before k f hf
    obtain ⟨f', rfl⟩ : ∃ f', f = f' + 1 := ⟨f - 1, by simp at hf; omega⟩
    simp [unrollAux_nil]
  | cons i is ih =>
    intro before k f hf
    have h1 := h i (List.mem_cons_self ..) before k
    have h2 := ih (fun j hj => h j (List.mem_cons_of_mem _ hj)) (before ++ out i) (k + K i)
      ((is.map F).sum + 1) (Nat.le_refl _)
    have h3 := unrollAux_append _ _ _ _ _ _ _ _ _ h1 h2
    have h4 := unrollAux_mono h3 (f' := f) (by simp only [List.map_cons, List.sum_cons] at hf; omega)
    simp only [List.flatMap_cons, List.map_cons, List.sum_cons]
    rw [h4]
    simp [List.append_assoc, Nat.add_assoc]

/-! ## a label-free block with a literal count -/

theorem attachLabels_nil (items : List Item) : attachLabels [] items = items := by
  induction items with
  | nil => rfl
  | cons i r ih => cases i <;> simp [attachLabels, ih]

theorem expandEqus_num (f : Nat) (tab : List (String × List ETok)) (m : Nat) :
    expandEqus (f + 1) tab [.num m] = some [.num m] := by
  simp [expandEqus]

theorem evalInt_num (m : Nat) (h : m < 2 ^ 31) : Expr.evalInt [.num m] = some (m : Int) := by
  have h' : (m : Int) ≤ 2147483647 := by omega
  simp [Expr.evalInt, Expr.eval, Expr.binary, Expr.unary, Expr.loop, h']

/-- **a label-free block with the literal count `m`**: its `m` copies are unrolled in place
    (inner blocks included), then the rest of the program -/
theorem unrollAux_block (f : Nat) (ctr : String) (m : Nat) (hm : m < 2 ^ 31)
    (body rest before : List Item) (k : Nat) (X : List Item) (k1 : Nat) (r : List Item × Nat)
    (hcopies : unrollAux f ((List.range m).flatMap fun i => substItems ctr [.num (i + 1)] body)
      before (k + 1) = some (before ++ X, k1))
    (hrest : unrollAux f rest (before ++ X) k1 = some r) :
    unrollAux (f + 1) (.for_ [] ctr [.num m] body :: rest) before k = some r := by
  rw [unrollAux_for, expandEqus_num]
  simp only [Option.bind_some]
  rw [evalInt_num m hm]
  simp only [Option.bind_some]
  rw [if_neg (by omega), Int.toNat_natCast, hcopies]
  simp only [Option.bind_some, List.drop_left, attachLabels_nil]
  exact hrest

end AsmComposeFor
end Gmars
