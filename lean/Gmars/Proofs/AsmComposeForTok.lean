/-
  C03 / C08, composition with FOR blocks, part (a): the token level.

    * `assembleTokens`         `CompileWarrior` behind the lexer (`assemble_eq_tokens`)
    * `parseCompile_labels`    parser + compiler on the token rendering of a label program
                               (the second half of `AsmCompose.assemble_meaning_labels`)
    * `FInstr`, `FInstr.line`  a label-free instruction and its token line (`ForPass.Line`)
    * `parseCompile_instrs`    parser + compiler on the token lines of label-free instructions
    * `assemble_for_tokens`    a structured token program whose manual unrolling (`FullUnroll`,
                               at most 12 expansions) consists of the token lines of the
                               instructions `U` assembles to `Spec.meaningFlat` of `U`
-/
import Gmars.Proofs.AsmCompose
import Gmars.Proofs.ForUnroll

namespace Gmars
namespace AsmComposeFor
open Gmars.AsmCompose Gmars.Render Gmars.AsmLine Gmars.ExprProofs Gmars.ForPass

/-! ## `CompileWarrior` behind the lexer -/

/-- `CompileWarrior` on the token stream of the lexer: pass loop, parser, compiler -/
def assembleTokens (cfg : Config) (tokens : List Token) : AsmRes :=
  match forLoop 14 0 tokens with
  | .error r => r
  | .ok tokens => parseCompile cfg tokens

theorem assemble_eq_tokens (cfg : Config) (src : List UInt8) :
    assemble cfg src = assembleTokens cfg (lexBytes src) := by
  unfold assemble assembleTokens parseCompile
  simp only
  cases forLoop 14 0 (lexBytes src) <;> rfl

/-- when the pass loop hands on `out` -/
theorem assembleTokens_of_forLoop (cfg : Config) (ts out : List Token)
    (h : forLoop 14 0 ts = .ok out) : assembleTokens cfg ts = parseCompile cfg out := by
  unfold assembleTokens
  rw [h]

/-! ## parser and compiler on a label program -/

/-- the parser and the compiler stage on the token rendering of a label program (no EQU, no FOR):
    the reference meaning, or an error exactly when the reference rejects the program -/
theorem parseCompile_labels (cfg : Config) (sc : Spec.Cfg) (p : SProg)
    (hv : cfg.validate = true) (h63 : cfg.coreSize.toNat < 2 ^ 63) (hr : CfgRel cfg sc)
    (hlex : p.LexOK) (hnames : p.NamesOK) (hplain : ∀ it ∈ p.items, it.Plain)
    (hnd : (p.labels ++ constNames).Nodup) (hcl : ∀ x ∈ p.names, x ∈ p.labels)
    (hsmall : linstrCount p.litems < 2 ^ 63)
    (hw : ProgWF sc.M (labelsFrom 0 p.litems) 0 p.litems) :
    parseCompile cfg p.toX.tokens =
      match Spec.meaningFlat sc (p.litems.map LItem.toItem) with
      | some m => .ok (toWD p.meta m)
      | none => .err := by
  have hc : Compile.compileX lexString cfg p.toX.lines p.toX.metadata =
      Compile.optM ((Spec.meaningFlat sc (p.litems.map LItem.toItem)).map (toWD p.toX.metadata)) := by
    rw [compileX_congr lexString cfg p.toX.lines (lrender 0 p.litems) _ (p.norm_lines hlex hplain).1]
    exact compileX_meaning_labels lexString cfg sc p.litems _ hv h63 hr hnd hsmall hw
  rw [parseCompile_of cfg _ p.toX.lines p.toX.metadata
    (parse_xprog p.toX (p.toX_OK hlex hnames hnd hcl)) _ hc]
  cases Spec.meaningFlat sc (p.litems.map LItem.toItem) <;> rfl

/-! ## label-free instructions and their token lines -/

/-- an instruction without labels: opcode, optional modifier, A operand, optional B operand -/
structure FInstr where
  op : String
  md : Option String
  a : LOperand
  b : Option LOperand

/-- as a line of a label program -/
def FInstr.toL (i : FInstr) : LItem := .instr [] i.op i.md i.a i.b

/-- as an item of the reference -/
def FInstr.toItem (i : FInstr) : Spec.Item := i.toL.toItem

/-- as an item of a source program: no colon, no blank line behind it -/
def FInstr.toS (i : FInstr) : SItem := .instr [] i.op i.md i.a i.b 0

/-- the tokens of an operand: the mode symbol, if written, and the expression -/
def operandToks (o : LOperand) : List Token :=
  (match o.mode with
   | some m => [(⟨.symbol, String.singleton m.sym⟩ : Token)]
   | none => []) ++ o.expr.tokens

/-- the tokens of the B operand with its comma -/
def bToks : Option LOperand → List Token
  | some bo => commaTok :: operandToks bo
  | none => []

/-- **the token line of an instruction**: `op[.md] [mode]exprA [, [mode]exprB]` and a newline -/
def FInstr.line (i : FInstr) : Line :=
  { toks := (⟨.text, opString i.op i.md⟩ : Token) :: (operandToks i.a ++ bToks i.b), nl := nlTok }

/-- lexical conditions: the opcode word is an identifier, names are identifiers, operators are
    `+ - * / %` -/
def FInstr.LexOK (i : FInstr) : Prop := i.toS.LexOK

/-- the opcode word is taken for an opcode by the parser (an opcode or contains a `.`) -/
def FInstr.OpOK (i : FInstr) : Prop := IsOpName (opString i.op i.md)

/-- the names used in the operands -/
def FInstr.names (i : FInstr) : List String := LItemNames i.toL

theorem wOperand_tokens (o : LOperand) (h : NTLexOK o.expr) :
    (wOperand o).toOperand.tokens = operandToks o := by
  unfold Operand.tokens operandToks
  rw [wOperand_toks o h]
  cases hm : o.mode <;> simp [wOperand, WOperand.toOperand, hm]

/-- the item tokens of the parser-level program are the tokens of the line -/
theorem FInstr.toX_tokens (i : FInstr) (h : i.LexOK) : i.toS.toX.tokens = i.line.flat := by
  obtain ⟨op, md, a, b⟩ := i
  obtain ⟨_, hop, ha, hb⟩ := h
  simp only [FInstr.toS, SItem.toX, XItem.tokens, WItem.toItem, Item.tokens, Stmt.tokens,
    WStmt.toStmt, wStmt, List.map_nil, labelTokens, List.nil_append, identWord_val hop,
    FInstr.line, Line.flat, List.replicate_zero, List.cons_append, List.append_assoc]
  have ea : (wOperand a).toOperand.tokens = operandToks a := wOperand_tokens a ha
  show _ :: (WOperand.toOperand (wOperand a)).tokens ++ _ = _
  rw [ea]
  congr 2
  cases b with
  | none => rfl
  | some bo =>
    have eb : (wOperand bo).toOperand.tokens = operandToks bo := wOperand_tokens bo (hb bo rfl)
    simp only [Stmt.bTokens, Option.map_some, bToks, List.cons_append, eb]

/-- the source program of a list of label-free instructions -/
def instrProg (U : List FInstr) : SProg := { items := U.map FInstr.toS }

theorem instrProg_litems (U : List FInstr) : (instrProg U).litems = U.map FInstr.toL := by
  unfold SProg.litems instrProg SProg.finL
  simp only [List.append_nil]
  induction U with
  | nil => rfl
  | cons i r ih => simp only [List.map_cons, List.filterMap_cons, FInstr.toS, SItem.toL, ih,
      List.map_nil, FInstr.toL]

theorem instrProg_tokens (U : List FInstr) (h : ∀ i ∈ U, i.LexOK) :
    (instrProg U).toX.tokens = flat (U.map FInstr.line) ++ [ForPass.eofTok] := by
  simp only [XProg.tokens, SProg.toX, instrProg, List.replicate_zero, List.nil_append,
    XProg.finTokens, Option.map_none]
  congr 1
  induction U with
  | nil => rfl
  | cons i r ih =>
    simp only [List.map_cons, xitemsTokens, flat_cons,
      ih (fun x hx => h x (List.mem_cons_of_mem _ hx))]
    rw [← FInstr.toX_tokens i (h i (List.mem_cons_self ..))]

theorem instrProg_meta (U : List FInstr) : (instrProg U).meta = {} := by
  unfold SProg.meta XProg.metadata SProg.toX instrProg
  simp only
  generalize ({} : AsmMeta) = m
  induction U with
  | nil => rfl
  | cons i r ih => simpa [xitemsMeta, FInstr.toS, SItem.toX, XItem.metadata, WItem.toItem,
      Item.metadata] using ih

theorem instrProg_labels (U : List FInstr) : (instrProg U).labels = [] := by
  unfold SProg.labels
  rw [instrProg_litems]
  suffices h : ∀ k, labelsFrom k (U.map FInstr.toL) = [] by rw [h]; rfl
  induction U with
  | nil => intro k; rfl
  | cons i r ih => intro k; simp [FInstr.toL, labelsFrom, ih]

theorem instrProg_names (U : List FInstr) : (instrProg U).names = U.flatMap FInstr.names := by
  unfold SProg.names
  rw [instrProg_litems, List.flatMap_map]
  rfl

/-- **parser and compiler on the token lines of label-free instructions**: `U` is a list of
    instructions without labels whose operands are expressions over numbers (no names: there are
    no labels to refer to).  The parser and the compiler stage on their token lines return the
    reference meaning of `U`, or an error exactly when the reference rejects the program. -/
theorem parseCompile_instrs (cfg : Config) (sc : Spec.Cfg) (U : List FInstr)
    (hv : cfg.validate = true) (h63 : cfg.coreSize.toNat < 2 ^ 63) (hr : CfgRel cfg sc)
    (hlex : ∀ i ∈ U, i.LexOK) (hop : ∀ i ∈ U, i.OpOK) (hnames : ∀ i ∈ U, i.names = [])
    (hsmall : U.length < 2 ^ 63)
    (hw : ProgWF sc.M [] 0 (U.map FInstr.toL)) :
    parseCompile cfg (flat (U.map FInstr.line) ++ [ForPass.eofTok]) =
      match Spec.meaningFlat sc (U.map FInstr.toItem) with
      | some m => .ok (toWD {} m)
      | none => .err := by
  have hlab := instrProg_labels U
  have hlf : labelsFrom 0 (instrProg U).litems = [] := by
    have := hlab
    unfold SProg.labels at this
    exact List.map_eq_nil_iff.1 this
  have hmain := parseCompile_labels cfg sc (instrProg U) hv h63 hr
    ⟨by
      intro it hit
      obtain ⟨i, hi, rfl⟩ := List.mem_map.1 hit
      exact hlex i hi,
     by intro kw e h; cases h⟩
    ⟨by
      intro it hit
      obtain ⟨i, hi, rfl⟩ := List.mem_map.1 hit
      exact And.intro (fun p hp => by cases hp) (hop i hi),
     by intro kw e h; cases h⟩
    (by
      intro it hit
      obtain ⟨i, hi, rfl⟩ := List.mem_map.1 hit
      trivial)
    (by rw [hlab]; decide)
    (by
      intro x hx
      rw [instrProg_names] at hx
      obtain ⟨i, hi, hxi⟩ := List.mem_flatMap.1 hx
      rw [hnames i hi] at hxi
      cases hxi)
    (by
      rw [instrProg_litems]
      have : linstrCount (U.map FInstr.toL) ≤ (U.map FInstr.toL).length := by
        unfold linstrCount; exact List.length_filter_le _ _
      simp only [List.length_map] at this
      omega)
    (by rw [hlf, instrProg_litems]; exact hw)
  rw [instrProg_tokens U hlex, instrProg_meta, instrProg_litems, List.map_map] at hmain
  exact hmain

/-! ## the whole assembler on a structured token program -/

/-- **`assemble_for_tokens`** (token level).  `p` is a structured token program (instruction
    lines and FOR blocks, nested and sequential, label-free, literal counts or counters of
    enclosing blocks) whose manual unrolling `ls` (`FullUnroll p ls k`: every block replaced by the
    copies of its body with the counter substituted) takes `k ≤ 12` block expansions and consists
    of the token lines of the label-free instructions `U`.  Then `CompileWarrior` behind the lexer
    — pass loop, parser, compiler — returns on the tokens of `p` the reference meaning of the
    unrolled program `U`, or an error exactly when the reference rejects `U`. -/
theorem assemble_for_tokens (cfg : Config) (sc : Spec.Cfg) (p : ForPass.Prog) (ls : List Line) (k : Nat)
    (h : FullUnroll p ls k) (hk : k ≤ 12) (U : List FInstr) (hls : ls = U.map FInstr.line)
    (hv : cfg.validate = true) (h63 : cfg.coreSize.toNat < 2 ^ 63) (hr : CfgRel cfg sc)
    (hlex : ∀ i ∈ U, i.LexOK) (hop : ∀ i ∈ U, i.OpOK) (hnames : ∀ i ∈ U, i.names = [])
    (hsmall : U.length < 2 ^ 63)
    (hw : ProgWF sc.M [] 0 (U.map FInstr.toL)) :
    assembleTokens cfg (flat p.render ++ [ForPass.eofTok]) =
      match Spec.meaningFlat sc (U.map FInstr.toItem) with
      | some m => .ok (toWD {} m)
      | none => .err := by
  rw [assembleTokens_of_forLoop cfg _ _ (for_unroll_full p ls k h hk), hls]
  exact parseCompile_instrs cfg sc U hv h63 hr hlex hop hnames hsmall hw

/-- the same from bytes: any source the lexer turns into the tokens of `p` -/
theorem assemble_for_lexed (cfg : Config) (sc : Spec.Cfg) (p : ForPass.Prog) (ls : List Line) (k : Nat)
    (h : FullUnroll p ls k) (hk : k ≤ 12) (U : List FInstr) (hls : ls = U.map FInstr.line)
    (hv : cfg.validate = true) (h63 : cfg.coreSize.toNat < 2 ^ 63) (hr : CfgRel cfg sc)
    (hlex : ∀ i ∈ U, i.LexOK) (hop : ∀ i ∈ U, i.OpOK) (hnames : ∀ i ∈ U, i.names = [])
    (hsmall : U.length < 2 ^ 63)
    (hw : ProgWF sc.M [] 0 (U.map FInstr.toL))
    (src : List UInt8) (hsrc : lexBytes src = flat p.render ++ [ForPass.eofTok]) :
    assemble cfg src =
      match Spec.meaningFlat sc (U.map FInstr.toItem) with
      | some m => .ok (toWD {} m)
      | none => .err := by
  rw [assemble_eq_tokens, hsrc]
  exact assemble_for_tokens cfg sc p ls k h hk U hls hv h63 hr hlex hop hnames hsmall hw

end AsmComposeFor
end Gmars
