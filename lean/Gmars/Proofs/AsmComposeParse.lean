/-
  C03 / C09, composition, part 2b: the parser stage on programs with ORG lines and a final END
  line.  Extends `Gmars/Proofs/RenderParse.lean` (instruction statements, comment lines, blank
  lines) by the pseudo-op lines `ORG expr` (anywhere) and `END [expr]` (last line read: the parser
  stops there, whatever follows).

    * `XItem`, `XProg`, `XProg.tokens`, `XProg.lines`, `XProg.OK`
    * `parse_xprog` : `parse p.tokens = .ok (some (p.lines, p.metadata))`
-/
import Gmars.Proofs.RenderParse

namespace Gmars
namespace AsmCompose
open Gmars.Parser Gmars.Render

/-! ### pseudo-op steps on live states -/

theorem isOp_of_pseudo {kw : String} (h : (⟨.text, kw⟩ : Token).isPseudoOp = true) :
    (⟨.text, kw⟩ : Token).isOp = true := by
  simp only [Token.isOp]
  split
  · rename_i h'; simp at h'
  · split
    · rfl
    · split
      · rfl
      · exact h

theorem isPseudoOp_of_lower {kw k : String} (h : lowerStr kw = k)
    (hk : k = "org" ∨ k = "end") : (⟨.text, kw⟩ : Token).isPseudoOp = true := by
  unfold Token.isPseudoOp
  simp only [h]
  rcases hk with rfl | rfl <;> rfl

theorem step_labels_pseudo (c : Ctx) (kw : String) (hk : (⟨.text, kw⟩ : Token).isPseudoOp = true)
    (rest : List Token) :
    step .labels (c.st ⟨.text, kw⟩ rest) = .ok (c.st ⟨.text, kw⟩ rest, some .pseudoOp) := by
  have h1 := isOp_of_pseudo hk
  simp [step, Ctx.st, h1, hk, opState]

theorem step_pseudoOp_org (c : Ctx) (kw : String) (hk : lowerStr kw = "org") (t : Token)
    (ht : t.isExpressionTerm = true) (rest : List Token) :
    step .pseudoOp (c.st ⟨.text, kw⟩ (t :: rest)) =
      .ok (({ c with cur := { c.cur with op := kw, typ := .pseudoOp } } : Ctx).st t rest,
           some .pseudoExpr) := by
  simp [step, Ctx.st, advance, next, ht, hk]

/-- `parsePseudoExpr` up to a newline: the newline is counted and consumed, the line emitted -/
theorem step_pseudoExpr_newline (c : Ctx) (toks : List Token)
    (hts : ∀ t ∈ toks, t.isExpressionTerm = true)
    (t'' : Token) (rest'' : List Token) (t0 : Token) (rest0 : List Token)
    (h : t0 :: rest0 = toks ++ nlTok :: t'' :: rest'') :
    step .pseudoExpr (c.st t0 rest0) =
      .ok (({ c with references := addRefs toks c.references,
                     cur := { c.cur with a := some (c.cur.a.getD [] ++ toks),
                                         newlines := c.cur.newlines + 1 },
                     lines := c.lines ++ [{ c.cur with a := some (c.cur.a.getD [] ++ toks),
                                                           newlines := c.cur.newlines + 1 }],
                     line := c.line + 1 } : Ctx).st t'' rest'',
           some .line) := by
  simp only [step]
  rw [collectExpr_ok "parsePseudoExpr" toks hts nlTok rfl _ c t0 rest0 h]
  simp [bind, Except.bind, pure, Except.pure, Ctx.st, nlTok, emit, incNewlines, advance, next]

/-! ### ORG lines -/

/-- the source line of `kw toks` (a pseudo-op line with an argument) at line `ln` -/
def pseudoLine (ln : Int) (kw : String) (toks : List Token) : SourceLine :=
  { line := ln, typ := .pseudoOp, op := kw, a := some toks, newlines := 1 }

/-- `kw toks \n` and `k` further newlines, at the start of a line -/
theorem reach_org (kw : String) (hk : lowerStr kw = "org") (toks : List Token)
    (hne : toks ≠ []) (hts : ∀ t ∈ toks, t.isExpressionTerm = true) (k : Nat) (c : Ctx)
    (t' : Token) (ht' : (t'.typ == TokType.newline) = false) (rest' : List Token)
    (t0 : Token) (rest0 : List Token)
    (h : t0 :: rest0 = (⟨.text, kw⟩ : Token) :: (toks ++ nlTok :: List.replicate k nlTok) ++ t' :: rest') :
    ∃ cur', ReachLe (8 * (toks.length + k + 2)) .line (c.st t0 rest0) .line
      (({ line := c.line + 1 + k, codeLine := c.codeLine, cur := cur',
          metadata := c.metadata,
          lines := c.lines ++ pseudoLine c.line kw toks :: blankLines (c.line + 1) k,
          symbols := c.symbols, references := addRefs toks c.references } : Ctx).st t' rest') := by
  simp only [List.cons_append, List.cons.injEq, List.append_assoc] at h
  obtain ⟨rfl, rfl⟩ := h
  obtain ⟨t1, ts1, rfl⟩ : ∃ t1 ts1, toks = t1 :: ts1 := by
    cases toks with
    | nil => exact absurd rfl hne
    | cons a b => exact ⟨a, b, rfl⟩
  obtain ⟨t'', rest'', h''⟩ : ∃ t'' rest'', t'' :: rest'' = List.replicate k nlTok ++ t' :: rest' := by
    cases k <;> simp [List.replicate_succ]
  rw [← h'']
  have hpo := isPseudoOp_of_lower hk (Or.inl rfl)
  have h1 := ReachLe.one (step_line_text c kw (t1 :: ts1 ++ nlTok :: t'' :: rest''))
  have h2 := h1.trans (ReachLe.one (step_labels_pseudo _ kw hpo _))
  have h3 := h2.trans (ReachLe.one (step_pseudoOp_org _ kw hk t1 (hts t1 (by simp)) _))
  have h4 := h3.trans (ReachLe.one (step_pseudoExpr_newline _ (t1 :: ts1) hts t'' rest'' t1
    (ts1 ++ nlTok :: t'' :: rest'') (by simp)))
  obtain ⟨cur', h5⟩ := reach_blanks _ k t' ht' rest' t'' rest'' h''
  refine ⟨cur', (h4.trans h5).mono' ?_ (by simp; omega)⟩
  simp [pseudoLine]

/-! ### items -/

/-- an item of the base development (statement or comment line) or an ORG line -/
inductive XItem
  | base (it : Item)
  | org (kw : String) (toks : List Token) (blanks : Nat)

def XItem.tokens : XItem → List Token
  | .base it => it.tokens
  | .org kw toks k => (⟨.text, kw⟩ : Token) :: (toks ++ nlTok :: List.replicate k nlTok)

def XItem.OK : XItem → Prop
  | .base it => it.OK
  | .org kw toks _ => lowerStr kw = "org" ∧ toks ≠ [] ∧ ∀ t ∈ toks, t.isExpressionTerm = true

def XItem.lines : XItem → Int → Int → List SourceLine
  | .base it, ln, cl => it.lines ln cl
  | .org kw toks k, ln, _ => pseudoLine ln kw toks :: blankLines (ln + 1) k

def XItem.blanks : XItem → Nat
  | .base it => it.blanks
  | .org _ _ k => k

def XItem.codeLines : XItem → Int
  | .base it => it.codeLines
  | .org _ _ _ => 0

def XItem.labelNames : XItem → List String
  | .base it => it.labelNames
  | .org _ _ _ => []

def XItem.refs : XItem → List String → List String
  | .base it, refs => it.refs refs
  | .org _ toks _, refs => addRefs toks refs

def XItem.metadata : XItem → AsmMeta → AsmMeta
  | .base it, m => it.metadata m
  | .org _ _ _, m => m

theorem reach_xitem (it : XItem) (hok : it.OK) (c : Ctx) (hf : FreshLabels it.labelNames c.symbols)
    (t' : Token) (ht' : (t'.typ == TokType.newline) = false) (rest' : List Token)
    (t0 : Token) (rest0 : List Token) (h : t0 :: rest0 = it.tokens ++ t' :: rest') :
    ∃ cur', ReachLe (8 * it.tokens.length) .line (c.st t0 rest0) .line
      (({ line := c.line + 1 + it.blanks, codeLine := c.codeLine + it.codeLines, cur := cur',
          metadata := it.metadata c.metadata, lines := c.lines ++ it.lines c.line c.codeLine,
          symbols := it.labelNames.reverse ++ c.symbols,
          references := it.refs c.references } : Ctx).st t' rest') := by
  cases it with
  | base it => exact reach_item it hok c hf t' ht' rest' t0 rest0 h
  | org kw toks k =>
    obtain ⟨hk, hne, hts⟩ := hok
    obtain ⟨cur', h1⟩ := reach_org kw hk toks hne hts k c t' ht' rest' t0 rest0 h
    refine ⟨cur', h1.mono' ?_ (by simp [XItem.tokens]; omega)⟩
    simp [XItem.lines, XItem.blanks, XItem.codeLines, XItem.metadata, XItem.labelNames, XItem.refs]

def xitemsTokens : List XItem → List Token
  | [] => []
  | it :: r => it.tokens ++ xitemsTokens r

def xitemsLines : List XItem → Int → Int → List SourceLine
  | [], _, _ => []
  | it :: r, ln, cl => it.lines ln cl ++ xitemsLines r (ln + 1 + it.blanks) (cl + it.codeLines)

def xitemsLabels : List XItem → List String
  | [] => []
  | it :: r => it.labelNames ++ xitemsLabels r

def xitemsRefs : List XItem → List String → List String
  | [], refs => refs
  | it :: r, refs => xitemsRefs r (it.refs refs)

def xitemsMeta : List XItem → AsmMeta → AsmMeta
  | [], m => m
  | it :: r, m => xitemsMeta r (it.metadata m)

def xitemsEndLine : List XItem → Int → Int
  | [], ln => ln
  | it :: r, ln => xitemsEndLine r (ln + 1 + it.blanks)

def xitemsEndCode : List XItem → Int → Int
  | [], cl => cl
  | it :: r, cl => xitemsEndCode r (cl + it.codeLines)

/-- every item starts with a token that is not a newline -/
theorem xitem_tokens_head (it : XItem) (r : List Token) :
    ∃ t1 rest1, it.tokens ++ r = t1 :: rest1 ∧ (t1.typ == TokType.newline) = false := by
  cases it with
  | base it =>
    cases it with
    | stmt s =>
      simp only [XItem.tokens, Item.tokens, Stmt.tokens, List.append_assoc]
      cases hl : s.labels with
      | nil => exact ⟨_, _, by simp [labelTokens]; exact ⟨rfl, rfl⟩, rfl⟩
      | cons lc ls =>
        obtain ⟨l, cl⟩ := lc
        exact ⟨_, _, by simp [labelTokens]; exact ⟨rfl, rfl⟩, rfl⟩
    | comment v k => exact ⟨_, _, by simp [XItem.tokens, Item.tokens]; exact ⟨rfl, rfl⟩, rfl⟩
  | org kw toks k => exact ⟨_, _, by simp [XItem.tokens]; exact ⟨rfl, rfl⟩, rfl⟩

theorem reach_xitems (t' : Token) (ht' : (t'.typ == TokType.newline) = false) (rest' : List Token) :
    ∀ (items : List XItem) (c : Ctx) (t0 : Token) (rest0 : List Token),
      (∀ it ∈ items, it.OK) → FreshLabels (xitemsLabels items) c.symbols →
      t0 :: rest0 = xitemsTokens items ++ t' :: rest' →
      ∃ cur', ReachLe (8 * (xitemsTokens items).length) .line (c.st t0 rest0) .line
        (({ line := xitemsEndLine items c.line, codeLine := xitemsEndCode items c.codeLine, cur := cur',
            metadata := xitemsMeta items c.metadata,
            lines := c.lines ++ xitemsLines items c.line c.codeLine,
            symbols := (xitemsLabels items).reverse ++ c.symbols,
            references := xitemsRefs items c.references } : Ctx).st t' rest') := by
  intro items
  induction items with
  | nil =>
    intro c t0 rest0 _ _ h
    simp [xitemsTokens] at h; obtain ⟨rfl, rfl⟩ := h
    exact ⟨c.cur, by
      simpa [xitemsTokens, xitemsEndLine, xitemsEndCode, xitemsMeta, xitemsLines, xitemsLabels,
        xitemsRefs] using ReachLe.refl .line (c.st t0 rest0)⟩
  | cons it items ih =>
    intro c t0 rest0 hok hf h
    simp only [xitemsLabels, FreshLabels_append] at hf
    simp only [xitemsTokens, List.append_assoc] at h
    obtain ⟨t1, rest1, h1, ht1⟩ : ∃ t1 rest1, t1 :: rest1 = xitemsTokens items ++ t' :: rest' ∧
        (t1.typ == TokType.newline) = false := by
      cases items with
      | nil => exact ⟨t', rest', by simp [xitemsTokens], ht'⟩
      | cons it' items' =>
        obtain ⟨t1, rest1, e, ht1⟩ := xitem_tokens_head it' (xitemsTokens items' ++ t' :: rest')
        exact ⟨t1, rest1, by simp only [xitemsTokens, List.append_assoc]; exact e.symm, ht1⟩
    rw [← h1] at h
    obtain ⟨cur1, r1⟩ := reach_xitem it (hok it (by simp)) c hf.1 t1 ht1 rest1 t0 rest0 h
    obtain ⟨cur2, r2⟩ := ih
      ({ line := c.line + 1 + it.blanks, codeLine := c.codeLine + it.codeLines, cur := cur1,
         metadata := it.metadata c.metadata, lines := c.lines ++ it.lines c.line c.codeLine,
         symbols := it.labelNames.reverse ++ c.symbols,
         references := it.refs c.references } : Ctx)
      t1 rest1 (fun x hx => hok x (by simp [hx])) hf.2 h1
    refine ⟨cur2, (r1.trans r2).mono' ?_ (by simp [xitemsTokens]; omega)⟩
    simp [xitemsEndLine, xitemsEndCode, xitemsMeta, xitemsLines, xitemsLabels, xitemsRefs]

/-! ### the END line: the parser stops -/

/-- a live state in which `end` has been seen -/
def stE (c : Ctx) (t : Token) (rest : List Token) : PState := { c.st t rest with endSeen := true }

def withEnd (p : PState) : PState := { p with endSeen := true }

theorem advance_withEnd (p : PState) : advance (withEnd p) = withEnd (advance p) := by
  unfold advance next withEnd
  simp only
  split
  · rfl
  · split <;> rfl

theorem noteReference_withEnd (p : PState) : noteReference (withEnd p) = withEnd (noteReference p) := by
  unfold noteReference withEnd
  simp only
  split <;> rfl

theorem exprLoop_withEnd (site : String) : ∀ (fuel : Nat) (p : PState) (acc : List Token),
    exprLoop site fuel (withEnd p) acc =
      (exprLoop site fuel p acc).map (fun r => (withEnd r.1, r.2)) := by
  intro fuel
  induction fuel with
  | zero => intro p acc; rfl
  | succ n ih =>
    intro p acc
    unfold exprLoop
    have h1 : (withEnd p).nextToken = p.nextToken := rfl
    have h2 : frozen (withEnd p) = frozen p := rfl
    rw [h1, h2]
    split
    · split
      · rfl
      · rw [noteReference_withEnd, advance_withEnd, ih]
    · rfl

theorem collectExpr_withEnd (site : String) (p : PState) :
    collectExpr site (withEnd p) = (collectExpr site p).map (fun r => (withEnd r.1, r.2)) := by
  unfold collectExpr
  have h1 : (withEnd p).rest = p.rest := rfl
  rw [h1, exprLoop_withEnd]
  cases exprLoop site (p.rest.length + 1) p [] <;> rfl

theorem step_line_end (p : PState) (h : p.endSeen = true) : step .line p = .ok (p, none) := by
  simp [step, h]

theorem step_pseudoOp_end_expr (c : Ctx) (kw : String) (hk : lowerStr kw = "end") (t : Token)
    (ht : t.isExpressionTerm = true) (rest : List Token) :
    step .pseudoOp (c.st ⟨.text, kw⟩ (t :: rest)) =
      .ok (withEnd (Ctx.st { c with cur := { c.cur with op := kw, typ := .pseudoOp } } t rest),
           some .pseudoExpr) := by
  simp [step, Ctx.st, advance, next, ht, hk, withEnd]

theorem step_pseudoExpr_newline_end (c : Ctx) (toks : List Token)
    (hts : ∀ t ∈ toks, t.isExpressionTerm = true)
    (t'' : Token) (rest'' : List Token) (t0 : Token) (rest0 : List Token)
    (h : t0 :: rest0 = toks ++ nlTok :: t'' :: rest'') :
    step .pseudoExpr (withEnd (c.st t0 rest0)) =
      .ok (withEnd (Ctx.st
            { c with
              references := addRefs toks c.references,
              cur := { c.cur with a := some (c.cur.a.getD [] ++ toks),
                                  newlines := c.cur.newlines + 1 },
              lines := c.lines ++ [{ c.cur with a := some (c.cur.a.getD [] ++ toks),
                                                newlines := c.cur.newlines + 1 }],
              line := c.line + 1 } t'' rest''),
           some .line) := by
  simp only [step]
  rw [collectExpr_withEnd, collectExpr_ok "parsePseudoExpr" toks hts nlTok rfl _ c t0 rest0 h]
  simp [bind, Except.bind, pure, Except.pure, Except.map, Ctx.st, nlTok, emit, incNewlines, advance,
    next, withEnd]

/-- `END` without argument, its newline and one more token -/
theorem step_pseudoOp_end_bare (c : Ctx) (kw : String) (hk : lowerStr kw = "end")
    (t'' : Token) (rest'' : List Token) :
    step .pseudoOp (c.st ⟨.text, kw⟩ (nlTok :: t'' :: rest'')) =
      .ok (withEnd (Ctx.st
            { c with
              cur := { c.cur with op := kw, typ := .pseudoOp, newlines := c.cur.newlines + 1 },
              lines := c.lines ++ [{ c.cur with op := kw, typ := .pseudoOp,
                                                newlines := c.cur.newlines + 1 }],
              line := c.line + 1 } t'' rest''),
           some .line) := by
  simp [step, Ctx.st, advance, next, hk, withEnd, nlTok, Token.isExpressionTerm, Token.noOperandsOk,
    emit, incNewlines]

/-- the END line `kw [toks]` as the parser records it -/
def endLine (ln : Int) (kw : String) (toks : List Token) : SourceLine :=
  { line := ln, typ := .pseudoOp, op := kw, a := if toks.isEmpty then none else some toks,
    newlines := 1 }

/-- from the start of an END line the parser runs to its end: the line is recorded, the
    references of the argument are noted, everything after the newline is left unread -/
theorem run_end (kw : String) (hk : lowerStr kw = "end") (toks : List Token)
    (hts : ∀ t ∈ toks, t.isExpressionTerm = true) (c : Ctx)
    (t'' : Token) (rest'' : List Token) (t0 : Token) (rest0 : List Token)
    (h : t0 :: rest0 = (⟨.text, kw⟩ : Token) :: (toks ++ nlTok :: t'' :: rest'')) (fuel : Nat) :
    run (fuel + 5) .line (c.st t0 rest0) =
      .ok (withEnd (Ctx.st
            { line := c.line + 1, codeLine := c.codeLine, cur := endLine c.line kw toks,
              metadata := c.metadata,
              lines := c.lines ++ [endLine c.line kw toks],
              symbols := c.symbols, references := addRefs toks c.references } t'' rest'')) := by
  simp only [List.cons.injEq] at h
  obtain ⟨rfl, rfl⟩ := h
  have hpo := isPseudoOp_of_lower hk (Or.inr rfl)
  rw [run_some (step_line_text c kw _), run_some (step_labels_pseudo _ kw hpo _)]
  cases toks with
  | nil =>
    simp only [List.nil_append]
    rw [run_some (step_pseudoOp_end_bare _ kw hk t'' rest''), run_none (step_line_end _ rfl)]
    simp [endLine, addRefs]
  | cons t1 ts1 =>
    rw [List.cons_append, run_some (step_pseudoOp_end_expr _ kw hk t1 (hts t1 (by simp)) _),
      run_some (step_pseudoExpr_newline_end _ (t1 :: ts1) hts t'' rest'' t1 _ (by simp)),
      run_none (step_line_end _ rfl)]
    simp [endLine]

theorem _root_.Gmars.Render.ReachLe.finish_run {b m : Nat} {s s' : St} {p p' q : PState} (h : ReachLe b s p s' p')
    (hs : ∀ fuel, run (fuel + m) s' p' = .ok q) {fuel : Nat} (hf : b + m ≤ fuel) :
    run fuel s p = .ok q := by
  obtain ⟨n, hn, h⟩ := h
  obtain ⟨k, rfl⟩ : ∃ k, fuel = (k + m) + n := ⟨fuel - m - n, by omega⟩
  rw [h, hs]

/-! ### programs -/

/-- `lead` blank lines, the items, and either the end of the input or an END line `kw [toks]`
    followed, after its newline, by `trail` (not empty: at least the EOF token; never read) -/
structure XProg where
  lead : Nat := 0
  items : List XItem
  fin : Option (String × List Token) := none
  trail : List Token := [eofTok]

def XProg.finTokens (p : XProg) : List Token :=
  match p.fin with
  | none => [eofTok]
  | some (kw, toks) => (⟨.text, kw⟩ : Token) :: (toks ++ nlTok :: p.trail)

/-- token rendering of the program -/
def XProg.tokens (p : XProg) : List Token :=
  List.replicate p.lead nlTok ++ (xitemsTokens p.items ++ p.finTokens)

def XProg.labels (p : XProg) : List String := xitemsLabels p.items

def XProg.finLines (p : XProg) : List SourceLine :=
  match p.fin with
  | none => []
  | some (kw, toks) => [endLine (xitemsEndLine p.items (1 + p.lead)) kw toks]

/-- the source lines the program denotes -/
def XProg.lines (p : XProg) : List SourceLine :=
  blankLines 1 p.lead ++ (xitemsLines p.items (1 + p.lead) 0 ++ p.finLines)

def XProg.metadata (p : XProg) : AsmMeta := xitemsMeta p.items {}

def XProg.refs (p : XProg) : List String :=
  match p.fin with
  | none => xitemsRefs p.items []
  | some (_, toks) => addRefs toks (xitemsRefs p.items [])

structure XProg.OK (p : XProg) : Prop where
  items : ∀ it ∈ p.items, it.OK
  nodup : p.labels.Nodup
  notPredefined : ∀ l ∈ p.labels, l ∉ predefined
  /-- every name referred to is a label of the program or predefined -/
  defined : ∀ x ∈ p.refs, x ∈ p.labels ∨ x ∈ predefined
  fin : ∀ kw toks, p.fin = some (kw, toks) →
    lowerStr kw = "end" ∧ (∀ t ∈ toks, t.isExpressionTerm = true) ∧ p.trail ≠ []

theorem symbolsValid_of {refs syms : List String} (h : ∀ x ∈ refs, x ∈ syms) (p : PState)
    (hr : p.references = refs) (hs : p.symbols = syms) : symbolsValid p = true := by
  unfold symbolsValid
  rw [hr, hs, List.all_eq_true]
  intro x hx
  simpa using h x hx

/-- **the parser on programs with ORG lines and a final END line** -/
theorem parse_xprog (p : XProg) (hp : p.OK) :
    parse p.tokens = .ok (some (p.lines, p.metadata)) := by
  obtain ⟨lead, items, fin, trail⟩ := p
  have hfresh : FreshLabels (xitemsLabels items) predefined :=
    (FreshLabels_iff _ _).mpr ⟨hp.nodup, hp.notPredefined⟩
  -- the first token after the items
  obtain ⟨tf, restf, hfin, htf⟩ : ∃ tf restf, XProg.finTokens ⟨lead, items, fin, trail⟩ = tf :: restf ∧
      (tf.typ == TokType.newline) = false := by
    cases fin with
    | none => exact ⟨eofTok, [], rfl, rfl⟩
    | some kt => obtain ⟨kw, toks⟩ := kt; exact ⟨_, _, rfl, rfl⟩
  obtain ⟨t1, rest1, h1, ht1⟩ : ∃ t1 rest1, t1 :: rest1 = xitemsTokens items ++ tf :: restf ∧
      (t1.typ == TokType.newline) = false := by
    cases items with
    | nil => exact ⟨tf, restf, by simp [xitemsTokens], htf⟩
    | cons it' items' =>
      obtain ⟨t1, rest1, e, ht1⟩ := xitem_tokens_head it' (xitemsTokens items' ++ tf :: restf)
      exact ⟨t1, rest1, by simp only [xitemsTokens, List.append_assoc]; exact e.symm, ht1⟩
  obtain ⟨t0, rest0, h0⟩ : ∃ t0 rest0, t0 :: rest0 = List.replicate lead nlTok ++ t1 :: rest1 := by
    cases lead <;> simp [List.replicate_succ]
  have htoks : XProg.tokens ⟨lead, items, fin, trail⟩ = t0 :: rest0 := by
    simp only [XProg.tokens]; rw [hfin, h0, h1]
  obtain ⟨cur1, r1⟩ := reach_blanks ({} : Ctx) lead t1 ht1 rest1 t0 rest0 h0
  obtain ⟨cur2, r2⟩ := reach_xitems tf htf restf items
    ({ line := (1 : Int) + lead, cur := cur1, lines := [] ++ blankLines 1 lead } : Ctx)
    t1 rest1 hp.items hfresh h1
  have r12 := r1.trans r2
  have hlen : (XProg.tokens ⟨lead, items, fin, trail⟩).length =
      lead + ((xitemsTokens items).length + (restf.length + 1)) := by
    simp [XProg.tokens, hfin]
  cases fin with
  | none =>
    simp only [XProg.finTokens, List.cons.injEq] at hfin
    obtain ⟨rfl, rfl⟩ := hfin
    have hrun := r12.finish (step_line_eof _ _)
      (fuel := runFuel (XProg.tokens ⟨lead, items, none, trail⟩)) (by simp only [runFuel, hlen]; omega)
    simp only [parse, htoks, newParser_cons]
    rw [← htoks, hrun]
    have hv : symbolsValid (Ctx.st
        { line := xitemsEndLine items ((1 : Int) + lead),
          codeLine := xitemsEndCode items 0, cur := { line := xitemsEndLine items ((1 : Int) + lead) },
          metadata := xitemsMeta items {},
          lines := [] ++ blankLines 1 lead ++ xitemsLines items ((1 : Int) + lead) 0,
          symbols := (xitemsLabels items).reverse ++ predefined,
          references := xitemsRefs items [] } eofTok []) = true := by
      apply symbolsValid_of (refs := xitemsRefs items []) (syms := (xitemsLabels items).reverse ++ predefined)
      · intro x hx
        rcases hp.defined x hx with h | h
        · simp [XProg.labels] at h; simp [h]
        · simp [h]
      · rfl
      · rfl
    have hv' := hv
    simp only [predefined] at hv'
    simp [bind, Except.bind, pure, Except.pure, Ctx.st, XProg.lines, XProg.metadata, XProg.finLines] at hv' ⊢
    exact hv'
  | some kt =>
    obtain ⟨kw, toks⟩ := kt
    obtain ⟨hk, hts, htr⟩ := hp.fin kw toks rfl
    obtain ⟨t'', rest'', rfl⟩ : ∃ t'' rest'', trail = t'' :: rest'' := by
      cases trail with
      | nil => exact absurd rfl htr
      | cons a b => exact ⟨a, b, rfl⟩
    have hend := run_end kw hk toks hts
        ({ line := xitemsEndLine items ((1 : Int) + lead),
            codeLine := xitemsEndCode items 0, cur := cur2,
            metadata := xitemsMeta items {},
            lines := [] ++ blankLines 1 lead ++ xitemsLines items ((1 : Int) + lead) 0,
            symbols := (xitemsLabels items).reverse ++ predefined,
            references := xitemsRefs items [] } : Ctx) t'' rest'' tf restf hfin.symm
    have hlen' : restf.length = toks.length + (rest''.length + 2) := by
      simp only [XProg.finTokens, List.cons.injEq] at hfin
      rw [← hfin.2]; simp
    have hrun := r12.finish_run hend
      (fuel := runFuel (XProg.tokens ⟨lead, items, some (kw, toks), t'' :: rest''⟩))
      (by simp only [runFuel, hlen]; omega)
    simp only [parse, htoks, newParser_cons]
    rw [← htoks, hrun]
    have hv : symbolsValid (withEnd (Ctx.st
        { line := xitemsEndLine items ((1 : Int) + lead) + 1,
          codeLine := xitemsEndCode items 0,
          cur := endLine (xitemsEndLine items ((1 : Int) + lead)) kw toks,
          metadata := xitemsMeta items {},
          lines := ([] ++ blankLines 1 lead ++ xitemsLines items ((1 : Int) + lead) 0) ++
              [endLine (xitemsEndLine items ((1 : Int) + lead)) kw toks],
          symbols := (xitemsLabels items).reverse ++ predefined,
          references := addRefs toks (xitemsRefs items []) } t'' rest'')) = true := by
      apply symbolsValid_of (refs := addRefs toks (xitemsRefs items []))
        (syms := (xitemsLabels items).reverse ++ predefined)
      · intro x hx
        rcases hp.defined x hx with h | h
        · simp [XProg.labels] at h; simp [h]
        · simp [h]
      · rfl
      · rfl
    have hv' := hv
    simp only [predefined] at hv'
    simp [bind, Except.bind, pure, Except.pure, Ctx.st, withEnd, XProg.lines, XProg.metadata,
      XProg.finLines] at hv' ⊢
    exact hv'

end AsmCompose
end Gmars
