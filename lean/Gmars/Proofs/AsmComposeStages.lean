/-
  C03 / C09, composition of the assembler stages, part 1: `assemble` unfolded into its stages for
  token streams without a `for` token.

    * `scan_noEquTok`     the symbol scanner reports "symbol redefined" only from an `equ` line:
                          on a token list without any `equ` token it never returns an error
    * `forLoop_plain`     a terminated token list without `for` tokens on which the scanner does
                          not report an error passes the scan / expand loop unchanged
    * `assemble_stages`   `assemble cfg src` = parser and compiler stage on `lexBytes src`
    * `assemble_stages_noEqu`  the same with the syntactic condition "no `equ` token"
    * `assemble_stages_lines`, `assemble_stages_end`  the same for programs WITH EQU lines, given
                          as FOR-free lines none of which redefines a symbol (`ForPass.ScanPre`)
-/
import Gmars.Proofs.AsmTerm
import Gmars.Proofs.ForPass

namespace Gmars
namespace AsmCompose

open ForPass Scan

/-! ## the scanner without `equ` -/

/-- the token is the text `equ` (in any case) -/
def isEquTok (t : Token) : Prop := t.typ = .text ∧ lowerStr t.val = "equ"

/-- no token of the list is an `equ` -/
def NoEquTok (l : List Token) : Prop := ∀ t ∈ l, ¬isEquTok t

/-- the scanner result is not the error "symbol redefined" -/
def NoErr (res : Scan.Res) : Prop := res ≠ .ok none

theorem noErr_stop (syms : SymTab) (b : Bool) : NoErr (stop syms b) := by
  intro h; simp [stop] at h

theorem noErr_hang (f : Fault) : NoErr (.error f) := by
  intro h; cases h

/-- the two state functions reachable without `equ`, on every look-ahead in front of `rest` -/
def NoErrAt (cur : Token) (rest : List Token) : Prop :=
  (∀ lb syms, NoErr (scanLabels cur rest lb syms)) ∧ (∀ syms, NoErr (scanConsumeLine cur rest syms))

theorem noErr_consume (cur : Token) (rest : List Token) (syms : SymTab)
    (ih : ∀ t r, rest = t :: r → NoErrAt t r) : NoErr (scanConsumeLine cur rest syms) := by
  rw [scanConsumeLine.eq_def]
  split
  · cases rest with
    | nil => exact noErr_hang _
    | cons t r =>
      simp only
      split
      · exact noErr_stop _ _
      · split
        · exact (ih t r rfl).1 _ _
        · exact (ih t r rfl).2 _
  · exact noErr_stop _ _
  · exact noErr_stop _ _
  · cases rest with
    | nil => exact noErr_hang _
    | cons t r =>
      simp only
      split
      · exact noErr_stop _ _
      · exact (ih t r rfl).2 _

theorem noErr_labels (cur : Token) (rest : List Token) (lb : List String) (syms : SymTab)
    (hne : ¬isEquTok cur) (ih : ∀ t r, rest = t :: r → NoErrAt t r) :
    NoErr (scanLabels cur rest lb syms) := by
  have hcl := fun syms => noErr_consume cur rest syms ih
  rw [scanLabels.eq_def]
  split
  · split
    · split
      · exact absurd ⟨‹_›, ‹_›⟩ hne
      · exact noErr_stop _ _
      · exact noErr_stop _ _
      · exact hcl _
    · split
      · exact hcl _
      · cases rest with
        | nil => exact noErr_hang _
        | cons t r =>
          simp only
          split
          · exact noErr_stop _ _
          · exact (ih t r rfl).1 _ _
  · cases rest with
    | nil => exact noErr_hang _
    | cons t r =>
      simp only
      split
      · exact noErr_stop _ _
      · exact (ih t r rfl).1 _ _
  · cases rest with
    | nil => exact noErr_hang _
    | cons t r =>
      simp only
      split
      · exact noErr_stop _ _
      · exact (ih t r rfl).1 _ _
  · cases rest with
    | nil => exact noErr_hang _
    | cons t r =>
      simp only
      split
      · exact noErr_stop _ _
      · exact (ih t r rfl).1 _ _
  · exact noErr_stop _ _
  · exact hcl _

theorem noErrAt (rest : List Token) : ∀ cur, NoEquTok (cur :: rest) → NoErrAt cur rest := by
  induction rest with
  | nil =>
    intro cur hne
    have ih : ∀ t r, ([] : List Token) = t :: r → NoErrAt t r := fun _ _ h => by cases h
    exact ⟨fun lb syms => noErr_labels cur [] lb syms (hne cur (List.mem_cons_self ..)) ih,
      fun syms => noErr_consume cur [] syms ih⟩
  | cons t r ih =>
    intro cur hne
    have ih' : ∀ t' r', t :: r = t' :: r' → NoErrAt t' r' := by
      intro t' r' h
      cases h
      exact ih t (fun x hx => hne x (List.mem_cons_of_mem _ hx))
    exact ⟨fun lb syms => noErr_labels cur _ lb syms (hne cur (List.mem_cons_self ..)) ih',
      fun syms => noErr_consume cur _ syms ih'⟩

/-- **the scanner fails only on `equ` lines**: the only error of `ScanInput` is "symbol
    redefined", raised at the end of an EQU line; on a token list without `equ` tokens the
    scanner does not return an error -/
theorem scan_noEquTok (ts : List Token) (h : NoEquTok ts) : scanInput ts ≠ .ok none := by
  cases ts with
  | nil =>
    have : scanInput [] = stop [] := by
      simp [scanInput, scanLine, Token.zero, scanConsumeLine]
    rw [this]; exact noErr_stop _ _
  | cons t r =>
    have hg := noErrAt r t h
    show NoErr (scanLine t r [])
    unfold scanLine
    split
    · exact hg.1 _ _
    · exact hg.2 _

/-! ## the pass loop -/

theorem hasTerm_of_terminated {ts : List Token} (h : Terminated ts) : HasTerm ts := by
  obtain ⟨pre, t, rfl, ht, _⟩ := h
  exact ⟨t, by simp, ht⟩

/-- a terminated token list without `for` tokens on which the scanner reports no error is handed
    to the parser unchanged -/
theorem forLoop_plain (fuel depth : Nat) (ts : List Token) (hnf : NoForTok ts) (hterm : HasTerm ts)
    (hscan : scanInput ts ≠ .ok none) : forLoop (fuel + 1) depth ts = .ok ts := by
  rcases forLoop_noForTok fuel depth ts hnf hterm with ⟨_, _, h⟩ | ⟨h, _⟩
  · exact h
  · exact absurd h hscan

/-! ## `assemble` in stages -/

/-- the parser and the compiler stage of `CompileWarrior` on a token stream -/
def parseCompile (cfg : Config) (tokens : List Token) : AsmRes :=
  match parse tokens with
  | .error f => .fault f
  | .ok none => .err
  | .ok (some (lines, ameta)) =>
    if compileUnmodelled lexString cfg lines ameta then .unmodelled
    else match compile lexString cfg lines ameta with
      | .error f => .fault f
      | .ok none => .err
      | .ok (some w) => .ok w

/-- a warrior or an (ordinary) error -/
def resOf : Option WarriorData → AsmRes
  | some w => .ok w
  | none => .err

/-- when the parser succeeds and the compiler stage answers inside the modelled subset -/
theorem parseCompile_of (cfg : Config) (tokens : List Token) (lines : List SourceLine)
    (ameta : AsmMeta) (hp : parse tokens = .ok (some (lines, ameta)))
    (r : Option WarriorData)
    (hc : Compile.compileX lexString cfg lines ameta = Compile.optM r) :
    parseCompile cfg tokens = resOf r := by
  unfold parseCompile
  rw [hp]
  simp only
  unfold compileUnmodelled compile
  generalize Compile.compileX lexString cfg lines ameta = x at hc
  subst hc
  cases r <;> rfl

end AsmCompose

open AsmCompose ForPass in
/-- **1. `assemble_stages`**: for a source whose token stream has no `for` token and on which the
    symbol scanner does not fail (see `scan_noEquTok`: no `equ` token is enough; in general: no
    symbol is defined twice by EQU lines), `CompileWarrior` is the parser followed by the compiler
    stage on the lexer's token stream: the scan / expand loop hands the tokens on unchanged after
    one scan and zero expansion passes. -/
theorem assemble_stages (cfg : Config) (src : List UInt8) (hnf : NoForTok (lexBytes src))
    (hscan : scanInput (lexBytes src) ≠ .ok none) :
    assemble cfg src = parseCompile cfg (lexBytes src) := by
  unfold assemble parseCompile
  simp only
  rw [forLoop_plain 13 0 _ hnf (hasTerm_of_terminated (lexBytes_terminated src)) hscan]
  rfl

open AsmCompose ForPass in
/-- `assemble_stages` with a syntactic condition: no `for` and no `equ` token -/
theorem assemble_stages_noEqu (cfg : Config) (src : List UInt8) (hnf : NoForTok (lexBytes src))
    (hne : NoEquTok (lexBytes src)) :
    assemble cfg src = parseCompile cfg (lexBytes src) :=
  assemble_stages cfg src hnf (scan_noEquTok _ hne)

open AsmCompose ForPass in
/-- `assemble_stages` for programs WITH EQU lines, line form: the token stream consists of
    FOR-free lines (`ScanPre`: lines the scanner skips and EQU lines `labels… equ value…` none of
    which defines a symbol a second time: `Scan.define … = some …`) and a terminator -/
theorem assemble_stages_lines (cfg : Config) (src : List UInt8) (ls : List Line) (z : Token)
    (rest : List Token) (syms : SymTab) (hsrc : lexBytes src = flat ls ++ z :: rest)
    (hwf : ∀ l ∈ ls, l.WF) (hpre : ScanPre ls [] syms) (hz : z.isTerm = true) :
    assemble cfg src = parseCompile cfg (lexBytes src) := by
  unfold assemble parseCompile
  simp only
  rw [hsrc, forLoop_forFree 13 0 ls z rest syms hwf hpre hz]
  rfl

open AsmCompose ForPass in
/-- the same up to an END line: whatever follows the `end` is not scanned (FOR blocks behind
    `end` are never expanded) -/
theorem assemble_stages_end (cfg : Config) (src : List UInt8) (ls : List Line) (lbls : List Token)
    (f : Token) (rest : List Token) (syms : SymTab)
    (hsrc : lexBytes src = flat ls ++ (lbls ++ f :: rest))
    (hwf : ∀ l ∈ ls, l.WF) (hpre : ScanPre ls [] syms)
    (hl : ∀ x ∈ lbls, isLabelTok x = true) (h1 : f.typ = .text) (h3 : lowerStr f.val = "end") :
    assemble cfg src = parseCompile cfg (lexBytes src) := by
  unfold assemble parseCompile
  simp only
  rw [hsrc, forLoop_end 13 0 ls lbls f rest syms hwf hpre hl h1 h3]
  rfl

end Gmars
