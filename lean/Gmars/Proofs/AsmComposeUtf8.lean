/-
  Text as bytes: the Go reader (`bufio.Reader.ReadRune`, modelled by `decodeRunes`) decodes the
  UTF-8 encoding of a list of characters to these characters.

    * `decodeRunes_utf8Encode` : `decodeRunes (cs.flatMap String.utf8EncodeChar) = cs`
    * `decodeRunes_toUTF8`     : `decodeRunes (String.ofList cs).toUTF8.data.toList = cs`
-/
import Gmars.Model.Lex

namespace Gmars
namespace AsmCompose

theorem u8_beq (a b : UInt8) : (a == b) = decide (a.toNat = b.toNat) := by
  by_cases h : a = b
  · subst h; simp
  · have : a.toNat ≠ b.toNat := fun e => h (UInt8.toNat_inj.1 e)
    simp [h, this]

theorem u8_ofNat (n : Nat) (h : n < 256) : (UInt8.ofNat n).toNat = n := by
  rw [UInt8.toNat_ofNat']; omega

theorem char_range (c : Char) : c.toNat < 55296 ∨ 57343 < c.toNat ∧ c.toNat < 1114112 := c.valid

/-- one byte -/
theorem decodeRune_enc1 (c : Char) (h : c.toNat ≤ 127) (rest : List UInt8) :
    Utf8.decodeRune (UInt8.ofNat c.toNat) rest = (c, 1) := by
  have hb : (UInt8.ofNat c.toNat).toNat = c.toNat := u8_ofNat _ (by omega)
  unfold Utf8.decodeRune
  rw [if_pos (by rw [UInt8.lt_iff_toNat_lt, hb]; exact Nat.lt_succ_of_le h), hb, Char.ofNat_toNat]

/-- two bytes -/
theorem decodeRune_enc2 (c : Char) (h1 : ¬c.toNat ≤ 127) (h2 : c.toNat ≤ 2047) (rest : List UInt8) :
    Utf8.decodeRune (UInt8.ofNat (c.toNat / 64 % 32 + 192)) (UInt8.ofNat (c.toNat % 64 + 128) :: rest) =
      (c, 2) := by
  have hb0 : (UInt8.ofNat (c.toNat / 64 % 32 + 192)).toNat = c.toNat / 64 + 192 := by
    rw [u8_ofNat _ (by omega)]; omega
  have hb1 : (UInt8.ofNat (c.toNat % 64 + 128)).toNat = c.toNat % 64 + 128 := u8_ofNat _ (by omega)
  unfold Utf8.decodeRune
  simp only [Utf8.isCont, Utf8.low6, UInt8.lt_iff_toNat_lt, UInt8.le_iff_toNat_le, hb0, hb1,
    UInt8.toNat_ofNat, Bool.and_eq_true, decide_eq_true_eq]
  rw [if_neg (by omega), if_pos (by omega), if_pos (by omega)]
  have : (c.toNat / 64 + 192) % 32 * 64 + (c.toNat % 64 + 128) % 64 = c.toNat := by omega
  rw [this, Char.ofNat_toNat]

/-- three bytes -/
theorem decodeRune_enc3 (c : Char) (h2 : ¬c.toNat ≤ 2047) (h3 : c.toNat ≤ 65535) (rest : List UInt8) :
    Utf8.decodeRune (UInt8.ofNat (c.toNat / 4096 % 16 + 224))
      (UInt8.ofNat (c.toNat / 64 % 64 + 128) :: UInt8.ofNat (c.toNat % 64 + 128) :: rest) = (c, 3) := by
  have hv := char_range c
  have hb0 : (UInt8.ofNat (c.toNat / 4096 % 16 + 224)).toNat = c.toNat / 4096 + 224 := by
    rw [u8_ofNat _ (by omega)]; omega
  have hb1 : (UInt8.ofNat (c.toNat / 64 % 64 + 128)).toNat = c.toNat / 64 % 64 + 128 :=
    u8_ofNat _ (by omega)
  have hb2 : (UInt8.ofNat (c.toNat % 64 + 128)).toNat = c.toNat % 64 + 128 := u8_ofNat _ (by omega)
  unfold Utf8.decodeRune
  simp only [Utf8.isCont, Utf8.second, Utf8.low6, u8_beq, UInt8.lt_iff_toNat_lt, UInt8.le_iff_toNat_le,
    hb0, hb1, hb2, UInt8.toNat_ofNat, Bool.and_eq_true, decide_eq_true_eq]
  rw [if_neg (by omega), if_neg (by omega), if_pos (by omega)]
  rw [if_pos]
  · have : (c.toNat / 4096 + 224) % 16 * 4096 + (c.toNat / 64 % 64 + 128) % 64 * 64 +
        (c.toNat % 64 + 128) % 64 = c.toNat := by omega
    rw [this, Char.ofNat_toNat]
  · refine ⟨?_, by omega, by omega⟩
    repeat' split
    all_goals (first | omega | (simp only [Bool.and_eq_true, decide_eq_true_eq]; omega))

/-- four bytes -/
theorem decodeRune_enc4 (c : Char) (h3 : ¬c.toNat ≤ 65535) (rest : List UInt8) :
    Utf8.decodeRune (UInt8.ofNat (c.toNat / 262144 % 8 + 240))
      (UInt8.ofNat (c.toNat / 4096 % 64 + 128) :: UInt8.ofNat (c.toNat / 64 % 64 + 128) ::
        UInt8.ofNat (c.toNat % 64 + 128) :: rest) = (c, 4) := by
  have hv := char_range c
  have hb0 : (UInt8.ofNat (c.toNat / 262144 % 8 + 240)).toNat = c.toNat / 262144 + 240 := by
    rw [u8_ofNat _ (by omega)]; omega
  have hb1 : (UInt8.ofNat (c.toNat / 4096 % 64 + 128)).toNat = c.toNat / 4096 % 64 + 128 :=
    u8_ofNat _ (by omega)
  have hb2 : (UInt8.ofNat (c.toNat / 64 % 64 + 128)).toNat = c.toNat / 64 % 64 + 128 :=
    u8_ofNat _ (by omega)
  have hb3 : (UInt8.ofNat (c.toNat % 64 + 128)).toNat = c.toNat % 64 + 128 := u8_ofNat _ (by omega)
  unfold Utf8.decodeRune
  simp only [Utf8.isCont, Utf8.second, Utf8.low6, u8_beq, UInt8.lt_iff_toNat_lt, UInt8.le_iff_toNat_le,
    hb0, hb1, hb2, hb3, UInt8.toNat_ofNat, Bool.and_eq_true, decide_eq_true_eq]
  rw [if_neg (by omega), if_neg (by omega), if_neg (by omega), if_pos (by omega)]
  rw [if_pos]
  · have : (c.toNat / 262144 + 240) % 8 * 262144 + (c.toNat / 4096 % 64 + 128) % 64 * 4096 +
        (c.toNat / 64 % 64 + 128) % 64 * 64 + (c.toNat % 64 + 128) % 64 = c.toNat := by omega
    rw [this, Char.ofNat_toNat]
  · refine ⟨⟨?_, by omega, by omega⟩, by omega, by omega⟩
    repeat' split
    all_goals (first | omega | (simp only [Bool.and_eq_true, decide_eq_true_eq]; omega))

/-- the Go reader on the encoding of one character, whatever follows -/
theorem decodeRunes_enc (c : Char) (rest : List UInt8) :
    decodeRunes (String.utf8EncodeChar c ++ rest) = c :: decodeRunes rest := by
  unfold String.utf8EncodeChar
  simp only [Char.toNat_val]
  split
  · rename_i h
    rw [List.cons_append, decodeRunes, decodeRune_enc1 c h]
    rfl
  · rename_i h1
    split
    · rename_i h2
      rw [List.cons_append, decodeRunes, List.cons_append, decodeRune_enc2 c h1 h2]
      rfl
    · rename_i h2
      split
      · rename_i h3
        rw [List.cons_append, decodeRunes, List.cons_append, List.cons_append,
          decodeRune_enc3 c h2 h3]
        rfl
      · rename_i h3
        rw [List.cons_append, decodeRunes, List.cons_append, List.cons_append, List.cons_append,
          decodeRune_enc4 c h3]
        rfl

/-- **the Go reader decodes UTF-8**: the runes `bufio.Reader.ReadRune` delivers for the UTF-8
    encoding of a list of characters are these characters -/
theorem decodeRunes_utf8Encode (cs : List Char) :
    decodeRunes (cs.flatMap String.utf8EncodeChar) = cs := by
  induction cs with
  | nil => simp [decodeRunes]
  | cons c r ih => rw [List.flatMap_cons, decodeRunes_enc, ih]

/-- … stated for `String.toUTF8` -/
theorem decodeRunes_toUTF8 (cs : List Char) :
    decodeRunes (String.ofList cs).toUTF8.data.toList = cs := by
  have : (String.ofList cs).toUTF8.data.toList = cs.flatMap String.utf8EncodeChar := by
    simp [String.toUTF8, List.utf8Encode]
  rw [this, decodeRunes_utf8Encode]

end AsmCompose
end Gmars
