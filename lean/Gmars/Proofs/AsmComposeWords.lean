/-
  C03, composition, part 2c: expression templates (`AsmLine.NT`), names and numbers as the words
  of a source line (`Render.Word`), so that the lexer theorem `Render.lex_tokens_words` applies to
  the programs of `AsmLine.compile_meaning_labels`.

    * `identWord`, `numWord`, `opWord`, `NT.words`, `NT.LexOK`
    * `NT.words_tok`     : the tokens of the words are `NT.tokens`
    * `NT.words_exprOK`, `NT.words_head` : they form a well-formed operand expression
-/
import Gmars.Proofs.AsmLabels
import Gmars.Proofs.Render

namespace Gmars
namespace AsmCompose
open Gmars.Render Gmars.AsmLine Gmars.ExprProofs

/-! ### identifiers -/

/-- the word of a name -/
def identWord (s : String) : Word :=
  match s.toList with
  | c :: cs => .ident c cs
  | [] => .sym ' '

/-- the name is an identifier `[A-Za-z_][A-Za-z0-9_.]*` -/
def identOK (s : String) : Bool := (identWord s).isIdent && (identWord s).valid

theorem identWord_tok {s : String} (h : identOK s = true) : (identWord s).tok = ⟨.text, s⟩ := by
  unfold identOK identWord at h
  unfold identWord
  cases hs : s.toList with
  | nil => rw [hs] at h; simp [Word.isIdent] at h
  | cons c cs =>
    simp only [Word.tok]
    rw [← hs, String.ofList_toList]

theorem identWord_isIdent {s : String} (h : identOK s = true) : (identWord s).isIdent = true := by
  simp only [identOK, Bool.and_eq_true] at h; exact h.1

theorem identWord_valid {s : String} (h : identOK s = true) : (identWord s).valid = true := by
  simp only [identOK, Bool.and_eq_true] at h; exact h.2

theorem identWord_val {s : String} (h : identOK s = true) : (identWord s).tok.val = s := by
  rw [identWord_tok h]

theorem identWord_exprOK {s : String} (h : identOK s = true) : exprWordOK (identWord s) = true := by
  have h1 := identWord_isIdent h
  have h2 := identWord_valid h
  cases hw : identWord s with
  | ident c cs => rw [hw] at h2; simp [exprWordOK, h2]
  | num c cs => rw [hw] at h1; simp [Word.isIdent] at h1
  | sym c => rw [hw] at h1; simp [Word.isIdent] at h1
  | cmp c => rw [hw] at h1; simp [Word.isIdent] at h1

theorem identWord_notMode {s : String} (h : identOK s = true) : isModeWord (identWord s) = false := by
  have h1 := identWord_isIdent h
  cases hw : identWord s with
  | ident c cs => rfl
  | num c cs => rw [hw] at h1; simp [Word.isIdent] at h1
  | sym c => rw [hw] at h1; simp [Word.isIdent] at h1
  | cmp c => rw [hw] at h1; simp [Word.isIdent] at h1

/-! ### numbers -/

/-- the word of a number: its decimal digits -/
def numWord (n : Nat) : Word :=
  match Nat.toDigits 10 n with
  | c :: cs => .num c cs
  | [] => .sym ' '

theorem toDigits_head_ne_zero (n : Nat) (hn : 0 < n) :
    ∃ c cs, Nat.toDigits 10 n = c :: cs ∧ c ≠ '0' := by
  induction n using Nat.strongRecOn with
  | _ n ih =>
    by_cases h : n < 10
    · rw [Nat.toDigits_of_lt_base h]
      refine ⟨_, [], rfl, ?_⟩
      have : ∀ k : Fin 10, 0 < k.val → Nat.digitChar k.val ≠ '0' := by decide
      exact this ⟨n, h⟩ hn
    · have h1 : 0 < n / 10 := by omega
      have h2 : n % 10 < 10 := by omega
      have := Nat.toDigits_append_toDigits (b := 10) (n := n / 10) (d := n % 10) (by omega) h1 h2
      have e : 10 * (n / 10) + n % 10 = n := by omega
      rw [e] at this
      obtain ⟨c, cs, hc, hc0⟩ := ih (n / 10) (by omega) h1
      rw [← this, hc]
      exact ⟨c, cs ++ Nat.toDigits 10 (n % 10), rfl, hc0⟩

theorem numWord_spec (n : Nat) :
    ∃ c cs, Nat.toDigits 10 n = c :: cs ∧ numWord n = .num c cs ∧ (Word.num c cs).valid = true := by
  cases hd : Nat.toDigits 10 n with
  | nil => exact absurd hd Nat.toDigits_ne_nil
  | cons c cs =>
    refine ⟨c, cs, rfl, by simp [numWord, hd], ?_⟩
    have hall : ∀ x ∈ c :: cs, x.isDigit = true := by
      intro x hx
      rw [← hd] at hx
      exact Nat.isDigit_of_mem_toDigits (by omega) (by omega) hx
    simp only [Word.valid, Bool.and_eq_true, List.all_eq_true, Bool.or_eq_true, bne_iff_ne, ne_eq,
      List.isEmpty_iff]
    refine ⟨⟨hall c (by simp), fun x hx => hall x (by simp [hx])⟩, ?_⟩
    by_cases hn : 0 < n
    · obtain ⟨c', cs', h', hc0⟩ := toDigits_head_ne_zero n hn
      rw [hd] at h'
      cases h'
      exact Or.inl hc0
    · have : n = 0 := by omega
      subst this
      right
      have : Nat.toDigits 10 0 = ['0'] := by decide
      rw [this] at hd
      cases hd
      rfl

theorem numWord_tok (n : Nat) : (numWord n).tok = numTok n := by
  obtain ⟨c, cs, hd, hw, _⟩ := numWord_spec n
  rw [hw]
  simp only [Word.tok, numTok]
  rw [← hd]
  rfl

theorem numWord_valid (n : Nat) : (numWord n).valid = true := by
  obtain ⟨c, cs, _, hw, hv⟩ := numWord_spec n
  rw [hw]; exact hv

theorem numWord_exprOK (n : Nat) : exprWordOK (numWord n) = true := by
  obtain ⟨c, cs, _, hw, hv⟩ := numWord_spec n
  rw [hw]; simp [exprWordOK, hv]

theorem numWord_notMode (n : Nat) : isModeWord (numWord n) = false := by
  obtain ⟨c, cs, _, hw, _⟩ := numWord_spec n
  rw [hw]; rfl

/-! ### operators, signs, parentheses -/

/-- the word of an arithmetic operator -/
def opWord (op : String) : Word :=
  match op.toList with
  | [c] => .sym c
  | _ => .sym ' '

def signWord (b : Bool) : Word := .sym (if b then '-' else '+')

theorem opWord_spec {op : String} (h : isArith op) :
    (opWord op).tok = opTok op ∧ exprWordOK (opWord op) = true := by
  rcases h with h | h | h | h | h <;> subst h <;> exact ⟨by decide, by decide⟩

theorem signWord_spec (b : Bool) :
    (signWord b).tok = signTok b ∧ exprWordOK (signWord b) = true ∧ isModeWord (signWord b) = false := by
  cases b <;> exact ⟨by decide, by decide, by decide⟩

/-! ### templates -/

/-- the words of an expression template, in source order -/
def NTwords : NT → List Word
  | .num n => [numWord n]
  | .name s => [identWord s]
  | .signs ss e => ss.map signWord ++ NTwords e
  | .paren e => Word.sym '(' :: (NTwords e ++ [Word.sym ')'])
  | .bin op l r => NTwords l ++ opWord op :: NTwords r

/-- lexical conditions on a template: names are identifiers, operators are `+ - * / %` -/
def NTLexOK : NT → Prop
  | .num _ => True
  | .name s => identOK s = true
  | .signs _ e => NTLexOK e
  | .paren e => NTLexOK e
  | .bin op l r => isArith op ∧ NTLexOK l ∧ NTLexOK r

instance : (e : NT) → Decidable (NTLexOK e)
  | .num _ => isTrue trivial
  | .name s => by unfold NTLexOK; infer_instance
  | .signs _ e => by unfold NTLexOK; exact instDecidableNTLexOK e
  | .paren e => by unfold NTLexOK; exact instDecidableNTLexOK e
  | .bin op l r => by
    unfold NTLexOK
    have := instDecidableNTLexOK l
    have := instDecidableNTLexOK r
    infer_instance

theorem NTwords_tok (e : NT) (h : NTLexOK e) : (NTwords e).map Word.tok = e.tokens := by
  induction e with
  | num n => simp [NTwords, NT.tokens, numWord_tok]
  | name s => simp [NTwords, NT.tokens, identWord_tok h, textTok]
  | signs ss e ih =>
    simp only [NTwords, NT.tokens, List.map_append, List.map_map, ih h]
    congr 1
    apply List.map_congr_left
    intro b _
    exact (signWord_spec b).1
  | paren e ih =>
    simp only [NTwords, NT.tokens, List.map_cons, List.map_append, List.map_nil, ih h]
    rfl
  | bin op l r ihl ihr =>
    obtain ⟨hop, hl, hr⟩ := h
    simp only [NTwords, NT.tokens, List.map_cons, List.map_append, ihl hl, ihr hr,
      (opWord_spec hop).1]

theorem NTwords_exprOK (e : NT) (h : NTLexOK e) : ∀ w ∈ NTwords e, exprWordOK w = true := by
  induction e with
  | num n => intro w hw; simp [NTwords] at hw; subst hw; exact numWord_exprOK n
  | name s => intro w hw; simp [NTwords] at hw; subst hw; exact identWord_exprOK h
  | signs ss e ih =>
    intro w hw
    simp only [NTwords, List.mem_append, List.mem_map] at hw
    rcases hw with ⟨b, _, rfl⟩ | hw
    · exact (signWord_spec b).2.1
    · exact ih h w hw
  | paren e ih =>
    intro w hw
    simp only [NTwords, List.mem_cons, List.mem_append, List.not_mem_nil, or_false] at hw
    rcases hw with rfl | hw | rfl
    · decide
    · exact ih h w hw
    · decide
  | bin op l r ihl ihr =>
    obtain ⟨hop, hl, hr⟩ := h
    intro w hw
    simp only [NTwords, List.mem_cons, List.mem_append] at hw
    rcases hw with hw | rfl | hw
    · exact ihl hl w hw
    · exact (opWord_spec hop).2
    · exact ihr hr w hw

/-- a template starts with a number, a name, a sign or `(`: never with a mode symbol -/
theorem NTwords_head (e : NT) (h : NTLexOK e) :
    ∃ w r, NTwords e = w :: r ∧ isModeWord w = false := by
  induction e with
  | num n => exact ⟨_, [], rfl, numWord_notMode n⟩
  | name s => exact ⟨_, [], rfl, identWord_notMode h⟩
  | signs ss e ih =>
    cases ss with
    | nil =>
      obtain ⟨w, r, hw, hm⟩ := ih h
      exact ⟨w, r, by simp [NTwords, hw], hm⟩
    | cons b bs => exact ⟨signWord b, bs.map signWord ++ NTwords e, by simp [NTwords], (signWord_spec b).2.2⟩
  | paren e ih => exact ⟨_, _, rfl, by decide⟩
  | bin op l r ihl ihr =>
    obtain ⟨w, r', hw, hm⟩ := ihl h.2.1
    exact ⟨w, r' ++ opWord op :: NTwords r, by simp [NTwords, hw], hm⟩

end AsmCompose
end Gmars
