/-
  C05 "assembling returns in time proportional to the size of the input after FOR expansion":
  the machine-checked size bounds that statement rests on. Lean cannot observe time; every stage
  of the model is a total function, and what is bounded here is the SIZE of what each stage
  produces and the NUMBER of rounds each loop performs.

    lex_linear            (AsmCostLex)      (lexBytes src).length ≤ src.length + 1
    parse_linear          (AsmCostParse)    #lines ≤ #tokens, #stored operand tokens ≤ #tokens
    expand_pass_size      (AsmCostExpand)   one FOR pass: out ≤ in + count * in
    compile_linear, compile_rounds, GoodTable.rounds   (AsmCostCompile)
    passes_length, assemble_work_bound, passes_chain, passes_growth, work_le_pow,
    assemble_output_bound   (here)

  `passes fuel depth toks` is the list of token lists the scan/expand loop of `CompileWarrior`
  handles (each is scanned once, all but the last are expanded once); `Work` is the sum of their
  lengths (= `forWork` of the driver), `S` the longest of them.
-/
import Gmars.Model.Assemble
import Gmars.Proofs.AsmCostLex
import Gmars.Proofs.AsmCostParse
import Gmars.Proofs.AsmCostExpand
import Gmars.Proofs.AsmCostCompile
import Gmars.Proofs.AsmTerm

namespace Gmars

/-! ### the token lists the pass loop moves -/

/-- the token lists the scan / expand loop handles, in order (same recursion as `forLoop`; on
    the 13th expansion the loop gives up with "too many passes" after having produced the list) -/
def passes : Nat → Nat → List Token → List (List Token)
  | 0, _, _ => []
  | fuel + 1, depth, tokens =>
    match scanInput tokens with
    | .ok (some (symbols, true)) =>
      match forExpandWith expandAndEvaluate tokens symbols with
      | .ok (some expanded, false) =>
        if depth + 1 > 12 then [tokens, expanded]
        else tokens :: passes fuel (depth + 1) expanded
      | _ => [tokens]
    | _ => [tokens]

/-- `forWork` of Gmars/Driver/AsmRun.lean (copied verbatim): the number of tokens the pass loop
    moves -/
def forWork : Nat → Nat → List Token → Nat → Nat
  | 0, _, _, acc => acc
  | fuel + 1, depth, tokens, acc =>
    match scanInput tokens with
    | .ok (some (symbols, true)) =>
      match forExpandWith expandAndEvaluate tokens symbols with
      | .ok (some expanded, false) =>
        if depth + 1 > 12 then acc + tokens.length + expanded.length
        else forWork fuel (depth + 1) expanded (acc + tokens.length)
      | _ => acc + tokens.length
    | _ => acc + tokens.length

def sumLen (l : List (List Token)) : Nat := (l.map List.length).sum
def maxLen (l : List (List Token)) : Nat := l.foldr (fun x m => max x.length m) 0

/-- total number of tokens the pass loop of `CompileWarrior` moves on `src` (the configuration
    plays no part before the compiler stage) -/
def Work (_cfg : Config) (src : List UInt8) : Nat := forWork 14 0 (lexBytes src) 0

/-- the longest token list among the passes: "the size of the input after FOR expansion" -/
def S (src : List UInt8) : Nat := maxLen (passes 14 0 (lexBytes src))

theorem forWork_eq : ∀ (fuel depth : Nat) (ts : List Token) (acc : Nat),
    forWork fuel depth ts acc = acc + sumLen (passes fuel depth ts) := by
  intro fuel
  induction fuel with
  | zero => intro depth ts acc; simp [forWork, passes, sumLen]
  | succ fuel ih =>
    intro depth ts acc
    cases hs : scanInput ts with
    | error f => simp [forWork, passes, hs, sumLen]
    | ok r =>
      cases r with
      | none => simp [forWork, passes, hs, sumLen]
      | some pr =>
        obtain ⟨symbols, forSeen⟩ := pr
        cases forSeen with
        | false => simp [forWork, passes, hs, sumLen]
        | true =>
          cases he : forExpandWith expandAndEvaluate ts symbols with
          | error f => simp [forWork, passes, hs, he, sumLen]
          | ok x =>
            obtain ⟨oe, u⟩ := x
            cases u with
            | true => simp [forWork, passes, hs, he, sumLen]
            | false =>
              cases oe with
              | none => simp [forWork, passes, hs, he, sumLen]
              | some expanded =>
                by_cases hd : depth + 1 > 12
                · simp [forWork, passes, hs, he, sumLen, hd]; omega
                · simp only [forWork, passes, hs, he, hd, if_false]
                  rw [ih]
                  simp [sumLen]; omega

theorem Work_eq (cfg : Config) (src : List UInt8) :
    Work cfg src = sumLen (passes 14 0 (lexBytes src)) := by
  rw [Work, forWork_eq]; omega

/-- every run of the loop starts with the list it is given -/
theorem passes_head (fuel depth : Nat) (ts : List Token) :
    ∃ tl, passes (fuel + 1) depth ts = ts :: tl := by
  unfold passes
  split
  · split
    · split
      · exact ⟨_, rfl⟩
      · exact ⟨_, rfl⟩
    · exact ⟨_, rfl⟩
  · exact ⟨_, rfl⟩

/-- `passes_length` — at most 14 token lists: 13 scanned and expanded, and the result of the
    13th expansion (whatever the fuel) -/
theorem passes_length : ∀ (fuel depth : Nat) (ts : List Token), depth ≤ 12 →
    (passes fuel depth ts).length ≤ 14 - depth := by
  intro fuel
  induction fuel with
  | zero => intro depth ts _; simp [passes]
  | succ fuel ih =>
    intro depth ts hd
    unfold passes
    split
    · split
      · split
        · simp only [List.length_cons, List.length_nil]; omega
        · rename_i hlt
          have := ih (depth + 1) ‹_› (by omega)
          simp only [List.length_cons]; omega
      · simp only [List.length_cons, List.length_nil]; omega
    · simp only [List.length_cons, List.length_nil]; omega

theorem sumLen_le (l : List (List Token)) : sumLen l ≤ l.length * maxLen l := by
  induction l with
  | nil => simp [sumLen]
  | cons x xs ih =>
    simp only [sumLen, maxLen, List.map_cons, List.sum_cons, List.foldr_cons, List.length_cons] at ih ⊢
    have h1 : xs.length * List.foldr (fun x m => max x.length m) 0 xs ≤
        xs.length * max x.length (List.foldr (fun x m => max x.length m) 0 xs) :=
      Nat.mul_le_mul_left _ (Nat.le_max_right _ _)
    have h2 : x.length ≤ max x.length (List.foldr (fun x m => max x.length m) 0 xs) :=
      Nat.le_max_left _ _
    rw [Nat.succ_mul]
    omega

theorem le_maxLen {l : List (List Token)} {x : List Token} (h : x ∈ l) : x.length ≤ maxLen l := by
  induction l with
  | nil => cases h
  | cons y ys ih =>
    simp only [maxLen, List.foldr_cons]
    rcases List.mem_cons.mp h with rfl | h
    · exact Nat.le_max_left _ _
    · exact Nat.le_trans (ih h) (Nat.le_max_right _ _)

theorem maxLen_le {l : List (List Token)} {n : Nat} (h : ∀ x ∈ l, x.length ≤ n) : maxLen l ≤ n := by
  induction l with
  | nil => simp [maxLen]
  | cons y ys ih =>
    simp only [maxLen, List.foldr_cons]
    exact Nat.max_le.mpr ⟨h y (List.mem_cons_self ..), ih (fun x hx => h x (List.mem_cons_of_mem _ hx))⟩

/-- `assemble_work_bound` — the pass loop moves at most 14 times the largest token list it ever
    holds: the total work of the scan / expand loop is proportional to the expanded size -/
theorem assemble_work_bound (cfg : Config) (src : List UInt8) : Work cfg src ≤ 14 * S src := by
  rw [Work_eq, S]
  have h1 := sumLen_le (passes 14 0 (lexBytes src))
  have h2 := passes_length 14 0 (lexBytes src) (by omega)
  have h3 : (passes 14 0 (lexBytes src)).length * maxLen (passes 14 0 (lexBytes src)) ≤
      14 * maxLen (passes 14 0 (lexBytes src)) := Nat.mul_le_mul_right _ (by omega)
  omega

/-- the first list is the lexer's output: at most one token per byte, plus tokEOF -/
theorem passes_first (src : List UInt8) :
    ∃ tl, passes 14 0 (lexBytes src) = lexBytes src :: tl ∧ (lexBytes src).length ≤ src.length + 1 := by
  obtain ⟨tl, h⟩ := passes_head 13 0 (lexBytes src)
  exact ⟨tl, h, lex_linear src⟩

/-- what the loop hands to the parser is one of the lists -/
theorem forLoop_mem : ∀ (fuel depth : Nat) (ts ts' : List Token),
    forLoop fuel depth ts = .ok ts' → ts' ∈ passes fuel depth ts := by
  intro fuel
  induction fuel with
  | zero => intro depth ts ts' h; simp [forLoop] at h
  | succ fuel ih =>
    intro depth ts ts' h
    cases hs : scanInput ts with
    | error f => simp [forLoop, hs] at h
    | ok r =>
      cases r with
      | none => simp [forLoop, hs] at h
      | some pr =>
        obtain ⟨symbols, forSeen⟩ := pr
        cases forSeen with
        | false =>
          simp only [forLoop, hs] at h
          simp only [Bool.not_false, if_true, Except.ok.injEq] at h
          subst h
          simp [passes, hs]
        | true =>
          cases he : forExpandWith expandAndEvaluate ts symbols with
          | error f => simp [forLoop, hs, he] at h
          | ok x =>
            obtain ⟨oe, u⟩ := x
            cases u with
            | true => simp [forLoop, hs, he] at h
            | false =>
              cases oe with
              | none => simp [forLoop, hs, he] at h
              | some expanded =>
                by_cases hd : depth + 1 > 12
                · simp [forLoop, hs, he, hd] at h
                · simp only [forLoop, hs, he, hd, Bool.not_true, Bool.false_eq_true, if_false] at h
                  simp only [passes, hs, he, hd, if_false]
                  exact List.mem_cons_of_mem _ (ih _ _ _ h)

/-! ### how fast the lists can grow -/

/-- consecutive elements are related -/
inductive Chain {α : Type} (R : α → α → Prop) : List α → Prop
  | nil : Chain R []
  | single (a : α) : Chain R [a]
  | cons {a b : α} {l : List α} : R a b → Chain R (b :: l) → Chain R (a :: b :: l)

theorem Chain.imp_mem {α : Type} {R R' : α → α → Prop} {l : List α} (h : Chain R l)
    (hR : ∀ a ∈ l, ∀ b, R a b → R' a b) : Chain R' l := by
  induction h with
  | nil => exact .nil
  | single a => exact .single a
  | cons hab _ ih =>
    exact .cons (hR _ (List.mem_cons_self ..) _ hab) (ih (fun a ha => hR a (List.mem_cons_of_mem _ ha)))

/-- one pass: the symbol scanner saw a `for`, and the expansion is the list plus at most `count`
    copies of it, `count` the evaluated count of the one block the pass unrolls -/
def PassStep (a b : List Token) : Prop :=
  ∃ syms, scanInput a = .ok (some (syms, true)) ∧
    ∃ n, IsCount expandAndEvaluate syms a n ∧ b.length ≤ a.length + n * a.length

/-- `passes_chain` — each list is obtained from the one before by one FOR pass -/
theorem passes_chain : ∀ (fuel depth : Nat) (ts : List Token), Chain PassStep (passes fuel depth ts) := by
  intro fuel
  induction fuel with
  | zero => intro depth ts; exact .nil
  | succ fuel ih =>
    intro depth ts
    cases hs : scanInput ts with
    | error f => simp only [passes, hs]; exact .single _
    | ok r =>
      cases r with
      | none => simp only [passes, hs]; exact .single _
      | some pr =>
        obtain ⟨symbols, forSeen⟩ := pr
        cases forSeen with
        | false => simp only [passes, hs]; exact .single _
        | true =>
          cases he : forExpandWith expandAndEvaluate ts symbols with
          | error f => simp only [passes, hs, he]; exact .single _
          | ok x =>
            obtain ⟨oe, u⟩ := x
            cases u with
            | true => simp only [passes, hs, he]; exact .single _
            | false =>
              cases oe with
              | none => simp only [passes, hs, he]; exact .single _
              | some expanded =>
                have hstep : PassStep ts expanded := ⟨symbols, hs, expand_pass_size he⟩
                by_cases hd : depth + 1 > 12
                · simp only [passes, hs, he, hd, if_true]
                  exact .cons hstep (.single _)
                · simp only [passes, hs, he, hd, if_false]
                  cases fuel with
                  | zero => simp only [passes]; exact .single _
                  | succ fuel =>
                    obtain ⟨tl, htl⟩ := passes_head fuel (depth + 1) expanded
                    have := ih (depth + 1) expanded
                    rw [htl] at this ⊢
                    exact .cons hstep this

/-- along a chain whose steps multiply the length by at most `k`, everything stays below the
    first length times a power of `k` -/
theorem Chain.growth {k : Nat} (hk : 1 ≤ k) {l : List (List Token)}
    (h : Chain (fun a b : List Token => b.length ≤ a.length * k) l) :
    ∀ x tl, l = x :: tl → ∀ y ∈ l, y.length ≤ x.length * k ^ tl.length := by
  induction h with
  | nil => intro x tl h; cases h
  | single a =>
    intro x tl h y hy
    cases h
    simp only [List.mem_cons, List.not_mem_nil, or_false] at hy
    subst hy
    simp
  | @cons a b l hab _ ih =>
    intro x tl h y hy
    cases h
    have hpos : 1 ≤ k ^ (b :: l).length := Nat.pow_pos (by omega)
    rcases List.mem_cons.mp hy with rfl | hy
    · calc y.length = y.length * 1 := by omega
        _ ≤ y.length * k ^ (b :: l).length := Nat.mul_le_mul_left _ hpos
    · have h1 := ih b l rfl y hy
      calc y.length ≤ b.length * k ^ l.length := h1
        _ ≤ (a.length * k) * k ^ l.length := Nat.mul_le_mul_right _ hab
        _ = a.length * k ^ (b :: l).length := by
          rw [List.length_cons, Nat.pow_succ, Nat.mul_assoc, Nat.mul_comm k]

/-- every count the evaluator returns during the passes on `src` is at most `n` -/
def CountsLe (n : Nat) (src : List UInt8) : Prop :=
  ∀ a ∈ passes 14 0 (lexBytes src), ∀ syms expr v, scanInput a = .ok (some (syms, true)) →
    expr.Sublist a → expandAndEvaluate expr syms = .ok v → v.toNat ≤ n

/-- `passes_growth` — if no FOR count exceeds `n`, no token list of the pass loop is longer than
    `(src.length + 1) * (n + 1) ^ 13` -/
theorem passes_growth {n : Nat} {src : List UInt8} (h : CountsLe n src) :
    S src ≤ (src.length + 1) * (n + 1) ^ 13 := by
  obtain ⟨tl, htl, hlex⟩ := passes_first src
  have hch : Chain (fun a b : List Token => b.length ≤ a.length * (n + 1)) (passes 14 0 (lexBytes src)) := by
    refine (passes_chain 14 0 (lexBytes src)).imp_mem ?_
    rintro a ha b ⟨syms, hs, m, hm, hle⟩
    have hmn : m ≤ n := by
      rcases hm with rfl | ⟨e, v, hsub, hev, rfl⟩
      · omega
      · exact h a ha syms e v hs hsub hev
    have : m * a.length ≤ n * a.length := Nat.mul_le_mul_right _ hmn
    rw [Nat.mul_succ, Nat.mul_comm a.length n]
    omega
  have hlen := passes_length 14 0 (lexBytes src) (by omega)
  rw [htl] at hlen
  simp only [List.length_cons] at hlen
  refine maxLen_le (fun y hy => ?_)
  have h1 := hch.growth (by omega) _ _ htl y hy
  have h2 : (n + 1) ^ tl.length ≤ (n + 1) ^ 13 := Nat.pow_le_pow_right (by omega) (by omega)
  calc y.length ≤ (lexBytes src).length * (n + 1) ^ tl.length := h1
    _ ≤ (src.length + 1) * (n + 1) ^ 13 := Nat.mul_le_mul hlex h2

/-- `work_le_pow` — total work of the pass loop in terms of the source length and the largest
    FOR count -/
theorem work_le_pow (cfg : Config) {n : Nat} {src : List UInt8} (h : CountsLe n src) :
    Work cfg src ≤ 14 * ((src.length + 1) * (n + 1) ^ 13) :=
  Nat.le_trans (assemble_work_bound cfg src) (Nat.mul_le_mul_left _ (passes_growth h))

/-- without any FOR block that is unrolled (all counts ≤ 0) nothing grows at all -/
theorem work_linear_no_for (cfg : Config) {src : List UInt8} (h : CountsLe 0 src) :
    Work cfg src ≤ 14 * (src.length + 1) := by
  have := work_le_pow cfg h
  simpa using this

/-! ### the whole assembler -/

/-- the pass loop fails with an error, `unmodelled` or a fault, never with a warrior -/
theorem forLoop_err_ne_ok : ∀ (fuel depth : Nat) (ts : List Token) (w : WarriorData),
    forLoop fuel depth ts ≠ .error (.ok w) := by
  intro fuel
  induction fuel with
  | zero => intro depth ts w h; simp [forLoop] at h
  | succ fuel ih =>
    intro depth ts w h
    unfold forLoop at h
    split at h
    · cases h
    · cases h
    · split at h
      · cases h
      · split at h
        · cases h
        · cases h
        · cases h
        · split at h
          · cases h
          · exact ih _ _ _ h

/-- `assemble_output_bound` — an accepted program went through: a token list `toks` of the pass
    loop (so `toks.length ≤ S src`), at most `toks.length` source lines holding at most
    `toks.length` operand tokens, and at most one instruction per source line -/
theorem assemble_output_bound {cfg : Config} {src : List UInt8} {w : WarriorData}
    (h : assemble cfg src = .ok w) :
    ∃ toks lines ameta, toks ∈ passes 14 0 (lexBytes src) ∧
      parse toks = .ok (some (lines, ameta)) ∧
      lines.length ≤ toks.length ∧ (lines.map Parser.tokCount).sum ≤ toks.length ∧
      w.code.size ≤ lines.length ∧ w.code.size ≤ S src := by
  unfold assemble at h
  dsimp only at h
  split at h
  · rename_i r hr
    subst h
    exact absurd hr (forLoop_err_ne_ok _ _ _ w)
  · rename_i toks hloop
    have hmem := forLoop_mem _ _ _ _ hloop
    split at h
    · cases h
    · cases h
    · rename_i lines ameta hp
      split at h
      · cases h
      · split at h
        · cases h
        · cases h
        · rename_i w' hc
          cases h
          obtain ⟨p1, p2⟩ := parse_linear hp
          obtain ⟨_, c2⟩ := Compile.compile_linear hc
          have := le_maxLen hmem
          exact ⟨toks, lines, ameta, hmem, hp, p1, p2, c2, by unfold S; omega⟩

end Gmars
