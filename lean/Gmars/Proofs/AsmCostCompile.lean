/-
  C05 cost, part 4: the compiler stage.

  * `assembleLines` produces one instruction per `instruction` source line: the code of an
    accepted program is no longer than the list of source lines.
  * the fixpoint loop of `expandExpression`: `expandRounds` counts the rounds (calls of the inner
    `for _, tok := range input` loop) the loop performs when it is given `fuel` rounds. On the two
    tables `compile()` expands with (EQU table as loaded, after the cycle check; resolved table)
    that count is at most `#values + 2` WHATEVER the fuel, so the fuel the model hands out
    (`#values + #labels + 2`) is never the reason the loop stops, and the result does not depend
    on it.
-/
import Gmars.Proofs.CompileWF

namespace Gmars
namespace Compile

/-! ### the code is no longer than the source -/

def isInstr (l : SourceLine) : Bool := l.typ == .instruction

theorem assembleLines_size {c : Compiler} : ∀ (lines : List SourceLine) (acc code : Array Instr),
    assembleLines c lines acc = .ok code → code.size = acc.size + (lines.filter isInstr).length := by
  intro lines
  induction lines with
  | nil =>
    intro acc code h
    unfold assembleLines at h
    cases h
    simp
  | cons line rest ih =>
    intro acc code h
    unfold assembleLines at h
    split at h
    · rename_i hty
      have : isInstr line = false := by
        unfold isInstr
        simpa using hty
      rw [ih acc code h, List.filter_cons, this]
      simp
    · rename_i hty
      have : isInstr line = true := by
        unfold isInstr
        simpa using hty
      obtain ⟨instr, _, h⟩ := bind_eq_ok h
      rw [ih _ code h, List.filter_cons, this]
      simp only [Array.size_push, if_true, List.length_cons]
      omega

/-- `compile_linear` — an accepted program has exactly one instruction per `instruction` source
    line, hence at most one per source line -/
theorem compile_linear {lexTokens : String → List Token} {cfg : Config} {lines : List SourceLine}
    {ameta : AsmMeta} {w : WarriorData} (h : compile lexTokens cfg lines ameta = .ok (some w)) :
    w.code.size = (lines.filter isInstr).length ∧ w.code.size ≤ lines.length := by
  obtain ⟨_, resolved, hcode, _⟩ := compileX_ok (compile_eq_some h)
  have := assembleLines_size lines #[] w.code hcode
  have hle := List.length_filter_le isInstr lines
  simp only [Array.size_empty, Nat.zero_add] at this
  exact ⟨this, by omega⟩

/-! ### the rounds of `expandExpression` -/

/-- the number of rounds the loop `for !exprEqual(input, output)` performs when it may perform at
    most `fuel` (same recursion as `expandLoop`; a round that fails with an error counts) -/
def expandRounds (c : Compiler) (line : Int) : Nat → List Token → Nat
  | 0, _ => 0
  | fuel + 1, input =>
    match expandOnce c line input with
    | .ok output => if output == input then 1 else 1 + expandRounds c line fuel output
    | .error _ => 1

theorem expandRounds_le_fuel (c : Compiler) (line : Int) : ∀ (fuel : Nat) (ts : List Token),
    expandRounds c line fuel ts ≤ fuel := by
  intro fuel
  induction fuel with
  | zero => intro ts; simp [expandRounds]
  | succ fuel ih =>
    intro ts
    unfold expandRounds
    split
    · split
      · omega
      · have := ih ‹_›; omega
    · omega

/-- on a ranked table a list of depth `≤ n` is a fixpoint after `n` rounds; the `n + 1`-st sees
    that nothing changes -/
theorem expandRounds_le {c : Compiler} {d : String → Nat} (hr : Ranked c.values d) (line : Int) :
    ∀ (fuel n : Nat) (ts : List Token), (∀ t ∈ ts, tokDepth d t ≤ n) →
      expandRounds c line fuel ts ≤ n + 1 := by
  intro fuel
  induction fuel with
  | zero => intro n ts _; simp [expandRounds]
  | succ fuel ih =>
    intro n ts hts
    unfold expandRounds
    split
    · rename_i out hout
      split
      · omega
      · rename_i hne
        cases n with
        | zero =>
          rw [expandOnce_id hts] at hout
          cases hout
          simp at hne
        | succ n =>
          have := ih n out (expandOnce_depth hr hout hts)
          omega
    · omega

/-- beyond the depth of the expression the fuel does not matter -/
theorem expandLoop_fuel {c : Compiler} {d : String → Nat} (hr : Ranked c.values d) (line : Int) :
    ∀ (fuel fuel' n : Nat) (ts : List Token), (∀ t ∈ ts, tokDepth d t ≤ n) → n < fuel → n < fuel' →
      expandLoop c line fuel ts = expandLoop c line fuel' ts := by
  intro fuel
  induction fuel with
  | zero => intro fuel' n ts _ h; omega
  | succ fuel ih =>
    intro fuel' n ts hts hf hf'
    cases fuel' with
    | zero => omega
    | succ fuel' =>
      unfold expandLoop
      cases hout : expandOnce c line ts with
      | error e => rfl
      | ok out =>
        simp only [bind, Except.bind]
        split
        · rfl
        · rename_i hne
          cases n with
          | zero =>
            rw [expandOnce_id hts] at hout
            cases hout
            simp at hne
          | succ n =>
            exact ih fuel' n out (expandOnce_depth hr hout hts) (by omega) (by omega)

/-- `expand_rounds_bounded` — on a table that passed the cycle check the loop of
    `expandExpression` performs at most `#values + 2` rounds, however many it is allowed -/
theorem GoodTable.rounds {c : Compiler} (hc : GoodTable c) (expr : List Token) (line : Int)
    (fuel : Nat) : expandRounds c line fuel expr ≤ c.values.length + 2 := by
  obtain ⟨d, hr, hd⟩ := hc.ranked
  refine expandRounds_le hr line fuel (c.values.length + 1) expr ?_
  intro t _
  unfold tokDepth
  split
  · have := hd t.val; omega
  · omega

/-- … so the fuel of the model (`#values + #labels + 2`) is never used up, and any larger fuel
    gives the same result -/
theorem GoodTable.fuel_irrelevant {c : Compiler} (hc : GoodTable c) (expr : List Token) (line : Int)
    (fuel : Nat) (hf : c.values.length + 2 ≤ fuel) :
    expandLoop c line fuel expr = expandLoop c line (c.values.length + c.labels.length + 2) expr := by
  obtain ⟨d, hr, hd⟩ := hc.ranked
  refine expandLoop_fuel hr line _ _ (c.values.length + 1) expr ?_ (by omega) (by omega)
  intro t _
  unfold tokDepth
  split
  · have := hd t.val; omega
  · omega

/-- the two tables `compile()` expands with are good as soon as the configuration is valid and the
    cycle check has passed -/
theorem compile_tables_good {cfg : Config} {lines : List SourceLine} (hv : cfg.validate = true)
    (hcyc : graphContainsCycle (buildReferenceGraph (symC cfg lines).values) = false) :
    GoodTable (symC cfg lines) ∧
    ∀ resolved, expandExpressions (symC cfg lines).values
        (buildReferenceGraph (symC cfg lines).values) = some resolved →
      GoodTable (resC cfg lines resolved) := by
  have hm : mInt cfg.coreSize ≠ 0 := validate_coreSize hv
  refine ⟨⟨by unfold Compiler.m; rw [symC_cfg]; exact hm, _, ranked_of_acyclic hcyc⟩, ?_⟩
  intro resolved hres
  exact ⟨by unfold Compiler.m; rw [resC_cfg]; exact hm, _, ranked_of_expandExpressions hres⟩

/-- `compile_rounds` — a run of `compile()` that returns a warrior has expanded every expression
    (assertions on the loaded table, operands and start expression on the resolved one) in at most
    `#values + 2` rounds each, whatever fuel the loop is given -/
theorem compile_rounds {lexTokens : String → List Token} {cfg : Config} {lines : List SourceLine}
    {ameta : AsmMeta} {w : WarriorData} (h : compile lexTokens cfg lines ameta = .ok (some w)) :
    (∀ expr line fuel, expandRounds (symC cfg lines) line fuel expr ≤ (symC cfg lines).values.length + 2) ∧
    ∃ resolved, assembleLines (resC cfg lines resolved) lines #[] = .ok w.code ∧
      ∀ expr line fuel, expandRounds (resC cfg lines resolved) line fuel expr ≤ resolved.length + 2 := by
  have hx := compile_eq_some h
  rw [compileX_eq] at hx
  split at hx
  · cases hx
  · rename_i hv
    have hv : cfg.validate = true := by simpa using hv
    split at hx
    · cases hx
    · rename_i hcyc
      have hcyc : graphContainsCycle (buildReferenceGraph (symC cfg lines).values) = false := by
        simpa using hcyc
      obtain ⟨hsym, hresAll⟩ := compile_tables_good (lines := lines) hv hcyc
      obtain ⟨_, _, hx⟩ := bind_eq_ok hx
      obtain ⟨resolved, hres, hx⟩ := bind_eq_ok hx
      obtain ⟨code, hcode, hx⟩ := bind_eq_ok hx
      have hgood := hresAll resolved (optM_eq_ok hres)
      obtain ⟨h1, _⟩ := finishX_ok hx
      subst h1
      exact ⟨fun e l f => hsym.rounds e l f, resolved, hcode, fun e l f => hgood.rounds e l f⟩

end Compile
end Gmars
