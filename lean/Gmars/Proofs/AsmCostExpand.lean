/-
  C05 cost, part 3: what one pass of the FOR expander can send, for EVERY token list.

  A pass copies its input token by token except for the FIRST `for` block it meets: the FOR line
  is dropped, the body (at most the tokens read up to the matching `rof`) is sent `count` times,
  and the rest of the stream is copied. Hence

      out.length ≤ toks.length + count * toks.length

  where `count` is 0 (no block unrolled) or the value the evaluator returned for a count
  expression that is a subsequence of the input (`IsCount`).

  `vs o` ("virtual size") is the number of tokens sent once the closing tokEOF of `run()` has
  been accounted for: a terminating token does not increase it.
-/
import Gmars.Model.ForExpand

namespace Gmars
namespace ForExpand

/-- tokens sent so far, plus the terminating token still to come -/
def vs (o : Out) : Nat := o.toks.size + (if o.done then 0 else 1)

theorem vs_emit_le (o : Out) (t : Token) : vs (o.emit t) ≤ vs o + 1 := by
  unfold Out.emit vs
  split
  · omega
  · rename_i hd
    simp only [Array.size_push]
    split <;> simp <;> omega

theorem vs_emit_term (o : Out) {t : Token} (ht : t.isTerm = true) : vs (o.emit t) ≤ vs o := by
  unfold Out.emit vs
  split
  · omega
  · rename_i hd
    simp only [Array.size_push]
    simp

/-- the closing tokEOF of `run()` -/
theorem size_emit_eof (o : Out) : (o.emit { typ := .eof, val := "" }).toks.size = vs o := by
  unfold Out.emit vs
  split
  · simp
  · simp

theorem vs_foldl {α : Type} (f : Out → α → Out) (hf : ∀ o a, vs (f o a) ≤ vs o + 1) (l : List α)
    (o : Out) : vs (l.foldl f o) ≤ vs o + l.length := by
  induction l generalizing o with
  | nil => simp
  | cons a as ih =>
    simp only [List.foldl_cons, List.length_cons]
    have := ih (f o a)
    have := hf o a
    omega

theorem vs_emitLabels (o : Out) (labels : List String) :
    vs (o.emitLabels labels) ≤ vs o + labels.length :=
  vs_foldl _ (fun o _ => vs_emit_le o _) labels o

/-- the unrolling: `count` copies of the body -/
theorem vs_expand (c : Ctx) (content : Array Token) (o : Out) :
    vs (expand c content o) ≤ vs o + c.forCount.toNat * content.size := by
  unfold expand
  have step : ∀ (o : Out) (k : Nat),
      vs (content.foldl (fun o tok => o.emit (substTok c (k + 1) tok)) o) ≤ vs o + content.size := by
    intro o k
    rw [← Array.foldl_toList]
    have := vs_foldl (fun o tok => o.emit (substTok c (k + 1) tok)) (fun o _ => vs_emit_le o _)
      content.toList o
    simpa using this
  have : ∀ (l : List Nat) (o : Out),
      vs (l.foldl (fun o k => content.foldl (fun o tok => o.emit (substTok c (k + 1) tok)) o) o)
        ≤ vs o + l.length * content.size := by
    intro l
    induction l with
    | nil => intro o; simp
    | cons k ks ih =>
      intro o
      simp only [List.foldl_cons, List.length_cons]
      have h1 := ih (content.foldl (fun o tok => o.emit (substTok c (k + 1) tok)) o)
      have h2 := step o k
      rw [Nat.succ_mul]
      omega
  have h := this (List.range c.forCount.toNat) o
  simpa using h

theorem isTerm_of_error {t : Token} (h : t.typ = .error) : t.isTerm = true := by
  simp [Token.isTerm, h]

theorem isTerm_of_eof {t : Token} (h : t.typ = .eof) : t.isTerm = true := by
  simp [Token.isTerm, h]

/-! ### after the block: `forEmitConsumeStream`, `forRof` -/

theorem emitConsumeStream_size (rest : List Token) : ∀ (cur : Token) (o o' : Out),
    emitConsumeStream cur rest o = .ok o' → vs o' ≤ vs o + rest.length := by
  induction rest with
  | nil =>
    intro cur o o' h
    unfold emitConsumeStream at h
    split at h
    · cases h; omega
    · split at h
      · rename_i he
        cases h
        exact Nat.le_trans (vs_emit_term o (isTerm_of_error (by simpa using he))) (Nat.le_add_right _ _)
      · cases h
  | cons t r ih =>
    intro cur o o' h
    unfold emitConsumeStream at h
    split at h
    · cases h; omega
    · split at h
      · rename_i he
        cases h
        exact Nat.le_trans (vs_emit_term o (isTerm_of_error (by simpa using he))) (Nat.le_add_right _ _)
      · have := ih t _ _ h
        have := vs_emit_le o cur
        simp only [List.length_cons]
        omega

theorem forRof_size (c : Ctx) (content : Array Token) (rest : List Token) :
    ∀ (cur : Token) (o o' : Out), forRof c content cur rest o = .ok o' →
      vs o' ≤ vs o + c.forCount.toNat * content.size + rest.length := by
  induction rest with
  | nil =>
    intro cur o o' h
    unfold forRof at h
    split at h
    · rename_i hnl
      have hn : cur.isTerm = false := by
        have : cur.typ = .newline := by simpa using hnl
        simp [Token.isTerm, this]
      simp only [nextTok, hn, Bool.false_eq_true, if_false] at h
      have := emitConsumeStream_size [] cur _ _ h
      have := vs_expand c content o
      simp only [List.length_nil] at *
      omega
    · split at h
      · have := emitConsumeStream_size [] cur _ _ h
        have := vs_expand c content o
        simp only [List.length_nil] at *
        omega
      · split at h
        · rename_i he
          cases h
          have := vs_emit_term o (t := cur) (isTerm_of_error (by simpa using he))
          omega
        · cases h
  | cons t r ih =>
    intro cur o o' h
    unfold forRof at h
    split at h
    · rename_i hnl
      have hn : cur.isTerm = false := by
        have : cur.typ = .newline := by simpa using hnl
        simp [Token.isTerm, this]
      simp only [nextTok, hn, Bool.false_eq_true, if_false] at h
      have := emitConsumeStream_size r t _ _ h
      have := vs_expand c content o
      simp only [List.length_cons]
      omega
    · split at h
      · have := emitConsumeStream_size (t :: r) cur _ _ h
        have := vs_expand c content o
        omega
      · split at h
        · rename_i he
          cases h
          have := vs_emit_term o (t := cur) (isTerm_of_error (by simpa using he))
          omega
        · have := ih t _ _ h
          simp only [List.length_cons]
          omega

/-! ### the body: `forInnerLabels`, `forInnerEmitConsumeLine` -/

theorem pushLabels_size (s : Inner) (lb : List String) :
    (s.pushLabels lb).content.size = s.content.size + lb.length ∧
    (s.pushLabels lb).out = s.out ∧ (s.pushLabels lb).toWrite = s.toWrite := by
  refine ⟨?_, rfl, rfl⟩
  unfold Inner.pushLabels
  simp only
  generalize s.content = a
  induction lb generalizing a with
  | nil => simp
  | cons l ls ih =>
    simp only [List.foldl_cons, List.length_cons]
    rw [ih]
    simp only [Array.size_push]
    omega

/-- `K` bounds the final size of the body: what is stored already plus everything still unread -/
theorem inner_size (c : Ctx) (K : Nat) (rest : List Token) :
    (∀ (cur : Token) (s : Inner) (o' : Out), innerEmitConsumeLine c cur rest s = .ok o' →
      s.content.size + rest.length + 1 ≤ K →
      vs o' ≤ vs s.out + s.toWrite.length + rest.length + c.forCount.toNat * K) ∧
    (∀ (cur : Token) (labelBuf : List String) (s : Inner) (o' : Out),
      innerLabels c cur rest labelBuf s = .ok o' →
      s.content.size + labelBuf.length + rest.length + 1 ≤ K →
      vs o' ≤ vs s.out + s.toWrite.length + rest.length + c.forCount.toNat * K) := by
  induction rest with
  | nil =>
    have hE : ∀ (cur : Token) (s : Inner) (o' : Out), innerEmitConsumeLine c cur [] s = .ok o' →
        s.content.size + ([] : List Token).length + 1 ≤ K →
        vs o' ≤ vs s.out + s.toWrite.length + ([] : List Token).length + c.forCount.toNat * K := by
      intro cur s o' h _
      unfold innerEmitConsumeLine at h
      split at h
      · rename_i he
        cases h
        have := vs_emit_term s.out (t := cur) (isTerm_of_error he)
        omega
      · cases h; omega
      · cases h
      · cases h
    refine ⟨hE, ?_⟩
    intro cur labelBuf s o' h hK
    have hpl := pushLabels_size
    unfold innerLabels at h
    split at h
    · split at h
      · split at h
        · have := hE _ _ _ h (by rw [(hpl _ _).1]; simp only [List.length_nil] at hK ⊢; omega)
          rw [(hpl _ _).2.1, (hpl _ _).2.2] at this
          exact this
        · split at h
          · have := hE _ { s with depth := s.depth - 1 } _ h (by simp only [List.length_nil] at hK ⊢; omega)
            exact this
          · have := forRof_size c s.content [] cur _ _ h
            have hm : c.forCount.toNat * s.content.size ≤ c.forCount.toNat * K :=
              Nat.mul_le_mul_left _ (by omega)
            omega
        · have := hE _ _ _ h (by rw [(hpl _ _).1]; simp only [List.length_nil] at hK ⊢; omega)
          rw [(hpl _ _).2.1, (hpl _ _).2.2] at this
          exact this
      · split at h
        · have := hE _ _ _ h (by rw [(hpl _ _).1]; simp only [List.length_nil] at hK ⊢; omega)
          rw [(hpl _ _).2.1, (hpl _ _).2.2] at this
          have hl := vs_emitLabels s.out s.toWrite
          simp only [List.length_nil] at this ⊢
          omega
        · cases h
    · have := hE _ _ _ h (by rw [(hpl _ _).1]; simp only [List.length_nil] at hK ⊢; omega)
      rw [(hpl _ _).2.1, (hpl _ _).2.2] at this
      exact this
  | cons t r ih =>
    obtain ⟨ihE, ihL⟩ := ih
    have hE : ∀ (cur : Token) (s : Inner) (o' : Out),
        innerEmitConsumeLine c cur (t :: r) s = .ok o' →
        s.content.size + (t :: r).length + 1 ≤ K →
        vs o' ≤ vs s.out + s.toWrite.length + (t :: r).length + c.forCount.toNat * K := by
      intro cur s o' h hK
      simp only [List.length_cons] at hK ⊢
      unfold innerEmitConsumeLine at h
      split at h
      · rename_i he
        cases h
        have := vs_emit_term s.out (t := cur) (isTerm_of_error he)
        omega
      · cases h; omega
      · dsimp only at h
        split at h
        · have := ihL _ _ (s.push cur) _ h (by simp only [Inner.push, Array.size_push, List.length_nil]; omega)
          simp only [Inner.push] at this
          omega
        · have := ihE _ (s.push cur) _ h (by simp only [Inner.push, Array.size_push]; omega)
          simp only [Inner.push] at this
          omega
      · dsimp only at h
        have := ihE _ (s.push cur) _ h (by simp only [Inner.push, Array.size_push]; omega)
        simp only [Inner.push] at this
        omega
    refine ⟨hE, ?_⟩
    intro cur labelBuf s o' h hK
    have hpl := pushLabels_size
    unfold innerLabels at h
    split at h
    · split at h
      · split at h
        · have := hE _ _ _ h (by rw [(hpl _ _).1]; omega)
          rw [(hpl _ _).2.1, (hpl _ _).2.2] at this
          exact this
        · split at h
          · have := hE _ { s with depth := s.depth - 1 } _ h (by show s.content.size + _ + 1 ≤ K; omega)
            exact this
          · have := forRof_size c s.content (t :: r) cur _ _ h
            have hm : c.forCount.toNat * s.content.size ≤ c.forCount.toNat * K :=
              Nat.mul_le_mul_left _ (by omega)
            omega
        · have := hE _ _ _ h (by rw [(hpl _ _).1]; omega)
          rw [(hpl _ _).2.1, (hpl _ _).2.2] at this
          exact this
      · split at h
        · have := hE _ _ _ h (by rw [(hpl _ _).1]; omega)
          rw [(hpl _ _).2.1, (hpl _ _).2.2] at this
          have hl := vs_emitLabels s.out s.toWrite
          simp only [List.length_nil] at this
          omega
        · have := ihL _ _ s _ h (by simp only [List.length_append, List.length_cons, List.length_nil] at hK ⊢; omega)
          simp only [List.length_cons]
          omega
    · have := hE _ _ _ h (by rw [(hpl _ _).1]; omega)
      rw [(hpl _ _).2.1, (hpl _ _).2.2] at this
      exact this

theorem innerLine_size (c : Ctx) (K : Nat) (cur : Token) (rest : List Token) (s : Inner) (o' : Out)
    (h : innerLine c cur rest s = .ok o') (hK : s.content.size + rest.length + 1 ≤ K) :
    vs o' ≤ vs s.out + s.toWrite.length + rest.length + c.forCount.toNat * K := by
  unfold innerLine at h
  split at h
  · exact (inner_size c K rest).2 _ _ _ _ h (by simpa using hK)
  · exact (inner_size c K rest).1 _ _ _ h hK

/-! ### the count -/

/-- `n` is the count of the block a pass unrolls: 0 when none is, else a value the evaluator
    returns for one of the candidate count expressions -/
def Cnt (eval : List Token → SymTab → EvalRes) (syms : SymTab) (cands : List Token → Prop)
    (n : Nat) : Prop :=
  n = 0 ∨ ∃ expr v, cands expr ∧ eval expr syms = .ok v ∧ n = v.toNat

/-- the pass has sent at most `base` tokens plus `n` times `K`, `n` the count of its block -/
def Bnd (eval : List Token → SymTab → EvalRes) (syms : SymTab) (cands : List Token → Prop)
    (base K : Nat) (o' : Out) : Prop :=
  ∃ n, Cnt eval syms cands n ∧ vs o' ≤ base + n * K

theorem Bnd.zero {eval syms cands base K o'} (h : vs o' ≤ base) : Bnd eval syms cands base K o' :=
  ⟨0, Or.inl rfl, by omega⟩

theorem Bnd.mono {eval syms} {cands cands' : List Token → Prop} {base base' K : Nat} {o' : Out}
    (h : Bnd eval syms cands base K o') (hc : ∀ e, cands e → cands' e) (hb : base ≤ base') :
    Bnd eval syms cands' base' K o' := by
  obtain ⟨n, hn, hv⟩ := h
  refine ⟨n, ?_, by omega⟩
  rcases hn with h0 | ⟨e, v, he, hev, hnv⟩
  · exact Or.inl h0
  · exact Or.inr ⟨e, v, hc e he, hev, hnv⟩

/-! ### the FOR line: `forFor`, `forConsumeExpression` -/

theorem forFor_size (eval : List Token → SymTab → EvalRes) (symbols : SymTab) (K : Nat) (cur : Token)
    (rest : List Token) (exprBuf : List Token) (labelBuf : List String) (o o' : Out)
    (h : forFor eval symbols cur rest exprBuf labelBuf o = .ok o') (hK : rest.length + 1 ≤ K) :
    Bnd eval symbols (· = exprBuf) (vs o + exprBuf.length + labelBuf.length + rest.length) K o' := by
  unfold forFor at h
  generalize ho1 : (exprBuf.foldl (fun o t =>
      if t.isTerm then o.emit { typ := .error, val := "unexpected expression term: " ++ t.str } else o) o) = o1 at h
  have h1 : vs o1 ≤ vs o + exprBuf.length := by
    subst ho1
    refine vs_foldl _ (fun o t => ?_) exprBuf o
    split
    · exact vs_emit_le o _
    · omega
  dsimp only at h
  split at h
  · rename_i val hev
    have key : ∀ c : Ctx, c.forCount = val → c.forLineLabels.length ≤ labelBuf.length →
        innerLine c cur rest { toWrite := c.forLineLabels.map (forLabel c.forCountLabel), out := o1 } = .ok o' →
        Bnd eval symbols (· = exprBuf) (vs o + exprBuf.length + labelBuf.length + rest.length) K o' := by
      intro c w1 w2 h
      have hsz := innerLine_size c K cur rest _ o' h (by simpa using hK)
      refine ⟨val.toNat, Or.inr ⟨exprBuf, val, rfl, hev, rfl⟩, ?_⟩
      rw [w1] at hsz
      simp only [List.length_map] at hsz
      omega
    cases hl : labelBuf.getLast? with
    | none =>
      simp only [hl] at h
      exact key _ rfl (by simp) h
    | some l =>
      simp only [hl] at h
      exact key _ rfl (by simp) h
  · cases h
    exact .zero (by have := vs_emit_term o1 (t := { typ := .error, val := evalErrorVal }) rfl; omega)
  · cases h
    refine .zero ?_
    have := vs_emit_term o1 (t := { typ := .error, val := evalErrorVal }) rfl
    show vs { o1.emit { typ := .error, val := evalErrorVal } with unmodelled := true } ≤ _
    have e : vs { o1.emit { typ := .error, val := evalErrorVal } with unmodelled := true } =
        vs (o1.emit { typ := .error, val := evalErrorVal }) := rfl
    omega

theorem consumeExpression_size (eval : List Token → SymTab → EvalRes) (symbols : SymTab) (K : Nat)
    (rest : List Token) : ∀ (cur : Token) (exprBuf : List Token) (labelBuf : List String) (o o' : Out),
    consumeExpression eval symbols cur rest exprBuf labelBuf o = .ok o' → rest.length + 1 ≤ K →
    Bnd eval symbols (fun e => ∃ e', e'.Sublist (cur :: rest) ∧ e = exprBuf ++ e')
      (vs o + exprBuf.length + labelBuf.length + rest.length) K o' := by
  induction rest with
  | nil =>
    intro cur exprBuf labelBuf o o' h hK
    unfold consumeExpression at h
    split at h
    · exact (forFor_size eval symbols K cur [] exprBuf labelBuf o o' h hK).mono
        (fun e he => ⟨[], List.nil_sublist _, by rw [he]; simp⟩) (Nat.le_refl _)
    · cases h
    · rename_i he
      cases h
      exact .zero (by have := vs_emit_term o (t := cur) (isTerm_of_error he); omega)
    · cases h; exact .zero (by omega)
    · cases h
  | cons t r ih =>
    intro cur exprBuf labelBuf o o' h hK
    simp only [List.length_cons] at hK
    unfold consumeExpression at h
    split at h
    · exact (forFor_size eval symbols K t r exprBuf labelBuf o o' h (by omega)).mono
        (fun e he => ⟨[], List.nil_sublist _, by rw [he]; simp⟩) (by simp only [List.length_cons]; omega)
    · refine (ih t exprBuf labelBuf o o' h (by omega)).mono ?_ (by simp only [List.length_cons]; omega)
      rintro e ⟨e', hs, rfl⟩
      exact ⟨e', hs.cons _, rfl⟩
    · rename_i he
      cases h
      exact .zero (by have := vs_emit_term o (t := cur) (isTerm_of_error he); omega)
    · cases h; exact .zero (by omega)
    · refine (ih t (exprBuf ++ [cur]) labelBuf o o' h (by omega)).mono ?_
        (by simp only [List.length_cons, List.length_append, List.length_nil]; omega)
      rintro e ⟨e', hs, rfl⟩
      exact ⟨cur :: e', hs.cons_cons _, by simp⟩

/-! ### outside a block: `forConsumeLabels`, `forConsumeEmitLine` -/

theorem outer_size (eval : List Token → SymTab → EvalRes) (symbols : SymTab) (K : Nat)
    (rest : List Token) :
    (∀ (cur : Token) (o o' : Out), consumeEmitLine eval symbols cur rest o = .ok o' →
      rest.length + 1 ≤ K →
      Bnd eval symbols (fun e => e.Sublist (cur :: rest)) (vs o + rest.length) K o') ∧
    (∀ (cur : Token) (labelBuf : List String) (o o' : Out),
      consumeLabels eval symbols cur rest labelBuf o = .ok o' → rest.length + 1 ≤ K →
      Bnd eval symbols (fun e => e.Sublist (cur :: rest)) (vs o + labelBuf.length + rest.length) K o') := by
  induction rest with
  | nil =>
    have hE : ∀ (cur : Token) (o o' : Out), consumeEmitLine eval symbols cur [] o = .ok o' →
        ([] : List Token).length + 1 ≤ K →
        Bnd eval symbols (fun e => e.Sublist (cur :: [])) (vs o + ([] : List Token).length) K o' := by
      intro cur o o' h _
      unfold consumeEmitLine at h
      split at h
      · cases h
      · rename_i he
        cases h
        exact .zero (by have := vs_emit_term o (t := cur) (isTerm_of_error he); omega)
      · rename_i he
        cases h
        exact .zero (by have := vs_emit_term o (t := cur) (isTerm_of_eof he); omega)
      · cases h
    refine ⟨hE, ?_⟩
    intro cur labelBuf o o' h hK
    unfold consumeLabels at h
    dsimp only at h
    split at h
    · split at h
      · split at h
        · refine (consumeExpression_size eval symbols K [] cur [] labelBuf o o' h hK).mono ?_
            (by simp only [List.length_nil]; omega)
          rintro e ⟨e', hs, rfl⟩
          simpa using hs
        · cases h
      · split at h
        · cases h
        · cases h
    · split at h
      · cases h
      · cases h
        refine .zero ?_
        have := vs_emit_term o
          (t := ⟨.error, "expected label, op, newlines, or comment, got '" ++ cur.str ++ "'"⟩) rfl
        omega
  | cons t r ih =>
    obtain ⟨ihE, ihL⟩ := ih
    have hE : ∀ (cur : Token) (o o' : Out), consumeEmitLine eval symbols cur (t :: r) o = .ok o' →
        (t :: r).length + 1 ≤ K →
        Bnd eval symbols (fun e => e.Sublist (cur :: t :: r)) (vs o + (t :: r).length) K o' := by
      intro cur o o' h hK
      simp only [List.length_cons] at hK ⊢
      have hem := vs_emit_le o cur
      unfold consumeEmitLine at h
      split at h
      · dsimp only at h
        split at h
        · exact (ihL _ _ _ _ h (by omega)).mono (fun e he => he.cons _)
            (by simp only [List.length_nil]; omega)
        · exact (ihE _ _ _ h (by omega)).mono (fun e he => he.cons _) (by omega)
      · rename_i he
        cases h
        exact .zero (by have := vs_emit_term o (t := cur) (isTerm_of_error he); omega)
      · rename_i he
        cases h
        exact .zero (by have := vs_emit_term o (t := cur) (isTerm_of_eof he); omega)
      · exact (ihE _ _ _ h (by omega)).mono (fun e he => he.cons _) (by omega)
    refine ⟨hE, ?_⟩
    intro cur labelBuf o o' h hK
    simp only [List.length_cons] at hK ⊢
    have hwl : ∀ o', consumeEmitLine eval symbols t r ((o.emitLabels labelBuf).emit cur) = .ok o' →
        Bnd eval symbols (fun e => e.Sublist (cur :: t :: r)) (vs o + labelBuf.length + (r.length + 1)) K o' := by
      intro o' h
      have h1 := vs_emitLabels o labelBuf
      have h2 := vs_emit_le (o.emitLabels labelBuf) cur
      exact (ihE _ _ _ h (by omega)).mono (fun e he => he.cons _) (by omega)
    unfold consumeLabels at h
    dsimp only at h
    split at h
    · split at h
      · split at h
        · refine (consumeExpression_size eval symbols K r t [] labelBuf o o' h (by omega)).mono ?_
            (by simp only [List.length_nil]; omega)
          rintro e ⟨e', hs, rfl⟩
          simpa using hs.cons _
        · exact hwl _ h
      · split at h
        · exact hwl _ h
        · exact (ihL _ _ _ _ h (by omega)).mono (fun e he => he.cons _)
            (by simp only [List.length_append, List.length_cons, List.length_nil]; omega)
    · split at h
      · exact (ihL _ _ _ _ h (by omega)).mono (fun e he => he.cons _) (by omega)
      · cases h
        refine .zero ?_
        have := vs_emit_term o
          (t := ⟨.error, "expected label, op, newlines, or comment, got '" ++ cur.str ++ "'"⟩) rfl
        omega

theorem forLine_size (eval : List Token → SymTab → EvalRes) (symbols : SymTab) (K : Nat) (cur : Token)
    (rest : List Token) (o o' : Out) (h : forLine eval symbols cur rest o = .ok o')
    (hK : rest.length + 1 ≤ K) :
    Bnd eval symbols (fun e => e.Sublist (cur :: rest)) (vs o + rest.length) K o' := by
  unfold forLine at h
  split at h
  · exact ((outer_size eval symbols K rest).2 _ _ _ _ h hK).mono (fun _ he => he) (by simp)
  · exact (outer_size eval symbols K rest).1 _ _ _ h hK

theorem received_length (l : List Token) : (received l).length ≤ l.length := by
  induction l with
  | nil => simp [received]
  | cons t r ih =>
    unfold received
    split
    · simp
    · simp only [List.length_cons]; omega

end ForExpand

open ForExpand in
/-- the count of the block one pass unrolls: 0 when the pass unrolls none, else the value the
    evaluator returns for a count expression that is a subsequence of the input -/
def IsCount (eval : List Token → SymTab → EvalRes) (syms : SymTab) (toks : List Token) (n : Nat) : Prop :=
  n = 0 ∨ ∃ expr v, expr.Sublist toks ∧ eval expr syms = .ok v ∧ n = v.toNat

open ForExpand in
/-- `expand_pass_size` — one pass of the FOR expander, on ANY token list: the output is the input
    plus at most `count` copies of (a part of) it, `count` being the evaluated count of the one
    block the pass unrolls -/
theorem expand_pass_size {eval : List Token → SymTab → EvalRes} {toks out : List Token}
    {syms : SymTab} {u : Bool} (h : forExpandWith eval toks syms = .ok (some out, u)) :
    ∃ n, IsCount eval syms toks n ∧ out.length ≤ toks.length + n * toks.length := by
  unfold forExpandWith at h
  cases hs : ForExpand.sendsWith eval toks syms with
  | error f => rw [hs] at h; cases h
  | ok x =>
    obtain ⟨s, u'⟩ := x
    rw [hs] at h
    simp only [Except.map, Except.ok.injEq, Prod.mk.injEq, Option.some.injEq] at h
    obtain ⟨rfl, _⟩ := h
    unfold sendsWith at hs
    split at hs
    · cases hs
    · rename_i t r
      split at hs
      · cases hs
      · split at hs
        · cases hs
        · rename_i o ho
          simp only [Except.ok.injEq, Prod.mk.injEq] at hs
          obtain ⟨rfl, _⟩ := hs
          obtain ⟨n, hn, hv⟩ := forLine_size eval syms (t :: r).length t r {} o ho (by simp)
          refine ⟨n, hn, ?_⟩
          have h1 := received_length (o.emit { typ := .eof, val := "" }).toks.toList
          have h2 := size_emit_eof o
          have h3 : vs ({} : Out) = 1 := rfl
          simp only [Array.length_toList] at h1
          simp only [List.length_cons] at hv ⊢
          omega

/-- the same with a bound on every count the evaluator can return on this input -/
theorem expand_pass_size_le {eval : List Token → SymTab → EvalRes} {toks out : List Token}
    {syms : SymTab} {u : Bool} {n : Nat}
    (hn : ∀ expr v, expr.Sublist toks → eval expr syms = .ok v → v.toNat ≤ n)
    (h : forExpandWith eval toks syms = .ok (some out, u)) :
    out.length ≤ toks.length * (n + 1) := by
  obtain ⟨m, hm, hle⟩ := expand_pass_size h
  have hmn : m ≤ n := by
    rcases hm with rfl | ⟨e, v, hs, hev, rfl⟩
    · omega
    · exact hn e v hs hev
  have : m * toks.length ≤ n * toks.length := Nat.mul_le_mul_right _ hmn
  rw [Nat.mul_succ, Nat.mul_comm toks.length n]
  omega

/-- a pass that unrolls nothing (no count evaluated, or count ≤ 0) does not lengthen the stream -/
theorem expand_pass_size_zero {eval : List Token → SymTab → EvalRes} {toks out : List Token}
    {syms : SymTab} {u : Bool}
    (hn : ∀ expr v, expr.Sublist toks → eval expr syms = .ok v → v ≤ 0)
    (h : forExpandWith eval toks syms = .ok (some out, u)) :
    out.length ≤ toks.length := by
  have := expand_pass_size_le (n := 0) (fun e v hs hev => by have := hn e v hs hev; omega) h
  omega

end Gmars
