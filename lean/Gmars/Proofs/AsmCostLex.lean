/-
  C05 cost, part 1: the lexer is linear. Every token the lexer sends has consumed at least one
  rune of its own (plus the closing tokEOF), and every rune is at least one byte:

      (lexBytes src).length ≤ src.length + 1          for EVERY byte string.

  A round of the machine (`lexInputStep cur rest`) is `Lin rest.length`: when it comes back to
  `lexInput` with `r` unread runes it has sent at most `rest.length - r.length` tokens; when it
  stops it has sent at most `rest.length + 2` (one per rune incl. the look-ahead, and tokEOF).
-/
import Gmars.Model.Lex
import Gmars.Proofs.RenderLex

namespace Gmars
open Gmars.Unicode
namespace Lex

/-- the tokens of a round are paid for by the runes it has read; `n` = unread runes before -/
def Step.Lin (s : Step) (n : Nat) : Prop :=
  match s.2 with
  | none => s.1.length ≤ n + 2
  | some (_, r) => s.1.length + r.length ≤ n

/-- the weaker shape of the loops that run with a pending token in their buffer: at most one
    token (two when stopping: the token and tokEOF), and the reader does not grow -/
def Step.One (s : Step) (n : Nat) : Prop :=
  match s.2 with
  | none => s.1.length ≤ 2
  | some (_, r) => s.1.length ≤ 1 ∧ r.length ≤ n

theorem Step.Lin.mono {s : Step} {n m : Nat} (h : s.Lin n) (hnm : n ≤ m) : s.Lin m := by
  obtain ⟨t, o⟩ := s
  cases o with
  | none => simp only [Step.Lin] at h ⊢; omega
  | some p => simp only [Step.Lin] at h ⊢; omega

/-- a pending-token loop entered after one more rune was read is linear -/
theorem Step.One.lin {s : Step} {n : Nat} (h : s.One n) : s.Lin (n + 1) := by
  obtain ⟨t, o⟩ := s
  cases o with
  | none => simp only [Step.One, Step.Lin] at h ⊢; omega
  | some p => simp only [Step.One, Step.Lin] at h ⊢; omega

theorem Step.lin_ite {p : Prop} [Decidable p] {a b : Step} {n : Nat}
    (ha : p → a.Lin n) (hb : ¬p → b.Lin n) : (if p then a else b).Lin n := by
  by_cases h : p
  · rw [if_pos h]; exact ha h
  · rw [if_neg h]; exact hb h

theorem consume_lin (rest) : (consume rest).Lin rest.length := by
  cases rest <;> simp [consume, Step.Lin]

theorem emitConsume_lin (tok rest) : (emitConsume tok rest).Lin rest.length := by
  cases rest <;> simp [emitConsume, Step.Lin] <;> omega

theorem spaceLoop_lin (cur rest) : (spaceLoop cur rest).Lin rest.length := by
  induction rest generalizing cur with
  | nil =>
    unfold spaceLoop; dsimp only
    split
    · split <;> simp [Step.Lin]
    · simp [Step.Lin]
  | cons x xs ih =>
    unfold spaceLoop; dsimp only
    split
    · have := ih x
      rcases hs : spaceLoop x xs with ⟨t, s⟩
      rw [hs] at this
      cases s with
      | none =>
        simp only [Step.Lin, List.length_append, List.length_cons] at this ⊢
        split <;> simp <;> omega
      | some p =>
        simp only [Step.Lin, List.length_append, List.length_cons] at this ⊢
        split <;> simp <;> omega
    · simp [Step.Lin]

theorem lexText_one (cur rest buf) : (lexText cur rest buf).One rest.length := by
  induction rest generalizing cur buf with
  | nil =>
    unfold lexText; dsimp only
    split
    · simp [Step.One]
    · split <;> simp [Step.One]
  | cons x xs ih =>
    unfold lexText; dsimp only
    split
    · have := ih x (cur :: buf)
      rcases hs : lexText x xs (cur :: buf) with ⟨t, s⟩
      rw [hs] at this
      cases s with
      | none => exact this
      | some p => simp only [Step.One, List.length_cons] at this ⊢; omega
    · split <;> simp [Step.One]

theorem lexText_lin (cur rest) : (lexText cur rest []).Lin rest.length := by
  unfold lexText
  split
  · cases rest with
    | nil => simp [Step.Lin]
    | cons x xs => exact (lexText_one x xs [cur]).lin
  · simp [Step.Lin]

theorem lexDigits_one (cur rest buf) : (lexDigits cur rest buf).One rest.length := by
  induction rest generalizing cur buf with
  | nil =>
    unfold lexDigits; dsimp only
    split <;> simp [Step.One]
  | cons x xs ih =>
    unfold lexDigits; dsimp only
    split
    · have := ih x (cur :: buf)
      rcases hs : lexDigits x xs (cur :: buf) with ⟨t, s⟩
      rw [hs] at this
      cases s with
      | none => exact this
      | some p => simp only [Step.One, List.length_cons] at this ⊢; omega
    · simp [Step.One]

theorem lexDigits_lin (cur rest) (hc : isDigitU cur = true) :
    (lexDigits cur rest []).Lin rest.length := by
  unfold lexDigits
  rw [if_pos hc]
  cases rest with
  | nil => simp [Step.Lin]
  | cons x xs => exact (lexDigits_one x xs [cur]).lin

theorem lexNumber_one (cur rest) : (lexNumber cur rest).One rest.length := by
  induction rest generalizing cur with
  | nil =>
    unfold lexNumber; dsimp only
    split
    · simp [Step.One]
    · exact lexDigits_one _ _ _
  | cons x xs ih =>
    unfold lexNumber; dsimp only
    split
    · have := ih x
      rcases hs : lexNumber x xs with ⟨t, s⟩
      rw [hs] at this
      cases s with
      | none => exact this
      | some p => simp only [Step.One, List.length_cons] at this ⊢; omega
    · exact lexDigits_one _ _ _

theorem lexNumber_lin (cur rest) (hc : isDigitU cur = true) :
    (lexNumber cur rest).Lin rest.length := by
  unfold lexNumber
  split
  · cases rest with
    | nil => simp [Step.Lin]
    | cons x xs => exact (lexNumber_one x xs).lin
  · exact lexDigits_lin cur rest hc

theorem lexComment_one (cur rest buf) : (lexComment cur rest buf).One rest.length := by
  induction rest generalizing cur buf with
  | nil =>
    unfold lexComment; dsimp only
    split <;> simp [Step.One]
  | cons x xs ih =>
    unfold lexComment; dsimp only
    split
    · have := ih x (cur :: buf)
      rcases hs : lexComment x xs (cur :: buf) with ⟨t, s⟩
      rw [hs] at this
      cases s with
      | none => exact this
      | some p => simp only [Step.One, List.length_cons] at this ⊢; omega
    · simp [Step.One]

theorem lexComment_lin (cur rest) (hc : (cur != '\n') = true) :
    (lexComment cur rest []).Lin rest.length := by
  unfold lexComment
  rw [if_pos hc]
  cases rest with
  | nil => simp [Step.Lin]
  | cons x xs => exact (lexComment_one x xs [cur]).lin

/-- entered after `consume`: the first character of the pair pays for the token -/
theorem lexDouble_lin (ch cur rest) : (lexDouble ch cur rest).Lin (rest.length + 1) := by
  unfold lexDouble
  split
  · exact (emitConsume_lin _ _).mono (Nat.le_succ _)
  · simp [Step.Lin]

theorem lexCmp_lin (ch cur rest) : (lexCmp ch cur rest).Lin (rest.length + 1) := by
  unfold lexCmp
  split
  · exact (emitConsume_lin _ _).mono (Nat.le_succ _)
  · simp [Step.Lin]; omega

theorem consumeThen_lin (next : Char → List Char → Step)
    (hn : ∀ cur rest, (next cur rest).Lin (rest.length + 1)) (rest) :
    (consumeThen next rest).Lin rest.length := by
  cases rest with
  | nil => simp [consumeThen, Step.Lin]
  | cons x xs => exact hn x xs

/-- one round of the machine sends at most one token per rune it reads -/
theorem lexInputStep_lin (cur rest) : (lexInputStep cur rest).Lin rest.length := by
  unfold lexInputStep
  refine Step.lin_ite (fun _ => spaceLoop_lin _ _) (fun _ => ?_)
  refine Step.lin_ite (fun _ => lexText_lin _ _) (fun _ => ?_)
  refine Step.lin_ite (fun h => lexNumber_lin _ _ h) (fun _ => ?_)
  refine Step.lin_ite (fun _ => by simp [Step.Lin]) (fun _ => ?_)
  refine Step.lin_ite (fun h => ?_) (fun _ => ?_)
  · apply lexComment_lin
    have : cur = ';' := by simpa using h
    subst this; decide
  repeat (first
    | exact emitConsume_lin _ _
    | exact consume_lin _
    | exact consumeThen_lin _ (lexCmp_lin _) _
    | exact consumeThen_lin _ (lexDouble_lin _) _
    | (simp [Step.Lin]; done)
    | (apply Step.lin_ite <;> intro _))

/-- the machine started with look-ahead `cur` and `rest` unread: one token per rune, plus tokEOF -/
theorem run_length (cur rest) : (run cur rest).length ≤ rest.length + 2 := by
  induction cur, rest using run.induct with
  | case1 cur rest t h =>
    rw [Render.run_eq, h]
    have := lexInputStep_lin cur rest
    rw [h] at this
    exact this
  | case2 cur rest t c r h ih =>
    rw [Render.run_eq, h]
    have := lexInputStep_lin cur rest
    rw [h] at this
    simp only [Step.Lin] at this
    simp only [Render.cont, List.length_append]
    omega

/-- `sends_linear`: the lexer goroutine sends at most one token per rune, plus the closing one -/
theorem sends_length (input : List Char) : (sends input).length ≤ input.length + 1 := by
  cases input with
  | nil => rw [Render.sends_nil]; simp
  | cons c r => rw [sends]; have := run_length c r; simp only [List.length_cons]; omega

theorem tokens_length (input : List Char) : (tokens input).length ≤ input.length + 1 := by
  rw [tokens_eq_sends]; exact sends_length input

end Lex

/-- `ReadRune` delivers at most one rune per byte (invalid bytes are one U+FFFD each) -/
theorem decodeRunes_length (src : List UInt8) : (decodeRunes src).length ≤ src.length := by
  induction src using decodeRunes.induct with
  | case1 => simp [decodeRunes]
  | case2 b0 rest d ih =>
    rw [decodeRunes]
    simp only [List.length_cons]
    have : (List.drop (d.2 - 1) rest).length ≤ rest.length := by
      rw [List.length_drop]; omega
    have ih' : (decodeRunes (List.drop ((Utf8.decodeRune b0 rest).2 - 1) rest)).length ≤
        (List.drop (d.2 - 1) rest).length := ih
    omega

/-- `lex_linear` — for EVERY byte string the lexer returns at most one token per byte, plus the
    closing tokEOF -/
theorem lex_linear (src : List UInt8) : (lexBytes src).length ≤ src.length + 1 := by
  have h1 := Lex.tokens_length (decodeRunes src)
  have h2 := decodeRunes_length src
  unfold lexBytes
  omega

/-- the same for the lexer call of `evaluateAssertion`, in runes -/
theorem lexString_linear (s : String) : (Lex.tokens s.toList).length ≤ s.toList.length + 1 :=
  Lex.tokens_length s.toList

end Gmars
